(* Shared-key handshake: exactness of the digest helpers, exact characterisation of
   client acceptance, key separation / replay / reflection analysis under an injective
   hash, non-vacuity examples, and absence of Panic. *)
From Coq Require Import String.
From FF Require Import model.Bytes model.Show model.Msgp model.Forward model.Wf model.Handshake
     proofs.Bytes_Proofs proofs.Msgp_Proofs.
From FF Require Import proofs.Take_Proofs.
From Coq Require Import Lia.
Open Scope N_scope.

(* ------------------------------------------------------------------ *)
(* A. hex is injective                                                 *)
(* ------------------------------------------------------------------ *)

Lemma unhex_hex_byte (b : byte) r :
  unhex (hexd (b2n b / 16) :: hexd (b2n b mod 16) :: r) = b :: unhex r.
Proof. destruct b; reflexivity. Qed.

Lemma unhex_hex : forall a, unhex (hex a) = a.
Proof.
  induction a as [|b a IH]; [reflexivity|].
  unfold hex in *. cbn [flat_map app]. rewrite unhex_hex_byte. now rewrite IH.
Qed.

Theorem hex_inj : forall a b, hex a = hex b -> a = b.
Proof. intros a b E. rewrite <- (unhex_hex a), <- (unhex_hex b). now rewrite E. Qed.

Lemma hex_length a : length (hex a) = (2 * length a)%nat.
Proof.
  induction a as [|b a IH]; [reflexivity|].
  unfold hex in *. cbn [flat_map app length]. rewrite IH. lia.
Qed.

(* ------------------------------------------------------------------ *)
(* B. exactness of the helpers, arbitrary H                            *)
(* ------------------------------------------------------------------ *)

Section Helpers.
  Variable H : bytes -> bytes.

  Theorem validate_ping_iff p key nonce :
    validate_ping H p key nonce = true <->
    pg_digest p = digest H (pg_salt p) (pg_host p) nonce key.
  Proof. unfold validate_ping. apply bytes_eqb_eq. Qed.

  Theorem validate_pong_iff p key nonce salt :
    validate_pong H p key nonce salt = true <->
    po_digest p = digest H salt (po_host p) nonce key.
  Proof. unfold validate_pong. apply bytes_eqb_eq. Qed.

  Lemma validate_pong_false_iff p key nonce salt :
    validate_pong H p key nonce salt = false <->
    po_digest p <> digest H salt (po_host p) nonce key.
  Proof. unfold validate_pong. apply bytes_eqb_neq. Qed.

  Theorem new_pong_digest a reason host key h p po :
    new_pong H a reason host key h p = Ok po ->
    exists o, hl_opts h = Some o /\
              po_digest po = digest H (pg_salt p) host (h_nonce o) key /\
              po_auth po = a /\ po_host po = host.
  Proof.
    unfold new_pong. destruct (hl_opts h) as [o|]; [|discriminate].
    intros E. injection E as <-. exists o. cbn. auto.
  Qed.

  Theorem new_pong_ok_iff a reason host key h p :
    (exists po, new_pong H a reason host key h p = Ok po) <-> hl_opts h <> None.
  Proof.
    unfold new_pong. destruct (hl_opts h); split; intros; try congruence; eauto.
    destruct H0; discriminate.
  Qed.

  Theorem new_pong_err_iff a reason host key h p :
    (exists e, new_pong H a reason host key h p = Err e) <-> hl_opts h = None.
  Proof.
    unfold new_pong. destruct (hl_opts h); split; intros X; try congruence; eauto.
    destruct X; discriminate.
  Qed.

  Theorem new_pong_not_panic a reason host key h p :
    new_pong H a reason host key h p <> Panic.
  Proof. unfold new_pong. destruct (hl_opts h); discriminate. Qed.

  Theorem new_ping_valid host key salt nonce :
    validate_ping H (new_ping H host key salt nonce) key nonce = true.
  Proof. apply validate_ping_iff. reflexivity. Qed.

  (* the pong made by new_pong for a ping validates against that ping's salt and the
     HELO's nonce, under the same key *)
  Theorem new_pong_valid a reason host key h p po o :
    new_pong H a reason host key h p = Ok po -> hl_opts h = Some o ->
    validate_pong H po key (h_nonce o) (pg_salt p) = true.
  Proof.
    intros E Ho. apply new_pong_digest in E as (o' & Ho' & D & _ & Hh).
    rewrite Ho in Ho'. injection Ho' as <-.
    apply validate_pong_iff. now rewrite D, Hh.
  Qed.
End Helpers.

(* ------------------------------------------------------------------ *)
(* F (first, because C uses nothing of it but E/C' do): no Panic       *)
(* ------------------------------------------------------------------ *)

Definition np {A} (r : res A) : Prop := r <> Panic.

Lemma np_ok {A} (a : A) : np (Ok a). Proof. discriminate. Qed.
Lemma np_err {A} e : np (@Err A e). Proof. discriminate. Qed.
Lemma bind_not_panic {A B} (x : res A) (f : A -> res B) :
  np x -> (forall a, np (f a)) -> np (bind x f).
Proof. unfold np. destruct x; cbn; intros; auto; congruence. Qed.

Create HintDb np.
#[local] Hint Resolve np_ok np_err : np.

Ltac np_step :=
  match goal with
  | |- np (Ok _) => apply np_ok
  | |- np (Err _) => apply np_err
  | |- np (bind _ _) => apply bind_not_panic; [|intros]
  | |- np (if ?c then _ else _) => destruct c
  | |- np (match ?x with (_, _) => _ end) => destruct x
  | |- np (match ?x with Slice => _ | Stream => _ end) => destruct x
  | |- np (match ?x with [] => _ | _ :: _ => _ end) => destruct x
  | |- np _ => solve [auto with np]
  end.
Ltac np_tac := cbv zeta; repeat np_step.

Lemma take_np k bs : np (take k bs).
Proof. rewrite !take_unfold. np_tac. Qed.
#[local] Hint Resolve take_np : np.
Lemma rd_be_np k bs : np (rd_be k bs).
Proof. unfold rd_be. np_tac. Qed.
#[local] Hint Resolve rd_be_np : np.
Lemma rd_arr_hdr_np bs : np (rd_arr_hdr bs).
Proof. unfold rd_arr_hdr. np_tac. Qed.
Lemma rd_map_hdr_np bs : np (rd_map_hdr bs).
Proof. unfold rd_map_hdr. np_tac. Qed.
Lemma rd_str_np bs : np (rd_str bs).
Proof. unfold rd_str. np_tac. Qed.
Lemma rd_bin_np bs : np (rd_bin bs).
Proof. unfold rd_bin. np_tac. Qed.
#[local] Hint Resolve rd_arr_hdr_np rd_map_hdr_np rd_str_np rd_bin_np : np.
Lemma rd_map_key_np bs : np (rd_map_key bs).
Proof. unfold rd_map_key. destruct bs; np_tac. Qed.
#[local] Hint Resolve rd_map_key_np : np.
Lemma rd_map_key_ptr_np bs : np (rd_map_key_ptr bs).
Proof. unfold rd_map_key_ptr. np_tac. Qed.
#[local] Hint Resolve rd_map_key_ptr_np : np.
Lemma rd_field_key_np p bs : np (rd_field_key p bs).
Proof. unfold rd_field_key. np_tac. Qed.
Lemma rd_nil_np bs : np (rd_nil bs).
Proof. unfold rd_nil. np_tac. Qed.
Lemma rd_bool_np bs : np (rd_bool bs).
Proof. unfold rd_bool. np_tac. Qed.
#[local] Hint Resolve rd_field_key_np rd_nil_np rd_bool_np : np.

Lemma skip_all_np p : forall f,
  (forall bs, np (skip p f bs)) /\ (forall cnt bs, np (skip_n p f cnt bs)).
Proof.
  induction f as [|f (IHs & IHn)].
  - split; intros; apply np_err.
  - split.
    + intros bs. destruct bs as [|b bs]; [apply np_err|]. cbn [skip]. np_tac.
    + intros cnt bs. cbn [skip_n]. np_tac.
Qed.
Lemma skip_np p f bs : np (skip p f bs).
Proof. apply (skip_all_np p f). Qed.
#[local] Hint Resolve skip_np : np.

Lemma U_helo_opts_loop_np p : forall f cnt bs o, np (U_helo_opts_loop p f cnt bs o).
Proof.
  induction f as [|f IH]; intros; [apply np_err|].
  cbn [U_helo_opts_loop]. np_tac.
Qed.
#[local] Hint Resolve U_helo_opts_loop_np : np.

Theorem U_helo_not_panic p bs : U_helo p bs <> Panic.
Proof. change (np (U_helo p bs)). unfold U_helo. np_tac. Qed.
Theorem U_ping_not_panic p bs : U_ping p bs <> Panic.
Proof. change (np (U_ping p bs)). unfold U_ping. np_tac. Qed.
Theorem U_pong_not_panic p bs : U_pong p bs <> Panic.
Proof. change (np (U_pong p bs)). unfold U_pong. np_tac. Qed.

Theorem client_handshake_no_panic H chost key salt inp1 inp2 :
  snd (client_handshake H chost key salt inp1 inp2) <> Panic.
Proof.
  unfold client_handshake.
  pose proof (U_helo_not_panic Stream inp1) as P1.
  destruct (U_helo Stream inp1) as [[h rest1]|e|]; cbn; try discriminate; [|congruence].
  destruct (hl_opts h) as [o|]; cbn; try discriminate.
  pose proof (U_pong_not_panic Stream (rest1 ++ inp2)) as P2.
  destruct (U_pong Stream (rest1 ++ inp2)) as [[po rest2]|e|]; cbn; try discriminate; [|congruence].
  destruct (po_auth po); cbn; try discriminate.
  destruct (validate_pong H po key (h_nonce o) salt); cbn; discriminate.
Qed.

(* ------------------------------------------------------------------ *)
(* C. client acceptance, exact characterisation                        *)
(* ------------------------------------------------------------------ *)

Section Client.
  Variable H : bytes -> bytes.

  Theorem client_accept_iff chost key salt inp1 inp2 :
    snd (client_handshake H chost key salt inp1 inp2) = Ok tt <->
    exists h o rest1 po rest2,
      U_helo Stream inp1 = Ok (h, rest1) /\ hl_opts h = Some o /\
      U_pong Stream (rest1 ++ inp2) = Ok (po, rest2) /\ po_auth po = true /\
      po_digest po = digest H salt (po_host po) (h_nonce o) key.
  Proof.
    unfold client_handshake. split.
    - destruct (U_helo Stream inp1) as [[h rest1]|e|] eqn:E1; cbn; try discriminate.
      destruct (hl_opts h) as [o|] eqn:Eo; cbn; try discriminate.
      destruct (U_pong Stream (rest1 ++ inp2)) as [[po rest2]|e|] eqn:E2; cbn; try discriminate.
      destruct (po_auth po) eqn:Ea; cbn; try discriminate.
      destruct (validate_pong H po key (h_nonce o) salt) eqn:Ev; cbn; try discriminate.
      intros _. exists h, o, rest1, po, rest2. repeat split; auto.
      now apply validate_pong_iff.
    - intros (h & o & rest1 & po & rest2 & E1 & Eo & E2 & Ea & Ed).
      rewrite E1, Eo, E2, Ea. cbn. apply validate_pong_iff in Ed. now rewrite Ed.
  Qed.

  (* what is written: nothing, or exactly one PING *)
  Theorem client_writes chost key salt inp1 inp2 :
    fst (client_handshake H chost key salt inp1 inp2) = [] \/
    exists o, fst (client_handshake H chost key salt inp1 inp2)
              = M_ping (new_ping H chost key salt (h_nonce o)).
  Proof.
    unfold client_handshake.
    destruct (U_helo Stream inp1) as [[h rest1]|e|]; cbn; auto.
    destruct (hl_opts h) as [o|]; cbn; auto.
    right. exists o.
    destruct (U_pong Stream (rest1 ++ inp2)) as [[po rest2]|e|]; cbn; auto.
    destruct (po_auth po); cbn; auto.
    destruct (validate_pong H po key (h_nonce o) salt); cbn; auto.
  Qed.

  (* HELO decodes with options: exactly one PING carrying [salt] and the digest over the
     decoded nonce, whatever happens afterwards *)
  Theorem client_writes_exact chost key salt inp1 inp2 h rest1 o :
    U_helo Stream inp1 = Ok (h, rest1) -> hl_opts h = Some o ->
    fst (client_handshake H chost key salt inp1 inp2)
    = M_ping {| pg_type := str "PING"; pg_host := chost; pg_salt := salt;
                pg_digest := digest H salt chost (h_nonce o) key;
                pg_user := []; pg_pass := [] |}.
  Proof.
    intros E1 Eo. unfold client_handshake. rewrite E1, Eo.
    destruct (U_pong Stream (rest1 ++ inp2)) as [[po rest2]|e|]; cbn; auto.
    destruct (po_auth po); cbn; auto.
    destruct (validate_pong H po key (h_nonce o) salt); cbn; auto.
  Qed.

  (* nothing is written when the HELO does not decode or has nil options *)
  Theorem client_writes_nothing chost key salt inp1 inp2 :
    (forall h rest1 o, U_helo Stream inp1 = Ok (h, rest1) -> hl_opts h <> Some o) ->
    fst (client_handshake H chost key salt inp1 inp2) = [] /\
    exists e, snd (client_handshake H chost key salt inp1 inp2) = Err e.
  Proof.
    intros N. unfold client_handshake.
    pose proof (U_helo_not_panic Stream inp1) as P.
    destruct (U_helo Stream inp1) as [[h rest1]|e|]; [| |congruence].
    - destruct (hl_opts h) as [o|] eqn:Eo; [exfalso; eapply N; eauto|].
      cbn. split; [reflexivity|]. eexists; reflexivity.
    - cbn. split; [reflexivity|]. eexists; reflexivity.
  Qed.

  (* acceptance implies the PING was written (with the nonce of the decoded HELO) *)
  Corollary client_accept_wrote chost key salt inp1 inp2 :
    snd (client_handshake H chost key salt inp1 inp2) = Ok tt ->
    exists h o rest1, U_helo Stream inp1 = Ok (h, rest1) /\ hl_opts h = Some o /\
      fst (client_handshake H chost key salt inp1 inp2)
      = M_ping (new_ping H chost key salt (h_nonce o)).
  Proof.
    intros A. apply client_accept_iff in A as (h & o & rest1 & po & rest2 & E1 & Eo & _).
    exists h, o, rest1. repeat split; auto. now apply client_writes_exact with (rest1 := rest1) (h := h).
  Qed.
End Client.

(* ------------------------------------------------------------------ *)
(* codec round trips for the handshake messages                        *)
(* ------------------------------------------------------------------ *)

Lemma rd_bool_enc b rest : rd_bool (enc_bool b ++ rest) = Ok (b, rest).
Proof. destruct b; reflexivity. Qed.

Definition wf_ping (p : ping) : Prop :=
  len (pg_type p) < two32 /\ len (pg_host p) < two32 /\ len (pg_salt p) < two32 /\
  len (pg_digest p) < two32 /\ len (pg_user p) < two32 /\ len (pg_pass p) < two32.
Definition wf_pong (p : pong) : Prop :=
  len (po_type p) < two32 /\ len (po_reason p) < two32 /\ len (po_host p) < two32 /\
  len (po_digest p) < two32.
Definition wf_helo (h : helo) : Prop :=
  len (hl_type h) < two32 /\
  match hl_opts h with
  | None => True
  | Some o => len (h_nonce o) < two32 /\ len (h_auth o) < two32
  end.

Theorem U_ping_M_ping pa p rest : wf_ping p -> U_ping pa (M_ping p ++ rest) = Ok (p, rest).
Proof.
  intros (H1 & H2 & H3 & H4 & H5 & H6). unfold U_ping, M_ping.
  change [n2b 150] with (enc_arr_hdr 6). rewrite <- !app_assoc.
  rewrite rd_arr_hdr_enc by (vm_compute; reflexivity). red_bind.
  change (negb (6 =? 6)) with false. cbv iota.
  rewrite rd_str_enc by auto. rewrite rd_str_enc by auto. rewrite rd_bin_enc by auto.
  rewrite rd_str_enc by auto. rewrite rd_str_enc by auto. rewrite rd_str_enc by auto.
  destruct p; reflexivity.
Qed.

Theorem U_pong_M_pong pa p rest : wf_pong p -> U_pong pa (M_pong p ++ rest) = Ok (p, rest).
Proof.
  intros (H1 & H2 & H3 & H4). unfold U_pong, M_pong.
  change [n2b 149] with (enc_arr_hdr 5). rewrite <- !app_assoc.
  rewrite rd_arr_hdr_enc by (vm_compute; reflexivity). red_bind.
  change (negb (5 =? 5)) with false. cbv iota.
  rewrite rd_str_enc by auto. rewrite rd_bool_enc.
  rewrite rd_str_enc by auto. rewrite rd_str_enc by auto. rewrite rd_str_enc by auto.
  destruct p; reflexivity.
Qed.

Lemma U_helo_opts_loop_S p f cnt bs o :
  U_helo_opts_loop p (S f) cnt bs o =
  if cnt =? 0 then Ok (o, bs)
  else
    '(k, r) <- rd_field_key p bs ;;
    if bytes_eqb k (str "nonce") then
      '(v, r') <- rd_bin r ;; U_helo_opts_loop p f (cnt - 1) r' {| h_nonce := v; h_auth := h_auth o; h_keepalive := h_keepalive o |}
    else if bytes_eqb k (str "auth") then
      '(v, r') <- rd_bin r ;; U_helo_opts_loop p f (cnt - 1) r' {| h_nonce := h_nonce o; h_auth := v; h_keepalive := h_keepalive o |}
    else if bytes_eqb k (str "keepalive") then
      '(v, r') <- rd_bool r ;; U_helo_opts_loop p f (cnt - 1) r' {| h_nonce := h_nonce o; h_auth := h_auth o; h_keepalive := v |}
    else r' <- skip p (fuel_for r) r ;; U_helo_opts_loop p f (cnt - 1) r' o.
Proof. reflexivity. Qed.

Lemma U_helo_opts_enc p fuel o o0 rest :
  (4 <= fuel)%nat -> len (h_nonce o) < two32 -> len (h_auth o) < two32 ->
  U_helo_opts_loop p fuel 3
    (enc_str (str "nonce") ++ enc_bin (h_nonce o) ++ enc_str (str "auth") ++ enc_bin (h_auth o)
     ++ enc_str (str "keepalive") ++ enc_bool (h_keepalive o) ++ rest) o0 = Ok (o, rest).
Proof.
  intros F Hn Ha.
  do 4 (destruct fuel as [|fuel]; [lia|]). clear F.
  rewrite U_helo_opts_loop_S. change (3 =? 0) with false. cbv iota.
  rewrite rd_field_key_enc by (vm_compute; first [reflexivity | discriminate]). red_bind.
  change (bytes_eqb (str "nonce") (str "nonce")) with true. cbv iota.
  rewrite rd_bin_enc by auto. red_bind. change (3 - 1) with 2.
  rewrite U_helo_opts_loop_S. change (2 =? 0) with false. cbv iota.
  rewrite rd_field_key_enc by (vm_compute; first [reflexivity | discriminate]). red_bind.
  change (bytes_eqb (str "auth") (str "nonce")) with false.
  change (bytes_eqb (str "auth") (str "auth")) with true. cbv iota.
  rewrite rd_bin_enc by auto. red_bind. change (2 - 1) with 1.
  rewrite U_helo_opts_loop_S. change (1 =? 0) with false. cbv iota.
  rewrite rd_field_key_enc by (vm_compute; first [reflexivity | discriminate]). red_bind.
  change (bytes_eqb (str "keepalive") (str "nonce")) with false.
  change (bytes_eqb (str "keepalive") (str "auth")) with false.
  change (bytes_eqb (str "keepalive") (str "keepalive")) with true. cbv iota.
  rewrite rd_bool_enc. red_bind. change (1 - 1) with 0.
  rewrite U_helo_opts_loop_S. change (0 =? 0) with true. cbv iota.
  destruct o; reflexivity.
Qed.

Theorem U_helo_M_helo pa h rest : wf_helo h -> U_helo pa (M_helo h ++ rest) = Ok (h, rest).
Proof.
  intros (Ht & Ho). unfold U_helo, M_helo.
  change [n2b 146] with (enc_arr_hdr 2). rewrite <- !app_assoc.
  rewrite rd_arr_hdr_enc by (vm_compute; reflexivity). red_bind.
  change (negb (2 =? 2)) with false. cbv iota.
  rewrite rd_str_enc by auto.
  destruct h as [ty [o|]]; cbn [hl_opts hl_type] in *.
  - destruct Ho as (Hn & Ha). unfold M_helo_opts. rewrite <- !app_assoc.
    change ([n2b 131] ++ ?x) with (n2b 131 :: x).
    change (is_nil_next (n2b 131 :: ?x)) with false. cbv iota.
    change (n2b 131 :: ?x) with (enc_map_hdr 3 ++ x).
    rewrite rd_map_hdr_enc by (vm_compute; reflexivity).
    rewrite U_helo_opts_enc; auto.
    unfold fuel_for, enc_str. rewrite app_length. cbn. lia.
  - rewrite is_nil_next_enc_nil, rd_nil_enc. reflexivity.
Qed.

(* Completeness for every hash: an honest server (holding [key], answering the client's
   PING with new_pong, auth = true) is accepted, and the PING written decodes. *)
Section Honest.
  Variable H : bytes -> bytes.

  Theorem honest_run_accepted chost shost key salt h o reason po extra :
    wf_helo h -> hl_opts h = Some o ->
    new_pong H true reason shost key h (new_ping H chost key salt (h_nonce o)) = Ok po ->
    wf_pong po ->
    client_handshake H chost key salt (M_helo h) (M_pong po ++ extra)
    = (M_ping (new_ping H chost key salt (h_nonce o)), Ok tt).
  Proof.
    intros Wh Ho Np Wp. unfold client_handshake.
    rewrite <- (app_nil_r (M_helo h)). rewrite U_helo_M_helo by auto. rewrite Ho.
    cbn [app]. rewrite U_pong_M_pong by auto.
    pose proof (new_pong_valid H _ _ _ _ _ _ _ _ Np Ho) as V. cbn [pg_salt new_ping] in V.
    apply (new_pong_digest H) in Np as (_ & _ & _ & -> & _). cbn [negb].
    now rewrite V.
  Qed.
End Honest.

(* ------------------------------------------------------------------ *)
(* D. key separation, replay and reflection under an injective hash    *)
(* ------------------------------------------------------------------ *)

Lemma app_eq_length_head {A} (a a' b b' : list A) :
  length a = length a' -> a ++ b = a' ++ b' -> a = a' /\ b = b'.
Proof.
  revert a'; induction a as [|x a IH]; destruct a' as [|x' a']; cbn; try discriminate; auto.
  intros L E. injection L as L. injection E as -> E. destruct (IH _ L E) as (-> & ->). auto.
Qed.

Lemma app_eq_length_tail {A} (a a' b b' : list A) :
  length b = length b' -> a ++ b = a' ++ b' -> a = a' /\ b = b'.
Proof.
  intros L E. assert (La : length a = length a').
  { apply (f_equal (@length A)) in E. rewrite !app_length in E. lia. }
  now apply app_eq_length_head.
Qed.

(* one observed handshake message: (salt, hostname, nonce) of a digest computed with the key *)
Definition obs := (bytes * bytes * bytes)%type.
Definition obs_salt (x : obs) : bytes := fst (fst x).
Definition obs_host (x : obs) : bytes := snd (fst x).
Definition obs_nonce (x : obs) : bytes := snd x.

Section Injective.
  Variable H : bytes -> bytes.
  Hypothesis H_inj : forall x y, H x = H y -> x = y.

  Theorem digest_inj s1 h1 n1 k1 s2 h2 n2 k2 :
    digest H s1 h1 n1 k1 = digest H s2 h2 n2 k2 ->
    s1 ++ h1 ++ n1 ++ k1 = s2 ++ h2 ++ n2 ++ k2.
  Proof. unfold digest. intros E. apply H_inj, hex_inj, E. Qed.

  Theorem digest_eq_iff s1 h1 n1 k1 s2 h2 n2 k2 :
    digest H s1 h1 n1 k1 = digest H s2 h2 n2 k2 <->
    s1 ++ h1 ++ n1 ++ k1 = s2 ++ h2 ++ n2 ++ k2.
  Proof. split; [apply digest_inj|]. unfold digest. now intros ->. Qed.

  (* a server holding any other key rejects the client's PING *)
  Theorem validate_ping_key host key key' salt nonce :
    validate_ping H (new_ping H host key salt nonce) key' nonce = true -> key' = key.
  Proof.
    intros V. apply validate_ping_iff in V. cbn [new_ping pg_digest pg_salt pg_host] in V.
    apply digest_inj in V. now repeat apply app_inv_head in V.
  Qed.

  Corollary validate_ping_other_key_rejected host key key' salt nonce :
    key' <> key -> validate_ping H (new_ping H host key salt nonce) key' nonce = false.
  Proof.
    intros N. destruct (validate_ping H (new_ping H host key salt nonce) key' nonce) eqn:E; auto.
    now apply validate_ping_key in E.
  Qed.

  (* a PONG made with another key (same salt, host, nonce) is rejected by the client *)
  Theorem pong_other_key_rejected ty a reason host key key' nonce salt :
    key' <> key ->
    validate_pong H {| po_type := ty; po_auth := a; po_reason := reason; po_host := host;
                       po_digest := digest H salt host nonce key' |} key nonce salt = false.
  Proof.
    intros N. apply validate_pong_false_iff. cbn [po_digest po_host]. intros E.
    apply digest_inj in E. repeat apply app_inv_head in E. contradiction.
  Qed.

  (* keys of equal length are separated whatever the other fields are *)
  Theorem digest_key_inj s1 h1 n1 k1 s2 h2 n2 k2 :
    length k1 = length k2 ->
    digest H s1 h1 n1 k1 = digest H s2 h2 n2 k2 -> k1 = k2.
  Proof.
    intros L E. apply digest_inj in E. rewrite !app_assoc in E.
    now apply app_eq_length_tail in E as (_ & ->).
  Qed.

  (* ... but the pre-image is a bare concatenation: field boundaries are not authenticated,
     so a different key does collide when the nonce differs accordingly (any hash) *)
  Theorem digest_boundary_ambiguity s h n x k :
    digest H s h (n ++ [x]) k = digest H s h n (x :: k).
  Proof. unfold digest. now rewrite <- (app_assoc n [x] k). Qed.

  (* salts of equal length (16 in the library) are separated *)
  Theorem digest_salt_inj salt salt' h n k h' n' k' :
    length salt = 16%nat -> length salt' = 16%nat ->
    digest H salt h n k = digest H salt' h' n' k' -> salt = salt'.
  Proof.
    intros L L' E. apply digest_inj in E.
    apply app_eq_length_head in E as (-> & _); auto. congruence.
  Qed.

  (* replay: a digest computed by anybody, for any host / nonce / key, under a different
     16-byte salt is rejected for this handshake's salt *)
  Theorem replay_rejected ty a reason host salt salt0 h0 n0 k0 key nonce :
    length salt = 16%nat -> length salt0 = 16%nat -> salt0 <> salt ->
    validate_pong H {| po_type := ty; po_auth := a; po_reason := reason; po_host := host;
                       po_digest := digest H salt0 h0 n0 k0 |} key nonce salt = false.
  Proof.
    intros L L0 N. apply validate_pong_false_iff. cbn [po_digest po_host]. intros E.
    apply digest_salt_inj in E; auto.
  Qed.

  (* reflection: the client's own PING digest sent back as a PONG digest *)
  Theorem reflection_accepted_iff' ty a reason shost chost salt nonce key :
    validate_pong H {| po_type := ty; po_auth := a; po_reason := reason; po_host := shost;
                       po_digest := digest H salt chost nonce key |} key nonce salt = true
    <-> shost ++ nonce ++ key = chost ++ nonce ++ key.
  Proof.
    rewrite validate_pong_iff. cbn [po_digest po_host]. rewrite digest_eq_iff.
    split; intros E.
    - now apply app_inv_head in E.
    - now rewrite E.
  Qed.

  Theorem reflection_accepted_iff ty a reason shost chost salt nonce key :
    validate_pong H {| po_type := ty; po_auth := a; po_reason := reason; po_host := shost;
                       po_digest := digest H salt chost nonce key |} key nonce salt = true
    <-> shost = chost.
  Proof.
    rewrite reflection_accepted_iff'. split; intros E.
    - now apply app_inv_tail in E.
    - now rewrite E.
  Qed.

  Corollary reflection_rejected ty a reason shost chost salt nonce key :
    shost <> chost ->
    validate_pong H {| po_type := ty; po_auth := a; po_reason := reason; po_host := shost;
                       po_digest := digest H salt chost nonce key |} key nonce salt = false.
  Proof.
    intros N.
    destruct (validate_pong H _ key nonce salt) eqn:E; auto.
    now apply reflection_accepted_iff in E.
  Qed.

  (* What an adversary without the key can have seen: the digests of PINGs and PONGs of
     earlier handshakes (each under a 16-byte salt different from the current one) and
     the current PING.  [earlier] lists (salt_i, host_i, nonce_i). *)
  Definition observed (key chost salt nonce : bytes) (earlier : list obs) (d : bytes) : Prop :=
    d = digest H salt chost nonce key \/
    exists x, In x earlier /\ d = digest H (obs_salt x) (obs_host x) (obs_nonce x) key.

  Definition earlier_ok (salt : bytes) (earlier : list obs) : Prop :=
    forall x, In x earlier -> length (obs_salt x) = 16%nat /\ obs_salt x <> salt.

  Theorem adversary_partial key chost salt nonce earlier po :
    length salt = 16%nat -> earlier_ok salt earlier ->
    observed key chost salt nonce earlier (po_digest po) ->
    po_host po <> chost ->
    validate_pong H po key nonce salt = false.
  Proof.
    intros L EO [D | (x & Hin & D)] N; apply validate_pong_false_iff; rewrite D; intros E.
    - apply digest_inj in E. apply app_inv_head, app_inv_tail in E. congruence.
    - destruct (EO x Hin) as (Lx & Nx). apply digest_salt_inj in E; auto.
  Qed.

  (* exact form: an observed digest is accepted iff it is the current PING digest and
     the PONG names the client's own hostname *)
  Theorem adversary_accept_iff key chost salt nonce earlier po :
    length salt = 16%nat -> earlier_ok salt earlier ->
    observed key chost salt nonce earlier (po_digest po) ->
    (validate_pong H po key nonce salt = true <->
     po_host po = chost /\ po_digest po = digest H salt chost nonce key).
  Proof.
    intros L EO O. split.
    - intros V. assert (Hh : po_host po = chost).
      { destruct (list_eq_dec Byte.byte_eq_dec (po_host po) chost) as [e|n]; auto.
        rewrite (adversary_partial _ _ _ _ _ _ L EO O n) in V. discriminate. }
      split; auto. apply validate_pong_iff in V. now rewrite Hh in V.
    - intros (Hh & D). apply validate_pong_iff. now rewrite Hh.
  Qed.

  (* the same at the level of the client: whatever bytes the adversary delivers, if the
     PONG they decode to carries an observed digest and does not name the client's own
     hostname, the handshake fails *)
  Theorem client_rejects_observed chost key salt inp1 inp2 h o rest1 po rest2 earlier :
    length salt = 16%nat -> earlier_ok salt earlier ->
    U_helo Stream inp1 = Ok (h, rest1) -> hl_opts h = Some o ->
    U_pong Stream (rest1 ++ inp2) = Ok (po, rest2) ->
    observed key chost salt (h_nonce o) earlier (po_digest po) ->
    po_host po <> chost ->
    snd (client_handshake H chost key salt inp1 inp2) = Err EOther.
  Proof.
    intros L EO E1 Eo E2 O N. unfold client_handshake. rewrite E1, Eo, E2.
    rewrite (adversary_partial _ _ _ _ _ _ L EO O N).
    destruct (po_auth po); reflexivity.
  Qed.

  (* acceptance pins the pre-image: if the accepted PONG digest was computed by anybody as
     digest s' h' n' k' with a 16-byte salt, then s' is this handshake's salt and the
     remaining concatenation agrees; for a key of the right length, k' is the key. *)
  Theorem client_accept_preimage chost key salt inp1 inp2 :
    length salt = 16%nat ->
    snd (client_handshake H chost key salt inp1 inp2) = Ok tt ->
    exists h o rest1 po rest2,
      U_helo Stream inp1 = Ok (h, rest1) /\ hl_opts h = Some o /\
      U_pong Stream (rest1 ++ inp2) = Ok (po, rest2) /\ po_auth po = true /\
      forall s' h' n' k', length s' = 16%nat -> po_digest po = digest H s' h' n' k' ->
        s' = salt /\ h' ++ n' ++ k' = po_host po ++ h_nonce o ++ key /\
        (length k' = length key -> k' = key).
  Proof.
    intros L A. apply client_accept_iff in A as (h & o & rest1 & po & rest2 & E1 & Eo & E2 & Ea & D).
    exists h, o, rest1, po, rest2. do 4 (split; [assumption|]).
    intros s' h' n' k' Ls Dk. rewrite D in Dk. split; [|split].
    - symmetry. eapply digest_salt_inj; eauto.
    - apply digest_inj in Dk.
      apply app_eq_length_head in Dk as (_ & E); auto. congruence.
    - intros Lk. symmetry. eapply digest_key_inj; eauto.
  Qed.
End Injective.

(* ------------------------------------------------------------------ *)
(* E. non-vacuity: concrete runs with a toy injective hash             *)
(* ------------------------------------------------------------------ *)

Definition idH (x : bytes) : bytes := x.
Lemma idH_inj : forall x y, idH x = idH y -> x = y.
Proof. auto. Qed.

Definition ex_nonce : bytes := str "nonce-0123456789".
Definition ex_salt : bytes := str "0123456789abcdef".
Definition ex_salt_old : bytes := str "fedcba9876543210".
Definition ex_chost : bytes := str "client.example".
Definition ex_shost : bytes := str "server.example".
Definition ex_key : bytes := str "shared-secret".
Definition ex_helo : helo :=
  {| hl_type := str "HELO";
     hl_opts := Some {| h_nonce := ex_nonce; h_auth := []; h_keepalive := true |} |}.
Definition ex_helo_nil : helo := {| hl_type := str "HELO"; hl_opts := None |}.
Definition ex_ping : ping := new_ping idH ex_chost ex_key ex_salt ex_nonce.
Definition ex_pong (a : bool) (host salt key : bytes) : pong :=
  {| po_type := str "PONG"; po_auth := a; po_reason := []; po_host := host;
     po_digest := digest idH salt host ex_nonce key |}.

Example ex_salt_len : length ex_salt = 16%nat /\ length ex_salt_old = 16%nat.
Proof. split; reflexivity. Qed.

(* honest run: accepted, exactly the PING is written *)
Example ex_honest :
  client_handshake idH ex_chost ex_key ex_salt (M_helo ex_helo)
                   (M_pong (ex_pong true ex_shost ex_salt ex_key))
  = (M_ping ex_ping, Ok tt).
Proof. vm_compute. reflexivity. Qed.

(* the honest PONG is the one new_pong makes *)
Example ex_honest_new_pong :
  new_pong idH true [] ex_shost ex_key ex_helo ex_ping = Ok (ex_pong true ex_shost ex_salt ex_key).
Proof. reflexivity. Qed.

(* same, with the PONG already buffered behind the HELO (one reader for both) *)
Example ex_honest_buffered :
  client_handshake idH ex_chost ex_key ex_salt
                   (M_helo ex_helo ++ M_pong (ex_pong true ex_shost ex_salt ex_key)) []
  = (M_ping ex_ping, Ok tt).
Proof. vm_compute. reflexivity. Qed.

(* the written PING decodes to the expected record and a key holder validates it *)
Example ex_ping_decodes :
  U_ping Stream (M_ping ex_ping) = Ok (ex_ping, []) /\
  validate_ping idH ex_ping ex_key ex_nonce = true /\
  validate_ping idH ex_ping (str "other-secret!") ex_nonce = false.
Proof. vm_compute. auto. Qed.

(* auth = false with a correct digest: rejected (D8 repair), PING was written *)
Example ex_auth_false :
  client_handshake idH ex_chost ex_key ex_salt (M_helo ex_helo)
                   (M_pong (ex_pong false ex_shost ex_salt ex_key))
  = (M_ping ex_ping, Err EOther).
Proof. vm_compute. reflexivity. Qed.

(* server with a wrong key: rejected *)
Example ex_wrong_key :
  client_handshake idH ex_chost ex_key ex_salt (M_helo ex_helo)
                   (M_pong (ex_pong true ex_shost ex_salt (str "other-secret!")))
  = (M_ping ex_ping, Err EOther).
Proof. vm_compute. reflexivity. Qed.

(* nil-options HELO: rejected, nothing written (D10 repair) *)
Example ex_nil_opts :
  client_handshake idH ex_chost ex_key ex_salt (M_helo ex_helo_nil)
                   (M_pong (ex_pong true ex_shost ex_salt ex_key))
  = ([], Err EOther).
Proof. vm_compute. reflexivity. Qed.

(* replayed PONG of an earlier handshake (other salt, right key): rejected *)
Example ex_replay :
  client_handshake idH ex_chost ex_key ex_salt (M_helo ex_helo)
                   (M_pong (ex_pong true ex_shost ex_salt_old ex_key))
  = (M_ping ex_ping, Err EOther).
Proof. vm_compute. reflexivity. Qed.

(* reflection: the client's own PING digest, PONG naming another host: rejected ... *)
Example ex_reflection_other_host :
  client_handshake idH ex_chost ex_key ex_salt (M_helo ex_helo)
    (M_pong {| po_type := str "PONG"; po_auth := true; po_reason := []; po_host := ex_shost;
               po_digest := pg_digest ex_ping |})
  = (M_ping ex_ping, Err EOther).
Proof. vm_compute. reflexivity. Qed.

(* ... but naming the client's own hostname it is ACCEPTED without knowledge of the key
   (the weakness that reflection_accepted_iff pins down) *)
Example ex_reflection_own_host :
  client_handshake idH ex_chost ex_key ex_salt (M_helo ex_helo)
    (M_pong {| po_type := str "PONG"; po_auth := true; po_reason := []; po_host := ex_chost;
               po_digest := pg_digest ex_ping |})
  = (M_ping ex_ping, Ok tt).
Proof. vm_compute. reflexivity. Qed.

(* garbage / truncated input: error, never Panic *)
Example ex_garbage :
  client_handshake idH ex_chost ex_key ex_salt (str "garbage") [] = ([], Err EType) /\
  client_handshake idH ex_chost ex_key ex_salt (M_helo ex_helo) [] = (M_ping ex_ping, Err EShort).
Proof. vm_compute. auto. Qed.

(* the general completeness theorem applies to the example (its premises are satisfiable) *)
Example ex_honest_by_theorem :
  client_handshake idH ex_chost ex_key ex_salt (M_helo ex_helo)
                   (M_pong (ex_pong true ex_shost ex_salt ex_key) ++ [])
  = (M_ping ex_ping, Ok tt).
Proof.
  apply (honest_run_accepted idH ex_chost ex_shost ex_key ex_salt ex_helo
           {| h_nonce := ex_nonce; h_auth := []; h_keepalive := true |} []).
  - vm_compute. auto.
  - reflexivity.
  - reflexivity.
  - vm_compute. auto.
Qed.

(* the injective-hash theorems instantiate at the toy hash *)
Example ex_reflection_iff shost :
  validate_pong idH {| po_type := str "PONG"; po_auth := true; po_reason := []; po_host := shost;
                       po_digest := digest idH ex_salt ex_chost ex_nonce ex_key |}
                ex_key ex_nonce ex_salt = true <-> shost = ex_chost.
Proof. apply reflection_accepted_iff, idH_inj. Qed.

(* ------------------------------------------------------------------ *)
(* assumptions                                                         *)
(* ------------------------------------------------------------------ *)

Print Assumptions hex_inj.
Print Assumptions unhex_hex.
Print Assumptions validate_ping_iff.
Print Assumptions validate_pong_iff.
Print Assumptions new_pong_digest.
Print Assumptions new_pong_err_iff.
Print Assumptions new_pong_ok_iff.
Print Assumptions new_ping_valid.
Print Assumptions new_pong_valid.
Print Assumptions client_accept_iff.
Print Assumptions client_writes.
Print Assumptions client_writes_exact.
Print Assumptions client_writes_nothing.
Print Assumptions client_accept_wrote.
Print Assumptions U_ping_M_ping.
Print Assumptions U_pong_M_pong.
Print Assumptions U_helo_M_helo.
Print Assumptions honest_run_accepted.
Print Assumptions digest_inj.
Print Assumptions digest_eq_iff.
Print Assumptions validate_ping_key.
Print Assumptions validate_ping_other_key_rejected.
Print Assumptions pong_other_key_rejected.
Print Assumptions digest_key_inj.
Print Assumptions digest_boundary_ambiguity.
Print Assumptions digest_salt_inj.
Print Assumptions replay_rejected.
Print Assumptions reflection_accepted_iff'.
Print Assumptions reflection_accepted_iff.
Print Assumptions reflection_rejected.
Print Assumptions adversary_partial.
Print Assumptions adversary_accept_iff.
Print Assumptions client_rejects_observed.
Print Assumptions client_accept_preimage.
Print Assumptions U_helo_not_panic.
Print Assumptions U_ping_not_panic.
Print Assumptions U_pong_not_panic.
Print Assumptions client_handshake_no_panic.
Print Assumptions ex_honest.
Print Assumptions ex_honest_by_theorem.
Print Assumptions ex_reflection_own_host.
