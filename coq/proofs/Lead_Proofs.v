(* Lead-byte analysis shared by the completeness proofs (Chunk_Proofs, Complete_Proofs).
   The lead byte of a msgpack object is classified ONCE ([kind_of]); every function of the
   specification (Spec.parse) and of the library model (Msgp.skip, rd_*, class_of_lead,
   ext_type_peek) is then shown, by exhaustion over the 256 bytes, to dispatch on that
   classification.  All later proofs reason on the 17 kinds, never on the if-chains. *)
From FF Require Import model.Bytes model.Msgp model.Forward model.Spec
  proofs.Bytes_Proofs proofs.Spec_Proofs.
From FF Require Import proofs.Take_Proofs.
From Coq Require Import Lia ZifyN ZifyNat ZifyBool.
Open Scope N_scope.

(* ---------- kinds ---------- *)

Inductive kind :=
| KFixInt (z : Z) | KNil | KBool (b : bool) | KNone
| KFixStr (l : N) | KStr (k : nat) | KBin (k : nat)
| KExtS (k : nat) | KExtF (l : N)
| KF32 | KF64 | KUint (k : nat) | KSint (k : nat)
| KFixArr (c : N) | KFixMap (c : N) | KArr (k : nat) | KMap (k : nat).

Definition kind_of (n : N) : kind :=
  if n <? 128 then KFixInt (Z.of_N n)
  else if n <? 144 then KFixMap (n - 128)
  else if n <? 160 then KFixArr (n - 144)
  else if n <? 192 then KFixStr (n - 160)
  else if n =? 192 then KNil
  else if n =? 193 then KNone
  else if n =? 194 then KBool false
  else if n =? 195 then KBool true
  else if n =? 196 then KBin 1
  else if n =? 197 then KBin 2
  else if n =? 198 then KBin 4
  else if n =? 199 then KExtS 1
  else if n =? 200 then KExtS 2
  else if n =? 201 then KExtS 4
  else if n =? 202 then KF32
  else if n =? 203 then KF64
  else if n =? 204 then KUint 1
  else if n =? 205 then KUint 2
  else if n =? 206 then KUint 4
  else if n =? 207 then KUint 8
  else if n =? 208 then KSint 1
  else if n =? 209 then KSint 2
  else if n =? 210 then KSint 4
  else if n =? 211 then KSint 8
  else if n =? 212 then KExtF 1
  else if n =? 213 then KExtF 2
  else if n =? 214 then KExtF 4
  else if n =? 215 then KExtF 8
  else if n =? 216 then KExtF 16
  else if n =? 217 then KStr 1
  else if n =? 218 then KStr 2
  else if n =? 219 then KStr 4
  else if n =? 220 then KArr 2
  else if n =? 221 then KArr 4
  else if n =? 222 then KMap 2
  else if n =? 223 then KMap 4
  else KFixInt (Z.of_N n - 256).

(* ---------- Spec.parse by kind ---------- *)

Definition parse_kind (f : nat) (k : kind) (r : bytes) : option (value * bytes) :=
  match k with
  | KFixInt z => Some (VInt z, r)
  | KNil => Some (VNil, r)
  | KBool b => Some (VBool b, r)
  | KNone => None
  | KFixStr l => '(s, u) <~ otake l r ;; Some (VStr s, u)
  | KStr k => sized VStr (N.of_nat k) r
  | KBin k => sized VBin (N.of_nat k) r
  | KExtS k => ext_sized (N.of_nat k) r
  | KExtF l => ext_fixed l r
  | KF32 => '(x, u) <~ onum 4 r ;; Some (VF32 x, u)
  | KF64 => '(x, u) <~ onum 8 r ;; Some (VF64 x, u)
  | KUint k => '(x, u) <~ onum (N.of_nat k) r ;; Some (VInt (Z.of_N x), u)
  | KSint k => '(x, u) <~ onum (N.of_nat k) r ;; Some (VInt (n2z k x), u)
  | KFixArr c => parse_arr f c r []
  | KFixMap c => parse_map f c r []
  | KArr k => '(c, u) <~ onum (N.of_nat k) r ;; parse_arr f c u []
  | KMap k => '(c, u) <~ onum (N.of_nat k) r ;; parse_map f c u []
  end.

Lemma parse_kind_eq f b r : parse (S f) (b :: r) = parse_kind f (kind_of (b2n b)) r.
Proof. destruct b; reflexivity. Qed.

(* ---------- Msgp.skip by kind ---------- *)

Definition skip_kind (p : path) (f : nat) (k : kind) (r : bytes) : res bytes :=
  match k with
  | KFixInt _ | KNil | KBool _ => '(_, t) <- take 0 r ;; Ok t
  | KNone => Err EInvalid
  | KFixStr l => '(_, t) <- take l r ;; Ok t
  | KStr k | KBin k => '(l, t) <- rd_be k r ;; '(_, u) <- take l t ;; Ok u
  | KExtS k =>
      match p, k with
      | Stream, 4%nat => Err EShort
      | _, _ => '(l, t) <- rd_be k r ;; '(_, u) <- take (l + 1) t ;; Ok u
      end
  | KExtF l => '(_, t) <- take (l + 1) r ;; Ok t
  | KF32 => '(_, t) <- take 4 r ;; Ok t
  | KF64 => '(_, t) <- take 8 r ;; Ok t
  | KUint k | KSint k => '(_, t) <- take (N.of_nat k) r ;; Ok t
  | KFixArr c => skip_n p f c r
  | KFixMap c => skip_n p f (2 * c) r
  | KArr k => '(c, t) <- rd_be k r ;; skip_n p f c t
  | KMap k => '(c, t) <- rd_be k r ;; skip_n p f (2 * c) t
  end.

Lemma skip_kind_eq p f b r : skip p (S f) (b :: r) = skip_kind p f (kind_of (b2n b)) r.
Proof. destruct p; destruct b; reflexivity. Qed.

Lemma skip_n_S p f cnt bs : skip_n p (S f) cnt bs =
  if cnt =? 0 then Ok bs else r <- skip p f bs ;; skip_n p f (cnt - 1) r.
Proof. reflexivity. Qed.

(* ---------- the primitive readers by kind ---------- *)

Lemma rd_arr_hdr_kind b r : rd_arr_hdr (b :: r) =
  match kind_of (b2n b) with KFixArr c => Ok (c, r) | KArr k => rd_be k r | _ => Err EType end.
Proof. destruct b; reflexivity. Qed.

Lemma rd_map_hdr_kind b r : rd_map_hdr (b :: r) =
  match kind_of (b2n b) with KFixMap c => Ok (c, r) | KMap k => rd_be k r | _ => Err EType end.
Proof. destruct b; reflexivity. Qed.

Lemma rd_str_kind b r : rd_str (b :: r) =
  match kind_of (b2n b) with
  | KFixStr l => take l r
  | KStr k => '(l, t) <- rd_be k r ;; take l t
  | _ => Err EType
  end.
Proof. destruct b; reflexivity. Qed.

Lemma rd_bin_kind b r : rd_bin (b :: r) =
  match kind_of (b2n b) with
  | KBin k => '(l, t) <- rd_be k r ;; take l t
  | _ => Err EType
  end.
Proof. destruct b; reflexivity. Qed.

Lemma is_bin_lead_kind b :
  is_bin_lead (b2n b) = match kind_of (b2n b) with KBin _ => true | _ => false end.
Proof. destruct b; reflexivity. Qed.

Lemma rd_nil_kind b r : rd_nil (b :: r) =
  match kind_of (b2n b) with KNil => Ok r | _ => Err EType end.
Proof. destruct b; reflexivity. Qed.

Lemma is_nil_next_kind b r : is_nil_next (b :: r) =
  match kind_of (b2n b) with KNil => true | _ => false end.
Proof. destruct b; reflexivity. Qed.

Lemma rd_int64_kind b r : rd_int64 (b :: r) =
  match kind_of (b2n b) with
  | KFixInt z => Ok (z, r)
  | KSint k => '(x, t) <- rd_be k r ;; Ok (n2z k x, t)
  | KUint 8 => '(x, t) <- rd_be 8 r ;; if x <? 9223372036854775808 then Ok (Z.of_N x, t) else Err EOverflow
  | KUint k => '(x, t) <- rd_be k r ;; Ok (Z.of_N x, t)
  | _ => Err EType
  end.
Proof. destruct b; reflexivity. Qed.

Lemma rd_uint64_kind b r : rd_uint64 (b :: r) =
  match kind_of (b2n b) with
  | KFixInt z => if (z <? 0)%Z then Err EOverflow else Ok (Z.to_N z, r)
  | KSint k => '(x, t) <- rd_be k r ;; if (n2z k x <? 0)%Z then Err EOverflow else Ok (x, t)
  | KUint k => rd_be k r
  | _ => Err EType
  end.
Proof. destruct b; reflexivity. Qed.

Lemma ext_parts_kind b r : ext_parts (b :: r) =
  match kind_of (b2n b) with
  | KExtF l =>
      match r with
      | t :: r' => '(d, rest) <- take l r' ;; Ok (b2n t, d, rest)
      | [] => Err EShort
      end
  | KExtS k =>
      '(l, r1) <- rd_be k r ;;
      match r1 with
      | t :: r2 => '(d, rest) <- take l r2 ;; Ok (b2n t, d, rest)
      | [] => Err EShort
      end
  | _ => Err EType
  end.
Proof. destruct b; reflexivity. Qed.

(* NextType classes *)
Definition class_kind (k : kind) : tclass :=
  match k with
  | KFixInt _ | KSint _ => Msgp.TInt
  | KUint _ => TUint
  | KFixMap _ | KMap _ => TMap
  | KNil => TNil
  | KNone => TInvalidT
  | KExtS _ | KExtF _ => TExt
  | _ => TOtherT
  end.

Lemma class_of_lead_kind b : class_of_lead (b2n b) = class_kind (kind_of (b2n b)).
Proof. destruct b; reflexivity. Qed.

(* where NextType looks for the extension type byte *)
Lemma ext_type_peek_kind p b r :
  match kind_of (b2n b) with
  | KExtF l =>
      ext_type_peek p (b :: r) =
      match p with
      | Slice => if l + 2 <? len (b :: r) then Ok (Some (b2n (nth 1 (b :: r) x00))) else Ok None
      | Stream => if 2 <=? len (b :: r) then Ok (Some (b2n (nth 1 (b :: r) x00))) else Err EShort
      end
  | KExtS k =>
      ext_type_peek p (b :: r) =
      match p with
      | Slice => if N.of_nat k + 2 <? len (b :: r) then Ok (Some (b2n (nth (S k) (b :: r) x00))) else Ok None
      | Stream => if N.of_nat k + 2 <=? len (b :: r) then Ok (Some (b2n (nth (S k) (b :: r) x00))) else Err EShort
      end
  | _ => True
  end.
Proof. destruct p; destruct b; try exact I; reflexivity. Qed.

Lemma spec_size_kind b :
  spec_size (b2n b) =
  match kind_of (b2n b) with
  | KExtF l => l + 2
  | KExtS k => N.of_nat k + 2
  | _ => spec_size (b2n b)
  end.
Proof. destruct b; reflexivity. Qed.

(* ---------- option readers (Spec) versus result readers (Msgp) ---------- *)

Lemma otake_take k bs h t : otake k bs = Some (h, t) -> take k bs = Ok (h, t).
Proof. rewrite !otake_unfold, !take_unfold. destruct (k <=? len bs); [|discriminate]. now intros [= <- <-]. Qed.

Lemma onum_rd_be k bs x t : onum (N.of_nat k) bs = Some (x, t) -> rd_be k bs = Ok (x, t).
Proof.
  unfold onum, rd_be. destruct (otake (N.of_nat k) bs) as [[h u]|] eqn:E; [|discriminate].
  intros [= <- <-]. now rewrite (otake_take _ _ _ _ E).
Qed.

Lemma otake_split k bs h t : otake k bs = Some (h, t) -> bs = h ++ t /\ len h = k.
Proof.
  rewrite !otake_unfold. destruct (N.leb_spec k (len bs)); [|discriminate]. intros [= <- <-].
  split; [now rewrite firstn_skipn|].
  unfold len in *. rewrite firstn_length. lia.
Qed.

Lemma otake_length k bs h t : otake k bs = Some (h, t) -> (length bs = N.to_nat k + length t)%nat.
Proof.
  intros H. apply otake_split in H as [-> H]. rewrite app_length. unfold len in H. lia.
Qed.

Lemma onum_length k bs x t : onum k bs = Some (x, t) -> (length bs = N.to_nat k + length t)%nat.
Proof.
  unfold onum. destruct (otake k bs) as [[h u]|] eqn:E; [|discriminate].
  intros [= <- <-]. eapply otake_length; eauto.
Qed.

Lemma onum_split k bs x t : onum k bs = Some (x, t) -> exists h, bs = h ++ t /\ len h = k /\ x = unbe h.
Proof.
  unfold onum. destruct (otake k bs) as [[h u]|] eqn:E; [|discriminate].
  intros [= <- <-]. apply otake_split in E as [-> E]. eauto.
Qed.

Lemma onum1_inv bs x t : onum 1 bs = Some (x, t) -> exists b, bs = b :: t /\ x = b2n b.
Proof.
  destruct bs as [|b r]; [discriminate|]. rewrite onum1_cons. intros [= <- <-]. eauto.
Qed.

Lemma take_0 bs : take 0 bs = Ok ([], bs).
Proof. rewrite !take_unfold. destruct (N.leb_spec 0 (len bs)); [reflexivity|lia]. Qed.

Lemma take_succ_cons l b u d w : otake l u = Some (d, w) -> take (l + 1) (b :: u) = Ok (b :: d, w).
Proof.
  rewrite !otake_unfold, !take_unfold. destruct (N.leb_spec l (len u)); [|discriminate]. intros [= <- <-].
  destruct (N.leb_spec (l + 1) (len (b :: u))) as [_|H']; [|unfold len in *; cbn [length] in H'; lia].
  replace (N.to_nat (l + 1)) with (S (N.to_nat l)) by lia. reflexivity.
Qed.

(* ---------- lengths of parses ---------- *)

Lemma parse_length f bs v r : parse f bs = Some (v, r) -> (length r < length bs)%nat.
Proof. intros H. now apply parse_consumed, consumed_length in H. Qed.

Lemma parse_arr_length f c bs acc v r : parse_arr f c bs acc = Some (v, r) -> (length r <= length bs)%nat.
Proof. intros H. now apply parse_arr_suffix, suffix_length in H. Qed.

Lemma parse_map_length f c bs acc v r : parse_map f c bs acc = Some (v, r) -> (length r <= length bs)%nat.
Proof. intros H. now apply parse_map_suffix, suffix_length in H. Qed.

(* decompose a hypothesis [H : obind ... = Some _] *)
Ltac ob H :=
  repeat (let E := fresh "E" in
          apply obind_some in H as ([? ?] & E & H); cbv beta iota in H).

(* decompose [H : parse_kind f k r = Some (v, r')] for a constructor-headed k *)
Ltac inv_kind H :=
  cbn [parse_kind] in H; unfold sized, ext_sized, ext_fixed in H; ob H.
