(* C08 under concurrency: what is on the wire, per thread, against what the threads were
   asked to send and what their calls returned — for every schedule, any number of threads,
   any programs.  (The wire of the model records each Write as ONE entry carrying all the
   bytes of the call: that every data Write carries one whole encoding is [wire_whole].) *)
From Coq Require Import List Arith Bool NArith Lia.
From FF Require Import model.Bytes model.Client model.ClientSpec model.Lts model.ClientConc model.ClientConcSpec
  proofs.Bytes_Proofs proofs.ClientConc_Inv.
Import ListNotations.
Open Scope nat_scope.

(* ---------- lists ---------- *)
Lemma combine_snoc {A B} (l1 : list A) (l2 : list B) a b :
  length l1 = length l2 -> combine (l1 ++ [a]) (l2 ++ [b]) = combine l1 l2 ++ [(a, b)].
Proof.
  revert l2; induction l1 as [|x l1 IH]; intros [|y l2] H; cbn in *; try discriminate; auto.
  f_equal. apply IH. lia.
Qed.

Lemma wire_of_cons t c t0 b w :
  wire_of t ((c, t0, b) :: w) = wire_of t w ++ (if Nat.eqb t0 t then [b] else []).
Proof.
  unfold wire_of. cbn [rev]. rewrite filter_app, map_app. cbn [filter fst snd].
  destruct (Nat.eqb t0 t); reflexivity.
Qed.

(* ---------- the explanation of a wire by a history ---------- *)
Lemma calls_explain_app h1 : forall w1 h2 w2,
  calls_explain h1 w1 = true -> calls_explain h2 w2 = true -> calls_explain (h1 ++ h2) (w1 ++ w2) = true.
Proof.
  induction h1 as [|[o r] h1 IH]; intros w1 h2 w2 H1 H2.
  - destruct w1; [exact H2|discriminate].
  - cbn [app calls_explain] in *. destruct (send_bytes o) as [b|].
    + destruct r; try discriminate.
      * destruct w1 as [|w w1]; [discriminate|]. cbn [app]. apply andb_true_iff in H1. destruct H1 as [E H1].
        rewrite E. cbn. auto.
      * destruct w1 as [|w w1].
        -- cbn [app]. pose proof (IH [] h2 w2 H1 H2) as X. cbn [app] in X.
           destruct w2; auto. rewrite X. apply orb_true_r.
        -- cbn [app]. apply orb_true_iff in H1. destruct H1 as [H1|H1].
           ++ apply andb_true_iff in H1. destruct H1 as [E H1]. rewrite E, (IH _ _ _ H1 H2). reflexivity.
           ++ pose proof (IH _ _ _ H1 H2) as X. cbn [app] in X. rewrite X. apply orb_true_r.
    + destruct (is_send o); [destruct r; try discriminate|]; auto.
Qed.

(* every payload explained by a history is the payload of one of its calls *)
Lemma calls_explain_in h : forall ws b, calls_explain h ws = true -> In b ws ->
  exists o r, In (o, r) h /\ send_bytes o = Some b.
Proof.
  induction h as [|[o r] h IH]; intros ws b H Hin.
  - destruct ws; [contradiction|discriminate].
  - cbn [calls_explain] in H. destruct (send_bytes o) as [b0|] eqn:Eo.
    + assert (Hcons : forall w ws', ws = w :: ws' -> bytes_eqb b0 w && calls_explain h ws' = true ->
                       exists o' r', In (o', r') ((o, r) :: h) /\ send_bytes o' = Some b).
      { intros w ws' -> X. apply andb_true_iff in X. destruct X as [E X]. apply bytes_eqb_eq in E. subst w.
        destruct Hin as [<-|Hin].
        - exists o, r. split; [now left|auto].
        - destruct (IH _ _ X Hin) as [o' [r' [Y Z]]]. exists o', r'. split; [now right|auto]. }
      assert (Hskip : calls_explain h ws = true -> exists o' r', In (o', r') ((o, r) :: h) /\ send_bytes o' = Some b).
      { intros X. destruct (IH _ _ X Hin) as [o' [r' [Y Z]]]. exists o', r'. split; [now right|auto]. }
      destruct r; try discriminate.
      * destruct ws as [|w ws']; [discriminate|]. eapply Hcons; eauto.
      * destruct ws as [|w ws']; [contradiction|].
        apply orb_true_iff in H. destruct H as [H|H]; [eapply Hcons; eauto | auto].
    + assert (Hskip : calls_explain h ws = true -> exists o' r', In (o', r') ((o, r) :: h) /\ send_bytes o' = Some b).
      { intros X. destruct (IH _ _ X Hin) as [o' [r' [Y Z]]]. exists o', r'. split; [now right|auto]. }
      destruct (is_send o); [destruct r; try discriminate|]; auto.
Qed.

(* counting: every successful send is there, nothing beyond the encodable sends *)
Lemma calls_explain_count h : forall ws, calls_explain h ws = true ->
  sends_ok h <= length ws <= sends_encodable h.
Proof.
  unfold sends_ok, sends_encodable.
  induction h as [|[o r] h IH]; intros ws H.
  - destruct ws; [cbn; lia|discriminate].
  - cbn [calls_explain] in H. cbn [filter fst snd].
    destruct (send_bytes o) as [b0|] eqn:Eo.
    + assert (Hs : is_send o = true) by (destruct o; try discriminate Eo; reflexivity). rewrite Hs. cbn [andb].
      destruct r; try discriminate.
      * destruct ws as [|w ws']; [discriminate|]. apply andb_true_iff in H. destruct H as [_ H].
        apply IH in H. cbn [length]. lia.
      * destruct ws as [|w ws'].
        -- apply IH in H. cbn [length] in *. lia.
        -- apply orb_true_iff in H. destruct H as [H|H].
           ++ apply andb_true_iff in H. destruct H as [_ H]. apply IH in H. cbn [length]. lia.
           ++ apply IH in H. cbn [length] in *. lia.
    + destruct (is_send o); [destruct r; try discriminate|]; cbn [andb]; apply IH in H; lia.
Qed.

(* when every send of the history succeeded, the wire of the thread is exactly the sequence
   of their encodings, in program order, each once *)
Lemma calls_explain_all_ok h : forall ws, calls_explain h ws = true -> all_sends_ok h = true -> ws = payloads h.
Proof.
  unfold all_sends_ok, payloads.
  induction h as [|[o r] h IH]; intros ws H Hok.
  - destruct ws; [reflexivity|discriminate].
  - cbn [calls_explain] in H. cbn [forallb flat_map fst snd] in *. apply andb_true_iff in Hok. destruct Hok as [Ho Hok].
    destruct (send_bytes o) as [b0|] eqn:Eo.
    + assert (Hs : is_send o = true) by (destruct o; try discriminate Eo; reflexivity). rewrite Hs in Ho. cbn in Ho.
      destruct r; try discriminate.
      destruct ws as [|w ws']; [discriminate|]. apply andb_true_iff in H. destruct H as [E H].
      apply bytes_eqb_eq in E. subst w. cbn [app]. f_equal. auto.
    + cbn [app]. destruct (is_send o); [destruct r; try discriminate|]; auto.
Qed.

Definition sends (b : bytes) (prog : list cop) : Prop :=
  (exists ch w a, In (CSend (Some b) ch w a) prog) \/ (exists w, In (CSendRaw b w) prog).

(* thread t against its program and the wire *)
Definition hist_ok (prog : list cop) (w : list (nat * nat * bytes)) (t : nat) (l : local) : Prop :=
  exists pre ws, prog = pre ++ l_ops l /\ length pre = length (l_rets l)
                 /\ wire_of t w = ws ++ pending_write l
                 /\ calls_explain (combine pre (l_rets l)) ws = true.

Definition wire_inv (progs : list (list cop)) (g : shared) : Prop :=
  forall conn t b, In (conn, t, b) (g_wire g) -> exists prog, nth_error progs t = Some prog /\ sends b prog.

Definition HInv (progs : list (list cop)) (c : cconfig) : Prop :=
  (forall t l, nth_error (thr c) t = Some l ->
     exists prog, nth_error progs t = Some prog /\ hist_ok prog (g_wire (glob c)) t l)
  /\ wire_inv progs (glob c).

Section Wire.
  Variable cf : cfg.

  Ltac concrete g l :=
    destruct g as [sess next [rd wr pe] A closed wire], l as [p ops rets];
    cbn [g_S g_A g_sess g_next g_closed g_wire rw_readers rw_writer rw_pending l_pc l_ops l_rets] in *.

  (* what a step does to the wire *)
  Lemma cstep_wire g t l g' l' oe :
    cstep cf g t l = Some (g', l', oe) ->
    g_wire g' = g_wire g \/
    exists c b rest, g_wire g' = (c, t, b) :: g_wire g /\
      ((exists ch w a, l_ops l = CSend (Some b) ch w a :: rest) \/ (exists w, l_ops l = CSendRaw b w :: rest)).
  Proof.
    intros Hs. concrete g l. step_cases Hs; cbn; auto; right; eauto 10.
  Qed.

  Lemma singleton_ok b o r : send_bytes o = Some b -> (r = ROk \/ r = RErr) -> calls_explain [(o, r)] [b] = true.
  Proof.
    intros E [->| ->]; cbn; rewrite E, bytes_eqb_refl; reflexivity.
  Qed.
  Lemma singleton_none o r : (is_send o = false \/ r = RErr) -> calls_explain [(o, r)] [] = true.
  Proof.
    intros [E| ->]; cbn.
    - rewrite E. destruct o; try discriminate E; reflexivity.
    - destruct (send_bytes o); [reflexivity|]. destruct (is_send o); reflexivity.
  Qed.

  (* the stepping thread *)
  Lemma hist_step_self prog g t l g' l' oe :
    pc_ok (l_pc l) (l_ops l) = true ->
    hist_ok prog (g_wire g) t l -> cstep cf g t l = Some (g', l', oe) -> hist_ok prog (g_wire g') t l'.
  Proof.
    intros HK [pre [ws [Hp [Hlen [Hw He]]]]] Hs. unfold hist_ok. concrete g l.
    assert (Hfin : forall o rest r W b,
              ops = o :: rest ->
              W = ws ++ b -> calls_explain [(o, r)] b = true ->
              exists pre0 ws0, prog = pre0 ++ rest /\ length pre0 = length (rets ++ [r])
                               /\ W = ws0 ++ [] /\ calls_explain (combine pre0 (rets ++ [r])) ws0 = true).
    { intros o rest r W b -> Hw' Hb. exists (pre ++ [o]), (ws ++ b). repeat split.
      - rewrite <- app_assoc. exact Hp.
      - rewrite !app_length. cbn. lia.
      - now rewrite app_nil_r.
      - rewrite (combine_snoc _ _ _ _ Hlen). apply calls_explain_app; auto. }
    step_cases Hs; cbn [l_pc l_ops l_rets g_wire tl pending_write] in *;
      cbn in HK; try (match type of HK with context [match ?x with _ => _ end] => destruct x; [|discriminate HK] end);
      rewrite ?wire_of_cons, ?Nat.eqb_refl; rewrite ?app_nil_r in Hw;
      first [ solve [exists pre, ws; repeat split; auto; rewrite ?app_nil_r; congruence]
            | solve [eapply (Hfin _ _ _ _ [] eq_refl); [rewrite ?app_nil_r; exact Hw | apply singleton_none; auto]]
            | solve [eapply (Hfin _ _ _ _ [_] eq_refl); [rewrite ?Hw; reflexivity | apply singleton_ok; [reflexivity | auto]]]
            | idtac ].
  Qed.

  (* the other threads: their part of the wire does not change *)
  Lemma hist_step_other prog g t l g' l' oe t' l0 :
    t' <> t -> cstep cf g t l = Some (g', l', oe) -> hist_ok prog (g_wire g) t' l0 -> hist_ok prog (g_wire g') t' l0.
  Proof.
    intros Hne Hs H. destruct (cstep_wire _ _ _ _ _ _ Hs) as [E|[c [b [rest [E _]]]]]; rewrite E; auto.
    destruct H as [pre [ws H]]. exists pre, ws. rewrite wire_of_cons.
    destruct (Nat.eqb_spec t t'); [congruence|]. now rewrite app_nil_r.
  Qed.

  Lemma hinv_init progs : HInv progs (init_conc progs).
  Proof.
    split.
    - intros t l H. cbn in H. rewrite nth_error_map in H. destruct (nth_error progs t) as [prog|]; [|discriminate].
      inversion H; subst; clear H. exists prog. split; auto. exists [], []. cbn. auto.
    - intros conn t b [].
  Qed.

  Lemma hinv_step progs c t c' oe :
    Inv cf c -> HInv progs c -> conc_step cf c t = Some (c', oe) -> HInv progs c'.
  Proof.
    intros HI [HH HW] Hs. apply step_inv_some in Hs. destruct Hs as [l [g' [l' [Hl [Hs ->]]]]]. split; cbn [glob thr].
    - intros t' l0 H0. destruct (Nat.eq_dec t' t) as [->|Hne].
      + rewrite (nth_error_set_nth_eq _ _ _ _ Hl) in H0. inversion H0; subst l0; clear H0.
        destruct (HH _ _ Hl) as [prog [Hp Hh]]. exists prog. split; auto.
        eapply hist_step_self; eauto. exact (inv_pcok _ _ HI _ _ Hl).
      + rewrite (nth_error_set_nth_neq _ _ _ _ Hne) in H0.
        destruct (HH _ _ H0) as [prog [Hp Hh]]. exists prog. split; auto.
        eapply hist_step_other; eauto.
    - intros conn t0 b Hin.
      destruct (cstep_wire _ _ _ _ _ _ Hs) as [E|[c0 [b0 [rest [E Ho]]]]]; rewrite E in Hin; [eauto|].
      destruct Hin as [Hin|Hin]; [|eauto]. inversion Hin; subst; clear Hin.
      destruct (HH _ _ Hl) as [prog [Hp [pre [ws [Hprog _]]]]]. exists prog. split; auto.
      destruct Ho as [[ch [w [a Ho]]]|[w Ho]]; rewrite Ho in Hprog; subst prog.
      * left. exists ch, w, a. apply in_or_app. right. now left.
      * right. exists w. apply in_or_app. right. now left.
  Qed.

  Theorem reachable_hinv progs c : reachable cf progs c -> HInv progs c.
  Proof.
    intros [sch <-].
    assert (X : Inv cf (fst (conc_exec cf (init_conc progs) sch)) /\ HInv progs (fst (conc_exec cf (init_conc progs) sch))).
    { apply (exec_invariant _ _ _ (cstep cf) (fun c => Inv cf c /\ HInv progs c)).
      - intros c t c' e [H1 H2] Hs. split; [eapply step_preserves_inv; eauto | eapply hinv_step; eauto].
      - split; [apply inv_init | apply hinv_init]. }
    apply X.
  Qed.

  (* (a) every Write carries one COMPLETE encoding of a message its thread was asked to send *)
  Theorem wire_whole progs c conn t b :
    reachable cf progs c -> In (conn, t, b) (g_wire (glob c)) ->
    exists prog, nth_error progs t = Some prog /\
      ((exists ch w a, In (CSend (Some b) ch w a) prog) \/ (exists w, In (CSendRaw b w) prog)).
  Proof. intros HR Hin. apply reachable_hinv in HR. destruct HR as [_ HW]. exact (HW _ _ _ Hin). Qed.

  (* the same, as the executable check the harness runs on the observed wire *)
  Lemma sends_b_true b prog : sends b prog -> sends_b b prog = true.
  Proof.
    intros H. unfold sends_b. apply existsb_exists.
    destruct H as [[ch [w [a H]]]|[w H]]; eexists; (split; [exact H|]); cbn; apply bytes_eqb_refl.
  Qed.
  Corollary wire_whole_checked progs c :
    reachable cf progs c -> wire_whole_b progs (g_wire (glob c)) = true.
  Proof.
    intros HR. unfold wire_whole_b. apply forallb_forall. intros [[conn t] b] Hin. cbn [fst snd].
    destruct (wire_whole _ _ _ _ _ HR Hin) as [prog [Hp Hs]]. rewrite Hp. now apply sends_b_true.
  Qed.

  (* where a thread is in its program: the calls that returned are a prefix *)
  Theorem program_position progs c t l :
    reachable cf progs c -> nth_error (thr c) t = Some l ->
    exists prog, nth_error progs t = Some prog /\ prog = firstn (length (l_rets l)) prog ++ l_ops l.
  Proof.
    intros HR Hl. apply reachable_hinv in HR. destruct HR as [HH _].
    destruct (HH _ _ Hl) as [prog [Hp [pre [ws [Hprog [Hlen _]]]]]]. exists prog. split; auto.
    rewrite Hprog at 2. rewrite <- Hlen, firstn_app, firstn_all, Nat.sub_diag. cbn. now rewrite app_nil_r.
  Qed.

  (* (b) results against the wire: the payloads thread t has put on the wire, oldest first,
     are explained by its completed calls (a send that returned ROk contributed its encoding
     exactly once, in program order; one that returned RErr at most once; other calls and
     unencodable messages nothing), followed by the payload of the send still waiting for
     its ack, if any *)
  Theorem send_ok_written_once progs c t l prog :
    reachable cf progs c -> nth_error (thr c) t = Some l -> nth_error progs t = Some prog ->
    exists ws, wire_of t (g_wire (glob c)) = ws ++ pending_write l
               /\ calls_explain (history prog l) ws = true.
  Proof.
    intros HR Hl Hp. apply reachable_hinv in HR. destruct HR as [HH _].
    destruct (HH _ _ Hl) as [prog' [Hp' [pre [ws [Hprog [Hlen [Hw He]]]]]]].
    rewrite Hp in Hp'. injection Hp' as <-.
    exists ws. split; auto. unfold history.
    rewrite Hprog, <- Hlen, firstn_app, firstn_all, Nat.sub_diag. cbn. now rewrite app_nil_r.
  Qed.

  (* counting form *)
  Corollary wire_count progs c t l prog :
    reachable cf progs c -> nth_error (thr c) t = Some l -> nth_error progs t = Some prog ->
    sends_ok (history prog l) + length (pending_write l) <= length (wire_of t (g_wire (glob c)))
    /\ length (wire_of t (g_wire (glob c))) <= sends_encodable (history prog l) + length (pending_write l).
  Proof.
    intros HR Hl Hp. destruct (send_ok_written_once _ _ _ _ _ HR Hl Hp) as [ws [Hw He]].
    rewrite Hw, app_length. apply calls_explain_count in He. lia.
  Qed.

  (* a thread whose sends all succeeded: its part of the wire is exactly the encodings of
     its completed sends, in program order, each exactly once *)
  Corollary all_ok_wire_exact progs c t l prog :
    reachable cf progs c -> nth_error (thr c) t = Some l -> nth_error progs t = Some prog ->
    all_sends_ok (history prog l) = true ->
    wire_of t (g_wire (glob c)) = payloads (history prog l) ++ pending_write l.
  Proof.
    intros HR Hl Hp Hok. destruct (send_ok_written_once _ _ _ _ _ HR Hl Hp) as [ws [Hw He]].
    rewrite Hw. f_equal. now apply calls_explain_all_ok.
  Qed.
End Wire.

Print Assumptions wire_whole.
Print Assumptions wire_whole_checked.
Print Assumptions send_ok_written_once.
Print Assumptions wire_count.
Print Assumptions all_ok_wire_exact.
