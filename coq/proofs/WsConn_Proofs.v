(* C15 (close protocol) and C16 (I/O exclusivity) of ws.connection, for every number of
   threads, all programs, all peer scripts and ALL schedules: an inductive invariant of the
   interleaving system model/WsConn.v, proved by induction over the schedule. *)
From Coq Require Import List Arith NArith Bool Lia.
From FF Require Import model.Bytes model.Lts model.WsConn model.WsConnSpec.
Import ListNotations.

Local Open Scope nat_scope.

(* ------------------------------------------------------------------ *)
(* generic: lists, set_nth, counters                                   *)
(* ------------------------------------------------------------------ *)
Lemma nth_error_set_nth_eq : forall A (ls : list A) t x l,
  nth_error ls t = Some l -> nth_error (set_nth ls t x) t = Some x.
Proof. induction ls; destruct t; simpl; intros; try discriminate; eauto. Qed.

Lemma nth_error_set_nth_neq : forall A (ls : list A) t t' x,
  t <> t' -> nth_error (set_nth ls t x) t' = nth_error ls t'.
Proof. induction ls; destruct t, t'; simpl; intros; try congruence; auto. Qed.

Lemma length_set_nth : forall A (ls : list A) t x, length (set_nth ls t x) = length ls.
Proof. induction ls; destruct t; simpl; intros; auto. Qed.

Lemma nth_set_nth_eq : forall A (ls : list A) t x d, t < length ls -> nth t (set_nth ls t x) d = x.
Proof. induction ls; destruct t; simpl; intros; try lia; auto. apply IHls; lia. Qed.

Lemma nth_set_nth_neq : forall A (ls : list A) t t' x d, t <> t' -> nth t' (set_nth ls t x) d = nth t' ls d.
Proof. induction ls; destruct t, t'; simpl; intros; try congruence; auto. Qed.

Lemma nth_error_nth : forall A (ls : list A) t x d, nth_error ls t = Some x -> nth t ls d = x.
Proof. induction ls; destruct t; simpl; intros; try discriminate; eauto. congruence. Qed.

Lemma cnt_set_nth : forall A (P : A -> bool) (ls : list A) t l l',
  nth_error ls t = Some l -> cnt P (set_nth ls t l') + b2n (P l) = cnt P ls + b2n (P l').
Proof.
  induction ls; destruct t; simpl; intros; try discriminate.
  - inversion H; subst. lia.
  - specialize (IHls _ _ l' H). lia.
Qed.

Lemma cnti_set_nth : forall A (P : nat -> A -> bool) (ls : list A) i t l l',
  nth_error ls t = Some l -> cnti P i (set_nth ls t l') + b2n (P (i + t) l) = cnti P i ls + b2n (P (i + t) l').
Proof.
  induction ls; destruct t; simpl; intros; try discriminate.
  - inversion H; subst. rewrite Nat.add_0_r. lia.
  - specialize (IHls (S i) _ _ l' H). rewrite <- plus_n_Sm. simpl in IHls. lia.
Qed.

Lemma cnti_ext : forall A (P Q : nat -> A -> bool) (ls : list A) i,
  (forall j x, P j x = Q j x) -> cnti P i ls = cnti Q i ls.
Proof. induction ls; simpl; intros; auto. rewrite H. f_equal. auto. Qed.

Lemma cnti_ext_from : forall A (P Q : nat -> A -> bool) (ls : list A) i,
  (forall j x, i <= j -> Q j x = P j x) -> cnti Q i ls = cnti P i ls.
Proof. induction ls; simpl; intros; auto. rewrite H by lia. f_equal. apply IHls. intros; apply H; lia. Qed.

(* the predicate changes at one position only *)
Lemma cnti_ext_except : forall A (P Q : nat -> A -> bool) k (ls : list A) i,
  (forall j x, j <> k -> Q j x = P j x) -> cnti Q i ls <= cnti P i ls + 1.
Proof.
  induction ls; simpl; intros; [lia|].
  destruct (Nat.eq_dec i k).
  - subst. assert (cnti Q (S k) ls = cnti P (S k) ls).
    { apply cnti_ext_from. intros; apply H; lia. }
    destruct (Q k a), (P k a); simpl; lia.
  - rewrite H by auto. specialize (IHls (S i) H). lia.
Qed.

Lemma cnt_le_cnti : forall A (P : A -> bool) (Q : nat -> A -> bool) (ls : list A) i,
  (forall j x, P x = true -> Q j x = true) -> cnt P ls <= cnti Q i ls.
Proof.
  induction ls; simpl; intros; auto. specialize (IHls (S i) H).
  destruct (P a) eqn:E; simpl; [rewrite (H _ _ E); simpl|]; lia.
Qed.

Lemma cnt_pos : forall A (P : A -> bool) ls t l, nth_error ls t = Some l -> P l = true -> 1 <= cnt P ls.
Proof.
  induction ls; destruct t; simpl; intros; try discriminate.
  - inversion H; subst. rewrite H0. simpl. lia.
  - specialize (IHls _ _ H H0). lia.
Qed.

Lemma cnt_le1_unique : forall A (P : A -> bool) ls t1 t2 l1 l2,
  cnt P ls <= 1 -> nth_error ls t1 = Some l1 -> nth_error ls t2 = Some l2 ->
  P l1 = true -> P l2 = true -> t1 = t2.
Proof.
  induction ls; destruct t1, t2; simpl; intros; try discriminate; auto.
  - inversion H0; subst. rewrite H2 in H. pose proof (cnt_pos _ _ _ _ _ H1 H3). simpl in H. lia.
  - inversion H1; subst. rewrite H3 in H. pose proof (cnt_pos _ _ _ _ _ H0 H2). simpl in H. lia.
  - f_equal. eapply IHls; eauto. lia.
Qed.

Lemma cnt_zero_all : forall A (P : A -> bool) ls t l, cnt P ls = 0 -> nth_error ls t = Some l -> P l = false.
Proof.
  intros. destruct (P l) eqn:E; auto. pose proof (cnt_pos _ _ _ _ _ H0 E). lia.
Qed.

Lemma cnt_app : forall A (P : A -> bool) l1 l2, cnt P (l1 ++ l2) = cnt P l1 + cnt P l2.
Proof. induction l1; simpl; intros; auto. rewrite IHl1. lia. Qed.

Lemma cnt_map : forall A B (f : A -> B) (P : B -> bool) l, cnt P (map f l) = cnt (fun x => P (f x)) l.
Proof. induction l; simpl; auto. Qed.

Lemma cnt_false : forall A (P : A -> bool) l, (forall x, P x = false) -> cnt P l = 0.
Proof. induction l; simpl; intros; auto. rewrite H, IHl; auto. Qed.

(* ------------------------------------------------------------------ *)
(* steps and executions                                                *)
(* ------------------------------------------------------------------ *)
Lemma ws_step_inv : forall pd c t c' e,
  ws_step pd c t = Some (c', e) ->
  exists l g' l', nth_error (thr c) t = Some l /\ wstep pd (glob c) t l = Some (g', l', e) /\
                  c' = {| glob := g'; thr := set_nth (thr c) t l' |}.
Proof.
  unfold ws_step, step. intros. destruct (nth_error (thr c) t) as [l|] eqn:E; [|discriminate].
  destruct (wstep pd (glob c) t l) as [[[g' l'] e']|] eqn:W; [|discriminate].
  inversion H; subst. eauto 8.
Qed.

Lemma ws_exec_cons : forall pd c t r,
  fst (ws_exec pd c (t :: r)) =
  match ws_step pd c t with None => fst (ws_exec pd c r) | Some (c', _) => fst (ws_exec pd c' r) end.
Proof.
  intros. unfold ws_exec, ws_step. simpl. destruct (step _ _ _ _ c t) as [[c' e]|]; auto.
  destruct (exec _ _ _ _ c' r). reflexivity.
Qed.

Lemma ws_exec_preserves : forall pd (P : wconfig -> Prop),
  (forall c t c' e, P c -> ws_step pd c t = Some (c', e) -> P c') ->
  forall sch c, P c -> P (fst (ws_exec pd c sch)).
Proof.
  induction sch; intros; auto. rewrite ws_exec_cons.
  destruct (ws_step pd c a) as [[c' e]|] eqn:E; eauto.
Qed.

Lemma ws_exec_app : forall pd s1 s2 c,
  fst (ws_exec pd c (s1 ++ s2)) = fst (ws_exec pd (fst (ws_exec pd c s1)) s2).
Proof.
  induction s1; intros; auto. rewrite <- app_comm_cons, !ws_exec_cons.
  destruct (ws_step pd c a) as [[c' e]|]; auto.
Qed.

Definition reach (pd : bool) (progs : list (list wop)) (script : list peer_item) (cfok : bool) (c : wconfig) : Prop :=
  exists sch, fst (ws_exec pd (winit progs script cfok) sch) = c.

Lemma reach_init : forall pd progs script cfok, reach pd progs script cfok (winit progs script cfok).
Proof. intros. exists []. reflexivity. Qed.

Lemma reach_step : forall pd progs script cfok c t c' e,
  reach pd progs script cfok c -> ws_step pd c t = Some (c', e) -> reach pd progs script cfok c'.
Proof.
  intros. destruct H as [sch H]. exists (sch ++ [t]). rewrite ws_exec_app, H, ws_exec_cons, H0. reflexivity.
Qed.

Lemma reach_exec : forall pd progs script cfok c sch,
  reach pd progs script cfok c -> reach pd progs script cfok (fst (ws_exec pd c sch)).
Proof.
  intros. destruct H as [s H]. exists (s ++ sch). rewrite ws_exec_app, H. reflexivity.
Qed.

Lemma reach_ind : forall pd progs script cfok (P : wconfig -> Prop),
  P (winit progs script cfok) ->
  (forall c t c' e, reach pd progs script cfok c -> P c -> ws_step pd c t = Some (c', e) -> P c') ->
  forall c, reach pd progs script cfok c -> P c.
Proof.
  intros. destruct H1 as [sch H1]. subst c.
  assert (reach pd progs script cfok (fst (ws_exec pd (winit progs script cfok) sch)) /\
          P (fst (ws_exec pd (winit progs script cfok) sch))); [|tauto].
  apply (ws_exec_preserves pd (fun c => reach pd progs script cfok c /\ P c)).
  - intros c t c' e [R Pc] S. split; [eapply reach_step; eauto | eapply H0; eauto].
  - split; auto. apply reach_init.
Qed.

(* case analysis of one micro-step *)
Ltac wstep_cases H :=
  unfold wstep, closer_done in H;
  repeat (match type of H with context[match ?x with _ => _ end] => destruct x eqn:? end);
  try discriminate H; inversion H; subst; clear H.

Ltac pcrw := repeat match goal with H : wl_pc ?l = _ |- _ => rewrite H in *; clear H end.
Ltac fin := cbn in *; pcrw; cbn in *.

Lemma wstep_global_mono : forall pd g t l g' l' e,
  wstep pd g t l = Some (g', l', e) ->
  (f_open (w_flags g) = false -> f_open (w_flags g') = false) /\
  (f_closed (w_flags g) = true -> f_closed (w_flags g') = true) /\
  (f_closesent (w_flags g) = true -> f_closesent (w_flags g') = true) /\
  (f_error (w_flags g) = true -> f_error (w_flags g') = true) /\
  (w_uclosed g = true -> w_uclosed g' = true) /\
  (w_done g = true -> w_done g' = true) /\
  (w_CL g' = w_CL g) /\ (w_LL g' = w_LL g) /\ w_closeframe_ok g' = w_closeframe_ok g /\
  w_closes g <= w_closes g' /\ w_gate g <= w_gate g' /\
  length (w_chans g') = length (w_chans g) /\ length (w_active g') = length (w_active g).
Proof.
  intros. wstep_cases H. all: cbn; rewrite ?length_set_nth; repeat split; auto.
  all: try (destruct (code =? 1006)%N; cbn; auto).
  all: intros; try congruence.
Qed.

Definition LInv (g : wshared) (t : nat) (l : wlocal) : Prop :=
  (holds_wl (wl_pc l) = true <-> w_WL g = Some t) /\
  (forall i e, wl_pc l = QUnderClose i e -> f_closed (w_flags g) = true) /\
  (want_frame (wl_pc l) = true -> f_closesent (w_flags g) = true) /\
  op_ok l = true.

Lemma mlock_some : forall m t m', mlock m t = Some m' -> m = None /\ m' = Some t.
Proof. unfold mlock; intros. destruct m; inversion H; auto. Qed.

Lemma wstep_delta : forall pd g t l g' l' e,
  wstep pd g t l = Some (g', l', e) ->
  b2n (past_gate (wl_pc l')) + w_closes g' + w_gate g = b2n (past_gate (wl_pc l)) + w_closes g + w_gate g' /\
  count8 (w_frames g') + b2n (pre_frame (wl_pc l')) + w_gate g <= count8 (w_frames g) + b2n (pre_frame (wl_pc l)) + w_gate g' /\
  b2n (at_checkerr (wl_pc l')) + b2n (f_closesent (w_flags g')) + w_gate g <= b2n (at_checkerr (wl_pc l)) + b2n (f_closesent (w_flags g)) + w_gate g' /\
  (w_gate g = b2n (negb (f_open (w_flags g))) -> w_gate g' = b2n (negb (f_open (w_flags g')))) /\
  ((want_frame (wl_pc l) = true -> f_closesent (w_flags g) = true) ->
   (pre_frame (wl_pc l) = true -> count8 (w_frames g) = 0) ->
   count8 (w_frames g) <= b2n (f_closesent (w_flags g)) -> count8 (w_frames g') <= b2n (f_closesent (w_flags g'))) /\
  ((forall i e, wl_pc l = QUnderClose i e -> w_closes g = 0) ->
   w_closes g = b2n (w_uclosed g) -> w_closes g' = b2n (w_uclosed g')) /\
  ((forall i e, wl_pc l = QUnderClose i e -> f_closed (w_flags g) = true) ->
   (w_uclosed g = true -> f_closed (w_flags g) = true) -> (w_uclosed g' = true -> f_closed (w_flags g') = true)) /\
  b2n (tok g' t l') + b2n (f_listening (w_flags g)) <= b2n (tok g t l) + b2n (f_listening (w_flags g')) /\
  (forall t', w_WL g' = Some t' -> w_WL g = Some t' \/ t' = t) /\
  (w_active g' = w_active g \/
   exists k, w_active g' = set_nth (w_active g) k true /\ wl_pc l = QLSpawn /\ tok g' t l' = false /\
             f_listening (w_flags g') = f_listening (w_flags g)).
Proof.
  intros. wstep_cases H.
  all: repeat match goal with H : mlock _ _ = Some _ |- _ => apply mlock_some in H; destruct H; subst end.
  all: unfold tok, count8 in *; fin.
  all: repeat split; intros; eauto; try congruence; try lia; try (left; reflexivity); try (right; eexists; repeat split; reflexivity).
  all: try (destruct (code =? 1006)%N; cbn; auto).
  all: repeat (match goal with H : ?x = true |- context[?x] => rewrite H | H : ?x = false |- context[?x] => rewrite H end); cbn in *; try congruence; try lia.
  all: try (right; congruence).
  all: repeat (match goal with |- context [b2n ?b] => destruct b eqn:?; cbn in * end); try congruence; try lia.
Qed.

Ltac boolrw := repeat (match goal with H : ?x = true |- context[?x] => rewrite H | H : ?x = false |- context[?x] => rewrite H end).

Lemma linv_self : forall pd g t l g' l' e,
  wstep pd g t l = Some (g', l', e) -> LInv g t l -> LInv g' t l'.
Proof.
  unfold LInv, op_ok. intros. destruct H0 as (WL & UC & CS & OP). wstep_cases H.
  all: repeat match goal with H : mlock _ _ = Some _ |- _ => apply mlock_some in H; destruct H; subst end.
  all: fin; repeat match goal with H : wl_ops _ = _ |- _ => rewrite H in * end; destruct WL as [WL1 WL2].
  all: repeat split; intros; auto; try congruence; try discriminate.
Qed.

Lemma linv_other : forall pd g t l g' l' e t2 l2,
  wstep pd g t l = Some (g', l', e) -> LInv g t l -> t2 <> t -> LInv g t2 l2 -> LInv g' t2 l2.
Proof.
  unfold LInv. intros pd g t l g' l' e t2 l2 H (WL & _ & _ & _) NE (WL2 & UC2 & CS2 & OP2). wstep_cases H.
  all: repeat match goal with H : mlock _ _ = Some _ |- _ => apply mlock_some in H; destruct H; subst end.
  all: fin; destruct WL as [WLa WLb]; destruct WL2 as [WL2a WL2b].
  all: repeat split; intros; eauto 2; try congruence; try discriminate.
  all: try solve [intuition congruence].
  all: match goal with U : forall i e, wl_pc ?l = QUnderClose i e -> _, H : wl_pc ?l = QUnderClose _ _ |- _ => specialize (U _ _ H); congruence end.
Qed.

(* ------------------------------------------------------------------ *)
(* the layer-1 invariant                                               *)
(* ------------------------------------------------------------------ *)
Definition pgP (l : wlocal) := past_gate (wl_pc l).
Definition preP (l : wlocal) := pre_frame (wl_pc l).
Definition ceP (l : wlocal) := at_checkerr (wl_pc l).

Record Inv1 (c : wconfig) : Prop := {
  I_gate : w_gate (glob c) = b2n (negb (f_open (w_flags (glob c))));
  I_closers : cnt pgP (thr c) + w_closes (glob c) = w_gate (glob c);
  I_frames : count8 (w_frames (glob c)) + cnt preP (thr c) <= w_gate (glob c);
  I_sent : count8 (w_frames (glob c)) <= b2n (f_closesent (w_flags (glob c)));
  I_sent2 : cnt ceP (thr c) + b2n (f_closesent (w_flags (glob c))) <= w_gate (glob c);
  I_ucl : w_closes (glob c) = b2n (w_uclosed (glob c));
  I_closed : w_uclosed (glob c) = true -> f_closed (w_flags (glob c)) = true;
  I_CL : w_CL (glob c) = None;
  I_LL : w_LL (glob c) = None;
  I_tok : cnti (tok (glob c)) 0 (thr c) <= b2n (f_listening (w_flags (glob c)));
  I_wl : forall t', w_WL (glob c) = Some t' -> t' < length (thr c);
  I_lenc : length (w_chans (glob c)) = length (thr c);
  I_lena : length (w_active (glob c)) = length (thr c);
  I_thr : forall t l, nth_error (thr c) t = Some l -> LInv (glob c) t l
}.

Lemma gate_le1 : forall c, Inv1 c -> w_gate (glob c) <= 1.
Proof. intros c I. rewrite (I_gate _ I). destruct (negb _); simpl; lia. Qed.

Lemma tok_active : forall g g' t l, w_active g' = w_active g -> tok g' t l = tok g t l.
Proof. unfold tok; intros. rewrite H. reflexivity. Qed.

Lemma tok_active_except : forall g g' k t l, w_active g' = set_nth (w_active g) k true -> t <> k -> tok g' t l = tok g t l.
Proof. unfold tok; intros. rewrite H. destruct (wl_pc l); auto. apply nth_set_nth_neq; auto. Qed.

Lemma inv1_step : forall pd c t c' e, Inv1 c -> ws_step pd c t = Some (c', e) -> Inv1 c'.
Proof.
  intros pd c t c' e I S. apply ws_step_inv in S. destruct S as (l & g' & l' & N & W & ->).
  pose proof (gate_le1 _ I) as G1.
  pose proof (wstep_delta _ _ _ _ _ _ _ W) as (D1 & D2 & D2b & D3 & D4 & D5 & D6 & D7 & D9 & D8).
  pose proof (wstep_global_mono _ _ _ _ _ _ _ W) as (_ & _ & _ & _ & _ & _ & M1 & M2 & _ & _ & _ & M3 & M4).
  pose proof (I_thr _ I _ _ N) as LI.
  assert (C1 : cnt pgP (set_nth (thr c) t l') + b2n (past_gate (wl_pc l)) = cnt pgP (thr c) + b2n (past_gate (wl_pc l')))
    by (apply (cnt_set_nth _ pgP); auto).
  assert (C2 : cnt preP (set_nth (thr c) t l') + b2n (pre_frame (wl_pc l)) = cnt preP (thr c) + b2n (pre_frame (wl_pc l')))
    by (apply (cnt_set_nth _ preP); auto).
  assert (C2b : cnt ceP (set_nth (thr c) t l') + b2n (at_checkerr (wl_pc l)) = cnt ceP (thr c) + b2n (at_checkerr (wl_pc l')))
    by (apply (cnt_set_nth _ ceP); auto).
  destruct I as [Ig Ic If Is Is2 Iu Icl ICL ILL It Iwl Ilc Ila Ith]. simpl in *.
  assert (PG : past_gate (wl_pc l) = true -> w_closes (glob c) = 0).
  { intros E. pose proof (cnt_pos _ pgP _ _ _ N E). lia. }
  assert (PF : pre_frame (wl_pc l) = true -> count8 (w_frames (glob c)) = 0).
  { intros E. pose proof (cnt_pos _ preP _ _ _ N E). lia. }
  constructor; simpl.
  - auto.
  - lia.
  - lia.
  - apply D4; auto. apply LI.
  - lia.
  - apply D5; auto. intros i e' E. apply PG. rewrite E; reflexivity.
  - apply D6; auto. apply LI.
  - congruence.
  - congruence.
  - destruct D8 as [A | (k & A & PC & T' & LS)].
    + assert (E : forall j x, tok g' j x = tok (glob c) j x) by (intros; apply tok_active; auto).
      rewrite (cnti_ext _ _ _ _ 0 E). rewrite E in D7.
      pose proof (cnti_set_nth _ (tok (glob c)) _ 0 _ _ l' N) as C3. simpl in C3. lia.
    + pose proof (cnti_set_nth _ (tok g') _ 0 _ _ l' N) as C3. simpl in C3.
      pose proof (cnti_ext_except _ (tok (glob c)) (tok g') k (thr c) 0) as C4.
      rewrite T' in C3. unfold tok in C3 at 2. rewrite PC in C3. simpl in C3. rewrite LS.
      assert (cnti (tok g') 0 (thr c) <= cnti (tok (glob c)) 0 (thr c) + 1).
      { apply C4. intros. eapply tok_active_except; eauto. }
      lia.
  - intros t' E. rewrite length_set_nth. destruct (D9 _ E) as [E'| ->]; auto. apply nth_error_Some. congruence.
  - rewrite length_set_nth. congruence.
  - rewrite length_set_nth. congruence.
  - intros t2 l2 N2. destruct (Nat.eq_dec t2 t).
    + subst. rewrite (nth_error_set_nth_eq _ _ _ _ _ N) in N2. inversion N2; subst. eapply linv_self; eauto.
    + rewrite nth_error_set_nth_neq in N2 by auto. eapply linv_other; eauto.
Qed.

(* ---- the initial configuration ---- *)
Lemma alloc_loops_length : forall progs n, length (alloc_loops progs n) = length progs.
Proof. induction progs; simpl; intros; auto. Qed.

Lemma winit_thr_length : forall progs script cfok,
  length (thr (winit progs script cfok)) = length progs + total_listens progs.
Proof.
  intros. unfold winit. simpl. rewrite app_length, !map_length, combine_length, alloc_loops_length, seq_length. lia.
Qed.

Definition init_local (l : wlocal) : Prop :=
  wl_rets l = [] /\ (wl_pc l = QIdle \/ (wl_pc l = QRNotStarted /\ wl_ops l = [] /\ wl_loops l = [])).

Lemma winit_thr_init : forall progs script cfok l, In l (thr (winit progs script cfok)) -> init_local l.
Proof.
  unfold winit, init_local. simpl. intros. apply in_app_or in H. destruct H as [H|H]; apply in_map_iff in H.
  - destruct H as ([p a] & <- & _). simpl. auto.
  - destruct H as (i & <- & _). simpl. auto.
Qed.

Lemma cnt_zero_in : forall A (P : A -> bool) ls, (forall x, In x ls -> P x = false) -> cnt P ls = 0.
Proof. induction ls; simpl; intros; auto. rewrite H, IHls; auto. Qed.

Lemma cnti_zero_in : forall A (P : nat -> A -> bool) ls i, (forall j x, In x ls -> P j x = false) -> cnti P i ls = 0.
Proof. induction ls; simpl; intros; auto. rewrite H, IHls; auto. Qed.

Lemma nth_repeat_same : forall A (x : A) n k, nth k (repeat x n) x = x.
Proof. induction n; destruct k; simpl; auto. Qed.

Lemma inv1_init : forall progs script cfok, Inv1 (winit progs script cfok).
Proof.
  intros. pose proof (winit_thr_init progs script cfok) as TI.
  pose proof (winit_thr_length progs script cfok) as TL.
  constructor.
  - reflexivity.
  - rewrite cnt_zero_in; [reflexivity|]. intros x Hx. destruct (TI _ Hx) as (_ & [E | (E & _)]); unfold pgP; rewrite E; auto.
  - rewrite cnt_zero_in; [cbn; lia|]. intros x Hx. destruct (TI _ Hx) as (_ & [E | (E & _)]); unfold preP; rewrite E; auto.
  - cbn; lia.
  - rewrite cnt_zero_in; [cbn; lia|]. intros x Hx. destruct (TI _ Hx) as (_ & [E | (E & _)]); unfold ceP; rewrite E; auto.
  - reflexivity.
  - simpl; intros; discriminate.
  - reflexivity.
  - reflexivity.
  - rewrite cnti_zero_in; [simpl; lia|]. intros j x Hx. unfold tok.
    destruct (TI _ Hx) as (_ & [E | (E & _)]); rewrite E; auto. simpl. apply nth_repeat_same.
  - simpl; intros; discriminate.
  - rewrite TL. simpl. apply repeat_length.
  - rewrite TL. simpl. apply repeat_length.
  - intros t l N. apply nth_error_In in N. unfold LInv, op_ok.
    destruct (TI _ N) as (_ & [E | (E & O & _)]); rewrite E; simpl; repeat split; intros; try discriminate; auto.
    rewrite O; auto.
Qed.

Theorem reach_inv1 : forall pd progs script cfok c, reach pd progs script cfok c -> Inv1 c.
Proof.
  intros. eapply reach_ind; eauto. apply inv1_init. intros. eapply inv1_step; eauto.
Qed.

(* ------------------------------------------------------------------ *)
(* C15.4  no panic (repaired code); the pinned code panics             *)
(* ------------------------------------------------------------------ *)
Lemma wstep_no_panic : forall g t l g' l' e,
  wstep false g t l = Some (g', l', e) -> w_panic g = false /\ w_panic g' = false.
Proof.
  intros. wstep_cases H; cbn; auto.
  rewrite andb_false_r in *. discriminate.
Qed.

Theorem no_panic : forall progs script cfok c,
  reach false progs script cfok c -> w_panic (glob c) = false.
Proof.
  intros progs script cfok. apply (reach_ind false progs script cfok (fun c => w_panic (glob c) = false)).
  - reflexivity.
  - intros c0 t c' e _ _ S.
    apply ws_step_inv in S. destruct S as (l & g' & l' & _ & W & ->). apply wstep_no_panic in W. simpl. tauto.
Qed.

(* Listen, Close, Listen: the second read loop closes the done channel again *)
Definition pinned_panic_progs : list (list wop) := [[WListen; WListen]; [WClose]].
Definition pinned_panic_sched : list nat :=
  (* thread 0: first Listen up to QLRecv; its loop (thread 2) enters ReadMessage *)
  [0; 0; 0; 2; 2] ++
  (* thread 1: Close (the deadline expires: the silent peer never answers) *)
  [1; 1; 1; 1; 1; 1; 1; 1; 1] ++
  (* loop 2 sees the local close and leaves: close(nextMsg), clear Listening, close(done) *)
  [2; 2; 2; 2] ++
  (* thread 0: Listen returns, second Listen; its loop (thread 3) leaves at once: close(done) again *)
  [0; 0; 0; 0; 3; 3; 3; 3; 3; 3].

Theorem pinned_panics : exists progs script sch,
  progs = [[WListen; WListen]; [WClose]] /\
  w_panic (glob (fst (ws_exec true (winit progs script true) sch))) = true.
Proof. exists pinned_panic_progs, [], pinned_panic_sched. split; [reflexivity | vm_compute; reflexivity]. Qed.

(* the same schedule is harmless for the repaired code *)
Example repaired_same_schedule :
  summary (fst (ws_exec false (winit pinned_panic_progs [] true) (pinned_panic_sched ++ [0; 0]))) =
  ([(QIdle, [0; 0]%N); (QIdle, [2%N]); (QRDone, []); (QRDone, [])], (1, 1, 1, 0), (true, true, false)).
Proof. vm_compute. reflexivity. Qed.

(* ------------------------------------------------------------------ *)
(* C15.1  single closer                                                *)
(* ------------------------------------------------------------------ *)
Theorem single_closer : forall pd progs script cfok c,
  reach pd progs script cfok c ->
  w_gate (glob c) <= 1 /\
  (w_gate (glob c) = 0 <-> f_open (w_flags (glob c)) = true) /\
  cnt pgP (thr c) + w_closes (glob c) = w_gate (glob c) /\
  (* at most one closer, direct or inline, is at or past QCheckErr *)
  (forall t1 t2 l1 l2, nth_error (thr c) t1 = Some l1 -> nth_error (thr c) t2 = Some l2 ->
     past_gate (wl_pc l1) = true -> past_gate (wl_pc l2) = true -> t1 = t2).
Proof.
  intros. pose proof (reach_inv1 _ _ _ _ _ H) as I. pose proof (gate_le1 _ I). pose proof (I_closers _ I).
  repeat split; auto.
  - rewrite (I_gate _ I). destruct (f_open _); simpl; congruence.
  - rewrite (I_gate _ I). intros ->. reflexivity.
  - intros. eapply (cnt_le1_unique _ pgP); eauto. lia.
Qed.

(* Open is never set again: one step, and any execution *)
Theorem open_never_set_again : forall pd c t c' e,
  ws_step pd c t = Some (c', e) -> f_open (w_flags (glob c)) = false -> f_open (w_flags (glob c')) = false.
Proof.
  intros. apply ws_step_inv in H. destruct H as (l & g' & l' & _ & W & ->).
  apply wstep_global_mono in W. simpl. tauto.
Qed.

Corollary open_never_set_again_exec : forall pd sch c,
  f_open (w_flags (glob c)) = false -> f_open (w_flags (glob (fst (ws_exec pd c sch)))) = false.
Proof.
  intros. apply (ws_exec_preserves pd (fun c => f_open (w_flags (glob c)) = false)); auto.
  intros; eapply open_never_set_again; eauto.
Qed.

(* the only way past the gate: the Open test-and-clear succeeded; a closer that finds Open
   cleared returns "multiple close calls" (code 1) (direct call) resp. returns into the
   handler (inline call), without any effect on the shared state *)
Theorem gate_step : forall pd c t c' e l inln,
  ws_step pd c t = Some (c', e) -> nth_error (thr c) t = Some l -> wl_pc l = QGate inln ->
  e = None /\
  if f_open (w_flags (glob c)) then
    w_gate (glob c') = S (w_gate (glob c)) /\ f_open (w_flags (glob c')) = false /\
    nth_error (thr c') t = Some (at_pc l (QCheckErr inln))
  else
    glob c' = glob c /\
    nth_error (thr c') t = Some (if inln then at_pc l (QLHandled 0%N (wl_hmsg l)) else wfinish l 1%N).
Proof.
  intros. apply ws_step_inv in H. destruct H as (l0 & g' & l' & N & W & ->). rewrite H0 in N; inversion N; subst l0.
  simpl. rewrite (nth_error_set_nth_eq _ _ _ _ _ H0).
  unfold wstep, closer_done in W. rewrite H1 in W.
  destruct (w_panic (glob c)); [discriminate|]. destruct (w_CL (glob c)); [discriminate|].
  destruct (f_open (w_flags (glob c))); inversion W; subst; cbn; auto.
Qed.

Theorem late_close_returns_1 : forall pd c t c' e l,
  ws_step pd c t = Some (c', e) -> nth_error (thr c) t = Some l -> wl_pc l = QGate false ->
  f_open (w_flags (glob c)) = false ->
  exists l', nth_error (thr c') t = Some l' /\ wl_pc l' = QIdle /\ wl_rets l' = wl_rets l ++ [1%N] /\
             wl_ops l' = tl (wl_ops l) /\ glob c' = glob c.
Proof.
  intros. pose proof (gate_step _ _ _ _ _ _ _ H H0 H1) as (_ & G). rewrite H2 in G. destruct G as (G1 & G2).
  eexists; split; eauto.
Qed.

Lemma wstep_enter_gate : forall pd g t l g' l' e,
  wstep pd g t l = Some (g', l', e) -> past_gate (wl_pc l') = true -> past_gate (wl_pc l) = false ->
  (exists i, wl_pc l = QGate i) /\ f_open (w_flags g) = true.
Proof.
  intros. wstep_cases H; fin; try discriminate; eauto.
Qed.

(* ------------------------------------------------------------------ *)
(* visible events and the ghost counters                               *)
(* ------------------------------------------------------------------ *)
Lemma wstep_event : forall pd g t l g' l' e,
  wstep pd g t l = Some (g', l', e) ->
  match e with
  | Some WEvClose => w_closes g' = S (w_closes g) /\ w_frames g' = w_frames g /\ (exists i err, wl_pc l = QUnderClose i err)
  | Some (WEvFrame ty d) => w_frames g' = (ty, d) :: w_frames g /\ w_closes g' = w_closes g /\ holds_wl (wl_pc l) = true
  | _ => w_closes g' = w_closes g /\ w_frames g' = w_frames g
  end.
Proof. intros. wstep_cases H; fin; eauto. Qed.

Definition ev_closes (tr : list (nat * wevent)) : nat :=
  cnt (fun x => match snd x with WEvClose => true | _ => false end) tr.
Fixpoint ev_frames (tr : list (nat * wevent)) : list (N * bytes) :=
  match tr with
  | [] => []
  | (_, WEvFrame ty d) :: r => (ty, d) :: ev_frames r
  | _ :: r => ev_frames r
  end.

Lemma ws_exec_cons_full : forall pd c t r,
  ws_exec pd c (t :: r) =
  match ws_step pd c t with
  | None => ws_exec pd c r
  | Some (c', e) => (fst (ws_exec pd c' r), match e with Some x => (t, x) :: snd (ws_exec pd c' r) | None => snd (ws_exec pd c' r) end)
  end.
Proof.
  intros. unfold ws_exec, ws_step. simpl. destruct (step _ _ _ _ c t) as [[c' e]|]; auto.
  destruct (exec _ _ _ _ c' r). reflexivity.
Qed.

(* the trace of visible events determines the ghost counters: the underlying Close calls and
   the frames written are exactly the WEvClose / WEvFrame events, in order *)
Theorem trace_counters : forall pd sch c,
  w_closes (glob (fst (ws_exec pd c sch))) = w_closes (glob c) + ev_closes (snd (ws_exec pd c sch)) /\
  w_frames (glob (fst (ws_exec pd c sch))) = rev (ev_frames (snd (ws_exec pd c sch))) ++ w_frames (glob c).
Proof.
  induction sch; intros.
  - simpl. split; auto.
  - rewrite ws_exec_cons_full. destruct (ws_step pd c a) as [[c' e]|] eqn:S; auto.
    destruct (IHsch c') as (IH1 & IH2). simpl fst. simpl snd.
    apply ws_step_inv in S. destruct S as (l & g' & l' & _ & W & ->). apply wstep_event in W. simpl in *.
    rewrite IH1, IH2. unfold ev_closes.
    destruct e as [[| ty d |]|]; simpl.
    + destruct W as (-> & ->). split; auto.
    + destruct W as (-> & -> & _). rewrite <- app_assoc. split; auto.
    + destruct W as (-> & -> & _). split; auto. lia.
    + destruct W as (-> & ->). split; auto.
Qed.

(* ------------------------------------------------------------------ *)
(* C15.2  one close frame, one underlying Close                        *)
(* ------------------------------------------------------------------ *)
Theorem one_close_frame : forall pd progs script cfok c,
  reach pd progs script cfok c ->
  count8 (w_frames (glob c)) <= 1 /\
  (* a close frame is written only after CloseSent has been set (which happens at QCheckErr,
     and only when the Error flag is clear) *)
  (f_closesent (w_flags (glob c)) = false -> count8 (w_frames (glob c)) = 0) /\
  (* as long as the winner has not written (or skipped) its frame there is none *)
  (forall t l, nth_error (thr c) t = Some l -> pre_frame (wl_pc l) = true -> count8 (w_frames (glob c)) = 0).
Proof.
  intros. pose proof (reach_inv1 _ _ _ _ _ H) as I. pose proof (gate_le1 _ I).
  pose proof (I_frames _ I). pose proof (I_sent _ I). repeat split.
  - lia.
  - intros E. rewrite E in *. simpl in *. lia.
  - intros. pose proof (cnt_pos _ preP _ _ _ H3 H4). lia.
Qed.

Corollary one_close_frame_trace : forall pd progs script cfok sch,
  count8 (ev_frames (snd (ws_exec pd (winit progs script cfok) sch))) <= 1.
Proof.
  intros. pose proof (one_close_frame pd progs script cfok _ (ex_intro _ sch eq_refl)) as (H & _).
  destruct (trace_counters pd sch (winit progs script cfok)) as (_ & F). rewrite F in H. simpl in H.
  rewrite app_nil_r in H. unfold count8 in *.
  assert (R : forall l, cnt is_close_frame (rev l) = cnt is_close_frame l).
  { induction l; simpl; auto. rewrite cnt_app. simpl. lia. }
  rewrite R in H. exact H.
Qed.

(* if the Error flag is set when the winner tests it, no close frame is ever written *)
Definition no_frame_ever (c : wconfig) : Prop :=
  w_gate (glob c) = 1 /\ cnt preP (thr c) = 0 /\ f_closesent (w_flags (glob c)) = false.

Lemma wstep_no_frame : forall pd g t l g' l' e,
  wstep pd g t l = Some (g', l', e) -> f_open (w_flags g) = false -> pre_frame (wl_pc l) = false ->
  f_closesent (w_flags g) = false ->
  pre_frame (wl_pc l') = false /\ f_closesent (w_flags g') = false /\ w_gate g' = w_gate g.
Proof.
  intros. wstep_cases H; fin; try discriminate; try congruence; auto.
  all: try (destruct (code =? 1006)%N; cbn; auto).
Qed.

Lemma no_frame_ever_step : forall pd c t c' e,
  Inv1 c -> no_frame_ever c -> ws_step pd c t = Some (c', e) -> no_frame_ever c'.
Proof.
  intros pd c t c' e I (G & P & S) St. apply ws_step_inv in St. destruct St as (l & g' & l' & N & W & ->).
  assert (O : f_open (w_flags (glob c)) = false).
  { pose proof (I_gate _ I) as E. rewrite G in E. destruct (f_open _); simpl in *; congruence. }
  pose proof (cnt_zero_all _ preP _ _ _ P N) as PL. unfold preP in PL.
  destruct (wstep_no_frame _ _ _ _ _ _ _ W O PL S) as (A & B & C).
  pose proof (cnt_set_nth _ preP _ _ _ l' N) as CN. unfold preP in CN at 2 4. rewrite PL, A in CN.
  unfold no_frame_ever; simpl. simpl in CN. repeat split; auto; try lia; try congruence.
Qed.

Theorem no_close_frame_after_error : forall pd progs script cfok c t c' e l inln,
  reach pd progs script cfok c ->
  nth_error (thr c) t = Some l -> wl_pc l = QCheckErr inln -> f_error (w_flags (glob c)) = true ->
  ws_step pd c t = Some (c', e) ->
  forall sch, count8 (w_frames (glob (fst (ws_exec pd c' sch)))) = 0.
Proof.
  intros pd progs script cfok c t c' e l inln R N PC ER St sch.
  pose proof (reach_inv1 _ _ _ _ _ R) as I.
  assert (I' : Inv1 c') by (eapply inv1_step; eauto).
  assert (NF : no_frame_ever c').
  { pose proof (gate_le1 _ I) as G1. pose proof (I_frames _ I) as F. pose proof (I_sent2 _ I) as SE.
    assert (PRl : preP l = true) by (unfold preP; rewrite PC; auto).
    assert (CEl : ceP l = true) by (unfold ceP; rewrite PC; auto).
    pose proof (cnt_pos _ preP _ _ _ N PRl). pose proof (cnt_pos _ ceP _ _ _ N CEl).
    assert (CS : f_closesent (w_flags (glob c)) = false) by (destruct (f_closesent _); simpl in *; auto; lia).
    apply ws_step_inv in St. destruct St as (l0 & g' & l' & N0 & W & ->). rewrite N in N0; inversion N0; subst l0.
    pose proof (cnt_set_nth _ preP _ _ _ l' N) as CN. rewrite PRl in CN.
    unfold wstep in W. rewrite PC, ER in W. destruct (w_panic (glob c)); [discriminate|]. inversion W; subst.
    unfold no_frame_ever; simpl. unfold preP in CN at 3. simpl in CN. repeat split; auto; lia. }
  assert (K : Inv1 (fst (ws_exec pd c' sch)) /\ no_frame_ever (fst (ws_exec pd c' sch))).
  { apply (ws_exec_preserves pd (fun c => Inv1 c /\ no_frame_ever c)); auto.
    intros c0 t0 c1 e0 (A & B) S0. split; [eapply inv1_step | eapply no_frame_ever_step]; eauto. }
  destruct K as (K1 & _ & _ & K2). pose proof (I_sent _ K1) as SE. rewrite K2 in SE. simpl in SE. lia.
Qed.

Theorem underlying_closed_once : forall pd progs script cfok c,
  reach pd progs script cfok c ->
  w_closes (glob c) <= 1 /\
  (w_uclosed (glob c) = true <-> w_closes (glob c) = 1) /\
  (* Closed is set before the underlying Close *)
  (w_uclosed (glob c) = true -> f_closed (w_flags (glob c)) = true) /\
  (* once the winning closer has finished, the underlying connection has been closed *)
  (w_gate (glob c) = 1 -> (forall t l, nth_error (thr c) t = Some l -> past_gate (wl_pc l) = false) ->
   w_closes (glob c) = 1) /\
  (* and it is closed only by the winner: before, or while he is on his way, it is open *)
  (forall t l, nth_error (thr c) t = Some l -> past_gate (wl_pc l) = true -> w_uclosed (glob c) = false).
Proof.
  intros. pose proof (reach_inv1 _ _ _ _ _ H) as I. pose proof (gate_le1 _ I). pose proof (I_closers _ I).
  pose proof (I_ucl _ I). repeat split.
  - lia.
  - intros E. rewrite E in *. auto.
  - intros E. destruct (w_uclosed (glob c)); auto. simpl in *. lia.
  - apply (I_closed _ I).
  - intros G A. assert (cnt pgP (thr c) = 0); [|lia].
    clear -A. revert A. generalize (thr c). induction l; simpl; intros; auto.
    rewrite IHl. { pose proof (A 0 a eq_refl). unfold pgP. rewrite H. reflexivity. }
    intros t l0 N. apply (A (S t) l0 N).
  - intros t l N P. pose proof (cnt_pos _ pgP _ _ _ N P). destruct (w_uclosed (glob c)); auto. simpl in *. lia.
Qed.

Corollary underlying_closed_once_trace : forall pd progs script cfok sch,
  ev_closes (snd (ws_exec pd (winit progs script cfok) sch)) <= 1.
Proof.
  intros. pose proof (underlying_closed_once pd progs script cfok _ (ex_intro _ sch eq_refl)) as (H & _).
  destruct (trace_counters pd sch (winit progs script cfok)) as (F & _). rewrite F in H. simpl in H. exact H.
Qed.

(* ------------------------------------------------------------------ *)
(* C16.7  one writer                                                   *)
(* ------------------------------------------------------------------ *)
Theorem one_writer : forall pd progs script cfok c,
  reach pd progs script cfok c ->
  (forall t l, nth_error (thr c) t = Some l -> (holds_wl (wl_pc l) = true <-> w_WL (glob c) = Some t)) /\
  (forall t1 t2 l1 l2, nth_error (thr c) t1 = Some l1 -> nth_error (thr c) t2 = Some l2 ->
     holds_wl (wl_pc l1) = true -> holds_wl (wl_pc l2) = true -> t1 = t2).
Proof.
  intros. pose proof (reach_inv1 _ _ _ _ _ H) as I. split.
  - intros t l N. apply (I_thr _ I _ _ N).
  - intros t1 t2 l1 l2 N1 N2 H1 H2.
    apply (I_thr _ I _ _ N1) in H1. apply (I_thr _ I _ _ N2) in H2. congruence.
Qed.

Theorem frame_under_writelock : forall pd progs script cfok c t c' ty d,
  reach pd progs script cfok c ->
  ws_step pd c t = Some (c', Some (WEvFrame ty d)) -> w_WL (glob c) = Some t.
Proof.
  intros. pose proof (reach_inv1 _ _ _ _ _ H) as I.
  apply ws_step_inv in H0. destruct H0 as (l & g' & l' & N & W & ->).
  apply wstep_event in W. destruct W as (_ & _ & HW). apply (I_thr _ I _ _ N). exact HW.
Qed.

(* ------------------------------------------------------------------ *)
(* C15.3  the closer is never blocked for long                         *)
(* ------------------------------------------------------------------ *)
Definition ws_enabled (pd : bool) (c : wconfig) (t : nat) : bool := enabled wshared wlocal wevent (wstep pd) c t.

Lemma enabled_iff : forall pd c t l,
  nth_error (thr c) t = Some l -> (ws_enabled pd c t = true <-> wstep pd (glob c) t l <> None).
Proof.
  unfold ws_enabled, enabled, step. intros. rewrite H.
  destruct (wstep pd (glob c) t l) as [[[g' l'] e]|]; split; intros; congruence.
Qed.

Lemma holder_enabled : forall pd c t l,
  Inv1 c -> w_panic (glob c) = false -> nth_error (thr c) t = Some l -> holds_wl (wl_pc l) = true ->
  ws_enabled pd c t = true.
Proof.
  intros. rewrite (enabled_iff _ _ _ _ H1). destruct (I_thr _ H _ _ H1) as (_ & _ & _ & OP).
  unfold wstep. rewrite H0. unfold op_ok in OP. destruct (wl_pc l); try discriminate; simpl.
  destruct (wl_ops l) as [|[]]; try discriminate.
Qed.

Theorem closer_bounded : forall progs script cfok c t l,
  reach false progs script cfok c ->
  nth_error (thr c) t = Some l -> past_gate (wl_pc l) = true ->
  ws_enabled false c t = true \/
  exists inln t' l', wl_pc l = QWantWL inln /\ w_WL (glob c) = Some t' /\ t' <> t /\
                     nth_error (thr c) t' = Some l' /\ holds_wl (wl_pc l') = true /\ ws_enabled false c t' = true.
Proof.
  intros progs script cfok c t l R N P. pose proof (reach_inv1 _ _ _ _ _ R) as I. pose proof (no_panic _ _ _ _ R) as NP.
  destruct (wl_pc l) eqn:PC; try discriminate.
  all: try (left; rewrite (enabled_iff _ _ _ _ N); unfold wstep; rewrite NP, PC;
            repeat match goal with |- context[if ?b then _ else _] => destruct b end; congruence).
  (* QWantWL *)
  destruct (w_WL (glob c)) as [t'|] eqn:WL.
  - right. assert (t' <> t).
    { intros ->. apply (I_thr _ I _ _ N) in WL. rewrite PC in WL. discriminate. }
    pose proof (I_wl _ I _ WL) as LT. apply nth_error_Some in LT.
    destruct (nth_error (thr c) t') as [l'|] eqn:N'; [|congruence].
    assert (HW : holds_wl (wl_pc l') = true) by (apply (I_thr _ I _ _ N'); auto).
    exists inln, t', l'. repeat split; auto. eapply holder_enabled; eauto.
  - left. rewrite (enabled_iff _ _ _ _ N); unfold wstep; rewrite NP, PC, WL. simpl. congruence.
Qed.

(* every own step brings a closer that has passed the gate closer to its return: at most 7 *)
Theorem closer_rank_decreases : forall pd c t c' e l,
  ws_step pd c t = Some (c', e) -> nth_error (thr c) t = Some l -> past_gate (wl_pc l) = true ->
  exists l', nth_error (thr c') t = Some l' /\ closer_rank (wl_pc l') < closer_rank (wl_pc l) <= 7.
Proof.
  intros. apply ws_step_inv in H. destruct H as (l0 & g' & l' & N & W & ->). rewrite H0 in N; inversion N; subst l0.
  exists l'. simpl. rewrite (nth_error_set_nth_eq _ _ _ _ _ H0). split; auto.
  wstep_cases W; fin; try discriminate; lia.
Qed.

(* ------------------------------------------------------------------ *)
(* C16.8  one reader                                                   *)
(* ------------------------------------------------------------------ *)
Definition readP (l : wlocal) := reading (wl_pc l).

Theorem one_reader : forall pd progs script cfok c,
  reach pd progs script cfok c ->
  cnti (tok (glob c)) 0 (thr c) <= b2n (f_listening (w_flags (glob c))) /\
  cnt readP (thr c) <= 1 /\
  (forall t1 t2 l1 l2, nth_error (thr c) t1 = Some l1 -> nth_error (thr c) t2 = Some l2 ->
     reading (wl_pc l1) = true -> reading (wl_pc l2) = true -> t1 = t2) /\
  (* while a loop is inside ReadMessage the Listening flag is set *)
  (forall t l, nth_error (thr c) t = Some l -> reading (wl_pc l) = true -> f_listening (w_flags (glob c)) = true).
Proof.
  intros. pose proof (reach_inv1 _ _ _ _ _ H) as I. pose proof (I_tok _ I) as T.
  assert (L : cnt readP (thr c) <= cnti (tok (glob c)) 0 (thr c)).
  { apply cnt_le_cnti. unfold readP, tok. intros j x. destruct (wl_pc x); simpl; congruence. }
  assert (b2n (f_listening (w_flags (glob c))) <= 1) by (destruct (f_listening _); simpl; lia).
  repeat split; auto; try lia.
  - intros. eapply (cnt_le1_unique _ readP); eauto. lia.
  - intros t l N R. pose proof (cnt_pos _ readP _ _ _ N R). destruct (f_listening _); auto. simpl in *. lia.
Qed.

(* every ReadMessage call (event WEvRead) is made by the unique holder of the Listening token *)
Theorem read_event_exclusive : forall pd progs script cfok c t c' t2 l2,
  reach pd progs script cfok c ->
  ws_step pd c t = Some (c', Some WEvRead) ->
  nth_error (thr c) t2 = Some l2 -> reading (wl_pc l2) = true -> t2 = t.
Proof.
  intros. apply ws_step_inv in H0. destruct H0 as (l & g' & l' & N & W & ->).
  assert (reading (wl_pc l) = true) by (wstep_cases W; fin; auto).
  destruct (one_reader _ _ _ _ _ H) as (_ & _ & U & _). eapply U; eauto.
Qed.

(* ------------------------------------------------------------------ *)
(* C16.9  the result of Write                                          *)
(* ------------------------------------------------------------------ *)
(* the three micro-steps of a Write call: only the last one touches the frames; it appends
   exactly the frame (2, d) and returns 0 iff the underlying write succeeds and the
   underlying connection is still open at that moment, else 3 *)
Theorem write_result : forall pd c t c' e l d ok rest,
  ws_step pd c t = Some (c', e) -> nth_error (thr c) t = Some l -> wl_ops l = WWrite d ok :: rest ->
  match wl_pc l with
  | QIdle => e = None /\ glob c' = glob c /\ nth_error (thr c') t = Some (at_pc l QWWantWL)
  | QWWantWL => e = None /\ w_frames (glob c') = w_frames (glob c) /\ w_WL (glob c) = None /\ w_WL (glob c') = Some t /\
                nth_error (thr c') t = Some (at_pc l QWFrame)
  | QWFrame => e = Some (WEvFrame 2 d) /\ w_frames (glob c') = (2%N, d) :: w_frames (glob c) /\ w_WL (glob c') = None /\
               exists l', nth_error (thr c') t = Some l' /\ wl_pc l' = QIdle /\ wl_ops l' = rest /\
                          wl_rets l' = wl_rets l ++ [if ok && negb (w_uclosed (glob c)) then 0%N else 3%N]
  | _ => True
  end.
Proof.
  intros. apply ws_step_inv in H. destruct H as (l0 & g' & l' & N & W & ->). rewrite H0 in N; inversion N; subst l0.
  simpl. rewrite (nth_error_set_nth_eq _ _ _ _ _ H0).
  unfold wstep in W. destruct (w_panic (glob c)); [discriminate|].
  destruct (wl_pc l); auto; rewrite ?H1 in W.
  - inversion W; subst. auto.
  - destruct (mlock (w_WL (glob c)) t) eqn:M; [|discriminate]. apply mlock_some in M. destruct M as (M1 & ->).
    inversion W; subst. simpl. auto.
  - inversion W; subst. simpl. repeat split; auto. eexists; repeat split; eauto. simpl. rewrite H1. reflexivity.
Qed.

(* a thread inside Write is working on a WWrite call *)
Theorem writer_has_write_op : forall pd progs script cfok c t l,
  reach pd progs script cfok c -> nth_error (thr c) t = Some l ->
  wl_pc l = QWWantWL \/ wl_pc l = QWFrame -> exists d ok rest, wl_ops l = WWrite d ok :: rest.
Proof.
  intros. pose proof (reach_inv1 _ _ _ _ _ H) as I. destruct (I_thr _ I _ _ H0) as (_ & _ & _ & OP).
  unfold op_ok in OP. destruct H1 as [E|E]; rewrite E in OP; destruct (wl_ops l) as [|[]]; try discriminate; eauto.
Qed.

(* ------------------------------------------------------------------ *)
(* layer 2: listeners and their read loops                             *)
(* ------------------------------------------------------------------ *)
Definition LInv2 (t : nat) (l : wlocal) : Prop :=
  (forall acc, wl_pc l = QLRecv acc -> acc = listen_code (wl_hmsg l)) /\
  (in_handler (wl_pc l) = true -> is_err_msg (wl_hmsg l) = true /\ wl_rets l <> [] /\ last (wl_rets l) 0%N = 0%N) /\
  (forall a m, wl_pc l = QLHandled a m -> m = wl_hmsg l) /\
  count_listens (wl_ops l) <= length (wl_loops l) + b2n (listening_phase (wl_pc l)) /\
  NoDup (owned l) /\
  (loop_pc (wl_pc l) = true -> wl_loop l = t /\ wl_loops l = []).

Definition fresh (l : wlocal) : Prop := (exists acc, wl_pc l = QLRecv acc) /\ wl_hmsg l = MData.

Definition couple (g : wshared) (l lk : wlocal) (k : nat) : Prop :=
  match wl_pc lk with
  | QRNotStarted | QRRead | QRResult | QRSend _ => chan_get g k = (None, false) /\ fresh l
  | QRTaken m =>
      snd (chan_get g k) = false /\
      match fst (chan_get g k) with
      | Some m' => m' = m /\ fresh l
      | None => if is_err_msg m then wl_hmsg l = m else fresh l
      end
  | QRExit1 => chan_get g k = (None, false)
  | QRExit2 | QRExit3 | QRDone => chan_get g k = (None, true)
  | _ => False
  end.

Lemma couple_ext : forall g g' l lk k, chan_get g' k = chan_get g k -> couple g l lk k -> couple g' l lk k.
Proof. unfold couple; intros. rewrite H. exact H0. Qed.

Lemma chan_get_set_eq : forall g k x ch, k < length (w_chans g) -> w_chans ch = set_nth (w_chans g) k x -> chan_get ch k = x.
Proof. unfold chan_get; intros. rewrite H0. apply nth_set_nth_eq; auto. Qed.

Lemma chan_get_set_neq : forall g j k x ch, j <> k -> w_chans ch = set_nth (w_chans g) j x -> chan_get ch k = chan_get g k.
Proof. unfold chan_get; intros. rewrite H0. apply nth_set_nth_neq; auto. Qed.

Lemma chan_get_same : forall g ch k, w_chans ch = w_chans g -> chan_get ch k = chan_get g k.
Proof. unfold chan_get; intros. rewrite H; auto. Qed.

(* which channel slot and which activity flag a step may write *)
Lemma wstep_frame : forall pd g t l g' l' e,
  wstep pd g t l = Some (g', l', e) ->
  (w_chans g' = w_chans g \/
   ((is_lrecv (wl_pc l) = true \/ loop_pc (wl_pc l) = true) /\ exists x, w_chans g' = set_nth (w_chans g) (wl_loop l) x)) /\
  (w_active g' = w_active g \/
   (wl_pc l = QLSpawn /\ exists k r, wl_loops l = k :: r /\ w_active g' = set_nth (w_active g) k true)).
Proof.
  intros. wstep_cases H; fin; split; auto; right; split; eauto.
Qed.

Lemma nth_set_nth_true : forall (a : list bool) j k, nth k a false = true -> nth k (set_nth a j true) false = true.
Proof.
  intros. destruct (Nat.eq_dec j k).
  - subst. apply nth_set_nth_eq. destruct (Nat.lt_ge_cases k (length a)); auto. rewrite nth_overflow in H; auto; discriminate.
  - rewrite nth_set_nth_neq; auto.
Qed.

Lemma wstep_active_mono : forall pd g t l g' l' e k,
  wstep pd g t l = Some (g', l', e) -> nth k (w_active g) false = true -> nth k (w_active g') false = true.
Proof.
  intros. destruct (wstep_frame _ _ _ _ _ _ _ H) as (_ & [E | (_ & k0 & r & _ & E)]); rewrite E; auto.
  apply nth_set_nth_true; auto.
Qed.

(* how the owned loops of the stepping thread change *)
Lemma wstep_owned : forall pd g t l g' l' e,
  wstep pd g t l = Some (g', l', e) ->
  (owned l' = owned l /\ wl_loops l' = wl_loops l /\
     (listening_phase (wl_pc l') = listening_phase (wl_pc l) /\ (listening_phase (wl_pc l) = true -> wl_loop l' = wl_loop l)) /\
     wl_pc l <> QLSpawn) \/
  (* the spawn *)
  (wl_pc l = QLSpawn /\ exists k r, wl_loops l = k :: r /\ wl_loops l' = r /\ wl_loop l' = k /\ wl_pc l' = QLRecv 0%N /\
     wl_hmsg l' = MData /\ w_active g' = set_nth (w_active g) k true /\ w_chans g' = w_chans g) \/
  (* Listen returns: the channel is closed *)
  ((exists acc, wl_pc l = QLRecv acc) /\ chan_get g (wl_loop l) = (None, true) /\ wl_loops l' = wl_loops l /\
     listening_phase (wl_pc l') = false /\ w_chans g' = w_chans g).
Proof.
  intros. wstep_cases H; unfold owned; fin; auto.
  all: try (left; repeat split; auto; discriminate).
  - right; left. split; auto. eauto 12.
  - right; right. eauto 8.
Qed.

Lemma count_listens_tl : forall ops, count_listens (tl ops) <= count_listens ops.
Proof. destruct ops as [|[]]; unfold count_listens; simpl; lia. Qed.

Lemma count_listens_cons_listen : forall r, count_listens (WListen :: r) = S (count_listens r).
Proof. reflexivity. Qed.

Lemma linv2_self : forall pd g t l g' l' e,
  wstep pd g t l = Some (g', l', e) -> op_ok l = true -> LInv2 t l ->
  (forall acc m b, wl_pc l = QLRecv acc -> chan_get g (wl_loop l) = (Some m, b) -> is_err_msg m = true -> wl_hmsg l = MData) ->
  LInv2 t l'.
Proof.
  unfold LInv2. intros pd g t l g' l' e W OP (A & B & C & D & E & F) FR.
  pose proof (wstep_owned _ _ _ _ _ _ _ W) as OW.
  (* NoDup (owned l') *)
  assert (E' : NoDup (owned l')).
  { destruct OW as [(O & _) | [(PC & k & r & L1 & L2 & L3 & PC' & _) | ((acc & PC) & _ & L & LP & _)]].
    - rewrite O; auto.
    - unfold owned in *. rewrite PC in E. rewrite PC', L2, L3. simpl in *. rewrite L1 in E. auto.
    - unfold owned in *. rewrite PC in E. rewrite LP, L. simpl in *. inversion E; auto. }
  clear OW. unfold op_ok in OP.
  wstep_cases W; try (destruct inln); fin.
  all: repeat match goal with H : true = true -> _ |- _ => specialize (H eq_refl) end.
  all: repeat match goal with H : _ /\ _ |- _ => destruct H end.
  all: repeat split; intros; auto; try discriminate; try congruence.
  all: try (repeat match goal with H : wl_ops _ = _ |- _ => rewrite H in * end; unfold count_listens in *; simpl in *; lia).
  all: try (destruct (wl_ops l) as [|[] ?]; try discriminate; unfold count_listens in *; simpl in *; lia).
  - intro X. apply app_eq_nil in X. destruct X; discriminate.
  - rewrite last_last. rewrite (A _ eq_refl), (FR _ _ _ eq_refl eq_refl Heqb0). reflexivity.
  - inversion H2; subst. rewrite H1. pose proof (C _ _ eq_refl) as ->. unfold listen_code. rewrite H, Heqb0. reflexivity.
  - inversion H2; subst. pose proof (C _ _ eq_refl) as ->. unfold listen_code. rewrite H, Heqb0. reflexivity.
Qed.

Lemma fresh_inv : forall l, fresh l -> exists acc, wl_pc l = QLRecv acc /\ wl_hmsg l = MData.
Proof. intros l ((a & H) & H'); eauto. Qed.

Ltac kill_fresh :=
  repeat match goal with
         | H : fresh _ |- _ => apply fresh_inv in H; destruct H as (? & ? & ?)
         end.

Lemma couple_listener_step : forall pd g t l g' l' e lk,
  wstep pd g t l = Some (g', l', e) -> listening_phase (wl_pc l) = true ->
  wl_loop l < length (w_chans g) ->
  (forall a m, wl_pc l = QLHandled a m -> m = wl_hmsg l) ->
  couple g l lk (wl_loop l) ->
  (listening_phase (wl_pc l') = true /\ wl_loop l' = wl_loop l /\ couple g' l' lk (wl_loop l)) \/
  (listening_phase (wl_pc l') = false /\ forall g0 k, running_loop g0 k lk = false).
Proof.
  intros pd g t l g' l' e lk W LP LT C CP.
  unfold couple, running_loop in *.
  wstep_cases W; try (destruct inln); fin; try discriminate.
  all: destruct (wl_pc lk) eqn:PK; try contradiction.
  all: unfold chan_get in *; cbn in *; rewrite ?nth_set_nth_eq by auto; cbn.
  all: try (destruct CP as (CP1 & CP2)); kill_fresh; try discriminate; try congruence.
  all: try (left; split; [reflexivity|]; split; [reflexivity|]; try assumption).
  all: try (right; split; [reflexivity|]; intros; reflexivity).
  all: try (split; [assumption|]).
  all: try (match goal with |- context[match fst ?x with _ => _ end] => destruct (fst x) eqn:? end).
  all: try (match goal with H : context[if is_err_msg ?m then _ else _] |- _ => destruct (is_err_msg m) eqn:? end).
  all: repeat match goal with H : _ /\ _ |- _ => destruct H end; kill_fresh; try discriminate; try congruence; auto.
  all: try (rewrite (C _ _ eq_refl); congruence).
  all: subst; repeat match goal with H : ?x = true |- context[?x] => rewrite H | H : ?x = false |- context[?x] => rewrite H end; auto.
  all: unfold fresh; cbn; eauto.
Qed.

Lemma couple_loop_step : forall pd g k lk g' lk' e l,
  wstep pd g k lk = Some (g', lk', e) -> loop_pc (wl_pc lk) = true -> wl_loop lk = k ->
  k < length (w_chans g) ->
  couple g l lk k -> couple g' l lk' k.
Proof.
  intros pd g k lk g' lk' e l W LP WL LT CP.
  unfold couple in *.
  wstep_cases W; fin; try discriminate.
  all: unfold chan_get in *; cbn in *; rewrite ?WL in *; rewrite ?nth_set_nth_eq by auto; cbn.
  all: repeat match goal with H : _ /\ _ |- _ => destruct H end; auto.
  all: try (destruct (code =? 1006)%N; cbn; auto).
  - rewrite Heqp in *. simpl in *. congruence.
  - rewrite Heqp in *. simpl in *. split; auto. congruence.
  - rewrite CP. reflexivity.
Qed.

(* a loop that is running after a step was running before, or has just been spawned *)
Lemma running_loop_self : forall pd g t l g' l' e,
  wstep pd g t l = Some (g', l', e) -> running_loop g' t l' = true -> running_loop g t l = true.
Proof.
  intros. unfold running_loop in *. wstep_cases H; fin; try discriminate; auto.
Qed.

Lemma couple_loop_pc : forall g l lk k, couple g l lk k -> loop_pc (wl_pc lk) = true.
Proof. unfold couple; intros. destruct (wl_pc lk); auto; contradiction. Qed.

Lemma couple_some : forall g l lk k m b,
  couple g l lk k -> chan_get g k = (Some m, b) -> wl_pc lk = QRTaken m /\ fresh l.
Proof.
  unfold couple; intros. rewrite H0 in H. destruct (wl_pc lk); try contradiction; simpl in H;
    try (destruct H as (H & _); discriminate H); try discriminate H.
  destruct H as (_ & -> & F). auto.
Qed.

Lemma phase_not_loop : forall p, listening_phase p = true -> loop_pc p = false.
Proof. destruct p; simpl; intros; auto; discriminate. Qed.

Lemma running_is_loop : forall g k l, running_loop g k l = true -> loop_pc (wl_pc l) = true.
Proof. unfold running_loop; intros. destruct (wl_pc l); auto; discriminate. Qed.

Lemma lrecv_phase : forall p, is_lrecv p = true -> listening_phase p = true.
Proof. destruct p; simpl; intros; auto; discriminate. Qed.

Lemma owned_phase_in : forall l, listening_phase (wl_pc l) = true -> In (wl_loop l) (owned l).
Proof. unfold owned; intros. rewrite H. simpl; auto. Qed.

Lemma owned_loops_in : forall l k, In k (wl_loops l) -> In k (owned l).
Proof. unfold owned; intros. apply in_or_app; auto. Qed.

Lemma wstep_owned_incl : forall pd g t l g' l' e,
  wstep pd g t l = Some (g', l', e) -> incl (owned l') (owned l).
Proof.
  intros. destruct (wstep_owned _ _ _ _ _ _ _ H) as [(O & _) | [(PC & k & r & L1 & L2 & L3 & PC' & _) | ((acc & PC) & _ & L & LP & _)]].
  - rewrite O. apply incl_refl.
  - unfold owned. rewrite PC, PC', L1, L2, L3. simpl. apply incl_refl.
  - unfold owned. rewrite PC, LP, L. simpl. apply incl_tl, incl_refl.
Qed.

Lemma wstep_loops_incl : forall pd g t l g' l' e,
  wstep pd g t l = Some (g', l', e) -> incl (wl_loops l') (wl_loops l).
Proof.
  intros. destruct (wstep_owned _ _ _ _ _ _ _ H) as [(_ & O & _) | [(PC & k & r & L1 & L2 & _) | (_ & _ & L & _)]].
  - rewrite O. apply incl_refl.
  - rewrite L1, L2. apply incl_tl, incl_refl.
  - rewrite L. apply incl_refl.
Qed.

Lemma wstep_notstarted_active : forall pd g t l g' l' e,
  wstep pd g t l = Some (g', l', e) -> wl_pc l = QRNotStarted -> nth t (w_active g) false = true.
Proof. intros. unfold wstep in H. rewrite H0 in H. destruct (w_panic g); [discriminate|]. destruct (nth t (w_active g) false); auto; discriminate. Qed.

Lemma nth_error_set_nth_cases : forall A (ls : list A) t0 l0 x t l,
  nth_error ls t0 = Some l0 -> nth_error (set_nth ls t0 x) t = Some l ->
  (t = t0 /\ l = x) \/ (t <> t0 /\ nth_error ls t = Some l).
Proof.
  intros. destruct (Nat.eq_dec t t0).
  - subst. rewrite (nth_error_set_nth_eq _ _ _ _ _ H) in H0. inversion H0; auto.
  - rewrite nth_error_set_nth_neq in H0 by auto. auto.
Qed.

(* the slot of channel k is untouched by a step of a thread that does not write it *)
Lemma wstep_chan_other : forall pd g t l g' l' e k,
  wstep pd g t l = Some (g', l', e) ->
  (is_lrecv (wl_pc l) = true -> wl_loop l <> k) -> (loop_pc (wl_pc l) = true -> wl_loop l <> k) ->
  chan_get g' k = chan_get g k.
Proof.
  intros. destruct (wstep_frame _ _ _ _ _ _ _ H) as ([E | ([P|P] & x & E)] & _).
  - apply chan_get_same; auto.
  - eapply chan_get_set_neq; [|exact E]; auto.
  - eapply chan_get_set_neq; [|exact E]; auto.
Qed.

Lemma wstep_active_other : forall pd g t l g' l' e k,
  wstep pd g t l = Some (g', l', e) ->
  (forall r, wl_pc l = QLSpawn -> wl_loops l = k :: r -> False) ->
  nth k (w_active g') false = nth k (w_active g) false.
Proof.
  intros. destruct (wstep_frame _ _ _ _ _ _ _ H) as (_ & [E | (PC & k0 & r & L & E)]); rewrite E; auto.
  apply nth_set_nth_neq. intros ->. eauto.
Qed.

Record Inv2 (c : wconfig) : Prop := {
  J_loc : forall t l, nth_error (thr c) t = Some l -> LInv2 t l;
  J_disj : forall t1 t2 l1 l2 k, t1 <> t2 -> nth_error (thr c) t1 = Some l1 -> nth_error (thr c) t2 = Some l2 ->
           In k (owned l1) -> In k (owned l2) -> False;
  J_cur : forall t l, nth_error (thr c) t = Some l -> listening_phase (wl_pc l) = true ->
          exists lk, nth_error (thr c) (wl_loop l) = Some lk /\
                     nth (wl_loop l) (w_active (glob c)) false = true /\ couple (glob c) l lk (wl_loop l);
  J_fut : forall t l k, nth_error (thr c) t = Some l -> In k (wl_loops l) ->
          exists lk, nth_error (thr c) k = Some lk /\ wl_pc lk = QRNotStarted /\
                     nth k (w_active (glob c)) false = false /\ chan_get (glob c) k = (None, false);
  J_inv : forall k lk, nth_error (thr c) k = Some lk -> running_loop (glob c) k lk = true ->
          exists t l, nth_error (thr c) t = Some l /\ listening_phase (wl_pc l) = true /\ wl_loop l = k
}.

Lemma inv2_step : forall pd c t c' e, Inv1 c -> Inv2 c -> ws_step pd c t = Some (c', e) -> Inv2 c'.
Proof.
  intros pd c t0 c' e I1 I2 S. apply ws_step_inv in S. destruct S as (l0 & g' & l0' & N0 & W & ->).
  assert (LTc : forall k lk, nth_error (thr c) k = Some lk -> k < length (w_chans (glob c))).
  { intros. rewrite (I_lenc _ I1). apply nth_error_Some. congruence. }
  assert (LTa : forall k lk, nth_error (thr c) k = Some lk -> k < length (w_active (glob c))).
  { intros. rewrite (I_lena _ I1). apply nth_error_Some. congruence. }
  pose proof (J_loc _ I2 _ _ N0) as L0. 
  assert (OP0 : op_ok l0 = true) by (apply (I_thr _ I1 _ _ N0)).
  assert (D0 : loop_pc (wl_pc l0) = true -> wl_loop l0 = t0 /\ wl_loops l0 = []) by (apply L0).
  assert (ND0 : NoDup (owned l0)) by (apply L0).
  (* a writer of slot k different from the stepping thread's own slots *)
  assert (CH : forall t l k, t <> t0 -> nth_error (thr c) t = Some l -> In k (owned l) -> k <> t0 ->
                             chan_get g' k = chan_get (glob c) k).
  { intros t l k NE N IN NK. eapply wstep_chan_other; eauto.
    - intros LR E. subst k. eapply (J_disj _ I2 t t0); eauto. apply owned_phase_in, lrecv_phase; auto.
    - intros LP E. destruct (D0 LP). congruence. }
  assert (AC : forall t l k, t <> t0 -> nth_error (thr c) t = Some l -> In k (owned l) ->
                             nth k (w_active g') false = nth k (w_active (glob c)) false).
  { intros t l k NE N IN. eapply wstep_active_other; eauto. intros r PC LS.
    eapply (J_disj _ I2 t t0); eauto. apply owned_loops_in. rewrite LS; simpl; auto. }
  constructor; simpl.
  - (* J_loc *)
    intros t l N. destruct (nth_error_set_nth_cases _ _ _ _ _ _ _ N0 N) as [(-> & ->) | (NE & N')].
    + eapply linv2_self; eauto. intros acc m b PC CG ER.
      destruct (J_cur _ I2 _ _ N0) as (lk & _ & _ & CP). { rewrite PC; auto. }
      destruct (couple_some _ _ _ _ _ _ CP CG) as (_ & F). apply F.
    + apply (J_loc _ I2 _ _ N').
  - (* J_disj *)
    assert (OI : forall t l, nth_error (set_nth (thr c) t0 l0') t = Some l ->
                 exists l1, nth_error (thr c) t = Some l1 /\ incl (owned l) (owned l1)).
    { intros t l N. destruct (nth_error_set_nth_cases _ _ _ _ _ _ _ N0 N) as [(-> & ->) | (NE & N')].
      - exists l0. split; auto. eapply wstep_owned_incl; eauto.
      - exists l. split; auto. apply incl_refl. }
    intros t1 t2 l1 l2 k NE N1 N2 K1 K2.
    destruct (OI _ _ N1) as (m1 & M1 & I1'). destruct (OI _ _ N2) as (m2 & M2 & I2').
    eapply (J_disj _ I2 t1 t2); eauto.
  - (* J_cur *)
    intros t l N LP. destruct (nth_error_set_nth_cases _ _ _ _ _ _ _ N0 N) as [(-> & ->) | (NE & N')].
    + destruct (listening_phase (wl_pc l0)) eqn:LP0.
      * destruct (J_cur _ I2 _ _ N0 LP0) as (lk & NK & AK & CP).
        assert (wl_loop l0 <> t0).
        { intros E. rewrite E in NK. rewrite N0 in NK. inversion NK; subst lk.
          apply couple_loop_pc in CP. rewrite (phase_not_loop _ LP0) in CP. discriminate. }
        destruct (couple_listener_step _ _ _ _ _ _ _ lk W LP0 (LTc _ _ NK) (proj1 (proj2 (proj2 L0))) CP)
          as [(_ & E & CP') | (F & _)]; [|congruence].
        rewrite E. exists lk. rewrite nth_error_set_nth_neq by auto. repeat split; auto.
        eapply wstep_active_mono; eauto.
      * destruct (wstep_owned _ _ _ _ _ _ _ W) as [(_ & _ & (E & _) & _) | [(PC & k & r & L1 & L2 & L3 & PC' & HM & AC' & CH') | (_ & _ & _ & F & _)]];
          [congruence | | congruence].
        destruct (J_fut _ I2 _ _ k N0) as (lk & NK & PK & _ & CK). { rewrite L1; simpl; auto. }
        assert (k <> t0). { intros ->. rewrite N0 in NK. inversion NK; subst. congruence. }
        rewrite L3. exists lk. rewrite nth_error_set_nth_neq by auto. repeat split; auto.
        -- rewrite AC'. apply nth_set_nth_eq. eapply LTa; eauto.
        -- unfold couple. rewrite PK. rewrite (chan_get_same _ _ _ CH'). split; auto.
           unfold fresh. rewrite PC'. eauto.
    + destruct (J_cur _ I2 _ _ N' LP) as (lk & NK & AK & CP).
      destruct (Nat.eq_dec (wl_loop l) t0) as [E | NK0].
      * rewrite E in *. rewrite N0 in NK. inversion NK; subst lk.
        exists l0'. rewrite (nth_error_set_nth_eq _ _ _ _ _ N0). repeat split; auto.
        -- eapply wstep_active_mono; eauto.
        -- pose proof (couple_loop_pc _ _ _ _ CP) as LPK. eapply couple_loop_step; eauto. apply D0; auto.
      * exists lk. rewrite nth_error_set_nth_neq by auto. repeat split; auto.
        -- eapply wstep_active_mono; eauto.
        -- apply (couple_ext (glob c)); [|exact CP]. apply (CH t l); auto. apply owned_phase_in; auto.
  - (* J_fut *)
    intros t l k N IN. destruct (nth_error_set_nth_cases _ _ _ _ _ _ _ N0 N) as [(-> & ->) | (NE & N')].
    + assert (IN0 : In k (wl_loops l0)) by (eapply wstep_loops_incl; eauto).
      destruct (J_fut _ I2 _ _ k N0 IN0) as (lk & NK & PK & AK & CK).
      assert (NL : loop_pc (wl_pc l0) = false).
      { destruct (loop_pc (wl_pc l0)) eqn:E; auto. destruct (D0 eq_refl) as (_ & E2). rewrite E2 in IN0. destruct IN0. }
      assert (k <> t0). { intros ->. rewrite N0 in NK. inversion NK; subst. rewrite PK in NL. discriminate. }
      exists lk. rewrite nth_error_set_nth_neq by auto. repeat split; auto.
      * assert (X : nth k (w_active g') false = nth k (w_active (glob c)) false); [|congruence].
        eapply wstep_active_other; eauto. intros r PC LS.
        unfold owned in ND0. rewrite PC, LS in ND0. simpl in ND0. inversion ND0; subst.
        destruct (wstep_owned _ _ _ _ _ _ _ W) as [(_ & _ & _ & E) | [(_ & k2 & r2 & L1 & L2 & _) | ((acc & PC2) & _)]].
        -- congruence.
        -- rewrite LS in L1. inversion L1; subst. auto.
        -- congruence.
      * assert (X : chan_get g' k = chan_get (glob c) k); [|congruence].
        eapply wstep_chan_other; eauto.
        -- intros LR E. apply lrecv_phase in LR. unfold owned in ND0. rewrite LR in ND0. simpl in ND0. inversion ND0; subst. auto.
        -- congruence.
    + destruct (J_fut _ I2 _ _ k N' IN) as (lk & NK & PK & AK & CK).
      assert (k <> t0).
      { intros ->. rewrite N0 in NK. inversion NK; subst. pose proof (wstep_notstarted_active _ _ _ _ _ _ _ W PK). congruence. }
      exists lk. rewrite nth_error_set_nth_neq by auto. repeat split; auto.
      * rewrite (AC t l); auto. apply owned_loops_in; auto.
      * rewrite (CH t l); auto. apply owned_loops_in; auto.
  - (* J_inv *)
    intros k lk N RUN. destruct (nth_error_set_nth_cases _ _ _ _ _ _ _ N0 N) as [(-> & ->) | (NE & N')].
    + pose proof (running_loop_self _ _ _ _ _ _ _ W RUN) as RUN0.
      destruct (J_inv _ I2 _ _ N0 RUN0) as (t & l & NT & LP & WL).
      assert (t <> t0).
      { intros ->. rewrite N0 in NT. inversion NT; subst. apply running_is_loop in RUN0.
        rewrite (phase_not_loop _ LP) in RUN0. discriminate. }
      exists t, l. rewrite nth_error_set_nth_neq by auto. auto.
    + (* was it running before, or has it just been spawned? *)
      assert (OLD : running_loop (glob c) k lk = true \/
                    (listening_phase (wl_pc l0') = true /\ wl_loop l0' = k)).
      { unfold running_loop in *. destruct (wl_pc lk); auto.
        destruct (wstep_frame _ _ _ _ _ _ _ W) as (_ & [E | (PC & k0 & r & L & E)]).
        - rewrite E in RUN. auto.
        - destruct (Nat.eq_dec k0 k).
          + subst k0. right.
            destruct (wstep_owned _ _ _ _ _ _ _ W) as [(_ & _ & _ & E2) | [(_ & k2 & r2 & L1 & L2 & L3 & PC' & _) | ((acc & PC2) & _)]];
              try congruence.
            rewrite PC'. split; auto. congruence.
          + rewrite E, nth_set_nth_neq in RUN by auto. auto. }
      destruct OLD as [RUN0 | (LP & WL)].
      * destruct (J_inv _ I2 _ _ N' RUN0) as (t & l & NT & LP & WL).
        destruct (Nat.eq_dec t t0).
        -- subst t. rewrite N0 in NT. inversion NT; subst l.
           destruct (J_cur _ I2 _ _ N0 LP) as (lk2 & NK & _ & CP). rewrite WL in NK. rewrite N' in NK. inversion NK; subst lk2.
           destruct (couple_listener_step _ _ _ _ _ _ _ lk W LP) as [(LP' & E & _) | (_ & F)]; auto.
           ++ rewrite WL. eapply LTc; eauto.
           ++ apply L0.
           ++ exists t0, l0'. rewrite (nth_error_set_nth_eq _ _ _ _ _ N0). repeat split; auto. congruence.
           ++ rewrite F in RUN0. discriminate.
        -- exists t, l. rewrite nth_error_set_nth_neq by auto. auto.
      * exists t0, l0'. rewrite (nth_error_set_nth_eq _ _ _ _ _ N0). auto.
Qed.

(* ---- the initial configuration ---- *)
Lemma alloc_range : forall progs next t a k,
  nth_error (alloc_loops progs next) t = Some a -> In k a -> next <= k < next + total_listens progs.
Proof.
  induction progs; intros next t b k N IN; destruct t; simpl in *; try discriminate.
  - inversion N; subst. apply in_seq in IN. lia.
  - specialize (IHprogs _ _ _ _ N IN). lia.
Qed.

Lemma alloc_disj : forall progs next t1 t2 a1 a2 k,
  t1 <> t2 -> nth_error (alloc_loops progs next) t1 = Some a1 -> nth_error (alloc_loops progs next) t2 = Some a2 ->
  In k a1 -> In k a2 -> False.
Proof.
  induction progs; intros next t1 t2 a1 a2 k NE N1 N2 I1 I2; destruct t1, t2; simpl in *; try discriminate; try congruence.
  - inversion N1; subst. apply in_seq in I1. pose proof (alloc_range _ _ _ _ _ N2 I2). lia.
  - inversion N2; subst. apply in_seq in I2. pose proof (alloc_range _ _ _ _ _ N1 I1). lia.
  - eapply (IHprogs _ t1 t2); eauto.
Qed.

Lemma alloc_nth : forall progs next t a,
  nth_error (alloc_loops progs next) t = Some a ->
  exists p, nth_error progs t = Some p /\ length a = count_listens p /\ NoDup a.
Proof.
  induction progs; intros next t b N; destruct t; simpl in *; try discriminate.
  - inversion N; subst. exists a. rewrite seq_length. repeat split; auto. apply seq_NoDup.
  - eauto.
Qed.

Lemma nth_error_combine : forall A B (l1 : list A) (l2 : list B) t x y,
  nth_error (combine l1 l2) t = Some (x, y) -> nth_error l1 t = Some x /\ nth_error l2 t = Some y.
Proof.
  induction l1; destruct l2, t; simpl; intros; try discriminate.
  - inversion H; auto.
  - eauto.
Qed.

Definition mk_worker (p : list wop) (a : list nat) : wlocal :=
  {| wl_pc := QIdle; wl_ops := p; wl_rets := []; wl_loops := a; wl_loop := 0; wl_hmsg := MData |}.
Definition mk_loop (i : nat) : wlocal :=
  {| wl_pc := QRNotStarted; wl_ops := []; wl_rets := []; wl_loops := []; wl_loop := i; wl_hmsg := MData |}.

Lemma winit_nth : forall progs script cfok t l,
  nth_error (thr (winit progs script cfok)) t = Some l ->
  (exists p a, nth_error progs t = Some p /\ nth_error (alloc_loops progs (length progs)) t = Some a /\ l = mk_worker p a) \/
  (length progs <= t < length progs + total_listens progs /\ l = mk_loop t).
Proof.
  intros progs script cfok t l. unfold winit. simpl.
  set (A := map _ (combine progs _)). set (B := map _ (seq _ _)).
  assert (LA : length A = length progs).
  { unfold A. rewrite map_length, combine_length, alloc_loops_length. lia. }
  intros N. destruct (Nat.lt_ge_cases t (length A)).
  - rewrite nth_error_app1 in N by auto. left. unfold A in N.
    rewrite nth_error_map in N. destruct (nth_error (combine _ _) t) as [[p a]|] eqn:E; [|discriminate].
    apply nth_error_combine in E. destruct E. inversion N; subst. exists p, a. auto.
  - rewrite nth_error_app2 in N by auto. right. unfold B in N. rewrite nth_error_map in N.
    destruct (nth_error (seq _ _) (t - length A)) as [i|] eqn:E; [|discriminate].
    assert (t - length A < total_listens progs).
    { erewrite <- seq_length. apply nth_error_Some. rewrite E. discriminate. }
    rewrite (nth_error_nth' _ 0) in E by (rewrite seq_length; auto). rewrite seq_nth in E by auto.
    inversion E; subst i. inversion N; subst. rewrite LA in *. 
    replace (length progs + (t - length progs)) with t by lia. split; auto. lia.
Qed.

Lemma winit_nth_loop : forall progs script cfok k,
  length progs <= k < length progs + total_listens progs ->
  nth_error (thr (winit progs script cfok)) k = Some (mk_loop k).
Proof.
  intros. destruct (nth_error (thr (winit progs script cfok)) k) as [l|] eqn:E.
  - destruct (winit_nth _ _ _ _ _ E) as [(p & a & P & _) | (_ & ->)]; auto.
    assert (k < length progs) by (apply nth_error_Some; congruence). lia.
  - apply nth_error_None in E. rewrite winit_thr_length in E. lia.
Qed.

Lemma nth_repeat_lt : forall A (x d : A) n k, k < n -> nth k (repeat x n) d = x.
Proof. induction n; destruct k; simpl; intros; try lia; auto. apply IHn; lia. Qed.

Lemma inv2_init : forall progs script cfok, Inv2 (winit progs script cfok).
Proof.
  intros. constructor.
  - intros t l N. destruct (winit_nth _ _ _ _ _ N) as [(p & a & P & A & ->) | (R & ->)]; unfold LInv2, owned; simpl.
    + destruct (alloc_nth _ _ _ _ A) as (p' & P' & LE & ND). rewrite P in P'. inversion P'; subst p'.
      repeat split; intros; try discriminate; auto; try lia.
    + repeat split; intros; try discriminate; auto; try (unfold count_listens; simpl; lia); try constructor.
  - intros t1 t2 l1 l2 k NE N1 N2 K1 K2.
    destruct (winit_nth _ _ _ _ _ N1) as [(p1 & a1 & P1 & A1 & ->) | (R1 & ->)]; [|destruct K1].
    destruct (winit_nth _ _ _ _ _ N2) as [(p2 & a2 & P2 & A2 & ->) | (R2 & ->)]; [|destruct K2].
    unfold owned in *; simpl in *. eapply alloc_disj; eauto.
  - intros t l N LP. destruct (winit_nth _ _ _ _ _ N) as [(p & a & P & A & ->) | (R & ->)]; discriminate.
  - intros t l k N IN. destruct (winit_nth _ _ _ _ _ N) as [(p & a & P & A & ->) | (R & ->)]; [|destruct IN].
    simpl in IN. pose proof (alloc_range _ _ _ _ _ A IN) as R.
    exists (mk_loop k). rewrite winit_nth_loop by auto. repeat split; auto.
    + simpl. apply nth_repeat_same.
    + unfold chan_get; simpl. apply nth_repeat_lt. lia.
  - intros k lk N RUN. destruct (winit_nth _ _ _ _ _ N) as [(p & a & P & A & ->) | (R & ->)]; unfold running_loop in RUN; simpl in RUN.
    + discriminate.
    + rewrite nth_repeat_same in RUN. discriminate.
Qed.

Theorem reach_inv2 : forall pd progs script cfok c, reach pd progs script cfok c -> Inv2 c.
Proof.
  intros pd progs script cfok. apply (reach_ind pd progs script cfok Inv2).
  - apply inv2_init.
  - intros c t c' e R I S. eapply inv2_step; eauto. eapply reach_inv1; eauto.
Qed.

(* ------------------------------------------------------------------ *)
(* C15.5  the result of Listen                                         *)
(* ------------------------------------------------------------------ *)
Lemma normal_closure_spec : forall m, normal_closure m = true <-> m = MCloseErr 1000.
Proof.
  intros. split; [|intros ->; reflexivity].
  destruct m as [|c| |]; simpl; try discriminate.
  destruct c as [|p]; [discriminate|].
  do 10 (try (destruct p as [p|p|]; try discriminate)). reflexivity.
Qed.

Lemma listen_code_spec : forall m,
  (listen_code m = 0%N <-> m = MData \/ m = MCloseErr 1000) /\
  (listen_code m = 5%N <-> m = MNetErr \/ m = MErrClosed \/ exists c, m = MCloseErr c /\ c <> 1000%N).
Proof.
  intros. unfold listen_code. destruct (normal_closure m) eqn:E.
  - apply normal_closure_spec in E. subst. simpl. split; split; intros; auto; try discriminate.
    destruct H as [H|[H|(c & H & NE)]]; try discriminate. inversion H; congruence.
  - assert (NE : m <> MCloseErr 1000) by (intros ->; discriminate).
    destruct m as [|c| |]; simpl; (split; split; intros; auto; try discriminate).
    + destruct H as [H|[H|(c & H & _)]]; discriminate.
    + destruct H; congruence.
    + right; right. exists c. split; auto. congruence.
    + destruct H; discriminate.
    + destruct H; discriminate.
Qed.

(* the accumulator of Listen: determined by the (unique) error message handled so far in
   this call (wl_hmsg: MData = none yet); an error message is offered only to a listener
   that has not handled one yet *)
Theorem listen_acc : forall pd progs script cfok c t l,
  reach pd progs script cfok c -> nth_error (thr c) t = Some l ->
  (forall acc, wl_pc l = QLRecv acc ->
     acc = listen_code (wl_hmsg l) /\
     forall m b, chan_get (glob c) (wl_loop l) = (Some m, b) -> is_err_msg m = true -> wl_hmsg l = MData /\ acc = 0%N) /\
  (in_handler (wl_pc l) = true ->
     is_err_msg (wl_hmsg l) = true /\ wl_rets l <> [] /\ last (wl_rets l) 0%N = 0%N).
Proof.
  intros pd progs script cfok c t l R N. pose proof (reach_inv2 _ _ _ _ _ R) as I2.
  destruct (J_loc _ I2 _ _ N) as (A & B & _). split; auto.
  intros acc PC. split; auto. intros m b CG ER.
  destruct (J_cur _ I2 _ _ N) as (lk & _ & _ & CP). { rewrite PC; auto. }
  destruct (couple_some _ _ _ _ _ _ CP CG) as (_ & (_ & F)). split; auto.
  rewrite (A _ PC), F. reflexivity.
Qed.

(* the steps of the listener that matter for its result *)
Theorem listen_steps : forall pd c t c' e l,
  ws_step pd c t = Some (c', e) -> nth_error (thr c) t = Some l ->
  match wl_pc l with
  | QLGuard =>
      (* refused iff Listening is set: returns 4; otherwise sets Listening and goes on *)
      if f_listening (w_flags (glob c))
      then nth_error (thr c') t = Some (wfinish l 4%N) /\ glob c' = glob c
      else nth_error (thr c') t = Some (at_pc l QLSpawn) /\ f_listening (w_flags (glob c')) = true
  | QLSpawn => exists l', nth_error (thr c') t = Some l' /\ wl_pc l' = QLRecv 0%N /\ wl_hmsg l' = MData
  | QLRecv acc =>
      match chan_get (glob c) (wl_loop l) with
      | (Some m, _) =>
          exists l', nth_error (thr c') t = Some l' /\
            if is_err_msg m
            then wl_pc l' = QGate true /\ wl_hmsg l' = m /\ wl_rets l' = wl_rets l ++ [acc]   (* the handler: Close() inline *)
            else wl_pc l' = QLRecv acc /\ wl_hmsg l' = wl_hmsg l
      | (None, true) => nth_error (thr c') t = Some (wfinish l acc) /\ glob c' = glob c          (* Listen returns acc *)
      | (None, false) => False
      end
  | QLHandled _ m =>
      exists l', nth_error (thr c') t = Some l' /\ wl_hmsg l' = m /\ wl_rets l' = removelast (wl_rets l) /\
                 wl_pc l' = QLRecv (if normal_closure m then last (wl_rets l) 0%N else 5%N)
  | _ => True
  end.
Proof.
  intros. apply ws_step_inv in H. destruct H as (l0 & g' & l' & N & W & ->). rewrite H0 in N; inversion N; subst l0.
  simpl. rewrite (nth_error_set_nth_eq _ _ _ _ _ H0).
  unfold wstep in W. destruct (w_panic (glob c)); [discriminate|].
  destruct (wl_pc l); auto.
  - destruct (w_LL (glob c)); [discriminate|]. destruct (f_listening _); inversion W; subst; auto.
  - destruct (wl_loops l); inversion W; subst. eexists; split; eauto.
  - destruct (chan_get (glob c) (wl_loop l)) as [[m|] b].
    + destruct (is_err_msg m) eqn:E; inversion W; subst; eexists; split; eauto; rewrite E; auto.
    + destruct b; inversion W; subst; auto.
  - inversion W; subst. eexists; split; eauto.
Qed.

(* a Listen call that returns: 4 iff refused by the guard; otherwise the code of the unique
   error message its handler has seen: 0 for none (healthy close) or a normal closure, 5 for
   an abnormal closure or a transport failure *)
Theorem listen_result : forall pd progs script cfok c t c' e l l',
  reach pd progs script cfok c ->
  ws_step pd c t = Some (c', e) -> nth_error (thr c) t = Some l -> nth_error (thr c') t = Some l' ->
  (wl_pc l = QLGuard \/ exists acc, wl_pc l = QLRecv acc) -> wl_pc l' = QIdle ->
  exists r, wl_rets l' = wl_rets l ++ [r] /\ wl_ops l' = tl (wl_ops l) /\
    ((r = 4%N /\ wl_pc l = QLGuard /\ f_listening (w_flags (glob c)) = true) \/
     (r = listen_code (wl_hmsg l) /\ wl_pc l = QLRecv r /\ chan_get (glob c) (wl_loop l) = (None, true))).
Proof.
  intros pd progs script cfok c t c' e l l' R S N N' PC PC'.
  pose proof (listen_steps _ _ _ _ _ _ S N) as LS.
  destruct PC as [PC | (acc & PC)]; rewrite PC in LS.
  - destruct (f_listening (w_flags (glob c))) eqn:FL; destruct LS as (E & _); rewrite E in N'; inversion N'; subst l'.
    + exists 4%N. simpl. repeat split; auto.
    + discriminate.
  - destruct (chan_get (glob c) (wl_loop l)) as [[m|] b] eqn:CG.
    + destruct LS as (l2 & E & X). rewrite E in N'; inversion N'; subst l2.
      destruct (is_err_msg m); destruct X as (X & _); congruence.
    + destruct b; [|contradiction]. destruct LS as (E & _). rewrite E in N'; inversion N'; subst l'.
      exists acc. simpl. repeat split; auto. right.
      destruct (listen_acc _ _ _ _ _ _ _ R N) as (A & _). destruct (A _ PC) as (-> & _). auto.
Qed.

(* MErrClosed ("use of closed connection" seen while Closed is not set) is never produced:
   Closed is set before the underlying Close *)
Definition no_errclosed (l : wlocal) : Prop :=
  wl_pc l <> QRSend MErrClosed /\ wl_pc l <> QRTaken MErrClosed.

Lemma wstep_no_errclosed : forall pd g t l g' l' e,
  wstep pd g t l = Some (g', l', e) -> (w_uclosed g = true -> f_closed (w_flags g) = true) ->
  no_errclosed l -> no_errclosed l'.
Proof.
  unfold no_errclosed. intros pd g t l g' l' e W UC (A & B).
  wstep_cases W; fin; split; try discriminate; try congruence.
  all: try (specialize (UC eq_refl); discriminate).
Qed.

Theorem errclosed_never_sent : forall pd progs script cfok c t l,
  reach pd progs script cfok c -> nth_error (thr c) t = Some l -> no_errclosed l.
Proof.
  intros pd progs script cfok c t l R. revert t l. revert c R.
  apply (reach_ind pd progs script cfok (fun c => forall t l, nth_error (thr c) t = Some l -> no_errclosed l)).
  - intros t l N. apply nth_error_In, winit_thr_init in N. destruct N as (_ & [E | (E & _)]); unfold no_errclosed; rewrite E; split; discriminate.
  - intros c t0 c' e R IH S t l N. pose proof (reach_inv1 _ _ _ _ _ R) as I1.
    apply ws_step_inv in S. destruct S as (l0 & g' & l0' & N0 & W & ->). simpl in N.
    destruct (nth_error_set_nth_cases _ _ _ _ _ _ _ N0 N) as [(-> & ->) | (NE & N')]; eauto.
    eapply wstep_no_errclosed; eauto. apply (I_closed _ I1).
Qed.

(* ------------------------------------------------------------------ *)
(* C15.6  progress: who can be blocked, and by whom                    *)
(* ------------------------------------------------------------------ *)
Section Progress.
  Variables (pd : bool) (c : wconfig).
  Hypothesis I1 : Inv1 c.
  Hypothesis I2 : Inv2 c.
  Hypothesis NP : w_panic (glob c) = false.

  Lemma en_some : forall t l, nth_error (thr c) t = Some l ->
    (exists x, wstep pd (glob c) t l = Some x) -> ws_enabled pd c t = true.
  Proof. intros t l N (x & E). rewrite (enabled_iff _ _ _ _ N). congruence. Qed.

  (* the listener of a running loop, and what the loop's slot looks like *)
  Lemma loop_listener : forall k lk, nth_error (thr c) k = Some lk -> running_loop (glob c) k lk = true ->
    wl_loop lk = k /\
    exists t l, nth_error (thr c) t = Some l /\ listening_phase (wl_pc l) = true /\ wl_loop l = k /\ couple (glob c) l lk k.
  Proof.
    intros k lk N RUN. destruct (J_inv _ I2 _ _ N RUN) as (t & l & NT & LP & WL).
    destruct (J_cur _ I2 _ _ NT LP) as (lk2 & NK & _ & CP). rewrite WL in *. rewrite N in NK. inversion NK; subst lk2.
    split; eauto 8. apply (J_loc _ I2 _ _ N). eapply running_is_loop; eauto.
  Qed.

  (* a read loop whose ReadMessage has returned is never stuck in QRSend *)
  Lemma loop_send_enabled : forall k lk m, nth_error (thr c) k = Some lk -> wl_pc lk = QRSend m -> ws_enabled pd c k = true.
  Proof.
    intros k lk m N PC. destruct (loop_listener k lk N) as (WL & t & l & _ & _ & _ & CP).
    { unfold running_loop; rewrite PC; auto. }
    unfold couple in CP. rewrite PC in CP. destruct CP as (CG & _).
    eapply en_some; eauto. unfold wstep. rewrite NP, PC, WL, CG. eauto.
  Qed.

  (* ... and waits in QRTaken only for its listener, who is at QLRecv and enabled *)
  Lemma loop_taken_blocked : forall k lk m, nth_error (thr c) k = Some lk -> wl_pc lk = QRTaken m ->
    ws_enabled pd c k = true \/
    exists t l acc, nth_error (thr c) t = Some l /\ wl_pc l = QLRecv acc /\ wl_loop l = k /\ ws_enabled pd c t = true.
  Proof.
    intros k lk m N PC. destruct (loop_listener k lk N) as (WL & t & l & NT & _ & WLL & CP).
    { unfold running_loop; rewrite PC; auto. }
    unfold couple in CP. rewrite PC in CP. destruct CP as (S2 & CP).
    destruct (chan_get (glob c) k) as [[m'|] b] eqn:CG; simpl in *.
    - right. destruct CP as (-> & (acc & PCL) & _). exists t, l, acc. repeat split; auto.
      eapply en_some; eauto. unfold wstep. rewrite NP, PCL, WLL, CG. destruct (is_err_msg m); eauto.
    - left. eapply en_some; eauto. unfold wstep. rewrite NP, PC, WL, CG. eauto.
  Qed.

  (* once the underlying connection is closed (or while the peer still has something to
     say) a loop inside ReadMessage is enabled *)
  Lemma loop_result_enabled : forall k lk, nth_error (thr c) k = Some lk -> wl_pc lk = QRResult ->
    w_uclosed (glob c) = true \/ w_script (glob c) <> [] -> ws_enabled pd c k = true.
  Proof.
    intros k lk N PC H. eapply en_some; eauto. unfold wstep. rewrite NP, PC.
    destruct (w_uclosed (glob c)).
    - destruct (f_closed _); eauto.
    - destruct H; [discriminate|]. destruct (w_script (glob c)) as [|[]]; try congruence; eauto.
  Qed.

  (* a listener waiting in QLRecv waits for a loop that has not finished; that loop is
     enabled, unless it is inside ReadMessage with a silent peer and nobody has closed *)
  Lemma listener_recv_blocked : forall t l acc, nth_error (thr c) t = Some l -> wl_pc l = QLRecv acc ->
    ws_enabled pd c t = true \/
    exists lk, nth_error (thr c) (wl_loop l) = Some lk /\ chan_get (glob c) (wl_loop l) = (None, false) /\
               (ws_enabled pd c (wl_loop l) = true \/
                (wl_pc lk = QRResult /\ w_uclosed (glob c) = false /\ w_script (glob c) = [])).
  Proof.
    intros t l acc N PC. destruct (J_cur _ I2 _ _ N) as (lk & NK & AK & CP). { rewrite PC; auto. }
    destruct (chan_get (glob c) (wl_loop l)) as [[m|] b] eqn:CG.
    { left. eapply en_some; eauto. unfold wstep. rewrite NP, PC, CG. destruct (is_err_msg m); eauto. }
    destruct b.
    { left. eapply en_some; eauto. unfold wstep. rewrite NP, PC, CG. eauto. }
    right. exists lk. repeat split; auto.
    assert (WL : wl_loop lk = wl_loop l).
    { apply (J_loc _ I2 _ _ NK). eapply couple_loop_pc; eauto. }
    unfold couple in CP. rewrite CG in CP.
    destruct (wl_pc lk) eqn:PK; try contradiction; try (discriminate CP).
    - left. eapply en_some; eauto. unfold wstep. rewrite NP, PK, AK. eauto.
    - left. eapply en_some; eauto. unfold wstep. rewrite NP, PK. eauto.
    - destruct (w_uclosed (glob c)) eqn:UC.
      + left. eapply loop_result_enabled; eauto.
      + destruct (w_script (glob c)) eqn:SC; auto. left. eapply loop_result_enabled; eauto. right; congruence.
    - left. eapply loop_send_enabled; eauto.
    - left. eapply en_some; eauto. unfold wstep. rewrite NP, PK, WL, CG. eauto.
    - left. eapply en_some; eauto. unfold wstep. rewrite NP, PK. eauto.
  Qed.

  (* a thread past the gate (for any pd, given that nobody has panicked) *)
  Lemma closer_bounded_gen : forall t l, nth_error (thr c) t = Some l -> past_gate (wl_pc l) = true ->
    ws_enabled pd c t = true \/
    exists t' l', nth_error (thr c) t' = Some l' /\ holds_wl (wl_pc l') = true /\ ws_enabled pd c t' = true.
  Proof.
    intros t l N P.
    destruct (wl_pc l) eqn:PC; try discriminate.
    all: try (left; rewrite (enabled_iff _ _ _ _ N); unfold wstep; rewrite NP, PC;
              repeat match goal with |- context[if ?b then _ else _] => destruct b end; congruence).
    destruct (w_WL (glob c)) as [t'|] eqn:WL.
    - right. pose proof (I_wl _ I1 _ WL) as LT. apply nth_error_Some in LT.
      destruct (nth_error (thr c) t') as [l'|] eqn:N'; [|congruence].
      assert (HW : holds_wl (wl_pc l') = true) by (apply (I_thr _ I1 _ _ N'); auto).
      exists t', l'. repeat split; auto. eapply holder_enabled; eauto.
    - left. rewrite (enabled_iff _ _ _ _ N); unfold wstep; rewrite NP, PC, WL. simpl. congruence.
  Qed.

  (* the shape of a thread when NOTHING is enabled *)
  Definition stuck_shape (l : wlocal) : Prop :=
    wdone l = true \/
    (wl_pc l = QRResult /\ w_uclosed (glob c) = false /\ w_script (glob c) = []) \/
    (exists acc lk, wl_pc l = QLRecv acc /\ nth_error (thr c) (wl_loop l) = Some lk /\ wl_pc lk = QRResult /\
                    w_uclosed (glob c) = false /\ w_script (glob c) = []).

  Lemma all_disabled_shape :
    (forall t l, nth_error (thr c) t = Some l -> ws_enabled pd c t = false) ->
    forall t l, nth_error (thr c) t = Some l -> stuck_shape l.
  Proof.
    intros DIS t l N. pose proof (DIS _ _ N) as D.
    assert (EN : forall t1 l1, nth_error (thr c) t1 = Some l1 -> ws_enabled pd c t1 = true -> False).
    { intros t1 l1 N1 E1. rewrite (DIS _ _ N1) in E1. discriminate. }
    assert (NS : forall x, wstep pd (glob c) t l = Some x -> False).
    { intros x E. apply (EN t l N). apply (en_some t l N). eauto. }
    destruct (I_thr _ I1 _ _ N) as (_ & _ & _ & OP). unfold op_ok in OP.
    destruct (J_loc _ I2 _ _ N) as (_ & _ & _ & CL & _).
    unfold stuck_shape, wdone.
    destruct (wl_pc l) eqn:PC.
    - (* QIdle *) destruct (wl_ops l) as [|[]] eqn:O; auto; exfalso; eapply NS; unfold wstep; rewrite NP, PC, O; eauto.
    - exfalso. destruct (f_open (w_flags (glob c))) eqn:FO; (eapply NS; unfold wstep, closer_done; rewrite NP, PC, (I_CL _ I1), FO; eauto).
    - exfalso. destruct (closer_bounded_gen t l N) as [E | (t' & l' & N' & _ & E)]; [rewrite PC; auto | exact (EN _ _ N E) | exact (EN _ _ N' E)].
    - exfalso. destruct (closer_bounded_gen t l N) as [E | (t' & l' & N' & _ & E)]; [rewrite PC; auto | exact (EN _ _ N E) | exact (EN _ _ N' E)].
    - exfalso. destruct (closer_bounded_gen t l N) as [E | (t' & l' & N' & _ & E)]; [rewrite PC; auto | exact (EN _ _ N E) | exact (EN _ _ N' E)].
    - exfalso. destruct (closer_bounded_gen t l N) as [E | (t' & l' & N' & _ & E)]; [rewrite PC; auto | exact (EN _ _ N E) | exact (EN _ _ N' E)].
    - exfalso. destruct (closer_bounded_gen t l N) as [E | (t' & l' & N' & _ & E)]; [rewrite PC; auto | exact (EN _ _ N E) | exact (EN _ _ N' E)].
    - exfalso. destruct (closer_bounded_gen t l N) as [E | (t' & l' & N' & _ & E)]; [rewrite PC; auto | exact (EN _ _ N E) | exact (EN _ _ N' E)].
    - exfalso. destruct (closer_bounded_gen t l N) as [E | (t' & l' & N' & _ & E)]; [rewrite PC; auto | exact (EN _ _ N E) | exact (EN _ _ N' E)].
    - (* QWWantWL *) exfalso. destruct (w_WL (glob c)) as [t'|] eqn:WL.
      + pose proof (I_wl _ I1 _ WL) as LT. apply nth_error_Some in LT.
        destruct (nth_error (thr c) t') as [l'|] eqn:N'; [|congruence].
        apply (EN t' l' N'). apply (holder_enabled pd c t' l' I1 NP N'). apply (I_thr _ I1 _ _ N'); auto.
      + eapply NS. unfold wstep. rewrite NP, PC, WL. simpl. eauto.
    - exfalso. apply (EN t l N). apply (holder_enabled pd c t l I1 NP N). rewrite PC; auto.
    - exfalso. destruct (f_listening (w_flags (glob c))) eqn:FO; (eapply NS; unfold wstep; rewrite NP, PC, (I_LL _ I1), FO; eauto).
    - (* QLSpawn *) exfalso. simpl in CL.
      destruct (wl_ops l) as [|[]] eqn:O; try discriminate. rewrite count_listens_cons_listen in CL.
      destruct (wl_loops l) eqn:LS; [simpl in CL; lia|]. eapply NS. unfold wstep. rewrite NP, PC, LS. eauto.
    - (* QLRecv *) destruct (listener_recv_blocked t l acc N PC) as [E | (lk & NK & CG & [E | (PK & UC & SC)])].
      + exfalso; exact (EN _ _ N E).
      + exfalso; exact (EN _ _ NK E).
      + right; right. exists acc, lk. auto.
    - exfalso. eapply NS. unfold wstep. rewrite NP, PC. eauto.
    - (* QRNotStarted: counts as finished *) auto.
    - exfalso. eapply NS. unfold wstep. rewrite NP, PC. eauto.
    - (* QRResult *) destruct (w_uclosed (glob c)) eqn:UC.
      + exfalso. apply (EN t l N). apply (loop_result_enabled t l N PC). auto.
      + destruct (w_script (glob c)) eqn:SC; auto. exfalso. apply (EN t l N). apply (loop_result_enabled t l N PC). right; congruence.
    - exfalso. apply (EN t l N). apply (loop_send_enabled t l m N PC).
    - exfalso. destruct (loop_taken_blocked t l m N PC) as [E | (t' & l' & acc & N' & _ & _ & E)]; [exact (EN _ _ N E) | exact (EN _ _ N' E)].
    - exfalso. eapply NS. unfold wstep. rewrite NP, PC. eauto.
    - exfalso. eapply NS. unfold wstep. rewrite NP, PC. eauto.
    - exfalso. destruct (w_done (glob c) && pd) eqn:FO; (eapply NS; unfold wstep; rewrite NP, PC, FO; eauto).
    - auto.
  Qed.
End Progress.

Lemma cnt_pos_exists : forall A (P : A -> bool) ls, 1 <= cnt P ls -> exists t l, nth_error ls t = Some l /\ P l = true.
Proof.
  induction ls; simpl; intros; [lia|]. destruct (P a) eqn:E.
  - exists 0, a. auto.
  - simpl in H. destruct (IHls H) as (t & l & N & Pl). exists (S t), l. auto.
Qed.

Lemma deadlocked_all_disabled : forall pd c, ws_deadlocked pd c = true ->
  (forall t l, nth_error (thr c) t = Some l -> ws_enabled pd c t = false) /\
  exists t l, nth_error (thr c) t = Some l /\ wdone l = false.
Proof.
  unfold ws_deadlocked, deadlocked. intros pd c H. apply andb_true_iff in H. destruct H as (H1 & H2).
  apply negb_true_iff in H1, H2. split.
  - intros t l N. destruct (ws_enabled pd c t) eqn:E; auto.
    assert (existsb (enabled wshared wlocal wevent (wstep pd) c) (tids wshared wlocal c) = true); [|congruence].
    apply existsb_exists. exists t. split; auto. unfold tids. apply in_seq. split; [lia|]. simpl. apply nth_error_Some. congruence.
  - unfold all_done in H1. clear H2. induction (thr c) as [|a r IH]; simpl in H1; [discriminate|].
    destruct (wdone a) eqn:E.
    + destruct (IH H1) as (t & l & N & D). exists (S t), l. auto.
    + exists 0, a. auto.
Qed.

(* The system can only be stuck when nobody has ever called Close (Open is still set) and the
   peer is silent: then the stuck threads are read loops inside ReadMessage and the Listen
   calls waiting for them.  In particular every thread that is not finished is a read loop or
   a listener: closers and writers are never stuck. *)
Theorem deadlock_shape : forall progs script cfok c,
  reach false progs script cfok c -> ws_deadlocked false c = true ->
  f_open (w_flags (glob c)) = true /\ w_gate (glob c) = 0 /\
  w_uclosed (glob c) = false /\ w_script (glob c) = [] /\
  forall t l, nth_error (thr c) t = Some l ->
    wdone l = true \/ wl_pc l = QRResult \/
    exists acc lk, wl_pc l = QLRecv acc /\ nth_error (thr c) (wl_loop l) = Some lk /\ wl_pc lk = QRResult.
Proof.
  intros progs script cfok c R D.
  pose proof (reach_inv1 _ _ _ _ _ R) as I1. pose proof (reach_inv2 _ _ _ _ _ R) as I2. pose proof (no_panic _ _ _ _ R) as NP.
  destruct (deadlocked_all_disabled _ _ D) as (DIS & t0 & l0 & N0 & ND).
  pose proof (all_disabled_shape false c I1 I2 NP DIS) as SH.
  assert (UC : w_uclosed (glob c) = false /\ w_script (glob c) = []).
  { destruct (SH _ _ N0) as [E | [(_ & A & B) | (acc & lk & _ & _ & _ & A & B)]]; auto. congruence. }
  destruct UC as (UC & SC).
  assert (G : w_gate (glob c) = 0).
  { pose proof (gate_le1 _ I1). pose proof (I_closers _ I1) as CL. pose proof (I_ucl _ I1) as U. rewrite UC in U. simpl in U.
    destruct (w_gate (glob c)) as [|n] eqn:G; auto. exfalso.
    destruct (cnt_pos_exists _ pgP (thr c)) as (t & l & N & P); [lia|]. unfold pgP in P.
    destruct (SH _ _ N) as [E | [(E & _) | (acc & lk & E & _)]].
    - unfold wdone in E. destruct (wl_pc l); try discriminate.
    - rewrite E in P; discriminate.
    - rewrite E in P; discriminate. }
  repeat split; auto.
  - pose proof (I_gate _ I1) as E. rewrite G in E. destruct (f_open _); auto. discriminate.
  - intros t l N. destruct (SH _ _ N) as [E | [(E & _) | (acc & lk & E & NK & PK & _)]]; eauto 8.
Qed.

Corollary no_deadlock_after_close : forall progs script cfok c,
  reach false progs script cfok c -> f_open (w_flags (glob c)) = false -> ws_deadlocked false c = false.
Proof.
  intros. destruct (ws_deadlocked false c) eqn:D; auto.
  destruct (deadlock_shape _ _ _ _ H D) as (O & _). congruence.
Qed.

Corollary no_deadlock_peer_talking : forall progs script cfok c,
  reach false progs script cfok c -> w_script (glob c) <> [] -> ws_deadlocked false c = false.
Proof.
  intros. destruct (ws_deadlocked false c) eqn:D; auto.
  destruct (deadlock_shape _ _ _ _ H D) as (_ & _ & _ & S & _). congruence.
Qed.

(* C15.6 in the form asked for: after the underlying Close no read loop is blocked inside
   ReadMessage, a loop is never stuck in its send, it waits in QRTaken only for its listener
   (who is then enabled), and a listener only for its (enabled) loop *)
Theorem read_loop_after_close : forall progs script cfok c k lk,
  reach false progs script cfok c -> nth_error (thr c) k = Some lk ->
  match wl_pc lk with
  | QRResult => w_uclosed (glob c) = true \/ w_script (glob c) <> [] -> ws_enabled false c k = true
  | QRRead | QRSend _ | QRExit1 | QRExit2 | QRExit3 => ws_enabled false c k = true
  | QRTaken _ =>
      ws_enabled false c k = true \/
      exists t l acc, nth_error (thr c) t = Some l /\ wl_pc l = QLRecv acc /\ wl_loop l = k /\ ws_enabled false c t = true
  | _ => True
  end.
Proof.
  intros progs script cfok c k lk R N.
  pose proof (reach_inv1 _ _ _ _ _ R) as I1. pose proof (reach_inv2 _ _ _ _ _ R) as I2. pose proof (no_panic _ _ _ _ R) as NP.
  destruct (wl_pc lk) eqn:PC; auto.
  - eapply en_some; eauto. unfold wstep. rewrite NP, PC. eauto.
  - intros. eapply loop_result_enabled; eauto.
  - eapply loop_send_enabled; eauto.
  - eapply loop_taken_blocked; eauto.
  - eapply en_some; eauto. unfold wstep. rewrite NP, PC. eauto.
  - eapply en_some; eauto. unfold wstep. rewrite NP, PC. eauto.
  - eapply en_some; eauto. unfold wstep. rewrite NP, PC. simpl. rewrite andb_false_r. eauto.
Qed.

Theorem listener_waits_for_live_loop : forall progs script cfok c t l acc,
  reach false progs script cfok c -> nth_error (thr c) t = Some l -> wl_pc l = QLRecv acc ->
  ws_enabled false c t = true \/
  exists lk, nth_error (thr c) (wl_loop l) = Some lk /\ chan_get (glob c) (wl_loop l) = (None, false) /\
             (ws_enabled false c (wl_loop l) = true \/
              (wl_pc lk = QRResult /\ w_uclosed (glob c) = false /\ w_script (glob c) = [])).
Proof.
  intros progs script cfok c t l acc R N PC.
  pose proof (reach_inv1 _ _ _ _ _ R) as I1. pose proof (reach_inv2 _ _ _ _ _ R) as I2. pose proof (no_panic _ _ _ _ R) as NP.
  eapply listener_recv_blocked; eauto.
Qed.

(* ------------------------------------------------------------------ *)
(* termination: every micro-step decreases the measure mu              *)
(* ------------------------------------------------------------------ *)
Lemma sumf_set_nth : forall A (f : A -> nat) ls k x d,
  k < length ls -> sumf f (set_nth ls k x) + f (nth k ls d) = sumf f ls + f x.
Proof.
  induction ls; destruct k; simpl; intros; try lia.
  specialize (IHls k x d). lia.
Qed.

Lemma set_nth_oob : forall A (ls : list A) k x, length ls <= k -> set_nth ls k x = ls.
Proof. induction ls; destruct k; simpl; intros; auto; try lia. f_equal. apply IHls. lia. Qed.

Lemma slot_in_range : forall g k, chan_get g k <> (None, true) -> k < length (w_chans g).
Proof.
  intros. destruct (Nat.lt_ge_cases k (length (w_chans g))); auto.
  unfold chan_get in H. rewrite nth_overflow in H by auto. congruence.
Qed.

Lemma slot_update : forall g k x,
  chan_get g k <> (None, true) ->
  sumf slotw (set_nth (w_chans g) k x) + slotw (chan_get g k) = sumf slotw (w_chans g) + slotw x.
Proof. intros. apply sumf_set_nth. apply slot_in_range; auto. Qed.

Lemma slot_update_same : forall g k x,
  slotw x = slotw (chan_get g k) -> sumf slotw (set_nth (w_chans g) k x) = sumf slotw (w_chans g).
Proof.
  intros. destruct (Nat.lt_ge_cases k (length (w_chans g))).
  - pose proof (sumf_set_nth _ slotw (w_chans g) k x (None, true) H0). unfold chan_get in H. lia.
  - rewrite set_nth_oob; auto.
Qed.

Local Opaque Nat.mul.

Lemma wstep_mu : forall pd g t l g' l' e,
  wstep pd g t l = Some (g', l', e) -> op_ok l = true ->
  mu_glob g' + mu_local l' < mu_glob g + mu_local l.
Proof.
  intros pd g t l g' l' e W OP. unfold op_ok in OP.
  wstep_cases W; try (destruct inln); unfold mu_glob, mu_local; fin.
  all: repeat match goal with H : wl_ops _ = _ |- _ => rewrite H in * end.
  all: repeat match goal with H : w_script _ = _ |- _ => rewrite H in * end.
  all: repeat match goal with H : is_err_msg _ = _ |- _ => rewrite H in * end.
  all: try (destruct (wl_ops l) as [|? ?] eqn:OPS; [discriminate OP|]); cbn in *; try lia.
  all: try (rewrite slot_update_same by reflexivity; lia).
  all: try (destruct (is_err_msg m) eqn:?).
  all: try match goal with
           | H : chan_get ?g ?k = _ |- context[sumf slotw (set_nth (w_chans ?g) ?k ?x)] =>
               let P := fresh "P" in
               assert (P := slot_update g k x); rewrite H in P; cbn in P;
               repeat match goal with H : is_err_msg _ = _ |- _ => rewrite H in * end;
               specialize (P ltac:(discriminate)); try lia
           end.
Qed.

Lemma sumf_set_nth_thr : forall A (f : A -> nat) ls t l l',
  nth_error ls t = Some l -> sumf f (set_nth ls t l') + f l = sumf f ls + f l'.
Proof.
  induction ls; destruct t; simpl; intros; try discriminate.
  - inversion H; subst. lia.
  - specialize (IHls _ _ l' H). lia.
Qed.

Theorem step_decreases_mu : forall pd c t c' e,
  Inv1 c -> ws_step pd c t = Some (c', e) -> mu c' < mu c.
Proof.
  intros pd c t c' e I S. apply ws_step_inv in S. destruct S as (l & g' & l' & N & W & ->).
  assert (OP : op_ok l = true) by (apply (I_thr _ I _ _ N)).
  pose proof (wstep_mu _ _ _ _ _ _ _ W OP). pose proof (sumf_set_nth_thr _ mu_local _ _ _ l' N).
  unfold mu; simpl. lia.
Qed.

(* every execution makes at most mu(c) effective steps *)
Theorem bounded_executions : forall pd sch c,
  Inv1 c -> eff_steps pd c sch + mu (fst (ws_exec pd c sch)) <= mu c.
Proof.
  induction sch; intros c I; simpl eff_steps.
  - simpl. lia.
  - rewrite ws_exec_cons. destruct (ws_step pd c a) as [[c' e]|] eqn:S; auto.
    pose proof (step_decreases_mu _ _ _ _ _ I S). assert (I' : Inv1 c') by (eapply inv1_step; eauto).
    specialize (IHsch c' I'). lia.
Qed.

Corollary bounded_executions_init : forall pd progs script cfok sch,
  eff_steps pd (winit progs script cfok) sch <= mu (winit progs script cfok).
Proof.
  intros. pose proof (bounded_executions pd sch _ (inv1_init progs script cfok)). lia.
Qed.

Local Transparent Nat.mul.

(* not deadlocked and not finished: somebody can move *)
Lemma not_deadlocked_enabled : forall pd c,
  ws_deadlocked pd c = false -> ws_all_done c = false -> exists t, ws_enabled pd c t = true.
Proof.
  unfold ws_deadlocked, deadlocked, ws_all_done. intros pd c D A. rewrite A in D. simpl in D.
  apply negb_false_iff in D. apply existsb_exists in D. destruct D as (t & _ & E). exists t. exact E.
Qed.

(* C15.6, the termination form: once a Close call has passed the gate, the whole system can
   always run to completion (all Listen calls return, all read loops end); together with
   bounded_executions (no infinite executions) and no_deadlock_after_close (no stuck state):
   every execution continued long enough ends with every thread finished. *)
Theorem terminates_after_close : forall progs script cfok c,
  reach false progs script cfok c -> f_open (w_flags (glob c)) = false ->
  exists sch, ws_all_done (fst (ws_exec false c sch)) = true.
Proof.
  intros progs script cfok c. remember (mu c) as n. revert c Heqn.
  induction n as [n IH] using lt_wf_ind. intros c -> R O.
  destruct (ws_all_done c) eqn:A.
  - exists []. exact A.
  - pose proof (no_deadlock_after_close _ _ _ _ R O) as ND.
    destruct (not_deadlocked_enabled _ _ ND A) as (t & E).
    unfold ws_enabled, enabled in E. fold (ws_step false c t) in E.
    destruct (ws_step false c t) as [[c' e]|] eqn:S; [|discriminate].
    pose proof (step_decreases_mu _ _ _ _ _ (reach_inv1 _ _ _ _ _ R) S) as LT.
    destruct (IH _ LT c' eq_refl) as (sch & D).
    + eapply reach_step; eauto.
    + eapply open_never_set_again; eauto.
    + exists (t :: sch). rewrite ws_exec_cons, S. exact D.
Qed.

(* a maximal execution after Close is complete: if nobody is enabled, everybody is finished *)
Theorem quiescent_after_close_is_done : forall progs script cfok c,
  reach false progs script cfok c -> f_open (w_flags (glob c)) = false ->
  (forall t, ws_enabled false c t = false) -> ws_all_done c = true.
Proof.
  intros. destruct (ws_all_done c) eqn:A; auto.
  destruct (not_deadlocked_enabled _ _ (no_deadlock_after_close _ _ _ _ H H0) A) as (t & E). congruence.
Qed.

(* ------------------------------------------------------------------ *)
(* non-vacuity: concrete executions (vm_compute)                       *)
(* ------------------------------------------------------------------ *)
(* summary: per thread (pc, results); (w_gate, w_closes, #close frames, #data frames);
   (w_uclosed, w_done, w_panic); then the visible trace, deadlocked?, all done? *)
Definition run (progs : list (list wop)) (script : list peer_item) (cfok : bool) (sch : list nat) :=
  let r := ws_exec false (winit progs script cfok) sch in
  (summary (fst r), snd r, ws_deadlocked false (fst r), ws_all_done (fst r)).

(* two closers and a listener (threads 0, 1, 2; the read loop is thread 3) *)
Definition two_closers_listener : list (list wop) := [[WClose]; [WClose]; [WListen]].

(* the peer answers with a normal closure; round robin: closer 0 wins, its deadline expires
   before the loop has closed done (code 2), closer 1: multiple close calls, Listen: nil *)
Example ex_close1000_rr :
  run two_closers_listener [PClose 1000] true (rr_sched 4 12) =
  (([(QIdle, [2%N]); (QIdle, [1%N]); (QIdle, [0%N]); (QRDone, [])], (1, 1, 1, 0), (true, true, false)),
   [(3, WEvRead); (0, WEvFrame 8 []); (0, WEvClose)], false, true).
Proof. vm_compute. reflexivity. Qed.

(* the listener sees the peer's close first and its handler's inline Close wins the gate:
   both direct closers get "multiple close calls" *)
Example ex_close1000_handler_wins :
  run two_closers_listener [PClose 1000] true ([2;2;2;3;3;3;3;2;2;2;2;2;2;2;2;2;2;2] ++ rr_sched 4 8) =
  (([(QIdle, [1%N]); (QIdle, [1%N]); (QIdle, [0%N]); (QRDone, [])], (1, 1, 1, 0), (true, true, false)),
   [(3, WEvRead); (2, WEvFrame 8 []); (2, WEvClose)], false, true).
Proof. vm_compute. reflexivity. Qed.

(* a silent peer: the winner's close deadline expires (code 2); the underlying Close then
   ends the read loop (healthy close) and Listen returns nil *)
Example ex_silent_peer :
  run two_closers_listener [] true (rr_sched 4 12) =
  (([(QIdle, [2%N]); (QIdle, [1%N]); (QIdle, [0%N]); (QRDone, [])], (1, 1, 1, 0), (true, true, false)),
   [(3, WEvRead); (0, WEvFrame 8 []); (0, WEvClose)], false, true).
Proof. vm_compute. reflexivity. Qed.

(* a transport failure seen before the winner tests the Error flag: no close frame at all;
   Listen returns the error (code 5) *)
Example ex_neterr_no_frame :
  run two_closers_listener [PNetErr] true ([2;2;2;3;3;3;3] ++ rr_sched 4 12) =
  (([(QIdle, [0%N]); (QIdle, [1%N]); (QIdle, [5%N]); (QRDone, [])], (1, 1, 0, 0), (true, true, false)),
   [(3, WEvRead); (0, WEvClose)], false, true).
Proof. vm_compute. reflexivity. Qed.

(* ... seen after it: one close frame *)
Example ex_neterr_rr :
  run two_closers_listener [PNetErr] true (rr_sched 4 12) =
  (([(QIdle, [2%N]); (QIdle, [1%N]); (QIdle, [5%N]); (QRDone, [])], (1, 1, 1, 0), (true, true, false)),
   [(3, WEvRead); (0, WEvFrame 8 []); (0, WEvClose)], false, true).
Proof. vm_compute. reflexivity. Qed.

(* an abnormal closure code: Listen returns the error (code 5) *)
Example ex_close1001 :
  run two_closers_listener [PClose 1001] true ([2;2;2;3;3;3;3] ++ rr_sched 4 12) =
  (([(QIdle, [0%N]); (QIdle, [1%N]); (QIdle, [5%N]); (QRDone, [])], (1, 1, 1, 0), (true, true, false)),
   [(3, WEvRead); (0, WEvFrame 8 []); (0, WEvClose)], false, true).
Proof. vm_compute. reflexivity. Qed.

(* writers concurrent with a closer: writes before the underlying Close succeed (unless the
   underlying write fails: thread 2), writes after it fail (code 3) *)
Definition writers_closer : list (list wop) := [[WWrite [] true; WWrite [] true]; [WClose]; [WWrite [] false]].
Example ex_writers_before :
  run writers_closer [] true (rr_sched 3 12) =
  (([(QIdle, [0%N; 0%N]); (QIdle, [0%N]); (QIdle, [3%N])], (1, 1, 1, 3), (true, false, false)),
   [(0, WEvFrame 2 []); (2, WEvFrame 2 []); (0, WEvFrame 2 []); (1, WEvFrame 8 []); (1, WEvClose)], false, true).
Proof. vm_compute. reflexivity. Qed.
Example ex_writers_after :
  run writers_closer [] true ([1;1;1;1;1;1;1;1] ++ rr_sched 3 12) =
  (([(QIdle, [3%N; 3%N]); (QIdle, [0%N]); (QIdle, [3%N])], (1, 1, 1, 3), (true, false, false)),
   [(1, WEvFrame 8 []); (1, WEvClose); (0, WEvFrame 2 []); (2, WEvFrame 2 []); (0, WEvFrame 2 [])], false, true).
Proof. vm_compute. reflexivity. Qed.

(* the deadlock of deadlock_shape is real: Listen against a silent peer, nobody closes *)
Example ex_stuck_without_close :
  run [[WListen]] [] true (rr_sched 2 12) =
  (([(QLRecv 0, []); (QRResult, [])], (0, 0, 0, 0), (false, false, false)), [(1, WEvRead)], true, false).
Proof. vm_compute. reflexivity. Qed.

(* the boolean forms of both invariants on pseudo-random schedules of a larger system
   (4 workers, 5 Listen calls) *)
Definition mixed_progs : list (list wop) :=
  [[WClose; WListen]; [WListen; WClose; WWrite [] true]; [WWrite [] true; WListen; WListen]; [WWrite [] false; WClose]].
Example ex_invariants_random :
  test_many false (fun c => inv1_b c && inv2_b c) (winit mixed_progs [PData; PClose 1001; PData] true) 40 150 = true.
Proof. vm_compute. reflexivity. Qed.
Example ex_invariants_random_pinned :
  test_many true (fun c => inv1_b c && inv2_b c) (winit mixed_progs [PData; PNetErr] false) 40 150 = true.
Proof. vm_compute. reflexivity. Qed.

(* Listening is cleared only after the channel has been closed: a Listen that returns can be
   followed at once by a Listen that is refused ("already listening", code 4) although no
   Listen is running any more *)
Example ex_spurious_already_listening :
  let r := ws_exec false (winit [[WListen; WListen]; [WClose]] [] true)
             ([0;0;0;2;2] ++ [1;1;1;1;1;1;1;1;1] ++ [2;2] ++ [0;0;0]) in
  map (fun l => (wl_pc l, wl_rets l)) (thr (fst r)) =
  [(QIdle, [0%N; 4%N]); (QIdle, [2%N]); (QRExit2, []); (QRNotStarted, [])].
Proof. vm_compute. reflexivity. Qed.

(* one_reader is tight: an old loop that has cleared Listening but not yet closed done
   (QRExit3) coexists with the new loop inside ReadMessage *)
Example ex_old_loop_finishing_while_new_reads :
  let r := ws_exec false (winit [[WListen; WListen]; [WClose]] [] true)
             ([0;0;0;2;2] ++ [1;1;1;1;1;1;1;1;1] ++ [2;2;2] ++ [0;0;0;0] ++ [3;3]) in
  (map (fun l => (wl_pc l, wl_rets l)) (thr (fst r)), snd r) =
  ([(QLRecv 0, [0%N]); (QIdle, [2%N]); (QRExit3, []); (QRResult, [])],
   [(2, WEvRead); (1, WEvFrame 8 []); (1, WEvClose); (3, WEvRead)]).
Proof. vm_compute. reflexivity. Qed.

(* ------------------------------------------------------------------ *)
(* assumptions                                                         *)
(* ------------------------------------------------------------------ *)
Print Assumptions reach_inv1.
Print Assumptions reach_inv2.
Print Assumptions single_closer.
Print Assumptions open_never_set_again_exec.
Print Assumptions gate_step.
Print Assumptions late_close_returns_1.
Print Assumptions trace_counters.
Print Assumptions one_close_frame.
Print Assumptions one_close_frame_trace.
Print Assumptions no_close_frame_after_error.
Print Assumptions underlying_closed_once.
Print Assumptions underlying_closed_once_trace.
Print Assumptions closer_bounded.
Print Assumptions closer_rank_decreases.
Print Assumptions no_panic.
Print Assumptions pinned_panics.
Print Assumptions listen_acc.
Print Assumptions listen_steps.
Print Assumptions listen_result.
Print Assumptions listen_code_spec.
Print Assumptions errclosed_never_sent.
Print Assumptions deadlock_shape.
Print Assumptions no_deadlock_after_close.
Print Assumptions no_deadlock_peer_talking.
Print Assumptions read_loop_after_close.
Print Assumptions listener_waits_for_live_loop.
Print Assumptions step_decreases_mu.
Print Assumptions bounded_executions.
Print Assumptions terminates_after_close.
Print Assumptions quiescent_after_close_is_done.
Print Assumptions one_writer.
Print Assumptions frame_under_writelock.
Print Assumptions one_reader.
Print Assumptions read_event_exclusive.
Print Assumptions write_result.
Print Assumptions writer_has_write_op.
