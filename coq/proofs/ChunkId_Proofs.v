(* C12: chunk ids are fresh per message, stable once assigned, and carried on the wire.
   Model: model/ChunkId.v. *)
From Coq Require Import String.   (* before List: [length] must stay List.length *)
From FF Require Import model.Bytes model.Show model.Msgp model.Forward model.Wf model.Spec model.Abs
  model.ChunkId.
From FF Require Import proofs.Bytes_Proofs proofs.Roundtrip_Proofs proofs.Wire_Proofs.
From Coq Require Import Lia ZifyN ZifyNat ZifyBool Permutation.
Open Scope N_scope.
Ltac Zify.zify_post_hook ::= Z.div_mod_to_equations.

(* ====================================================================== *)
(* base64                                                                 *)
(* ====================================================================== *)

Lemma list3_ind {A} (P : list A -> Prop) :
  P [] -> (forall a, P [a]) -> (forall a b, P [a; b]) ->
  (forall a b c r, P r -> P (a :: b :: c :: r)) -> forall l, P l.
Proof.
  intros H0 H1 H2 H3. fix F 1. intros [|a [|b [|c r]]].
  - exact H0.
  - apply H1.
  - apply H2.
  - apply H3. apply F.
Qed.

Theorem base64_length b : List.length (base64 b) = (4 * ((List.length b + 2) / 3))%nat.
Proof.
  induction b as [|a|a b|a b c r IH] using list3_ind; try reflexivity.
  cbn [base64 List.length]. rewrite IH.
  replace (S (S (S (List.length r))) + 2)%nat with (1 * 3 + (List.length r + 2))%nat by lia.
  rewrite Nat.div_add_l by lia. lia.
Qed.

Corollary base64_nonempty b : b <> [] -> base64 b <> [].
Proof.
  intros Hb E. apply (f_equal (@List.length byte)) in E. rewrite base64_length in E.
  destruct b as [|x r]; [congruence|]. cbn [List.length] in E.
  assert (1 <= (S (List.length r) + 2) / 3)%nat.
  { replace (S (List.length r) + 2)%nat with (1 * 3 + List.length r)%nat by lia.
    rewrite Nat.div_add_l by lia. lia. }
  lia.
Qed.

Lemma N_lt64_cases (P : N -> Prop) :
  (forall i, (i < 64)%nat -> P (N.of_nat i)) -> forall n, n < 64 -> P n.
Proof. intros H n Hn. rewrite <- (Nnat.N2Nat.id n). apply H. lia. Qed.

Lemma b64_char_facts n : n < 64 ->
  b64_val (b64_char n) = Some n /\ is_pad (b64_char n) = false.
Proof.
  revert n. apply N_lt64_cases. intros i Hi.
  do 64 (destruct i as [|i]; [vm_compute; split; reflexivity|]). lia.
Qed.

Lemma b64_val_char n : n < 64 -> b64_val (b64_char n) = Some n.
Proof. intros H. now apply b64_char_facts. Qed.
Lemma b64_char_not_pad n : n < 64 -> is_pad (b64_char n) = false.
Proof. intros H. now apply b64_char_facts. Qed.
Lemma b64_char_is_b64 n : n < 64 -> is_b64 (b64_char n) = true.
Proof. intros H. unfold is_b64. now rewrite b64_val_char. Qed.
Lemma is_pad_pad : is_pad b64_pad = true.
Proof. reflexivity. Qed.
Lemma pad_not_b64 : is_b64 b64_pad = false.
Proof. reflexivity. Qed.

Lemma sx1_lt a : a < 256 -> sx1 a < 64.
Proof. unfold sx1. lia. Qed.
Lemma sx2_lt a b : b < 256 -> sx2 a b < 64.
Proof. unfold sx2. lia. Qed.
Lemma sx3_lt b c : c < 256 -> sx3 b c < 64.
Proof. unfold sx3. lia. Qed.
Lemma sx4_lt c : sx4 c < 64.
Proof. unfold sx4. lia. Qed.

Lemma sx_byte1 a b : a < 256 -> b < 256 -> sx1 a * 4 + sx2 a b / 16 = a.
Proof. unfold sx1, sx2. lia. Qed.
Lemma sx_byte2 a b c : b < 256 -> c < 256 -> (sx2 a b mod 16) * 16 + sx3 b c / 4 = b.
Proof. unfold sx2, sx3. lia. Qed.
Lemma sx_byte3 b c : c < 256 -> (sx3 b c mod 4) * 64 + sx4 c = c.
Proof. unfold sx3, sx4. lia. Qed.

Ltac b64_simp :=
  repeat first
    [ rewrite b64_val_char by (first [apply sx1_lt | apply sx2_lt | apply sx3_lt | apply sx4_lt];
                               first [apply b2n_lt | lia])
    | rewrite b64_char_not_pad by (first [apply sx1_lt | apply sx2_lt | apply sx3_lt | apply sx4_lt];
                                   first [apply b2n_lt | lia])
    | rewrite is_pad_pad ].

Theorem unbase64_base64 b : unbase64 (base64 b) = Some b.
Proof.
  induction b as [|a|a b|a b c r IH] using list3_ind.
  - reflexivity.
  - pose proof (b2n_lt a). cbn [base64 unbase64]. b64_simp.
    rewrite sx_byte1 by lia. now rewrite n2b_b2n.
  - pose proof (b2n_lt a). pose proof (b2n_lt b). cbn [base64 unbase64]. b64_simp.
    rewrite sx_byte1, sx_byte2 by lia. now rewrite !n2b_b2n.
  - pose proof (b2n_lt a). pose proof (b2n_lt b). pose proof (b2n_lt c).
    cbn [base64]. cbn [unbase64]. b64_simp. fold unbase64. rewrite IH.
    rewrite sx_byte1, sx_byte2, sx_byte3 by lia. now rewrite !n2b_b2n.
Qed.

(* base64 is injective (on all inputs, in particular on inputs of equal length) *)
Theorem base64_inj a b : base64 a = base64 b -> a = b.
Proof.
  intros H. apply (f_equal unbase64) in H. rewrite !unbase64_base64 in H. congruence.
Qed.

Corollary base64_inj_len a b : List.length a = List.length b -> base64 a = base64 b -> a = b.
Proof. intros _. apply base64_inj. Qed.

(* ====================================================================== *)
(* the uuid v4 markers                                                    *)
(* ====================================================================== *)

(* the bit operations of version4.go as arithmetic *)
Lemma v4_b6_arith x : v4_b6 x = n2b (64 + b2n x mod 16).
Proof. destruct x; reflexivity. Qed.
Lemma v4_b8_arith x : v4_b8 x = n2b (128 + b2n x mod 64).
Proof. destruct x; reflexivity. Qed.

Lemma v4_b6_val x : b2n (v4_b6 x) = 64 + b2n x mod 16.
Proof. rewrite v4_b6_arith, b2n_n2b_small; lia. Qed.
Lemma v4_b8_val x : b2n (v4_b8 x) = 128 + b2n x mod 64.
Proof. rewrite v4_b8_arith, b2n_n2b_small; lia. Qed.
Lemma free_b6_val x : b2n (free_b6 x) = b2n x mod 16.
Proof. unfold free_b6. rewrite b2n_n2b_small; lia. Qed.
Lemma free_b8_val x : b2n (free_b8 x) = b2n x mod 64.
Proof. unfold free_b8. rewrite b2n_n2b_small; lia. Qed.

Lemma v4_b6_eq_iff x y : v4_b6 x = v4_b6 y <-> free_b6 x = free_b6 y.
Proof.
  split; intros H; apply b2n_inj; apply (f_equal b2n) in H;
    rewrite ?v4_b6_val, ?free_b6_val in *; lia.
Qed.
Lemma v4_b8_eq_iff x y : v4_b8 x = v4_b8 y <-> free_b8 x = free_b8 y.
Proof.
  split; intros H; apply b2n_inj; apply (f_equal b2n) in H;
    rewrite ?v4_b8_val, ?free_b8_val in *; lia.
Qed.

(* version nibble 4, variant bits 10 *)
Lemma v4_b6_marker x : b2n (v4_b6 x) / 16 = 4.
Proof. rewrite v4_b6_val. lia. Qed.
Lemma v4_b8_marker x : b2n (v4_b8 x) / 64 = 2.
Proof. rewrite v4_b8_val. lia. Qed.
(* ... and the masking keeps the free bits *)
Lemma free_v4_b6 x : free_b6 (v4_b6 x) = free_b6 x.
Proof. apply b2n_inj. rewrite !free_b6_val, v4_b6_val. lia. Qed.
Lemma free_v4_b8 x : free_b8 (v4_b8 x) = free_b8 x.
Proof. apply b2n_inj. rewrite !free_b8_val, v4_b8_val. lia. Qed.

Lemma upd_nth_length {A} n (f : A -> A) l : List.length (upd_nth n f l) = List.length l.
Proof. revert n; induction l as [|x r IH]; intros [|n]; cbn [upd_nth List.length]; auto. Qed.

Lemma v4mask_length b : List.length (v4mask b) = List.length b.
Proof. unfold v4mask. now rewrite !upd_nth_length. Qed.
Lemma free_bits_length b : List.length (free_bits b) = List.length b.
Proof. unfold free_bits. now rewrite !upd_nth_length. Qed.

Lemma len16 (b : bytes) : List.length b = 16%nat ->
  exists b0 b1 b2 b3 b4 b5 b6 b7 b8 b9 b10 b11 b12 b13 b14 b15,
    b = [b0; b1; b2; b3; b4; b5; b6; b7; b8; b9; b10; b11; b12; b13; b14; b15].
Proof.
  intros H.
  do 16 (destruct b as [|? b]; [discriminate|]). destruct b; [|discriminate].
  repeat eexists.
Qed.

Ltac explode16 H :=
  let E := fresh "E" in
  destruct (len16 _ H) as (?b0 & ?b1 & ?b2 & ?b3 & ?b4 & ?b5 & ?b6 & ?b7 & ?b8 & ?b9 & ?b10 & ?b11
                            & ?b12 & ?b13 & ?b14 & ?b15 & E).

Theorem v4mask_eq_iff a b : List.length a = 16%nat -> List.length b = 16%nat ->
  (v4mask a = v4mask b <-> free_bits a = free_bits b).
Proof.
  intros Ha Hb.
  destruct (len16 _ Ha) as (a0&a1&a2&a3&a4&a5&a6&a7&a8&a9&a10&a11&a12&a13&a14&a15&->).
  destruct (len16 _ Hb) as (c0&c1&c2&c3&c4&c5&c6&c7&c8&c9&c10&c11&c12&c13&c14&c15&->).
  unfold v4mask, free_bits. cbn [upd_nth].
  split; intros H; injection H; intros; subst;
    repeat match goal with
           | H : v4_b6 _ = v4_b6 _ |- _ => apply v4_b6_eq_iff in H; rewrite H
           | H : v4_b8 _ = v4_b8 _ |- _ => apply v4_b8_eq_iff in H; rewrite H
           | H : free_b6 _ = free_b6 _ |- _ => apply v4_b6_eq_iff in H; rewrite H
           | H : free_b8 _ = free_b8 _ |- _ => apply v4_b8_eq_iff in H; rewrite H
           end; reflexivity.
Qed.

Lemma free_bits_v4mask b : free_bits (v4mask b) = free_bits b.
Proof.
  unfold free_bits, v4mask.
  do 9 (destruct b as [|? b]; [cbn [upd_nth]; now rewrite ?free_v4_b6|]). cbn [upd_nth].
  now rewrite free_v4_b6, free_v4_b8.
Qed.

(* ====================================================================== *)
(* makeChunkID                                                            *)
(* ====================================================================== *)

Definition opts_or_empty (o : option options) : options :=
  match o with Some x => x | None => empty_options end.

Section ChunkId.
  Variable rnd : nat -> bytes.
  Hypothesis rnd_len : forall k, List.length (rnd k) = 16%nat.

  Lemma make_chunk_id_length k : List.length (make_chunk_id rnd k) = 24%nat.
  Proof. unfold make_chunk_id. now rewrite base64_length, v4mask_length, rnd_len. Qed.

  Lemma make_chunk_id_nonempty k : make_chunk_id rnd k <> [].
  Proof. intros E. pose proof (make_chunk_id_length k) as H. now rewrite E in H. Qed.

  (* two ids coincide exactly when the windows agree on their 122 free bits *)
  Theorem chunk_id_inj i j :
    make_chunk_id rnd i = make_chunk_id rnd j <-> free_bits (rnd i) = free_bits (rnd j).
  Proof.
    unfold make_chunk_id. rewrite <- (v4mask_eq_iff _ _ (rnd_len i) (rnd_len j)).
    split; [apply base64_inj | now intros ->].
  Qed.

  (* base64 of 128 bits carrying the v4 markers *)
  Theorem id_shape k :
    let id := make_chunk_id rnd k in
    List.length id = 24%nat /\
    (exists body, id = body ++ [b64_pad; b64_pad] /\ List.length body = 22%nat /\
                  forallb is_b64 body = true) /\
    exists u, unbase64 id = Some u /\ List.length u = 16%nat /\
              b2n (nth 6 u x00) / 16 = 4 /\ b2n (nth 8 u x00) / 64 = 2 /\
              u = v4mask (rnd k) /\ free_bits u = free_bits (rnd k).
  Proof.
    cbv zeta. split; [apply make_chunk_id_length|]. split.
    - unfold make_chunk_id.
      destruct (len16 _ (rnd_len k)) as (a0&a1&a2&a3&a4&a5&a6&a7&a8&a9&a10&a11&a12&a13&a14&a15&->).
      unfold v4mask. cbn [upd_nth base64].
      eexists (_ :: _ :: _ :: _ :: _ :: _ :: _ :: _ :: _ :: _ :: _ :: _ :: _ :: _ :: _ :: _ :: _ :: _
               :: _ :: _ :: _ :: [_]).
      split; [reflexivity|]. split; [reflexivity|].
      cbn [forallb].
      rewrite !b64_char_is_b64
        by (first [apply sx1_lt | apply sx2_lt | apply sx3_lt | apply sx4_lt];
            first [apply b2n_lt | lia]).
      reflexivity.
    - exists (v4mask (rnd k)). split; [apply unbase64_base64|].
      split; [now rewrite v4mask_length|].
      split; [|split; [|split; [reflexivity|apply free_bits_v4mask]]].
      + destruct (len16 _ (rnd_len k)) as (a0&a1&a2&a3&a4&a5&a6&a7&a8&a9&a10&a11&a12&a13&a14&a15&->).
        unfold v4mask. cbn [upd_nth nth]. apply v4_b6_marker.
      + destruct (len16 _ (rnd_len k)) as (a0&a1&a2&a3&a4&a5&a6&a7&a8&a9&a10&a11&a12&a13&a14&a15&->).
        unfold v4mask. cbn [upd_nth nth]. apply v4_b8_marker.
  Qed.

  (* ====================================================================== *)
  (* Chunk()                                                                *)
  (* ====================================================================== *)

  (* what Chunk() does to the Options field, in one statement *)
  Lemma chunk_opts_spec o k :
    chunk_opts rnd o k =
      if needs_id o
      then ({| o_size := o_size (opts_or_empty o); o_chunk := make_chunk_id rnd k;
               o_comp := o_comp (opts_or_empty o) |}, make_chunk_id rnd k, S k)
      else (opts_or_empty o, o_chunk (opts_or_empty o), k).
  Proof. destruct o as [[sz [|c0 c] cp]|]; reflexivity. Qed.

  Lemma chunk_opts_chunk o k o' id k' : chunk_opts rnd o k = (o', id, k') -> o_chunk o' = id.
  Proof. rewrite chunk_opts_spec. destruct (needs_id o); intros [= <- <- <-]; reflexivity. Qed.

  Lemma chunk_opts_id_nonempty o k o' id k' : chunk_opts rnd o k = (o', id, k') -> id <> [].
  Proof.
    rewrite chunk_opts_spec. destruct (needs_id o) eqn:N; intros [= <- <- <-].
    - apply make_chunk_id_nonempty.
    - destruct o as [[sz [|c0 c] cp]|]; discriminate.
  Qed.

  Lemma chunk_opts_no_need o k o' id k' : chunk_opts rnd o k = (o', id, k') -> needs_id (Some o') = false.
  Proof.
    intros H. pose proof (chunk_opts_chunk _ _ _ _ _ H) as Hc.
    pose proof (chunk_opts_id_nonempty _ _ _ _ _ H) as Hn.
    cbn. rewrite Hc. destruct id; congruence.
  Qed.

  (* 1. stability *)
  Lemma chunk_opts_stable o k o' id k1 k' :
    chunk_opts rnd o k = (o', id, k1) -> chunk_opts rnd (Some o') k' = (o', id, k').
  Proof.
    intros H. rewrite chunk_opts_spec, (chunk_opts_no_need _ _ _ _ _ H). cbn [opts_or_empty].
    now rewrite (chunk_opts_chunk _ _ _ _ _ H).
  Qed.

  Theorem chunk_stable_message m k k' :
    chunk_message rnd (fst (fst (chunk_message rnd m k))) k' =
      (fst (fst (chunk_message rnd m k)), snd (fst (chunk_message rnd m k)), k').
  Proof.
    unfold chunk_message. destruct (chunk_opts rnd (m_opts m) k) as [[o id] k1] eqn:E.
    cbn [fst snd m_opts m_tag m_ts m_rec]. now rewrite (chunk_opts_stable _ _ _ _ _ k' E).
  Qed.

  Theorem chunk_stable_message_ext m k k' :
    chunk_message_ext rnd (fst (fst (chunk_message_ext rnd m k))) k' =
      (fst (fst (chunk_message_ext rnd m k)), snd (fst (chunk_message_ext rnd m k)), k').
  Proof.
    unfold chunk_message_ext. destruct (chunk_opts rnd (x_opts m) k) as [[o id] k1] eqn:E.
    cbn [fst snd x_opts x_tag x_ts x_rec]. now rewrite (chunk_opts_stable _ _ _ _ _ k' E).
  Qed.

  Theorem chunk_stable_forward m k k' :
    chunk_forward rnd (fst (fst (chunk_forward rnd m k))) k' =
      (fst (fst (chunk_forward rnd m k)), snd (fst (chunk_forward rnd m k)), k').
  Proof.
    unfold chunk_forward. destruct (chunk_opts rnd (f_opts m) k) as [[o id] k1] eqn:E.
    cbn [fst snd f_opts f_tag f_entries]. now rewrite (chunk_opts_stable _ _ _ _ _ k' E).
  Qed.

  Theorem chunk_stable_packed m k k' :
    chunk_packed rnd (fst (fst (chunk_packed rnd m k))) k' =
      (fst (fst (chunk_packed rnd m k)), snd (fst (chunk_packed rnd m k)), k').
  Proof.
    unfold chunk_packed. destruct (chunk_opts rnd (p_opts m) k) as [[o id] k1] eqn:E.
    cbn [fst snd p_opts p_tag p_stream]. now rewrite (chunk_opts_stable _ _ _ _ _ k' E).
  Qed.

  Theorem chunk_stable a k k' :
    chunk_any rnd (fst (fst (chunk_any rnd a k))) k' =
      (fst (fst (chunk_any rnd a k)), snd (fst (chunk_any rnd a k)), k').
  Proof.
    destruct a as [m|m|m|m]; cbn [chunk_any].
    - pose proof (chunk_stable_message m k k') as H.
      destruct (chunk_message rnd m k) as [[m' id] k1]. cbn [fst snd chunk_any] in *. now rewrite H.
    - pose proof (chunk_stable_message_ext m k k') as H.
      destruct (chunk_message_ext rnd m k) as [[m' id] k1]. cbn [fst snd chunk_any] in *. now rewrite H.
    - pose proof (chunk_stable_forward m k k') as H.
      destruct (chunk_forward rnd m k) as [[m' id] k1]. cbn [fst snd chunk_any] in *. now rewrite H.
    - pose proof (chunk_stable_packed m k k') as H.
      destruct (chunk_packed rnd m k) as [[m' id] k1]. cbn [fst snd chunk_any] in *. now rewrite H.
  Qed.

  (* 2. a supplied id is returned, nothing changes, no randomness is consumed *)
  Lemma chunk_opts_supplied o k : o_chunk o <> [] -> chunk_opts rnd (Some o) k = (o, o_chunk o, k).
  Proof. destruct o as [sz [|c0 c] cp]; [cbn; congruence|reflexivity]. Qed.

  Theorem chunk_preserves_supplied_message m o k :
    m_opts m = Some o -> o_chunk o <> [] -> chunk_message rnd m k = (m, o_chunk o, k).
  Proof.
    intros Ho Hc. unfold chunk_message. rewrite Ho, (chunk_opts_supplied _ _ Hc).
    destruct m; cbn in *. now subst.
  Qed.
  Theorem chunk_preserves_supplied_message_ext m o k :
    x_opts m = Some o -> o_chunk o <> [] -> chunk_message_ext rnd m k = (m, o_chunk o, k).
  Proof.
    intros Ho Hc. unfold chunk_message_ext. rewrite Ho, (chunk_opts_supplied _ _ Hc).
    destruct m; cbn in *. now subst.
  Qed.
  Theorem chunk_preserves_supplied_forward m o k :
    f_opts m = Some o -> o_chunk o <> [] -> chunk_forward rnd m k = (m, o_chunk o, k).
  Proof.
    intros Ho Hc. unfold chunk_forward. rewrite Ho, (chunk_opts_supplied _ _ Hc).
    destruct m; cbn in *. now subst.
  Qed.
  Theorem chunk_preserves_supplied_packed m o k :
    p_opts m = Some o -> o_chunk o <> [] -> chunk_packed rnd m k = (m, o_chunk o, k).
  Proof.
    intros Ho Hc. unfold chunk_packed. rewrite Ho, (chunk_opts_supplied _ _ Hc).
    destruct m; cbn in *. now subst.
  Qed.

  (* the frame: nothing but the chunk field (and nil -> empty options) ever changes; the
     counter advances exactly when an id is generated *)
  Definition opts_frame (o : option options) (k : nat) (o' : options) (id : bytes) (k' : nat) : Prop :=
    o_size o' = o_size (opts_or_empty o) /\ o_comp o' = o_comp (opts_or_empty o) /\
    o_chunk o' = id /\ id <> [] /\
    (if needs_id o then id = make_chunk_id rnd k /\ k' = S k
     else id = o_chunk (opts_or_empty o) /\ k' = k).

  Lemma chunk_opts_frame o k o' id k' : chunk_opts rnd o k = (o', id, k') -> opts_frame o k o' id k'.
  Proof.
    intros H. pose proof (chunk_opts_id_nonempty _ _ _ _ _ H) as Hn. revert H.
    rewrite chunk_opts_spec. unfold opts_frame.
    destruct (needs_id o); intros [= <- <- <-]; cbn; auto 10.
  Qed.

  Theorem chunk_frame_message m k : forall m' id k', chunk_message rnd m k = (m', id, k') ->
    m_tag m' = m_tag m /\ m_ts m' = m_ts m /\ m_rec m' = m_rec m /\
    exists o', m_opts m' = Some o' /\ opts_frame (m_opts m) k o' id k'.
  Proof.
    intros m' id k'. unfold chunk_message.
    destruct (chunk_opts rnd (m_opts m) k) as [[o i] k1] eqn:E. intros [= <- <- <-]. cbn.
    repeat split. eexists; split; [reflexivity|]. now apply chunk_opts_frame.
  Qed.
  Theorem chunk_frame_message_ext m k : forall m' id k', chunk_message_ext rnd m k = (m', id, k') ->
    x_tag m' = x_tag m /\ x_ts m' = x_ts m /\ x_rec m' = x_rec m /\
    exists o', x_opts m' = Some o' /\ opts_frame (x_opts m) k o' id k'.
  Proof.
    intros m' id k'. unfold chunk_message_ext.
    destruct (chunk_opts rnd (x_opts m) k) as [[o i] k1] eqn:E. intros [= <- <- <-]. cbn.
    repeat split. eexists; split; [reflexivity|]. now apply chunk_opts_frame.
  Qed.
  Theorem chunk_frame_forward m k : forall m' id k', chunk_forward rnd m k = (m', id, k') ->
    f_tag m' = f_tag m /\ f_entries m' = f_entries m /\
    exists o', f_opts m' = Some o' /\ opts_frame (f_opts m) k o' id k'.
  Proof.
    intros m' id k'. unfold chunk_forward.
    destruct (chunk_opts rnd (f_opts m) k) as [[o i] k1] eqn:E. intros [= <- <- <-]. cbn.
    repeat split. eexists; split; [reflexivity|]. now apply chunk_opts_frame.
  Qed.
  Theorem chunk_frame_packed m k : forall m' id k', chunk_packed rnd m k = (m', id, k') ->
    p_tag m' = p_tag m /\ p_stream m' = p_stream m /\
    exists o', p_opts m' = Some o' /\ opts_frame (p_opts m) k o' id k'.
  Proof.
    intros m' id k'. unfold chunk_packed.
    destruct (chunk_opts rnd (p_opts m) k) as [[o i] k1] eqn:E. intros [= <- <- <-]. cbn.
    repeat split. eexists; split; [reflexivity|]. now apply chunk_opts_frame.
  Qed.
  (* ====================================================================== *)
  (* 3. the id is carried on the wire                                       *)
  (* ====================================================================== *)

  Lemma chunk_opts_wf o k o' id k' :
    wf_optopt o = true -> chunk_opts rnd o k = (o', id, k') -> wf_options o' = true.
  Proof.
    intros Hwf. rewrite chunk_opts_spec. destruct (needs_id o) eqn:N; intros [= <- <- <-].
    - assert (Hl : len (make_chunk_id rnd k) <? two32 = true).
      { unfold len. now rewrite make_chunk_id_length. }
      destruct o as [o|]; cbn in *.
      + unfold wf_options in *. cbn [o_size o_chunk o_comp].
        apply andb_prop in Hwf as [Hwf H3]. apply andb_prop in Hwf as [H1 H2].
        now rewrite H1, Hl, H3.
      + unfold wf_options. cbn [o_size o_chunk o_comp]. now rewrite Hl.
    - destruct o as [o|]; [exact Hwf|discriminate].
  Qed.

  Lemma chunk_message_wf m k m' id k' :
    wf_message m = true -> chunk_message rnd m k = (m', id, k') -> wf_message m' = true.
  Proof.
    unfold chunk_message. destruct (chunk_opts rnd (m_opts m) k) as [[o i] k1] eqn:E.
    intros Hwf [= <- <- <-]. unfold wf_message in *. cbn [m_tag m_ts m_rec m_opts].
    apply andb_prop in Hwf as [Hwf Ho]. rewrite Hwf. cbn [andb wf_optopt].
    exact (chunk_opts_wf _ _ _ _ _ Ho E).
  Qed.
  Lemma chunk_message_ext_wf m k m' id k' :
    wf_message_ext m = true -> chunk_message_ext rnd m k = (m', id, k') -> wf_message_ext m' = true.
  Proof.
    unfold chunk_message_ext. destruct (chunk_opts rnd (x_opts m) k) as [[o i] k1] eqn:E.
    intros Hwf [= <- <- <-]. unfold wf_message_ext in *. cbn [x_tag x_ts x_rec x_opts].
    apply andb_prop in Hwf as [Hwf Ho]. rewrite Hwf. cbn [andb wf_optopt].
    exact (chunk_opts_wf _ _ _ _ _ Ho E).
  Qed.
  Lemma chunk_forward_wf m k m' id k' :
    wf_forward m = true -> chunk_forward rnd m k = (m', id, k') -> wf_forward m' = true.
  Proof.
    unfold chunk_forward. destruct (chunk_opts rnd (f_opts m) k) as [[o i] k1] eqn:E.
    intros Hwf [= <- <- <-]. unfold wf_forward in *. cbn [f_tag f_entries f_opts].
    apply andb_prop in Hwf as [Hwf Ho]. rewrite Hwf. cbn [andb wf_optopt].
    exact (chunk_opts_wf _ _ _ _ _ Ho E).
  Qed.
  Lemma chunk_packed_wf m k m' id k' :
    wf_packed m = true -> chunk_packed rnd m k = (m', id, k') -> wf_packed m' = true.
  Proof.
    unfold chunk_packed. destruct (chunk_opts rnd (p_opts m) k) as [[o i] k1] eqn:E.
    intros Hwf [= <- <- <-]. unfold wf_packed in *. cbn [p_tag p_stream p_opts].
    apply andb_prop in Hwf as [Hwf Ho]. rewrite Hwf. cbn [andb wf_optopt].
    exact (chunk_opts_wf _ _ _ _ _ Ho E).
  Qed.

  Lemma chunk_message_opts m k m' id k' : chunk_message rnd m k = (m', id, k') ->
    option_map o_chunk (m_opts m') = Some id /\ id <> [] /\ m_rec m' = m_rec m.
  Proof.
    unfold chunk_message. destruct (chunk_opts rnd (m_opts m) k) as [[o i] k1] eqn:E.
    intros [= <- <- <-]. cbn. rewrite (chunk_opts_chunk _ _ _ _ _ E).
    repeat split. exact (chunk_opts_id_nonempty _ _ _ _ _ E).
  Qed.
  Lemma chunk_message_ext_opts m k m' id k' : chunk_message_ext rnd m k = (m', id, k') ->
    option_map o_chunk (x_opts m') = Some id /\ id <> [] /\ x_rec m' = x_rec m.
  Proof.
    unfold chunk_message_ext. destruct (chunk_opts rnd (x_opts m) k) as [[o i] k1] eqn:E.
    intros [= <- <- <-]. cbn. rewrite (chunk_opts_chunk _ _ _ _ _ E).
    repeat split. exact (chunk_opts_id_nonempty _ _ _ _ _ E).
  Qed.
  Lemma chunk_forward_opts m k m' id k' : chunk_forward rnd m k = (m', id, k') ->
    option_map o_chunk (f_opts m') = Some id /\ id <> [] /\ f_entries m' = f_entries m.
  Proof.
    unfold chunk_forward. destruct (chunk_opts rnd (f_opts m) k) as [[o i] k1] eqn:E.
    intros [= <- <- <-]. cbn. rewrite (chunk_opts_chunk _ _ _ _ _ E).
    repeat split. exact (chunk_opts_id_nonempty _ _ _ _ _ E).
  Qed.
  Lemma chunk_packed_opts m k m' id k' : chunk_packed rnd m k = (m', id, k') ->
    option_map o_chunk (p_opts m') = Some id /\ id <> [] /\ p_stream m' = p_stream m.
  Proof.
    unfold chunk_packed. destruct (chunk_opts rnd (p_opts m) k) as [[o i] k1] eqn:E.
    intros [= <- <- <-]. cbn. rewrite (chunk_opts_chunk _ _ _ _ _ E).
    repeat split. exact (chunk_opts_id_nonempty _ _ _ _ _ E).
  Qed.

  Lemma soptopt_chunk o id : option_map o_chunk o = Some id -> id <> [] ->
    match soptopt_of o with Some s => so_chunk s | None => None end = Some id.
  Proof.
    destruct o as [[sz c cp]|]; [|discriminate]. cbn. intros [= ->] Hn.
    destruct id; [congruence|reflexivity].
  Qed.

  (* the library's own decoders (both paths, any previous receiver value) read the
     encoding of the message after Chunk() completely and find exactly the id in its
     chunk option *)
  Theorem chunk_on_wire_message p prev m k m' id k' e :
    wf_message m = true -> chunk_message rnd m k = (m', id, k') -> M_message m' = Ok e ->
    exists d, U_message p prev e = Ok (d, []) /\ option_map o_chunk (m_opts d) = Some id.
  Proof.
    intros Hwf Hc He. exists (norm_message m'). split.
    - apply rt_message_exact; [eapply chunk_message_wf; eauto|exact He].
    - cbn [norm_message m_opts]. now apply (chunk_message_opts _ _ _ _ _ Hc).
  Qed.

  Theorem chunk_on_wire_message_ext p prev m k m' id k' e :
    wf_message_ext m = true -> chunk_message_ext rnd m k = (m', id, k') -> M_message_ext m' = Ok e ->
    exists d, U_message_ext p prev e = Ok (d, []) /\ option_map o_chunk (x_opts d) = Some id.
  Proof.
    intros Hwf Hc He. exists (norm_message_ext m'). split.
    - apply rt_message_ext_exact; [eapply chunk_message_ext_wf; eauto|exact He].
    - cbn [norm_message_ext x_opts]. now apply (chunk_message_ext_opts _ _ _ _ _ Hc).
  Qed.

  Theorem chunk_on_wire_forward p prev m k m' id k' e :
    wf_forward m = true -> chunk_forward rnd m k = (m', id, k') -> M_forward m' = Ok e ->
    exists d, U_forward p prev e = Ok (d, []) /\ option_map o_chunk (f_opts d) = Some id.
  Proof.
    intros Hwf Hc He. exists (norm_forward m'). split.
    - apply rt_forward_exact; [eapply chunk_forward_wf; eauto|exact He].
    - cbn [norm_forward f_opts]. now apply (chunk_forward_opts _ _ _ _ _ Hc).
  Qed.

  Theorem chunk_on_wire_packed p prev m k m' id k' :
    wf_packed m = true -> chunk_packed rnd m k = (m', id, k') ->
    exists d, U_packed p prev (M_packed m') = Ok (d, []) /\ option_map o_chunk (p_opts d) = Some id.
  Proof.
    intros Hwf Hc. exists m'. split.
    - apply rt_packed_exact. eapply chunk_packed_wf; eauto.
    - now apply (chunk_packed_opts _ _ _ _ _ Hc).
  Qed.

  (* the encodings exist (the encoders do not fail on well-formed messages) *)
  Corollary chunk_encodable_message m k m' id k' :
    wf_message m = true -> chunk_message rnd m k = (m', id, k') -> exists e, M_message m' = Ok e.
  Proof. intros Hwf Hc. apply M_message_wf_ok. eapply chunk_message_wf; eauto. Qed.
  Corollary chunk_encodable_message_ext m k m' id k' :
    wf_message_ext m = true -> chunk_message_ext rnd m k = (m', id, k') -> exists e, M_message_ext m' = Ok e.
  Proof. intros Hwf Hc. apply M_message_ext_wf_ok. eapply chunk_message_ext_wf; eauto. Qed.
  Corollary chunk_encodable_forward m k m' id k' :
    wf_forward m = true -> chunk_forward rnd m k = (m', id, k') -> exists e, M_forward m' = Ok e.
  Proof. intros Hwf Hc. apply M_forward_wf_ok. eapply chunk_forward_wf; eauto. Qed.

  (* specification level: the independent Forward-Protocol parser of Spec.v reads the
     encoding completely as the abstraction of the message, whose chunk id is the id *)
  Theorem chunk_on_wire_spec_message m k m' id k' e :
    wf_message m = true -> is_gmap (m_rec m) = true ->
    chunk_message rnd m k = (m', id, k') -> M_message m' = Ok e ->
    spec_parse shape_message e = Some (abs_message m', []) /\ spec_chunk (abs_message m') = Some id.
  Proof.
    intros Hwf Hmap Hc He. destruct (chunk_message_opts _ _ _ _ _ Hc) as (Ho & Hn & Hr). split.
    - apply wire_message; [eapply chunk_message_wf; eauto|now rewrite Hr|exact He].
    - unfold spec_chunk, abs_message. cbn [smsg_opts]. now apply soptopt_chunk.
  Qed.

  Theorem chunk_on_wire_spec_message_ext m k m' id k' e :
    wf_message_ext m = true -> is_gmap (x_rec m) = true ->
    chunk_message_ext rnd m k = (m', id, k') -> M_message_ext m' = Ok e ->
    spec_parse shape_message e = Some (abs_message_ext m', []) /\
    spec_chunk (abs_message_ext m') = Some id.
  Proof.
    intros Hwf Hmap Hc He. destruct (chunk_message_ext_opts _ _ _ _ _ Hc) as (Ho & Hn & Hr). split.
    - apply wire_message_ext; [eapply chunk_message_ext_wf; eauto|now rewrite Hr|exact He].
    - unfold spec_chunk, abs_message_ext. cbn [smsg_opts]. now apply soptopt_chunk.
  Qed.

  Theorem chunk_on_wire_spec_forward m k m' id k' e :
    wf_forward m = true -> forallb (fun en => is_gmap (e_rec en)) (f_entries m) = true ->
    chunk_forward rnd m k = (m', id, k') -> M_forward m' = Ok e ->
    spec_parse shape_forward e = Some (abs_forward m', []) /\ spec_chunk (abs_forward m') = Some id.
  Proof.
    intros Hwf Hmap Hc He. destruct (chunk_forward_opts _ _ _ _ _ Hc) as (Ho & Hn & Hr). split.
    - apply wire_forward; [eapply chunk_forward_wf; eauto|now rewrite Hr|exact He].
    - unfold spec_chunk, abs_forward. cbn [smsg_opts]. now apply soptopt_chunk.
  Qed.

  Theorem chunk_on_wire_spec_packed m k m' id k' :
    wf_packed m = true -> chunk_packed rnd m k = (m', id, k') ->
    spec_parse shape_packed (M_packed m') = Some (abs_packed m', []) /\
    spec_chunk (abs_packed m') = Some id.
  Proof.
    intros Hwf Hc. destruct (chunk_packed_opts _ _ _ _ _ Hc) as (Ho & Hn & Hr). split.
    - apply wire_packed. eapply chunk_packed_wf; eauto.
    - unfold spec_chunk, abs_packed. cbn [smsg_opts]. now apply soptopt_chunk.
  Qed.

  (* ====================================================================== *)
  (* 5. freshness: the windows handed out, sequentially and concurrently    *)
  (* ====================================================================== *)

  Lemma chunk_any_opts a k :
    snd (fst (chunk_any rnd a k)) = snd (fst (chunk_opts rnd (any_opts a) k)) /\
    snd (chunk_any rnd a k) = snd (chunk_opts rnd (any_opts a) k).
  Proof.
    destruct a as [m|m|m|m]; cbn [chunk_any any_opts];
      unfold chunk_message, chunk_message_ext, chunk_forward, chunk_packed;
      match goal with |- context [chunk_opts rnd ?o k] => destruct (chunk_opts rnd o k) as [[o' i] k1] end;
      split; reflexivity.
  Qed.

  Lemma chunk_any_fresh a k : needs_id (any_opts a) = true ->
    exists a', chunk_any rnd a k = (a', make_chunk_id rnd k, S k).
  Proof.
    intros N. destruct (chunk_any_opts a k) as [H1 H2]. rewrite chunk_opts_spec, N in H1, H2.
    destruct (chunk_any rnd a k) as [[a' id] k']. cbn in H1, H2. subst. now exists a'.
  Qed.

  Lemma chunk_any_preset a k : needs_id (any_opts a) = false ->
    exists a' id, chunk_any rnd a k = (a', id, k).
  Proof.
    intros N. destruct (chunk_any_opts a k) as [H1 H2]. rewrite chunk_opts_spec, N in H1, H2.
    destruct (chunk_any rnd a k) as [[a' id] k']. cbn in H2. subst. now exists a', id.
  Qed.

  (* ---------- one goroutine: any sequence of Chunk() calls on any messages ---------- *)

  Definition res_windows (l : list chunk_result) : list nat := flat_map (fun e => opt_list (snd e)) l.
  Definition res_fresh_ids (l : list chunk_result) : list bytes :=
    flat_map (fun e => match snd e with Some _ => [snd (fst e)] | None => [] end) l.

  Lemma chunk_seq_windows ms : forall k,
    (k <= snd (chunk_seq rnd ms k))%nat /\
    res_windows (fst (chunk_seq rnd ms k)) = seq k (snd (chunk_seq rnd ms k) - k) /\
    res_fresh_ids (fst (chunk_seq rnd ms k)) = map (make_chunk_id rnd) (seq k (snd (chunk_seq rnd ms k) - k)).
  Proof.
    induction ms as [|a r IH]; intros k.
    - cbn. rewrite Nat.sub_diag. auto.
    - cbn [chunk_seq]. destruct (needs_id (any_opts a)) eqn:N.
      + destruct (chunk_any_fresh a k N) as (a' & ->). specialize (IH (S k)).
        destruct (chunk_seq rnd r (S k)) as [out k2]. cbn [fst snd] in *.
        destruct IH as (Hle & Hw & Hi). split; [lia|].
        replace (k2 - k)%nat with (S (k2 - S k)) by lia.
        unfold res_windows, res_fresh_ids in *. cbn [flat_map snd fst opt_list app seq map].
        now rewrite Hw, Hi.
      + destruct (chunk_any_preset a k N) as (a' & id & ->). specialize (IH k).
        destruct (chunk_seq rnd r k) as [out k2]. cbn [fst snd] in *.
        unfold res_windows, res_fresh_ids in *. cbn [flat_map snd fst opt_list app]. exact IH.
  Qed.

  (* the windows consumed by a sequence of calls are k, k+1, ... without repetition *)
  Theorem seq_windows_nodup ms k : NoDup (res_windows (fst (chunk_seq rnd ms k))).
  Proof. destruct (chunk_seq_windows ms k) as (_ & -> & _). apply seq_NoDup. Qed.

  (* ---------- goroutines: any interleaving ---------- *)

  Lemma nth_error_split_set {A} (l : list A) : forall t x, nth_error l t = Some x ->
    exists l1 l2, l = l1 ++ x :: l2 /\ forall y, set_nth l t y = l1 ++ y :: l2.
  Proof.
    induction l as [|z l IH]; intros [|t] x H; try discriminate.
    - injection H as ->. exists [], l. split; reflexivity.
    - cbn in H. destruct (IH _ _ H) as (l1 & l2 & -> & Hs). exists (z :: l1), l2.
      split; [reflexivity|]. intros y. cbn. now rewrite Hs.
  Qed.

  Definition thread_ok (th : thread) : Prop :=
    match t_hold th with
    | None => True
    | Some _ => match t_todo th with a :: _ => needs_id (any_opts a) = true | [] => False end
    end.

  (* every logged result is the result of the sequential Chunk() on some message, at the
     window it was given *)
  Definition entry_ok (e : nat * chunk_result) : Prop :=
    exists a k, fst (chunk_any rnd a k) = fst (snd e) /\
                snd (snd e) = if needs_id (any_opts a) then Some k else None.

  Record pool_inv (k0 total : nat) (s : pool_state) : Prop := {
    inv_le : (k0 <= ps_ctr s)%nat;
    inv_perm : Permutation (log_windows (ps_log s) ++ held_windows (ps_thr s)) (seq k0 (ps_ctr s - k0));
    inv_ids : log_fresh_ids (ps_log s) = map (make_chunk_id rnd) (log_windows (ps_log s));
    inv_thr : Forall thread_ok (ps_thr s);
    inv_cnt : (List.length (ps_log s) + List.length (flat_map t_todo (ps_thr s)) = total)%nat;
    inv_log : Forall entry_ok (ps_log s)
  }.

  Lemma pool_inv_init k0 ths : pool_inv k0 (List.length (concat ths)) (pool_init k0 ths).
  Proof.
    unfold pool_init. split; cbn [ps_ctr ps_thr ps_log].
    - lia.
    - rewrite Nat.sub_diag. cbn. induction ths; cbn; auto.
    - reflexivity.
    - induction ths; cbn; constructor; auto. exact I.
    - cbn. f_equal. induction ths; cbn; auto. now rewrite IHths.
    - constructor.
  Qed.

  Lemma log_windows_snoc l e : log_windows (l ++ [e]) = log_windows l ++ opt_list (snd (snd e)).
  Proof. unfold log_windows. rewrite flat_map_app. cbn [flat_map]. now rewrite app_nil_r. Qed.
  Lemma log_fresh_ids_snoc l e : log_fresh_ids (l ++ [e]) =
    log_fresh_ids l ++ match snd (snd e) with Some _ => [snd (fst (snd e))] | None => [] end.
  Proof. unfold log_fresh_ids. rewrite flat_map_app. cbn [flat_map]. now rewrite app_nil_r. Qed.

  Lemma pool_inv_step k0 total s t : pool_inv k0 total s -> pool_inv k0 total (pool_step rnd s t).
  Proof.
    intros Inv. unfold pool_step.
    destruct (nth_error (ps_thr s) t) as [th|] eqn:En; [|exact Inv].
    destruct th as [todo hold]. cbn [t_todo t_hold].
    destruct todo as [|a rest]; [exact Inv|].
    destruct (nth_error_split_set _ _ _ En) as (l1 & l2 & El & Eset).
    destruct Inv as [Hle Hperm Hids Hthr Hcnt Hlog].
    rewrite El in Hperm, Hthr, Hcnt.
    pose proof (Forall_elt _ _ _ Hthr) as Hth.
    apply Forall_app in Hthr as [Hthr1 Hthr2]. apply Forall_cons_iff in Hthr2 as [_ Hthr2].
    unfold held_windows in Hperm. rewrite flat_map_app in Hperm, Hcnt.
    cbn [flat_map t_hold t_todo] in Hperm, Hcnt. rewrite !app_length in Hcnt. cbn [List.length] in Hcnt.
    fold (held_windows l1) in Hperm. fold (held_windows l2) in Hperm.
    destruct hold as [w|].
    - (* FINISH *)
      unfold thread_ok in Hth. cbn [t_hold t_todo] in Hth.
      pose proof (chunk_any_fresh a w Hth) as (a' & Ea). rewrite Ea.
      split; cbn [ps_ctr ps_thr ps_log]; rewrite ?Eset.
      + exact Hle.
      + unfold log_windows, held_windows. rewrite !flat_map_app. cbn [flat_map t_hold snd opt_list app].
        fold (log_windows (ps_log s)) (held_windows l1) (held_windows l2).
        cbn [opt_list app] in Hperm. rewrite ?app_nil_r.
        eapply Permutation_trans; [|exact Hperm].
        rewrite <- app_assoc. apply Permutation_app_head. cbn [app].
        apply Permutation_middle.
      + rewrite log_fresh_ids_snoc, log_windows_snoc, map_app, Hids. reflexivity.
      + apply Forall_app. split; [exact Hthr1|]. constructor; [exact I|exact Hthr2].
      + rewrite flat_map_app. cbn [flat_map t_todo]. rewrite !app_length. cbn [List.length]. lia.
      + apply Forall_app. split; [exact Hlog|]. constructor; [|constructor].
        exists a, w. cbn [fst snd]. rewrite Ea, Hth. split; reflexivity.
    - destruct (needs_id (any_opts a)) eqn:N.
      + (* FETCH *)
        split; cbn [ps_ctr ps_thr ps_log]; rewrite ?Eset.
        * lia.
        * unfold held_windows. rewrite flat_map_app. cbn [flat_map t_hold opt_list app].
          fold (held_windows l1) (held_windows l2). cbn [opt_list app] in Hperm.
          replace (S (ps_ctr s) - k0)%nat with (S (ps_ctr s - k0)) by lia.
          rewrite seq_S. replace (k0 + (ps_ctr s - k0))%nat with (ps_ctr s) by lia.
          eapply Permutation_trans; [|apply Permutation_cons_append].
          eapply Permutation_trans; [|apply perm_skip; exact Hperm].
          rewrite !app_assoc. symmetry. apply Permutation_middle.
        * exact Hids.
        * apply Forall_app. split; [exact Hthr1|]. constructor; [exact N|exact Hthr2].
        * rewrite flat_map_app. cbn [flat_map t_todo]. rewrite !app_length. cbn [List.length]. lia.
        * exact Hlog.
      + (* preset id *)
        pose proof (chunk_any_preset a (ps_ctr s) N) as (a' & id & Ea). rewrite Ea.
        split; cbn [ps_ctr ps_thr ps_log]; rewrite ?Eset.
        * exact Hle.
        * unfold log_windows, held_windows. rewrite !flat_map_app. cbn [flat_map t_hold snd opt_list app].
          fold (log_windows (ps_log s)) (held_windows l1) (held_windows l2).
          cbn [opt_list app] in Hperm. rewrite ?app_nil_r. exact Hperm.
        * rewrite log_fresh_ids_snoc, log_windows_snoc, map_app, Hids. reflexivity.
        * apply Forall_app. split; [exact Hthr1|]. constructor; [exact I|exact Hthr2].
        * rewrite flat_map_app. cbn [flat_map t_todo]. rewrite !app_length. cbn [List.length]. lia.
        * apply Forall_app. split; [exact Hlog|]. constructor; [|constructor].
          exists a, (ps_ctr s). cbn [fst snd]. rewrite Ea, N. split; reflexivity.
  Qed.

  Lemma pool_inv_run k0 total sch : forall s, pool_inv k0 total s -> pool_inv k0 total (pool_run rnd s sch).
  Proof.
    unfold pool_run. induction sch as [|t r IH]; intros s Inv; [exact Inv|].
    cbn [fold_left]. apply IH. now apply pool_inv_step.
  Qed.

  Lemma NoDup_app_l {A} (l1 l2 : list A) : NoDup (l1 ++ l2) -> NoDup l1.
  Proof.
    induction l1 as [|x l1 IH]; intros H; [constructor|].
    cbn in H. inversion H as [|? ? Hx Hr]; subst. constructor; [|now apply IH].
    intros Hin. apply Hx. apply in_or_app. now left.
  Qed.

  (* whatever the schedule: the windows handed out (to finished calls and to calls in
     flight) are exactly k0, ..., ctr-1, each once *)
  Theorem pool_windows_perm k0 ths sch :
    let s := pool_run rnd (pool_init k0 ths) sch in
    Permutation (log_windows (ps_log s) ++ held_windows (ps_thr s)) (seq k0 (ps_ctr s - k0)).
  Proof. cbv zeta. eapply inv_perm. apply pool_inv_run, pool_inv_init. Qed.

  Theorem pool_windows_nodup k0 ths sch :
    let s := pool_run rnd (pool_init k0 ths) sch in
    NoDup (log_windows (ps_log s) ++ held_windows (ps_thr s)).
  Proof.
    cbv zeta. eapply Permutation_NoDup; [symmetry; apply pool_windows_perm|apply seq_NoDup].
  Qed.

  (* every logged result is what the sequential Chunk() returns at the window taken *)
  Theorem pool_log_sound k0 ths sch :
    Forall entry_ok (ps_log (pool_run rnd (pool_init k0 ths) sch)).
  Proof. eapply inv_log. apply pool_inv_run, pool_inv_init. Qed.

  Lemma done_threads l :
    forallb (fun th => match t_todo th with [] => true | _ => false end) l = true ->
    Forall thread_ok l -> flat_map t_todo l = [] /\ held_windows l = [].
  Proof.
    unfold held_windows. induction l as [|th l IH]; intros Hd Hthr; [split; reflexivity|].
    cbn [forallb] in Hd. apply andb_prop in Hd as [Hd1 Hd2].
    apply Forall_cons_iff in Hthr as [Hth Hthr].
    destruct (IH Hd2 Hthr) as [E1 E2]. cbn [flat_map]. rewrite E1, E2.
    unfold thread_ok in Hth. destruct (t_todo th); [|discriminate].
    destruct (t_hold th); [contradiction|]. split; reflexivity.
  Qed.

  (* a schedule that runs every thread to completion: every message got its result, and the
     windows consumed are exactly k0, ..., k0+n-1 for the n ids generated *)
  Theorem pool_complete k0 ths sch :
    let s := pool_run rnd (pool_init k0 ths) sch in
    pool_done s = true ->
    List.length (ps_log s) = List.length (concat ths) /\
    Permutation (log_windows (ps_log s)) (seq k0 (List.length (log_fresh_ids (ps_log s)))).
  Proof.
    cbv zeta. intros Hd.
    pose proof (pool_inv_run k0 _ sch _ (pool_inv_init k0 ths)) as [Hle Hperm Hids Hthr Hcnt Hlog].
    set (s := pool_run rnd (pool_init k0 ths) sch) in *.
    destruct (done_threads _ Hd Hthr) as [Ht Hh].
    rewrite Ht in Hcnt. rewrite Hh, app_nil_r in Hperm.
    split; [cbn in Hcnt; lia|].
    rewrite Hids, map_length. pose proof (Permutation_length Hperm) as Hl.
    rewrite seq_length in Hl. now rewrite Hl.
  Qed.

  (* ---------- bounds on the counter ---------- *)

  Lemma chunk_seq_ctr_bound ms : forall k, (snd (chunk_seq rnd ms k) <= k + List.length ms)%nat.
  Proof.
    induction ms as [|a r IH]; intros k; [cbn; lia|].
    cbn [chunk_seq]. destruct (needs_id (any_opts a)) eqn:N.
    - destruct (chunk_any_fresh a k N) as (a' & ->). specialize (IH (S k)).
      destruct (chunk_seq rnd r (S k)) as [out k2]. cbn [snd List.length] in *. lia.
    - destruct (chunk_any_preset a k N) as (a' & id & ->). specialize (IH k).
      destruct (chunk_seq rnd r k) as [out k2]. cbn [snd List.length] in *. lia.
  Qed.

  Lemma log_windows_length l : (List.length (log_windows l) <= List.length l)%nat.
  Proof.
    unfold log_windows. induction l as [|e l IH]; [cbn; lia|].
    destruct e as [t [[a id] [w|]]]; cbn [flat_map snd opt_list app List.length]; lia.
  Qed.

  Lemma held_windows_length l : Forall thread_ok l ->
    (List.length (held_windows l) <= List.length (flat_map t_todo l))%nat.
  Proof.
    unfold held_windows. induction 1 as [|th l Hth Hl IH]; [cbn; lia|].
    cbn [flat_map]. rewrite !app_length. unfold thread_ok in Hth.
    destruct (t_hold th); cbn [opt_list List.length]; [|lia].
    destruct (t_todo th); [contradiction|]. cbn [List.length]. lia.
  Qed.

  (* at most one window per message *)
  Theorem pool_ctr_bound k0 ths sch :
    (ps_ctr (pool_run rnd (pool_init k0 ths) sch) <= k0 + List.length (concat ths))%nat.
  Proof.
    pose proof (pool_inv_run k0 _ sch _ (pool_inv_init k0 ths)) as [Hle Hperm Hids Hthr Hcnt Hlog].
    set (s := pool_run rnd (pool_init k0 ths) sch) in *.
    apply Permutation_length in Hperm. rewrite seq_length, app_length in Hperm.
    pose proof (log_windows_length (ps_log s)). pose proof (held_windows_length _ Hthr). lia.
  Qed.

  (* ---------- the probabilistic assumption, and distinctness ---------- *)

  Section Distinct.
    (* crypto/rand does not deliver, among the first [bound] windows, two that agree on their
       122 free bits (probability 2^-122 per pair): an ASSUMPTION about the random source.
       (It has to be bounded: there are only 2^122 values, so no infinite stream of windows
       is collision-free; see [rnd_demo_free] below for a source that satisfies it.) *)
    Variable bound : nat.
    Hypothesis rnd_free : forall i j, (i < bound)%nat -> (j < bound)%nat -> i <> j ->
      free_bits (rnd i) <> free_bits (rnd j).

    Lemma make_chunk_id_inj i j : (i < bound)%nat -> (j < bound)%nat ->
      make_chunk_id rnd i = make_chunk_id rnd j -> i = j.
    Proof.
      intros Hi Hj H. apply chunk_id_inj in H. destruct (Nat.eq_dec i j) as [E|E]; [exact E|].
      now apply (rnd_free i j Hi Hj) in E.
    Qed.

    Lemma NoDup_map_ids l : (forall x, In x l -> (x < bound)%nat) -> NoDup l ->
      NoDup (map (make_chunk_id rnd) l).
    Proof.
      intros Hb. induction 1 as [|x l Hx Hn IH]; cbn; constructor.
      - intros Hin. apply in_map_iff in Hin as (y & Hy & Hin).
        apply make_chunk_id_inj in Hy; [now subst| |]; apply Hb; [now right|now left].
      - apply IH. intros y Hy. apply Hb. now right.
    Qed.

    (* one goroutine: the ids generated by any sequence of Chunk() calls on any messages
       are pairwise distinct *)
    Theorem ids_distinct_seq ms k : (snd (chunk_seq rnd ms k) <= bound)%nat ->
      NoDup (res_fresh_ids (fst (chunk_seq rnd ms k))).
    Proof.
      intros Hb. destruct (chunk_seq_windows ms k) as (Hle & _ & ->).
      apply NoDup_map_ids; [|apply seq_NoDup]. intros x Hx. apply in_seq in Hx. lia.
    Qed.

    Corollary ids_distinct_seq_count ms k : (k + List.length ms <= bound)%nat ->
      NoDup (res_fresh_ids (fst (chunk_seq rnd ms k))).
    Proof. intros Hb. apply ids_distinct_seq. pose proof (chunk_seq_ctr_bound ms k). lia. Qed.

    (* any number of goroutines, any interleaving: the ids generated are pairwise distinct *)
    Theorem ids_distinct k0 ths sch :
      (ps_ctr (pool_run rnd (pool_init k0 ths) sch) <= bound)%nat ->
      NoDup (log_fresh_ids (ps_log (pool_run rnd (pool_init k0 ths) sch))).
    Proof.
      intros Hb. pose proof (pool_inv_run k0 _ sch _ (pool_inv_init k0 ths)) as Inv.
      rewrite (inv_ids _ _ _ Inv). apply NoDup_map_ids.
      - intros x Hx. pose proof (inv_perm _ _ _ Inv) as Hp.
        assert (Hin : In x (seq k0 (ps_ctr (pool_run rnd (pool_init k0 ths) sch) - k0))).
        { eapply Permutation_in; [exact Hp|]. apply in_or_app. now left. }
        apply in_seq in Hin. lia.
      - eapply NoDup_app_l. apply pool_windows_nodup.
    Qed.

    Corollary ids_distinct_count k0 ths sch : (k0 + List.length (concat ths) <= bound)%nat ->
      NoDup (log_fresh_ids (ps_log (pool_run rnd (pool_init k0 ths) sch))).
    Proof. intros Hb. apply ids_distinct. pose proof (pool_ctr_bound k0 ths sch). lia. Qed.

    Lemma NoDup_app_disj {A} (l1 l2 : list A) x : NoDup (l1 ++ l2) -> In x l1 -> In x l2 -> False.
    Proof.
      induction l1 as [|y l1 IH]; intros H H1 H2; [destruct H1|].
      cbn in H. inversion H as [|? ? Hy Hr]; subst. destruct H1 as [->|H1].
      - apply Hy. apply in_or_app. now right.
      - now apply IH.
    Qed.

    Lemma NoDup_app_r {A} (l1 l2 : list A) : NoDup (l1 ++ l2) -> NoDup l2.
    Proof.
      induction l1 as [|y l1 IH]; intros H; [exact H|].
      cbn in H. inversion H; subst. now apply IH.
    Qed.

    Lemma NoDup_flat_map_nth {A B} (g : A -> list B) l : NoDup (flat_map g l) ->
      forall i j e1 e2 x, i <> j -> nth_error l i = Some e1 -> nth_error l j = Some e2 ->
      In x (g e1) -> In x (g e2) -> False.
    Proof.
      induction l as [|a l IH]; intros H i j e1 e2 x Hij H1 H2 X1 X2.
      - destruct i; discriminate.
      - cbn [flat_map] in H. destruct i as [|i], j as [|j]; cbn in H1, H2.
        + congruence.
        + injection H1 as ->. apply (NoDup_app_disj _ _ x H X1).
          apply in_flat_map. exists e2. split; [eapply nth_error_In; eauto|exact X2].
        + injection H2 as ->. apply (NoDup_app_disj _ _ x H X2).
          apply in_flat_map. exists e1. split; [eapply nth_error_In; eauto|exact X1].
        + apply (IH (NoDup_app_r _ _ H) i j e1 e2 x); auto.
    Qed.

    (* the same, entry by entry: two different Chunk() calls (of any goroutines, on any
       messages) that both generated their id got different windows and returned
       different ids *)
    Theorem ids_pairwise_distinct k0 ths sch i j t1 a1 id1 w1 t2 a2 id2 w2 :
      let s := pool_run rnd (pool_init k0 ths) sch in
      (ps_ctr s <= bound)%nat ->
      i <> j ->
      nth_error (ps_log s) i = Some (t1, (a1, id1, Some w1)) ->
      nth_error (ps_log s) j = Some (t2, (a2, id2, Some w2)) ->
      id1 <> id2 /\ w1 <> w2.
    Proof.
      cbv zeta. intros Hb Hij H1 H2. split.
      - intros ->. pose proof (ids_distinct k0 ths sch Hb) as Hn. unfold log_fresh_ids in Hn.
        eapply (NoDup_flat_map_nth _ _ Hn i j _ _ id2 Hij H1 H2); cbn; auto.
      - intros ->. pose proof (NoDup_app_l _ _ (pool_windows_nodup k0 ths sch)) as Hn.
        unfold log_windows in Hn.
        eapply (NoDup_flat_map_nth _ _ Hn i j _ _ w2 Hij H1 H2); cbn; auto.
    Qed.
  End Distinct.
End ChunkId.

Print Assumptions base64_length.
Print Assumptions unbase64_base64.
Print Assumptions base64_inj_len.
Print Assumptions v4mask_eq_iff.
Print Assumptions chunk_id_inj.
Print Assumptions id_shape.
Print Assumptions chunk_stable.
Print Assumptions chunk_stable_message.
Print Assumptions chunk_stable_message_ext.
Print Assumptions chunk_stable_forward.
Print Assumptions chunk_stable_packed.
Print Assumptions chunk_preserves_supplied_message.
Print Assumptions chunk_preserves_supplied_message_ext.
Print Assumptions chunk_preserves_supplied_forward.
Print Assumptions chunk_preserves_supplied_packed.
Print Assumptions chunk_frame_message.
Print Assumptions chunk_frame_message_ext.
Print Assumptions chunk_frame_forward.
Print Assumptions chunk_frame_packed.
Print Assumptions chunk_on_wire_message.
Print Assumptions chunk_on_wire_message_ext.
Print Assumptions chunk_on_wire_forward.
Print Assumptions chunk_on_wire_packed.
Print Assumptions chunk_on_wire_spec_message.
Print Assumptions chunk_on_wire_spec_message_ext.
Print Assumptions chunk_on_wire_spec_forward.
Print Assumptions chunk_on_wire_spec_packed.
Print Assumptions seq_windows_nodup.
Print Assumptions pool_windows_perm.
Print Assumptions pool_windows_nodup.
Print Assumptions pool_log_sound.
Print Assumptions pool_complete.
Print Assumptions pool_ctr_bound.
Print Assumptions ids_distinct_seq.
Print Assumptions ids_distinct_seq_count.
Print Assumptions ids_distinct.
Print Assumptions ids_distinct_count.
Print Assumptions ids_pairwise_distinct.

(* ====================================================================== *)
(* 7. non-vacuity                                                         *)
(* ====================================================================== *)

(* a concrete random source: window k is 16 copies of the byte k *)
Definition rnd_demo (k : nat) : bytes := repeat (n2b (N.of_nat k)) 16.

Lemma rnd_demo_len k : List.length (rnd_demo k) = 16%nat.
Proof. reflexivity. Qed.

(* it satisfies the collision-freedom assumption for the first 256 windows: the hypotheses
   of the distinctness theorems are satisfiable *)
Lemma rnd_demo_free i j : (i < 256)%nat -> (j < 256)%nat -> i <> j ->
  free_bits (rnd_demo i) <> free_bits (rnd_demo j).
Proof.
  intros Hi Hj Hij H. unfold rnd_demo, free_bits in H. cbn [repeat upd_nth] in H.
  injection H as H _. apply (f_equal b2n) in H. rewrite !b2n_n2b_small in H by lia. lia.
Qed.

Corollary ids_distinct_demo k0 ths sch : (k0 + List.length (concat ths) <= 256)%nat ->
  NoDup (log_fresh_ids (ps_log (pool_run rnd_demo (pool_init k0 ths) sch))).
Proof. apply (ids_distinct_count rnd_demo rnd_demo_len 256 rnd_demo_free). Qed.
Print Assumptions ids_distinct_demo.

(* the id of window 0 and of window 1 *)
Example demo_id0 : make_chunk_id rnd_demo 0 = str "AAAAAAAAQACAAAAAAAAAAA==".
Proof. vm_compute. reflexivity. Qed.
Example demo_id1 : make_chunk_id rnd_demo 1 = str "AQEBAQEBQQGBAQEBAQEBAQ==".
Proof. vm_compute. reflexivity. Qed.
Example demo_ids_differ : make_chunk_id rnd_demo 0 <> make_chunk_id rnd_demo 1.
Proof. vm_compute. discriminate. Qed.
(* a real collision of free bits gives the same id: bytes 6 and 8 differ only in masked bits *)
Example demo_masked_collision :
  base64 (v4mask (repeat x00 16)) =
  base64 (v4mask [x00; x00; x00; x00; x00; x00; xf0; x00; xc0; x00; x00; x00; x00; x00; x00; x00]).
Proof. vm_compute. reflexivity. Qed.

(* RFC 4648 test vectors *)
Example b64_vectors :
  base64 (str "") = str "" /\ base64 (str "f") = str "Zg==" /\ base64 (str "fo") = str "Zm8=" /\
  base64 (str "foo") = str "Zm9v" /\ base64 (str "foob") = str "Zm9vYg==" /\
  base64 (str "fooba") = str "Zm9vYmE=" /\ base64 (str "foobar") = str "Zm9vYmFy" /\
  unbase64 (str "Zm9vYmE=") = Some (str "fooba") /\ unbase64 (str "Zm9vYmE") = None /\
  unbase64 (str "Zm9v=mE=") = None.
Proof. vm_compute. repeat split; reflexivity. Qed.

Definition demo_msg (o : option options) : message :=
  {| m_tag := str "t"; m_ts := 7%Z; m_rec := GMap [(str "k", GStr (str "v"))]; m_opts := o |}.

(* Chunk() on a message with nil options: options allocated, id generated, counter advanced *)
Example demo_chunk_nil :
  chunk_message rnd_demo (demo_msg None) 1 =
    (demo_msg (Some {| o_size := None; o_chunk := str "AQEBAQEBQQGBAQEBAQEBAQ=="; o_comp := [] |}),
     str "AQEBAQEBQQGBAQEBAQEBAQ==", 2%nat).
Proof. vm_compute. reflexivity. Qed.

(* ... with options that hold no chunk: size and compressed are kept *)
Example demo_chunk_empty :
  chunk_message rnd_demo (demo_msg (Some {| o_size := Some 3%Z; o_chunk := []; o_comp := str "gzip" |})) 0 =
    (demo_msg (Some {| o_size := Some 3%Z; o_chunk := str "AAAAAAAAQACAAAAAAAAAAA=="; o_comp := str "gzip" |}),
     str "AAAAAAAAQACAAAAAAAAAAA==", 1%nat).
Proof. vm_compute. reflexivity. Qed.

(* ... with a preset id: returned as is, counter untouched *)
Example demo_chunk_preset :
  chunk_message rnd_demo (demo_msg (Some {| o_size := None; o_chunk := str "mine"; o_comp := [] |})) 5 =
    (demo_msg (Some {| o_size := None; o_chunk := str "mine"; o_comp := [] |}), str "mine", 5%nat).
Proof. vm_compute. reflexivity. Qed.

(* the id is on the wire: the decoder finds it, and so does the specification parser *)
Example demo_on_wire :
  match M_message (fst (fst (chunk_message rnd_demo (demo_msg None) 1))) with
  | Ok e =>
      match U_message Slice zero_message e, spec_parse shape_message e with
      | Ok (d, []), Some (s, []) =>
          option_map o_chunk (m_opts d) = Some (str "AQEBAQEBQQGBAQEBAQEBAQ==") /\
          spec_chunk s = Some (str "AQEBAQEBQQGBAQEBAQEBAQ==")
      | _, _ => False
      end
  | _ => False
  end.
Proof. vm_compute. split; reflexivity. Qed.

(* three goroutines, an interleaved schedule: FETCH order 0,1,2 by threads 0,1,2, FINISH in
   the opposite order; one preset message; all ids distinct, windows 0..3 each once *)
Definition demo_threads : list (list anymsg) :=
  [ [AMsg (demo_msg None); AMsg (demo_msg None)];
    [APck {| p_tag := str "p"; p_stream := []; p_opts := None |}];
    [AFwd {| f_tag := str "f"; f_entries := []; f_opts := Some {| o_size := None; o_chunk := str "mine"; o_comp := [] |} |};
     AExt {| x_tag := str "x"; x_ts := (1%Z, 2); x_rec := GMap []; x_opts := Some empty_options |}] ].
Definition demo_schedule : list nat := [0; 1; 2; 2; 7; 2; 1; 0; 0; 0; 0]%nat.

Example demo_conc :
  let s := pool_run rnd_demo (pool_init 0 demo_threads) demo_schedule in
  pool_done s = true /\ ps_ctr s = 4%nat /\
  map (fun e => (fst e, snd (snd e))) (ps_log s) =
    [(2, None); (2, Some 2); (1, Some 1); (0, Some 0); (0, Some 3)]%nat /\
  log_fresh_ids (ps_log s) =
    [make_chunk_id rnd_demo 2; make_chunk_id rnd_demo 1; make_chunk_id rnd_demo 0; make_chunk_id rnd_demo 3].
Proof. vm_compute. repeat split; reflexivity. Qed.

(* the sequential run of the same messages *)
Example demo_seq :
  map (fun e => (snd (fst e), snd e)) (fst (chunk_seq rnd_demo (concat demo_threads) 0)) =
    [(make_chunk_id rnd_demo 0, Some 0); (make_chunk_id rnd_demo 1, Some 1); (make_chunk_id rnd_demo 2, Some 2);
     (str "mine", None); (make_chunk_id rnd_demo 3, Some 3)]%nat.
Proof. vm_compute. reflexivity. Qed.
