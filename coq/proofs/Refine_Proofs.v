(* Refinement of the independent msgpack specification (model/Spec.v) by the decoder
   model (model/Msgp.v, model/Forward.v, model/Handshake.v): every successful decode
   consumes exactly one complete msgpack value as the specification parser defines it. *)
From FF Require Import model.Bytes model.Msgp model.Spec model.Forward model.Handshake.
From FF Require Import proofs.Bytes_Proofs proofs.Msgp_Total proofs.Total_Proofs.
From FF Require Import proofs.Take_Proofs.
From Coq Require Import Lia ZifyN ZifyNat ZifyBool.
Open Scope N_scope.

(* ---------- the specification parser: unfolding, fuel monotonicity ---------- *)

Lemma obind_some {A B} (x : option A) (g : A -> option B) y :
  obind x g = Some y -> exists a, x = Some a /\ g a = Some y.
Proof. destruct x; [|discriminate]. intros H. eauto. Qed.

Lemma parse_S f b r : parse (S f) (b :: r) =
  let n := b2n b in
  if n <? 128 then Some (VInt (Z.of_N n), r)
  else if n <? 144 then parse_map f (n - 128) r []
  else if n <? 160 then parse_arr f (n - 144) r []
  else if n <? 192 then '(s, u) <~ otake (n - 160) r ;; Some (VStr s, u)
  else if n =? 192 then Some (VNil, r)
  else if n =? 193 then None
  else if n =? 194 then Some (VBool false, r)
  else if n =? 195 then Some (VBool true, r)
  else if n =? 196 then sized VBin 1 r
  else if n =? 197 then sized VBin 2 r
  else if n =? 198 then sized VBin 4 r
  else if n =? 199 then ext_sized 1 r
  else if n =? 200 then ext_sized 2 r
  else if n =? 201 then ext_sized 4 r
  else if n =? 202 then '(x, u) <~ onum 4 r ;; Some (VF32 x, u)
  else if n =? 203 then '(x, u) <~ onum 8 r ;; Some (VF64 x, u)
  else if n =? 204 then '(x, u) <~ onum 1 r ;; Some (VInt (Z.of_N x), u)
  else if n =? 205 then '(x, u) <~ onum 2 r ;; Some (VInt (Z.of_N x), u)
  else if n =? 206 then '(x, u) <~ onum 4 r ;; Some (VInt (Z.of_N x), u)
  else if n =? 207 then '(x, u) <~ onum 8 r ;; Some (VInt (Z.of_N x), u)
  else if n =? 208 then '(x, u) <~ onum 1 r ;; Some (VInt (n2z 1 x), u)
  else if n =? 209 then '(x, u) <~ onum 2 r ;; Some (VInt (n2z 2 x), u)
  else if n =? 210 then '(x, u) <~ onum 4 r ;; Some (VInt (n2z 4 x), u)
  else if n =? 211 then '(x, u) <~ onum 8 r ;; Some (VInt (n2z 8 x), u)
  else if n =? 212 then ext_fixed 1 r
  else if n =? 213 then ext_fixed 2 r
  else if n =? 214 then ext_fixed 4 r
  else if n =? 215 then ext_fixed 8 r
  else if n =? 216 then ext_fixed 16 r
  else if n =? 217 then sized VStr 1 r
  else if n =? 218 then sized VStr 2 r
  else if n =? 219 then sized VStr 4 r
  else if n =? 220 then '(c, u) <~ onum 2 r ;; parse_arr f c u []
  else if n =? 221 then '(c, u) <~ onum 4 r ;; parse_arr f c u []
  else if n =? 222 then '(c, u) <~ onum 2 r ;; parse_map f c u []
  else if n =? 223 then '(c, u) <~ onum 4 r ;; parse_map f c u []
  else Some (VInt (Z.of_N n - 256), r).
Proof. reflexivity. Qed.

Lemma parse_arr_S f cnt bs acc : parse_arr (S f) cnt bs acc =
  if cnt =? 0 then Some (VArr (rev acc), bs)
  else '(v, r) <~ parse f bs ;; parse_arr f (cnt - 1) r (v :: acc).
Proof. rewrite ?rev_alt. reflexivity. Qed.

Lemma parse_map_S f cnt bs acc : parse_map (S f) cnt bs acc =
  if cnt =? 0 then Some (VMap (rev acc), bs)
  else '(k, r) <~ parse f bs ;; '(v, r') <~ parse f r ;; parse_map f (cnt - 1) r' ((k, v) :: acc).
Proof. rewrite ?rev_alt. reflexivity. Qed.

(* both sides are the same chain of conditionals: split on the head condition of both,
   close the branch that leaves the chain, continue in the other *)
Ltac walk2 fin :=
  lazymatch goal with
  | |- (if ?c then ?A else ?B) = ?x -> (if ?c then ?A' else ?B') = ?y =>
      destruct c; [ change (A = x -> A' = y); fin | change (B = x -> B' = y); walk2 fin ]
  | |- _ => fin
  end.

Lemma parse_mono_all f : forall f', (f <= f')%nat ->
  (forall bs x, parse f bs = Some x -> parse f' bs = Some x) /\
  (forall c bs acc x, parse_arr f c bs acc = Some x -> parse_arr f' c bs acc = Some x) /\
  (forall c bs acc x, parse_map f c bs acc = Some x -> parse_map f' c bs acc = Some x).
Proof.
  induction f as [|f IH]; intros f' Hle.
  - repeat split; intros; discriminate.
  - destruct f' as [|g]; [lia|]. destruct (IH g ltac:(lia)) as (Ip & Ia & Im).
    repeat split.
    + intros bs x. destruct bs as [|b bs]; [discriminate|]. rewrite !parse_S. cbv zeta.
      walk2 ltac:(first
        [ exact (fun H => H) | apply Ia | apply Im
        | let H := fresh in
          intros H; apply obind_some in H as ([? ?] & -> & H); cbn [obind];
          first [ now apply Ia | now apply Im ] ]).
    + intros c bs acc x. rewrite !parse_arr_S. destruct (c =? 0); [auto|].
      intros H. apply obind_some in H as ([v1 r1] & E & H).
      rewrite (Ip _ _ E). cbn [obind]. now apply Ia.
    + intros c bs acc x. rewrite !parse_map_S. destruct (c =? 0); [auto|].
      intros H. apply obind_some in H as ([v1 r1] & E1 & H). apply obind_some in H as ([v2 r2] & E2 & H).
      rewrite (Ip _ _ E1). cbn [obind]. rewrite (Ip _ _ E2). cbn [obind]. now apply Im.
Qed.

Theorem parse_fuel_mono : forall f f' bs x, parse f bs = Some x -> (f <= f')%nat -> parse f' bs = Some x.
Proof. intros f f' bs x H Hle. now apply (parse_mono_all f f' Hle). Qed.
Lemma parse_arr_fuel_mono f f' c bs acc x :
  parse_arr f c bs acc = Some x -> (f <= f')%nat -> parse_arr f' c bs acc = Some x.
Proof. intros H Hle. now apply (parse_mono_all f f' Hle). Qed.
Lemma parse_map_fuel_mono f f' c bs acc x :
  parse_map f c bs acc = Some x -> (f <= f')%nat -> parse_map f' c bs acc = Some x.
Proof. intros H Hle. now apply (parse_mono_all f f' Hle). Qed.

(* ---------- the specification parser by lead byte ---------- *)

Ltac by_const E := intros E; match type of E with b2n ?b = _ => rewrite <- (n2b_b2n b), E end; reflexivity.

Lemma parse_192 f b r : b2n b = 192 -> parse (S f) (b :: r) = Some (VNil, r).
Proof. by_const E. Qed.
Lemma parse_194 f b r : b2n b = 194 -> parse (S f) (b :: r) = Some (VBool false, r).
Proof. by_const E. Qed.
Lemma parse_195 f b r : b2n b = 195 -> parse (S f) (b :: r) = Some (VBool true, r).
Proof. by_const E. Qed.
Lemma parse_196 f b r : b2n b = 196 -> parse (S f) (b :: r) = sized VBin 1 r.
Proof. by_const E. Qed.
Lemma parse_197 f b r : b2n b = 197 -> parse (S f) (b :: r) = sized VBin 2 r.
Proof. by_const E. Qed.
Lemma parse_198 f b r : b2n b = 198 -> parse (S f) (b :: r) = sized VBin 4 r.
Proof. by_const E. Qed.
Lemma parse_199 f b r : b2n b = 199 -> parse (S f) (b :: r) = ext_sized 1 r.
Proof. by_const E. Qed.
Lemma parse_200 f b r : b2n b = 200 -> parse (S f) (b :: r) = ext_sized 2 r.
Proof. by_const E. Qed.
Lemma parse_201 f b r : b2n b = 201 -> parse (S f) (b :: r) = ext_sized 4 r.
Proof. by_const E. Qed.
Lemma parse_202 f b r : b2n b = 202 -> parse (S f) (b :: r) = ('(x, u) <~ onum 4 r ;; Some (VF32 x, u)).
Proof. by_const E. Qed.
Lemma parse_203 f b r : b2n b = 203 -> parse (S f) (b :: r) = ('(x, u) <~ onum 8 r ;; Some (VF64 x, u)).
Proof. by_const E. Qed.
Lemma parse_204 f b r : b2n b = 204 -> parse (S f) (b :: r) = ('(x, u) <~ onum 1 r ;; Some (VInt (Z.of_N x), u)).
Proof. by_const E. Qed.
Lemma parse_205 f b r : b2n b = 205 -> parse (S f) (b :: r) = ('(x, u) <~ onum 2 r ;; Some (VInt (Z.of_N x), u)).
Proof. by_const E. Qed.
Lemma parse_206 f b r : b2n b = 206 -> parse (S f) (b :: r) = ('(x, u) <~ onum 4 r ;; Some (VInt (Z.of_N x), u)).
Proof. by_const E. Qed.
Lemma parse_207 f b r : b2n b = 207 -> parse (S f) (b :: r) = ('(x, u) <~ onum 8 r ;; Some (VInt (Z.of_N x), u)).
Proof. by_const E. Qed.
Lemma parse_208 f b r : b2n b = 208 -> parse (S f) (b :: r) = ('(x, u) <~ onum 1 r ;; Some (VInt (n2z 1 x), u)).
Proof. by_const E. Qed.
Lemma parse_209 f b r : b2n b = 209 -> parse (S f) (b :: r) = ('(x, u) <~ onum 2 r ;; Some (VInt (n2z 2 x), u)).
Proof. by_const E. Qed.
Lemma parse_210 f b r : b2n b = 210 -> parse (S f) (b :: r) = ('(x, u) <~ onum 4 r ;; Some (VInt (n2z 4 x), u)).
Proof. by_const E. Qed.
Lemma parse_211 f b r : b2n b = 211 -> parse (S f) (b :: r) = ('(x, u) <~ onum 8 r ;; Some (VInt (n2z 8 x), u)).
Proof. by_const E. Qed.
Lemma parse_212 f b r : b2n b = 212 -> parse (S f) (b :: r) = ext_fixed 1 r.
Proof. by_const E. Qed.
Lemma parse_213 f b r : b2n b = 213 -> parse (S f) (b :: r) = ext_fixed 2 r.
Proof. by_const E. Qed.
Lemma parse_214 f b r : b2n b = 214 -> parse (S f) (b :: r) = ext_fixed 4 r.
Proof. by_const E. Qed.
Lemma parse_215 f b r : b2n b = 215 -> parse (S f) (b :: r) = ext_fixed 8 r.
Proof. by_const E. Qed.
Lemma parse_216 f b r : b2n b = 216 -> parse (S f) (b :: r) = ext_fixed 16 r.
Proof. by_const E. Qed.
Lemma parse_217 f b r : b2n b = 217 -> parse (S f) (b :: r) = sized VStr 1 r.
Proof. by_const E. Qed.
Lemma parse_218 f b r : b2n b = 218 -> parse (S f) (b :: r) = sized VStr 2 r.
Proof. by_const E. Qed.
Lemma parse_219 f b r : b2n b = 219 -> parse (S f) (b :: r) = sized VStr 4 r.
Proof. by_const E. Qed.
Lemma parse_220 f b r : b2n b = 220 -> parse (S f) (b :: r) = ('(c, u) <~ onum 2 r ;; parse_arr f c u []).
Proof. by_const E. Qed.
Lemma parse_221 f b r : b2n b = 221 -> parse (S f) (b :: r) = ('(c, u) <~ onum 4 r ;; parse_arr f c u []).
Proof. by_const E. Qed.
Lemma parse_222 f b r : b2n b = 222 -> parse (S f) (b :: r) = ('(c, u) <~ onum 2 r ;; parse_map f c u []).
Proof. by_const E. Qed.
Lemma parse_223 f b r : b2n b = 223 -> parse (S f) (b :: r) = ('(c, u) <~ onum 4 r ;; parse_map f c u []).
Proof. by_const E. Qed.

(* decide the head conditional of the left-hand side *)
Ltac headif :=
  lazymatch goal with
  | |- (if ?c then ?A else ?B) = ?y => case_cond c; [ change (A = y) | change (B = y) ]
  end.
Ltac chain_lia := repeat (headif; try (exfalso; lia)).

Lemma parse_fixint f b r : b2n b < 128 -> parse (S f) (b :: r) = Some (VInt (Z.of_N (b2n b)), r).
Proof. intros. rewrite parse_S. cbv zeta. chain_lia. reflexivity. Qed.
Lemma parse_fixmap f b r : 128 <= b2n b <= 143 -> parse (S f) (b :: r) = parse_map f (b2n b - 128) r [].
Proof. intros. rewrite parse_S. cbv zeta. chain_lia. reflexivity. Qed.
Lemma parse_fixarr f b r : 144 <= b2n b <= 159 -> parse (S f) (b :: r) = parse_arr f (b2n b - 144) r [].
Proof. intros. rewrite parse_S. cbv zeta. chain_lia. reflexivity. Qed.
Lemma parse_fixstr f b r : 160 <= b2n b <= 191 ->
  parse (S f) (b :: r) = '(s, u) <~ otake (b2n b - 160) r ;; Some (VStr s, u).
Proof. intros. rewrite parse_S. cbv zeta. chain_lia. reflexivity. Qed.
Lemma parse_negint f b r : 224 <= b2n b ->
  parse (S f) (b :: r) = Some (VInt (Z.of_N (b2n b) - 256), r).
Proof. intros. rewrite parse_S. cbv zeta. chain_lia. reflexivity. Qed.

(* ---------- take / rd_be against otake / onum ---------- *)

Lemma take_otake k bs h t : take k bs = Ok (h, t) -> otake k bs = Some (h, t).
Proof. rewrite !take_unfold, !otake_unfold. destruct (k <=? len bs); [|discriminate]. intros H; inv H. reflexivity. Qed.

Lemma rd_be_onum k bs x t : rd_be k bs = Ok (x, t) -> onum (N.of_nat k) bs = Some (x, t).
Proof.
  unfold rd_be, onum. intros H. bind_inv H. apply take_otake in E. rewrite E. inv H. reflexivity.
Qed.
Lemma rd_be_onum1 bs x t : rd_be 1 bs = Ok (x, t) -> onum 1 bs = Some (x, t).
Proof. apply (rd_be_onum 1). Qed.
Lemma rd_be_onum2 bs x t : rd_be 2 bs = Ok (x, t) -> onum 2 bs = Some (x, t).
Proof. apply (rd_be_onum 2). Qed.
Lemma rd_be_onum4 bs x t : rd_be 4 bs = Ok (x, t) -> onum 4 bs = Some (x, t).
Proof. apply (rd_be_onum 4). Qed.
Lemma rd_be_onum8 bs x t : rd_be 8 bs = Ok (x, t) -> onum 8 bs = Some (x, t).
Proof. apply (rd_be_onum 8). Qed.

Lemma onum1_cons b r : onum 1 (b :: r) = Some (b2n b, r).
Proof. apply rd_be_onum1, rd_be_1_cons. Qed.

(* translate the successful reads of the context and replay them on the specification side *)
Ltac to_spec :=
  repeat match goal with
  | H : take _ _ = Ok _ |- _ => apply take_otake in H
  | H : rd_be 1 _ = Ok _ |- _ => apply rd_be_onum1 in H
  | H : rd_be 2 _ = Ok _ |- _ => apply rd_be_onum2 in H
  | H : rd_be 4 _ = Ok _ |- _ => apply rd_be_onum4 in H
  | H : rd_be 8 _ = Ok _ |- _ => apply rd_be_onum8 in H
  end.
Ltac run :=
  repeat (match goal with H : ?x = Some _ |- context[?x] => rewrite H end; cbn [obind]).
Ltac replay := to_spec; unfold sized, ext_sized, ext_fixed; run; try reflexivity.

(* ---------- one complete value; sequences of values ---------- *)

Definition one_value (bs r : bytes) : Prop := exists f v, parse f bs = Some (v, r).

(* [values n bs r]: bs starts with exactly n complete values, followed by r *)
Fixpoint values (n : nat) (bs r : bytes) : Prop :=
  match n with
  | O => bs = r
  | S k => exists m, one_value bs m /\ values k m r
  end.

Lemma one_value_intro bs r v : (forall f, parse (S f) bs = Some (v, r)) -> one_value bs r.
Proof. intros H. exists 1%nat, v. apply H. Qed.

Lemma values_app n m a b c : values n a b -> values m b c -> values (n + m) a c.
Proof.
  revert a; induction n as [|n IH]; intros a; cbn [values Nat.add].
  - now intros ->.
  - intros (x & H1 & H2) H3. exists x. eauto.
Qed.

Lemma values_1 a b : one_value a b -> values 1 a b.
Proof. intros H. exists b. split; [exact H|reflexivity]. Qed.

Lemma values_cons n a b c : one_value a b -> values n b c -> values (S n) a c.
Proof. intros H1 H2. exists b. eauto. Qed.

Lemma parse_arr_values k : forall bs r, values k bs r ->
  exists F, forall acc, exists v, parse_arr F (N.of_nat k) bs acc = Some (v, r).
Proof.
  induction k as [|k IH]; intros bs r; cbn [values].
  - intros ->. exists 1%nat. intros acc. eexists. reflexivity.
  - intros (m & (f1 & v1 & H1) & H2). destruct (IH _ _ H2) as (F & HF).
    exists (S (Nat.max f1 F)). intros acc. rewrite parse_arr_S.
    destruct (N.eqb_spec (N.of_nat (S k)) 0) as [|_]; [lia|].
    rewrite (parse_fuel_mono f1 (Nat.max f1 F) _ _ H1) by lia. cbn [obind].
    replace (N.of_nat (S k) - 1) with (N.of_nat k) by lia.
    destruct (HF (v1 :: acc)) as (v & Hv). exists v.
    apply (parse_arr_fuel_mono F); [exact Hv|lia].
Qed.

Lemma parse_map_values k : forall bs r, values (2 * k) bs r ->
  exists F, forall acc, exists v, parse_map F (N.of_nat k) bs acc = Some (v, r).
Proof.
  induction k as [|k IH]; intros bs r.
  - cbn [values Nat.mul]. intros ->. exists 1%nat. intros acc. eexists. reflexivity.
  - replace (2 * S k)%nat with (S (S (2 * k))) by lia. cbn [values].
    intros (m1 & (f1 & v1 & H1) & m2 & (f2 & v2 & H2) & H3). destruct (IH _ _ H3) as (F & HF).
    exists (S (Nat.max (Nat.max f1 f2) F)). intros acc. rewrite parse_map_S.
    destruct (N.eqb_spec (N.of_nat (S k)) 0) as [|_]; [lia|].
    rewrite (parse_fuel_mono f1 (Nat.max (Nat.max f1 f2) F) _ _ H1) by lia. cbn [obind].
    rewrite (parse_fuel_mono f2 (Nat.max (Nat.max f1 f2) F) _ _ H2) by lia. cbn [obind].
    replace (N.of_nat (S k) - 1) with (N.of_nat k) by lia.
    destruct (HF ((v1, v2) :: acc)) as (v & Hv). exists v.
    apply (parse_map_fuel_mono F); [exact Hv|lia].
Qed.

Ltac no_err := try (let H := fresh in intros H; discriminate H).

(* ---------- headers ---------- *)

Lemma rd_arr_hdr_spec bs n r0 : rd_arr_hdr bs = Ok (n, r0) ->
  forall f, parse (S f) bs = parse_arr f n r0 [].
Proof.
  destruct bs as [|b t]; [discriminate|].
  by_inv (rd_arr_hdr (b :: t)) rd_arr_hdr_inv; no_err; intros Hn H f.
  - inv H. now apply parse_fixarr.
  - rewrite (parse_220 _ _ _ Hn). replay.
  - rewrite (parse_221 _ _ _ Hn). replay.
Qed.

Lemma rd_map_hdr_spec bs n r0 : rd_map_hdr bs = Ok (n, r0) ->
  forall f, parse (S f) bs = parse_map f n r0 [].
Proof.
  destruct bs as [|b t]; [discriminate|].
  by_inv (rd_map_hdr (b :: t)) rd_map_hdr_inv; no_err; intros Hn H f.
  - inv H. now apply parse_fixmap.
  - rewrite (parse_222 _ _ _ Hn). replay.
  - rewrite (parse_223 _ _ _ Hn). replay.
Qed.

(* an array header followed by exactly n values is one value *)
Theorem one_value_arr bs n r0 r :
  rd_arr_hdr bs = Ok (n, r0) -> values (N.to_nat n) r0 r -> one_value bs r.
Proof.
  intros H V. destruct (parse_arr_values _ _ _ V) as (F & HF). destruct (HF []) as (v & Hv).
  exists (S F), v. rewrite (rd_arr_hdr_spec _ _ _ H). now rewrite Nnat.N2Nat.id in Hv.
Qed.

(* a map header followed by exactly n key/value pairs is one value *)
Theorem one_value_map bs n r0 r :
  rd_map_hdr bs = Ok (n, r0) -> values (2 * N.to_nat n) r0 r -> one_value bs r.
Proof.
  intros H V. destruct (parse_map_values _ _ _ V) as (F & HF). destruct (HF []) as (v & Hv).
  exists (S F), v. rewrite (rd_map_hdr_spec _ _ _ H). now rewrite Nnat.N2Nat.id in Hv.
Qed.

(* ---------- primitives ---------- *)

Lemma rd_str_spec bs s r : rd_str bs = Ok (s, r) -> forall f, parse (S f) bs = Some (VStr s, r).
Proof.
  destruct bs as [|b t]; [discriminate|].
  by_inv (rd_str (b :: t)) rd_str_inv; no_err; intros Hn H f; ok_inv H.
  - rewrite parse_fixstr by lia. replay.
  - rewrite (parse_217 _ _ _ Hn). replay.
  - rewrite (parse_218 _ _ _ Hn). replay.
  - rewrite (parse_219 _ _ _ Hn). replay.
Qed.

Lemma rd_bin_spec bs s r : rd_bin bs = Ok (s, r) -> forall f, parse (S f) bs = Some (VBin s, r).
Proof.
  destruct bs as [|b t]; [discriminate|].
  by_inv (rd_bin (b :: t)) rd_bin_inv; no_err; intros Hn H f; ok_inv H.
  - rewrite (parse_196 _ _ _ Hn). replay.
  - rewrite (parse_197 _ _ _ Hn). replay.
  - rewrite (parse_198 _ _ _ Hn). replay.
Qed.

Lemma rd_nil_spec bs r : rd_nil bs = Ok r -> forall f, parse (S f) bs = Some (VNil, r).
Proof.
  destruct bs as [|b t]; [discriminate|].
  by_inv (rd_nil (b :: t)) rd_nil_inv; no_err; intros Hn H f; ok_inv H.
  now rewrite (parse_192 _ _ _ Hn).
Qed.

Lemma rd_bool_spec bs x r : rd_bool bs = Ok (x, r) -> forall f, parse (S f) bs = Some (VBool x, r).
Proof.
  destruct bs as [|b t]; [discriminate|].
  by_inv (rd_bool (b :: t)) rd_bool_inv; no_err; intros Hn H f; ok_inv H.
  - now rewrite (parse_195 _ _ _ Hn).
  - now rewrite (parse_194 _ _ _ Hn).
Qed.

Lemma rd_int64_spec bs z r : rd_int64 bs = Ok (z, r) -> forall f, parse (S f) bs = Some (VInt z, r).
Proof.
  destruct bs as [|b t]; [discriminate|].
  by_inv (rd_int64 (b :: t)) rd_int64_inv; no_err; intros Hn H f; ok_inv H.
  - now apply parse_fixint.
  - now apply parse_negint.
  - rewrite (parse_208 _ _ _ Hn). replay.
  - rewrite (parse_204 _ _ _ Hn). replay.
  - rewrite (parse_209 _ _ _ Hn). replay.
  - rewrite (parse_205 _ _ _ Hn). replay.
  - rewrite (parse_210 _ _ _ Hn). replay.
  - rewrite (parse_206 _ _ _ Hn). replay.
  - rewrite (parse_211 _ _ _ Hn). replay.
  - rewrite (parse_207 _ _ _ Hn). replay.
Qed.

Lemma rd_uint64_spec bs x r : rd_uint64 bs = Ok (x, r) ->
  exists z, forall f, parse (S f) bs = Some (VInt z, r).
Proof.
  destruct bs as [|b t]; [discriminate|].
  by_inv (rd_uint64 (b :: t)) rd_uint64_inv; no_err; intros Hn H;
    try (unfold rd_signed in H); ok_inv H; eexists; intros f.
  - now apply parse_fixint.
  - rewrite (parse_208 _ _ _ Hn). replay.
  - rewrite (parse_204 _ _ _ Hn). replay.
  - rewrite (parse_209 _ _ _ Hn). replay.
  - rewrite (parse_205 _ _ _ Hn). replay.
  - rewrite (parse_210 _ _ _ Hn). replay.
  - rewrite (parse_206 _ _ _ Hn). replay.
  - rewrite (parse_211 _ _ _ Hn). replay.
  - rewrite (parse_207 _ _ _ Hn). replay.
Qed.

Lemma ext_fixed_rd_spec sz r t d u : ext_fixed_rd sz r = Ok (t, d, u) -> ext_fixed sz r = Some (VExt t d, u).
Proof.
  unfold ext_fixed_rd. destruct r as [|x r']; [discriminate|]. intros H. ok_inv H.
  unfold ext_fixed. rewrite onum1_cons. cbn [obind]. replay.
Qed.

Lemma ext_var_rd_spec k r t d u : ext_var_rd k r = Ok (t, d, u) ->
  ext_sized (N.of_nat k) r = Some (VExt t d, u).
Proof.
  unfold ext_var_rd. intros H. bind_inv H.
  match type of H with match ?l with _ => _ end = _ => destruct l as [|x r2]; [discriminate|] end.
  ok_inv H. unfold ext_sized. apply rd_be_onum in E. rewrite E. cbn [obind].
  rewrite onum1_cons. cbn [obind]. replay.
Qed.

Lemma ext_parts_spec bs t d r : ext_parts bs = Ok (t, d, r) ->
  forall f, parse (S f) bs = Some (VExt t d, r).
Proof.
  destruct bs as [|b u]; [discriminate|].
  by_inv (ext_parts (b :: u)) ext_parts_inv; no_err; intros Hn H f.
  - rewrite (parse_212 _ _ _ Hn). now apply ext_fixed_rd_spec.
  - rewrite (parse_213 _ _ _ Hn). now apply ext_fixed_rd_spec.
  - rewrite (parse_214 _ _ _ Hn). now apply ext_fixed_rd_spec.
  - rewrite (parse_215 _ _ _ Hn). now apply ext_fixed_rd_spec.
  - rewrite (parse_216 _ _ _ Hn). now apply ext_fixed_rd_spec.
  - rewrite (parse_199 _ _ _ Hn). now apply (ext_var_rd_spec 1).
  - rewrite (parse_200 _ _ _ Hn). now apply (ext_var_rd_spec 2).
  - rewrite (parse_201 _ _ _ Hn). now apply (ext_var_rd_spec 4).
Qed.

Lemma rd_eventtime_spec bs s n r : rd_eventtime bs = Ok (s, n, r) ->
  exists d, dec_eventtime d = Ok (s, n) /\ forall f, parse (S f) bs = Some (VExt 0 d, r).
Proof.
  intros H. apply rd_eventtime_ok in H as (d & H & D). exists d. split; [exact D|].
  now apply ext_parts_spec.
Qed.

Lemma rd_intf_ext_spec p bs g r : rd_intf_ext p bs = Ok (g, r) ->
  exists t d, forall f, parse (S f) bs = Some (VExt t d, r).
Proof.
  intros H. apply rd_intf_ext_ok in H as (t & d & H). exists t, d. now apply ext_parts_spec.
Qed.

(* ---------- one_value for the primitives ---------- *)

Lemma rd_str_refines bs s r : rd_str bs = Ok (s, r) -> one_value bs r.
Proof. intros H. eapply one_value_intro, rd_str_spec, H. Qed.
Lemma rd_bin_refines bs s r : rd_bin bs = Ok (s, r) -> one_value bs r.
Proof. intros H. eapply one_value_intro, rd_bin_spec, H. Qed.
Lemma rd_nil_refines bs r : rd_nil bs = Ok r -> one_value bs r.
Proof. intros H. eapply one_value_intro, rd_nil_spec, H. Qed.
Lemma rd_bool_refines bs x r : rd_bool bs = Ok (x, r) -> one_value bs r.
Proof. intros H. eapply one_value_intro, rd_bool_spec, H. Qed.
Lemma rd_int64_refines bs z r : rd_int64 bs = Ok (z, r) -> one_value bs r.
Proof. intros H. eapply one_value_intro, rd_int64_spec, H. Qed.
Lemma rd_uint64_refines bs x r : rd_uint64 bs = Ok (x, r) -> one_value bs r.
Proof. intros H. apply rd_uint64_spec in H as (z & H). eapply one_value_intro, H. Qed.
Lemma ext_parts_refines bs t d r : ext_parts bs = Ok (t, d, r) -> one_value bs r.
Proof. intros H. eapply one_value_intro, ext_parts_spec, H. Qed.
Lemma rd_eventtime_refines bs s n r : rd_eventtime bs = Ok (s, n, r) -> one_value bs r.
Proof. intros H. apply rd_eventtime_spec in H as (d & _ & H). eapply one_value_intro, H. Qed.
Lemma rd_intf_ext_refines p bs g r : rd_intf_ext p bs = Ok (g, r) -> one_value bs r.
Proof. intros H. apply rd_intf_ext_spec in H as (t & d & H). eapply one_value_intro, H. Qed.

Lemma rd_map_key_refines bs k r : rd_map_key bs = Ok (k, r) -> one_value bs r.
Proof.
  unfold rd_map_key. destruct bs as [|b t]; [discriminate|].
  destruct (is_bin_lead (b2n b)); eauto using rd_bin_refines, rd_str_refines.
Qed.
Lemma rd_map_key_ptr_refines bs k r : rd_map_key_ptr bs = Ok (k, r) -> one_value bs r.
Proof.
  unfold rd_map_key_ptr. intros H. bind_inv H. destruct b; inv H. eauto using rd_map_key_refines.
Qed.
Lemma rd_field_key_refines p bs k r : rd_field_key p bs = Ok (k, r) -> one_value bs r.
Proof. destruct p; cbn [rd_field_key]; eauto using rd_map_key_refines, rd_map_key_ptr_refines. Qed.
Lemma rd_rec_key_refines p bs k r : rd_rec_key p bs = Ok (k, r) -> one_value bs r.
Proof. destruct p; cbn [rd_rec_key]; eauto using rd_map_key_refines, rd_str_refines. Qed.

(* ---------- rd_intf ---------- *)

Lemma to_nat_pred c : c <> 0 -> N.to_nat c = S (N.to_nat (c - 1)).
Proof. lia. Qed.

Lemma rd_all_refines p : forall f,
  (forall bs g r, rd_intf p f bs = Ok (g, r) -> one_value bs r) /\
  (forall cnt bs acc g r, rd_arr p f cnt bs acc = Ok (g, r) -> values (N.to_nat cnt) bs r) /\
  (forall cnt bs acc g r, rd_map p f cnt bs acc = Ok (g, r) -> values (2 * N.to_nat cnt) bs r).
Proof.
  induction f as [|f (IHi & IHa & IHm)].
  - repeat split; intros; discriminate.
  - repeat split.
    + intros bs g r. destruct bs as [|b t]; [discriminate|].
      by_inv (rd_intf p (S f) (b :: t)) rd_intf_inv; intros Hn H; ok_inv H.
      * eapply one_value_intro. intros f'. now apply parse_fixint.
      * eapply one_value_map; [eassumption|]. eapply IHm; eassumption.
      * eapply one_value_arr; [eassumption|]. eapply IHa; eassumption.
      * eapply rd_str_refines; eassumption.
      * eapply one_value_intro. intros f'. now rewrite (parse_192 _ _ _ Hn).
      * eapply one_value_intro. intros f'. now rewrite (parse_194 _ _ _ Hn).
      * eapply one_value_intro. intros f'. now rewrite (parse_195 _ _ _ Hn).
      * eapply rd_bin_refines; eassumption.
      * eapply rd_intf_ext_refines; eassumption.
      * eapply one_value_intro. intros f'. rewrite (parse_202 _ _ _ Hn). replay.
      * eapply one_value_intro. intros f'. rewrite (parse_203 _ _ _ Hn). replay.
      * eapply rd_uint64_refines; eassumption.
      * eapply rd_int64_refines; eassumption.
      * eapply one_value_intro. intros f'. now apply parse_negint.
    + intros cnt bs acc g r. rewrite rd_arr_S. destruct (N.eqb_spec cnt 0) as [->|Hc]; intros H; ok_inv H.
      * reflexivity.
      * rewrite (to_nat_pred _ Hc). eapply values_cons; [eapply IHi|eapply IHa]; eassumption.
    + intros cnt bs acc g r. rewrite rd_map_S. destruct (N.eqb_spec cnt 0) as [->|Hc]; intros H; ok_inv H.
      * reflexivity.
      * rewrite (to_nat_pred _ Hc). replace (2 * S (N.to_nat (cnt - 1)))%nat with (S (S (2 * N.to_nat (cnt - 1)))) by lia.
        eapply values_cons; [eapply rd_rec_key_refines; eassumption|].
        eapply values_cons; [eapply IHi|eapply IHm]; eassumption.
Qed.

Theorem rd_intf_refines : forall p f bs g r, rd_intf p f bs = Ok (g, r) -> one_value bs r.
Proof. intros p f. apply (rd_all_refines p f). Qed.
Lemma rd_arr_values p f cnt bs acc g r : rd_arr p f cnt bs acc = Ok (g, r) -> values (N.to_nat cnt) bs r.
Proof. apply (rd_all_refines p f). Qed.
Lemma rd_map_values p f cnt bs acc g r : rd_map p f cnt bs acc = Ok (g, r) -> values (2 * N.to_nat cnt) bs r.
Proof. apply (rd_all_refines p f). Qed.

Print Assumptions rd_intf_refines.

(* ---------- skip ---------- *)

Lemma one_value_arr_gen bs c r0 r :
  (forall f, parse (S f) bs = parse_arr f c r0 []) -> values (N.to_nat c) r0 r -> one_value bs r.
Proof.
  intros H V. destruct (parse_arr_values _ _ _ V) as (F & HF). destruct (HF []) as (v & Hv).
  exists (S F), v. rewrite H. now rewrite Nnat.N2Nat.id in Hv.
Qed.

Lemma one_value_map_gen bs c r0 r :
  (forall f, parse (S f) bs = parse_map f c r0 []) -> values (2 * N.to_nat c) r0 r -> one_value bs r.
Proof.
  intros H V. destruct (parse_map_values _ _ _ V) as (F & HF). destruct (HF []) as (v & Hv).
  exists (S F), v. rewrite H. now rewrite Nnat.N2Nat.id in Hv.
Qed.

Lemma otake_0 t h r : otake 0 t = Some (h, r) -> r = t.
Proof. rewrite !otake_unfold. destruct (N.leb_spec 0 (len t)); [|lia]. intros E; inv E. reflexivity. Qed.

Lemma otake_succ l bs h u : otake (l + 1) bs = Some (h, u) ->
  exists x bs' d, bs = x :: bs' /\ otake l bs' = Some (d, u).
Proof.
  rewrite !otake_unfold. destruct (N.leb_spec (l + 1) (len bs)) as [L|]; [|discriminate].
  destruct bs as [|x bs']; [rewrite len_nil in L; lia|]. rewrite len_cons in L.
  replace (N.to_nat (l + 1)) with (S (N.to_nat l)) by lia. cbn [firstn skipn].
  intros H; inv H. exists x, bs', (firstn (N.to_nat l) bs'). split; [reflexivity|].
  rewrite otake_unfold. destruct (N.leb_spec l (len bs')); [reflexivity|lia].
Qed.

Lemma spec_size_low n : n < 192 -> spec_size n = 1.
Proof. intros. unfold spec_size. destruct (N.ltb_spec n 192); [reflexivity|lia]. Qed.

Lemma spec_size_high n : 224 <= n -> spec_size n = 1.
Proof. intros. unfold spec_size. chain_lia. reflexivity. Qed.

(* the lead bytes skip handles through the size table alone *)
Lemma skip_default_spec b t h r :
  (b2n b < 128 \/ b2n b = 192 \/ b2n b = 194 \/ b2n b = 195 \/ 202 <= b2n b <= 216 \/ 224 <= b2n b) ->
  take (spec_size (b2n b) - 1) t = Ok (h, r) ->
  exists v, forall f, parse (S f) (b :: t) = Some (v, r).
Proof.
  intros Hn H.
  assert (Hc : b2n b < 128 \/ 224 <= b2n b \/ b2n b = 192 \/ b2n b = 194 \/ b2n b = 195 \/
               b2n b = 202 \/ b2n b = 203 \/ b2n b = 204 \/ b2n b = 205 \/ b2n b = 206 \/
               b2n b = 207 \/ b2n b = 208 \/ b2n b = 209 \/ b2n b = 210 \/ b2n b = 211 \/
               b2n b = 212 \/ b2n b = 213 \/ b2n b = 214 \/ b2n b = 215 \/ b2n b = 216) by lia.
  clear Hn.
  repeat match goal with Hc : _ \/ _ |- _ => destruct Hc as [Hc|Hc] end;
    try (rewrite Hc in H;
         match type of H with take ?e _ = _ =>
           let k := eval vm_compute in e in change e with k in H end);
    apply take_otake in H.
  - rewrite spec_size_low in H by lia. change (1 - 1) with 0 in H. apply otake_0 in H as ->.
    eexists. intros f. now apply parse_fixint.
  - rewrite spec_size_high in H by lia. change (1 - 1) with 0 in H. apply otake_0 in H as ->.
    eexists. intros f. now apply parse_negint.
  - apply otake_0 in H as ->. eexists. intros f. now rewrite (parse_192 _ _ _ Hc).
  - apply otake_0 in H as ->. eexists. intros f. now rewrite (parse_194 _ _ _ Hc).
  - apply otake_0 in H as ->. eexists. intros f. now rewrite (parse_195 _ _ _ Hc).
  - eexists. intros f. rewrite (parse_202 _ _ _ Hc). unfold onum. run. reflexivity.
  - eexists. intros f. rewrite (parse_203 _ _ _ Hc). unfold onum. run. reflexivity.
  - eexists. intros f. rewrite (parse_204 _ _ _ Hc). unfold onum. run. reflexivity.
  - eexists. intros f. rewrite (parse_205 _ _ _ Hc). unfold onum. run. reflexivity.
  - eexists. intros f. rewrite (parse_206 _ _ _ Hc). unfold onum. run. reflexivity.
  - eexists. intros f. rewrite (parse_207 _ _ _ Hc). unfold onum. run. reflexivity.
  - eexists. intros f. rewrite (parse_208 _ _ _ Hc). unfold onum. run. reflexivity.
  - eexists. intros f. rewrite (parse_209 _ _ _ Hc). unfold onum. run. reflexivity.
  - eexists. intros f. rewrite (parse_210 _ _ _ Hc). unfold onum. run. reflexivity.
  - eexists. intros f. rewrite (parse_211 _ _ _ Hc). unfold onum. run. reflexivity.
  - change 2 with (1 + 1) in H. apply otake_succ in H as (x & t' & d & -> & H).
    eexists. intros f. rewrite (parse_212 _ _ _ Hc). unfold ext_fixed. rewrite onum1_cons. cbn [obind]. run. reflexivity.
  - change 3 with (2 + 1) in H. apply otake_succ in H as (x & t' & d & -> & H).
    eexists. intros f. rewrite (parse_213 _ _ _ Hc). unfold ext_fixed. rewrite onum1_cons. cbn [obind]. run. reflexivity.
  - change 5 with (4 + 1) in H. apply otake_succ in H as (x & t' & d & -> & H).
    eexists. intros f. rewrite (parse_214 _ _ _ Hc). unfold ext_fixed. rewrite onum1_cons. cbn [obind]. run. reflexivity.
  - change 9 with (8 + 1) in H. apply otake_succ in H as (x & t' & d & -> & H).
    eexists. intros f. rewrite (parse_215 _ _ _ Hc). unfold ext_fixed. rewrite onum1_cons. cbn [obind]. run. reflexivity.
  - change 17 with (16 + 1) in H. apply otake_succ in H as (x & t' & d & -> & H).
    eexists. intros f. rewrite (parse_216 _ _ _ Hc). unfold ext_fixed. rewrite onum1_cons. cbn [obind]. run. reflexivity.
Qed.

(* an ext8/16/32 object read as "length, then length + 1 bytes" *)
Lemma ext_sized_skip k t l t1 h u :
  onum k t = Some (l, t1) -> otake (l + 1) t1 = Some (h, u) ->
  exists v, ext_sized k t = Some (v, u).
Proof.
  intros E H. apply otake_succ in H as (x & t' & d & -> & H).
  unfold ext_sized. rewrite E. cbn [obind]. rewrite onum1_cons. cbn [obind]. rewrite H. cbn [obind].
  eexists. reflexivity.
Qed.

Lemma skip_all_refines p : forall f,
  (forall bs r, skip p f bs = Ok r -> one_value bs r) /\
  (forall cnt bs r, skip_n p f cnt bs = Ok r -> values (N.to_nat cnt) bs r).
Proof.
  induction f as [|f (IHs & IHn)].
  - split; intros; discriminate.
  - split.
    + intros bs r. destruct bs as [|b t]; [discriminate|].
      by_inv (skip p (S f) (b :: t)) skip_inv; intros Hn H.
      * discriminate H.
      * apply IHn in H. replace (N.to_nat (2 * (b2n b - 128))) with (2 * N.to_nat (b2n b - 128))%nat in H by lia.
        eapply one_value_map_gen; [|exact H]. intros f'. now apply parse_fixmap.
      * apply IHn in H. eapply one_value_arr_gen; [|exact H]. intros f'. now apply parse_fixarr.
      * ok_inv H. eapply one_value_intro. intros f'. rewrite parse_fixstr by lia. replay.
      * ok_inv H. destruct Hn as [Hn|Hn]; eapply one_value_intro; intros f';
          [rewrite (parse_196 _ _ _ Hn)|rewrite (parse_217 _ _ _ Hn)]; replay.
      * ok_inv H. destruct Hn as [Hn|Hn]; eapply one_value_intro; intros f';
          [rewrite (parse_197 _ _ _ Hn)|rewrite (parse_218 _ _ _ Hn)]; replay.
      * ok_inv H. destruct Hn as [Hn|Hn]; eapply one_value_intro; intros f';
          [rewrite (parse_198 _ _ _ Hn)|rewrite (parse_219 _ _ _ Hn)]; replay.
      * ok_inv H. to_spec. destruct (ext_sized_skip _ _ _ _ _ _ E E0) as (v & Hv).
        eapply one_value_intro. intros f'. rewrite (parse_199 _ _ _ Hn). exact Hv.
      * ok_inv H. to_spec. destruct (ext_sized_skip _ _ _ _ _ _ E E0) as (v & Hv).
        eapply one_value_intro. intros f'. rewrite (parse_200 _ _ _ Hn). exact Hv.
      * destruct p; [|discriminate H].
        ok_inv H. to_spec. destruct (ext_sized_skip _ _ _ _ _ _ E E0) as (v & Hv).
        eapply one_value_intro. intros f'. rewrite (parse_201 _ _ _ Hn). exact Hv.
      * ok_inv H. apply IHn in H. eapply one_value_arr_gen; [|exact H].
        intros f'. rewrite (parse_220 _ _ _ Hn). replay.
      * ok_inv H. apply IHn in H. eapply one_value_arr_gen; [|exact H].
        intros f'. rewrite (parse_221 _ _ _ Hn). replay.
      * ok_inv H. apply IHn in H.
        match type of H with values (N.to_nat (2 * ?c)) _ _ =>
          replace (N.to_nat (2 * c)) with (2 * N.to_nat c)%nat in H by lia end.
        eapply one_value_map_gen; [|exact H].
        intros f'. rewrite (parse_222 _ _ _ Hn). replay.
      * ok_inv H. apply IHn in H.
        match type of H with values (N.to_nat (2 * ?c)) _ _ =>
          replace (N.to_nat (2 * c)) with (2 * N.to_nat c)%nat in H by lia end.
        eapply one_value_map_gen; [|exact H].
        intros f'. rewrite (parse_223 _ _ _ Hn). replay.
      * ok_inv H. destruct (skip_default_spec _ _ _ _ Hn E) as (v & Hv).
        eapply one_value_intro. exact Hv.
    + intros cnt bs r. rewrite skip_n_S. destruct (N.eqb_spec cnt 0) as [->|Hc]; intros H; ok_inv H.
      * reflexivity.
      * rewrite (to_nat_pred _ Hc). eapply values_cons; [eapply IHs|eapply IHn]; eassumption.
Qed.

Theorem skip_refines : forall p f bs r, skip p f bs = Ok r -> one_value bs r.
Proof. intros p f. apply (skip_all_refines p f). Qed.
Lemma skip_n_values p f cnt bs r : skip_n p f cnt bs = Ok r -> values (N.to_nat cnt) bs r.
Proof. apply (skip_all_refines p f). Qed.

Print Assumptions skip_refines.

(* ---------- message decoders ---------- *)

(* decompose a straight-line decoder [H : ... = Ok _] into its successful reads *)
Ltac dec H :=
  repeat first
    [ progress bind_inv H
    | discriminate H
    | match type of H with (if ?c then _ else _) = Ok _ => destruct c eqn:? end ];
  try match type of H with Ok _ = Ok _ => inv H end.

Lemma msg_arr bs sz r0 r k :
  rd_arr_hdr bs = Ok (sz, r0) -> N.to_nat sz = k -> values k r0 r -> one_value bs r.
Proof. intros H <- V. eapply one_value_arr; eassumption. Qed.

Lemma msg_map bs sz r0 r :
  rd_map_hdr bs = Ok (sz, r0) -> values (2 * N.to_nat sz) r0 r -> one_value bs r.
Proof. intros H V. eapply one_value_map; eassumption. Qed.

Lemma arity_cases lo sz : negb (arity_ok lo sz) = false -> sz = lo \/ sz = lo + 1.
Proof.
  unfold arity_ok. destruct (N.eqb_spec sz lo), (N.eqb_spec sz (lo + 1)); cbn; auto; discriminate.
Qed.

Lemma negb_eqb_false a b : negb (a =? b) = false -> a = b.
Proof. destruct (N.eqb_spec a b); [auto|discriminate]. Qed.

(* successful reads of the context as one_value facts *)
Ltac ovs :=
  repeat match goal with
  | H : rd_str _ = Ok _ |- _ => apply rd_str_refines in H
  | H : rd_bin _ = Ok _ |- _ => apply rd_bin_refines in H
  | H : rd_nil _ = Ok _ |- _ => apply rd_nil_refines in H
  | H : rd_bool _ = Ok _ |- _ => apply rd_bool_refines in H
  | H : rd_int64 _ = Ok _ |- _ => apply rd_int64_refines in H
  | H : rd_uint64 _ = Ok _ |- _ => apply rd_uint64_refines in H
  | H : rd_eventtime _ = Ok _ |- _ => apply rd_eventtime_refines in H
  | H : rd_intf _ _ _ = Ok _ |- _ => apply rd_intf_refines in H
  | H : skip _ _ _ = Ok _ |- _ => apply skip_refines in H
  | H : rd_field_key _ _ = Ok _ |- _ => apply rd_field_key_refines in H
  | H : rd_map_key _ = Ok _ |- _ => apply rd_map_key_refines in H
  end.

(* a chain of one_value facts of the context *)
Ltac vchain := repeat (eapply values_cons; [eassumption|]); first [reflexivity | eassumption].

Lemma two_to_nat_pred c : c <> 0 -> (2 * N.to_nat c)%nat = S (S (2 * N.to_nat (c - 1))).
Proof. lia. Qed.

Lemma U_options_loop_values p : forall f cnt bs o o' r,
  U_options_loop p f cnt bs o = Ok (o', r) -> values (2 * N.to_nat cnt) bs r.
Proof.
  induction f as [|f IH]; intros cnt bs o o' r; [discriminate|].
  rewrite U_options_loop_S. destruct (N.eqb_spec cnt 0) as [->|Hc]; intros H.
  - inv H. reflexivity.
  - rewrite (two_to_nat_pred _ Hc).
    dec H; match goal with H : U_options_loop _ _ _ _ _ = Ok _ |- _ => apply IH in H end; ovs; vchain.
Qed.

Theorem U_options_refines : forall p bs o r, U_options p bs = Ok (o, r) -> one_value bs r.
Proof.
  intros p bs o r H. unfold U_options in H. dec H.
  eapply msg_map; [eassumption|]. eapply U_options_loop_values; eassumption.
Qed.

Lemma U_tail_cases p full bs o r : U_tail p full bs = Ok (o, r) ->
  (full = true /\ one_value bs r) \/ (full = false /\ r = bs).
Proof.
  unfold U_tail. intros H. destruct full; [left|right]; (split; [reflexivity|]).
  - dec H; ovs; eauto using U_options_refines.
  - now inv H.
Qed.

Ltac tail_cases :=
  match goal with H : U_tail _ _ _ = Ok _ |- _ =>
    apply U_tail_cases in H as [[Hf H]|[Hf H]]; vm_compute in Hf; try discriminate Hf; clear Hf
  end.

Theorem U_message_refines : forall p prev bs m r, U_message p prev bs = Ok (m, r) -> one_value bs r.
Proof.
  intros p prev bs m r H. unfold U_message in H. cbv zeta in H. dec H.
  match goal with A : negb (arity_ok _ _) = false |- _ => apply arity_cases in A as [->| ->] end;
    tail_cases; subst; ovs; (eapply msg_arr; [eassumption|reflexivity|vchain]).
Qed.

Theorem U_message_ext_refines : forall p prev bs m r, U_message_ext p prev bs = Ok (m, r) -> one_value bs r.
Proof.
  intros p prev bs m r H. unfold U_message_ext in H. cbv zeta in H. dec H.
  match goal with A : negb (arity_ok _ _) = false |- _ => apply arity_cases in A as [->| ->] end;
    tail_cases; subst; ovs; (eapply msg_arr; [eassumption|reflexivity|vchain]).
Qed.

Theorem U_entry_refines : forall p bs e r, U_entry p bs = Ok (e, r) -> one_value bs r.
Proof.
  intros p bs e r H. unfold U_entry in H. dec H.
  match goal with A : negb (_ =? _) = false |- _ => apply negb_eqb_false in A as -> end.
  ovs. eapply msg_arr; [eassumption|reflexivity|vchain].
Qed.

Lemma U_entries_loop_values p : forall f cnt bs acc es r,
  U_entries_loop p f cnt bs acc = Ok (es, r) -> values (N.to_nat cnt) bs r.
Proof.
  induction f as [|f IH]; intros cnt bs acc es r; [discriminate|].
  rewrite U_entries_loop_S. destruct (N.eqb_spec cnt 0) as [->|Hc]; intros H.
  - inv H. reflexivity.
  - rewrite (to_nat_pred _ Hc). dec H. apply IH in H. apply U_entry_refines in E. vchain.
Qed.

Theorem U_entry_list_refines : forall p bs es r, U_entry_list p bs = Ok (es, r) -> one_value bs r.
Proof.
  intros p bs es r H. unfold U_entry_list in H. dec H.
  eapply one_value_arr; [eassumption|]. eapply U_entries_loop_values; eassumption.
Qed.

Theorem U_forward_refines : forall p prev bs m r, U_forward p prev bs = Ok (m, r) -> one_value bs r.
Proof.
  intros p prev bs m r H. unfold U_forward in H. cbv zeta in H. dec H.
  match goal with H : U_entry_list _ _ = Ok _ |- _ => apply U_entry_list_refines in H end.
  match goal with A : negb (arity_ok _ _) = false |- _ => apply arity_cases in A as [->| ->] end;
    tail_cases; subst; ovs; (eapply msg_arr; [eassumption|reflexivity|vchain]).
Qed.

Theorem U_packed_refines : forall p prev bs m r, U_packed p prev bs = Ok (m, r) -> one_value bs r.
Proof.
  intros p prev bs m r H. unfold U_packed in H. cbv zeta in H. dec H.
  match goal with A : negb (arity_ok _ _) = false |- _ => apply arity_cases in A as [->| ->] end;
    tail_cases; subst; ovs; (eapply msg_arr; [eassumption|reflexivity|vchain]).
Qed.

Print Assumptions U_message_refines.
Print Assumptions U_message_ext_refines.
Print Assumptions U_entry_refines.
Print Assumptions U_forward_refines.
Print Assumptions U_packed_refines.

Lemma U_ack_loop_values p : forall f cnt bs a a' r,
  U_ack_loop p f cnt bs a = Ok (a', r) -> values (2 * N.to_nat cnt) bs r.
Proof.
  induction f as [|f IH]; intros cnt bs a a' r; [discriminate|].
  rewrite U_ack_loop_S. destruct (N.eqb_spec cnt 0) as [->|Hc]; intros H.
  - inv H. reflexivity.
  - rewrite (two_to_nat_pred _ Hc).
    dec H; match goal with H : U_ack_loop _ _ _ _ _ = Ok _ |- _ => apply IH in H end; ovs; vchain.
Qed.

Theorem U_ack_refines : forall p bs a r, U_ack p bs = Ok (a, r) -> one_value bs r.
Proof.
  intros p bs a r H. unfold U_ack in H. dec H.
  eapply msg_map; [eassumption|]. eapply U_ack_loop_values; eassumption.
Qed.

Lemma U_helo_opts_loop_values p : forall f cnt bs o o' r,
  U_helo_opts_loop p f cnt bs o = Ok (o', r) -> values (2 * N.to_nat cnt) bs r.
Proof.
  induction f as [|f IH]; intros cnt bs o o' r; [discriminate|].
  rewrite U_helo_opts_loop_S. destruct (N.eqb_spec cnt 0) as [->|Hc]; intros H.
  - inv H. reflexivity.
  - rewrite (two_to_nat_pred _ Hc).
    dec H; match goal with H : U_helo_opts_loop _ _ _ _ _ = Ok _ |- _ => apply IH in H end; ovs; vchain.
Qed.

Theorem U_helo_refines : forall p bs h r, U_helo p bs = Ok (h, r) -> one_value bs r.
Proof.
  intros p bs h r H. unfold U_helo in H. dec H;
  match goal with A : negb (_ =? _) = false |- _ => apply negb_eqb_false in A as -> end.
  - ovs. eapply msg_arr; [eassumption|reflexivity|vchain].
  - match goal with
    | H1 : rd_map_hdr _ = Ok _, H2 : U_helo_opts_loop _ _ _ _ _ = Ok _ |- _ =>
        apply U_helo_opts_loop_values in H2; pose proof (msg_map _ _ _ _ H1 H2); clear H1 H2
    end.
    ovs. eapply msg_arr; [eassumption|reflexivity|vchain].
Qed.

Theorem U_ping_refines : forall p bs m r, U_ping p bs = Ok (m, r) -> one_value bs r.
Proof.
  intros p bs m r H. unfold U_ping in H. dec H.
  match goal with A : negb (_ =? _) = false |- _ => apply negb_eqb_false in A as -> end.
  ovs. eapply msg_arr; [eassumption|reflexivity|vchain].
Qed.

Theorem U_pong_refines : forall p bs m r, U_pong p bs = Ok (m, r) -> one_value bs r.
Proof.
  intros p bs m r H. unfold U_pong in H. dec H.
  match goal with A : negb (_ =? _) = false |- _ => apply negb_eqb_false in A as -> end.
  ovs. eapply msg_arr; [eassumption|reflexivity|vchain].
Qed.

Print Assumptions U_options_refines.
Print Assumptions U_entry_list_refines.
Print Assumptions U_ack_refines.
Print Assumptions U_helo_refines.
Print Assumptions U_ping_refines.
Print Assumptions U_pong_refines.

(* ---------- the specification parser does not look at the unread suffix ---------- *)

(* [g] reads a prefix of its input and returns the rest, whatever the rest is *)
Definition local {A} (g : bytes -> option (A * bytes)) : Prop :=
  forall t a r, g t = Some (a, r) -> exists c, t = c ++ r /\ forall x, g (c ++ x) = Some (a, x).

Lemma local_ret {A} (a : A) : local (fun t => Some (a, t)).
Proof. intros t a' r H. inv H. exists []. split; [reflexivity|]. intros x. reflexivity. Qed.

Lemma local_none {A} : local (fun _ => @None (A * bytes)).
Proof. intros t a r H. discriminate. Qed.

Lemma local_if {A} (c : bool) (g h : bytes -> option (A * bytes)) :
  local g -> local h -> local (fun t => if c then g t else h t).
Proof. destruct c; auto. Qed.

Lemma local_obind {A B} (g : bytes -> option (A * bytes)) (h : A -> bytes -> option (B * bytes)) :
  local g -> (forall a, local (h a)) ->
  local (fun t => obind (g t) (fun x => match x with (a, u) => h a u end)).
Proof.
  intros Lg Lh t b r H. apply obind_some in H as ([a u] & E & H).
  apply Lg in E as (c1 & -> & E). apply Lh in H as (c2 & -> & H).
  exists (c1 ++ c2). split; [now rewrite app_assoc|]. intros x.
  rewrite <- app_assoc, E. cbn [obind]. apply H.
Qed.

Lemma local_otake k : local (otake k).
Proof.
  intros t h r H. rewrite !otake_unfold in H. destruct (N.leb_spec k (len t)) as [L|]; [|discriminate]. inv H.
  exists (firstn (N.to_nat k) t). split; [symmetry; apply firstn_skipn|]. intros x.
  assert (Hl : length (firstn (N.to_nat k) t) = N.to_nat k)
    by (rewrite firstn_length; unfold len in L; lia).
  rewrite !otake_unfold. destruct (N.leb_spec k (len (firstn (N.to_nat k) t ++ x))) as [_|L'].
  - f_equal. f_equal.
    + rewrite firstn_app, Hl, Nat.sub_diag. cbn [firstn]. rewrite app_nil_r.
      rewrite <- Hl at 1. apply firstn_all.
    + rewrite skipn_app, Hl, Nat.sub_diag. cbn [skipn]. rewrite <- Hl at 1. now rewrite skipn_all.
  - unfold len in L'. rewrite app_length in L'. lia.
Qed.

Lemma local_onum k : local (onum k).
Proof.
  intros t n r H. unfold onum in H. destruct (otake k t) as [[h u]|] eqn:E; [|discriminate]. inv H.
  apply local_otake in E as (c & -> & E). exists c. split; [reflexivity|]. intros x.
  unfold onum. now rewrite E.
Qed.

Lemma local_map {A B} (g : bytes -> option (A * bytes)) (mk : A -> B) :
  local g -> local (fun t => obind (g t) (fun x => match x with (a, u) => Some (mk a, u) end)).
Proof. intros L. apply (local_obind g (fun a t => Some (mk a, t))); [exact L|]. intros a. apply local_ret. Qed.

Lemma local_sized mk k : local (sized mk k).
Proof.
  unfold sized. apply (local_obind (onum k) (fun l t => '(s, u) <~ otake l t ;; Some (mk s, u))).
  - apply local_onum.
  - intros l. apply local_map, local_otake.
Qed.

Lemma local_ext_fixed l : local (ext_fixed l).
Proof.
  unfold ext_fixed. apply (local_obind (onum 1) (fun ty u => '(d, w) <~ otake l u ;; Some (VExt ty d, w))).
  - apply local_onum.
  - intros ty. apply (local_map (otake l) (VExt ty)), local_otake.
Qed.

Lemma local_ext_sized k : local (ext_sized k).
Proof.
  unfold ext_sized.
  apply (local_obind (onum k) (fun l t => '(ty, u) <~ onum 1 t ;; '(d, w) <~ otake l u ;; Some (VExt ty d, w))).
  - apply local_onum.
  - intros l. apply (local_obind (onum 1) (fun ty u => '(d, w) <~ otake l u ;; Some (VExt ty d, w))).
    + apply local_onum.
    + intros ty. apply (local_map (otake l) (VExt ty)), local_otake.
Qed.

Lemma local_all : forall f,
  (forall b, local (fun t => parse f (b :: t))) /\
  (forall cnt acc, local (fun t => parse_arr f cnt t acc)) /\
  (forall cnt acc, local (fun t => parse_map f cnt t acc)).
Proof.
  induction f as [|f (IHp & IHa & IHm)].
  - repeat split; intros; apply local_none.
  - assert (Lp : local (parse f)).
    { intros t v r H. destruct t as [|b t]; [destruct f; discriminate|].
      apply IHp in H as (c & -> & H). exists (b :: c). split; [reflexivity|]. exact H. }
    repeat split.
    + intros b.
      change (local (fun r =>
        let n := b2n b in
        if n <? 128 then Some (VInt (Z.of_N n), r)
        else if n <? 144 then parse_map f (n - 128) r []
        else if n <? 160 then parse_arr f (n - 144) r []
        else if n <? 192 then '(s, u) <~ otake (n - 160) r ;; Some (VStr s, u)
        else if n =? 192 then Some (VNil, r)
        else if n =? 193 then None
        else if n =? 194 then Some (VBool false, r)
        else if n =? 195 then Some (VBool true, r)
        else if n =? 196 then sized VBin 1 r
        else if n =? 197 then sized VBin 2 r
        else if n =? 198 then sized VBin 4 r
        else if n =? 199 then ext_sized 1 r
        else if n =? 200 then ext_sized 2 r
        else if n =? 201 then ext_sized 4 r
        else if n =? 202 then '(x, u) <~ onum 4 r ;; Some (VF32 x, u)
        else if n =? 203 then '(x, u) <~ onum 8 r ;; Some (VF64 x, u)
        else if n =? 204 then '(x, u) <~ onum 1 r ;; Some (VInt (Z.of_N x), u)
        else if n =? 205 then '(x, u) <~ onum 2 r ;; Some (VInt (Z.of_N x), u)
        else if n =? 206 then '(x, u) <~ onum 4 r ;; Some (VInt (Z.of_N x), u)
        else if n =? 207 then '(x, u) <~ onum 8 r ;; Some (VInt (Z.of_N x), u)
        else if n =? 208 then '(x, u) <~ onum 1 r ;; Some (VInt (n2z 1 x), u)
        else if n =? 209 then '(x, u) <~ onum 2 r ;; Some (VInt (n2z 2 x), u)
        else if n =? 210 then '(x, u) <~ onum 4 r ;; Some (VInt (n2z 4 x), u)
        else if n =? 211 then '(x, u) <~ onum 8 r ;; Some (VInt (n2z 8 x), u)
        else if n =? 212 then ext_fixed 1 r
        else if n =? 213 then ext_fixed 2 r
        else if n =? 214 then ext_fixed 4 r
        else if n =? 215 then ext_fixed 8 r
        else if n =? 216 then ext_fixed 16 r
        else if n =? 217 then sized VStr 1 r
        else if n =? 218 then sized VStr 2 r
        else if n =? 219 then sized VStr 4 r
        else if n =? 220 then '(c, u) <~ onum 2 r ;; parse_arr f c u []
        else if n =? 221 then '(c, u) <~ onum 4 r ;; parse_arr f c u []
        else if n =? 222 then '(c, u) <~ onum 2 r ;; parse_map f c u []
        else if n =? 223 then '(c, u) <~ onum 4 r ;; parse_map f c u []
        else Some (VInt (Z.of_N n - 256), r))).
      cbv zeta.
      repeat (apply local_if;
              [ first [ apply local_ret | apply local_none | apply IHm | apply IHa
                      | apply local_sized | apply local_ext_sized | apply local_ext_fixed
                      | apply (local_map (otake _)), local_otake
                      | apply (local_map (onum _)), local_onum
                      | apply (local_obind (onum _) (fun c u => parse_arr f c u []));
                          [apply local_onum | intros c; apply IHa]
                      | apply (local_obind (onum _) (fun c u => parse_map f c u []));
                          [apply local_onum | intros c; apply IHm] ]
              | ]).
      apply local_ret.
    + intros cnt acc.
      change (local (fun t => if cnt =? 0 then Some (VArr (rev_append acc []), t)
                              else '(v, r) <~ parse f t ;; parse_arr f (cnt - 1) r (v :: acc))).
      apply local_if; [apply local_ret|].
      apply (local_obind (parse f) (fun v r => parse_arr f (cnt - 1) r (v :: acc))); [exact Lp|].
      intros v. apply IHa.
    + intros cnt acc.
      change (local (fun t => if cnt =? 0 then Some (VMap (rev_append acc []), t)
                              else '(k, r) <~ parse f t ;; '(v, r') <~ parse f r ;;
                                   parse_map f (cnt - 1) r' ((k, v) :: acc))).
      apply local_if; [apply local_ret|].
      apply (local_obind (parse f)
               (fun k r => '(v, r') <~ parse f r ;; parse_map f (cnt - 1) r' ((k, v) :: acc))); [exact Lp|].
      intros k.
      apply (local_obind (parse f) (fun v r' => parse_map f (cnt - 1) r' ((k, v) :: acc))); [exact Lp|].
      intros v. apply IHm.
Qed.

Theorem parse_local : forall f bs v r, parse f bs = Some (v, r) ->
  exists c, bs = c ++ r /\ c <> [] /\ forall x, parse f (c ++ x) = Some (v, x).
Proof.
  intros f bs v r H. destruct bs as [|b t]; [destruct f; discriminate|].
  apply (proj1 (local_all f) b) in H as (c & -> & H).
  exists (b :: c). split; [reflexivity|]. split; [discriminate|]. exact H.
Qed.

(* a value read from the front of bs is a complete value on its own *)
Theorem one_value_split : forall bs r, one_value bs r ->
  exists c, bs = c ++ r /\ c <> [] /\ one_value c [].
Proof.
  intros bs r (f & v & H). apply parse_local in H as (c & -> & Hc & H).
  exists c. split; [reflexivity|]. split; [exact Hc|]. exists f, v.
  specialize (H []). now rewrite app_nil_r in H.
Qed.

Theorem one_value_consumed : forall bs r, one_value bs r -> consumed bs r.
Proof. intros bs r H. apply one_value_split in H as (c & -> & Hc & _). now exists c. Qed.

(* ---------- UnmarshalPacked: the stream is a concatenation of complete values ---------- *)

Lemma unmarshal_packed_loop_chunks : forall f bs acc es,
  unmarshal_packed_loop f bs acc = Ok es ->
  exists chunks, bs = concat chunks /\ (length chunks + length acc = length es)%nat /\
                 Forall (fun c => one_value c []) chunks.
Proof.
  induction f as [|f IH]; intros bs acc es; [discriminate|].
  rewrite unmarshal_packed_loop_S. destruct bs as [|b t].
  - intros H. inv H. exists []. repeat split; [|constructor]. now rewrite rev_length.
  - intros H. dec H. apply U_entry_refines, one_value_split in E as (c & Ec & _ & Hc).
    apply IH in H as (chunks & -> & Hl & HF). exists (c :: chunks).
    repeat split; [exact Ec| cbn [length] in *; lia | now constructor].
Qed.

Theorem unmarshal_packed_refines : forall bs es, unmarshal_packed bs = Ok es ->
  exists chunks, bs = concat chunks /\ length chunks = length es /\
                 Forall (fun c => one_value c []) chunks.
Proof.
  intros bs es H. apply unmarshal_packed_loop_chunks in H as (chunks & E & Hl & HF).
  exists chunks. repeat split; [exact E | cbn [length] in Hl; lia | exact HF].
Qed.

Print Assumptions parse_local.
Print Assumptions one_value_split.
Print Assumptions unmarshal_packed_refines.
Print Assumptions parse_fuel_mono.
Print Assumptions one_value_arr.
Print Assumptions one_value_map.
Print Assumptions one_value_consumed.
Print Assumptions rd_str_refines.
Print Assumptions rd_bin_refines.
Print Assumptions rd_nil_refines.
Print Assumptions rd_bool_refines.
Print Assumptions rd_int64_refines.
Print Assumptions rd_uint64_refines.
Print Assumptions ext_parts_refines.
Print Assumptions rd_eventtime_refines.
Print Assumptions rd_intf_ext_refines.
Print Assumptions rd_map_key_refines.
Print Assumptions rd_map_key_ptr_refines.
Print Assumptions rd_field_key_refines.
Print Assumptions rd_rec_key_refines.
