(* Completeness of the library's decoders with respect to the independent specification
   (Spec.v): a message that the specification parser accepts, in ANY legal msgpack
   encoding of its fields, is decoded by the library to the value the specification
   assigns to it.
     A1  rd_intf_complete        interface{} values
     A2  item_str / item_bin / item_int64 / item_eventtime / item_arr_inv / item_map_inv
     A3  U_options_complete      the option map, keys in any order, unknown keys
     A4  U_message_complete, U_message_ext_complete, U_forward_complete, U_packed_complete *)
From FF Require Import model.Bytes model.Show model.Msgp model.Forward model.Spec model.Abs model.Wf
  proofs.Bytes_Proofs proofs.EventTime_Proofs proofs.Spec_Proofs proofs.Lead_Proofs proofs.Chunk_Proofs.
From Coq Require Import Lia ZifyN ZifyNat ZifyBool String.
Open Scope N_scope.

(* ================================================================== *)
(* rd_intf by kind of the lead byte                                    *)
(* ================================================================== *)

Definition intf_kind (p : path) (f : nat) (k : kind) (b : byte) (r : bytes) : res (gval * bytes) :=
  match k with
  | KFixInt z => Ok (GInt z, r)
  | KNil => Ok (GNil, r)
  | KBool bb => Ok (GBool bb, r)
  | KNone => Err EInvalid
  | KFixStr l => '(s, t) <- take l r ;; Ok (GStr s, t)
  | KStr k => '(s, t) <- ('(l, t) <- rd_be k r ;; take l t) ;; Ok (GStr s, t)
  | KBin k => '(s, t) <- ('(l, t) <- rd_be k r ;; take l t) ;; Ok (GBin s, t)
  | KExtS _ | KExtF _ => rd_intf_ext p (b :: r)
  | KF32 => '(x, t) <- rd_be 4 r ;; Ok (GF32 x, t)
  | KF64 => '(x, t) <- rd_be 8 r ;; Ok (GF64 x, t)
  | KUint k => '(x, t) <- rd_be k r ;; Ok (GUint x, t)
  | KSint k => '(x, t) <- ('(x, t) <- rd_be k r ;; Ok (n2z k x, t)) ;; Ok (GInt x, t)
  | KFixArr c => rd_arr p f c r []
  | KFixMap c => rd_map p f c r []
  | KArr k => '(c, t) <- rd_be k r ;; rd_arr p f c t []
  | KMap k => '(c, t) <- rd_be k r ;; rd_map p f c t []
  end.

Lemma rd_intf_kind_eq p f b r : rd_intf p (S f) (b :: r) = intf_kind p f (kind_of (b2n b)) b r.
Proof. destruct b; reflexivity. Qed.

Lemma rd_arr_S p f cnt bs acc : rd_arr p (S f) cnt bs acc =
  if cnt =? 0 then Ok (GArr (rev acc), bs)
  else '(v, r) <- rd_intf p f bs ;; rd_arr p f (cnt - 1) r (v :: acc).
Proof. rewrite ?rev_alt. reflexivity. Qed.

Lemma rd_map_S p f cnt bs acc : rd_map p (S f) cnt bs acc =
  if cnt =? 0 then Ok (GMap (rev acc), bs)
  else '(k, r1) <- rd_rec_key p bs ;;
       '(v, r2) <- rd_intf p f r1 ;;
       rd_map p f (cnt - 1) r2 ((k, v) :: acc).
Proof. rewrite ?rev_alt. reflexivity. Qed.

(* ================================================================== *)
(* Extension values                                                    *)
(* ================================================================== *)

Definition ext_dispatch {A} (o : option N) (a b c d : A) : A :=
  match o with Some 5 => a | Some 3 => b | Some 4 => c | _ => d end.

Lemma rd_intf_ext_eq p bs : rd_intf_ext p bs =
  match ext_type_peek p bs with
  | Err e => Err e
  | Panic => Panic
  | Ok refined =>
      let lead := match bs with b :: _ => b2n b | [] => 0 end in
      ext_dispatch refined
        (if len bs <? 15 then Err EShort
         else if negb ((lead =? 199) && (b2n (nth 1 bs x00) =? 12)) then Err EType
         else
           let sec := n2z 8 (unbe (firstn 8 (skipn 3 bs))) in
           let ns := n2z 4 (unbe (firstn 4 (skipn 11 bs))) in
           let '(s, n) := norm_time sec ns in
           Ok (GTime s n, skipn 15 bs))
        (if len bs <? 10 then Err EShort
         else if negb (lead =? 215) then Err EType
         else Ok (GC64 (unbe (firstn 8 (skipn 2 bs))), skipn 10 bs))
        (if len bs <? 18 then Err EShort
         else if negb (lead =? 216) then Err EType
         else Ok (GC128 (unbe (firstn 8 (skipn 2 bs))) (unbe (firstn 8 (skipn 10 bs))), skipn 18 bs))
        (match p with
         | Slice =>
             if len bs <? spec_size lead then Err EShort
             else
               let pos := if 212 <=? lead then 1 else spec_size lead - 1 in
               let ty := b2n (nth (N.to_nat pos) bs x00) in
               if ty =? 0 then '(s, ns, rest) <- rd_eventtime bs ;; Ok (GEventTime s ns, rest)
               else '(t, d, rest) <- ext_parts bs ;; Ok (GRawExt t d, rest)
         | Stream =>
             '(t, d, rest) <- ext_parts bs ;;
             if t =? 0 then '(s, ns) <- dec_eventtime d ;; Ok (GEventTime s ns, rest)
             else Ok (GRawExt t d, rest)
         end)
  end.
Proof. reflexivity. Qed.

Lemma ext_dispatch_other {A} o (a b c d : A) :
  (forall ty, o = Some ty -> is_345 ty = false) -> ext_dispatch o a b c d = d.
Proof.
  intros H. destruct o as [ty|]; [|reflexivity]. specialize (H ty eq_refl).
  unfold ext_dispatch.
  destruct ty as [|q]; [reflexivity|].
  destruct q as [[[q|q|]|[q|q|]|]|[[q|q|]|[q|q|]|]|]; try reflexivity; discriminate H.
Qed.

Lemma ext_pos_kind b :
  N.to_nat (if 212 <=? b2n b then 1 else spec_size (b2n b) - 1) =
  match kind_of (b2n b) with
  | KExtF _ => 1%nat
  | KExtS k => S k
  | _ => N.to_nat (if 212 <=? b2n b then 1 else spec_size (b2n b) - 1)
  end.
Proof. destruct b; reflexivity. Qed.

(* the parts of an extension object, as the specification and the library see them *)
Lemma item_ext_parts s bs ty d r : item s bs (VExt ty d) r ->
  exists b r0, bs = b :: r0 /\ ext_parts bs = Ok (ty, d, r) /\
    (forall p, exists o, ext_type_peek p bs = Ok o /\ (forall t, o = Some t -> t = ty)) /\
    (len bs <? spec_size (b2n b)) = false /\
    b2n (nth (N.to_nat (if 212 <=? b2n b then 1 else spec_size (b2n b) - 1)) bs x00) = ty.
Proof.
  intros (f & H & _). destruct f as [|f]; [discriminate|]. destruct bs as [|b r0]; [discriminate|].
  exists b, r0. split; [reflexivity|].
  rewrite parse_kind_eq in H. rewrite ext_parts_kind, ext_pos_kind, spec_size_kind.
  pose proof (fun p => ext_type_peek_kind p b r0) as P.
  destruct (kind_of (b2n b)); inv_kind H; try discriminate;
    try (apply parse_arr_is_arr in H as [? ?]; discriminate);
    try (apply parse_map_is_map in H as [? ?]; discriminate).
  - (* ext8 / ext16 / ext32 *)
    injection H as <- <- <-.
    apply onum1_inv in E0 as (x & -> & ->).
    pose proof (otake_length _ _ _ _ E1) as L1.
    rewrite (onum_rd_be _ _ _ _ E). red_bind. rewrite (otake_take _ _ _ _ E1). red_bind.
    apply onum_split in E as (h & -> & Hh & _).
    assert (Hk : List.length h = k) by (unfold len in Hh; lia). subst k.
    assert (Ln : len (b :: h ++ x :: b1) = N.of_nat (List.length h) + 2 + len b1).
    { unfold len. cbn [List.length]. rewrite app_length. cbn [List.length]. lia. }
    repeat split.
    + intros p. rewrite (P p). clear P. rewrite Ln. destruct p.
      * match goal with |- context[N.ltb ?a ?c] => destruct (N.ltb a c) end; eexists; (split; [reflexivity|]); intros t [= <-]; try discriminate.
        cbn [nth]. now rewrite nth_app_cons.
      * destruct (N.leb_spec (N.of_nat (List.length h) + 2) (N.of_nat (List.length h) + 2 + len b1)); [|lia].
        eexists; (split; [reflexivity|]); intros t [= <-]. cbn [nth]. now rewrite nth_app_cons.
    + rewrite Ln. apply N.ltb_ge. lia.
    + cbn [nth]. now rewrite nth_app_cons.
  - (* fixext *)
    injection H as <- <- <-.
    apply onum1_inv in E as (x & -> & ->).
    pose proof (otake_length _ _ _ _ E0) as L1.
    rewrite (otake_take _ _ _ _ E0). red_bind.
    assert (Ln : len (b :: x :: b0) = len b0 + 2).
    { unfold len. cbn [List.length]. lia. }
    assert (L2 : l <= len b0) by (unfold len; lia).
    repeat split.
    + intros p. rewrite (P p). clear P. rewrite Ln. destruct p.
      * match goal with |- context[N.ltb ?a ?c] => destruct (N.ltb a c) end; eexists; (split; [reflexivity|]); intros t [= <-]; try discriminate.
        reflexivity.
      * destruct (N.leb_spec 2 (len b0 + 2)); [|lia].
        eexists; (split; [reflexivity|]); intros t [= <-]. reflexivity.
    + rewrite Ln. apply N.ltb_ge. lia.
Qed.

(* how ReadIntf treats an extension whose type is not 3, 4, 5: type 0 goes to the
   registered EventTime decoder, every other type yields a RawExtension; both paths,
   every header (fixext, ext8, ext16, ext32), with or without trailing input *)
Lemma rd_intf_ext_complete p s bs ty d r : item s bs (VExt ty d) r -> is_345 ty = false ->
  rd_intf_ext p bs =
  if ty =? 0 then '(sec, ns) <- dec_eventtime d ;; Ok (GEventTime sec ns, r)
  else Ok (GRawExt ty d, r).
Proof.
  intros Hi H3. destruct (item_ext_parts _ _ _ _ _ Hi) as (b & r0 & -> & Ep & Hpeek & Hlen & Hpos).
  rewrite rd_intf_ext_eq. destruct (Hpeek p) as (o & -> & Ho). cbv beta iota zeta.
  rewrite ext_dispatch_other by (intros t Ht; now rewrite (Ho t Ht)).
  destruct p.
  - rewrite Hlen, Hpos. unfold rd_eventtime. rewrite Ep. red_bind.
    destruct (ty =? 0); [|reflexivity].
    destruct (dec_eventtime d) as [[sec ns]| |]; reflexivity.
  - rewrite Ep. red_bind. reflexivity.
Qed.

(* ================================================================== *)
(* A2. primitives                                                      *)
(* ================================================================== *)

(* (strings, binaries, array and map headers: item_str, item_bin, item_arr_inv,
   item_map_inv of Chunk_Proofs) *)

Lemma item_kind_inv s bs v r : item s bs v r ->
  exists f b r0, bs = b :: r0 /\ parse_kind f (kind_of (b2n b)) r0 = Some (v, r).
Proof.
  intros (f & H & _). destruct f as [|f]; [discriminate|]. destruct bs as [|b r0]; [discriminate|].
  rewrite parse_kind_eq in H. eauto.
Qed.

Ltac not_seq H :=
  try (apply parse_arr_is_arr in H as [? ?]; discriminate);
  try (apply parse_map_is_map in H as [? ?]; discriminate).

Lemma int64_ok_spec' z : int64_ok z = true -> (-9223372036854775808 <= z < 9223372036854775808)%Z.
Proof. unfold int64_ok. lia. Qed.

(* every integer encoding (fixint, int8..64, uint8..64) of an int64 is read by ReadInt64 *)
Lemma item_int64 s bs z r : item s bs (VInt z) r -> int64_ok z = true -> rd_int64 bs = Ok (z, r).
Proof.
  intros Hi Hz. apply int64_ok_spec' in Hz.
  destruct (item_kind_inv _ _ _ _ Hi) as (f & b & r0 & -> & H).
  rewrite rd_int64_kind.
  destruct (kind_of (b2n b)); inv_kind H; try discriminate; not_seq H.
  - now injection H as <- <-.
  - injection H as <- <-.
    destruct k as [|[|[|[|[|[|[|[|[|k]]]]]]]]]; rewrite (onum_rd_be _ _ _ _ E); red_bind; try reflexivity.
    destruct (N.ltb_spec n 9223372036854775808); [reflexivity|lia].
  - injection H as <- <-. rewrite (onum_rd_be _ _ _ _ E). reflexivity.
Qed.

(* the instant EventTime decoding yields for an 8-byte payload: time.Unix normalisation *)
Definition et_instant (d : bytes) : Z * N :=
  (Z.of_N (unbe (firstn 4 d) + unbe (skipn 4 d) / 1000000000), unbe (skipn 4 d) mod 1000000000).

Lemma dec_eventtime_8 d : len d = 8 -> dec_eventtime d = Ok (et_instant d).
Proof. intros H. unfold dec_eventtime. rewrite H. reflexivity. Qed.

(* an extension of type 0 with 8 payload bytes, under ANY extension header (fixext8 d7,
   ext8 c7 08, ext16 c8 00 08, ext32 c9 00 00 00 08), is read as an EventTime *)
Lemma item_eventtime s bs d r : item s bs (VExt 0 d) r -> len d = 8 ->
  rd_eventtime bs = Ok (fst (et_instant d), snd (et_instant d), r).
Proof.
  intros Hi Hd. destruct (item_ext_parts _ _ _ _ _ Hi) as (b & r0 & -> & Ep & _).
  unfold rd_eventtime. rewrite Ep. red_bind. change (0 =? 0) with true. cbv iota.
  rewrite (dec_eventtime_8 _ Hd). reflexivity.
Qed.

(* ================================================================== *)
(* A1. interface{} values                                              *)
(* ================================================================== *)

(* The values the library supports inside records.  Integers need no side condition: what
   the specification parses is at most 64 bits wide, and ReadIntf keeps uint64 and int64
   apart (GUint / GInt).  Map keys must be strings.  Extensions:
     type 0        only with an 8-byte payload whose nanosecond field is below 10^9
                   (otherwise ReadIntf fails, resp. returns the NORMALISED instant);
     types 3, 4, 5 excluded: ReadIntf accepts them in one specific encoding only and
                   otherwise fails (counterexamples below);
     other types   any payload, any header. *)
Fixpoint supported_value (v : value) : bool :=
  match v with
  | VNil | VBool _ | VInt _ | VF32 _ | VF64 _ | VStr _ | VBin _ => true
  | VArr l => forallb supported_value l
  | VMap l => forallb (fun kv => match fst kv with VStr _ => supported_value (snd kv) | _ => false end) l
  | VExt ty d =>
      if ty =? 0 then (len d =? 8) && (unbe (skipn 4 d) <? 1000000000)
      else negb (is_345 ty)
  end.

Lemma supported_arr l : supported_value (VArr l) = forallb supported_value l.
Proof. reflexivity. Qed.
Lemma supported_map l : supported_value (VMap l) =
  forallb (fun kv => match fst kv with VStr _ => supported_value (snd kv) | _ => false end) l.
Proof. reflexivity. Qed.

Lemma value_of_arr' l : value_of (GArr l) = VArr (map value_of l).
Proof. reflexivity. Qed.
Lemma value_of_map' l :
  value_of (GMap l) = VMap (map (fun kv => (VStr (fst kv), value_of (snd kv))) l).
Proof. reflexivity. Qed.

Lemma supported_ext_value p s bs ty d r : item s bs (VExt ty d) r ->
  supported_value (VExt ty d) = true ->
  exists g, rd_intf_ext p bs = Ok (g, r) /\ value_of g = VExt ty d.
Proof.
  intros Hi Hs. cbn [supported_value] in Hs.
  destruct (N.eqb_spec ty 0) as [->|Hty].
  - apply andb_prop in Hs as [H8 Hns]. apply N.eqb_eq in H8. apply N.ltb_lt in Hns.
    rewrite (rd_intf_ext_complete p _ _ _ _ _ Hi eq_refl). change (0 =? 0) with true. cbv iota.
    rewrite (dec_eventtime_8 _ H8). unfold et_instant. red_bind.
    eexists; split; [reflexivity|]. cbn [value_of]. f_equal.
    apply et_reencode.
    + unfold len in H8. lia.
    + exact Hns.
    + apply dec_eventtime_8. exact H8.
  - apply negb_true_iff in Hs.
    rewrite (rd_intf_ext_complete p _ _ _ _ _ Hi Hs).
    destruct (N.eqb_spec ty 0); [contradiction|].
    eexists; split; reflexivity.
Qed.

Lemma item_rec_key p s bs k r : item s bs (VStr k) r -> rd_rec_key p bs = Ok (k, r).
Proof. intros H. destruct (item_str _ _ _ _ H). destruct p; assumption. Qed.

Theorem rd_intf_complete_all p f :
  (forall bs v r, parse f bs = Some (v, r) -> supported_value v = true ->
     forall f', (3 * (List.length bs - List.length r) <= S f')%nat ->
     exists g, rd_intf p f' bs = Ok (g, r) /\ value_of g = v) /\
  (forall c bs acc v r gacc, parse_arr f c bs acc = Some (v, r) -> supported_value v = true ->
     map value_of gacc = acc ->
     forall f', (3 * (List.length bs - List.length r) + 1 <= f')%nat ->
     exists g, rd_arr p f' c bs gacc = Ok (g, r) /\ value_of g = v) /\
  (forall c bs acc v r gacc, parse_map f c bs acc = Some (v, r) -> supported_value v = true ->
     map (fun kv => (VStr (fst kv), value_of (snd kv))) gacc = acc ->
     forall f', (3 * (List.length bs - List.length r) + 1 <= f')%nat ->
     exists g, rd_map p f' c bs gacc = Ok (g, r) /\ value_of g = v).
Proof.
  induction f as [|f (IHp & IHa & IHm)].
  - repeat split; intros; discriminate.
  - repeat split.
    + (* one value *)
      intros bs v r H Hs f' Hf'.
      pose proof (parse_length _ _ _ _ H) as L.
      assert (Hi : item false bs v r) by (exists (S f); split; [exact H|reflexivity]).
      destruct bs as [|b r0]; [discriminate|].
      destruct f' as [|f']; [cbn [List.length] in *; lia|].
      rewrite parse_kind_eq in H. rewrite rd_intf_kind_eq.
      cbn [List.length] in *.
      destruct (kind_of (b2n b)) as [z| |bb| |l|k|k|k|l| | |k|k|c|c|k|k] eqn:K;
        cbn [intf_kind]; inv_kind H.
      * injection H as <- <-. eexists; split; reflexivity.
      * injection H as <- <-. eexists; split; reflexivity.
      * injection H as <- <-. eexists; split; reflexivity.
      * discriminate.
      * injection H as <- <-. rewrite (otake_take _ _ _ _ E). eexists; split; reflexivity.
      * injection H as <- <-. rewrite (onum_rd_be _ _ _ _ E). red_bind.
        rewrite (otake_take _ _ _ _ E0). eexists; split; reflexivity.
      * injection H as <- <-. rewrite (onum_rd_be _ _ _ _ E). red_bind.
        rewrite (otake_take _ _ _ _ E0). eexists; split; reflexivity.
      * injection H as <- <-. eapply supported_ext_value; eauto.
      * injection H as <- <-. eapply supported_ext_value; eauto.
      * injection H as <- <-. rewrite (onum_rd_be 4 _ _ _ E). eexists; split; reflexivity.
      * injection H as <- <-. rewrite (onum_rd_be 8 _ _ _ E). eexists; split; reflexivity.
      * injection H as <- <-. rewrite (onum_rd_be _ _ _ _ E). eexists; split; reflexivity.
      * injection H as <- <-. rewrite (onum_rd_be _ _ _ _ E). eexists; split; reflexivity.
      * pose proof (parse_arr_length _ _ _ _ _ _ H).
        eapply (IHa _ _ _ _ _ [] H Hs eq_refl). lia.
      * pose proof (parse_map_length _ _ _ _ _ _ H).
        eapply (IHm _ _ _ _ _ [] H Hs eq_refl). lia.
      * rewrite (onum_rd_be _ _ _ _ E). red_bind.
        pose proof (onum_length _ _ _ _ E). pose proof (parse_arr_length _ _ _ _ _ _ H).
        eapply (IHa _ _ _ _ _ [] H Hs eq_refl). lia.
      * rewrite (onum_rd_be _ _ _ _ E). red_bind.
        pose proof (onum_length _ _ _ _ E). pose proof (parse_map_length _ _ _ _ _ _ H).
        eapply (IHm _ _ _ _ _ [] H Hs eq_refl). lia.
    + (* array elements *)
      intros c bs acc v r gacc H Hs Hacc f' Hf'.
      destruct f' as [|f']; [lia|].
      rewrite parse_arr_S in H. rewrite rd_arr_S.
      destruct (c =? 0).
      * injection H as <- <-. eexists; split; [reflexivity|].
        rewrite value_of_arr', map_rev, Hacc. reflexivity.
      * ob H.
        pose proof (parse_length _ _ _ _ E) as L1.
        pose proof (parse_arr_length _ _ _ _ _ _ H) as L2.
        destruct (parse_arr_inv false _ _ _ _ _ _ H eq_refl) as (l' & Hv & _ & _).
        assert (Hs0 : supported_value v0 = true).
        { rewrite Hv, supported_arr in Hs. cbn [rev] in Hs.
          rewrite !forallb_app in Hs. cbn [forallb] in Hs. lia. }
        destruct (IHp _ _ _ E Hs0 f' ltac:(lia)) as (g0 & -> & Hg0). red_bind.
        eapply (IHa _ _ _ _ _ (g0 :: gacc) H Hs); [|lia].
        cbn [map]. now rewrite Hg0, Hacc.
    + (* map pairs *)
      intros c bs acc v r gacc H Hs Hacc f' Hf'.
      destruct f' as [|f']; [lia|].
      rewrite parse_map_S in H. rewrite rd_map_S.
      destruct (c =? 0).
      * injection H as <- <-. eexists; split; [reflexivity|].
        rewrite value_of_map', map_rev, Hacc. reflexivity.
      * ob H.
        pose proof (parse_length _ _ _ _ E) as L1.
        pose proof (parse_length _ _ _ _ E0) as L2.
        pose proof (parse_map_length _ _ _ _ _ _ H) as L3.
        destruct (parse_map_inv false _ _ _ _ _ _ H eq_refl) as (l' & Hv & _ & _).
        assert (Hs0 : (exists k, v0 = VStr k) /\ supported_value v1 = true).
        { rewrite Hv, supported_map in Hs. cbn [rev] in Hs.
          rewrite !forallb_app in Hs. cbn [forallb fst snd] in Hs.
          destruct v0; try lia. split; [eauto|lia]. }
        destruct Hs0 as [[k ->] Hs1].
        assert (Hk : item false bs (VStr k) b) by (exists f; split; [exact E|reflexivity]).
        rewrite (item_rec_key p _ _ _ _ Hk). red_bind.
        destruct (IHp _ _ _ E0 Hs1 f' ltac:(lia)) as (g1 & -> & Hg1). red_bind.
        eapply (IHm _ _ _ _ _ ((k, g1) :: gacc) H Hs); [|lia].
        cbn [map fst snd]. now rewrite Hg1, Hacc.
Qed.

(* A1 *)
Theorem rd_intf_complete : forall p f bs v r, parse f bs = Some (v, r) -> supported_value v = true ->
  forall f', (3 * (List.length bs - List.length r) <= S f')%nat ->
  exists g, rd_intf p f' bs = Ok (g, r) /\ value_of g = v.
Proof. intros p f. apply (rd_intf_complete_all p f). Qed.

(* with the fuel the decoders use *)
Corollary rd_intf_complete_fuel : forall p f bs v r, parse f bs = Some (v, r) ->
  supported_value v = true ->
  forall f', (fuel_for bs <= f')%nat -> exists g, rd_intf p f' bs = Ok (g, r) /\ value_of g = v.
Proof.
  intros p f bs v r H Hs f' Hf'. eapply rd_intf_complete; eauto. unfold fuel_for in Hf'. lia.
Qed.

Print Assumptions rd_intf_complete.

(* ---------- what is excluded from [supported_value], and why ---------- *)

Definition both_paths (bs : bytes) :=
  (parse1 bs, rd_intf Slice (fuel_for bs) bs, rd_intf Stream (fuel_for bs) bs).

(* type 0 with a payload that is not 8 bytes: a legal extension, ReadIntf fails *)
Example excl_ext0_len :
  both_paths (hx "d60000000005") = (Some (VExt 0 (hx "00000005"), []), Err ELen, Err ELen).
Proof. vm_compute. reflexivity. Qed.

(* type 0 with nanoseconds >= 10^9: decoded, but to the normalised instant (6 s, 1 ns),
   not to the value on the wire (5 s, 10^9 + 1 ns) *)
Example excl_ext0_nsec :
  let bs := hx "d700000000053b9aca01" in
  parse1 bs = Some (VExt 0 (hx "000000053b9aca01"), []) /\
  rd_intf Slice (fuel_for bs) bs = Ok (GEventTime 6 1, []) /\
  rd_intf Stream (fuel_for bs) bs = Ok (GEventTime 6 1, []) /\
  value_of (GEventTime 6 1) = VExt 0 (hx "0000000600000001").
Proof. vm_compute. repeat split; reflexivity. Qed.

(* type 5 (msgp time) under a fixext4 header: Stream fails; Slice returns a raw extension
   when nothing follows and fails when something follows *)
Example excl_ext5 :
  both_paths (hx "d60500000005") =
    (Some (VExt 5 (hx "00000005"), []), Ok (GRawExt 5 (hx "00000005"), []), Err EShort) /\
  both_paths (hx "d60500000005c0") =
    (Some (VExt 5 (hx "00000005"), hx "c0"), Err EShort, Err EShort).
Proof. vm_compute. split; reflexivity. Qed.

(* type 5 in its own encoding (c7 0c 05) with a negative nanosecond field: normalised *)
Example excl_ext5_norm :
  let bs := hx "c70c050000000000000005ffffffff" in
  rd_intf Stream (fuel_for bs) bs = Ok (GTime 4 999999999, []) /\
  parse1 bs = Some (VExt 5 (hx "0000000000000005ffffffff"), []) /\
  value_of (GTime 4 999999999) = VExt 5 (hx "00000000000000043b9ac9ff").
Proof. vm_compute. repeat split; reflexivity. Qed.

(* type 3 (complex64) under an ext8 header instead of fixext8: rejected on both paths;
   under fixext8 the two paths disagree on the Go type when nothing follows *)
Example excl_ext3 :
  both_paths (hx "c708030000000500000001") =
    (Some (VExt 3 (hx "0000000500000001"), []), Err EType, Err EType) /\
  both_paths (hx "d7030000000500000001") =
    (Some (VExt 3 (hx "0000000500000001"), []),
     Ok (GRawExt 3 (hx "0000000500000001"), []), Ok (GC64 21474836481, [])).
Proof. vm_compute. split; reflexivity. Qed.

(* type 4 (complex128) under a fixext1 header *)
Example excl_ext4 :
  both_paths (hx "d404aac0") = (Some (VExt 4 (hx "aa"), hx "c0"), Err EShort, Err EShort).
Proof. vm_compute. reflexivity. Qed.

(* map keys that are not strings: a bin key is conflated with a string on the Slice path
   and rejected on the Stream path; an integer key is rejected on both *)
Example excl_keys :
  both_paths (hx "81c4016101") =
    (Some (VMap [(VBin (hx "61"), VInt 1)], []), Ok (GMap [(hx "61", GInt 1)], []), Err EType) /\
  both_paths (hx "810101") = (Some (VMap [(VInt 1, VInt 1)], []), Err EType, Err EType).
Proof. vm_compute. split; reflexivity. Qed.

(* non-vacuity: extremes of the integer range, every extension header for EventTime *)
Example supported_examples :
  both_paths (hx "cfffffffffffffffff") =
    (Some (VInt 18446744073709551615, []), Ok (GUint 18446744073709551615, []),
     Ok (GUint 18446744073709551615, [])) /\
  both_paths (hx "d38000000000000000") =
    (Some (VInt (-9223372036854775808), []), Ok (GInt (-9223372036854775808), []),
     Ok (GInt (-9223372036854775808), [])) /\
  both_paths (hx "c900000008000000000500000001") =
    (Some (VExt 0 (hx "0000000500000001"), []), Ok (GEventTime 5 1, []), Ok (GEventTime 5 1, [])).
Proof. vm_compute. repeat split; reflexivity. Qed.

(* ================================================================== *)
(* A3. the option map                                                  *)
(* ================================================================== *)

Definition opt_rel (o : options) (so : sopts) : Prop :=
  o_size o = so_size so /\
  o_chunk o = (match so_chunk so with Some c => c | None => [] end) /\
  o_comp o = (match so_comp so with Some c => c | None => [] end).

Definition size_ok (so : sopts) : Prop := forall z, so_size so = Some z -> int64_ok z = true.

(* unknown keys: the Slice path skips them whatever they are; the Stream path rejects an
   EMPTY key (ReadMapKeyPtr) and cannot skip a value carrying an ext32 header, so there
   every unknown key must be non-empty and the encoding ext32-free (flag s = true) *)
Definition unknown_ok (p : path) (s : bool) (so : sopts) : Prop :=
  match p with
  | Slice => True
  | Stream => Forall (fun kv => fst kv <> [] /\ s = true) (so_other so)
  end.

Lemma U_options_loop_S p f cnt bs o : U_options_loop p (S f) cnt bs o =
  if cnt =? 0 then Ok (o, bs)
  else
    '(k, r) <- rd_field_key p bs ;;
    if bytes_eqb k k_size then
      if is_nil_next r then r' <- rd_nil r ;; U_options_loop p f (cnt - 1) r' {| o_size := None; o_chunk := o_chunk o; o_comp := o_comp o |}
      else '(z, r') <- rd_int64 r ;; U_options_loop p f (cnt - 1) r' {| o_size := Some z; o_chunk := o_chunk o; o_comp := o_comp o |}
    else if bytes_eqb k k_chunk then
      '(c, r') <- rd_str r ;; U_options_loop p f (cnt - 1) r' {| o_size := o_size o; o_chunk := c; o_comp := o_comp o |}
    else if bytes_eqb k k_comp then
      '(c, r') <- rd_str r ;; U_options_loop p f (cnt - 1) r' {| o_size := o_size o; o_chunk := o_chunk o; o_comp := c |}
    else
      r' <- skip p (fuel_for r) r ;; U_options_loop p f (cnt - 1) r' o.
Proof. reflexivity. Qed.

Lemma as_opts_loop_mono l : forall o so, as_opts_loop l o = Some so ->
  (forall z, so_size o = Some z -> so_size so = Some z) /\
  (exists x, so_other so = so_other o ++ x).
Proof.
  induction l as [|[k v] l IH]; intros o so H; cbn [as_opts_loop] in H.
  - injection H as <-. split; [auto|]. exists []. now rewrite app_nil_r.
  - destruct k; try discriminate.
    destruct (bytes_eqb s (str "size")).
    { destruct v; try discriminate. destruct (so_size o) eqn:Ez; try discriminate.
      destruct (IH _ _ H) as [A B]. cbn [so_size so_other] in *. split; [intros; discriminate|exact B]. }
    destruct (bytes_eqb s (str "chunk")).
    { destruct v; try discriminate. destruct (so_chunk o); try discriminate.
      destruct (IH _ _ H) as [A B]. cbn [so_size so_other] in *. split; assumption. }
    destruct (bytes_eqb s (str "compressed")).
    { destruct v; try discriminate. destruct (so_comp o); try discriminate.
      destruct (IH _ _ H) as [A B]. cbn [so_size so_other] in *. split; assumption. }
    destruct (existsb _ _); try discriminate.
    destruct (IH _ _ H) as [A [x B]]. cbn [so_size so_other] in *. split; [assumption|].
    exists ((s, v) :: x). rewrite B, <- app_assoc. reflexivity.
Qed.

Lemma item_nil s bs r : item s bs VNil r -> is_nil_next bs = true /\ rd_nil bs = Ok r.
Proof.
  intros Hi. destruct (item_kind_inv _ _ _ _ Hi) as (f & b & r0 & -> & H).
  rewrite is_nil_next_kind, rd_nil_kind.
  destruct (kind_of (b2n b)); inv_kind H; try discriminate; not_seq H.
  injection H as <-. auto.
Qed.

Lemma item_not_nil s bs v r : item s bs v r -> v <> VNil -> is_nil_next bs = false.
Proof.
  intros Hi Hv. destruct (item_kind_inv _ _ _ _ Hi) as (f & b & r0 & -> & H).
  rewrite is_nil_next_kind.
  destruct (kind_of (b2n b)); try reflexivity. inv_kind H. injection H as <- <-. congruence.
Qed.

Lemma item_field_key p s bs k r : item s bs (VStr k) r -> (p = Stream -> k <> []) ->
  rd_field_key p bs = Ok (k, r).
Proof.
  intros Hi Hk. destruct (item_str _ _ _ _ Hi) as [_ E]. destruct p; cbn [rd_field_key]; [exact E|].
  unfold rd_map_key_ptr. rewrite E. red_bind. destruct k; [now elim Hk|reflexivity].
Qed.

Lemma item_weaken s bs v r : item s bs v r -> item false bs v r.
Proof. intros (f & H & _). exists f. split; [exact H|reflexivity]. Qed.

Lemma item_skip_path p s bs v r f' : item s bs v r -> (p = Stream -> s = true) ->
  (fuel_for bs <= f')%nat -> skip p f' bs = Ok r.
Proof.
  intros (f & H & Hn) Hp Hf. eapply skip_complete_fuel; eauto.
  destruct p; [reflexivity|]. rewrite (Hp eq_refl) in Hn. exact Hn.
Qed.

Lemma U_options_loop_complete p s bs l r : pairs s bs l r ->
  forall so0 so o0 F, as_opts_loop l so0 = Some so -> opt_rel o0 so0 ->
  size_ok so -> unknown_ok p s so -> (List.length l < F)%nat ->
  exists o, U_options_loop p F (len l) bs o0 = Ok (o, r) /\ opt_rel o so.
Proof.
  induction 1 as [bs|bs k r1 v r2 l r' Hk Hv _ IH]; intros so0 so o0 F Ho Hrel Hsz Hun HF;
    (destruct F as [|F]; [lia|]); rewrite U_options_loop_S.
  - cbn [as_opts_loop] in Ho. injection Ho as <-. eexists; split; [reflexivity|exact Hrel].
  - cbn [List.length] in HF. rewrite len_cons'.
    destruct (N.eqb_spec (len l + 1) 0); [lia|].
    replace (len l + 1 - 1) with (len l) by lia.
    cbn [as_opts_loop] in Ho. destruct k as [| | | | |kk| | | |]; try discriminate.
    destruct Hrel as (R1 & R2 & R3).
    change k_size with (str "size"). change k_chunk with (str "chunk"). change k_comp with (str "compressed").
    destruct (bytes_eqb kk (str "size")) eqn:E1.
    { assert (kk = str "size") by now apply bytes_eqb_eq. subst kk.
      rewrite (item_field_key p _ _ _ _ Hk) by discriminate. red_bind. rewrite E1.
      destruct v as [| |z| | | | | | |]; try discriminate. destruct (so_size so0) eqn:Ez; try discriminate.
      rewrite (item_not_nil _ _ _ _ Hv) by discriminate.
      destruct (as_opts_loop_mono _ _ _ Ho) as [A _]. specialize (A z eq_refl).
      rewrite (item_int64 _ _ _ _ Hv (Hsz z A)). red_bind.
      apply (IH _ so _ F Ho); auto; [|lia]. repeat split; assumption. }
    destruct (bytes_eqb kk (str "chunk")) eqn:E2.
    { assert (kk = str "chunk") by now apply bytes_eqb_eq. subst kk.
      rewrite (item_field_key p _ _ _ _ Hk) by discriminate. red_bind. rewrite E1, E2.
      destruct v as [| | | | |c| | | |]; try discriminate. destruct (so_chunk so0) eqn:Ec; try discriminate.
      destruct (item_str _ _ _ _ Hv) as [-> _]. red_bind.
      apply (IH _ so _ F Ho); auto; [|lia]. repeat split; assumption. }
    destruct (bytes_eqb kk (str "compressed")) eqn:E3.
    { assert (kk = str "compressed") by now apply bytes_eqb_eq. subst kk.
      rewrite (item_field_key p _ _ _ _ Hk) by discriminate. red_bind. rewrite E1, E2, E3.
      destruct v as [| | | | |c| | | |]; try discriminate. destruct (so_comp so0) eqn:Ec; try discriminate.
      destruct (item_str _ _ _ _ Hv) as [-> _]. red_bind.
      apply (IH _ so _ F Ho); auto; [|lia]. repeat split; assumption. }
    (* an unknown key *)
    destruct (existsb _ _); try discriminate.
    assert (Hp : p = Stream -> kk <> [] /\ s = true).
    { intros ->. cbn [unknown_ok] in Hun.
      destruct (as_opts_loop_mono _ _ _ Ho) as [_ [x B]]. cbn [so_other] in B.
      rewrite B in Hun. rewrite Forall_forall in Hun.
      apply (Hun (kk, v)). rewrite <- app_assoc. apply in_or_app. right. left. reflexivity. }
    rewrite (item_field_key p _ _ _ _ Hk) by (intros Hq; now apply Hp). red_bind.
    rewrite E1, E2, E3.
    rewrite (item_skip_path p _ _ _ _ _ Hv (fun Hq => proj2 (Hp Hq)) (le_n _)). red_bind.
    apply (IH _ so _ F Ho); auto; [|lia]. repeat split; assumption.
Qed.

Definition sopts0 : sopts := {| so_size := None; so_chunk := None; so_comp := None; so_other := [] |}.

(* A3, general form *)
Theorem U_options_complete_gen : forall p s bs v r so,
  item s bs v r -> as_optfield (Some v) = Some (Some so) ->
  size_ok so -> unknown_ok p s so ->
  exists o, U_options p bs = Ok (o, r) /\ opt_rel o so.
Proof.
  intros p s bs v r so Hi Ho Hsz Hun. cbn [as_optfield] in Ho.
  destruct v as [| | | | | | | |l|]; try discriminate.
  destruct (as_opts_loop l _) as [so'|] eqn:El; [|discriminate]. injection Ho as ->.
  destruct (item_map_inv _ _ _ _ Hi) as (r0 & Eh & Hp).
  unfold U_options. rewrite Eh. red_bind.
  pose proof (pairs_length _ _ _ _ Hp) as L.
  eapply (U_options_loop_complete p s _ _ _ Hp sopts0 so empty_options); eauto.
  - repeat split.
  - unfold fuel_for. lia.
Qed.

(* A3 as asked: no unknown keys, both paths *)
Theorem U_options_complete : forall p f bs v r so,
  parse f bs = Some (v, r) -> as_optfield (Some v) = Some (Some so) ->
  so_other so = [] -> size_ok so ->
  exists o, U_options p bs = Ok (o, r) /\
    o_size o = so_size so /\
    o_chunk o = (match so_chunk so with Some c => c | None => [] end) /\
    o_comp o = (match so_comp so with Some c => c | None => [] end).
Proof.
  intros p f bs v r so H Ho Hoth Hsz.
  apply (U_options_complete_gen p false bs v r so); auto.
  - exists f. split; [exact H|reflexivity].
  - destruct p; cbn [unknown_ok]; [exact I|]. rewrite Hoth. constructor.
Qed.

(* unknown keys, Slice path: always skipped *)
Theorem U_options_complete_slice : forall f bs v r so,
  parse f bs = Some (v, r) -> as_optfield (Some v) = Some (Some so) -> size_ok so ->
  exists o, U_options Slice bs = Ok (o, r) /\ opt_rel o so.
Proof.
  intros f bs v r so H Ho Hsz.
  apply (U_options_complete_gen Slice false bs v r so); auto.
  - exists f. split; [exact H|reflexivity].
  - exact I.
Qed.

(* unknown keys, Stream path: non-empty keys, ext32-free encoding *)
Theorem U_options_complete_stream : forall f bs v r so,
  parse f bs = Some (v, r) -> nx f bs = true ->
  as_optfield (Some v) = Some (Some so) -> size_ok so ->
  Forall (fun kv => fst kv <> []) (so_other so) ->
  exists o, U_options Stream bs = Ok (o, r) /\ opt_rel o so.
Proof.
  intros f bs v r so H Hn Ho Hsz Hk.
  apply (U_options_complete_gen Stream true bs v r so); auto.
  - exists f. split; [exact H|exact Hn].
  - cbn [unknown_ok]. eapply Forall_impl; [|exact Hk]. intros a Ha. split; [exact Ha|reflexivity].
Qed.

(* the Stream-path limitations are real *)
Example options_stream_limits :
  (* {"":1} : empty unknown key *)
  U_options Slice (hx "81a001") = Ok (empty_options, []) /\
  U_options Stream (hx "81a001") = Err EShort /\
  (* {"x": ext32(5, aa)} *)
  U_options Slice (hx "81a178c90000000105aa") = Ok (empty_options, []) /\
  U_options Stream (hx "81a178c90000000105aa") = Err EShort /\
  (* size = 2^63 as uint64: legal for the specification, ReadInt64 overflows *)
  (exists so, option_map (fun x => as_optfield (Some (fst x))) (parse1 (hx "81a473697a65cf8000000000000000"))
              = Some (Some (Some so)) /\ so_size so = Some 9223372036854775808%Z) /\
  U_options Slice (hx "81a473697a65cf8000000000000000") = Err EOverflow.
Proof. vm_compute. repeat split; try reflexivity. eexists. split; reflexivity. Qed.

Print Assumptions U_options_complete_gen.
Print Assumptions U_options_complete.

(* ================================================================== *)
(* A4. messages                                                        *)
(* ================================================================== *)

Definition optopt_rel (mo : option options) (oo : option sopts) : Prop :=
  match mo, oo with
  | None, None => True
  | Some o, Some so => opt_rel o so
  | _, _ => False
  end.

(* what the option element must satisfy for path p; s = true means that the encoding of
   the whole message is ext32-free (needed only for unknown keys on the Stream path) *)
Definition opts_supported (p : path) (s : bool) (oo : option sopts) : Prop :=
  match oo with
  | None => True
  | Some so => size_ok so /\ unknown_ok p s so
  end.

(* the simple form: sizes fit int64 and, on the Stream path, there is no unknown key *)
Definition opts_simple (p : path) (oo : option sopts) : Prop :=
  match oo with
  | None => True
  | Some so => size_ok so /\ (p = Stream -> so_other so = [])
  end.

Lemma opts_simple_supported p oo : opts_simple p oo -> opts_supported p false oo.
Proof.
  destruct oo as [so|]; [|auto]. intros [A B]. split; [exact A|].
  destruct p; cbn [unknown_ok]; [exact I|]. rewrite (B eq_refl). constructor.
Qed.

(* the parse1 fuel *)
Definition pfuel (bs : bytes) : nat := S (S (3 * List.length bs)).

Lemma spec_parse_item_gen s shape bs m rest : spec_parse shape bs = Some (m, rest) ->
  nxb s (pfuel bs) bs = true ->
  exists v, item s bs v rest /\ shape v = Some m.
Proof.
  unfold spec_parse, parse1, pfuel. intros H Hn. ob H.
  destruct (shape v) as [m'|] eqn:Sh; [|discriminate]. injection H as <- <-.
  exists v. split; [|exact Sh]. eexists; split; [exact E|exact Hn].
Qed.

Lemma U_tail_complete p s bs v r oo : item s bs v r -> as_optfield (Some v) = Some oo ->
  opts_supported p s oo ->
  exists mo, U_tail p true bs = Ok (mo, r) /\ optopt_rel mo oo.
Proof.
  intros Hi Ho Hs. unfold U_tail.
  destruct oo as [so|].
  - destruct Hs as [Hsz Hun].
    assert (Hv : v <> VNil) by (intros ->; discriminate).
    rewrite (item_not_nil _ _ _ _ Hi Hv).
    destruct (U_options_complete_gen p s _ _ _ _ Hi Ho Hsz Hun) as (o & -> & Hrel). red_bind.
    exists (Some o). split; [reflexivity|exact Hrel].
  - assert (v = VNil).
    { cbn [as_optfield] in Ho. destruct v; try discriminate; [reflexivity|].
      destruct (as_opts_loop _ _); discriminate. }
    subst v. destruct (item_nil _ _ _ Hi) as [-> ->]. red_bind.
    exists None. split; [reflexivity|exact I].
Qed.

Lemma item_intf p s bs v r : item s bs v r -> supported_value v = true ->
  exists g, rd_intf p (fuel_for bs) bs = Ok (g, r) /\ value_of g = v.
Proof. intros (f & H & _) Hs. eapply rd_intf_complete_fuel; eauto. Qed.

Lemma opt_collapse (o : option options) : match o with Some x => Some x | None => None end = o.
Proof. destruct o; reflexivity. Qed.

(* tail of a message after the fixed elements: nothing (arity lo) or the option element *)
Lemma tail_complete p s r3 rest' r oo (lo : N) :
  items s r3 rest' r -> (rest' = [] \/ exists o, rest' = [o]) ->
  as_optfield (hd_error rest') = Some oo -> opts_supported p s oo ->
  exists mo, U_tail p (lo + len rest' =? lo + 1) r3 = Ok (mo, r) /\ optopt_rel mo oo.
Proof.
  intros Hi [->|[o ->]] Ho Hs; cbn [hd_error] in Ho.
  - apply items_nil_inv in Hi. subst r3. change (len (@nil value)) with 0.
    destruct (N.eqb_spec (lo + 0) (lo + 1)); [lia|]. cbn [as_optfield] in Ho. injection Ho as <-.
    exists None. split; [reflexivity|exact I].
  - apply items_cons_inv in Hi as (r4 & Hio & Hi). apply items_nil_inv in Hi. subst r4.
    change (len [o]) with 1. rewrite N.eqb_refl. eapply U_tail_complete; eauto.
Qed.

Lemma as_time_int t z : as_time t = Some (Spec.TInt z) -> t = VInt z.
Proof.
  destruct t; cbn [as_time]; try discriminate.
  - now intros [= ->].
  - destruct ((ty =? 0) && (len data =? 8)); discriminate.
Qed.

Lemma as_time_event t sec nsec : as_time t = Some (TEvent sec nsec) ->
  exists d, t = VExt 0 d /\ len d = 8 /\ sec = unbe (firstn 4 d) /\ nsec = unbe (skipn 4 d).
Proof.
  destruct t; cbn [as_time]; try discriminate.
  destruct (N.eqb_spec ty 0) as [->|]; [|discriminate].
  destruct (N.eqb_spec (len data) 8) as [E|]; [|discriminate].
  cbn [andb]. intros [= <- <-]. eauto.
Qed.

Lemma arity3 rest' : (rest' = [] \/ exists o : value, rest' = [o]) ->
  forall (a b c : value), negb (arity_ok 3 (len (a :: b :: c :: rest'))) = false /\
  (len (a :: b :: c :: rest') =? 4) = (3 + len rest' =? 3 + 1).
Proof. intros [->|[o ->]] a b c; split; reflexivity. Qed.

Lemma arity2 rest' : (rest' = [] \/ exists o : value, rest' = [o]) ->
  forall (a b : value), negb (arity_ok 2 (len (a :: b :: rest'))) = false /\
  (len (a :: b :: rest') =? 3) = (2 + len rest' =? 2 + 1).
Proof. intros [->|[o ->]] a b; split; reflexivity. Qed.

(* ---------- Message ---------- *)

Theorem U_message_complete_gen : forall p s st prev bs tag z rec oo rest,
  spec_parse (shape_message_gen st) bs = Some (SMessage tag (Spec.TInt z) rec oo, rest) ->
  nxb s (pfuel bs) bs = true ->
  int64_ok z = true -> supported_value rec = true -> opts_supported p s oo ->
  exists m, U_message p prev bs = Ok (m, rest) /\
    m_tag m = tag /\ m_ts m = z /\ value_of (m_rec m) = rec /\ optopt_rel (m_opts m) oo.
Proof.
  intros p s st prev bs tag z rec oo rest H Hn Hz Hrec Hopt.
  destruct (spec_parse_item_gen _ _ _ _ _ H Hn) as (v & Hi & Sh).
  apply shape_message_inv in Sh as (tag' & t & t' & rec' & rest' & oo' & -> & Et & Hr & Ho & Hm & _).
  injection Hm as <- <- <- <-. apply as_time_int in Et. subst t.
  destruct (item_arr_inv _ _ _ _ Hi) as (r0 & Eh & Hit).
  apply items_cons_inv in Hit as (r1 & Htag & Hit). apply items_cons_inv in Hit as (r2 & Hts & Hit).
  apply items_cons_inv in Hit as (r3 & Hre & Hit).
  destruct (arity3 _ Hr (VStr tag) (VInt z) rec) as [Ar1 Ar2].
  unfold U_message. rewrite Eh. red_bind. rewrite Ar1, Ar2.
  destruct (item_str _ _ _ _ Htag) as [-> _]. red_bind.
  rewrite (item_int64 _ _ _ _ Hts Hz). red_bind.
  destruct (item_intf p _ _ _ _ Hre Hrec) as (g & -> & Hg). red_bind.
  destruct (tail_complete p s _ _ _ _ 3 Hit Hr Ho Hopt) as (mo & -> & Hrel). red_bind.
  eexists; split; [reflexivity|]. cbn [m_tag m_ts m_rec m_opts]. rewrite opt_collapse. auto.
Qed.

(* A4, Message mode, as asked (any strictness of the shape, both paths) *)
Theorem U_message_complete : forall p prev bs tag z rec oo rest,
  spec_parse (shape_message_gen false) bs = Some (SMessage tag (Spec.TInt z) rec oo, rest) ->
  int64_ok z = true -> supported_value rec = true -> opts_simple p oo ->
  exists m, U_message p prev bs = Ok (m, rest) /\
    m_tag m = tag /\ m_ts m = z /\ value_of (m_rec m) = rec /\ optopt_rel (m_opts m) oo.
Proof.
  intros p prev bs tag z rec oo rest H Hz Hrec Hopt.
  eapply (U_message_complete_gen p false); eauto. now apply opts_simple_supported.
Qed.

(* ---------- MessageExt ---------- *)

(* the instant the library reports for an EventTime timestamp: time.Unix normalisation *)
Definition stime_instant (t : stime) : Z * N :=
  match t with
  | TEvent sec nsec => (Z.of_N (sec + nsec / 1000000000), nsec mod 1000000000)
  | Spec.TInt z => (z, 0)
  end.

Theorem U_message_ext_complete_gen : forall p s st prev bs tag sec nsec rec oo rest,
  spec_parse (shape_message_gen st) bs = Some (SMessage tag (TEvent sec nsec) rec oo, rest) ->
  nxb s (pfuel bs) bs = true ->
  supported_value rec = true -> opts_supported p s oo ->
  exists m, U_message_ext p prev bs = Ok (m, rest) /\
    x_tag m = tag /\ x_ts m = (Z.of_N (sec + nsec / 1000000000), nsec mod 1000000000) /\
    value_of (x_rec m) = rec /\ optopt_rel (x_opts m) oo.
Proof.
  intros p s st prev bs tag sec nsec rec oo rest H Hn Hrec Hopt.
  destruct (spec_parse_item_gen _ _ _ _ _ H Hn) as (v & Hi & Sh).
  apply shape_message_inv in Sh as (tag' & t & t' & rec' & rest' & oo' & -> & Et & Hr & Ho & Hm & _).
  injection Hm as <- <- <- <-. apply as_time_event in Et as (d & -> & Hd & -> & ->).
  destruct (item_arr_inv _ _ _ _ Hi) as (r0 & Eh & Hit).
  apply items_cons_inv in Hit as (r1 & Htag & Hit). apply items_cons_inv in Hit as (r2 & Hts & Hit).
  apply items_cons_inv in Hit as (r3 & Hre & Hit).
  destruct (arity3 _ Hr (VStr tag) (VExt 0 d) rec) as [Ar1 Ar2].
  unfold U_message_ext. rewrite Eh. red_bind. rewrite Ar1, Ar2.
  destruct (item_str _ _ _ _ Htag) as [-> _]. red_bind.
  rewrite (item_eventtime _ _ _ _ Hts Hd). red_bind.
  destruct (item_intf p _ _ _ _ Hre Hrec) as (g & -> & Hg). red_bind.
  destruct (tail_complete p s _ _ _ _ 3 Hit Hr Ho Hopt) as (mo & -> & Hrel). red_bind.
  eexists; split; [reflexivity|]. cbn [x_tag x_ts x_rec x_opts]. rewrite opt_collapse. auto.
Qed.

Theorem U_message_ext_complete : forall p prev bs tag sec nsec rec oo rest,
  spec_parse (shape_message_gen false) bs = Some (SMessage tag (TEvent sec nsec) rec oo, rest) ->
  supported_value rec = true -> opts_simple p oo ->
  exists m, U_message_ext p prev bs = Ok (m, rest) /\
    x_tag m = tag /\ x_ts m = (Z.of_N (sec + nsec / 1000000000), nsec mod 1000000000) /\
    value_of (x_rec m) = rec /\ optopt_rel (x_opts m) oo.
Proof.
  intros p prev bs tag sec nsec rec oo rest H Hrec Hopt.
  eapply (U_message_ext_complete_gen p false); eauto. now apply opts_simple_supported.
Qed.

(* ---------- Forward ---------- *)

Definition entry_rel (e : entry) (tv : stime * value) : Prop :=
  e_ts e = stime_instant (fst tv) /\ value_of (e_rec e) = snd tv.

Lemma U_entries_loop_S p f cnt bs acc : U_entries_loop p (S f) cnt bs acc =
  if cnt =? 0 then Ok (rev acc, bs)
  else '(e, r) <- U_entry p bs ;; U_entries_loop p f (cnt - 1) r (e :: acc).
Proof. rewrite ?rev_alt. reflexivity. Qed.

Lemma as_eventtime_inv t t' : as_eventtime t = Some t' ->
  exists sec nsec, t' = TEvent sec nsec /\ as_time t = Some (TEvent sec nsec).
Proof.
  unfold as_eventtime. destruct (as_time t) as [[z|sec nsec]|]; try discriminate.
  intros [= <-]. eauto.
Qed.

Lemma U_entry_complete p s bs t rec r t' : item s bs (VArr [t; rec]) r ->
  as_eventtime t = Some t' -> supported_value rec = true ->
  exists e, U_entry p bs = Ok (e, r) /\ entry_rel e (t', rec).
Proof.
  intros Hi Et Hrec. apply as_eventtime_inv in Et as (sec & nsec & -> & Et).
  apply as_time_event in Et as (d & -> & Hd & -> & ->).
  destruct (item_arr_inv _ _ _ _ Hi) as (r0 & Eh & Hit).
  apply items_cons_inv in Hit as (r1 & Hts & Hit). apply items_cons_inv in Hit as (r2 & Hre & Hit).
  apply items_nil_inv in Hit. subst r2.
  unfold U_entry. rewrite Eh. red_bind. change (negb (len [VExt 0 d; rec] =? 2)) with false. cbv iota.
  rewrite (item_eventtime _ _ _ _ Hts Hd). red_bind.
  destruct (item_intf p _ _ _ _ Hre Hrec) as (g & -> & Hg). red_bind.
  eexists; split; [reflexivity|]. split; [reflexivity|exact Hg].
Qed.

Lemma U_entries_loop_complete p s st bs es r : items s bs es r ->
  forall es', as_entries st es = Some es' ->
  Forall (fun tv => supported_value (snd tv) = true) es' ->
  forall acc F, (List.length es < F)%nat ->
  exists l, U_entries_loop p F (len es) bs acc = Ok (rev acc ++ l, r) /\ Forall2 entry_rel l es'.
Proof.
  induction 1 as [bs|bs v r1 es r' Hv _ IH]; intros es' He Hs acc F HF;
    (destruct F as [|F]; [lia|]); rewrite U_entries_loop_S.
  - cbn [as_entries] in He. injection He as <-. exists []. rewrite app_nil_r. split; [reflexivity|constructor].
  - cbn [List.length] in HF. rewrite len_cons'.
    destruct (N.eqb_spec (len es + 1) 0); [lia|].
    replace (len es + 1 - 1) with (len es) by lia.
    cbn [as_entries] in He.
    destruct v as [| | | | | | |[|t [|rec [|? ?]]]| |]; try discriminate.
    destruct (as_eventtime t) as [t'|] eqn:Et; [|discriminate].
    destruct (as_entries st es) as [es0|] eqn:Ee; [|discriminate].
    destruct (is_map rec || negb st); [|discriminate]. injection He as <-.
    inversion Hs as [|? ? Hs1 Hs2]; subst. cbn [snd] in Hs1.
    destruct (U_entry_complete p _ _ _ _ _ _ Hv Et Hs1) as (e & -> & Hrel). red_bind.
    destruct (IH es0 eq_refl Hs2 (e :: acc) F ltac:(lia)) as (l & -> & Hl).
    exists (e :: l). cbn [rev]. rewrite <- app_assoc. split; [reflexivity|]. constructor; assumption.
Qed.

Theorem U_forward_complete_gen : forall p s st prev bs tag es oo rest,
  spec_parse (shape_forward_gen st) bs = Some (SForward tag es oo, rest) ->
  nxb s (pfuel bs) bs = true ->
  Forall (fun tv => supported_value (snd tv) = true) es -> opts_supported p s oo ->
  exists m, U_forward p prev bs = Ok (m, rest) /\
    f_tag m = tag /\ Forall2 entry_rel (f_entries m) es /\ optopt_rel (f_opts m) oo.
Proof.
  intros p s st prev bs tag es oo rest H Hn Hes Hopt.
  destruct (spec_parse_item_gen _ _ _ _ _ H Hn) as (v & Hi & Sh).
  apply shape_forward_inv in Sh as (tag' & ves & es' & rest' & oo' & -> & Ee & Hr & Ho & Hm).
  injection Hm as <- <- <-.
  destruct (item_arr_inv _ _ _ _ Hi) as (r0 & Eh & Hit).
  apply items_cons_inv in Hit as (r1 & Htag & Hit). apply items_cons_inv in Hit as (r2 & Hen & Hit).
  destruct (arity2 _ Hr (VStr tag) (VArr ves)) as [Ar1 Ar2].
  unfold U_forward. rewrite Eh. red_bind. rewrite Ar1, Ar2.
  destruct (item_str _ _ _ _ Htag) as [-> _]. red_bind.
  destruct (item_arr_inv _ _ _ _ Hen) as (ra & Eha & Hies).
  pose proof (items_length _ _ _ _ Hies) as L.
  destruct (U_entries_loop_complete p s st _ _ _ Hies _ Ee Hes [] (fuel_for ra)) as (l & El & Hl).
  { unfold fuel_for. lia. }
  unfold U_entry_list. rewrite Eha. red_bind. rewrite El. red_bind.
  destruct (tail_complete p s _ _ _ _ 2 Hit Hr Ho Hopt) as (mo & -> & Hrel). red_bind.
  eexists; split; [reflexivity|]. cbn [f_tag f_entries f_opts rev app]. rewrite opt_collapse. auto.
Qed.

Theorem U_forward_complete : forall p prev bs tag es oo rest,
  spec_parse (shape_forward_gen false) bs = Some (SForward tag es oo, rest) ->
  Forall (fun tv => supported_value (snd tv) = true) es -> opts_simple p oo ->
  exists m, U_forward p prev bs = Ok (m, rest) /\
    f_tag m = tag /\ Forall2 entry_rel (f_entries m) es /\ optopt_rel (f_opts m) oo.
Proof.
  intros p prev bs tag es oo rest H Hes Hopt.
  eapply (U_forward_complete_gen p false); eauto. now apply opts_simple_supported.
Qed.

(* ---------- Packed ---------- *)

Theorem U_packed_complete_gen : forall p s prev bs tag st oo rest,
  spec_parse shape_packed bs = Some (SPacked tag st oo, rest) ->
  nxb s (pfuel bs) bs = true -> opts_supported p s oo ->
  exists m, U_packed p prev bs = Ok (m, rest) /\
    p_tag m = tag /\ p_stream m = st /\ optopt_rel (p_opts m) oo.
Proof.
  intros p s prev bs tag st oo rest H Hn Hopt.
  destruct (spec_parse_item_gen _ _ _ _ _ H Hn) as (v & Hi & Sh).
  apply shape_packed_inv in Sh as (tag' & st' & rest' & oo' & -> & Hr & Ho & Hm).
  injection Hm as <- <- <-.
  destruct (item_arr_inv _ _ _ _ Hi) as (r0 & Eh & Hit).
  apply items_cons_inv in Hit as (r1 & Htag & Hit). apply items_cons_inv in Hit as (r2 & Hst & Hit).
  destruct (arity2 _ Hr (VStr tag) (VBin st)) as [Ar1 Ar2].
  unfold U_packed. rewrite Eh. red_bind. rewrite Ar1, Ar2.
  destruct (item_str _ _ _ _ Htag) as [-> _]. red_bind.
  rewrite (item_bin _ _ _ _ Hst). red_bind.
  destruct (tail_complete p s _ _ _ _ 2 Hit Hr Ho Hopt) as (mo & -> & Hrel). red_bind.
  eexists; split; [reflexivity|]. cbn [p_tag p_stream p_opts]. rewrite opt_collapse. auto.
Qed.

Theorem U_packed_complete : forall p prev bs tag st oo rest,
  spec_parse shape_packed bs = Some (SPacked tag st oo, rest) -> opts_simple p oo ->
  exists m, U_packed p prev bs = Ok (m, rest) /\
    p_tag m = tag /\ p_stream m = st /\ optopt_rel (p_opts m) oo.
Proof.
  intros p prev bs tag st oo rest H Hopt.
  eapply (U_packed_complete_gen p false); eauto. now apply opts_simple_supported.
Qed.

Print Assumptions U_message_complete_gen.
Print Assumptions U_message_complete.
Print Assumptions U_message_ext_complete_gen.
Print Assumptions U_message_ext_complete.
Print Assumptions U_forward_complete_gen.
Print Assumptions U_forward_complete.
Print Assumptions U_packed_complete_gen.
Print Assumptions U_packed_complete.

(* ================================================================== *)
(* A2 restated on [parse] directly                                     *)
(* ================================================================== *)

Lemma parse_item f bs v r : parse f bs = Some (v, r) -> item false bs v r.
Proof. intros H. exists f. split; [exact H|reflexivity]. Qed.

Theorem rd_str_complete : forall f bs s r, parse f bs = Some (VStr s, r) -> rd_str bs = Ok (s, r).
Proof. intros f bs s r H. exact (proj1 (item_str _ _ _ _ (parse_item _ _ _ _ H))). Qed.

Theorem rd_map_key_complete : forall f bs s r, parse f bs = Some (VStr s, r) -> rd_map_key bs = Ok (s, r).
Proof. intros f bs s r H. exact (proj2 (item_str _ _ _ _ (parse_item _ _ _ _ H))). Qed.

Theorem rd_bin_complete : forall f bs s r, parse f bs = Some (VBin s, r) -> rd_bin bs = Ok (s, r).
Proof. intros f bs s r H. exact (item_bin _ _ _ _ (parse_item _ _ _ _ H)). Qed.

(* every integer encoding, signed or unsigned family, any width *)
Theorem rd_int64_complete : forall f bs z r, parse f bs = Some (VInt z, r) ->
  (-9223372036854775808 <= z < 9223372036854775808)%Z -> rd_int64 bs = Ok (z, r).
Proof.
  intros f bs z r H Hz. apply (item_int64 _ _ _ _ (parse_item _ _ _ _ H)). unfold int64_ok. lia.
Qed.

(* fixext8 (d7 00), ext8 (c7 08 00), ext16 (c8 00 08 00), ext32 (c9 00 00 00 08 00) *)
Theorem rd_eventtime_complete : forall f bs d r, parse f bs = Some (VExt 0 d, r) -> len d = 8 ->
  rd_eventtime bs =
  Ok (Z.of_N (unbe (firstn 4 d) + unbe (skipn 4 d) / 1000000000), unbe (skipn 4 d) mod 1000000000, r).
Proof. intros f bs d r H Hd. exact (item_eventtime _ _ _ _ (parse_item _ _ _ _ H) Hd). Qed.

(* fixarray, array16, array32: the header announces the length, the elements follow *)
Theorem parse_arr_hdr_inv : forall f bs l r, parse f bs = Some (VArr l, r) ->
  exists r0, rd_arr_hdr bs = Ok (len l, r0) /\ items false r0 l r.
Proof. intros f bs l r H. exact (item_arr_inv _ _ _ _ (parse_item _ _ _ _ H)). Qed.

Theorem parse_map_hdr_inv : forall f bs l r, parse f bs = Some (VMap l, r) ->
  exists r0, rd_map_hdr bs = Ok (len l, r0) /\ pairs false r0 l r.
Proof. intros f bs l r H. exact (item_map_inv _ _ _ _ (parse_item _ _ _ _ H)). Qed.

(* [items false] is just "the elements parse one after another" *)
Lemma items_false_spec bs l r : items false bs l r <->
  (match l with
   | [] => bs = r
   | v :: l' => exists f r1, parse f bs = Some (v, r1) /\ items false r1 l' r
   end).
Proof.
  split.
  - inversion 1 as [|? ? ? ? ? (f & Hp & _) Hi]; subst; eauto.
  - destruct l as [|v l'].
    + intros ->. constructor.
    + intros (f & r1 & Hp & Hi). econstructor; [eapply parse_item; eauto|exact Hi].
Qed.

Print Assumptions rd_int64_complete.
Print Assumptions rd_eventtime_complete.
Print Assumptions parse_arr_hdr_inv.

(* ================================================================== *)
(* Non-vacuity: messages in unusual but legal encodings                *)
(* ================================================================== *)

(* array16 header, str8 tag, uint32 timestamp, map16 record with a str16 key and an int64
   value, option map32 with the keys in the order compressed, chunk (str8), size (uint16) *)
Definition odd_message : bytes :=
  hx "dc0004" ++ hx "d90174" ++ hx "ce00000005" ++
  hx "de0001da000161d3ffffffffffffffff" ++
  hx "df00000003" ++ hx "aa636f6d70726573736564a4677a6970" ++ hx "a56368756e6bd90163" ++ hx "a473697a65cd0007".

Example odd_message_spec :
  spec_parse (shape_message_gen false) odd_message =
  Some (SMessage (str "t") (Spec.TInt 5) (VMap [(VStr (str "a"), VInt (-1))])
          (Some {| so_size := Some 7%Z; so_chunk := Some (str "c"); so_comp := Some (str "gzip"); so_other := [] |}), []).
Proof. vm_compute. reflexivity. Qed.

Example odd_message_decoded :
  forall p, U_message p zero_message odd_message =
  Ok ({| m_tag := str "t"; m_ts := 5; m_rec := GMap [(str "a", GInt (-1))];
         m_opts := Some {| o_size := Some 7%Z; o_chunk := str "c"; o_comp := str "gzip" |} |}, []).
Proof. intros []; vm_compute; reflexivity. Qed.

(* the theorem applies to it *)
Example odd_message_by_theorem : forall p, exists m, U_message p zero_message odd_message = Ok (m, []) /\
  m_tag m = str "t" /\ m_ts m = 5%Z /\ value_of (m_rec m) = VMap [(VStr (str "a"), VInt (-1))].
Proof.
  intros p.
  destruct (U_message_complete p zero_message _ _ _ _ _ _ odd_message_spec) as (m & A & B & C & D & _).
  - reflexivity.
  - reflexivity.
  - split; [intros z [= <-]; reflexivity|reflexivity].
  - exists m. auto.
Qed.

(* MessageExt with an ext8-encoded EventTime whose nanosecond field exceeds 10^9, no options *)
Example odd_message_ext :
  let bs := hx "93a174c70800000000053b9aca0180" in
  spec_parse (shape_message_gen false) bs =
    Some (SMessage (str "t") (TEvent 5 1000000001) (VMap []) None, []) /\
  forall p, U_message_ext p zero_message_ext bs =
    Ok ({| x_tag := str "t"; x_ts := (6%Z, 1); x_rec := GMap []; x_opts := None |}, []).
Proof. split; [vm_compute; reflexivity|intros []; vm_compute; reflexivity]. Qed.

(* Forward with an array16 of entries, one entry with fixext8 and one with ext16 time *)
Example odd_forward :
  let bs := hx "92a174dc0002" ++ hx "92d700000000050000000180" ++ hx "92c8000800000000060000000290" in
  spec_parse (shape_forward_gen false) bs =
    Some (SForward (str "t") [(TEvent 5 1, VMap []); (TEvent 6 2, VArr [])] None, []) /\
  forall p, U_forward p zero_forward bs =
    Ok ({| f_tag := str "t";
           f_entries := [ {| e_ts := (5%Z, 1); e_rec := GMap [] |}; {| e_ts := (6%Z, 2); e_rec := GArr [] |} ];
           f_opts := None |}, []).
Proof. split; [vm_compute; reflexivity|intros []; vm_compute; reflexivity]. Qed.
