From FF Require Import model.Bytes.
From Coq Require Import Lia.
Open Scope N_scope.

Lemma b2n_lt b : b2n b < 256.
Proof. unfold b2n. pose proof (Byte.to_N_bounded b). lia. Qed.

Lemma n2b_b2n b : n2b (b2n b) = b.
Proof. unfold n2b, b2n. now rewrite Byte.of_to_N. Qed.

Lemma b2n_n2b n : b2n (n2b n) = n mod 256.
Proof.
  unfold n2b, b2n. destruct (Byte.of_N n) eqn:E0.
  - apply Byte.to_of_N in E0. pose proof (Byte.to_N_bounded b). rewrite N.mod_small; lia.
  - assert (H : n mod 256 < 256) by (apply N.mod_lt; lia).
    destruct (Byte.of_N (n mod 256)) eqn:E.
    + now apply Byte.to_of_N in E.
    + apply Byte.of_N_None_iff in E. lia.
Qed.

Lemma b2n_n2b_small n : n < 256 -> b2n (n2b n) = n.
Proof. intros. rewrite b2n_n2b. apply N.mod_small; auto. Qed.

Lemma b2n_inj a b : b2n a = b2n b -> a = b.
Proof. intros H. rewrite <- (n2b_b2n a), <- (n2b_b2n b). now rewrite H. Qed.

Lemma be_S k n : be (S k) n = be k (n / 256) ++ [n2b n].
Proof. reflexivity. Qed.
Lemma be_0 n : be 0 n = [].
Proof. reflexivity. Qed.

Lemma be_length k n : length (be k n) = k.
Proof.
  revert n; induction k; intros; rewrite ?be_S, ?be_0; auto.
  rewrite app_length, IHk. simpl; lia.
Qed.

Lemma unbe_acc_app a x y : unbe_acc a (x ++ y) = unbe_acc (unbe_acc a x) y.
Proof. revert a; induction x; intros; simpl; auto. Qed.

Lemma unbe_acc_be k : forall n a,
  unbe_acc a (be k n) = a * 256 ^ (N.of_nat k) + n mod 256 ^ (N.of_nat k).
Proof.
  induction k; intros n a.
  - rewrite be_0. cbn [unbe_acc N.of_nat]. rewrite N.pow_0_r, N.mod_1_r. lia.
  - rewrite be_S. rewrite unbe_acc_app, IHk. cbn [unbe_acc]. rewrite b2n_n2b.
    rewrite Nnat.Nat2N.inj_succ, N.pow_succ_r'.
    set (P := 256 ^ N.of_nat k) in *.
    assert (P <> 0) by (unfold P; apply N.pow_nonzero; lia).
    rewrite (N.mod_mul_r n 256 P) by lia.
    lia.
Qed.

Lemma unbe_be k n : n < 256 ^ (N.of_nat k) -> unbe (be k n) = n.
Proof. intros. unfold unbe. rewrite unbe_acc_be, N.mod_small; lia. Qed.

Lemma unbe_acc_bound bs : forall a,
  unbe_acc a bs < (a + 1) * 256 ^ (N.of_nat (length bs)).
Proof.
  induction bs as [|b r IH]; intros a.
  - cbn. lia.
  - cbn [unbe_acc length]. specialize (IH (a * 256 + b2n b)).
    rewrite Nnat.Nat2N.inj_succ, N.pow_succ_r'. pose proof (b2n_lt b).
    set (P := 256 ^ N.of_nat (length r)) in *. nia.
Qed.

Lemma unbe_bound bs : unbe bs < 256 ^ (N.of_nat (length bs)).
Proof. unfold unbe. pose proof (unbe_acc_bound bs 0). lia. Qed.

Lemma n2b_mod n : n2b (n mod 256) = n2b n.
Proof. apply b2n_inj. rewrite !b2n_n2b. now rewrite N.mod_mod by lia. Qed.

Lemma be_unbe_acc bs : forall a,
  be (length bs) (unbe_acc a bs) = bs.
Proof.
  induction bs as [|b r IH] using rev_ind; intros a.
  - reflexivity.
  - rewrite app_length, Nat.add_comm. cbn [length Nat.add]. rewrite be_S.
    rewrite unbe_acc_app. cbn [unbe_acc]. pose proof (b2n_lt b).
    rewrite N.div_add_l by lia. rewrite (N.div_small (b2n b)) by lia. rewrite N.add_0_r.
    rewrite IH. f_equal. f_equal.
    rewrite <- n2b_mod. rewrite N.add_comm, N.mod_add by lia.
    rewrite N.mod_small by lia. apply n2b_b2n.
Qed.

Lemma be_unbe bs : be (length bs) (unbe bs) = bs.
Proof. apply be_unbe_acc. Qed.

Lemma byte_eqb_eq a b : byte_eqb a b = true <-> a = b.
Proof.
  unfold byte_eqb. rewrite N.eqb_eq. split; [apply b2n_inj | now intros ->].
Qed.
Lemma byte_eqb_refl a : byte_eqb a a = true.
Proof. now apply byte_eqb_eq. Qed.

Lemma bytes_eqb_refl a : bytes_eqb a a = true.
Proof. induction a; simpl; auto. rewrite byte_eqb_refl. auto. Qed.

Lemma bytes_eqb_eq a b : bytes_eqb a b = true <-> a = b.
Proof.
  split.
  - revert b; induction a as [|x a IH]; destruct b as [|y b]; simpl; try discriminate; auto.
    intros H. apply andb_prop in H as [H1 H2]. apply byte_eqb_eq in H1. subst. f_equal; auto.
  - intros ->. apply bytes_eqb_refl.
Qed.

Lemma bytes_eqb_neq a b : bytes_eqb a b = false <-> a <> b.
Proof.
  split.
  - intros H E. apply bytes_eqb_eq in E. congruence.
  - intros H. destruct (bytes_eqb a b) eqn:E; auto. apply bytes_eqb_eq in E. contradiction.
Qed.
