(* Every strict prefix of a valid encoding is rejected: a decoder that succeeds consumes
   exactly one complete value (Refine_Proofs), and a complete value has no complete value
   as a strict prefix (Spec_Proofs.parse_strict_prefix_none). *)
From FF Require Import model.Bytes model.Msgp model.Forward model.Handshake model.Spec model.Wf
  proofs.Msgp_Total proofs.Total_Proofs proofs.Refine_Proofs proofs.Roundtrip_Proofs.
From FF Require proofs.Spec_Proofs.
Open Scope N_scope.

Lemma prefix_rejected_gen {A} (dec : bytes -> res (A * bytes)) :
  (forall bs a r, dec bs = Ok (a, r) -> one_value bs r) ->
  (forall bs, dec bs <> Panic) ->
  forall e a0, dec e = Ok (a0, []) ->
  forall x y, e = x ++ y -> y <> [] -> exists er, dec x = Err er.
Proof.
  intros Href Hnp e a0 He x y Hxy Hy.
  destruct (dec x) as [[a r]|er|] eqn:Ex.
  - exfalso. apply Href in Ex. destruct Ex as (f & v & Hp).
    apply Href in He. destruct He as (f2 & v2 & Hp2). subst e.
    pose proof (Spec_Proofs.parse_strict_prefix_none f2 x y v2 Hp2 Hy f) as Hn.
    rewrite Hn in Hp. discriminate.
  - eauto.
  - exfalso. now apply (Hnp x).
Qed.

Theorem prefix_rejected_message : forall p prev m e x y, wf_message m = true -> M_message m = Ok e ->
  e = x ++ y -> y <> [] -> exists er, U_message p prev x = Err er.
Proof.
  intros p prev m e x y Hwf Hm. apply (prefix_rejected_gen (U_message p prev)) with (a0 := norm_message m).
  - intros; eapply U_message_refines; eauto.
  - apply U_message_no_panic.
  - pose proof (rt_message p prev m e [] Hwf Hm) as R. now rewrite app_nil_r in R.
Qed.

Theorem prefix_rejected_message_ext : forall p prev m e x y, wf_message_ext m = true -> M_message_ext m = Ok e ->
  e = x ++ y -> y <> [] -> exists er, U_message_ext p prev x = Err er.
Proof.
  intros p prev m e x y Hwf Hm. apply (prefix_rejected_gen (U_message_ext p prev)) with (a0 := norm_message_ext m).
  - intros; eapply U_message_ext_refines; eauto.
  - apply U_message_ext_no_panic.
  - pose proof (rt_message_ext p prev m e [] Hwf Hm) as R. now rewrite app_nil_r in R.
Qed.

Theorem prefix_rejected_forward : forall p prev m e x y, wf_forward m = true -> M_forward m = Ok e ->
  e = x ++ y -> y <> [] -> exists er, U_forward p prev x = Err er.
Proof.
  intros p prev m e x y Hwf Hm. apply (prefix_rejected_gen (U_forward p prev)) with (a0 := norm_forward m).
  - intros; eapply U_forward_refines; eauto.
  - apply U_forward_no_panic.
  - pose proof (rt_forward p prev m e [] Hwf Hm) as R. now rewrite app_nil_r in R.
Qed.

Theorem prefix_rejected_packed : forall p prev m x y, wf_packed m = true ->
  M_packed m = x ++ y -> y <> [] -> exists er, U_packed p prev x = Err er.
Proof.
  intros p prev m x y Hwf. apply (prefix_rejected_gen (U_packed p prev)) with (a0 := m).
  - intros; eapply U_packed_refines; eauto.
  - apply U_packed_no_panic.
  - pose proof (rt_packed p prev m [] Hwf) as R. now rewrite app_nil_r in R.
Qed.

Theorem prefix_rejected_entry : forall p en e x y, wf_entry en = true -> M_entry en = Ok e ->
  e = x ++ y -> y <> [] -> exists er, U_entry p x = Err er.
Proof.
  intros p en e x y Hwf Hm. apply (prefix_rejected_gen (U_entry p)) with (a0 := norm_entry en).
  - intros; eapply U_entry_refines; eauto.
  - apply U_entry_no_panic.
  - pose proof (rt_entry p en e [] Hwf Hm) as R. now rewrite app_nil_r in R.
Qed.

Theorem prefix_rejected_ack : forall p a x y, len a < two32 ->
  M_ack a = x ++ y -> y <> [] -> exists er, U_ack p x = Err er.
Proof.
  intros p a x y Hl. apply (prefix_rejected_gen (U_ack p)) with (a0 := a).
  - intros; eapply U_ack_refines; eauto.
  - apply U_ack_no_panic.
  - pose proof (rt_ack p a [] Hl) as R. now rewrite app_nil_r in R.
Qed.

Theorem prefix_rejected_helo : forall p h x y, wf_helo h ->
  M_helo h = x ++ y -> y <> [] -> exists er, U_helo p x = Err er.
Proof.
  intros p h x y Hw. apply (prefix_rejected_gen (U_helo p)) with (a0 := h).
  - intros; eapply U_helo_refines; eauto.
  - apply U_helo_no_panic.
  - pose proof (rt_helo p h [] Hw) as R. now rewrite app_nil_r in R.
Qed.

Theorem prefix_rejected_pong : forall p g x y, wf_pong g ->
  M_pong g = x ++ y -> y <> [] -> exists er, U_pong p x = Err er.
Proof.
  intros p g x y Hw. apply (prefix_rejected_gen (U_pong p)) with (a0 := g).
  - intros; eapply U_pong_refines; eauto.
  - apply U_pong_no_panic.
  - pose proof (rt_pong p g [] Hw) as R. now rewrite app_nil_r in R.
Qed.

Theorem prefix_rejected_ping : forall p g x y, wf_ping g ->
  M_ping g = x ++ y -> y <> [] -> exists er, U_ping p x = Err er.
Proof.
  intros p g x y Hw. apply (prefix_rejected_gen (U_ping p)) with (a0 := g).
  - intros; eapply U_ping_refines; eauto.
  - apply U_ping_no_panic.
  - pose proof (rt_ping p g [] Hw) as R. now rewrite app_nil_r in R.
Qed.

Print Assumptions prefix_rejected_message.
