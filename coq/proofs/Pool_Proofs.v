(* The recycled buffers of fluent/protocol (model/Pool.v).
   C03: what a constructor returns is a function of its arguments only, whatever the pools
        hold and whichever object Get hands out (value theorems, any well-formed state).
   C07: no hidden sharing: for EVERY interleaving of the micro-steps of any number of
        goroutines, a slice that was returned keeps the content it had when it was returned
        and a slice supplied by a caller is never written (frame theorems).
        With sync.Pool's guarantee that an object is handed to one goroutine at a time, the
        value theorems of C03 hold for every interleaving as well (conc_value).
   The pinned code (result = the pooled cell itself) and a mutant without Reset are refuted
   by concrete runs. *)
From Coq Require Import String.   (* before List: [length] must stay List.length *)
From FF Require Import model.Bytes model.Show model.Msgp model.Forward model.Wf model.Pool model.PoolPinned.
From FF Require Import proofs.Roundtrip_Proofs.
From Coq Require Import List Arith Lia Bool.
Import ListNotations.
Open Scope nat_scope.

(* ---------- heap ---------- *)

Lemma length_hset h l v : length (hset h l v) = length h.
Proof. revert l; induction h; intros [|l]; simpl; auto. Qed.

Lemma hget_hset_same h l v : l < length h -> hget (hset h l v) l = v.
Proof.
  unfold hget. revert l; induction h; intros [|l]; simpl; intros H; try lia; auto.
  apply IHh. lia.
Qed.

Lemma hget_hset_other h l l' v : l <> l' -> hget (hset h l v) l' = hget h l'.
Proof.
  unfold hget. revert l l'; induction h; intros [|l] [|l']; simpl; intros H; auto; try congruence.
Qed.

Lemma hget_alloc_old h v l : l < length h -> hget (h ++ [v]) l = hget h l.
Proof. intros H. unfold hget. now apply app_nth1. Qed.

Lemma hget_alloc_new h v : hget (h ++ [v]) (length h) = v.
Proof. unfold hget. rewrite app_nth2 by lia. now rewrite Nat.sub_diag. Qed.

Lemma length_alloc h (v : bytes) : length (h ++ [v]) = S (length h).
Proof. rewrite app_length. simpl. lia. Qed.

(* ---------- sync.Pool ---------- *)

Lemma remove_nth_incl {A} k (l : list A) : incl (remove_nth k l) l.
Proof.
  revert k; induction l; intros [|k]; simpl; try apply incl_refl.
  - apply incl_tl, incl_refl.
  - intros x [E|H]; [now left | right; now apply (IHl k)].
Qed.

(* Get hands out a pooled object (the heap is untouched) or a new empty one *)
Lemma pool_get_spec h pool ch h' pool' c : pool_get h pool ch = (h', pool', c) ->
  (h' = h /\ In c pool /\ incl pool' pool) \/ (h' = h ++ [[]] /\ c = length h /\ pool' = pool).
Proof.
  unfold pool_get, halloc. destruct ch as [k|].
  - destruct (nth_error pool k) eqn:E; intros H; inversion H; subst.
    + left. split; auto. split. { eapply nth_error_In; eauto. } apply remove_nth_incl.
    + right; auto.
  - intros H; inversion H; subst. right; auto.
Qed.

Definition wf_state (s : state) : Prop :=
  forall x, In x (st_bufpool s ++ st_gzpool s) -> x < length (st_heap s).

Lemma wf_empty : wf_state empty_state.
Proof. intros x []. Qed.
Lemma wf_init h : wf_state (init_state h).
Proof. intros x []. Qed.

(* Reset then Write: the cell holds exactly what was written *)
Lemma length_do_write h c b : length (do_write h c b) = length h.
Proof. unfold do_write. apply length_hset. Qed.
Lemma hget_reset_write h c b : c < length h -> hget (do_write (hset h c []) c b) c = b.
Proof.
  intros H. unfold do_write. rewrite hget_hset_same by now rewrite length_hset.
  now rewrite hget_hset_same.
Qed.
Lemma hget_reset_write_other h c b x : c <> x -> hget (do_write (hset h c []) c b) x = hget h x.
Proof. intros H. unfold do_write. now rewrite !hget_hset_other. Qed.

(* ---------- C03: the value at return time ---------- *)
Section Value.
  Variable gz : bytes -> bytes.

  Ltac stepc := cbn [run_local_gen pstep_gen l_pc l_call is_get goto st_heap st_bufpool st_gzpool with_heap
                      copy_out repaired v_copy v_reset do_reset halloc result start].

  (* the four micro-steps of MarshalPacked, from any state and with any choice of Get *)
  Lemma marshal_phase s cl chs f e :
    wf_state s -> marshal_packed (call_es cl) = Ok e ->
    exists s' r,
      run_local gz (4 + f) s {| l_call := cl; l_pc := M_get |} chs
        = run_local gz f s' {| l_call := cl; l_pc := after_marshal cl r |} (tl chs)
      /\ wf_state s' /\ length (st_heap s) <= r < length (st_heap s')
      /\ hget (st_heap s') r = e
      /\ st_gzpool s' = st_gzpool s
      /\ (forall x, x < length (st_heap s) -> ~ In x (st_bufpool s) -> hget (st_heap s') x = hget (st_heap s) x).
  Proof.
    intros W E. unfold run_local. change (4 + f) with (S (S (S (S f)))). stepc.
    destruct (pool_get (st_heap s) (st_bufpool s) (hd None chs)) as [[h1 p1] c] eqn:G.
    stepc. rewrite E. stepc.
    eexists. eexists. split; [reflexivity|]. cbn [st_heap st_bufpool st_gzpool].
    rewrite length_alloc, length_do_write, length_hset.
    assert (Hc : c < length h1 /\ length (st_heap s) <= length h1 /\
                 (forall x, In x p1 -> In x (st_bufpool s)) /\
                 (forall x, x < length (st_heap s) -> hget h1 x = hget (st_heap s) x) /\
                 (c < length (st_heap s) -> In c (st_bufpool s))).
    { apply pool_get_spec in G as [(-> & Hin & Hincl)|(-> & -> & ->)].
      - repeat split; auto. apply W, in_or_app; auto.
      - rewrite length_alloc. repeat split; auto; try lia. intros x Hx. now apply hget_alloc_old. }
    destruct Hc as (Hc & Hlen & Hp & Hold & Hcp).
    repeat split; try lia.
    - unfold wf_state; cbn [st_heap st_bufpool st_gzpool pool_put]. intros x Hx.
      rewrite length_alloc, length_do_write, length_hset.
      apply in_app_or in Hx as [[<-|Hx]|Hx]; try lia.
      + apply Hp in Hx. specialize (W x (in_or_app _ _ _ (or_introl Hx))). lia.
      + specialize (W x (in_or_app _ _ _ (or_intror Hx))). lia.
    - replace (length h1) with (length (do_write (hset h1 c []) c e)) at 1
        by now rewrite length_do_write, length_hset.
      rewrite hget_alloc_new. now apply hget_reset_write.
    - intros x Hx Hnp. rewrite hget_alloc_old by (rewrite length_do_write, length_hset; lia).
      rewrite hget_reset_write_other; auto. intros ->. auto.
  Qed.

  (* the encoding fails: the error is returned (and the buffer goes back to the pool) *)
  Lemma marshal_phase_err s cl chs f :
    wf_state s -> is_ok (marshal_packed (call_es cl)) = false ->
    exists s', run_local gz (2 + f) s {| l_call := cl; l_pc := M_get |} chs
               = run_local gz f s' {| l_call := cl; l_pc := Done Ret_err |} (tl chs) /\ wf_state s'.
  Proof.
    intros W E. unfold run_local. change (2 + f) with (S (S f)). stepc.
    destruct (pool_get (st_heap s) (st_bufpool s) (hd None chs)) as [[h1 p1] c] eqn:G.
    stepc. destruct (marshal_packed (call_es cl)) eqn:E'; [discriminate| |];
    (eexists; split; [reflexivity|]);
    (intros x Hx; cbn [st_heap st_bufpool st_gzpool pool_put] in *; rewrite length_hset;
     apply pool_get_spec in G as [(-> & Hin & Hincl)|(-> & -> & ->)];
     [ apply in_app_or in Hx as [[<-|Hx]|Hx];
       [ apply W, in_or_app; auto | apply Hincl in Hx; apply W, in_or_app; auto | apply W, in_or_app; auto ]
     | rewrite length_alloc; apply in_app_or in Hx as [[<-|Hx]|Hx]; try lia;
       [ specialize (W x (in_or_app _ _ _ (or_introl Hx))); lia
       | specialize (W x (in_or_app _ _ _ (or_intror Hx))); lia ] ]).
  Qed.

  (* the four micro-steps of NewCompressedPackedForwardMessageFromBytes: the result is ONE
     complete gzip member for what [src] holds, nothing of the cell's previous life *)
  Lemma gz_phase s cl chs f src :
    wf_state s -> src < length (st_heap s) -> ~ In src (st_gzpool s) ->
    exists s' r,
      run_local gz (4 + f) s {| l_call := cl; l_pc := Z_get src |} chs
        = run_local gz f s' {| l_call := cl; l_pc := Done (Ret_msg (call_tag cl) r (Some (comp_opts cl))) |} (tl chs)
      /\ wf_state s' /\ length (st_heap s) <= r < length (st_heap s')
      /\ hget (st_heap s') r = gz (hget (st_heap s) src)
      /\ (forall x, x < length (st_heap s) -> ~ In x (st_gzpool s) -> hget (st_heap s') x = hget (st_heap s) x).
  Proof.
    intros W Hs Hnp. unfold run_local. change (4 + f) with (S (S (S (S f)))). stepc.
    destruct (pool_get (st_heap s) (st_gzpool s) (hd None chs)) as [[h1 p1] c] eqn:G.
    stepc.
    eexists. eexists. split; [reflexivity|]. cbn [st_heap st_bufpool st_gzpool].
    rewrite length_alloc, length_do_write, length_hset.
    assert (Hc : c < length h1 /\ length (st_heap s) <= length h1 /\
                 (forall x, In x p1 -> In x (st_gzpool s)) /\
                 (forall x, x < length (st_heap s) -> hget h1 x = hget (st_heap s) x) /\
                 (c < length (st_heap s) -> In c (st_gzpool s))).
    { apply pool_get_spec in G as [(-> & Hin & Hincl)|(-> & -> & ->)].
      - repeat split; auto. apply W, in_or_app; auto.
      - rewrite length_alloc. repeat split; auto; try lia. intros x Hx. now apply hget_alloc_old. }
    destruct Hc as (Hc & Hlen & Hp & Hold & Hcp).
    assert (Hcs : c <> src) by (intros ->; auto).
    repeat split; try lia.
    - unfold wf_state; cbn [st_heap st_bufpool st_gzpool pool_put]. intros x Hx.
      rewrite length_alloc, length_do_write, length_hset.
      apply in_app_or in Hx as [Hx|[<-|Hx]]; try lia.
      + specialize (W x (in_or_app _ _ _ (or_introl Hx))). lia.
      + apply Hp in Hx. specialize (W x (in_or_app _ _ _ (or_intror Hx))). lia.
    - replace (length h1) with (length (do_write (hset h1 c []) c (gz (hget (hset h1 c []) src)))) at 1
        by now rewrite length_do_write, length_hset.
      rewrite hget_alloc_new. rewrite hget_reset_write by auto.
      rewrite hget_hset_other by auto. now rewrite Hold.
    - intros x Hx Hnx. rewrite hget_alloc_old by (rewrite length_do_write, length_hset; lia).
      rewrite hget_reset_write_other; auto. intros ->. auto.
  Qed.

  Lemma run_local_done f s cl r chs :
    run_local gz f s {| l_call := cl; l_pc := Done r |} chs = (s, {| l_call := cl; l_pc := Done r |}).
  Proof. destruct f; reflexivity. Qed.

  (* EntryList.MarshalPacked *)
  Theorem marshal_packed_value s es chs e :
    wf_state s -> marshal_packed es = Ok e ->
    exists s' r, run_call gz s (PMarshalPacked es) chs = (s', Ret_bytes r)
                 /\ hget (st_heap s') r = e /\ wf_state s'.
  Proof.
    intros W E. unfold run_call, run_call_gen, start. cbv beta iota.
    destruct (marshal_phase s (PMarshalPacked es) chs 5 e W E) as (s' & r & R & W' & _ & V & _).
    fold (run_local gz). change 9 with (4 + 5). rewrite R. cbn [after_marshal]. rewrite run_local_done.
    exists s', r. auto.
  Qed.

  Theorem marshal_packed_value_err s es chs :
    wf_state s -> is_ok (marshal_packed es) = false ->
    exists s', run_call gz s (PMarshalPacked es) chs = (s', Ret_err) /\ wf_state s'.
  Proof.
    intros W E. unfold run_call, run_call_gen, start. cbv beta iota.
    destruct (marshal_phase_err s (PMarshalPacked es) chs 7 W E) as (s' & R & W').
    fold (run_local gz). change 9 with (2 + 7). rewrite R, run_local_done. exists s'. auto.
  Qed.

  (* NewPackedForwardMessage *)
  Theorem packed_value s tag es chs e :
    wf_state s -> marshal_packed es = Ok e ->
    exists s' r,
      run_call gz s (PNewPacked tag es) chs
        = (s', Ret_msg tag r (Some {| o_size := Some (Z.of_nat (length es)); o_chunk := []; o_comp := [] |}))
      /\ hget (st_heap s') r = e /\ wf_state s'.
  Proof.
    intros W E. unfold run_call, run_call_gen, start. cbv beta iota.
    destruct (marshal_phase s (PNewPacked tag es) chs 5 e W E) as (s' & r & R & W' & _ & V & _).
    fold (run_local gz). change 9 with (4 + 5). rewrite R. cbn [after_marshal]. rewrite run_local_done.
    exists s', r. auto.
  Qed.

  Theorem packed_value_err s tag es chs :
    wf_state s -> is_ok (marshal_packed es) = false ->
    exists s', run_call gz s (PNewPacked tag es) chs = (s', Ret_err) /\ wf_state s'.
  Proof.
    intros W E. unfold run_call, run_call_gen, start. cbv beta iota.
    destruct (marshal_phase_err s (PNewPacked tag es) chs 7 W E) as (s' & R & W').
    fold (run_local gz). change 9 with (2 + 7). rewrite R, run_local_done. exists s'. auto.
  Qed.

  Corollary packed_unpacks s tag es chs :
    wf_state s -> forallb wf_entry es = true ->
    exists s' r o, run_call gz s (PNewPacked tag es) chs = (s', Ret_msg tag r o)
                   /\ unmarshal_packed (hget (st_heap s') r) = Ok (map norm_entry es).
  Proof.
    intros W F. destruct (rt_packed_stream_total es F) as (e & E & U).
    destruct (packed_value s tag es chs e W E) as (s' & r & R & V & _).
    exists s', r. eexists. split; [exact R|]. now rewrite V.
  Qed.

  Section Gunzip.
  Variable gunzip : bytes -> option bytes.
  Hypothesis gunzip_gz : forall x, gunzip (gz x) = Some x.

  (* NewCompressedPackedForwardMessageFromBytes *)
  Theorem compressed_bytes_value s tag src chs :
    wf_state s -> src < length (st_heap s) -> ~ In src (st_gzpool s) ->
    exists s' r,
      run_call gz s (PNewCompressedFromBytes tag src) chs
        = (s', Ret_msg tag r (Some {| o_size := None; o_chunk := []; o_comp := str "gzip" |}))
      /\ hget (st_heap s') r = gz (hget (st_heap s) src)
      /\ gunzip (hget (st_heap s') r) = Some (hget (st_heap s) src)
      /\ hget (st_heap s') src = hget (st_heap s) src
      /\ wf_state s'.
  Proof.
    intros W Hs Hn. unfold run_call, run_call_gen, start. cbv beta iota.
    destruct (gz_phase s (PNewCompressedFromBytes tag src) chs 5 src W Hs Hn) as (s' & r & R & W' & _ & V & Fr).
    fold (run_local gz). change 9 with (4 + 5). rewrite R, run_local_done.
    exists s', r. cbn [result l_pc call_tag comp_opts]. rewrite V. repeat split; auto.
  Qed.

  (* NewCompressedPackedForwardMessage *)
  Theorem compressed_value s tag es chs e :
    wf_state s -> marshal_packed es = Ok e ->
    exists s' r,
      run_call gz s (PNewCompressed tag es) chs
        = (s', Ret_msg tag r (Some {| o_size := Some (Z.of_nat (length es)); o_chunk := []; o_comp := str "gzip" |}))
      /\ hget (st_heap s') r = gz e
      /\ gunzip (hget (st_heap s') r) = Some e
      /\ wf_state s'.
  Proof.
    intros W E. unfold run_call, run_call_gen, start. cbv beta iota.
    destruct (marshal_phase s (PNewCompressed tag es) chs 5 e W E) as (s1 & r1 & R1 & W1 & L1 & V1 & G1 & _).
    fold (run_local gz). change 9 with (4 + 5). rewrite R1. cbn [after_marshal].
    assert (Hn : ~ In r1 (st_gzpool s1)).
    { rewrite G1. intros Hin. specialize (W r1 (in_or_app _ _ _ (or_intror Hin))). lia. }
    destruct (gz_phase s1 (PNewCompressed tag es) (tl chs) 1 r1 W1 (proj2 L1) Hn) as (s' & r & R & W' & _ & V & _).
    change 5 with (4 + 1). rewrite R, run_local_done.
    exists s', r. cbn [result l_pc call_tag comp_opts]. rewrite V, V1. repeat split; auto.
  Qed.

  Corollary compressed_unpacks s tag es chs :
    wf_state s -> forallb wf_entry es = true ->
    exists s' r o z, run_call gz s (PNewCompressed tag es) chs = (s', Ret_msg tag r o)
                     /\ gunzip (hget (st_heap s') r) = Some z
                     /\ unmarshal_packed z = Ok (map norm_entry es).
  Proof.
    intros W F. destruct (rt_packed_stream_total es F) as (e & E & U).
    destruct (compressed_value s tag es chs e W E) as (s' & r & R & _ & V & _).
    exists s', r. eexists. exists e. split; [exact R|]. split; assumption.
  Qed.
  End Gunzip.

  Theorem compressed_value_err s tag es chs :
    wf_state s -> is_ok (marshal_packed es) = false ->
    exists s', run_call gz s (PNewCompressed tag es) chs = (s', Ret_err) /\ wf_state s'.
  Proof.
    intros W E. unfold run_call, run_call_gen, start. cbv beta iota.
    destruct (marshal_phase_err s (PNewCompressed tag es) chs 7 W E) as (s' & R & W').
    fold (run_local gz). change 9 with (2 + 7). rewrite R, run_local_done. exists s'. auto.
  Qed.

  (* NewPackedForwardMessageFromBytes: the caller's slice itself, by design *)
  Theorem packed_bytes_value s tag src chs :
    run_call gz s (PNewPackedFromBytes tag src) chs = (s, Ret_msg tag src None).
  Proof. reflexivity. Qed.
End Value.

Print Assumptions marshal_packed_value.
Print Assumptions packed_value.
Print Assumptions packed_unpacks.
Print Assumptions compressed_bytes_value.
Print Assumptions compressed_value.
Print Assumptions compressed_unpacks.

(* ---------- C07: no hidden sharing ---------- *)

(* the cells a thread may write (the pooled object it holds) and the result cells it holds *)
Definition wr (l : local) : list loc :=
  match l_pc l with
  | M_enc c | M_copy c | M_put c _ | Z_write _ c | Z_copy c | Z_put c _ => [c]
  | _ => []
  end.
Definition rs (l : local) : list loc :=
  match l_pc l with
  | M_put _ r | Z_put _ r => [r]
  | Z_get src | Z_write src _ | B_build src => [src]
  | Done r => ret_locs r
  | _ => []
  end.
Definition vis (l : local) : list loc := ret_locs (result l).

(* The separation invariant, on sets of locations.  O: the cells the library owns and may
   write (pooled, or held by a thread between Get and Put); R: the result cells in flight;
   prot (ghost): the cells the callers have in hand, with the content they had when they
   were handed over. *)
Definition Inv (h : heap) (O R : list loc) (prot : list (loc * bytes)) : Prop :=
  (forall x, In x O -> x < length h) /\
  (forall x, In x R -> x < length h /\ ~ In x O) /\
  (forall x v, In (x, v) prot -> x < length h /\ ~ In x O /\ hget h x = v).

Lemma Inv_mono h O R prot O' R' : incl O' O -> incl R' R -> Inv h O R prot -> Inv h O' R' prot.
Proof.
  intros HO HR (A & B & C). repeat split.
  - intros x Hx. apply A, HO, Hx.
  - apply B, HR, H.
  - intros Hx. apply (proj2 (B x (HR x H))). auto.
  - eapply C; eauto.
  - intros Hx. destruct (C x v H) as (_ & N & _). auto.
  - eapply C; eauto.
Qed.

(* writing a cell the library owns *)
Lemma Inv_write h O R prot c v : In c O -> Inv h O R prot -> Inv (hset h c v) O R prot.
Proof.
  intros Hc (A & B & C). unfold Inv. rewrite length_hset. split; [|split]; auto.
  intros x v0 H. destruct (C x v0 H) as (L & N & V). repeat split; auto.
  rewrite hget_hset_other; auto. intros ->. auto.
Qed.

(* a new cell for the library (pool.New) / for a result *)
Lemma Inv_alloc_O h O R prot v : Inv h O R prot -> Inv (h ++ [v]) (length h :: O) R prot.
Proof.
  intros (A & B & C). unfold Inv. rewrite length_alloc. repeat split.
  - intros x [<-|Hx]; auto. apply A in Hx. lia.
  - apply B in H. lia.
  - intros [<-|Hx]. { apply B in H. lia. } apply B in H. tauto.
  - apply C in H. lia.
  - intros [<-|Hx]. { apply C in H. lia. } apply C in H. tauto.
  - destruct (C x v0 H) as (L & _ & V). now rewrite hget_alloc_old.
Qed.
Lemma Inv_alloc_R h O R prot v : Inv h O R prot -> Inv (h ++ [v]) O (length h :: R) prot.
Proof.
  intros (A & B & C). unfold Inv. rewrite length_alloc. repeat split.
  - intros x Hx. apply A in Hx. lia.
  - destruct H as [<-|H]; auto. apply B in H. lia.
  - intros Hx. destruct H as [<-|H]. { apply A in Hx. lia. } apply B in H. tauto.
  - apply C in H. lia.
  - apply C in H. tauto.
  - destruct (C x v0 H) as (L & _ & V). now rewrite hget_alloc_old.
Qed.

(* a result is handed to the caller: from now on its content is protected *)
Lemma Inv_ret h O R prot x : In x R -> Inv h O R prot -> Inv h O R (prot ++ [(x, hget h x)]).
Proof.
  intros Hx (A & B & C). split; [|split]; auto.
  intros y v H. apply in_app_or in H as [H|[H|[]]]; auto.
  inversion H; subst. destruct (B y Hx). auto.
Qed.

(* a caller passes a slice it has in hand *)
Lemma Inv_src h O R prot x v : In (x, v) prot -> Inv h O R prot -> Inv h O (x :: R) prot.
Proof.
  intros Hx (A & B & C). split; [|split]; auto.
  intros y [E|H]; auto. subst y. destruct (C x v Hx) as (L & N & _). auto.
Qed.

Definition pools (s : state) : list loc := st_bufpool s ++ st_gzpool s.
Definition newret (h : heap) (l : local) : list (loc * bytes) := map (fun x => (x, hget h x)) (vis l).

Ltac inc :=
  let x := fresh "x" in let H := fresh "H" in
  intros x H; unfold pools, pool_put, incl in *;
  cbn [wr rs l_pc goto st_bufpool st_gzpool st_heap ret_locs] in *;
  repeat (rewrite in_app_iff in * || cbn [In] in * );
  intuition (subst; auto).

Ltac ino := unfold pools, pool_put; cbn [wr rs l_pc goto st_bufpool st_gzpool st_heap ret_locs];
  repeat (rewrite in_app_iff || cbn [In]); tauto.
Ltac nonew := unfold newret, vis, result; cbn [goto l_pc ret_locs map st_heap with_heap]; rewrite app_nil_r.

Section Frame.
  Variable gz : bytes -> bytes.

  (* one micro-step of one thread; Oo, Ro: what the other threads hold *)
  Lemma pstep_inv s l ch s' l' Oo Ro prot :
    Inv (st_heap s) (pools s ++ wr l ++ Oo) (rs l ++ Ro) prot ->
    pstep gz s l ch = Some (s', l') ->
    Inv (st_heap s') (pools s' ++ wr l' ++ Oo) (rs l' ++ Ro) (prot ++ newret (st_heap s') l').
  Proof.
    intros I H. destruct l as [cl p]. unfold pstep, pstep_gen in H. cbn [l_pc l_call] in H.
    destruct p.
    - (* M_get *)
      destruct (pool_get (st_heap s) (st_bufpool s) ch) as [[h1 p1] c] eqn:G. inversion H; subst; clear H.
      unfold newret, vis, result. cbn [goto l_pc ret_locs map st_heap]. rewrite app_nil_r.
      apply pool_get_spec in G as [(-> & Hin & Hincl)|(-> & -> & ->)].
      + eapply Inv_mono; [| |exact I]; inc.
      + eapply Inv_mono; [| |apply Inv_alloc_O; exact I]; inc.
    - (* M_enc *)
      destruct (marshal_packed (call_es cl)); inversion H; subst; clear H; nonew;
        unfold do_write, do_reset; cbn [v_reset repaired with_heap st_heap].
      + apply Inv_write; [ino|]. apply Inv_write; [ino|]. eapply Inv_mono; [| |exact I]; inc.
      + apply Inv_write; [ino|]. eapply Inv_mono; [| |exact I]; inc.
      + apply Inv_write; [ino|]. eapply Inv_mono; [| |exact I]; inc.
    - (* M_copy *)
      unfold copy_out, halloc in H. cbn [v_copy repaired] in H. inversion H; subst; clear H; nonew.
      eapply Inv_mono; [| |apply Inv_alloc_R; exact I]; inc.
    - (* M_put *)
      inversion H; subst; clear H. unfold newret, vis, result. cbn [goto l_pc st_heap].
      destruct cl; cbn [after_marshal ret_locs map]; rewrite ?app_nil_r;
        try (apply Inv_ret; [ino|]); (eapply Inv_mono; [| |exact I]; inc).
    - (* Z_get *)
      destruct (pool_get (st_heap s) (st_gzpool s) ch) as [[h1 p1] c] eqn:G. inversion H; subst; clear H.
      nonew.
      apply pool_get_spec in G as [(-> & Hin & Hincl)|(-> & -> & ->)].
      + eapply Inv_mono; [| |exact I]; inc.
      + eapply Inv_mono; [| |apply Inv_alloc_O; exact I]; inc.
    - (* Z_write *)
      inversion H; subst; clear H; nonew. unfold do_write, do_reset; cbn [v_reset repaired with_heap st_heap].
      apply Inv_write; [ino|]. apply Inv_write; [ino|]. eapply Inv_mono; [| |exact I]; inc.
    - (* Z_copy *)
      unfold copy_out, halloc in H. cbn [v_copy repaired] in H. inversion H; subst; clear H; nonew.
      eapply Inv_mono; [| |apply Inv_alloc_R; exact I]; inc.
    - (* Z_put *)
      inversion H; subst; clear H. unfold newret, vis, result. cbn [goto l_pc st_heap ret_locs map].
      apply Inv_ret; [ino|]. eapply Inv_mono; [| |exact I]; inc.
    - (* B_build *)
      inversion H; subst; clear H. unfold newret, vis, result. cbn [goto l_pc st_heap ret_locs map].
      apply Inv_ret; [ino|]. eapply Inv_mono; [| |exact I]; inc.
    - discriminate.
  Qed.

  (* ----- all threads ----- *)
  Definition cO (c : config) : list loc := pools (c_st c) ++ flat_map wr (c_thr c).
  Definition cR (c : config) : list loc := flat_map rs (c_thr c).
  Definition CInv (c : config) (prot : list (loc * bytes)) : Prop :=
    Inv (st_heap (c_st c)) (cO c) (cR c) prot /\ (forall x, In x (visible c) -> In x (map fst prot)).

  Lemma upd_nth_split {A} (thr : list A) t l : nth_error thr t = Some l ->
    exists pre post, thr = pre ++ l :: post /\ forall l', upd_nth thr t l' = pre ++ l' :: post.
  Proof.
    revert t; induction thr as [|a thr IH]; intros [|t] H; try discriminate.
    - inversion H; subst. exists [], thr. auto.
    - destruct (IH t H) as (pre & post & -> & U). exists (a :: pre), post. split; auto.
      intros l'. cbn. now rewrite U.
  Qed.

  Lemma in_dom_newret x h l : In x (vis l) -> In x (map fst (newret h l)).
  Proof. unfold newret. rewrite map_map. cbn. now rewrite map_id. Qed.

  Lemma wr_start cl : wr (start cl) = [].
  Proof. now destruct cl. Qed.
  Lemma rs_start cl : rs (start cl) = call_src cl.
  Proof. now destruct cl. Qed.
  Lemma vis_start cl : ret_locs (result (start cl)) = [].
  Proof. now destruct cl. Qed.

  Lemma capply_inv caller c prot i c' :
    CInv c prot -> (forall x, In x caller -> In x (map fst prot)) ->
    item_ok caller c i = true -> capply gz c i = Some c' ->
    exists prot', incl prot prot' /\ CInv c' prot'.
  Proof.
    intros [I V] Hc Hok H. destruct c as [s thr]. unfold capply, capply_gen in H. cbn [c_st c_thr] in *.
    destruct i as [t ch|t cl].
    - destruct (nth_error thr t) as [l|] eqn:E; [|discriminate].
      destruct (pstep_gen gz repaired s l ch) as [[s' l']|] eqn:P; [|discriminate].
      inversion H; subst; clear H.
      destruct (upd_nth_split thr t l E) as (pre & post & -> & U). rewrite U.
      exists (prot ++ newret (st_heap s') l'). split; [apply incl_appl, incl_refl|].
      unfold CInv, cO, cR, visible in *. cbn [c_st c_thr] in *.
      split.
      + eapply Inv_mono; [| |eapply (pstep_inv s l ch s' l' (flat_map wr pre ++ flat_map wr post)
                                       (flat_map rs pre ++ flat_map rs post)); [|exact P]].
        * rewrite flat_map_app. cbn [flat_map]. inc.
        * rewrite flat_map_app. cbn [flat_map]. inc.
        * eapply Inv_mono; [| |exact I]; rewrite flat_map_app; cbn [flat_map]; inc.
      + intros x Hx. rewrite map_app, in_app_iff.
        rewrite flat_map_app in Hx. cbn [flat_map] in Hx. rewrite !in_app_iff in Hx.
        destruct Hx as [Hx|[Hx|Hx]].
        * left. apply V. rewrite flat_map_app, in_app_iff. auto.
        * right. now apply in_dom_newret.
        * left. apply V. rewrite flat_map_app. cbn [flat_map]. rewrite !in_app_iff. auto.
    - destruct (nth_error thr t) as [l|] eqn:E; [|discriminate].
      destruct (is_done l) eqn:D; [|discriminate]. inversion H; subst; clear H.
      destruct (upd_nth_split thr t l E) as (pre & post & -> & U). rewrite U.
      exists prot. split; [apply incl_refl|].
      unfold CInv, cO, cR, visible in *. cbn [c_st c_thr item_ok] in *.
      assert (Hsrc : forall x, In x (call_src cl) -> exists v, In (x, v) prot).
      { intros x Hx. rewrite forallb_forall in Hok. specialize (Hok x Hx).
        apply existsb_exists in Hok as (y & Hy & Eq). apply Nat.eqb_eq in Eq. subst y.
        assert (Hd : In x (map fst prot)).
        { apply in_app_or in Hy as [Hy|Hy]; auto. }
        apply in_map_iff in Hd as ([x' v] & Ex & Hd). cbn in Ex. subst x'. eauto. }
      split.
      + destruct cl; cbn [call_src] in Hsrc;
          try (destruct (Hsrc src (or_introl eq_refl)) as [v Hv]);
          (eapply Inv_mono; [| |try (eapply Inv_src; [exact Hv|]); exact I]);
          rewrite !flat_map_app; cbn [flat_map]; rewrite ?wr_start, ?rs_start; cbn [call_src]; inc.
      + intros x Hx. apply V.
        rewrite flat_map_app in *. cbn [flat_map] in *. rewrite !in_app_iff in *.
        destruct Hx as [Hx|[Hx|Hx]]; auto. rewrite vis_start in Hx. destruct Hx.
  Qed.

  Lemma cexec_cons c i sch : cexec gz c (i :: sch) = cexec gz (cnext_gen gz repaired c i) sch.
  Proof. unfold cexec, cnext_gen. cbn [cexec_gen]. now destruct (capply_gen gz repaired c i). Qed.

  Lemma cnext_inv known c prot i :
    CInv c prot -> (forall x, In x known -> In x (map fst prot)) ->
    item_ok known c i = true ->
    exists prot', incl prot prot' /\ CInv (cnext_gen gz repaired c i) prot'.
  Proof.
    intros I K Hi. unfold cnext_gen. destruct (capply_gen gz repaired c i) as [c'|] eqn:E.
    - eapply capply_inv; eauto.
    - exists prot. split; [apply incl_refl|exact I].
  Qed.

  Lemma dom_incl (prot prot' : list (loc * bytes)) x : incl prot prot' -> In x (map fst prot) -> In x (map fst prot').
  Proof. intros Inc H. apply in_map_iff in H as (p & <- & Hp). apply in_map. auto. Qed.

  Lemma cexec_inv sch : forall known c prot,
    CInv c prot -> (forall x, In x known -> In x (map fst prot)) ->
    sched_ok gz known c sch = true ->
    exists prot', incl prot prot' /\ CInv (cexec gz c sch) prot' /\
                  (forall x, In x (known_after gz known c sch) -> In x (map fst prot')).
  Proof.
    induction sch as [|i sch IH]; intros known c prot I K Hok.
    - exists prot. split; [apply incl_refl|]. split; auto.
    - rewrite cexec_cons. unfold sched_ok, known_after in *. cbn [sched_ok_gen known_gen] in *.
      apply andb_prop in Hok as [Hi Hok].
      destruct (cnext_inv known c prot i I K Hi) as (prot1 & Inc1 & I1).
      assert (K1 : forall x, In x (known ++ visible (cnext_gen gz repaired c i)) -> In x (map fst prot1)).
      { intros x Hx. apply in_app_or in Hx as [Hx|Hx]. { eapply dom_incl; eauto. } now apply (proj2 I1). }
      destruct (IH _ _ prot1 I1 K1 Hok) as (prot2 & Inc2 & I2 & K2).
      exists prot2. split; auto. eapply incl_tran; eauto.
  Qed.

  Lemma cexec_app c sch1 sch2 : cexec gz c (sch1 ++ sch2) = cexec gz (cexec gz c sch1) sch2.
  Proof.
    revert c; induction sch1 as [|i r IH]; intros c; cbn [app]; auto.
    rewrite !cexec_cons. apply IH.
  Qed.

  Lemma sched_ok_app sch1 : forall known c sch2, sched_ok gz known c (sch1 ++ sch2) = true ->
    sched_ok gz known c sch1 = true /\
    sched_ok gz (known_after gz known c sch1) (cexec gz c sch1) sch2 = true.
  Proof.
    induction sch1 as [|i r IH]; intros known c sch2; cbn [app]; auto.
    rewrite cexec_cons. unfold sched_ok, known_after in *. cbn [sched_ok_gen known_gen].
    intros H. apply andb_prop in H as [Hi H]. rewrite Hi. cbn [andb]. apply IH; auto.
  Qed.

  Lemma known_after_incl sch : forall known c, incl known (known_after gz known c sch).
  Proof.
    unfold known_after. induction sch as [|i r IH]; intros known c; cbn [known_gen]; [apply incl_refl|].
    eapply incl_tran; [|apply IH]. apply incl_appl, incl_refl.
  Qed.

  (* the initial configuration: any pools with any stale contents; the callers' slices are
     allocated and are not pooled objects; every goroutine is idle or at the start of a
     call on the callers' slices *)
  Definition thread_init (caller : list loc) (l : local) : Prop :=
    l = idle \/ exists cl, l = start cl /\ incl (call_src cl) caller.
  Definition init_ok (caller : list loc) (c : config) : Prop :=
    wf_state (c_st c) /\
    (forall x, In x caller -> x < length (st_heap (c_st c)) /\ ~ In x (pools (c_st c))) /\
    Forall (thread_init caller) (c_thr c).

  Definition prot0 (h : heap) (caller : list loc) : list (loc * bytes) := map (fun x => (x, hget h x)) caller.
  Lemma dom_prot0 h caller : map fst (prot0 h caller) = caller.
  Proof. unfold prot0. rewrite map_map. cbn. apply map_id. Qed.
  Lemma in_prot0 h caller x v : In (x, v) (prot0 h caller) -> In x caller /\ v = hget h x.
  Proof. unfold prot0. rewrite in_map_iff. intros (y & E & Hy). inversion E; subst. auto. Qed.

  Lemma threads_init_foot caller thr : Forall (thread_init caller) thr ->
    flat_map wr thr = [] /\ incl (flat_map rs thr) caller /\
    flat_map (fun l => ret_locs (result l)) thr = [].
  Proof.
    induction 1 as [|l thr [->|(cl & -> & Hs)] _ (IH1 & IH2 & IH3)]; cbn [flat_map].
    - repeat split; auto. apply incl_nil_l.
    - repeat split; auto.
    - rewrite wr_start, rs_start, vis_start. repeat split; auto. now apply incl_app.
  Qed.

  Lemma init_inv caller c : init_ok caller c -> CInv c (prot0 (st_heap (c_st c)) caller).
  Proof.
    destruct c as [s thr]. intros (W & Hc & T). unfold CInv, cO, cR, visible. cbn [c_st c_thr] in *.
    destruct (threads_init_foot caller thr T) as (Hwr & Hrs & Hvis).
    rewrite Hwr, Hvis, app_nil_r. split; [|intros x []].
    split; [|split].
    - exact W.
    - intros x Hx. apply Hc, Hrs, Hx.
    - intros x v Hx. apply in_prot0 in Hx as [Hx ->]. destruct (Hc x Hx). auto.
  Qed.

  Lemma CInv_val c prot x v : CInv c prot -> In (x, v) prot -> hget (st_heap (c_st c)) x = v.
  Proof. intros [(_ & _ & C) _] H. now apply C in H. Qed.

  (* C07.  For every schedule: at every point c2 after any point c1, a slice that some caller
     has in hand at c1 (in particular: a slice that was returned by the step leading to c1)
     holds what it held at c1, and the callers' own slices hold what they held initially. *)
  Theorem frame caller c0 sch1 sch2 :
    init_ok caller c0 -> sched_ok gz caller c0 (sch1 ++ sch2) = true ->
    let c1 := cexec gz c0 sch1 in
    let c2 := cexec gz c1 sch2 in
    (forall x, In x caller -> hget (st_heap (c_st c2)) x = hget (st_heap (c_st c0)) x) /\
    (forall x, In x (visible c1) -> hget (st_heap (c_st c2)) x = hget (st_heap (c_st c1)) x).
  Proof.
    intros I0 Hok c1 c2. apply sched_ok_app in Hok as [Hok1 Hok2].
    pose proof (init_inv caller c0 I0) as J0.
    assert (Hc0 : forall x, In x caller -> In x (map fst (prot0 (st_heap (c_st c0)) caller)))
      by (now rewrite dom_prot0).
    destruct (cexec_inv sch1 caller c0 _ J0 Hc0 Hok1) as (prot1 & Inc1 & J1 & K1). fold c1 in J1, Hok2.
    destruct (cexec_inv sch2 _ c1 _ J1 K1 Hok2) as (prot2 & Inc2 & J2 & _). fold c2 in J2.
    split.
    - intros x Hx. apply (CInv_val c2 prot2); auto. apply Inc2, Inc1.
      unfold prot0. apply in_map_iff. eauto.
    - intros x Hx. destruct J1 as [J1 V1]. apply V1 in Hx. apply in_map_iff in Hx as ([y v] & E & Hx).
      cbn in E; subst y. rewrite (CInv_val c1 prot1 x v (conj J1 V1) Hx).
      apply (CInv_val c2 prot2); auto.
  Qed.

  (* the same, spelled out for the returning step *)
  Corollary frame_return caller c0 sch1 t ch sch2 c1 l r x :
    init_ok caller c0 -> sched_ok gz caller c0 (sch1 ++ SStep t ch :: sch2) = true ->
    capply gz (cexec gz c0 sch1) (SStep t ch) = Some c1 ->
    nth_error (c_thr c1) t = Some l -> l_pc l = Done r -> In x (ret_locs r) ->
    hget (st_heap (c_st (cexec gz c1 sch2))) x = hget (st_heap (c_st c1)) x.
  Proof.
    intros I0 Hok A N D Hx.
    assert (E : cexec gz c0 (sch1 ++ [SStep t ch]) = c1).
    { rewrite cexec_app. unfold cexec, capply in *. cbn [cexec_gen]. now rewrite A. }
    replace (sch1 ++ SStep t ch :: sch2) with ((sch1 ++ [SStep t ch]) ++ sch2) in Hok
      by (rewrite <- app_assoc; reflexivity).
    destruct (frame caller c0 _ _ I0 Hok) as [_ F]. rewrite E in F. apply F.
    unfold visible. apply in_flat_map. exists l. split. { eapply nth_error_In; eauto. }
    unfold result. now rewrite D.
  Qed.
End Frame.

(* ---------- C07 for sequences of calls of one caller ---------- *)
Section Sequential.
  Variable gz : bytes -> bytes.

  (* every call passes a slice the caller has: its own or an earlier result *)
  Fixpoint seq_ok (known : list loc) (s : state) (cs : list (call * list choice)) : Prop :=
    match cs with
    | [] => True
    | (cl, chs) :: r =>
        incl (call_src cl) known /\
        let '(s1, x) := run_call gz s cl chs in seq_ok (known ++ ret_locs x) s1 r
    end.

  Lemma run_local_inv f : forall s l chs s' l' prot,
    Inv (st_heap s) (pools s ++ wr l ++ []) (rs l ++ []) prot ->
    (forall x, In x (vis l) -> In x (map fst prot)) ->
    run_local gz f s l chs = (s', l') ->
    exists prot', incl prot prot' /\
      Inv (st_heap s') (pools s' ++ wr l' ++ []) (rs l' ++ []) prot' /\
      (forall x, In x (vis l') -> In x (map fst prot')).
  Proof.
    induction f as [|f IH]; intros s l chs s' l' prot I V H; unfold run_local in *; cbn [run_local_gen] in H.
    - inversion H; subst. exists prot. split; [apply incl_refl|auto].
    - match type of H with (match ?t with _ => _ end = _) => destruct t as [[s1 l1]|] eqn:P end.
      + pose proof (pstep_inv gz s l _ s1 l1 [] [] prot I P) as I1.
        assert (V1 : forall x, In x (vis l1) -> In x (map fst (prot ++ newret (st_heap s1) l1))).
        { intros x Hx. rewrite map_app, in_app_iff. right. now apply in_dom_newret. }
        destruct (IH s1 l1 _ s' l' _ I1 V1 H) as (prot' & Inc & I' & V').
        exists prot'. split; auto. eapply incl_tran; [|exact Inc]. apply incl_appl, incl_refl.
      + inversion H; subst. exists prot. split; [apply incl_refl|auto].
  Qed.

  Lemma run_call_inv s cl chs s' r prot :
    Inv (st_heap s) (pools s) [] prot ->
    (forall x, In x (call_src cl) -> In x (map fst prot)) ->
    run_call gz s cl chs = (s', r) ->
    exists prot', incl prot prot' /\ Inv (st_heap s') (pools s') [] prot' /\
                  (forall x, In x (ret_locs r) -> In x (map fst prot')).
  Proof.
    intros I Hs H. unfold run_call, run_call_gen in H.
    destruct (run_local_gen gz repaired 9 s (start cl) chs) as [s1 l1] eqn:R. inversion H; subst; clear H.
    assert (I0 : Inv (st_heap s) (pools s ++ wr (start cl) ++ []) (rs (start cl) ++ []) prot).
    { rewrite wr_start, rs_start, !app_nil_r.
      destruct cl; cbn [call_src] in *; auto;
        destruct (proj1 (in_map_iff _ _ _) (Hs src (or_introl eq_refl))) as ([y v] & E & Hv); cbn in E; subst y;
        eapply Inv_src; eauto. }
    assert (V0 : forall x, In x (vis (start cl)) -> In x (map fst prot)).
    { unfold vis. rewrite vis_start. intros x []. }
    destruct (run_local_inv 9 s (start cl) chs s' l1 prot I0 V0 R) as (prot' & Inc & I' & V').
    exists prot'. split; auto. split; auto.
    eapply Inv_mono; [| |exact I']. { apply incl_appl, incl_refl. } apply incl_nil_l.
  Qed.

  Lemma run_calls_inv cs : forall known s s' rets prot,
    Inv (st_heap s) (pools s) [] prot ->
    (forall x, In x known -> In x (map fst prot)) ->
    seq_ok known s cs -> run_calls gz s cs = (s', rets) ->
    exists prot', incl prot prot' /\ Inv (st_heap s') (pools s') [] prot' /\
                  (forall x, In x (known ++ flat_map ret_locs rets) -> In x (map fst prot')).
  Proof.
    induction cs as [|[cl chs] cs IH]; intros known s s' rets prot I K Hok H;
      unfold run_calls in *; cbn [run_calls_gen seq_ok] in *.
    - inversion H; subst. exists prot. split; [apply incl_refl|]. split; auto.
      cbn [flat_map]. now rewrite app_nil_r.
    - destruct Hok as [Hsrc Hok]. unfold run_call in Hok.
      destruct (run_call_gen gz repaired s cl chs) as [s1 x] eqn:R.
      destruct (run_calls_gen gz repaired s1 cs) as [s2 xs] eqn:Rs. inversion H; subst; clear H.
      assert (Hs : forall y, In y (call_src cl) -> In y (map fst prot)) by (intros y Hy; apply K, Hsrc, Hy).
      destruct (run_call_inv s cl chs s1 x prot I Hs R) as (prot1 & Inc1 & I1 & V1).
      assert (K1 : forall y, In y (known ++ ret_locs x) -> In y (map fst prot1)).
      { intros y Hy. apply in_app_or in Hy as [Hy|Hy]; auto. eapply dom_incl; eauto. }
      destruct (IH (known ++ ret_locs x) s1 s' xs prot1 I1 K1 Hok Rs) as (prot2 & Inc2 & I2 & V2).
      exists prot2. split. { eapply incl_tran; eauto. } split; auto.
      intros y Hy. apply V2. cbn [flat_map] in Hy. rewrite !in_app_iff in *. tauto.
  Qed.

  Lemma seq_ok_app cs1 : forall known s cs2 s1 rets1,
    seq_ok known s (cs1 ++ cs2) -> run_calls gz s cs1 = (s1, rets1) ->
    seq_ok known s cs1 /\ seq_ok (known ++ flat_map ret_locs rets1) s1 cs2.
  Proof.
    induction cs1 as [|[cl chs] cs1 IH]; intros known s cs2 s1 rets1 Hok H;
      unfold run_calls in *; cbn [app run_calls_gen seq_ok] in *.
    - inversion H; subst. cbn [flat_map]. rewrite app_nil_r. auto.
    - destruct Hok as [Hsrc Hok]. unfold run_call in *.
      destruct (run_call_gen gz repaired s cl chs) as [s' x] eqn:R.
      destruct (run_calls_gen gz repaired s' cs1) as [s2 xs] eqn:Rs. inversion H; subst; clear H.
      destruct (IH _ _ cs2 _ _ Hok Rs) as [A B]. split; auto.
      cbn [flat_map]. now rewrite app_assoc.
  Qed.

  (* after cs1, whatever cs2 does: the results of cs1 and the caller's own slices are intact *)
  Theorem frame_sequential caller s0 cs1 cs2 s1 rets1 s2 rets2 :
    wf_state s0 ->
    (forall x, In x caller -> x < length (st_heap s0) /\ ~ In x (pools s0)) ->
    seq_ok caller s0 (cs1 ++ cs2) ->
    run_calls gz s0 cs1 = (s1, rets1) -> run_calls gz s1 cs2 = (s2, rets2) ->
    (forall x, In x caller -> hget (st_heap s2) x = hget (st_heap s0) x) /\
    (forall r x, In r rets1 -> In x (ret_locs r) -> hget (st_heap s2) x = hget (st_heap s1) x).
  Proof.
    intros W Hc Hok R1 R2. destruct (seq_ok_app cs1 caller s0 cs2 s1 rets1 Hok R1) as [Ok1 Ok2].
    assert (I0 : Inv (st_heap s0) (pools s0) [] (prot0 (st_heap s0) caller)).
    { split; [exact W|split; [intros x []|]].
      intros x v Hx. apply in_prot0 in Hx as [Hx ->]. destruct (Hc x Hx). auto. }
    assert (K0 : forall x, In x caller -> In x (map fst (prot0 (st_heap s0) caller))).
    { intros x Hx. now rewrite dom_prot0. }
    destruct (run_calls_inv cs1 caller s0 s1 rets1 _ I0 K0 Ok1 R1) as (prot1 & Inc1 & I1 & V1).
    destruct (run_calls_inv cs2 _ s1 s2 rets2 _ I1 V1 Ok2 R2) as (prot2 & Inc2 & I2 & V2).
    split.
    - intros x Hx. destruct I2 as (_ & _ & C). apply C. apply Inc2, Inc1.
      unfold prot0. apply in_map_iff. eauto.
    - intros r x Hr Hx.
      assert (Hd : In x (map fst prot1)).
      { apply V1, in_or_app. right. apply in_flat_map. eauto. }
      apply in_map_iff in Hd as ([y v] & E & Hd). cbn in E; subst y.
      destruct I1 as (_ & _ & C1). destruct I2 as (_ & _ & C2).
      rewrite (proj2 (proj2 (C1 x v Hd))). apply C2. auto.
  Qed.

  (* the states reachable by calls are well-formed, and a slice the caller has in hand is
     allocated and is not a pooled object: the premises of the value theorems *)
  Theorem reachable_premises caller s0 cs s1 rets :
    wf_state s0 ->
    (forall x, In x caller -> x < length (st_heap s0) /\ ~ In x (pools s0)) ->
    seq_ok caller s0 cs -> run_calls gz s0 cs = (s1, rets) ->
    wf_state s1 /\
    (forall x, In x (caller ++ flat_map ret_locs rets) ->
               x < length (st_heap s1) /\ ~ In x (st_bufpool s1) /\ ~ In x (st_gzpool s1)).
  Proof.
    intros W Hc Hok R.
    assert (I0 : Inv (st_heap s0) (pools s0) [] (prot0 (st_heap s0) caller)).
    { split; [exact W|split; [intros x []|]].
      intros x v Hx. apply in_prot0 in Hx as [Hx ->]. destruct (Hc x Hx). auto. }
    assert (K0 : forall x, In x caller -> In x (map fst (prot0 (st_heap s0) caller))).
    { intros x Hx. now rewrite dom_prot0. }
    destruct (run_calls_inv cs caller s0 s1 rets _ I0 K0 Hok R) as (prot1 & Inc1 & I1 & V1).
    destruct I1 as (A & _ & C). split; [exact A|].
    intros x Hx. apply V1 in Hx. apply in_map_iff in Hx as ([y v] & E & Hx). cbn in E; subst y.
    destruct (C x v Hx) as (L & N & _). unfold pools in N. rewrite in_app_iff in N. tauto.
  Qed.
End Sequential.

Print Assumptions frame.
Print Assumptions frame_return.
Print Assumptions frame_sequential.
Print Assumptions reachable_premises.

(* ---------- C03 on the reachable states ---------- *)
Section Reachable.
  Variable gz : bytes -> bytes.
  Variable gunzip : bytes -> option bytes.
  Hypothesis gunzip_gz : forall x, gunzip (gz x) = Some x.

  (* after ANY sequence of earlier calls with ANY choices of Get, compressing a slice the
     caller has in hand (its own or an earlier result) yields one gzip member of exactly
     that slice *)
  Corollary compressed_bytes_value_reachable caller s0 cs s1 rets tag src chs :
    wf_state s0 ->
    (forall x, In x caller -> x < length (st_heap s0) /\ ~ In x (pools s0)) ->
    seq_ok gz caller s0 cs -> run_calls gz s0 cs = (s1, rets) ->
    In src (caller ++ flat_map ret_locs rets) ->
    exists s' r,
      run_call gz s1 (PNewCompressedFromBytes tag src) chs
        = (s', Ret_msg tag r (Some {| o_size := None; o_chunk := []; o_comp := str "gzip" |}))
      /\ hget (st_heap s') r = gz (hget (st_heap s1) src)
      /\ gunzip (hget (st_heap s') r) = Some (hget (st_heap s1) src)
      /\ hget (st_heap s') src = hget (st_heap s1) src.
  Proof.
    intros W Hc Hok R Hs.
    destruct (reachable_premises gz caller s0 cs s1 rets W Hc Hok R) as [W1 P].
    destruct (P src Hs) as (L & _ & N).
    destruct (compressed_bytes_value gz gunzip gunzip_gz s1 tag src chs W1 L N) as (s' & r & A & B & C & D & _).
    exists s', r. auto.
  Qed.

  (* ... and the entry-based constructors do not depend on the history at all *)
  Corollary packed_value_reachable caller s0 cs s1 rets tag es chs e :
    wf_state s0 ->
    (forall x, In x caller -> x < length (st_heap s0) /\ ~ In x (pools s0)) ->
    seq_ok gz caller s0 cs -> run_calls gz s0 cs = (s1, rets) ->
    marshal_packed es = Ok e ->
    (exists s' r, run_call gz s1 (PNewPacked tag es) chs
        = (s', Ret_msg tag r (Some {| o_size := Some (Z.of_nat (length es)); o_chunk := []; o_comp := [] |}))
      /\ hget (st_heap s') r = e) /\
    (exists s' r, run_call gz s1 (PNewCompressed tag es) chs
        = (s', Ret_msg tag r (Some {| o_size := Some (Z.of_nat (length es)); o_chunk := []; o_comp := str "gzip" |}))
      /\ hget (st_heap s') r = gz e /\ gunzip (hget (st_heap s') r) = Some e).
  Proof.
    intros W Hc Hok R E.
    destruct (reachable_premises gz caller s0 cs s1 rets W Hc Hok R) as [W1 _].
    split.
    - destruct (packed_value gz s1 tag es chs e W1 E) as (s' & r & A & B & _). eauto.
    - destruct (compressed_value gz gunzip gunzip_gz s1 tag es chs e W1 E) as (s' & r & A & B & C & _). eauto 6.
  Qed.
End Reachable.
Print Assumptions compressed_bytes_value_reachable.
Print Assumptions packed_value_reachable.

(* ---------- non-vacuity and regression witnesses ---------- *)
Lemma toy_gunzip_gz x : toy_gunzip (toy_gz x) = Some x.
Proof. reflexivity. Qed.

Definition ex1 : entry := {| e_ts := (1%Z, 0%N); e_rec := GMap [] |}.
Definition ex2 : entry := {| e_ts := (2%Z, 5%N); e_rec := GMap [(str "k", GInt 7)] |}.
Definition ex_bad : entry := {| e_ts := (3%Z, 0%N); e_rec := GBad |}.
Definition stream_of (r : ret) : loc := hd 0 (ret_locs r).
Definition enc_of (es : list entry) : bytes := match marshal_packed es with Ok e => e | _ => [] end.

(* repaired code, sequential: the second call reuses the pooled buffer (Some 0) and the first
   message still holds its own stream; the third call fails and returns the error *)
Example ex_seq_repaired :
  let '(s1, r1) := run_call toy_gz empty_state (PNewPacked (str "t") [ex1]) [None] in
  let '(s2, r2) := run_call toy_gz s1 (PNewPacked (str "t") [ex2; ex2]) [Some 0] in
  let '(s3, r3) := run_call toy_gz s2 (PNewPacked (str "t") [ex1; ex_bad]) [Some 0] in
  st_bufpool s1 = [0] /\ st_bufpool s3 = [0] /\
  hget (st_heap s1) (stream_of r1) = enc_of [ex1] /\
  hget (st_heap s3) (stream_of r1) = enc_of [ex1] /\
  hget (st_heap s3) (stream_of r2) = enc_of [ex2; ex2] /\
  r3 = Ret_err /\
  unmarshal_packed (hget (st_heap s3) (stream_of r2)) = Ok [ex2; ex2].
Proof. vm_compute. repeat split. Qed.

Example ex_seq_compressed :
  let '(s1, r1) := run_call toy_gz empty_state (PNewCompressed (str "t") [ex1]) [None; None] in
  let '(s2, r2) := run_call toy_gz s1 (PNewCompressed (str "t") [ex2]) [Some 0; Some 0] in
  let '(s3, r3) := run_call toy_gz s2 (PNewCompressedFromBytes (str "u") (stream_of r1)) [Some 0] in
  let '(s4, r4) := run_call toy_gz s3 (PNewPackedFromBytes (str "v") (stream_of r2)) [] in
  toy_gunzip (hget (st_heap s4) (stream_of r1)) = Some (enc_of [ex1]) /\
  toy_gunzip (hget (st_heap s4) (stream_of r2)) = Some (enc_of [ex2]) /\
  toy_gunzip (hget (st_heap s4) (stream_of r3)) = Some (toy_gz (enc_of [ex1])) /\
  stream_of r4 = stream_of r2 /\
  r2 = Ret_msg (str "t") (stream_of r2) (Some {| o_size := Some 1%Z; o_chunk := []; o_comp := str "gzip" |}) /\
  r3 = Ret_msg (str "u") (stream_of r3) (Some {| o_size := None; o_chunk := []; o_comp := str "gzip" |}) /\
  r4 = Ret_msg (str "v") (stream_of r2) None.
Proof. vm_compute. repeat split. Qed.

(* the premises of frame_sequential are satisfiable (the run above) *)
Example ex_seq_ok :
  seq_ok toy_gz [] empty_state
    [(PNewCompressed (str "t") [ex1], [None; None]);
     (PNewCompressed (str "t") [ex2], [Some 0; Some 0]);
     (PNewCompressedFromBytes (str "u") 3, [Some 0]);
     (PNewPackedFromBytes (str "v") 5, [])].
Proof. vm_compute. repeat split; intros x []; subst; cbn; tauto. Qed.

(* D2: the pinned code.  The stream of the first message is the pooled buffer: the second call
   gets that buffer, Resets it and encodes into it: the FIRST message now carries the SECOND
   message's entries *)
Example pinned_refuted :
  let '(s1, r1) := run_call_pinned toy_gz empty_state (PNewPacked (str "t") [ex1]) [None] in
  let '(s2, r2) := run_call_pinned toy_gz s1 (PNewPacked (str "t") [ex2]) [Some 0] in
  hget (st_heap s1) (stream_of r1) = enc_of [ex1] /\
  hget (st_heap s2) (stream_of r1) = enc_of [ex2] /\
  hget (st_heap s2) (stream_of r1) <> hget (st_heap s1) (stream_of r1) /\
  stream_of r2 = stream_of r1.
Proof. vm_compute. repeat split. discriminate. Qed.

(* D3: the same for the compressor's buffer *)
Example pinned_refuted_compressed :
  let s0 := init_state [enc_of [ex1]; enc_of [ex2]] in
  let '(s1, r1) := run_call_pinned toy_gz s0 (PNewCompressedFromBytes (str "t") 0) [None] in
  let '(s2, r2) := run_call_pinned toy_gz s1 (PNewCompressedFromBytes (str "t") 1) [Some 0] in
  toy_gunzip (hget (st_heap s1) (stream_of r1)) = Some (enc_of [ex1]) /\
  toy_gunzip (hget (st_heap s2) (stream_of r1)) = Some (enc_of [ex2]) /\
  hget (st_heap s2) (stream_of r1) <> hget (st_heap s1) (stream_of r1).
Proof. vm_compute. repeat split. discriminate. Qed.

(* the same two calls on the repaired code *)
Example repaired_same_scenario :
  let s0 := init_state [enc_of [ex1]; enc_of [ex2]] in
  let '(s1, r1) := run_call toy_gz s0 (PNewCompressedFromBytes (str "t") 0) [None] in
  let '(s2, r2) := run_call toy_gz s1 (PNewCompressedFromBytes (str "t") 1) [Some 0] in
  toy_gunzip (hget (st_heap s2) (stream_of r1)) = Some (enc_of [ex1]) /\
  toy_gunzip (hget (st_heap s2) (stream_of r2)) = Some (enc_of [ex2]) /\
  hget (st_heap s2) 0 = enc_of [ex1] /\ hget (st_heap s2) 1 = enc_of [ex2].
Proof. vm_compute. repeat split. Qed.

(* pinned, two goroutines: thread 0's call has returned; thread 1's Get picks the buffer *)
Example pinned_refuted_concurrent :
  let c0 := init_config empty_state 2 in
  let sch1 := [SCall 0 (PNewPacked (str "a") [ex1]); SCall 1 (PNewPacked (str "b") [ex2]);
               SStep 0 None; SStep 0 None; SStep 0 None; SStep 0 None] in
  let sch2 := [SStep 1 (Some 0); SStep 1 None] in
  let c1 := cexec_pinned toy_gz c0 sch1 in
  let c2 := cexec_pinned toy_gz c1 sch2 in
  visible c1 = [0] /\
  hget (st_heap (c_st c1)) 0 = enc_of [ex1] /\ hget (st_heap (c_st c2)) 0 = enc_of [ex2].
Proof. vm_compute. repeat split. Qed.

(* the same schedule on the repaired code, and an interleaving in which both goroutines are
   between Get and Put at the same time *)
Example repaired_concurrent :
  let c0 := init_config empty_state 2 in
  let sch1 := [SCall 0 (PNewPacked (str "a") [ex1]); SCall 1 (PNewPacked (str "b") [ex2]);
               SStep 0 None; SStep 0 None; SStep 0 None; SStep 0 None] in
  let sch2 := [SStep 1 (Some 0); SStep 1 None; SStep 1 None; SStep 1 None;
               SCall 0 (PNewCompressed (str "c") [ex1]); SCall 1 (PNewCompressedFromBytes (str "d") 1);  (* 1: thread 0's first result *)
               SStep 0 (Some 0); SStep 1 None; SStep 0 None; SStep 1 None; SStep 1 None;
               SStep 0 None; SStep 0 None; SStep 1 None; SStep 0 (Some 0); SStep 0 None; SStep 0 None; SStep 0 None] in
  let c1 := cexec toy_gz c0 sch1 in
  let c2 := cexec toy_gz c1 sch2 in
  sched_ok toy_gz [] c0 (sch1 ++ sch2) = true /\
  visible c1 = [1] /\
  hget (st_heap (c_st c1)) 1 = enc_of [ex1] /\ hget (st_heap (c_st c2)) 1 = enc_of [ex1] /\
  map result (c_thr c2) =
    [Ret_msg (str "c") 6 (Some {| o_size := Some 1%Z; o_chunk := []; o_comp := str "gzip" |});
     Ret_msg (str "d") 4 (Some {| o_size := None; o_chunk := []; o_comp := str "gzip" |})] /\
  toy_gunzip (hget (st_heap (c_st c2)) 6) = Some (enc_of [ex1]) /\
  toy_gunzip (hget (st_heap (c_st c2)) 4) = Some (enc_of [ex1]).
Proof. vm_compute. repeat split. Qed.

(* a library that forgets Reset: the compressed stream starts with the previous message *)
Example noreset_refuted :
  let s0 := {| st_heap := [toy_gz (enc_of [ex2]); enc_of [ex1]]; st_bufpool := []; st_gzpool := [0] |} in
  let '(s1, r1) := run_call_noreset toy_gz s0 (PNewCompressedFromBytes (str "t") 1) [Some 0] in
  wf_state s0 /\ ~ In 1 (st_gzpool s0) /\
  hget (st_heap s1) (stream_of r1) = toy_gz (enc_of [ex2]) ++ toy_gz (enc_of [ex1]) /\
  toy_gunzip (hget (st_heap s1) (stream_of r1)) <> Some (enc_of [ex1]).
Proof.
  vm_compute. repeat split; try discriminate.
  - intros x [<-|[]]; lia.
  - intros [E|[]]; discriminate.
Qed.

(* ---------- C03 under concurrency ----------
   sync.Pool hands an object to ONE goroutine at a time; with that (an object is pooled at
   most once, initially) every call of every goroutine returns the value of the sequential
   theorems, for every interleaving. *)

Definition cnt (l : list loc) (x : loc) : nat := count_occ Nat.eq_dec l x.
(* exclusive ownership: no cell is owned twice *)
Definition Excl (O : list loc) : Prop := forall x, cnt O x <= 1.

Lemma cnt_app a b x : cnt (a ++ b) x = cnt a x + cnt b x.
Proof. apply count_occ_app. Qed.
Lemma cnt_cons c a x : cnt (c :: a) x = (if Nat.eq_dec c x then 1 else 0) + cnt a x.
Proof. unfold cnt. cbn. destruct (Nat.eq_dec c x); auto. Qed.
Lemma cnt_nil x : cnt [] x = 0.
Proof. reflexivity. Qed.
Lemma cnt_in a x : In x a -> 1 <= cnt a x.
Proof. intros H. apply (count_occ_In Nat.eq_dec) in H. unfold cnt. lia. Qed.
Lemma cnt_notin a x : ~ In x a -> cnt a x = 0.
Proof. intros H. now apply (count_occ_not_In Nat.eq_dec). Qed.
Lemma Excl_NoDup O : NoDup O -> Excl O.
Proof. intros H x. now apply (NoDup_count_occ Nat.eq_dec). Qed.

Lemma cnt_remove_nth k : forall pool c x, nth_error pool k = Some c ->
  cnt pool x = cnt (c :: remove_nth k pool) x.
Proof.
  induction k as [|k IH]; intros [|a pool] c x H; try discriminate; cbn [nth_error remove_nth] in *.
  - now inversion H.
  - rewrite (cnt_cons a), (IH pool c x H), !cnt_cons. lia.
Qed.

Lemma pool_get_cnt h pool ch h' pool' c : pool_get h pool ch = (h', pool', c) ->
  (h' = h /\ forall x, cnt pool x = cnt (c :: pool') x) \/ (h' = h ++ [[]] /\ c = length h /\ pool' = pool).
Proof.
  unfold pool_get, halloc. destruct ch as [k|].
  - destruct (nth_error pool k) eqn:E; intros H; inversion H; subst; auto.
    left. split; auto. intros x. now apply cnt_remove_nth.
  - intros H; inversion H; subst. auto.
Qed.

Ltac cnts := unfold pools, pool_put in *; cbn [wr rs l_pc goto st_bufpool st_gzpool st_heap with_heap] in *;
  repeat (rewrite cnt_app in * || rewrite cnt_cons in * || rewrite cnt_nil in * ).

Section ConcValue.
  Variable gz : bytes -> bytes.

  Lemma pstep_excl s l ch s' l' Oo :
    (forall x, In x (pools s ++ wr l ++ Oo) -> x < length (st_heap s)) ->
    Excl (pools s ++ wr l ++ Oo) -> pstep gz s l ch = Some (s', l') -> Excl (pools s' ++ wr l' ++ Oo).
  Proof.
    intros A X H. destruct l as [cl p]. unfold pstep, pstep_gen in H. cbn [l_pc l_call] in H.
    destruct p.
    - destruct (pool_get (st_heap s) (st_bufpool s) ch) as [[h1 p1] c] eqn:G. inversion H; subst; clear H.
      apply pool_get_cnt in G as [(-> & Hc)|(-> & -> & ->)]; intros x; specialize (X x).
      + cnts. specialize (Hc x). cnts. lia.
      + assert (cnt (pools s ++ wr {| l_call := cl; l_pc := M_get |} ++ Oo) (length (st_heap s)) = 0).
        { apply cnt_notin. intros Hin. apply A in Hin. lia. }
        cnts. destruct (Nat.eq_dec (length (st_heap s)) x); subst; lia.
    - destruct (marshal_packed (call_es cl)); inversion H; subst; clear H; intros x; specialize (X x); cnts; lia.
    - unfold copy_out, halloc in H. cbn [v_copy repaired] in H. inversion H; subst; clear H.
      intros x; specialize (X x); cnts; lia.
    - inversion H; subst; clear H. intros x; specialize (X x).
      destruct cl; cbn [after_marshal] in *; cnts; lia.
    - destruct (pool_get (st_heap s) (st_gzpool s) ch) as [[h1 p1] c] eqn:G. inversion H; subst; clear H.
      apply pool_get_cnt in G as [(-> & Hc)|(-> & -> & ->)]; intros x; specialize (X x).
      + cnts. specialize (Hc x). cnts. lia.
      + assert (cnt (pools s ++ wr {| l_call := cl; l_pc := Z_get src |} ++ Oo) (length (st_heap s)) = 0).
        { apply cnt_notin. intros Hin. apply A in Hin. lia. }
        cnts. destruct (Nat.eq_dec (length (st_heap s)) x); subst; lia.
    - inversion H; subst; clear H. intros x; specialize (X x); cnts; lia.
    - unfold copy_out, halloc in H. cbn [v_copy repaired] in H. inversion H; subst; clear H.
      intros x; specialize (X x); cnts; lia.
    - inversion H; subst; clear H. intros x; specialize (X x); cnts; lia.
    - inversion H; subst; clear H. intros x; specialize (X x); cnts; lia.
    - discriminate.
  Qed.

  (* what each call must return (the statements of the sequential value theorems) *)
  Definition ret_spec (cl : call) (h : heap) (r : ret) : Prop :=
    match cl, r with
    | PMarshalPacked es, Ret_bytes x => marshal_packed es = Ok (hget h x)
    | PNewPacked tag es, Ret_msg t x o =>
        t = tag /\ o = Some (size_opts (length es)) /\ marshal_packed es = Ok (hget h x)
    | PNewPackedFromBytes tag s, Ret_msg t x o => t = tag /\ x = s /\ o = None
    | PNewCompressedFromBytes tag s, Ret_msg t x o =>
        t = tag /\ o = Some (comp_opts cl) /\ hget h x = gz (hget h s)
    | PNewCompressed tag es, Ret_msg t x o =>
        t = tag /\ o = Some (comp_opts cl) /\ exists e, marshal_packed es = Ok e /\ hget h x = gz e
    | PMarshalPacked es, Ret_err | PNewPacked _ es, Ret_err | PNewCompressed _ es, Ret_err =>
        is_ok (marshal_packed es) = false
    | _, _ => False
    end.

  Definition is_mcall (cl : call) : Prop :=
    match cl with PMarshalPacked _ | PNewPacked _ _ | PNewCompressed _ _ => True | _ => False end.
  (* what the compressor is to compress *)
  Definition payload (cl : call) (h : heap) : option bytes :=
    match cl with
    | PNewCompressed _ es => match marshal_packed es with Ok e => Some e | _ => None end
    | PNewCompressedFromBytes _ s => Some (hget h s)
    | _ => None
    end.

  (* the assertion at each program point *)
  Definition Asrt (h : heap) (l : local) : Prop :=
    l = idle \/
    match l_pc l with
    | M_get | M_enc _ => is_mcall (l_call l)
    | M_copy c => is_mcall (l_call l) /\ marshal_packed (call_es (l_call l)) = Ok (hget h c)
    | M_put _ r => is_mcall (l_call l) /\ marshal_packed (call_es (l_call l)) = Ok (hget h r)
    | Z_get src | Z_write src _ => payload (l_call l) h = Some (hget h src)
    | Z_copy c => option_map gz (payload (l_call l) h) = Some (hget h c)
    | Z_put _ r => option_map gz (payload (l_call l) h) = Some (hget h r)
    | B_build src => exists tag, l_call l = PNewPackedFromBytes tag src
    | Done r => ret_spec (l_call l) h r
    end.

  Definition cells (l : local) : list loc := wr l ++ rs l ++ call_src (l_call l).

  Lemma payload_ext cl h h' :
    (forall x, In x (call_src cl) -> hget h' x = hget h x) -> payload cl h' = payload cl h.
  Proof. destruct cl; cbn [payload call_src]; auto. intros E. rewrite E; cbn; auto. Qed.

  (* the assertion of a thread only looks at the thread's own cells *)
  Lemma Asrt_ext h h' l : (forall x, In x (cells l) -> hget h' x = hget h x) -> Asrt h l -> Asrt h' l.
  Proof.
    unfold cells. intros E [->|A]; [now left|right].
    assert (P : payload (l_call l) h' = payload (l_call l) h).
    { apply payload_ext. intros x Hx. apply E. rewrite !in_app_iff. auto. }
    destruct l as [cl p]. cbn [l_call l_pc] in *.
    destruct p; cbn [wr rs l_pc] in E; rewrite ?P; auto;
      try (rewrite E by (rewrite !in_app_iff; cbn [In]; auto); exact A).
    destruct cl, r; cbn [ret_spec ret_locs call_src] in *; auto;
      rewrite ?(E l) by (rewrite !in_app_iff; cbn [In]; auto);
      rewrite ?(E stream) by (rewrite !in_app_iff; cbn [In]; auto);
      rewrite ?(E src) by (rewrite !in_app_iff; cbn [In]; auto); exact A.
  Qed.

  (* a micro-step writes only the pooled cell the thread holds, and new cells *)
  Lemma pstep_frame s l ch s' l' : pstep gz s l ch = Some (s', l') ->
    l_call l' = l_call l /\
    length (st_heap s) <= length (st_heap s') /\
    forall x, x < length (st_heap s) -> ~ In x (wr l) -> hget (st_heap s') x = hget (st_heap s) x.
  Proof.
    intros H. destruct l as [cl p]. unfold pstep, pstep_gen in H. cbn [l_pc l_call] in H.
    destruct p; cbn [wr l_pc In].
    - destruct (pool_get (st_heap s) (st_bufpool s) ch) as [[h1 p1] c] eqn:G. inversion H; subst; clear H.
      cbn [st_heap l_call goto]. apply pool_get_spec in G as [(-> & _)|(-> & _)]; split; auto.
      rewrite length_alloc. split; [lia|]. intros. now apply hget_alloc_old.
    - destruct (marshal_packed (call_es cl)); inversion H; subst; clear H;
        cbn [st_heap l_call goto with_heap do_reset repaired v_reset]; unfold do_write;
        rewrite ?length_hset; (split; [reflexivity|split; [lia|]]); intros x Hx Hn;
        rewrite !hget_hset_other by tauto; reflexivity.
    - unfold copy_out, halloc in H. cbn [v_copy repaired] in H. inversion H; subst; clear H.
      cbn [st_heap l_call goto with_heap]. rewrite length_alloc. split; auto. split; [lia|].
      intros. now apply hget_alloc_old.
    - inversion H; subst; clear H. cbn [st_heap l_call goto]. auto.
    - destruct (pool_get (st_heap s) (st_gzpool s) ch) as [[h1 p1] c] eqn:G. inversion H; subst; clear H.
      cbn [st_heap l_call goto]. apply pool_get_spec in G as [(-> & _)|(-> & _)]; split; auto.
      rewrite length_alloc. split; [lia|]. intros. now apply hget_alloc_old.
    - inversion H; subst; clear H.
      cbn [st_heap l_call goto with_heap do_reset repaired v_reset]; unfold do_write;
        rewrite ?length_hset; (split; [reflexivity|split; [lia|]]); intros x Hx Hn;
        rewrite !hget_hset_other by tauto; reflexivity.
    - unfold copy_out, halloc in H. cbn [v_copy repaired] in H. inversion H; subst; clear H.
      cbn [st_heap l_call goto with_heap]. rewrite length_alloc. split; auto. split; [lia|].
      intros. now apply hget_alloc_old.
    - inversion H; subst; clear H. cbn [st_heap l_call goto]. auto.
    - inversion H; subst; clear H. cbn [st_heap l_call goto]. auto.
    - discriminate.
  Qed.

  (* the thread's own step establishes its next assertion *)
  Lemma own_step s l ch s' l' :
    (forall x, In x (wr l) -> x < length (st_heap s)) ->
    (forall x, In x (rs l ++ call_src (l_call l)) -> x < length (st_heap s) /\ ~ In x (wr l)) ->
    Asrt (st_heap s) l -> pstep gz s l ch = Some (s', l') -> Asrt (st_heap s') l'.
  Proof.
    intros Hw Hr [->|A] H; [discriminate|]. right.
    destruct l as [cl p]. unfold pstep, pstep_gen in H. cbn [l_pc l_call wr rs] in *.
    destruct p.
    - destruct (pool_get (st_heap s) (st_bufpool s) ch) as [[h1 p1] c] eqn:G. inversion H; subst; clear H.
      exact A.
    - destruct (marshal_packed (call_es cl)) eqn:E; inversion H; subst; clear H;
        cbn [goto l_pc l_call st_heap with_heap do_reset repaired v_reset].
      + split; auto. rewrite hget_reset_write; auto. apply Hw. now left.
      + destruct cl; try contradiction; cbn [ret_spec call_es] in *; now rewrite E.
      + destruct cl; try contradiction; cbn [ret_spec call_es] in *; now rewrite E.
    - unfold copy_out, halloc in H. cbn [v_copy repaired] in H. inversion H; subst; clear H.
      cbn [goto l_pc l_call st_heap with_heap]. rewrite hget_alloc_new. exact A.
    - inversion H; subst; clear H. cbn [goto l_pc l_call st_heap]. destruct A as [M A].
      destruct cl; try contradiction; cbn [after_marshal ret_spec call_es payload] in *; auto.
      now rewrite A.
    - destruct (pool_get (st_heap s) (st_gzpool s) ch) as [[h1 p1] c] eqn:G. inversion H; subst; clear H.
      cbn [goto l_pc l_call st_heap].
      apply pool_get_spec in G as [(-> & _)|(-> & _)]; auto.
      rewrite (payload_ext cl (st_heap s)).
      + rewrite hget_alloc_old; auto. apply Hr. now left.
      + intros x Hx. apply hget_alloc_old. apply Hr. right. exact Hx.
    - inversion H; subst; clear H. cbn [goto l_pc l_call st_heap with_heap do_reset repaired v_reset].
      assert (Hc : c < length (st_heap s)) by (apply Hw; now left).
      assert (Hs : c <> src) by (intros ->; apply (Hr src); [now left|now left]).
      rewrite hget_reset_write by auto. rewrite hget_hset_other by auto.
      rewrite (payload_ext cl (st_heap s)).
      + now rewrite A.
      + intros x Hx. apply hget_reset_write_other. intros ->. apply (Hr x); [right; exact Hx|now left].
    - unfold copy_out, halloc in H. cbn [v_copy repaired] in H. inversion H; subst; clear H.
      cbn [goto l_pc l_call st_heap with_heap]. rewrite hget_alloc_new.
      rewrite (payload_ext cl (st_heap s)); auto.
      intros x Hx. apply hget_alloc_old. apply Hr. exact Hx.
    - inversion H; subst; clear H. cbn [goto l_pc l_call st_heap].
      destruct cl; cbn [payload option_map ret_spec call_tag] in *; try discriminate.
      + inversion A. auto.
      + destruct (marshal_packed es) as [e| |]; cbn [option_map] in A; try discriminate.
        inversion A. repeat split; auto. exists e. auto.
    - inversion H; subst; clear H. cbn [goto l_pc l_call st_heap].
      destruct A as [tag ->]. cbn [ret_spec call_tag]. auto.
    - discriminate.
  Qed.

  Lemma Asrt_start h cl : Asrt h (start cl).
  Proof. right. destruct cl; cbn; eauto. Qed.

  Lemma Inv_O h O R prot x : Inv h O R prot -> In x O -> x < length h.
  Proof. intros (A & _) H. auto. Qed.
  Lemma Inv_R h O R prot x : Inv h O R prot -> In x R -> x < length h /\ ~ In x O.
  Proof. intros (_ & B & _) H. auto. Qed.
  Lemma Inv_P h O R prot x : Inv h O R prot -> In x (map fst prot) -> x < length h /\ ~ In x O.
  Proof.
    intros (_ & _ & C) H. apply in_map_iff in H as ([y v] & E & H). cbn in E; subst y.
    destruct (C x v H) as (L & N & _). auto.
  Qed.

  Definition CInv2 (c : config) (prot : list (loc * bytes)) : Prop :=
    CInv c prot /\ Excl (cO c) /\
    forall l, In l (c_thr c) ->
      (forall x, In x (call_src (l_call l)) -> In x (map fst prot)) /\ Asrt (st_heap (c_st c)) l.

  Lemma capply_inv2 known c prot i c' :
    CInv2 c prot -> (forall x, In x known -> In x (map fst prot)) ->
    item_ok known c i = true -> capply gz c i = Some c' ->
    exists prot', incl prot prot' /\ CInv2 c' prot'.
  Proof.
    intros (J & X & T) K Hi H.
    destruct (capply_inv gz known c prot i c' J K Hi H) as (prot' & Inc & J').
    exists prot'. split; auto. split; auto.
    destruct J as [I V]. destruct c as [s thr]. unfold capply, capply_gen in H.
    unfold cO, cR in *. cbn [c_st c_thr] in *.
    destruct i as [t ch|t cl].
    - destruct (nth_error thr t) as [l|] eqn:E; [|discriminate].
      destruct (pstep_gen gz repaired s l ch) as [[s' l']|] eqn:P; [|discriminate].
      inversion H; subst; clear H.
      destruct (upd_nth_split thr t l E) as (pre & post & -> & U). rewrite U in *. cbn [c_st c_thr].
      destruct (pstep_frame s l ch s' l' P) as (Ecall & Hlen & Hfr).
      assert (Hl : In l (pre ++ l :: post)) by (apply in_or_app; right; now left).
      assert (Hwl : forall x, In x (wr l) -> In x (pools s ++ flat_map wr (pre ++ l :: post))).
      { intros x Hx. apply in_or_app. right. apply in_flat_map. eauto. }
      split.
      + (* exclusive ownership *)
        assert (X0 : Excl (pools s ++ wr l ++ flat_map wr pre ++ flat_map wr post)).
        { intros x. specialize (X x). rewrite flat_map_app in X. cbn [flat_map] in X.
          rewrite !cnt_app in *. lia. }
        assert (A0 : forall x, In x (pools s ++ wr l ++ flat_map wr pre ++ flat_map wr post) -> x < length (st_heap s)).
        { intros x Hx. apply (Inv_O _ _ _ _ x I). rewrite flat_map_app. cbn [flat_map].
          rewrite !in_app_iff in *. tauto. }
        pose proof (pstep_excl s l ch s' l' _ A0 X0 P) as X1.
        intros x. specialize (X1 x). rewrite flat_map_app. cbn [flat_map]. rewrite !cnt_app in *. lia.
      + intros l0 Hl0. apply in_app_or in Hl0 as [Hl0|[<-|Hl0]].
        * (* another thread *)
          destruct (T l0) as [S0 A0]. { apply in_or_app. now left. }
          split. { intros x Hx. eapply dom_incl; eauto. }
          apply (Asrt_ext (st_heap s)); auto. intros x Hx. unfold cells in Hx.
          assert (Hx' : x < length (st_heap s) /\ ~ In x (wr l)).
          { rewrite !in_app_iff in Hx. destruct Hx as [Hx|[Hx|Hx]].
            - split. { apply (Inv_O _ _ _ _ x I). apply in_or_app. right. apply in_flat_map. exists l0. split; auto. apply in_or_app; now left. }
              intros Hxl. specialize (X x). rewrite flat_map_app in X. cbn [flat_map] in X. rewrite !cnt_app in X.
              assert (1 <= cnt (flat_map wr pre) x) by (apply cnt_in, in_flat_map; eauto).
              pose proof (cnt_in _ _ Hxl). lia.
            - destruct (Inv_R _ _ _ _ x I) as [L N]. { apply in_flat_map. exists l0. split; auto. apply in_or_app; now left. }
              split; auto.
            - destruct (Inv_P _ _ _ _ x I (S0 x Hx)) as [L N]. split; auto. }
          apply Hfr; tauto.
        * (* the thread that stepped *)
          destruct (T l Hl) as [S0 A0]. rewrite Ecall.
          split. { intros x Hx. eapply dom_incl; eauto. }
          apply (own_step s l ch s' l'); auto.
          -- intros x Hx. apply (Inv_O _ _ _ _ x I). auto.
          -- intros x Hx. apply in_app_or in Hx as [Hx|Hx].
             ++ destruct (Inv_R _ _ _ _ x I) as [L N]. { apply in_flat_map. eauto. } split; auto.
             ++ destruct (Inv_P _ _ _ _ x I (S0 x Hx)) as [L N]. split; auto.
        * destruct (T l0) as [S0 A0]. { apply in_or_app. right. now right. }
          split. { intros x Hx. eapply dom_incl; eauto. }
          apply (Asrt_ext (st_heap s)); auto. intros x Hx. unfold cells in Hx.
          assert (Hx' : x < length (st_heap s) /\ ~ In x (wr l)).
          { rewrite !in_app_iff in Hx. destruct Hx as [Hx|[Hx|Hx]].
            - split. { apply (Inv_O _ _ _ _ x I). apply in_or_app. right. apply in_flat_map. exists l0. split; auto. apply in_or_app; right; now right. }
              intros Hxl. specialize (X x). rewrite flat_map_app in X. cbn [flat_map] in X. rewrite !cnt_app in X.
              assert (1 <= cnt (flat_map wr post) x) by (apply cnt_in, in_flat_map; eauto).
              pose proof (cnt_in _ _ Hxl). lia.
            - destruct (Inv_R _ _ _ _ x I) as [L N]. { apply in_flat_map. exists l0. split; auto. apply in_or_app; right; now right. }
              split; auto.
            - destruct (Inv_P _ _ _ _ x I (S0 x Hx)) as [L N]. split; auto. }
          apply Hfr; tauto.
    - destruct (nth_error thr t) as [l|] eqn:E; [|discriminate].
      destruct (is_done l) eqn:D; [|discriminate]. inversion H; subst; clear H.
      destruct (upd_nth_split thr t l E) as (pre & post & -> & U). rewrite U in *. cbn [c_st c_thr item_ok] in *.
      split.
      + intros x. specialize (X x). rewrite flat_map_app in X |- *. cbn [flat_map] in X |- *.
        rewrite wr_start. rewrite !cnt_app in X |- *. rewrite cnt_nil. lia.
      + intros l0 Hl0. apply in_app_or in Hl0 as [Hl0|[<-|Hl0]].
        * destruct (T l0) as [S0 A0]. { apply in_or_app. now left. }
          split; auto. intros x Hx. eapply dom_incl; eauto.
        * split; [|apply Asrt_start].
          intros x Hx. replace (l_call (start cl)) with cl in Hx by now destruct cl.
          rewrite forallb_forall in Hi. specialize (Hi x Hx).
          apply existsb_exists in Hi as (y & Hy & Eq). apply Nat.eqb_eq in Eq. subst y.
          apply (dom_incl prot); auto. apply in_app_or in Hy as [Hy|Hy]; auto.
        * destruct (T l0) as [S0 A0]. { apply in_or_app. right. now right. }
          split; auto. intros x Hx. eapply dom_incl; eauto.
  Qed.

  Lemma cexec_inv2 sch : forall known c prot,
    CInv2 c prot -> (forall x, In x known -> In x (map fst prot)) ->
    sched_ok gz known c sch = true ->
    exists prot', incl prot prot' /\ CInv2 (cexec gz c sch) prot'.
  Proof.
    induction sch as [|i sch IH]; intros known c prot J K Hok.
    - exists prot. split; [apply incl_refl|exact J].
    - rewrite cexec_cons. unfold sched_ok in *. cbn [sched_ok_gen] in Hok.
      apply andb_prop in Hok as [Hi Hok].
      assert (exists prot1, incl prot prot1 /\ CInv2 (cnext_gen gz repaired c i) prot1) as (prot1 & Inc1 & J1).
      { unfold cnext_gen. destruct (capply_gen gz repaired c i) as [c'|] eqn:E.
        - eapply capply_inv2; eauto.
        - exists prot. split; [apply incl_refl|exact J]. }
      assert (K1 : forall x, In x (known ++ visible (cnext_gen gz repaired c i)) -> In x (map fst prot1)).
      { intros x Hx. apply in_app_or in Hx as [Hx|Hx]. { eapply dom_incl; eauto. }
        now apply (proj2 (proj1 J1)). }
      destruct (IH _ _ prot1 J1 K1 Hok) as (prot2 & Inc2 & J2).
      exists prot2. split; auto. eapply incl_tran; eauto.
  Qed.

  (* C03 for every interleaving: whenever a goroutine's call has returned, the result
     satisfies the specification of that call (in the heap of that moment, and by [frame] at
     every later moment) *)
  Theorem conc_value caller c0 sch :
    init_ok caller c0 -> NoDup (pools (c_st c0)) -> sched_ok gz caller c0 sch = true ->
    let c := cexec gz c0 sch in
    forall l r, In l (c_thr c) -> l_pc l = Done r ->
                l = idle \/ ret_spec (l_call l) (st_heap (c_st c)) r.
  Proof.
    intros I0 ND Hok c l r Hl D.
    assert (J0 : CInv2 c0 (prot0 (st_heap (c_st c0)) caller)).
    { split; [now apply init_inv|]. destruct I0 as (W & Hc & T).
      destruct (threads_init_foot caller _ T) as (Hwr & _ & _).
      split.
      - unfold cO. rewrite Hwr, app_nil_r. now apply Excl_NoDup.
      - intros l0 Hl0. rewrite Forall_forall in T. destruct (T l0 Hl0) as [->|(cl & -> & Hs)].
        + split; [intros x []|now left].
        + split; [|apply Asrt_start]. rewrite dom_prot0.
          intros x Hx. apply Hs. now destruct cl. }
    assert (K0 : forall x, In x caller -> In x (map fst (prot0 (st_heap (c_st c0)) caller)))
      by (now rewrite dom_prot0).
    destruct (cexec_inv2 sch caller c0 _ J0 K0 Hok) as (prot & _ & (_ & _ & T)).
    destruct (T l Hl) as [_ [->|A]]; [now left|right]. now rewrite D in A.
  Qed.
End ConcValue.

Print Assumptions conc_value.

(* the specification is the one of the sequential theorems; e.g. for NewPackedForwardMessage *)
Example conc_value_reads gz h tag es r :
  ret_spec gz (PNewPacked tag es) h r ->
  (exists x, r = Ret_msg tag x (Some {| o_size := Some (Z.of_nat (length es)); o_chunk := []; o_comp := [] |})
             /\ marshal_packed es = Ok (hget h x))
  \/ (r = Ret_err /\ is_ok (marshal_packed es) = false).
Proof.
  destruct r; cbn [ret_spec]; try contradiction.
  - intros (-> & -> & E). left. eauto.
  - intros E. right. auto.
Qed.

(* non-vacuity: the interleaved run of [repaired_concurrent] satisfies the premises *)
Example conc_value_premises :
  init_ok [] (init_config empty_state 2) /\ NoDup (pools (c_st (init_config empty_state 2))).
Proof.
  split; [|constructor]. split; [exact wf_empty|]. split; [intros x []|].
  repeat constructor.
Qed.

Print Assumptions marshal_packed_value_err.
Print Assumptions packed_value_err.
Print Assumptions compressed_value_err.
Print Assumptions packed_bytes_value.
Print Assumptions pinned_refuted.
Print Assumptions pinned_refuted_compressed.
Print Assumptions pinned_refuted_concurrent.
Print Assumptions noreset_refuted.
Print Assumptions repaired_concurrent.
