(* The Send* helpers put on the wire the Forward-protocol message of the mode they name, stamped with the
   clock reading, carrying exactly the caller's tag / record / entries / bytes (model/Helpers.v); the judge
   is the specification parser of model/Spec.v, through the wire-conformance theorems. *)
From FF Require Import model.Bytes model.Show model.Msgp model.Forward model.Spec model.Wf model.Abs model.Pool model.Helpers.
From FF Require Import proofs.Spec_Proofs proofs.Wire_Proofs.
From Coq Require Import Lia ZifyN ZifyNat ZifyBool.
Open Scope N_scope.

Section H.
  Variable gz : bytes -> bytes.

  Lemma wf_size_opts n : int64_ok (Z.of_nat n) = true -> wf_options (size_opts n) = true.
  Proof. intros H. unfold wf_options, size_opts. cbn. now rewrite H. Qed.

  (* SendMessage: Message mode [tag, now.seconds, record, nil] *)
  Theorem helper_message now tag rec e :
    len tag < two32 -> int64_ok (fst now) = true -> wf_gval rec = true -> is_gmap rec = true ->
    helper_wire gz now (HSendMessage tag rec) = Ok e ->
    spec_parse shape_message e = Some (SMessage tag (TInt (fst now)) (value_of rec) None, []).
  Proof.
    intros Ht Hn Hr Hm H. cbn [helper_wire] in H.
    apply (wire_message (new_message now tag rec) e); auto.
    unfold wf_message, new_message. cbn. rewrite Hn, Hr. destruct (N.ltb_spec (len tag) two32); [reflexivity|lia].
  Qed.

  (* SendMessageExt: Message mode with an EventTime [tag, EventTime(now), record, nil] *)
  Theorem helper_message_ext now tag rec e :
    len tag < two32 -> wf_instant now = true -> wf_gval rec = true -> is_gmap rec = true ->
    helper_wire gz now (HSendMessageExt tag rec) = Ok e ->
    spec_parse shape_message e = Some (SMessage tag (stime_of now) (value_of rec) None, []).
  Proof.
    intros Ht Hn Hr Hm H. cbn [helper_wire] in H.
    apply (wire_message_ext (new_message_ext now tag rec) e); auto.
    unfold wf_message_ext, new_message_ext. cbn. rewrite Hn, Hr. destruct (N.ltb_spec (len tag) two32); [reflexivity|lia].
  Qed.

  (* SendForward: Forward mode with exactly the entries, option size = their number *)
  Theorem helper_forward now tag es e :
    len tag < two32 -> len es < two32 -> forallb wf_entry es = true ->
    forallb (fun en => is_gmap (e_rec en)) es = true ->
    helper_wire gz now (HSendForward tag es) = Ok e ->
    spec_parse shape_forward e = Some (abs_forward (new_forward tag es), []).
  Proof.
    intros Ht Hl Hw Hm H. cbn [helper_wire] in H.
    apply (wire_forward (new_forward tag es) e); auto.
    unfold wf_forward, new_forward. cbn [f_tag f_entries f_opts wf_optopt]. rewrite Hw.
    rewrite wf_size_opts.
    - destruct (N.ltb_spec (len tag) two32), (N.ltb_spec (len es) two32); try lia; reflexivity.
    - unfold int64_ok. unfold len, two32 in Hl. lia.
  Qed.

  (* SendPacked / SendPackedFromBytes / SendCompressed / SendCompressedFromBytes: PackedForward mode *)
  Theorem helper_packed_from_bytes now tag st e :
    len tag < two32 -> len st < two32 ->
    helper_wire gz now (HSendPackedFromBytes tag st) = Ok e ->
    spec_parse shape_packed e = Some (SPacked tag st None, []).
  Proof.
    intros Ht Hs H. cbn [helper_wire] in H. inversion H; subst. apply (wire_packed (new_packed_from_bytes tag st)).
    unfold wf_packed, new_packed_from_bytes. cbn.
    destruct (N.ltb_spec (len tag) two32), (N.ltb_spec (len st) two32); try lia; reflexivity.
  Qed.

  Theorem helper_packed now tag es e :
    len tag < two32 -> len es < two32 ->
    helper_wire gz now (HSendPacked tag es) = Ok e ->
    exists st, marshal_packed es = Ok st /\
      (len st < two32 -> spec_parse shape_packed e = Some (abs_packed {| p_tag := tag; p_stream := st; p_opts := Some (size_opts (length es)) |}, [])).
  Proof.
    intros Ht Hl H. cbn [helper_wire] in H. unfold new_packed in H.
    destruct (marshal_packed es) as [st|?|] eqn:E; cbn [bind] in H; try discriminate.
    inversion H; subst. exists st. split; auto. intros Hs. apply wire_packed.
    unfold wf_packed. cbn [p_tag p_stream p_opts wf_optopt]. rewrite wf_size_opts.
    - destruct (N.ltb_spec (len tag) two32), (N.ltb_spec (len st) two32); try lia; reflexivity.
    - unfold int64_ok. unfold len, two32 in Hl. lia.
  Qed.

  Theorem helper_compressed_from_bytes now tag st e :
    len tag < two32 -> len (gz st) < two32 ->
    helper_wire gz now (HSendCompressedFromBytes tag st) = Ok e ->
    spec_parse shape_packed e = Some (abs_packed (new_compressed_from_bytes gz tag st), []).
  Proof.
    intros Ht Hs H. cbn [helper_wire] in H. inversion H; subst. apply wire_packed.
    unfold wf_packed, new_compressed_from_bytes. cbn.
    destruct (N.ltb_spec (len tag) two32), (N.ltb_spec (len (gz st)) two32); try lia; reflexivity.
  Qed.

  Theorem helper_compressed now tag es e :
    len tag < two32 -> len es < two32 ->
    helper_wire gz now (HSendCompressed tag es) = Ok e ->
    exists st, marshal_packed es = Ok st /\
      (len (gz st) < two32 ->
       spec_parse shape_packed e =
         Some (abs_packed {| p_tag := tag; p_stream := gz st; p_opts := Some (gzip_opts (Some (Z.of_nat (length es)))) |}, [])).
  Proof.
    intros Ht Hl H. cbn [helper_wire] in H. unfold new_compressed in H.
    destruct (marshal_packed es) as [st|?|] eqn:E; cbn [bind] in H; try discriminate.
    inversion H; subst. exists st. split; auto. intros Hs. apply wire_packed.
    unfold wf_packed. cbn [p_tag p_stream p_opts wf_optopt]. unfold wf_options, gzip_opts. cbn.
    assert (int64_ok (Z.of_nat (length es)) = true) as -> by (unfold int64_ok; unfold len, two32 in Hl; lia).
    destruct (N.ltb_spec (len tag) two32), (N.ltb_spec (len (gz st)) two32); try lia; reflexivity.
  Qed.
End H.
