(* EventTime payload (8 bytes: big-endian uint32 seconds, uint32 nanoseconds):
   round trip, length discipline, re-encoding, injectivity and order preservation. *)
From FF Require Import model.Bytes model.Msgp model.Wf proofs.Bytes_Proofs.
From Coq Require Import Lia ZifyN ZifyNat ZifyBool.
Open Scope N_scope.

(* ---------- generic list / byte-string helpers ---------- *)

Lemma firstn_app_len {A} (x y : list A) : firstn (length x) (x ++ y) = x.
Proof. induction x as [|a x IH]; cbn; [now destruct y | now rewrite IH]. Qed.

Lemma skipn_app_len {A} (x y : list A) : skipn (length x) (x ++ y) = y.
Proof. induction x as [|a x IH]; cbn; auto. Qed.

Lemma be4_unbe x : length x = 4%nat -> be 4 (unbe x) = x.
Proof. intros H. pose proof (be_unbe x) as E. now rewrite H in E. Qed.

Lemma pow256_4 : 256 ^ N.of_nat 4 = 4294967296.
Proof. reflexivity. Qed.

Lemma unbe_acc_lower bs : forall a, a * 256 ^ N.of_nat (length bs) <= unbe_acc a bs.
Proof.
  induction bs as [|b r IH]; intros a.
  - cbn. lia.
  - cbn [unbe_acc length]. specialize (IH (a * 256 + b2n b)).
    rewrite Nnat.Nat2N.inj_succ, N.pow_succ_r'.
    set (P := 256 ^ N.of_nat (length r)) in *. nia.
Qed.

Lemma unbe_acc_lt x y a1 a2 :
  length x = length y -> a1 < a2 -> unbe_acc a1 x < unbe_acc a2 y.
Proof.
  intros Hl Ha.
  pose proof (unbe_acc_bound x a1) as Hu. pose proof (unbe_acc_lower y a2) as Hd.
  rewrite <- Hl in Hd. set (P := 256 ^ N.of_nat (length x)) in *. nia.
Qed.

Lemma bytes_cmp_unbe_acc x : forall y a,
  length x = length y -> bytes_cmp x y = N.compare (unbe_acc a x) (unbe_acc a y).
Proof.
  induction x as [|b r IH]; intros [|c r'] a Hl; try discriminate Hl.
  - cbn. now rewrite N.compare_refl.
  - cbn [bytes_cmp unbe_acc]. injection Hl as Hl.
    pose proof (b2n_lt b) as Hb. pose proof (b2n_lt c) as Hc.
    destruct (N.compare_spec (b2n b) (b2n c)) as [E|E|E].
    + rewrite E. now apply IH.
    + symmetry. apply N.compare_lt_iff. apply unbe_acc_lt; auto. lia.
    + symmetry. apply N.compare_gt_iff. apply unbe_acc_lt; auto. lia.
Qed.

(* for equal lengths, lexicographic order is numeric big-endian order *)
Lemma bytes_cmp_unbe x y :
  length x = length y -> bytes_cmp x y = N.compare (unbe x) (unbe y).
Proof. intros. unfold unbe. now apply bytes_cmp_unbe_acc. Qed.

Lemma bytes_cmp_app a : forall b c d,
  length a = length b ->
  bytes_cmp (a ++ c) (b ++ d) = match bytes_cmp a b with Eq => bytes_cmp c d | x => x end.
Proof.
  induction a as [|x a IH]; intros [|y b] c d Hl; try discriminate Hl.
  - reflexivity.
  - cbn [app bytes_cmp]. injection Hl as Hl.
    destruct (N.compare (b2n x) (b2n y)); auto.
Qed.

(* ---------- the domain ---------- *)

Lemma wf_instant_spec s n :
  wf_instant (s, n) = true -> (0 <= s < 4294967296)%Z /\ n < 1000000000.
Proof. unfold wf_instant, nsec_mod. cbn [fst snd]. lia. Qed.

Lemma two_pow_32 : (2 ^ (8 * Z.of_nat 4))%Z = 4294967296%Z.
Proof. reflexivity. Qed.

Lemma z2n4_small s : (0 <= s < 4294967296)%Z -> z2n 4 s = Z.to_N s.
Proof. intros H. unfold z2n. rewrite two_pow_32. now rewrite Z.mod_small. Qed.

Lemma z2n4_of_N a : a < 4294967296 -> z2n 4 (Z.of_N a) = a.
Proof. intros H. rewrite z2n4_small by lia. apply N2Z.id. Qed.

(* ---------- length discipline ---------- *)

Lemma et_payload_length s n : length (et_payload s n) = 8%nat.
Proof. unfold et_payload. now rewrite app_length, !be_length. Qed.

Theorem et_len_rejected d : length d <> 8%nat -> exists e, dec_eventtime d = Err e.
Proof.
  intros H. unfold dec_eventtime. destruct (len d =? 8) eqn:E.
  - apply N.eqb_eq in E. unfold len in E. lia.
  - eauto.
Qed.

Lemma dec_eventtime_len8 d : length d = 8%nat ->
  dec_eventtime d =
  Ok (Z.of_N (unbe (firstn 4 d) + unbe (skipn 4 d) / nsec_mod), unbe (skipn 4 d) mod nsec_mod).
Proof. intros H. unfold dec_eventtime, len. rewrite H. reflexivity. Qed.

Theorem et_len_accepted d : length d = 8%nat -> exists s n, dec_eventtime d = Ok (s, n).
Proof. intros H. rewrite dec_eventtime_len8 by auto. eauto. Qed.

(* ---------- round trip ---------- *)

Lemma et_payload_firstn s n : firstn 4 (et_payload s n) = be 4 (z2n 4 s).
Proof.
  unfold et_payload. pose proof (firstn_app_len (be 4 (z2n 4 s)) (be 4 n)) as E.
  now rewrite be_length in E.
Qed.

Lemma et_payload_skipn s n : skipn 4 (et_payload s n) = be 4 n.
Proof.
  unfold et_payload. pose proof (skipn_app_len (be 4 (z2n 4 s)) (be 4 n)) as E.
  now rewrite be_length in E.
Qed.

Theorem et_roundtrip s n : wf_instant (s, n) = true -> dec_eventtime (et_payload s n) = Ok (s, n).
Proof.
  intros H. apply wf_instant_spec in H as [Hs Hn].
  rewrite dec_eventtime_len8 by apply et_payload_length.
  rewrite et_payload_firstn, et_payload_skipn, z2n4_small by auto.
  rewrite !unbe_be by (rewrite pow256_4; lia).
  unfold nsec_mod. rewrite N.div_small, N.mod_small by lia.
  f_equal. f_equal. lia.
Qed.

Theorem et_reencode d s n : length d = 8%nat -> unbe (skipn 4 d) < nsec_mod ->
  dec_eventtime d = Ok (s, n) -> et_payload s n = d.
Proof.
  intros Hl Hns H. rewrite dec_eventtime_len8 in H by auto.
  rewrite N.div_small, N.mod_small, N.add_0_r in H by auto.
  injection H as <- <-.
  assert (H1 : length (firstn 4 d) = 4%nat) by (rewrite firstn_length; lia).
  assert (H2 : length (skipn 4 d) = 4%nat) by (rewrite skipn_length; lia).
  pose proof (unbe_bound (firstn 4 d)) as Hb. rewrite H1, pow256_4 in Hb.
  unfold et_payload. rewrite z2n4_of_N by auto.
  rewrite !be4_unbe by auto.
  exact (firstn_skipn 4 d).
Qed.

Theorem et_payload_inj s1 n1 s2 n2 : wf_instant (s1, n1) = true -> wf_instant (s2, n2) = true ->
  et_payload s1 n1 = et_payload s2 n2 -> s1 = s2 /\ n1 = n2.
Proof.
  intros W1 W2 E. apply et_roundtrip in W1, W2. rewrite E in W1. rewrite W1 in W2.
  now injection W2.
Qed.

(* ---------- order ---------- *)

Definition instant_cmp (a b : Z * N) : comparison :=
  match Z.compare (fst a) (fst b) with Eq => N.compare (snd a) (snd b) | c => c end.

Theorem et_order t1 t2 : wf_instant t1 = true -> wf_instant t2 = true ->
  bytes_cmp (et_payload (fst t1) (snd t1)) (et_payload (fst t2) (snd t2)) = instant_cmp t1 t2.
Proof.
  destruct t1 as [s1 n1], t2 as [s2 n2]. intros W1 W2. cbn [fst snd].
  apply wf_instant_spec in W1 as [Hs1 Hn1]. apply wf_instant_spec in W2 as [Hs2 Hn2].
  unfold et_payload, instant_cmp. cbn [fst snd].
  rewrite bytes_cmp_app by now rewrite !be_length.
  rewrite !bytes_cmp_unbe by now rewrite !be_length.
  rewrite !z2n4_small by auto.
  rewrite !unbe_be by (rewrite pow256_4; lia).
  rewrite Z2N.inj_compare by lia.
  destruct (s1 ?= s2)%Z; reflexivity.
Qed.

Print Assumptions et_roundtrip.
Print Assumptions et_reencode.
Print Assumptions et_payload_inj.
Print Assumptions et_order.
