(* The executable multiset judge (Run.multiset_eqb) agrees with permutation modulo
   entry equality, hence with the repaired EntryList.Equal. *)
From FF Require Import model.Bytes model.EntryEqual model.Run proofs.Bytes_Proofs proofs.EntryEqual_Proofs.
From Coq Require Import SetoidList SetoidPermutation.
From Coq Require Import Lia.
Local Open Scope nat_scope.

Lemma count_eq_count a l : count_eq a l = count centry_eqb a l.
Proof. induction l as [|b r IH]; cbn; rewrite ?IH; reflexivity. Qed.

(* an element that does not occur has count 0 *)
Lemma count_notin a l : ~ InA (R centry_eqb) a l -> count centry_eqb a l = 0.
Proof.
  intros H. destruct (count centry_eqb a l) eqn:E; auto.
  exfalso. apply H. apply count_pos_InA. lia.
Qed.

Lemma InA_centry_In a l : InA (R centry_eqb) a l <-> In a l.
Proof.
  rewrite InA_alt. split.
  - intros (y & Hy & Hin). apply centry_eqb_eq in Hy. now subst.
  - intros Hin. exists a. split; auto. now apply centry_eqb_eq.
Qed.

Lemma centry_eq_dec (a b : centry) : {a = b} + {a <> b}.
Proof.
  destruct (centry_eqb a b) eqn:E.
  - left. now apply centry_eqb_eq.
  - right. intros H. apply centry_eqb_eq in H. congruence.
Qed.

Lemma multiset_eqb_iff_count l1 l2 :
  multiset_eqb l1 l2 = true <->
  forall a, count centry_eqb a l1 = count centry_eqb a l2.
Proof.
  unfold multiset_eqb. rewrite forallb_forall. split.
  - intros H a. destruct (in_dec centry_eq_dec a (l1 ++ l2)) as [Hin|Hn].
    + specialize (H a Hin). apply Nat.eqb_eq in H. now rewrite !count_eq_count in H.
    + rewrite !count_notin; auto.
      * intros HA. apply InA_centry_In in HA. apply Hn, in_or_app. auto.
      * intros HA. apply InA_centry_In in HA. apply Hn, in_or_app. auto.
  - intros H a _. apply Nat.eqb_eq. rewrite !count_eq_count. apply H.
Qed.

Theorem multiset_eqb_iff_perm l1 l2 :
  length l1 = length l2 -> (multiset_eqb l1 l2 = true <-> PermutationA (R centry_eqb) l1 l2).
Proof.
  intros Hl. rewrite multiset_eqb_iff_count.
  rewrite (perm_iff_count centry_eqb centry_equiv). tauto.
Qed.

Corollary equal_agrees_with_judge l1 l2 :
  length l1 = length l2 -> equal centry_eqb l1 l2 = multiset_eqb l1 l2.
Proof.
  intros Hl.
  pose proof (equal_iff_perm centry_eqb centry_equiv l1 l2) as H1.
  pose proof (multiset_eqb_iff_perm l1 l2 Hl) as H2.
  destruct (equal centry_eqb l1 l2), (multiset_eqb l1 l2); auto.
  - symmetry. tauto.
  - tauto.
Qed.

Print Assumptions multiset_eqb_iff_perm.
Print Assumptions equal_agrees_with_judge.
