(* Message-level round trips: every decoder of the forward protocol and of the handshake
   inverts its encoder on well-formed values, on both decoding paths, for any previous
   receiver value and any trailing bytes. *)
From Coq Require Import String.   (* before List: [length] must stay List.length *)
From FF Require Import model.Bytes model.Show model.Msgp model.Forward model.Wf model.Handshake.
From FF Require Import proofs.Bytes_Proofs proofs.Msgp_Proofs.
From Coq Require Import Lia ZifyN ZifyNat ZifyBool.
Open Scope N_scope.

(* ---------- small helpers ---------- *)

Lemma Ok_inj {A} (a b : A) : Ok a = Ok b -> a = b.
Proof. congruence. Qed.

Lemma two32_gt n : n <= 15 -> n < two32.
Proof. unfold two32. lia. Qed.

Lemma rd_map_hdr_fix n r : n <= 15 -> rd_map_hdr (n2b (128 + n) :: r) = Ok (n, r).
Proof.
  intros H. unfold rd_map_hdr. cbv zeta. rewrite b2n_n2b_small by lia. cmp.
  do 2 f_equal. lia.
Qed.

Lemma rd_arr_hdr_fix n r : n <= 15 -> rd_arr_hdr (n2b (144 + n) :: r) = Ok (n, r).
Proof.
  intros H. unfold rd_arr_hdr. cbv zeta. rewrite b2n_n2b_small by lia. cmp.
  do 2 f_equal. lia.
Qed.

Lemma rd_bool_enc b rest : rd_bool (enc_bool b ++ rest) = Ok (b, rest).
Proof.
  unfold enc_bool. cbn [app]. unfold rd_bool.
  destruct b; rewrite b2n_n2b_small by lia; cmp; reflexivity.
Qed.

Lemma enc_int_not_nil z r : int64_ok z = true -> is_nil_next (enc_int z ++ r) = false.
Proof.
  intros H.
  destruct (enc_int_cases z H) as [(n & Hn & _ & E) | [(n & Hn & _ & E) | (b & r0 & E & Hb)]];
    rewrite E; cbn [app is_nil_next]; rewrite ?b2n_n2b_small by lia; cmp; reflexivity.
Qed.

(* ---------- options ---------- *)

Definition opt_count (o : options) : N :=
  (match o_size o with Some _ => 1 | None => 0 end)
  + (match o_chunk o with [] => 0 | _ => 1 end)
  + (match o_comp o with [] => 0 | _ => 1 end).

Definition opt_body (o : options) : bytes :=
  (match o_size o with Some z => enc_str k_size ++ enc_int z | None => [] end)
  ++ (match o_chunk o with [] => [] | c => enc_str k_chunk ++ enc_str c end)
  ++ (match o_comp o with [] => [] | c => enc_str k_comp ++ enc_str c end).

Lemma M_options_eq o : M_options o = n2b (128 + opt_count o) :: opt_body o.
Proof. reflexivity. Qed.

Lemma opt_count_le o : opt_count o <= 3.
Proof.
  unfold opt_count. destruct (o_size o), (o_chunk o), (o_comp o); lia.
Qed.

Lemma U_options_loop_S p f cnt bs o : U_options_loop p (S f) cnt bs o =
  if cnt =? 0 then Ok (o, bs)
  else
    '(k, r) <- rd_field_key p bs ;;
    if bytes_eqb k k_size then
      if is_nil_next r then r' <- rd_nil r ;; U_options_loop p f (cnt - 1) r' {| o_size := None; o_chunk := o_chunk o; o_comp := o_comp o |}
      else '(z, r') <- rd_int64 r ;; U_options_loop p f (cnt - 1) r' {| o_size := Some z; o_chunk := o_chunk o; o_comp := o_comp o |}
    else if bytes_eqb k k_chunk then
      '(c, r') <- rd_str r ;; U_options_loop p f (cnt - 1) r' {| o_size := o_size o; o_chunk := c; o_comp := o_comp o |}
    else if bytes_eqb k k_comp then
      '(c, r') <- rd_str r ;; U_options_loop p f (cnt - 1) r' {| o_size := o_size o; o_chunk := o_chunk o; o_comp := c |}
    else
      r' <- skip p (fuel_for r) r ;; U_options_loop p f (cnt - 1) r' o.
Proof. reflexivity. Qed.

Lemma k_size_len : len k_size < two32. Proof. reflexivity. Qed.
Lemma k_chunk_len : len k_chunk < two32. Proof. reflexivity. Qed.
Lemma k_comp_len : len k_comp < two32. Proof. reflexivity. Qed.
Lemma k_ack_len : len k_ack < two32. Proof. reflexivity. Qed.
Lemma k_size_ne : k_size <> []. Proof. discriminate. Qed.
Lemma k_chunk_ne : k_chunk <> []. Proof. discriminate. Qed.
Lemma k_comp_ne : k_comp <> []. Proof. discriminate. Qed.
Lemma k_ack_ne : k_ack <> []. Proof. discriminate. Qed.

Lemma eqb_size_size : bytes_eqb k_size k_size = true. Proof. reflexivity. Qed.
Lemma eqb_chunk_size : bytes_eqb k_chunk k_size = false. Proof. reflexivity. Qed.
Lemma eqb_chunk_chunk : bytes_eqb k_chunk k_chunk = true. Proof. reflexivity. Qed.
Lemma eqb_comp_size : bytes_eqb k_comp k_size = false. Proof. reflexivity. Qed.
Lemma eqb_comp_chunk : bytes_eqb k_comp k_chunk = false. Proof. reflexivity. Qed.
Lemma eqb_comp_comp : bytes_eqb k_comp k_comp = true. Proof. reflexivity. Qed.

Lemma opt_step_size p f cnt z r o : int64_ok z = true -> cnt <> 0 ->
  U_options_loop p (S f) cnt (enc_str k_size ++ enc_int z ++ r) o =
  U_options_loop p f (cnt - 1) r {| o_size := Some z; o_chunk := o_chunk o; o_comp := o_comp o |}.
Proof.
  intros Hz Hc. rewrite U_options_loop_S. cmp.
  rewrite rd_field_key_enc by (apply k_size_len || apply k_size_ne). red_bind.
  rewrite eqb_size_size, enc_int_not_nil by assumption.
  rewrite rd_int64_enc by assumption. reflexivity.
Qed.

Lemma opt_step_chunk p f cnt c r o : len c < two32 -> cnt <> 0 ->
  U_options_loop p (S f) cnt (enc_str k_chunk ++ enc_str c ++ r) o =
  U_options_loop p f (cnt - 1) r {| o_size := o_size o; o_chunk := c; o_comp := o_comp o |}.
Proof.
  intros Hz Hc. rewrite U_options_loop_S. cmp.
  rewrite rd_field_key_enc by (apply k_chunk_len || apply k_chunk_ne). red_bind.
  rewrite eqb_chunk_size, eqb_chunk_chunk.
  rewrite rd_str_enc by assumption. reflexivity.
Qed.

Lemma opt_step_comp p f cnt c r o : len c < two32 -> cnt <> 0 ->
  U_options_loop p (S f) cnt (enc_str k_comp ++ enc_str c ++ r) o =
  U_options_loop p f (cnt - 1) r {| o_size := o_size o; o_chunk := o_chunk o; o_comp := c |}.
Proof.
  intros Hz Hc. rewrite U_options_loop_S. cmp.
  rewrite rd_field_key_enc by (apply k_comp_len || apply k_comp_ne). red_bind.
  rewrite eqb_comp_size, eqb_comp_chunk, eqb_comp_comp.
  rewrite rd_str_enc by assumption. reflexivity.
Qed.

Lemma opt_step_done p f bs o : U_options_loop p (S f) 0 bs o = Ok (o, bs).
Proof. reflexivity. Qed.

Lemma wf_options_spec o : wf_options o = true ->
  (match o_size o with Some z => int64_ok z = true | None => True end)
  /\ len (o_chunk o) < two32 /\ len (o_comp o) < two32.
Proof.
  unfold wf_options. intros H. apply andb_prop in H as [H H3]. apply andb_prop in H as [H1 H2].
  apply N.ltb_lt in H2, H3. repeat split; auto. destruct (o_size o); auto.
Qed.

Lemma U_options_loop_enc p o rest f : wf_options o = true ->
  (S (N.to_nat (opt_count o)) <= f)%nat ->
  U_options_loop p f (opt_count o) (opt_body o ++ rest) empty_options = Ok (o, rest).
Proof.
  intros Hwf Hf. apply wf_options_spec in Hwf as (Hs & Hc & Hk).
  destruct o as [s c k]. unfold opt_count, opt_body in *. cbn [o_size o_chunk o_comp] in *.
  destruct s as [z|], c as [|c0 c], k as [|k0 k]; cbn [N.add N.to_nat Pos.to_nat Pos.iter_op Nat.add Pos.add Pos.succ] in Hf |- *;
    rewrite <- ?app_assoc; cbn [app];
    repeat (destruct f as [|f]; [lia|]);
    rewrite ?opt_step_size by (assumption || lia); cbn [o_size o_chunk o_comp];
    rewrite ?opt_step_chunk by (assumption || lia); cbn [o_size o_chunk o_comp];
    rewrite ?opt_step_comp by (assumption || lia); cbn [o_size o_chunk o_comp];
    reflexivity.
Qed.

Lemma opt_body_len o : (N.to_nat (opt_count o) <= length (opt_body o))%nat.
Proof.
  destruct o as [s c k]. unfold opt_count, opt_body. cbn [o_size o_chunk o_comp].
  pose proof (enc_str_len k_size). pose proof (enc_str_len k_chunk). pose proof (enc_str_len k_comp).
  destruct s, c, k; rewrite ?app_length; cbn [length]; lia.
Qed.

Theorem rt_options : forall p o rest, wf_options o = true ->
  U_options p (M_options o ++ rest) = Ok (o, rest).
Proof.
  intros p o rest Hwf. rewrite M_options_eq. cbn [app]. unfold U_options.
  pose proof (opt_count_le o).
  rewrite rd_map_hdr_fix by lia. red_bind.
  apply U_options_loop_enc; auto.
  unfold fuel_for. rewrite app_length. pose proof (opt_body_len o). lia.
Qed.
Print Assumptions rt_options.

Lemma M_options_not_nil o rest : is_nil_next (M_options o ++ rest) = false.
Proof.
  rewrite M_options_eq. cbn [app is_nil_next]. pose proof (opt_count_le o).
  rewrite b2n_n2b_small by lia. cmp; reflexivity.
Qed.

(* the optional trailing options of the four message kinds *)
Lemma U_tail_full p oo rest : wf_optopt oo = true ->
  U_tail p true (M_optopt oo ++ rest) = Ok (oo, rest).
Proof.
  intros Hwf. unfold U_tail. destruct oo as [o|]; cbn [M_optopt wf_optopt] in *.
  - rewrite M_options_not_nil, rt_options by assumption. reflexivity.
  - rewrite is_nil_next_enc_nil, rd_nil_enc. reflexivity.
Qed.

Lemma opt_id (o : option options) : match o with Some x => Some x | None => None end = o.
Proof. now destruct o. Qed.

(* ---------- Message ---------- *)

Lemma rd_arr_hdr_146 r : rd_arr_hdr (n2b 146 :: r) = Ok (2, r). Proof. apply (rd_arr_hdr_fix 2). lia. Qed.
Lemma rd_arr_hdr_147 r : rd_arr_hdr (n2b 147 :: r) = Ok (3, r). Proof. apply (rd_arr_hdr_fix 3). lia. Qed.
Lemma rd_arr_hdr_148 r : rd_arr_hdr (n2b 148 :: r) = Ok (4, r). Proof. apply (rd_arr_hdr_fix 4). lia. Qed.
Lemma rd_arr_hdr_149 r : rd_arr_hdr (n2b 149 :: r) = Ok (5, r). Proof. apply (rd_arr_hdr_fix 5). lia. Qed.
Lemma rd_arr_hdr_150 r : rd_arr_hdr (n2b 150 :: r) = Ok (6, r). Proof. apply (rd_arr_hdr_fix 6). lia. Qed.

Ltac hdr_ok := unfold two32; lia.

Theorem rt_message : forall p prev m e rest, wf_message m = true -> M_message m = Ok e ->
  U_message p prev (e ++ rest) = Ok (norm_message m, rest).
Proof.
  intros p prev m e rest Hwf Henc. destruct m as [tag ts rec opts].
  unfold wf_message in Hwf. cbn [m_tag m_ts m_rec m_opts] in Hwf.
  apply andb_prop in Hwf as [Hwf Ho]. apply andb_prop in Hwf as [Hwf Hr].
  apply andb_prop in Hwf as [Ht Hts]. apply N.ltb_lt in Ht.
  unfold M_message in Henc. cbn [m_tag m_ts m_rec m_opts] in Henc.
  destruct (enc_gval rec) as [r| |] eqn:Er; try discriminate.
  cbn [bind] in Henc. apply Ok_inj in Henc as <-.
  norm_app. unfold U_message. cbv zeta.
  rewrite rd_arr_hdr_148. red_bind. cbn [arity_ok N.eqb Pos.eqb N.add Pos.add Pos.succ orb negb].
  rewrite rd_str_enc by assumption. red_bind.
  rewrite rd_int64_enc by assumption. red_bind.
  rewrite (rd_intf_enc p rec r _ Hr Er) by (now apply gsize_fuel). red_bind.
  rewrite U_tail_full by assumption. red_bind.
  rewrite opt_id. reflexivity.
Qed.
Print Assumptions rt_message.

(* ---------- MessageExt ---------- *)

Theorem rt_message_ext : forall p prev m e rest, wf_message_ext m = true -> M_message_ext m = Ok e ->
  U_message_ext p prev (e ++ rest) = Ok (norm_message_ext m, rest).
Proof.
  intros p prev m e rest Hwf Henc. destruct m as [tag [s ns] rec opts].
  unfold wf_message_ext in Hwf. cbn [x_tag x_ts x_rec x_opts] in Hwf.
  apply andb_prop in Hwf as [Hwf Ho]. apply andb_prop in Hwf as [Hwf Hr].
  apply andb_prop in Hwf as [Ht Hts]. apply N.ltb_lt in Ht.
  unfold M_message_ext in Henc. cbn [x_tag x_ts x_rec x_opts fst snd] in Henc.
  destruct (enc_gval rec) as [r| |] eqn:Er; try discriminate.
  cbn [bind] in Henc. apply Ok_inj in Henc as <-.
  norm_app. unfold U_message_ext. cbv zeta.
  rewrite rd_arr_hdr_148. red_bind. cbn [arity_ok N.eqb Pos.eqb N.add Pos.add Pos.succ orb negb].
  rewrite rd_str_enc by assumption. red_bind.
  rewrite rd_eventtime_enc by assumption. red_bind.
  rewrite (rd_intf_enc p rec r _ Hr Er) by (now apply gsize_fuel). red_bind.
  rewrite U_tail_full by assumption. red_bind.
  rewrite opt_id. reflexivity.
Qed.
Print Assumptions rt_message_ext.

(* ---------- EntryExt and entry lists ---------- *)

Theorem rt_entry : forall p x e rest, wf_entry x = true -> M_entry x = Ok e ->
  U_entry p (e ++ rest) = Ok (norm_entry x, rest).
Proof.
  intros p x e rest Hwf Henc. destruct x as [[s ns] rec].
  unfold wf_entry in Hwf. cbn [e_ts e_rec] in Hwf. apply andb_prop in Hwf as [Hts Hr].
  unfold M_entry in Henc. cbn [e_ts e_rec fst snd] in Henc.
  destruct (enc_gval rec) as [r| |] eqn:Er; try discriminate.
  cbn [bind] in Henc. apply Ok_inj in Henc as <-.
  norm_app. unfold U_entry.
  rewrite rd_arr_hdr_146. red_bind. cbn [N.eqb Pos.eqb negb].
  rewrite rd_eventtime_enc by assumption. red_bind.
  rewrite (rd_intf_enc p rec r _ Hr Er) by (now apply gsize_fuel). reflexivity.
Qed.
Print Assumptions rt_entry.

Lemma M_entry_nonempty x e : M_entry x = Ok e -> (1 <= length e)%nat.
Proof.
  unfold M_entry. destruct (enc_gval (e_rec x)); try discriminate.
  cbn [bind]. intros H. apply Ok_inj in H as <-. cbn [app length]. lia.
Qed.

Lemma M_entries_body_len l : forall b, M_entries_body l = Ok b -> (length l <= length b)%nat.
Proof.
  induction l as [|x l IH]; intros b H; cbn [M_entries_body] in H.
  - apply Ok_inj in H as <-. cbn. lia.
  - destruct (M_entry x) as [a| |] eqn:Ea; try discriminate.
    destruct (M_entries_body l) as [b'| |] eqn:Eb; try discriminate.
    cbn [bind] in H. apply Ok_inj in H as <-.
    apply M_entry_nonempty in Ea. specialize (IH b' eq_refl).
    rewrite app_length. cbn [length]. lia.
Qed.

Lemma U_entries_loop_S p f cnt bs acc : U_entries_loop p (S f) cnt bs acc =
  if cnt =? 0 then Ok (rev acc, bs)
  else '(e, r) <- U_entry p bs ;; U_entries_loop p f (cnt - 1) r (e :: acc).
Proof. rewrite ?rev_alt. reflexivity. Qed.

Lemma U_entries_loop_enc p l : forallb wf_entry l = true ->
  forall b, M_entries_body l = Ok b ->
  forall f acc rest, (S (length l) <= f)%nat ->
  U_entries_loop p f (len l) (b ++ rest) acc = Ok (rev acc ++ map norm_entry l, rest).
Proof.
  induction l as [|x l IH]; intros Hwf b Henc f acc rest Hf;
    (destruct f as [|f]; [cbn [length] in Hf; lia|]); rewrite U_entries_loop_S;
    cbn [M_entries_body] in Henc.
  - apply Ok_inj in Henc as <-. rewrite len_nil. cmp. cbn [map app]. now rewrite app_nil_r.
  - cbn [forallb] in Hwf. apply andb_prop in Hwf as [Hw1 Hw2].
    destruct (M_entry x) as [a| |] eqn:Ea; try discriminate.
    destruct (M_entries_body l) as [b'| |] eqn:Eb; try discriminate.
    cbn [bind] in Henc. apply Ok_inj in Henc as <-.
    rewrite len_cons. cmp. rewrite <- app_assoc.
    rewrite (rt_entry p x a _ Hw1 Ea). red_bind.
    replace (len l + 1 - 1) with (len l) by lia.
    cbn [length] in Hf.
    rewrite (IH Hw2 b' eq_refl) by lia.
    cbn [rev map]. now rewrite <- app_assoc.
Qed.

Theorem rt_entry_list : forall p l e rest, len l < two32 -> forallb wf_entry l = true ->
  M_entry_list l = Ok e -> U_entry_list p (e ++ rest) = Ok (map norm_entry l, rest).
Proof.
  intros p l e rest Hl Hwf Henc. unfold M_entry_list in Henc.
  destruct (M_entries_body l) as [b| |] eqn:Eb; try discriminate.
  cbn [bind] in Henc. apply Ok_inj in Henc as <-.
  rewrite <- app_assoc. unfold U_entry_list.
  rewrite rd_arr_hdr_enc by assumption. red_bind.
  rewrite (U_entries_loop_enc p l Hwf b Eb).
  - reflexivity.
  - apply M_entries_body_len in Eb. unfold fuel_for. rewrite app_length. lia.
Qed.
Print Assumptions rt_entry_list.

(* ---------- Forward ---------- *)

Theorem rt_forward : forall p prev m e rest, wf_forward m = true -> M_forward m = Ok e ->
  U_forward p prev (e ++ rest) = Ok (norm_forward m, rest).
Proof.
  intros p prev m e rest Hwf Henc. destruct m as [tag es opts].
  unfold wf_forward in Hwf. cbn [f_tag f_entries f_opts] in Hwf.
  apply andb_prop in Hwf as [Hwf Ho]. apply andb_prop in Hwf as [Hwf Hes].
  apply andb_prop in Hwf as [Ht Hl]. apply N.ltb_lt in Ht, Hl.
  unfold M_forward in Henc. cbn [f_tag f_entries f_opts] in Henc.
  destruct (M_entry_list es) as [le| |] eqn:El; try discriminate.
  cbn [bind] in Henc. apply Ok_inj in Henc as <-.
  unfold U_forward, norm_forward. cbv zeta. cbn [f_tag f_entries f_opts].
  destruct opts as [o|]; norm_app.
  - rewrite rd_arr_hdr_147. red_bind. cbn [arity_ok N.eqb Pos.eqb N.add Pos.add Pos.succ orb negb].
    rewrite rd_str_enc by assumption. red_bind.
    rewrite (rt_entry_list p es le _ Hl Hes El). red_bind.
    rewrite (U_tail_full p (Some o)) by assumption. reflexivity.
  - rewrite rd_arr_hdr_146. red_bind. cbn [arity_ok N.eqb Pos.eqb N.add Pos.add Pos.succ orb negb].
    rewrite rd_str_enc by assumption. red_bind.
    rewrite (rt_entry_list p es le _ Hl Hes El). reflexivity.
Qed.
Print Assumptions rt_forward.

(* ---------- PackedForward ---------- *)

Theorem rt_packed : forall p prev m rest, wf_packed m = true ->
  U_packed p prev (M_packed m ++ rest) = Ok (m, rest).
Proof.
  intros p prev m rest Hwf. destruct m as [tag st opts].
  unfold wf_packed in Hwf. cbn [p_tag p_stream p_opts] in Hwf.
  apply andb_prop in Hwf as [Hwf Ho]. apply andb_prop in Hwf as [Ht Hs]. apply N.ltb_lt in Ht, Hs.
  unfold M_packed. cbn [p_tag p_stream p_opts]. norm_app. unfold U_packed. cbv zeta.
  rewrite rd_arr_hdr_147. red_bind. cbn [arity_ok N.eqb Pos.eqb N.add Pos.add Pos.succ orb negb].
  rewrite rd_str_enc by assumption. red_bind.
  rewrite rd_bin_enc by assumption. red_bind.
  rewrite U_tail_full by assumption. red_bind.
  rewrite opt_id. reflexivity.
Qed.
Print Assumptions rt_packed.

(* ---------- Ack ---------- *)

Lemma U_ack_loop_S p f cnt bs a : U_ack_loop p (S f) cnt bs a =
  if cnt =? 0 then Ok (a, bs)
  else
    '(k, r) <- rd_field_key p bs ;;
    if bytes_eqb k k_ack then '(v, r') <- rd_str r ;; U_ack_loop p f (cnt - 1) r' v
    else r' <- skip p (fuel_for r) r ;; U_ack_loop p f (cnt - 1) r' a.
Proof. reflexivity. Qed.

Theorem rt_ack : forall p a rest, len a < two32 -> U_ack p (M_ack a ++ rest) = Ok (a, rest).
Proof.
  intros p a rest Ha. unfold M_ack. norm_app. unfold U_ack.
  rewrite (rd_map_hdr_fix 1) by lia. red_bind.
  unfold fuel_for. rewrite U_ack_loop_S. cbn [N.eqb].
  rewrite rd_field_key_enc by (apply k_ack_len || apply k_ack_ne). red_bind.
  rewrite bytes_eqb_refl. rewrite rd_str_enc by assumption. red_bind.
  rewrite U_ack_loop_S. reflexivity.
Qed.
Print Assumptions rt_ack.

(* ---------- packed entry streams (MarshalPacked / UnmarshalPacked) ---------- *)

Lemma unmarshal_packed_loop_S f bs acc : bs <> [] ->
  unmarshal_packed_loop (S f) bs acc =
  '(e, r) <- U_entry Slice bs ;; unmarshal_packed_loop f r (e :: acc).
Proof. destruct bs; [congruence|reflexivity]. Qed.

Lemma unmarshal_packed_loop_enc l : forallb wf_entry l = true ->
  forall b, M_entries_body l = Ok b ->
  forall f acc, (S (length l) <= f)%nat ->
  unmarshal_packed_loop f b acc = Ok (rev acc ++ map norm_entry l).
Proof.
  induction l as [|x l IH]; intros Hwf b Henc f acc Hf;
    (destruct f as [|f]; [cbn [length] in Hf; lia|]); cbn [M_entries_body] in Henc.
  - apply Ok_inj in Henc as <-. cbn [unmarshal_packed_loop map]. now rewrite <- rev_alt, app_nil_r.
  - cbn [forallb] in Hwf. apply andb_prop in Hwf as [Hw1 Hw2].
    destruct (M_entry x) as [a| |] eqn:Ea; try discriminate.
    destruct (M_entries_body l) as [b'| |] eqn:Eb; try discriminate.
    cbn [bind] in Henc. apply Ok_inj in Henc as <-.
    rewrite unmarshal_packed_loop_S.
    2:{ pose proof (M_entry_nonempty x a Ea) as Hn. destruct a; [cbn [length] in Hn; lia|discriminate]. }
    rewrite (rt_entry Slice x a _ Hw1 Ea). red_bind.
    cbn [length] in Hf. rewrite (IH Hw2 b' eq_refl) by lia.
    cbn [rev map]. now rewrite <- app_assoc.
Qed.

Theorem rt_packed_stream : forall l e, forallb wf_entry l = true -> marshal_packed l = Ok e ->
  unmarshal_packed e = Ok (map norm_entry l).
Proof.
  intros l e Hwf Henc. unfold marshal_packed in Henc. unfold unmarshal_packed.
  rewrite (unmarshal_packed_loop_enc l Hwf e Henc).
  - reflexivity.
  - apply M_entries_body_len in Henc. unfold fuel_for. lia.
Qed.
Print Assumptions rt_packed_stream.

(* ---------- handshake: HELO / PING / PONG ---------- *)

Definition wf_helo_opts (o : helo_opts) : Prop := len (h_nonce o) < two32 /\ len (h_auth o) < two32.
Definition wf_helo (h : helo) : Prop :=
  len (hl_type h) < two32 /\ match hl_opts h with Some o => wf_helo_opts o | None => True end.
Definition wf_ping (g : ping) : Prop :=
  len (pg_type g) < two32 /\ len (pg_host g) < two32 /\ len (pg_salt g) < two32 /\
  len (pg_digest g) < two32 /\ len (pg_user g) < two32 /\ len (pg_pass g) < two32.
Definition wf_pong (g : pong) : Prop :=
  len (po_type g) < two32 /\ len (po_reason g) < two32 /\ len (po_host g) < two32 /\
  len (po_digest g) < two32.

Definition k_nonce : bytes := str "nonce"%string.
Definition k_auth : bytes := str "auth"%string.
Definition k_keepalive : bytes := str "keepalive"%string.

Lemma U_helo_opts_loop_S p f cnt bs o : U_helo_opts_loop p (S f) cnt bs o =
  if cnt =? 0 then Ok (o, bs)
  else
    '(k, r) <- rd_field_key p bs ;;
    if bytes_eqb k k_nonce then
      '(v, r') <- rd_bin r ;; U_helo_opts_loop p f (cnt - 1) r' {| h_nonce := v; h_auth := h_auth o; h_keepalive := h_keepalive o |}
    else if bytes_eqb k k_auth then
      '(v, r') <- rd_bin r ;; U_helo_opts_loop p f (cnt - 1) r' {| h_nonce := h_nonce o; h_auth := v; h_keepalive := h_keepalive o |}
    else if bytes_eqb k k_keepalive then
      '(v, r') <- rd_bool r ;; U_helo_opts_loop p f (cnt - 1) r' {| h_nonce := h_nonce o; h_auth := h_auth o; h_keepalive := v |}
    else r' <- skip p (fuel_for r) r ;; U_helo_opts_loop p f (cnt - 1) r' o.
Proof. rewrite ?rev_alt. reflexivity. Qed.

Lemma k_nonce_ok : len k_nonce < two32 /\ k_nonce <> []. Proof. split; [reflexivity|discriminate]. Qed.
Lemma k_auth_ok : len k_auth < two32 /\ k_auth <> []. Proof. split; [reflexivity|discriminate]. Qed.
Lemma k_keepalive_ok : len k_keepalive < two32 /\ k_keepalive <> []. Proof. split; [reflexivity|discriminate]. Qed.
Lemma eqb_nonce_nonce : bytes_eqb k_nonce k_nonce = true. Proof. reflexivity. Qed.
Lemma eqb_auth_nonce : bytes_eqb k_auth k_nonce = false. Proof. reflexivity. Qed.
Lemma eqb_auth_auth : bytes_eqb k_auth k_auth = true. Proof. reflexivity. Qed.
Lemma eqb_keepalive_nonce : bytes_eqb k_keepalive k_nonce = false. Proof. reflexivity. Qed.
Lemma eqb_keepalive_auth : bytes_eqb k_keepalive k_auth = false. Proof. reflexivity. Qed.
Lemma eqb_keepalive_keepalive : bytes_eqb k_keepalive k_keepalive = true. Proof. reflexivity. Qed.

Lemma M_helo_opts_eq o : M_helo_opts o =
  n2b 131 :: enc_str k_nonce ++ enc_bin (h_nonce o) ++ enc_str k_auth ++ enc_bin (h_auth o)
  ++ enc_str k_keepalive ++ enc_bool (h_keepalive o).
Proof. reflexivity. Qed.

Lemma U_helo_opts_loop_enc p o rest f : wf_helo_opts o -> (4 <= f)%nat ->
  U_helo_opts_loop p f 3
    (enc_str k_nonce ++ enc_bin (h_nonce o) ++ enc_str k_auth ++ enc_bin (h_auth o)
     ++ enc_str k_keepalive ++ enc_bool (h_keepalive o) ++ rest) zero_helo_opts = Ok (o, rest).
Proof.
  intros [Hn Ha] Hf. destruct o as [nonce auth ka]. cbn [h_nonce h_auth h_keepalive] in *.
  do 4 (destruct f as [|f]; [lia|]).
  rewrite U_helo_opts_loop_S. cbn [N.eqb].
  rewrite rd_field_key_enc by apply k_nonce_ok. red_bind.
  rewrite eqb_nonce_nonce. rewrite rd_bin_enc by assumption. red_bind.
  rewrite U_helo_opts_loop_S. cbn [N.eqb N.sub Pos.sub Pos.pred_double Pos.sub_mask Pos.double_pred_mask Pos.pred_double Pos.double_mask].
  rewrite rd_field_key_enc by apply k_auth_ok. red_bind.
  rewrite eqb_auth_nonce, eqb_auth_auth. rewrite rd_bin_enc by assumption. red_bind.
  rewrite U_helo_opts_loop_S. cbn [N.eqb N.sub Pos.sub Pos.pred_double Pos.sub_mask Pos.double_pred_mask Pos.pred_double Pos.double_mask].
  rewrite rd_field_key_enc by apply k_keepalive_ok. red_bind.
  rewrite eqb_keepalive_nonce, eqb_keepalive_auth, eqb_keepalive_keepalive. rewrite rd_bool_enc. red_bind.
  rewrite U_helo_opts_loop_S. reflexivity.
Qed.

Theorem rt_helo : forall p h rest, wf_helo h -> U_helo p (M_helo h ++ rest) = Ok (h, rest).
Proof.
  intros p h rest [Ht Ho]. destruct h as [ty opts]. cbn [hl_type hl_opts] in *.
  unfold M_helo. cbn [hl_type hl_opts]. norm_app. unfold U_helo.
  rewrite rd_arr_hdr_146. red_bind. cbn [N.eqb Pos.eqb negb].
  rewrite rd_str_enc by assumption. red_bind.
  destruct opts as [o|].
  - rewrite M_helo_opts_eq. norm_app. cbn [is_nil_next]. rewrite b2n_n2b_small by lia. cbn [N.eqb Pos.eqb].
    rewrite (rd_map_hdr_fix 3) by lia. red_bind.
    rewrite U_helo_opts_loop_enc; auto.
    unfold fuel_for. rewrite app_length. pose proof (enc_str_len k_nonce). lia.
  - rewrite is_nil_next_enc_nil, rd_nil_enc. reflexivity.
Qed.
Print Assumptions rt_helo.

Theorem rt_ping : forall p g rest, wf_ping g -> U_ping p (M_ping g ++ rest) = Ok (g, rest).
Proof.
  intros p g rest (H1 & H2 & H3 & H4 & H5 & H6). destruct g as [ty host salt dig user pass].
  cbn [pg_type pg_host pg_salt pg_digest pg_user pg_pass] in *.
  unfold M_ping. cbn [pg_type pg_host pg_salt pg_digest pg_user pg_pass]. norm_app. unfold U_ping.
  rewrite rd_arr_hdr_150. red_bind. cbn [N.eqb Pos.eqb negb].
  rewrite rd_str_enc by assumption. red_bind.
  rewrite rd_str_enc by assumption. red_bind.
  rewrite rd_bin_enc by assumption. red_bind.
  rewrite rd_str_enc by assumption. red_bind.
  rewrite rd_str_enc by assumption. red_bind.
  rewrite rd_str_enc by assumption. reflexivity.
Qed.
Print Assumptions rt_ping.

Theorem rt_pong : forall p g rest, wf_pong g -> U_pong p (M_pong g ++ rest) = Ok (g, rest).
Proof.
  intros p g rest (H1 & H2 & H3 & H4). destruct g as [ty auth reason host dig].
  cbn [po_type po_auth po_reason po_host po_digest] in *.
  unfold M_pong. cbn [po_type po_auth po_reason po_host po_digest]. norm_app. unfold U_pong.
  rewrite rd_arr_hdr_149. red_bind. cbn [N.eqb Pos.eqb negb].
  rewrite rd_str_enc by assumption. red_bind.
  rewrite rd_bool_enc. red_bind.
  rewrite rd_str_enc by assumption. red_bind.
  rewrite rd_str_enc by assumption. red_bind.
  rewrite rd_str_enc by assumption. reflexivity.
Qed.
Print Assumptions rt_pong.

(* ---------- no bytes left over (rest = []) ---------- *)

Corollary rt_options_exact p o : wf_options o = true -> U_options p (M_options o) = Ok (o, []).
Proof. intros H. rewrite <- (app_nil_r (M_options o)). now apply rt_options. Qed.

Corollary rt_message_exact p prev m e : wf_message m = true -> M_message m = Ok e ->
  U_message p prev e = Ok (norm_message m, []).
Proof. intros H E. rewrite <- (app_nil_r e). now apply rt_message. Qed.

Corollary rt_message_ext_exact p prev m e : wf_message_ext m = true -> M_message_ext m = Ok e ->
  U_message_ext p prev e = Ok (norm_message_ext m, []).
Proof. intros H E. rewrite <- (app_nil_r e). now apply rt_message_ext. Qed.

Corollary rt_entry_exact p x e : wf_entry x = true -> M_entry x = Ok e ->
  U_entry p e = Ok (norm_entry x, []).
Proof. intros H E. rewrite <- (app_nil_r e). now apply rt_entry. Qed.

Corollary rt_entry_list_exact p l e : len l < two32 -> forallb wf_entry l = true ->
  M_entry_list l = Ok e -> U_entry_list p e = Ok (map norm_entry l, []).
Proof. intros Hl H E. rewrite <- (app_nil_r e). now apply rt_entry_list. Qed.

Corollary rt_forward_exact p prev m e : wf_forward m = true -> M_forward m = Ok e ->
  U_forward p prev e = Ok (norm_forward m, []).
Proof. intros H E. rewrite <- (app_nil_r e). now apply rt_forward. Qed.

Corollary rt_packed_exact p prev m : wf_packed m = true ->
  U_packed p prev (M_packed m) = Ok (m, []).
Proof. intros H. rewrite <- (app_nil_r (M_packed m)). now apply rt_packed. Qed.

Corollary rt_ack_exact p a : len a < two32 -> U_ack p (M_ack a) = Ok (a, []).
Proof. intros H. rewrite <- (app_nil_r (M_ack a)). now apply rt_ack. Qed.

Corollary rt_helo_exact p h : wf_helo h -> U_helo p (M_helo h) = Ok (h, []).
Proof. intros H. rewrite <- (app_nil_r (M_helo h)). now apply rt_helo. Qed.

Corollary rt_ping_exact p g : wf_ping g -> U_ping p (M_ping g) = Ok (g, []).
Proof. intros H. rewrite <- (app_nil_r (M_ping g)). now apply rt_ping. Qed.

Corollary rt_pong_exact p g : wf_pong g -> U_pong p (M_pong g) = Ok (g, []).
Proof. intros H. rewrite <- (app_nil_r (M_pong g)). now apply rt_pong. Qed.

(* ---------- decoding a concatenation of messages ---------- *)

Fixpoint decode_all_loop {B} (dec : bytes -> res (B * bytes)) (fuel : nat) (bs : bytes) (acc : list B)
  {struct fuel} : res (list B) :=
  match fuel with
  | O => Err EFuel
  | S f =>
      match bs with
      | [] => Ok (rev acc)
      | _ => '(a, r) <- dec bs ;; decode_all_loop dec f r (a :: acc)
      end
  end.

(* apply [dec] until the input is exhausted; every successful step of a decoder that
   consumes at least one byte shortens the input, so S (length bs) steps are enough *)
Definition decode_all {B} (dec : bytes -> res (B * bytes)) (bs : bytes) : res (list B) :=
  decode_all_loop dec (S (length bs)) bs [].

Section DecodeAll.
  Context {A B : Type}.
  Variable R : A -> bytes -> Prop.          (* "e is the encoding of the well-formed value a" *)
  Variable norm : A -> B.
  Variable dec : bytes -> res (B * bytes).
  Hypothesis R_rt : forall a e rest, R a e -> dec (e ++ rest) = Ok (norm a, rest).
  Hypothesis R_ne : forall a e, R a e -> e <> [].

  Lemma decode_all_loop_S f bs acc : bs <> [] ->
    decode_all_loop dec (S f) bs acc = '(a, r) <- dec bs ;; decode_all_loop dec f r (a :: acc).
  Proof. destruct bs; [congruence|reflexivity]. Qed.

  Lemma decode_all_loop_ok xs es : Forall2 R xs es ->
    forall f acc, (S (length es) <= f)%nat ->
    decode_all_loop dec f (concat es) acc = Ok (rev acc ++ map norm xs).
  Proof.
    induction 1 as [|x e xs es Hx _ IH]; intros f acc Hf;
      (destruct f as [|f]; [cbn [length] in Hf; lia|]); cbn [concat].
    - cbn [decode_all_loop map]. now rewrite app_nil_r.
    - rewrite decode_all_loop_S.
      2:{ pose proof (R_ne x e Hx). destruct e; [congruence|discriminate]. }
      rewrite (R_rt x e _ Hx). red_bind.
      cbn [length] in Hf. rewrite IH by lia.
      cbn [rev map]. now rewrite <- app_assoc.
  Qed.

  Lemma concat_len_ge xs es : Forall2 R xs es -> (length es <= length (concat es))%nat.
  Proof.
    induction 1 as [|x e xs es Hx _ IH]; cbn [concat length]; [lia|].
    rewrite app_length. pose proof (R_ne x e Hx). destruct e; [congruence|cbn [length]; lia].
  Qed.

  Theorem decode_all_ok xs es : Forall2 R xs es ->
    decode_all dec (concat es) = Ok (map norm xs).
  Proof.
    intros H. unfold decode_all. rewrite (decode_all_loop_ok xs es H).
    - reflexivity.
    - pose proof (concat_len_ge xs es H). lia.
  Qed.
End DecodeAll.
Print Assumptions decode_all_ok.

Lemma cons_app_ne {X} (x : X) (a : list X) : [x] ++ a <> [].
Proof. discriminate. Qed.

Theorem rt_concat_message : forall p prev ms es,
  Forall2 (fun m e => wf_message m = true /\ M_message m = Ok e) ms es ->
  decode_all (U_message p prev) (concat es) = Ok (map norm_message ms).
Proof.
  intros p prev ms es H.
  apply (decode_all_ok (fun m e => wf_message m = true /\ M_message m = Ok e)); auto.
  - intros m e rest [Hw He]. now apply rt_message.
  - intros m e [_ He]. unfold M_message in He. destruct (enc_gval (m_rec m)); try discriminate.
    cbn [bind] in He. apply Ok_inj in He as <-. apply cons_app_ne.
Qed.
Print Assumptions rt_concat_message.

Theorem rt_concat_message_ext : forall p prev ms es,
  Forall2 (fun m e => wf_message_ext m = true /\ M_message_ext m = Ok e) ms es ->
  decode_all (U_message_ext p prev) (concat es) = Ok (map norm_message_ext ms).
Proof.
  intros p prev ms es H.
  apply (decode_all_ok (fun m e => wf_message_ext m = true /\ M_message_ext m = Ok e)); auto.
  - intros m e rest [Hw He]. now apply rt_message_ext.
  - intros m e [_ He]. unfold M_message_ext in He. destruct (enc_gval (x_rec m)); try discriminate.
    cbn [bind] in He. apply Ok_inj in He as <-. apply cons_app_ne.
Qed.
Print Assumptions rt_concat_message_ext.

Theorem rt_concat_forward : forall p prev ms es,
  Forall2 (fun m e => wf_forward m = true /\ M_forward m = Ok e) ms es ->
  decode_all (U_forward p prev) (concat es) = Ok (map norm_forward ms).
Proof.
  intros p prev ms es H.
  apply (decode_all_ok (fun m e => wf_forward m = true /\ M_forward m = Ok e)); auto.
  - intros m e rest [Hw He]. now apply rt_forward.
  - intros m e [_ He]. unfold M_forward in He. destruct (M_entry_list (f_entries m)); try discriminate.
    cbn [bind] in He. apply Ok_inj in He as <-. destruct (f_opts m); apply cons_app_ne.
Qed.
Print Assumptions rt_concat_forward.

Theorem rt_concat_packed : forall p prev ms,
  Forall (fun m => wf_packed m = true) ms ->
  decode_all (U_packed p prev) (concat (map M_packed ms)) = Ok ms.
Proof.
  intros p prev ms H. rewrite <- (map_id ms) at 2.
  apply (decode_all_ok (fun m e => wf_packed m = true /\ M_packed m = e)).
  - intros m e rest [Hw <-]. now apply rt_packed.
  - intros m e [_ <-]. apply cons_app_ne.
  - induction H; cbn [map]; constructor; auto.
Qed.
Print Assumptions rt_concat_packed.

(* the statement asked for, with the zero receiver *)
Corollary rt_concat_message_zero : forall p ms es,
  Forall2 (fun m e => wf_message m = true /\ M_message m = Ok e) ms es ->
  decode_all (U_message p zero_message) (concat es) = Ok (map norm_message ms).
Proof. intros. now apply rt_concat_message. Qed.

(* ---------- normalisation ---------- *)

Theorem norm_gval_idem : forall g, norm_gval (norm_gval g) = norm_gval g.
Proof.
  induction g as [v Hv | l IH | l IH] using gval_ind'.
  - destruct v; cbn [is_leaf] in Hv; try discriminate; cbn [norm_gval]; try reflexivity.
    destruct (N.ltb_spec n 128) as [Hn|Hn]; cbn [norm_gval]; [reflexivity|].
    destruct (N.ltb_spec n 128); [lia|reflexivity].
  - rewrite !norm_garr. f_equal. rewrite map_map.
    induction IH as [|x r Hx _ IHr]; cbn [map]; [reflexivity|]. now rewrite Hx, IHr.
  - rewrite !norm_gmap. f_equal. rewrite map_map.
    induction IH as [|[k x] r Hx _ IHr]; cbn [map fst snd] in *; [reflexivity|]. now rewrite Hx, IHr.
Qed.
Print Assumptions norm_gval_idem.

(* values without unsigned integers below 128 are fixed points of norm_gval *)
Fixpoint no_small_uint (v : gval) : bool :=
  match v with
  | GUint n => negb (n <? 128)
  | GArr l => forallb no_small_uint l
  | GMap l => forallb (fun kv => no_small_uint (snd kv)) l
  | _ => true
  end.

Lemma no_small_uint_norm g : no_small_uint g = true -> norm_gval g = g.
Proof.
  induction g as [v Hv | l IH | l IH] using gval_ind'.
  - destruct v; cbn [is_leaf] in Hv; try discriminate; cbn [norm_gval no_small_uint]; try reflexivity.
    destruct (N.ltb_spec n 128); cbn [negb]; [discriminate|reflexivity].
  - rewrite norm_garr. cbn [no_small_uint]. intros H. f_equal.
    induction IH as [|x r Hx _ IHr]; cbn [map forallb] in *; [reflexivity|].
    apply andb_prop in H as [H1 H2]. now rewrite Hx, IHr.
  - rewrite norm_gmap. cbn [no_small_uint]. intros H. f_equal.
    induction IH as [|[k x] r Hx _ IHr]; cbn [map forallb fst snd] in *; [reflexivity|].
    apply andb_prop in H as [H1 H2]. now rewrite Hx, IHr.
Qed.

(* what a decoder produces has no small unsigned ints *)
Lemma norm_no_small_uint g : no_small_uint (norm_gval g) = true.
Proof.
  induction g as [v Hv | l IH | l IH] using gval_ind'.
  - destruct v; cbn [is_leaf] in Hv; try discriminate; cbn [norm_gval no_small_uint]; try reflexivity.
    destruct (N.ltb_spec n 128) as [Hn|Hn]; cbn [no_small_uint]; [reflexivity|].
    destruct (N.ltb_spec n 128); [lia|reflexivity].
  - rewrite norm_garr. cbn [no_small_uint].
    induction IH as [|x r Hx _ IHr]; cbn [map forallb]; [reflexivity|]. now rewrite Hx, IHr.
  - rewrite norm_gmap. cbn [no_small_uint].
    induction IH as [|[k x] r Hx _ IHr]; cbn [map forallb fst snd] in *; [reflexivity|]. now rewrite Hx, IHr.
Qed.

Corollary norm_message_idem m : norm_message (norm_message m) = norm_message m.
Proof. unfold norm_message. cbn [m_tag m_ts m_rec m_opts]. now rewrite norm_gval_idem. Qed.
Corollary norm_message_ext_idem m : norm_message_ext (norm_message_ext m) = norm_message_ext m.
Proof. unfold norm_message_ext. cbn [x_tag x_ts x_rec x_opts]. now rewrite norm_gval_idem. Qed.
Corollary norm_entry_idem x : norm_entry (norm_entry x) = norm_entry x.
Proof. unfold norm_entry. cbn [e_ts e_rec]. now rewrite norm_gval_idem. Qed.
Corollary norm_forward_idem m : norm_forward (norm_forward m) = norm_forward m.
Proof.
  unfold norm_forward. cbn [f_tag f_entries f_opts]. f_equal. rewrite map_map.
  apply map_ext. intros x. apply norm_entry_idem.
Qed.
Print Assumptions norm_forward_idem.

(* ---------- nil options and empty options stay distinct ---------- *)

Corollary U_tail_nil_options p rest : U_tail p true (M_optopt None ++ rest) = Ok (None, rest).
Proof. now apply U_tail_full. Qed.
Corollary U_tail_empty_options p rest :
  U_tail p true (M_optopt (Some empty_options) ++ rest) = Ok (Some empty_options, rest).
Proof. now apply U_tail_full. Qed.
Lemma optopt_nil_vs_empty : M_optopt None = [n2b 192] /\ M_optopt (Some empty_options) = [n2b 128].
Proof. split; reflexivity. Qed.

(* ---------- the encoders succeed on well-formed values (the round trips are not vacuous) ---------- *)

Lemma M_message_wf_ok m : wf_message m = true -> exists e, M_message m = Ok e.
Proof.
  unfold wf_message. intros H. apply andb_prop in H as [H _]. apply andb_prop in H as [_ H].
  destruct (enc_gval_wf_ok _ H) as [r E]. unfold M_message. rewrite E. cbn [bind]. eexists; reflexivity.
Qed.

Lemma M_message_ext_wf_ok m : wf_message_ext m = true -> exists e, M_message_ext m = Ok e.
Proof.
  unfold wf_message_ext. intros H. apply andb_prop in H as [H _]. apply andb_prop in H as [_ H].
  destruct (enc_gval_wf_ok _ H) as [r E]. unfold M_message_ext. rewrite E. cbn [bind]. eexists; reflexivity.
Qed.

Lemma M_entry_wf_ok x : wf_entry x = true -> exists e, M_entry x = Ok e.
Proof.
  unfold wf_entry. intros H. apply andb_prop in H as [_ H].
  destruct (enc_gval_wf_ok _ H) as [r E]. unfold M_entry. rewrite E. cbn [bind]. eexists; reflexivity.
Qed.

Lemma M_entries_body_wf_ok l : forallb wf_entry l = true -> exists b, M_entries_body l = Ok b.
Proof.
  induction l as [|x l IH]; cbn [forallb M_entries_body]; intros H.
  - eexists; reflexivity.
  - apply andb_prop in H as [H1 H2]. destruct (M_entry_wf_ok x H1) as [a ->].
    destruct (IH H2) as [b ->]. cbn [bind]. eexists; reflexivity.
Qed.

Lemma M_forward_wf_ok m : wf_forward m = true -> exists e, M_forward m = Ok e.
Proof.
  unfold wf_forward. intros H. apply andb_prop in H as [H _]. apply andb_prop in H as [_ H].
  destruct (M_entries_body_wf_ok _ H) as [b E]. unfold M_forward, M_entry_list. rewrite E.
  cbn [bind]. eexists; reflexivity.
Qed.

(* total forms: encode, then decode, on well-formed values *)
Corollary rt_message_total p prev m rest : wf_message m = true ->
  exists e, M_message m = Ok e /\ U_message p prev (e ++ rest) = Ok (norm_message m, rest).
Proof. intros H. destruct (M_message_wf_ok m H) as [e E]. exists e. split; auto. now apply rt_message. Qed.
Corollary rt_message_ext_total p prev m rest : wf_message_ext m = true ->
  exists e, M_message_ext m = Ok e /\ U_message_ext p prev (e ++ rest) = Ok (norm_message_ext m, rest).
Proof. intros H. destruct (M_message_ext_wf_ok m H) as [e E]. exists e. split; auto. now apply rt_message_ext. Qed.
Corollary rt_forward_total p prev m rest : wf_forward m = true ->
  exists e, M_forward m = Ok e /\ U_forward p prev (e ++ rest) = Ok (norm_forward m, rest).
Proof. intros H. destruct (M_forward_wf_ok m H) as [e E]. exists e. split; auto. now apply rt_forward. Qed.
Corollary rt_packed_stream_total l : forallb wf_entry l = true ->
  exists e, marshal_packed l = Ok e /\ unmarshal_packed e = Ok (map norm_entry l).
Proof.
  intros H. destruct (M_entries_body_wf_ok l H) as [e E]. exists e. split; auto. now apply rt_packed_stream.
Qed.
Print Assumptions rt_message_total.
Print Assumptions rt_message_ext_total.
Print Assumptions rt_forward_total.
Print Assumptions rt_packed_stream_total.
Print Assumptions rt_concat_message_zero.
Print Assumptions no_small_uint_norm.
Print Assumptions norm_no_small_uint.
Print Assumptions rt_message_exact.
Print Assumptions rt_helo_exact.
