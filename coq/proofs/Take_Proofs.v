(* [take] / [otake] walk over at most k elements (model/Bytes.v split_at); for the proofs they are the
   length check followed by firstn / skipn. *)
From FF Require Import model.Bytes model.Msgp model.Spec.
From Coq Require Import Lia ZifyN ZifyNat ZifyBool.

Lemma split_at_spec k : forall bs,
  split_at k bs = if k <=? len bs then Some (firstn (N.to_nat k) bs, skipn (N.to_nat k) bs) else None.
Proof.
  induction k as [|k IH] using N.peano_ind; intros bs.
  - destruct bs; cbn [split_at]; reflexivity.
  - destruct bs as [|b r].
    + cbn [split_at]. destruct (N.eqb_spec (N.succ k) 0); [lia|]. unfold len. cbn [length].
      destruct (N.leb_spec (N.succ k) (N.of_nat 0)); [lia|reflexivity].
    + cbn [split_at]. destruct (N.eqb_spec (N.succ k) 0); [lia|]. rewrite N.pred_succ, IH.
      unfold len. cbn [length]. rewrite N2Nat.inj_succ. cbn [firstn skipn].
      destruct (N.leb_spec k (N.of_nat (length r))), (N.leb_spec (N.succ k) (N.of_nat (S (length r)))); try lia; reflexivity.
Qed.

Lemma take_unfold k bs :
  take k bs = if k <=? len bs then Ok (firstn (N.to_nat k) bs, skipn (N.to_nat k) bs) else Err EShort.
Proof. unfold take. rewrite split_at_spec. now destruct (k <=? len bs). Qed.

Lemma otake_unfold k bs :
  otake k bs = if k <=? len bs then Some (firstn (N.to_nat k) bs, skipn (N.to_nat k) bs) else None.
Proof. unfold otake. apply split_at_spec. Qed.
