(* The lock-discipline invariant of the concurrent client model (model/ClientConc.v): it
   holds initially and is preserved by every micro-step of every thread, hence in every
   configuration reachable under ANY schedule, for any number of threads and any programs
   (induction over the schedule; nothing is bounded). *)
From Coq Require Import List Arith Bool NArith Lia.
From FF Require Import model.Bytes model.Client model.ClientSpec model.Lts model.ClientConc model.ClientConcSpec.
Import ListNotations.
Open Scope nat_scope.

(* ---------- lists ---------- *)
Lemma nth_error_set_nth_eq {A} (l : list A) t x y :
  nth_error l t = Some y -> nth_error (set_nth l t x) t = Some x.
Proof.
  revert t; induction l as [|a l IH]; intros [|t]; cbn; intros H; try discriminate; auto.
Qed.
Lemma nth_error_set_nth_neq {A} (l : list A) t t' x :
  t' <> t -> nth_error (set_nth l t x) t' = nth_error l t'.
Proof.
  revert t t'; induction l as [|a l IH]; intros [|t] [|t'] H; cbn; auto; try congruence.
Qed.
Lemma set_nth_length {A} (l : list A) t x : length (set_nth l t x) = length l.
Proof. revert t; induction l as [|a l IH]; intros [|t]; cbn; auto. Qed.

Lemma in_remove_iff (x y : nat) l : In x (remove Nat.eq_dec y l) <-> In x l /\ x <> y.
Proof.
  split.
  - apply in_remove.
  - intros [H1 H2]. now apply in_in_remove.
Qed.
Lemma NoDup_remove_nat (y : nat) l : NoDup l -> NoDup (remove Nat.eq_dec y l).
Proof.
  induction 1 as [|a l Ha Hl IH]; cbn; [constructor|].
  destruct (Nat.eq_dec y a); auto. constructor; auto.
  rewrite in_remove_iff. tauto.
Qed.

(* ---------- the generic framework: one step, executions ---------- *)
Section Framework.
  Variables (G L E : Type).
  Variable tstep : G -> nat -> L -> option (G * L * option E).

  Lemma step_inv_some c t c' e :
    step G L E tstep c t = Some (c', e) ->
    exists l g' l', nth_error (thr c) t = Some l /\ tstep (glob c) t l = Some (g', l', e)
                    /\ c' = {| glob := g'; thr := set_nth (thr c) t l' |}.
  Proof.
    unfold step. destruct (nth_error (thr c) t) as [l|]; [|discriminate].
    destruct (tstep (glob c) t l) as [[[g' l'] e']|] eqn:Es; [|discriminate].
    intros H; inversion H; subst. eauto 6.
  Qed.

  Lemma exec_cons_some c t r c' e :
    step G L E tstep c t = Some (c', e) ->
    exec G L E tstep c (t :: r) =
      (fst (exec G L E tstep c' r),
       match e with Some x => (t, x) :: snd (exec G L E tstep c' r) | None => snd (exec G L E tstep c' r) end).
  Proof. intros H. cbn [exec]. rewrite H. now destruct (exec G L E tstep c' r). Qed.
  Lemma exec_cons_none c t r :
    step G L E tstep c t = None -> exec G L E tstep c (t :: r) = exec G L E tstep c r.
  Proof. intros H. cbn [exec]. now rewrite H. Qed.

  (* an invariant of the steps is an invariant of the executions *)
  Lemma exec_invariant (P : config G L -> Prop) :
    (forall c t c' e, P c -> step G L E tstep c t = Some (c', e) -> P c') ->
    forall sch c, P c -> P (fst (exec G L E tstep c sch)).
  Proof.
    intros Hstep; induction sch as [|t r IH]; intros c Hc; [exact Hc|].
    destruct (step G L E tstep c t) as [[c' e]|] eqn:Es.
    - rewrite (exec_cons_some _ _ _ _ _ Es). cbn [fst]. eauto.
    - rewrite (exec_cons_none _ _ _ Es). auto.
  Qed.

  Lemma exec_app c s1 s2 :
    exec G L E tstep c (s1 ++ s2) =
      (fst (exec G L E tstep (fst (exec G L E tstep c s1)) s2),
       snd (exec G L E tstep c s1) ++ snd (exec G L E tstep (fst (exec G L E tstep c s1)) s2)).
  Proof.
    revert c; induction s1 as [|t r IH]; intros c.
    - cbn [app exec fst snd]. now destruct (exec G L E tstep c s2).
    - cbn [app]. destruct (step G L E tstep c t) as [[c' e]|] eqn:Es.
      + rewrite !(exec_cons_some _ _ _ _ _ Es), IH. cbn [fst snd]. now destruct e.
      + rewrite !(exec_cons_none _ _ _ Es). apply IH.
  Qed.
End Framework.

(* ---------- the invariant ---------- *)
Definition at_ (ths : list local) (P : pc -> bool) (t : nat) : Prop :=
  exists l, nth_error ths t = Some l /\ P (l_pc l) = true.

Lemma at_set_nth ths t l l' P t' :
  nth_error ths t = Some l ->
  (at_ (set_nth ths t l') P t' <-> (if Nat.eq_dec t' t then P (l_pc l') = true else at_ ths P t')).
Proof.
  intros Hl. unfold at_. destruct (Nat.eq_dec t' t) as [->|Hne].
  - rewrite (nth_error_set_nth_eq _ _ _ _ Hl). split.
    + intros [l0 [H1 H2]]. now inversion H1; subst.
    + eauto.
  - now rewrite (nth_error_set_nth_neq _ _ _ _ Hne).
Qed.
Lemma at_here ths t l P : nth_error ths t = Some l -> (at_ ths P t <-> P (l_pc l) = true).
Proof.
  intros Hl. unfold at_. rewrite Hl. split.
  - intros [l0 [H1 H2]]. now inversion H1; subst.
  - eauto.
Qed.

Arguments at_ : simpl never.

Lemma at_local ths t l P (Q : nat -> Prop) :
  nth_error ths t = Some l -> (forall t, Q t <-> at_ ths P t) -> (Q t <-> P (l_pc l) = true).
Proof. intros Hl HQ. pose proof (at_here ths t l P Hl). pose proof (HQ t). tauto. Qed.
Lemma at_upd ths t l l' P (Q Q' : nat -> Prop) :
  nth_error ths t = Some l -> (forall t, Q t <-> at_ ths P t) ->
  (Q' t <-> P (l_pc l') = true) -> (forall t', t' <> t -> (Q' t' <-> Q t')) ->
  forall t', Q' t' <-> at_ (set_nth ths t l') P t'.
Proof.
  intros Hl HQ H1 H2 t'. pose proof (at_set_nth ths t l l' P t' Hl) as H3.
  destruct (Nat.eq_dec t' t) as [->|Hne]; [tauto|]. pose proof (H2 t' Hne). pose proof (HQ t'). tauto.
Qed.

Lemma iff_true_elim (X : Prop) : (X <-> true = true) -> X.
Proof. intros [_ H]. auto. Qed.
Lemma iff_false_elim (X : Prop) : (X <-> false = true) -> ~ X.
Proof. intros [H _] x. apply H in x. discriminate. Qed.

(* ---------- case analysis of one micro-step ---------- *)
Ltac step_unfold H :=
  unfold cstep, release_send, with_S, with_A, with_sess, finish, goto, ev, rlock, wannounce, wacquire,
    mlock, munlock, runlock, wunlock in H;
  cbn in H;
  try (let tp0 := fresh "tp0" in let Etp := fresh in
       remember (match cf_key _ with None => true | Some _ => false end) as tp0 eqn:Etp in H; clear Etp).
Ltac step_split H :=
  repeat (first [ match type of H with
                  | context [match ?x with _ => _ end] => is_var x; destruct x; cbn in H
                  end
                | match type of H with
                  | context [match ?x with _ => _ end] =>
                      lazymatch x with
                      | context [match _ with _ => _ end] => fail
                      | _ => destruct x eqn:?; cbn in H
                      end
                  end ]);
  try discriminate H; inversion H; subst; clear H.
Ltac step_cases H := step_unfold H; step_split H.

Ltac norm_hyps :=
  repeat match goal with
         | H : _ <-> true = true |- _ => apply iff_true_elim in H
         | H : _ <-> false = true |- _ => apply iff_false_elim in H
         | H : Nat.eqb _ _ = true |- _ => apply Nat.eqb_eq in H; subst
         | H : Some _ = Some _ |- _ => inversion H; subst; clear H
         end.

(* connection bookkeeping *)
Definition conn_ok (g : shared) : Prop :=
  NoDup (g_closed g)
  /\ (forall c, In c (g_closed g) -> c < g_next g)
  /\ (forall c f, g_sess g = Some (c, f) -> c < g_next g /\ ~ In c (g_closed g))
  /\ (forall i, i < g_next g -> (exists f, g_sess g = Some (i, f)) \/ In i (g_closed g)).

(* the connection a thread remembers is the current session's *)
Definition pc_sess (g : shared) (p : pc) : Prop :=
  match p with
  | PSendLocked c | PSendAck c | PWantAck c | PRawLocked c => g_sess g = Some (c, true)
  | PHsLocked c => exists f, g_sess g = Some (c, f)
  | PReconnClosed => g_sess g = None          (* Reconnect closed the old connection *)
  | _ => True
  end.

Lemma pc_sess_free g p : holds_S p = false -> holds_X p = false -> pc_sess g p.
Proof. destruct p; cbn; intros; try discriminate; exact I. Qed.
Lemma pc_sess_same g g' p : g_sess g' = g_sess g -> pc_sess g p -> pc_sess g' p.
Proof. intros E. destruct p; cbn; rewrite ?E; auto. Qed.

Section Inv.
  Variable cf : cfg.

  Record Inv (c : cconfig) : Prop := {
    (* S held shared: exactly the threads at a send / raw / handshake-I/O pc *)
    inv_readers : forall t, In t (rw_readers (g_S (glob c))) <-> at_ (thr c) holds_S t;
    inv_nodup : NoDup (rw_readers (g_S (glob c)));
    (* S held exclusively: exactly the thread at PExcl / PReconnClosed (hence at most one) *)
    inv_writer : forall t, rw_writer (g_S (glob c)) = Some t <-> at_ (thr c) holds_X t;
    inv_excl : rw_writer (g_S (glob c)) <> None ->
               rw_readers (g_S (glob c)) = [] /\ rw_pending (g_S (glob c)) = None;
    (* the announced writer *)
    inv_pending : forall t, rw_pending (g_S (glob c)) = Some t <-> at_ (thr c) is_ann t;
    (* ackLock *)
    inv_A : if cf_ack cf then forall t, g_A (glob c) = Some t <-> at_ (thr c) holds_A t
            else g_A (glob c) = None;
    (* without RequireAck nobody enters the ack protocol *)
    inv_noack : cf_ack cf = false -> forall t, ~ at_ (thr c) needs_ack t;
    inv_conn : conn_ok (glob c);
    inv_sess : forall t l, nth_error (thr c) t = Some l -> pc_sess (glob c) (l_pc l);
    inv_pcok : forall t l, nth_error (thr c) t = Some l -> pc_ok (l_pc l) (l_ops l) = true }.

  Lemma inv_pending_writer c : Inv c -> forall t, rw_pending (g_S (glob c)) = Some t -> rw_writer (g_S (glob c)) = None.
  Proof.
    intros HI t Hp. destruct (rw_writer (g_S (glob c))) eqn:Ew; auto.
    destruct (inv_excl c HI) as [_ H]; [congruence|]. congruence.
  Qed.

  Lemma inv_init progs : Inv (init_conc progs).
  Proof.
    assert (Hn : forall t l, nth_error (thr (init_conc progs)) t = Some l -> l_pc l = PIdle).
    { intros t l H. cbn in H. apply nth_error_In, in_map_iff in H. destruct H as [p [<- _]]. reflexivity. }
    assert (Ha : forall P t, P PIdle = false -> ~ at_ (thr (init_conc progs)) P t).
    { intros P t HP [l [H1 H2]]. rewrite (Hn _ _ H1) in H2. congruence. }
    constructor; cbn [init_conc glob g0 g_S g_A rw_init rw_readers rw_writer rw_pending].
    - intros t. split; [intros []|]. intros H. now apply Ha in H.
    - constructor.
    - intros t. split; [discriminate|]. intros H. now apply Ha in H.
    - congruence.
    - intros t. split; [discriminate|]. intros H. now apply Ha in H.
    - destruct (cf_ack cf); auto. intros t. split; [discriminate|]. intros H. now apply Ha in H.
    - intros _ t. now apply Ha.
    - unfold conn_ok; cbn. repeat split; try constructor; intros; try contradiction; try discriminate; lia.
    - intros t l H. rewrite (Hn _ _ H). exact I.
    - intros t l H. rewrite (Hn _ _ H). reflexivity.
  Qed.

  (* ---------- preservation, one component at a time ---------- *)
  Ltac prep HI Hl :=
    destruct HI as [HR HN HW HE HP HA HNA HC HSs HK]; cbn [glob thr] in *;
    pose proof (at_local _ _ _ _ _ Hl HR) as HRt; pose proof (at_local _ _ _ _ _ Hl HW) as HWt;
    pose proof (at_local _ _ _ _ _ Hl HP) as HPt; cbn beta in HRt, HWt, HPt.
  Ltac use_excl :=
    try match goal with
        | HE : Some _ <> None -> _ /\ _ |- _ =>
            let a := fresh in let b := fresh in
            destruct HE as [a b]; [discriminate|]; try subst; try discriminate; cbn in *
        end.
  Ltac concrete g l :=
    destruct g as [sess next [rd wr pe] A closed wire], l as [p ops rets];
    cbn [g_S g_A g_sess g_next g_closed g_wire rw_readers rw_writer rw_pending l_pc l_ops l_rets] in *.

  Section Step.
    Variables (g : shared) (ths : list local) (t : nat) (l : local) (g' : shared) (l' : local) (e : option cevent).
    Hypothesis HI : Inv {| glob := g; thr := ths |}.
    Hypothesis Hl : nth_error ths t = Some l.
    Hypothesis Hs : cstep cf g t l = Some (g', l', e).

    Lemma pres_readers : forall t', In t' (rw_readers (g_S g')) <-> at_ (set_nth ths t l') holds_S t'.
    Proof.
      prep HI Hl.
      apply (at_upd ths t l l' holds_S _ (fun t' => In t' (rw_readers (g_S g'))) Hl HR);
        clear HN HW HE HP HA HNA HC HSs HK HR Hl HWt HPt; concrete g l;
        step_cases Hs; cbn in *; norm_hyps; try intros t' Hne; rewrite ?in_remove_iff; intuition congruence.
    Qed.

    Lemma pres_nodup : NoDup (rw_readers (g_S g')).
    Proof.
      prep HI Hl. clear HW HE HP HA HNA HC HSs HK HR Hl HWt HPt; concrete g l.
      step_cases Hs; cbn in *; norm_hyps; auto using NoDup_remove_nat; constructor; auto.
    Qed.

    Lemma pres_writer : forall t', rw_writer (g_S g') = Some t' <-> at_ (set_nth ths t l') holds_X t'.
    Proof.
      prep HI Hl.
      apply (at_upd ths t l l' holds_X _ (fun t' => rw_writer (g_S g') = Some t') Hl HW);
        clear HN HP HA HNA HC HSs HK HR HW Hl; concrete g l;
        step_cases Hs; cbn in *; norm_hyps; try intros t' Hne; try (destruct wr); intuition congruence.
    Qed.

    Lemma pres_excl : rw_writer (g_S g') <> None -> rw_readers (g_S g') = [] /\ rw_pending (g_S g') = None.
    Proof.
      prep HI Hl. clear HN HP HA HNA HC HSs HK HR HW Hl; concrete g l.
      step_cases Hs; cbn in *; norm_hyps; try (destruct wr); use_excl; intuition congruence.
    Qed.

    Lemma pres_pending : forall t', rw_pending (g_S g') = Some t' <-> at_ (set_nth ths t l') is_ann t'.
    Proof.
      prep HI Hl.
      apply (at_upd ths t l l' is_ann _ (fun t' => rw_pending (g_S g') = Some t') Hl HP);
        clear HN HA HNA HC HSs HK HR HW HP Hl; concrete g l;
        step_cases Hs; cbn in *; norm_hyps; try intros t' Hne; try (destruct wr); try (destruct pe); intuition congruence.
    Qed.

    Lemma pres_A_true : cf_ack cf = true -> forall t', g_A g' = Some t' <-> at_ (set_nth ths t l') holds_A t'.
    Proof.
      intros Eack. prep HI Hl. rewrite Eack in HA.
      pose proof (at_local _ _ _ _ _ Hl HA) as HAt; cbn beta in HAt.
      apply (at_upd ths t l l' holds_A _ (fun t' => g_A g' = Some t') Hl HA);
        clear HN HNA HC HSs HK HR HW HP HE HA Hl; concrete g l;
        step_unfold Hs; rewrite ?Eack in Hs; cbn in Hs; step_split Hs; cbn in *; norm_hyps; try intros t' Hne; try (destruct A); intuition congruence.
    Qed.

    Lemma pres_noack : cf_ack cf = false -> forall t', ~ at_ (set_nth ths t l') needs_ack t'.
    Proof.
      intros Eack. prep HI Hl. specialize (HNA Eack).
      assert (HNA' : forall t, False <-> at_ ths needs_ack t) by (intros t0; split; [tauto | apply HNA]).
      pose proof (at_local _ _ _ _ _ Hl HNA') as HNt; cbn beta in HNt.
      assert (HX : forall t', False <-> at_ (set_nth ths t l') needs_ack t'); [|intros t' H0; exact (proj2 (HX t') H0)].
      apply (at_upd ths t l l' needs_ack _ (fun _ => False) Hl HNA'); [|tauto].
      clear HN HNA HNA' HC HSs HK HR HW HP HE HA Hl; concrete g l;
        step_unfold Hs; rewrite ?Eack in Hs; cbn in Hs; step_split Hs; cbn in *; norm_hyps; intuition congruence.
    Qed.

    Lemma pres_A_false : cf_ack cf = false -> g_A g' = None.
    Proof.
      intros Eack. prep HI Hl. specialize (HNA Eack). rewrite Eack in HA.
      assert (HNA' : forall t, False <-> at_ ths needs_ack t) by (intros t0; split; [tauto | apply HNA]).
      pose proof (at_local _ _ _ _ _ Hl HNA') as HNt; cbn beta in HNt.
      clear HN HNA HNA' HC HSs HK HR HW HP HE Hl; concrete g l;
        step_unfold Hs; rewrite ?Eack in Hs; cbn in Hs; step_split Hs; cbn in *; norm_hyps; intuition congruence.
    Qed.

    Lemma pres_pcok : forall t' l0, nth_error (set_nth ths t l') t' = Some l0 -> pc_ok (l_pc l0) (l_ops l0) = true.
    Proof.
      intros t' l0 H0. destruct (Nat.eq_dec t' t) as [->|Hne].
      - rewrite (nth_error_set_nth_eq _ _ _ _ Hl) in H0. inversion H0; subst l0; clear H0.
        pose proof (inv_pcok _ HI _ _ Hl) as HKt. cbn [thr] in HKt. clear Hl. concrete g l.
        step_cases Hs; cbn in *; auto.
      - rewrite (nth_error_set_nth_neq _ _ _ _ Hne) in H0. exact (inv_pcok _ HI _ _ H0).
    Qed.

    Lemma pres_conn : conn_ok (g').
    Proof.
      pose proof (inv_conn _ HI) as HC. pose proof (inv_sess _ HI _ _ Hl) as HSt. cbn [glob] in HC, HSt.
      clear Hl. unfold conn_ok in *. concrete g l.
      destruct HC as [C1 [C2 [C3 C4]]].
      step_cases Hs; cbn in *; try solve [auto]; try subst sess.
      all: try (pose proof (C3 _ _ eq_refl) as [C5 C6]).
      all: repeat split; intros;
        repeat match goal with
               | H : Some _ = Some _ |- _ => inversion H; subst; clear H
               | H : None = Some _ |- _ => discriminate H
               | H : _ \/ _ |- _ => destruct H as [H|H]; subst
               end; auto; try lia.
      all: try solve [constructor; auto].
      all: try solve [apply C2 in H; lia].
      all: try solve [intros [X|X]; subst; [lia|apply C2 in X; lia]].
      all: try solve [intros X; apply C2 in X; lia].
      all: try solve [destruct (Nat.eq_dec i next) as [->|Hn]; [left; eauto | destruct (C4 i) as [[f X]|X]; [lia|discriminate|auto]]].
      all: try solve [destruct (C4 i H) as [[f X]|X]; [inversion X; subst; eauto | auto]].
    Qed.

    Lemma pres_sess : forall t' l0, nth_error (set_nth ths t l') t' = Some l0 -> pc_sess g' (l_pc l0).
    Proof.
      intros t' l0 H0. destruct (Nat.eq_dec t' t) as [->|Hne].
      - rewrite (nth_error_set_nth_eq _ _ _ _ Hl) in H0. inversion H0; subst l0; clear H0.
        pose proof (inv_sess _ HI _ _ Hl) as HSt. cbn [glob thr] in HSt. clear Hl. concrete g l.
        step_cases Hs; cbn in *; eauto.
      - rewrite (nth_error_set_nth_neq _ _ _ _ Hne) in H0.
        pose proof (inv_sess _ HI _ _ H0) as HS0. cbn [glob thr] in HS0.
        (* when t holds S exclusively, the other threads remember no connection *)
        assert (Hfree : rw_writer (g_S g) = Some t -> holds_S (l_pc l0) = false /\ holds_X (l_pc l0) = false).
        { intros Hw. destruct (inv_excl _ HI) as [Hr _]; cbn [glob]; [congruence|]. cbn [glob] in Hr. split.
          - destruct (holds_S (l_pc l0)) eqn:E; auto. exfalso.
            assert (In t' (rw_readers (g_S g))) by (apply (inv_readers _ HI); exists l0; auto).
            rewrite Hr in H. contradiction.
          - destruct (holds_X (l_pc l0)) eqn:E; auto. exfalso.
            assert (rw_writer (g_S g) = Some t') by (apply (inv_writer _ HI); exists l0; auto). congruence. }
        prep HI Hl. clear HN HP HA HNA HC HSs HK HR HW HE H0 Hl. concrete g l.
        step_cases Hs; cbn in *; norm_hyps; try exact HS0;
          try (apply (pc_sess_same _ _ _ eq_refl HS0));
          try (destruct Hfree as [F1 F2]; [congruence|]; apply pc_sess_free; assumption).
    Qed.

    (* one micro-step preserves the invariant *)
    Lemma cstep_inv : Inv {| glob := g'; thr := set_nth ths t l' |}.
    Proof.
      constructor; cbn [glob thr].
      - exact pres_readers.
      - exact pres_nodup.
      - exact pres_writer.
      - exact pres_excl.
      - exact pres_pending.
      - destruct (cf_ack cf) eqn:Eack; [exact (pres_A_true Eack) | exact (pres_A_false Eack)].
      - exact pres_noack.
      - exact pres_conn.
      - exact pres_sess.
      - exact pres_pcok.
    Qed.
  End Step.

  Theorem step_preserves_inv c t c' e : Inv c -> conc_step cf c t = Some (c', e) -> Inv c'.
  Proof.
    intros HI Hs. apply step_inv_some in Hs. destruct Hs as [l [g' [l' [Hl [Hs ->]]]]].
    destruct c as [g ths]. exact (cstep_inv g ths t l g' l' e HI Hl Hs).
  Qed.

  Definition reachable (progs : list (list cop)) (c : cconfig) : Prop :=
    exists sch, fst (conc_exec cf (init_conc progs) sch) = c.

  Theorem exec_inv c sch : Inv c -> Inv (fst (conc_exec cf c sch)).
  Proof. intros H. apply (exec_invariant _ _ _ (cstep cf) Inv step_preserves_inv sch c H). Qed.

  Theorem reachable_inv progs c : reachable progs c -> Inv c.
  Proof. intros [sch <-]. apply exec_inv, inv_init. Qed.

  Lemma reachable_init progs : reachable progs (init_conc progs).
  Proof. exists []. reflexivity. Qed.
  Lemma reachable_step progs c t c' e : reachable progs c -> conc_step cf c t = Some (c', e) -> reachable progs c'.
  Proof.
    intros [sch <-] Hs. exists (sch ++ [t]). unfold conc_exec. rewrite exec_app. cbn [fst].
    unfold conc_step in Hs. rewrite (exec_cons_some _ _ _ _ _ _ _ _ _ Hs). reflexivity.
  Qed.
  Lemma reachable_exec progs c sch : reachable progs c -> reachable progs (fst (conc_exec cf c sch)).
  Proof.
    intros [s0 <-]. exists (s0 ++ sch). unfold conc_exec. now rewrite exec_app.
  Qed.
End Inv.

Print Assumptions reachable_inv.
