(* The encoders emit exactly the Forward Protocol v1 wire format, as judged by the
   independent msgpack parser and the protocol shapes of Spec.v: for every well-formed
   message the specification reads the encoding completely and recovers the abstraction
   of the message (Abs.v). *)
From Coq Require Import Lia ZifyN ZifyNat ZifyBool String.
From FF Require Import model.Bytes model.Show model.Msgp model.Forward model.Spec model.Abs model.Wf
  model.Handshake proofs.Bytes_Proofs proofs.Spec_Proofs.
Open Scope N_scope.

Lemma Ok_inj {A} (a b : A) : Ok a = Ok b -> a = b.
Proof. intros H. now injection H. Qed.

(* ---------- composing parses ---------- *)

(* [e] is read as [v] with any fuel from K on and any trailing input *)
Definition parsesK (K : nat) (e : bytes) (v : value) : Prop :=
  forall f rest, (K <= f)%nat -> parse f (e ++ rest) = Some (v, rest).
Definition parses (e : bytes) (v : value) : Prop := exists K, parsesK K e v.

(* [es] is the concatenation of encodings read as the values [vs] *)
Inductive pseqK (K : nat) : bytes -> list value -> Prop :=
| pseqK_nil : pseqK K [] []
| pseqK_cons e v es vs : parsesK K e v -> pseqK K es vs -> pseqK K (e ++ es) (v :: vs).
Definition pseq (es : bytes) (vs : list value) : Prop := exists K, pseqK K es vs.

Lemma parsesK_mono K K' e v : (K <= K')%nat -> parsesK K e v -> parsesK K' e v.
Proof. intros Hle H f rest Hf. apply H. lia. Qed.

Lemma pseqK_mono K K' es vs : (K <= K')%nat -> pseqK K es vs -> pseqK K' es vs.
Proof.
  intros Hle H. induction H; constructor; auto. eapply parsesK_mono; eauto.
Qed.

Lemma pseq_nil : pseq [] [].
Proof. exists 0%nat. constructor. Qed.

Lemma pseq_cons e v es vs : parses e v -> pseq es vs -> pseq (e ++ es) (v :: vs).
Proof.
  intros [K1 H1] [K2 H2]. exists (Nat.max K1 K2). constructor.
  - eapply parsesK_mono; [|exact H1]. lia.
  - eapply pseqK_mono; [|exact H2]. lia.
Qed.

Lemma pseq_one e v : parses e v -> pseq e [v].
Proof. intros H. rewrite <- (app_nil_r e). apply pseq_cons; [exact H|apply pseq_nil]. Qed.

Lemma pseqK_app K e1 v1 e2 v2 : pseqK K e1 v1 -> pseqK K e2 v2 -> pseqK K (e1 ++ e2) (v1 ++ v2).
Proof.
  intros H1 H2. induction H1; cbn [app]; auto.
  rewrite <- app_assoc. constructor; auto.
Qed.

Lemma pseq_app e1 v1 e2 v2 : pseq e1 v1 -> pseq e2 v2 -> pseq (e1 ++ e2) (v1 ++ v2).
Proof.
  intros [K1 H1] [K2 H2]. exists (Nat.max K1 K2). apply pseqK_app.
  - eapply pseqK_mono; [|exact H1]. lia.
  - eapply pseqK_mono; [|exact H2]. lia.
Qed.

(* the element loops of the specification on a sequence *)
Lemma parse_arr_pseqK K body vs : pseqK K body vs ->
  forall f acc rest, (K + length vs < f)%nat ->
  parse_arr f (len vs) (body ++ rest) acc = Some (VArr (rev acc ++ vs), rest).
Proof.
  induction 1 as [|e v es vs He Hs IH]; intros f acc rest Hf;
    (destruct f as [|f]; [lia|]); rewrite parse_arr_S.
  - rewrite len_nil. cbn [N.eqb app]. now rewrite app_nil_r.
  - rewrite len_cons_nz, len_cons_pred. cbn [length] in Hf.
    rewrite <- app_assoc. rewrite (He f) by lia. cbn [obind].
    rewrite IH by lia. cbn [rev]. now rewrite <- app_assoc.
Qed.

Definition flat (kvs : list (value * value)) : list value :=
  flat_map (fun kv => [fst kv; snd kv]) kvs.

Lemma flat_app a b : flat (a ++ b) = flat a ++ flat b.
Proof. unfold flat. now rewrite flat_map_app. Qed.

Lemma parse_map_pseqK K kvs : forall body, pseqK K body (flat kvs) ->
  forall f acc rest, (K + length kvs < f)%nat ->
  parse_map f (len kvs) (body ++ rest) acc = Some (VMap (rev acc ++ kvs), rest).
Proof.
  induction kvs as [|[k v] kvs IH]; intros body H f acc rest Hf;
    (destruct f as [|f]; [lia|]); rewrite parse_map_S.
  - inversion H; subst. rewrite len_nil. cbn [N.eqb app]. now rewrite app_nil_r.
  - rewrite len_cons_nz, len_cons_pred. cbn [length] in Hf.
    unfold flat in H. cbn [flat_map fst snd app] in H. fold (flat kvs) in H.
    inversion H as [|ek k' es1 vs1 Hk H1]; subst.
    inversion H1 as [|ev v' es2 vs2 Hv H2]; subst.
    rewrite <- !app_assoc. rewrite (Hk f) by lia. cbn [obind].
    rewrite (Hv f) by lia. cbn [obind].
    rewrite (IH _ H2) by lia. cbn [rev]. now rewrite <- app_assoc.
Qed.

(* arrays and maps of sequences *)
Lemma parses_arr body vs : pseq body vs -> len vs < two32 ->
  parses (enc_arr_hdr (len vs) ++ body) (VArr vs).
Proof.
  intros [K H] Hl. exists (S (S (K + length vs))). intros f rest Hf.
  destruct f as [|f]; [lia|]. rewrite <- app_assoc. rewrite parse_enc_arr_hdr by exact Hl.
  rewrite (parse_arr_pseqK K body vs H) by lia. reflexivity.
Qed.

Lemma parses_map body kvs : pseq body (flat kvs) -> len kvs < two32 ->
  parses (enc_map_hdr (len kvs) ++ body) (VMap kvs).
Proof.
  intros [K H] Hl. exists (S (S (K + length kvs))). intros f rest Hf.
  destruct f as [|f]; [lia|]. rewrite <- app_assoc. rewrite parse_enc_map_hdr by exact Hl.
  rewrite (parse_map_pseqK K kvs body H) by lia. reflexivity.
Qed.

Lemma enc_arr_hdr_fix n : n <= 15 -> enc_arr_hdr n = [n2b (144 + n)].
Proof. intros H. unfold enc_arr_hdr, hdr3. destruct (N.leb_spec n 15); [reflexivity|lia]. Qed.
Lemma enc_map_hdr_fix n : n <= 15 -> enc_map_hdr n = [n2b (128 + n)].
Proof. intros H. unfold enc_map_hdr, hdr3. destruct (N.leb_spec n 15); [reflexivity|lia]. Qed.

(* fixarray / fixmap with a literal lead byte *)
Lemma parses_fixarr c body vs : pseq body vs -> c = 144 + len vs -> len vs <= 15 ->
  parses ([n2b c] ++ body) (VArr vs).
Proof.
  intros H -> Hl. rewrite <- enc_arr_hdr_fix by exact Hl. apply parses_arr; [exact H|].
  unfold two32. lia.
Qed.

Lemma parses_fixmap c body kvs : pseq body (flat kvs) -> c = 128 + len kvs -> len kvs <= 15 ->
  parses ([n2b c] ++ body) (VMap kvs).
Proof.
  intros H -> Hl. rewrite <- enc_map_hdr_fix by exact Hl. apply parses_map; [exact H|].
  unfold two32. lia.
Qed.

(* a complete parse with the fuel of parse1 *)
Lemma parses_parse1 e v : parses e v -> parse1 e = Some (v, []).
Proof.
  intros [K H]. apply (parse1_complete K). specialize (H K [] (le_n K)).
  now rewrite app_nil_r in H.
Qed.

Lemma parses_parse1_app e v rest : parses e v -> parse1 (e ++ rest) = Some (v, rest).
Proof. intros [K H]. apply (parse1_complete K). now apply H. Qed.

(* ---------- the atoms ---------- *)

Lemma parses_str s : len s < two32 -> parses (enc_str s) (VStr s).
Proof. intros H. exists 1%nat. intros [|f] rest Hf; [lia|]. now apply parse_enc_str. Qed.
Lemma parses_bin s : len s < two32 -> parses (enc_bin s) (VBin s).
Proof. intros H. exists 1%nat. intros [|f] rest Hf; [lia|]. now apply parse_enc_bin. Qed.
Lemma parses_int z : int64_ok z = true -> parses (enc_int z) (VInt z).
Proof. intros H. exists 1%nat. intros [|f] rest Hf; [lia|]. now apply parse_enc_int. Qed.
Lemma parses_nil : parses enc_nil VNil.
Proof. exists 1%nat. intros [|f] rest Hf; [lia|]. apply parse_enc_nil. Qed.
Lemma parses_bool b : parses (enc_bool b) (VBool b).
Proof. exists 1%nat. intros [|f] rest Hf; [lia|]. apply parse_enc_bool. Qed.
Lemma parses_eventtime s n : wf_instant (s, n) = true ->
  parses (enc_eventtime s n) (VExt 0 (et_payload s n)).
Proof. intros H. exists 1%nat. intros [|f] rest Hf; [lia|]. now apply parse_enc_eventtime. Qed.
Lemma parses_gval g e : wf_gval g = true -> enc_gval g = Ok e -> parses e (value_of g).
Proof. intros Hw He. exists (gsize g). intros f rest Hf. now apply parse_enc. Qed.

(* length bound of a literal key *)
Ltac len_lit := vm_compute; reflexivity.

(* ---------- EventTime layout ---------- *)

Lemma wf_instant_spec s n : wf_instant (s, n) = true -> (0 <= s < 4294967296)%Z /\ n < 1000000000.
Proof. unfold wf_instant, nsec_mod. cbn [fst snd]. lia. Qed.

Lemma z2n_4_small s : (0 <= s < 4294967296)%Z -> z2n 4 s = Z.to_N s.
Proof.
  intros H. unfold z2n. change (2 ^ (8 * Z.of_nat 4))%Z with 4294967296%Z.
  now rewrite Z.mod_small.
Qed.

(* fixext8, type 0, big-endian seconds then nanoseconds *)
Theorem wire_eventtime : forall s n, wf_instant (s, n) = true ->
  enc_eventtime s n = [n2b 215; n2b 0] ++ be 4 (Z.to_N s) ++ be 4 n.
Proof.
  intros s n H. apply wf_instant_spec in H as [Hs _].
  unfold enc_eventtime, enc_ext. cbv zeta. rewrite len_et_payload. cbn [N.eqb Pos.eqb].
  unfold et_payload. now rewrite z2n_4_small.
Qed.

Lemma firstn_app_exact {A} k (a b : list A) : List.length a = k -> firstn k (a ++ b) = a.
Proof. intros <-. rewrite firstn_app, Nat.sub_diag, firstn_all, firstn_O. apply app_nil_r. Qed.
Lemma skipn_app_exact {A} k (a b : list A) : List.length a = k -> skipn k (a ++ b) = b.
Proof. intros <-. rewrite skipn_app, Nat.sub_diag, skipn_all. reflexivity. Qed.

Lemma as_time_eventtime s n : wf_instant (s, n) = true ->
  as_time (VExt 0 (et_payload s n)) = Some (stime_of (s, n)).
Proof.
  intros H. apply wf_instant_spec in H as [Hs Hn].
  unfold as_time. rewrite len_et_payload. cbn [N.eqb Pos.eqb andb].
  unfold et_payload, stime_of. cbn [fst snd].
  rewrite firstn_app_exact by apply be_length.
  rewrite skipn_app_exact by apply be_length.
  rewrite z2n_4_small by exact Hs.
  rewrite !unbe_be; [reflexivity| |]; change (256 ^ N.of_nat 4) with 4294967296; lia.
Qed.

Lemma as_eventtime_eventtime s n : wf_instant (s, n) = true ->
  as_eventtime (VExt 0 (et_payload s n)) = Some (stime_of (s, n)).
Proof. intros H. unfold as_eventtime. now rewrite as_time_eventtime. Qed.

(* ---------- the option map ---------- *)

(* the pairs of the encoded option map: size, chunk, compressed in that order, each
   omitted when empty; no other key *)
Definition opt_kvs (o : options) : list (value * value) :=
  (match o_size o with Some z => [(VStr k_size, VInt z)] | None => [] end)
  ++ (match o_chunk o with [] => [] | c => [(VStr k_chunk, VStr c)] end)
  ++ (match o_comp o with [] => [] | c => [(VStr k_comp, VStr c)] end).

Definition optopt_val (o : option options) : value :=
  match o with None => VNil | Some o => VMap (opt_kvs o) end.

Lemma wf_options_spec o : wf_options o = true ->
  (match o_size o with Some z => int64_ok z = true | None => True end) /\
  len (o_chunk o) < two32 /\ len (o_comp o) < two32.
Proof.
  unfold wf_options. intros H. apply andb_prop in H as [H H3]. apply andb_prop in H as [H1 H2].
  apply N.ltb_lt in H2. apply N.ltb_lt in H3. repeat split; auto.
  destruct (o_size o); auto.
Qed.

Lemma pseq_pair k v ek ev : parses ek k -> parses ev v -> pseq (ek ++ ev) (flat [(k, v)]).
Proof. intros Hk Hv. apply pseq_cons; [exact Hk|]. apply pseq_one. exact Hv. Qed.

Lemma parses_options o : wf_options o = true -> parses (M_options o) (VMap (opt_kvs o)).
Proof.
  intros H. apply wf_options_spec in H as (Hs & Hc & Hp).
  unfold M_options. cbv zeta. apply parses_fixmap.
  - unfold opt_kvs. rewrite !flat_app. apply pseq_app; [|apply pseq_app].
    + destruct (o_size o) as [z|]; [|apply pseq_nil].
      apply pseq_pair; [apply parses_str; len_lit | now apply parses_int].
    + destruct (o_chunk o) as [|b c] eqn:E; [apply pseq_nil|].
      apply pseq_pair; [apply parses_str; len_lit | now apply parses_str].
    + destruct (o_comp o) as [|b c] eqn:E; [apply pseq_nil|].
      apply pseq_pair; [apply parses_str; len_lit | now apply parses_str].
  - unfold opt_kvs. destruct (o_size o), (o_chunk o), (o_comp o); reflexivity.
  - unfold opt_kvs. destruct (o_size o), (o_chunk o), (o_comp o); vm_compute; discriminate.
Qed.

Lemma as_optfield_options o : as_optfield (Some (VMap (opt_kvs o))) = Some (Some (sopts_of o)).
Proof.
  destruct o as [sz ch co]. unfold opt_kvs, sopts_of. cbn [o_size o_chunk o_comp].
  destruct sz, ch, co; reflexivity.
Qed.

(* the encoded option map contains only size / chunk / compressed, each omitted when empty *)
Theorem wire_options : forall o, wf_options o = true ->
  exists v, parse1 (M_options o) = Some (v, []) /\ as_optfield (Some v) = Some (Some (sopts_of o)).
Proof.
  intros o H. exists (VMap (opt_kvs o)). split.
  - apply parses_parse1. now apply parses_options.
  - apply as_optfield_options.
Qed.

Lemma parses_optopt o : wf_optopt o = true -> parses (M_optopt o) (optopt_val o).
Proof.
  destruct o as [o|]; cbn [wf_optopt M_optopt optopt_val]; intros H.
  - now apply parses_options.
  - apply parses_nil.
Qed.

Lemma as_optfield_optopt o : as_optfield (Some (optopt_val o)) = Some (soptopt_of o).
Proof. destruct o as [o|]; cbn [optopt_val soptopt_of option_map]; [apply as_optfield_options|reflexivity]. Qed.

(* ---------- Message and MessageExt modes ---------- *)

Lemma is_map_value_of g : is_gmap g = true -> is_map (value_of g) = true.
Proof. destruct g; try discriminate. reflexivity. Qed.

Ltac split_wf H :=
  repeat match type of H with
  | (_ && _) = true => let H' := fresh H in apply andb_prop in H as [H H']
  end.

Theorem wire_message : forall m e, wf_message m = true -> is_gmap (m_rec m) = true ->
  M_message m = Ok e -> spec_parse shape_message e = Some (abs_message m, []).
Proof.
  intros m e Hwf Hmap He. unfold wf_message in Hwf.
  apply andb_prop in Hwf as [Hwf Ho]. apply andb_prop in Hwf as [Hwf Hr].
  apply andb_prop in Hwf as [Ht Hts]. apply N.ltb_lt in Ht.
  unfold M_message in He. destruct (enc_gval (m_rec m)) as [r| |] eqn:Er; try discriminate.
  cbn [bind] in He. apply Ok_inj in He; subst e.
  assert (P : parses ([n2b 148] ++ enc_str (m_tag m) ++ enc_int (m_ts m) ++ r ++ M_optopt (m_opts m))
                     (VArr [VStr (m_tag m); VInt (m_ts m); value_of (m_rec m); optopt_val (m_opts m)])).
  { apply parses_fixarr; [|reflexivity|vm_compute; discriminate].
    apply pseq_cons; [now apply parses_str|].
    apply pseq_cons; [now apply parses_int|].
    apply pseq_cons; [now apply (parses_gval (m_rec m))|].
    apply pseq_one. now apply parses_optopt. }
  unfold spec_parse. rewrite (parses_parse1 _ _ P). cbn [obind].
  unfold shape_message, shape_message_gen. cbn [as_time].
  rewrite (is_map_value_of _ Hmap). cbn [orb hd_error].
  rewrite as_optfield_optopt. reflexivity.
Qed.

Theorem wire_message_ext : forall m e, wf_message_ext m = true -> is_gmap (x_rec m) = true ->
  M_message_ext m = Ok e -> spec_parse shape_message e = Some (abs_message_ext m, []).
Proof.
  intros m e Hwf Hmap He. unfold wf_message_ext in Hwf.
  apply andb_prop in Hwf as [Hwf Ho]. apply andb_prop in Hwf as [Hwf Hr].
  apply andb_prop in Hwf as [Ht Hts]. apply N.ltb_lt in Ht.
  destruct (x_ts m) as [s n] eqn:Ets.
  unfold M_message_ext in He. destruct (enc_gval (x_rec m)) as [r| |] eqn:Er; try discriminate.
  cbn [bind] in He. apply Ok_inj in He; subst e. rewrite Ets. cbn [fst snd].
  assert (P : parses ([n2b 148] ++ enc_str (x_tag m) ++ enc_eventtime s n ++ r ++ M_optopt (x_opts m))
                     (VArr [VStr (x_tag m); VExt 0 (et_payload s n); value_of (x_rec m); optopt_val (x_opts m)])).
  { apply parses_fixarr; [|reflexivity|vm_compute; discriminate].
    apply pseq_cons; [now apply parses_str|].
    apply pseq_cons; [now apply parses_eventtime|].
    apply pseq_cons; [now apply (parses_gval (x_rec m))|].
    apply pseq_one. now apply parses_optopt. }
  unfold spec_parse. rewrite (parses_parse1 _ _ P). cbn [obind].
  unfold shape_message, shape_message_gen. rewrite (as_time_eventtime s n Hts).
  rewrite (is_map_value_of _ Hmap). cbn [orb hd_error].
  rewrite as_optfield_optopt. unfold abs_message_ext. rewrite Ets. reflexivity.
Qed.

(* ---------- Forward mode ---------- *)

Definition entry_val (en : entry) : value :=
  VArr [VExt 0 (et_payload (fst (e_ts en)) (snd (e_ts en))); value_of (e_rec en)].

Lemma wf_entry_spec en : wf_entry en = true ->
  wf_instant (fst (e_ts en), snd (e_ts en)) = true /\ wf_gval (e_rec en) = true.
Proof.
  unfold wf_entry. intros H. apply andb_prop in H as [H1 H2]. split; [|exact H2].
  destruct (e_ts en); exact H1.
Qed.

Lemma parses_entry en b : wf_entry en = true -> M_entry en = Ok b -> parses b (entry_val en).
Proof.
  intros Hwf He. apply wf_entry_spec in Hwf as [Ht Hr].
  unfold M_entry in He. destruct (enc_gval (e_rec en)) as [r| |] eqn:Er; try discriminate.
  cbn [bind] in He. apply Ok_inj in He; subst b. unfold entry_val.
  apply parses_fixarr; [|reflexivity|vm_compute; discriminate].
  apply pseq_cons; [now apply parses_eventtime|].
  apply pseq_one. now apply (parses_gval (e_rec en)).
Qed.

Lemma pseq_entries l : forall b, forallb wf_entry l = true -> M_entries_body l = Ok b ->
  pseq b (map entry_val l).
Proof.
  induction l as [|en l IH]; intros b Hwf Hb; cbn [M_entries_body map forallb] in *.
  - apply Ok_inj in Hb; subst b. apply pseq_nil.
  - apply andb_prop in Hwf as [H1 H2].
    destruct (M_entry en) as [a| |] eqn:Ea; try discriminate. cbn [bind] in Hb.
    destruct (M_entries_body l) as [c| |] eqn:Ec; try discriminate. cbn [bind] in Hb.
    apply Ok_inj in Hb; subst b. apply pseq_cons; [now apply parses_entry|]. now apply IH.
Qed.

Lemma len_map {A B} (g : A -> B) l : len (map g l) = len l.
Proof. unfold len. now rewrite map_length. Qed.

Lemma parses_entry_list l b : len l < two32 -> forallb wf_entry l = true ->
  M_entry_list l = Ok b -> parses b (VArr (map entry_val l)).
Proof.
  intros Hl Hwf Hb. unfold M_entry_list in Hb.
  destruct (M_entries_body l) as [c| |] eqn:Ec; try discriminate. cbn [bind] in Hb.
  apply Ok_inj in Hb; subst b. rewrite <- (len_map entry_val l).
  apply parses_arr; [now apply pseq_entries|]. now rewrite len_map.
Qed.

Lemma as_entries_ok l : forallb wf_entry l = true ->
  forallb (fun en => is_gmap (e_rec en)) l = true ->
  as_entries true (map entry_val l) =
  Some (map (fun en => (stime_of (e_ts en), value_of (e_rec en))) l).
Proof.
  induction l as [|en l IH]; cbn [forallb map]; intros Hwf Hm; [reflexivity|].
  apply andb_prop in Hwf as [H1 H2]. apply andb_prop in Hm as [M1 M2].
  apply wf_entry_spec in H1 as [Ht _].
  unfold entry_val at 1. cbn [as_entries]. rewrite (as_eventtime_eventtime _ _ Ht).
  rewrite (IH H2 M2). rewrite (is_map_value_of _ M1). cbn [orb].
  destruct (e_ts en); reflexivity.
Qed.

Theorem wire_forward : forall m e, wf_forward m = true ->
  forallb (fun en => is_gmap (e_rec en)) (f_entries m) = true ->
  M_forward m = Ok e -> spec_parse shape_forward e = Some (abs_forward m, []).
Proof.
  intros m e Hwf Hmap He. unfold wf_forward in Hwf.
  apply andb_prop in Hwf as [Hwf Ho]. apply andb_prop in Hwf as [Hwf Hes].
  apply andb_prop in Hwf as [Ht Hl]. apply N.ltb_lt in Ht. apply N.ltb_lt in Hl.
  unfold M_forward in He. destruct (M_entry_list (f_entries m)) as [es| |] eqn:Ees; try discriminate.
  cbn [bind] in He. apply Ok_inj in He; subst e.
  pose proof (parses_entry_list _ _ Hl Hes Ees) as Pes.
  unfold spec_parse, abs_forward. destruct (f_opts m) as [o|] eqn:Eo; cbn [wf_optopt] in Ho.
  - assert (P : parses ([n2b 147] ++ enc_str (f_tag m) ++ es ++ M_options o)
                       (VArr [VStr (f_tag m); VArr (map entry_val (f_entries m)); VMap (opt_kvs o)])).
    { apply parses_fixarr; [|reflexivity|vm_compute; discriminate].
      apply pseq_cons; [now apply parses_str|].
      apply pseq_cons; [exact Pes|].
      apply pseq_one. now apply parses_options. }
    rewrite (parses_parse1 _ _ P). cbn [obind].
    unfold shape_forward, shape_forward_gen. rewrite (as_entries_ok _ Hes Hmap).
    cbn [hd_error]. rewrite as_optfield_options. reflexivity.
  - assert (P : parses ([n2b 146] ++ enc_str (f_tag m) ++ es)
                       (VArr [VStr (f_tag m); VArr (map entry_val (f_entries m))])).
    { apply parses_fixarr; [|reflexivity|vm_compute; discriminate].
      apply pseq_cons; [now apply parses_str|].
      apply pseq_one. exact Pes. }
    rewrite (parses_parse1 _ _ P). cbn [obind].
    unfold shape_forward, shape_forward_gen. rewrite (as_entries_ok _ Hes Hmap).
    reflexivity.
Qed.

(* ---------- PackedForward mode ---------- *)

Theorem wire_packed : forall m, wf_packed m = true ->
  spec_parse shape_packed (M_packed m) = Some (abs_packed m, []).
Proof.
  intros m Hwf. unfold wf_packed in Hwf.
  apply andb_prop in Hwf as [Hwf Ho]. apply andb_prop in Hwf as [Ht Hs].
  apply N.ltb_lt in Ht. apply N.ltb_lt in Hs.
  assert (P : parses (M_packed m)
                     (VArr [VStr (p_tag m); VBin (p_stream m); optopt_val (p_opts m)])).
  { unfold M_packed. apply parses_fixarr; [|reflexivity|vm_compute; discriminate].
    apply pseq_cons; [now apply parses_str|].
    apply pseq_cons; [now apply parses_bin|].
    apply pseq_one. now apply parses_optopt. }
  unfold spec_parse. rewrite (parses_parse1 _ _ P). cbn [obind].
  unfold shape_packed. cbn [hd_error]. rewrite as_optfield_optopt. reflexivity.
Qed.

(* ---------- ack ---------- *)

Theorem wire_ack : forall a, len a < two32 ->
  exists v, parse1 (M_ack a) = Some (v, []) /\ shape_ack v = Some a.
Proof.
  intros a Ha. exists (VMap [(VStr k_ack, VStr a)]). split; [|reflexivity].
  apply parses_parse1. unfold M_ack.
  apply parses_fixmap; [|reflexivity|vm_compute; discriminate].
  apply pseq_pair; [apply parses_str; len_lit | now apply parses_str].
Qed.

(* ---------- handshake: HELO / PING / PONG ---------- *)

Theorem wire_ping : forall p,
  len (pg_type p) < two32 -> len (pg_host p) < two32 -> len (pg_salt p) < two32 ->
  len (pg_digest p) < two32 -> len (pg_user p) < two32 -> len (pg_pass p) < two32 ->
  parse1 (M_ping p) =
  Some (VArr [VStr (pg_type p); VStr (pg_host p); VBin (pg_salt p); VStr (pg_digest p);
              VStr (pg_user p); VStr (pg_pass p)], []).
Proof.
  intros p H1 H2 H3 H4 H5 H6. apply parses_parse1. unfold M_ping.
  apply parses_fixarr; [|reflexivity|vm_compute; discriminate].
  apply pseq_cons; [now apply parses_str|].
  apply pseq_cons; [now apply parses_str|].
  apply pseq_cons; [now apply parses_bin|].
  apply pseq_cons; [now apply parses_str|].
  apply pseq_cons; [now apply parses_str|].
  apply pseq_one. now apply parses_str.
Qed.

Theorem wire_pong : forall p,
  len (po_type p) < two32 -> len (po_reason p) < two32 -> len (po_host p) < two32 ->
  len (po_digest p) < two32 ->
  parse1 (M_pong p) =
  Some (VArr [VStr (po_type p); VBool (po_auth p); VStr (po_reason p); VStr (po_host p);
              VStr (po_digest p)], []).
Proof.
  intros p H1 H2 H3 H4. apply parses_parse1. unfold M_pong.
  apply parses_fixarr; [|reflexivity|vm_compute; discriminate].
  apply pseq_cons; [now apply parses_str|].
  apply pseq_cons; [apply parses_bool|].
  apply pseq_cons; [now apply parses_str|].
  apply pseq_cons; [now apply parses_str|].
  apply pseq_one. now apply parses_str.
Qed.

Definition helo_opts_val (o : option helo_opts) : value :=
  match o with
  | None => VNil
  | Some o => VMap [(VStr (str "nonce"), VBin (h_nonce o)); (VStr (str "auth"), VBin (h_auth o));
                    (VStr (str "keepalive"), VBool (h_keepalive o))]
  end.

Theorem wire_helo : forall h,
  len (hl_type h) < two32 ->
  (match hl_opts h with Some o => len (h_nonce o) < two32 /\ len (h_auth o) < two32 | None => True end) ->
  parse1 (M_helo h) = Some (VArr [VStr (hl_type h); helo_opts_val (hl_opts h)], []).
Proof.
  intros h Ht Ho. apply parses_parse1. unfold M_helo.
  apply parses_fixarr; [|reflexivity|vm_compute; discriminate].
  apply pseq_cons; [now apply parses_str|].
  apply pseq_one. destruct (hl_opts h) as [o|]; cbn [helo_opts_val]; [|apply parses_nil].
  destruct Ho as [Hn Ha]. unfold M_helo_opts.
  apply parses_fixmap; [|reflexivity|vm_compute; discriminate].
  unfold flat. cbn [flat_map fst snd app].
  apply pseq_cons; [apply parses_str; len_lit|].
  apply pseq_cons; [now apply parses_bin|].
  apply pseq_cons; [apply parses_str; len_lit|].
  apply pseq_cons; [now apply parses_bin|].
  apply pseq_cons; [apply parses_str; len_lit|].
  apply pseq_one. apply parses_bool.
Qed.

(* ---------- explicit contents of the option map; messages on a stream ---------- *)

(* the option map read back pair by pair: exactly the non-empty fields, in the order
   size, chunk, compressed *)
Theorem wire_options_pairs : forall o, wf_options o = true ->
  parse1 (M_options o) = Some (VMap (opt_kvs o), []).
Proof. intros o H. apply parses_parse1. now apply parses_options. Qed.

(* a message followed by further bytes (the next message of the stream) is read the
   same way and the following bytes are left untouched *)
Theorem spec_parse_app : forall shape e m x,
  spec_parse shape e = Some (m, []) -> spec_parse shape (e ++ x) = Some (m, x).
Proof.
  intros shape e m x. unfold spec_parse. destruct (parse1 e) as [[v r]|] eqn:E; [|discriminate].
  cbn [obind]. rewrite (parse1_app _ _ _ x E). cbn [obind].
  destruct (shape v); [|discriminate]. intros H. inversion H; subst. reflexivity.
Qed.

Print Assumptions wire_message.
Print Assumptions wire_message_ext.
Print Assumptions wire_forward.
Print Assumptions wire_packed.
Print Assumptions wire_ack.
Print Assumptions wire_eventtime.
Print Assumptions wire_options.
Print Assumptions wire_ping.
Print Assumptions wire_pong.
Print Assumptions wire_helo.
Print Assumptions wire_options_pairs.
Print Assumptions spec_parse_app.
