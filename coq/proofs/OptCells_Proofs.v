(* Option objects are per message (model/OptCells.v): whatever is done to one message -- Chunk(), a
   caller-supplied id, an edit of another option field, the construction of further messages -- the options
   of every OTHER message stay what they were; generated ids are pairwise distinct; a message is born
   without an id; an id, once there, is kept.  The variant that hands every message of one constructor the
   same package-level object is refuted. *)
From Coq Require Import String.
From FF Require Import model.Bytes model.Show model.OptCells.
From Coq Require Import List Arith Lia Bool.
Import ListNotations.
Open Scope nat_scope.

(* ---------- lists ---------- *)
Lemma oset_length {A} (l : list A) n x : length (oset l n x) = length l.
Proof. revert n; induction l; intros [|n]; cbn; auto. Qed.
Lemma nth_error_oset_same {A} (l : list A) n x : n < length l -> nth_error (oset l n x) n = Some x.
Proof. revert n; induction l; intros [|n] H; cbn in *; try lia; auto. apply IHl. lia. Qed.
Lemma nth_error_oset_other {A} (l : list A) n m x : n <> m -> nth_error (oset l n x) m = nth_error l m.
Proof. revert n m; induction l; intros [|n] [|m] H; cbn; auto; try congruence. Qed.
Lemma nth_oset_same {A} (l : list A) n x d : n < length l -> nth n (oset l n x) d = x.
Proof. revert n; induction l; intros [|n] H; cbn in *; try lia; auto. apply IHl. lia. Qed.
Lemma nth_oset_other {A} (l : list A) n m x d : n <> m -> nth m (oset l n x) d = nth m l d.
Proof. revert n m; induction l; intros [|n] [|m] H; cbn; auto; try congruence. Qed.
Lemma nth_app_old {A} (l : list A) x m d : m < length l -> nth m (l ++ [x]) d = nth m l d.
Proof. intros. now rewrite app_nth1. Qed.
Lemma nth_error_app_old {A} (l : list A) x m : m < length l -> nth_error (l ++ [x]) m = nth_error l m.
Proof. intros. now rewrite nth_error_app1. Qed.
Lemma nth_error_app_new {A} (l : list A) x : nth_error (l ++ [x]) (length l) = Some x.
Proof. rewrite nth_error_app2 by lia. now rewrite Nat.sub_diag. Qed.

(* ---------- the invariant ---------- *)
Definition refs (s : ostate) (m c : nat) : Prop := nth_error (os_msgs s) m = Some (Some c).
Definition gen_of (s : ostate) (c k : nat) : Prop := c < length (os_heap s) /\ oc_chunk (nth c (os_heap s) empty_cell) = IdGen k.

Definition OInv (s : ostate) : Prop :=
  (forall m c, refs s m c -> c < length (os_heap s)) /\
  (forall m m' c, refs s m c -> refs s m' c -> m = m') /\
  (forall c k, gen_of s c k -> k < os_next s) /\
  (forall c c' k, gen_of s c k -> gen_of s c' k -> c = c').

Lemma OInv_init : OInv (oinit false).
Proof.
  repeat split; cbn.
  - intros m c H. unfold refs in H. cbn in H. destruct m; discriminate.
  - intros m m' c H. unfold refs in H. cbn in H. destruct m; discriminate.
  - intros c k [H _]. cbn in H. lia.
  - intros c c' k [H _]. cbn in H. lia.
Qed.

(* [ensure] allocates at most a fresh empty object for message m and changes nothing else *)
Lemma ensure_spec s m s1 oc : OInv s -> ensure s m = (s1, oc) ->
  OInv s1 /\ os_next s1 = os_next s /\ length (os_msgs s1) = length (os_msgs s) /\
  (forall m', m' <> m -> nth_error (os_msgs s1) m' = nth_error (os_msgs s) m') /\
  (forall c, c < length (os_heap s) -> nth c (os_heap s1) empty_cell = nth c (os_heap s) empty_cell) /\
  length (os_heap s) <= length (os_heap s1) /\
  (forall m' c, m' <> m -> refs s1 m' c -> c < length (os_heap s)) /\
  match oc with
  | Some c => refs s1 m c /\ (refs s m c \/ (nth_error (os_msgs s) m = Some None /\ c = length (os_heap s) /\ nth c (os_heap s1) empty_cell = empty_cell))
  | None => s1 = s /\ nth_error (os_msgs s) m = None
  end.
Proof.
  intros (A & B & C & D) E. unfold ensure in E.
  destruct (nth_error (os_msgs s) m) as [[c|]|] eqn:N; inversion E; subst; clear E.
  - repeat split; auto. intros m' c' _ R. eapply A; eauto.
  - assert (Lm : m < length (os_msgs s)) by (apply nth_error_Some; congruence).
    repeat split; cbn [os_heap os_msgs os_next].
    + intros m' c R. unfold refs in R. cbn [os_msgs] in R. rewrite app_length. cbn.
      destruct (Nat.eq_dec m m') as [->|Ne].
      * rewrite nth_error_oset_same in R by auto. inversion R. lia.
      * rewrite nth_error_oset_other in R by auto. apply A in R. lia.
    + intros m1 m2 c R1 R2. unfold refs in *. cbn [os_msgs] in *.
      destruct (Nat.eq_dec m m1) as [E1|N1], (Nat.eq_dec m m2) as [E2|N2]; try subst m1; try subst m2; auto.
      * rewrite nth_error_oset_same in R1 by auto. rewrite nth_error_oset_other in R2 by auto.
        inversion R1; subst. apply A in R2. lia.
      * rewrite nth_error_oset_same in R2 by auto. rewrite nth_error_oset_other in R1 by auto.
        inversion R2; subst. apply A in R1. lia.
      * rewrite nth_error_oset_other in R1, R2 by auto. eapply B; eauto.
    + intros c k [L G]. cbn [os_heap] in *. rewrite app_length in L. cbn in L.
      destruct (Nat.eq_dec c (length (os_heap s))) as [->|Ne].
      * rewrite app_nth2 in G by lia. rewrite Nat.sub_diag in G. cbn in G. discriminate.
      * rewrite app_nth1 in G by lia. apply (C c k). split; auto. lia.
    + intros c c' k [L G] [L' G']. cbn [os_heap] in *. rewrite app_length in L, L'. cbn in L, L'.
      destruct (Nat.eq_dec c (length (os_heap s))) as [->|Ne].
      { rewrite app_nth2 in G by lia. rewrite Nat.sub_diag in G. cbn in G. discriminate. }
      destruct (Nat.eq_dec c' (length (os_heap s))) as [->|Ne'].
      { rewrite app_nth2 in G' by lia. rewrite Nat.sub_diag in G'. cbn in G'. discriminate. }
      rewrite app_nth1 in G, G' by lia. apply (D c c' k); split; auto; lia.
    + apply oset_length.
    + intros m' Ne. apply nth_error_oset_other. auto.
    + intros c L. now rewrite app_nth1.
    + rewrite app_length. lia.
    + intros m' c Ne R. unfold refs in R. cbn [os_msgs] in R. rewrite nth_error_oset_other in R by auto. eapply A; eauto.
    + unfold refs. cbn [os_msgs]. now apply nth_error_oset_same.
    + right. repeat split; auto. rewrite app_nth2 by lia. now rewrite Nat.sub_diag.
  - repeat split; auto. intros m' c' _ R. eapply A; eauto.
Qed.

Ltac inv_refs := unfold refs in *; cbn [os_msgs os_heap os_next] in *.

(* writing the object of message m (held at c, referenced by m alone) keeps the invariant when the id written
   is fresh or not a generated one *)
Lemma OInv_write s m c cl' n' :
  OInv s -> refs s m c -> os_next s <= n' ->
  (forall k, oc_chunk cl' = IdGen k -> (oc_chunk (nth c (os_heap s) empty_cell) = IdGen k) \/ (k = os_next s /\ n' = S (os_next s))) ->
  OInv {| os_heap := oset (os_heap s) c cl'; os_msgs := os_msgs s; os_next := n' |}.
Proof.
  intros (A & B & C & D) R Le G. pose proof (A _ _ R) as Lc.
  repeat split; inv_refs.
  - intros m' c' R'. rewrite oset_length. eapply A; eauto.
  - intros; eapply B; eauto.
  - intros c0 k [L Gk]. cbn [os_heap] in *. rewrite oset_length in L.
    destruct (Nat.eq_dec c c0) as [<-|Ne].
    + rewrite nth_oset_same in Gk by auto. destruct (G k Gk) as [Old|[-> ->]]; [|lia].
      assert (k < os_next s) by (apply (C c k); split; auto). lia.
    + rewrite nth_oset_other in Gk by auto. assert (k < os_next s) by (apply (C c0 k); split; auto). lia.
  - intros c1 c2 k [L1 G1] [L2 G2]. cbn [os_heap] in *. rewrite oset_length in L1, L2.
    destruct (Nat.eq_dec c c1) as [<-|N1], (Nat.eq_dec c c2) as [<-|N2]; auto.
    + rewrite nth_oset_same in G1 by auto. rewrite nth_oset_other in G2 by auto.
      destruct (G k G1) as [Old|[-> _]].
      * apply (D c c2 k); split; auto.
      * assert (os_next s < os_next s) by (apply (C c2 (os_next s)); split; auto). lia.
    + rewrite nth_oset_same in G2 by auto. rewrite nth_oset_other in G1 by auto.
      destruct (G k G2) as [Old|[-> _]].
      * apply (D c1 c k); split; auto.
      * assert (os_next s < os_next s) by (apply (C c1 (os_next s)); split; auto). lia.
    + rewrite nth_oset_other in G1, G2 by auto. apply (D c1 c2 k); split; auto.
Qed.

Lemma OInv_step s o : OInv s -> OInv (ostep false s o).
Proof.
  intros I. destruct o as [k|m|m b|m]; cbn [ostep andb].
  - destruct I as (A & B & C & D). destruct (cell_of k) as [cl|] eqn:K.
    + assert (Hc : oc_chunk cl = IdNone) by (destruct k; inversion K; reflexivity).
      repeat split; inv_refs.
      * intros m c R. rewrite app_length; cbn.
        destruct (Nat.eq_dec m (length (os_msgs s))) as [->|Ne].
        -- rewrite nth_error_app_new in R. inversion R. lia.
        -- assert (m < length (os_msgs s)).
           { assert (m < length (os_msgs s ++ [Some (length (os_heap s))])) by (apply nth_error_Some; congruence).
             rewrite app_length in H; cbn in H. lia. }
           rewrite nth_error_app_old in R by auto. apply A in R. lia.
      * intros m1 m2 c R1 R2.
        assert (Bd : forall m c, nth_error (os_msgs s ++ [Some (length (os_heap s))]) m = Some (Some c) ->
                  (m = length (os_msgs s) /\ c = length (os_heap s)) \/ (m < length (os_msgs s) /\ refs s m c)).
        { intros m0 c0 R. destruct (Nat.eq_dec m0 (length (os_msgs s))) as [->|Ne].
          - rewrite nth_error_app_new in R. inversion R. auto.
          - assert (m0 < length (os_msgs s)).
            { assert (m0 < length (os_msgs s ++ [Some (length (os_heap s))])) by (apply nth_error_Some; congruence).
              rewrite app_length in H; cbn in H. lia. }
            rewrite nth_error_app_old in R by auto. right. auto. }
        destruct (Bd _ _ R1) as [[-> ->]|[L1 Q1]], (Bd _ _ R2) as [[-> E2]|[L2 Q2]]; auto.
        -- apply A in Q2. lia.
        -- apply A in Q1. lia.
        -- eapply B; eauto.
      * intros c k0 [L G]. cbn [os_heap] in *. rewrite app_length in L; cbn in L.
        destruct (Nat.eq_dec c (length (os_heap s))) as [->|Ne].
        -- rewrite app_nth2 in G by lia. rewrite Nat.sub_diag in G. cbn in G. congruence.
        -- rewrite app_nth1 in G by lia. apply (C c k0). split; auto; lia.
      * intros c c' k0 [L G] [L' G']. cbn [os_heap] in *. rewrite app_length in L, L'; cbn in L, L'.
        destruct (Nat.eq_dec c (length (os_heap s))) as [->|Ne].
        { rewrite app_nth2 in G by lia. rewrite Nat.sub_diag in G. cbn in G. congruence. }
        destruct (Nat.eq_dec c' (length (os_heap s))) as [->|Ne'].
        { rewrite app_nth2 in G' by lia. rewrite Nat.sub_diag in G'. cbn in G'. congruence. }
        rewrite app_nth1 in G, G' by lia. apply (D c c' k0); split; auto; lia.
    + repeat split; inv_refs.
      * intros m c R. destruct (Nat.eq_dec m (length (os_msgs s))) as [->|Ne].
        -- rewrite nth_error_app_new in R. discriminate.
        -- assert (m < length (os_msgs s)).
           { assert (m < length (os_msgs s ++ [None])) by (apply nth_error_Some; congruence).
             rewrite app_length in H; cbn in H. lia. }
           rewrite nth_error_app_old in R by auto. eapply A; eauto.
      * intros m1 m2 c R1 R2.
        assert (Bd : forall m c, nth_error (os_msgs s ++ [None]) m = Some (Some c) -> refs s m c).
        { intros m0 c0 R. destruct (Nat.eq_dec m0 (length (os_msgs s))) as [->|Ne].
          - rewrite nth_error_app_new in R. discriminate.
          - assert (m0 < length (os_msgs s)).
            { assert (m0 < length (os_msgs s ++ [None])) by (apply nth_error_Some; congruence).
              rewrite app_length in H; cbn in H. lia. }
            now rewrite nth_error_app_old in R by auto. }
        apply (B m1 m2 c); apply Bd; assumption.
      * auto.
      * auto.
  - destruct (ensure s m) as [s1 [c|]] eqn:E.
    + destruct (ensure_spec _ _ _ _ I E) as (I1 & Nx & _ & _ & _ & _ & _ & R1 & _).
      destruct (oc_chunk (nth c (os_heap s1) empty_cell)) eqn:Ch; auto.
      apply (OInv_write s1 m c); auto; cbn [oc_chunk]; intros k0 Hk; inversion Hk; right; auto.
    + destruct (ensure_spec _ _ _ _ I E) as (I1 & _). exact I1.
  - destruct (ensure s m) as [s1 [c|]] eqn:E.
    + destruct (ensure_spec _ _ _ _ I E) as (I1 & Nx & _ & _ & _ & _ & _ & R1 & _).
      apply (OInv_write s1 m c); auto; cbn [oc_chunk]; intros k0 Hk; discriminate.
    + destruct (ensure_spec _ _ _ _ I E) as (I1 & _). exact I1.
  - destruct (nth_error (os_msgs s) m) as [[c|]|] eqn:N; auto.
    apply (OInv_write s m c); auto; cbn [oc_chunk]; intros k0 Hk; left; exact Hk.
Qed.

Lemma OInv_run ops : OInv (orun false ops).
Proof.
  unfold orun. assert (G : forall s, OInv s -> OInv (fold_left (ostep false) ops s)).
  { induction ops as [|o r IH]; intros s H; cbn; auto. apply IH. now apply OInv_step. }
  apply G, OInv_init.
Qed.

(* ---------- the frame property ---------- *)
Lemma oview_write_other s m c cl' n' m' : OInv s -> refs s m c -> m' <> m ->
  oview {| os_heap := oset (os_heap s) c cl'; os_msgs := os_msgs s; os_next := n' |} m' = oview s m'.
Proof.
  intros (A & B & _) R Ne. unfold oview. cbn [os_msgs os_heap].
  destruct (nth_error (os_msgs s) m') as [[c'|]|] eqn:N; auto.
  rewrite nth_oset_other; auto. intros ->. apply Ne. eapply B; eauto.
Qed.

Lemma oview_ensure_other s m s1 oc m' : OInv s -> ensure s m = (s1, oc) -> m' <> m -> oview s1 m' = oview s m'.
Proof.
  intros I E Ne. destruct (ensure_spec _ _ _ _ I E) as (_ & _ & _ & Hm & Hh & _ & Hr & _).
  unfold oview. rewrite (Hm m' Ne). destruct (nth_error (os_msgs s) m') as [[c|]|] eqn:N; auto.
  rewrite Hh; auto. destruct I as (A & _). eapply A; eauto.
Qed.

(* whatever one operation does, the options of every message it is not applied to are untouched *)
Theorem opt_frame s o m' : OInv s -> m' <> otarget s o -> m' < length (os_msgs s) ->
  oview (ostep false s o) m' = oview s m'.
Proof.
  intros I Ne Lt. destruct o as [k|m|m b|m]; cbn [ostep otarget andb] in *.
  - unfold oview. destruct (cell_of k); cbn [os_msgs os_heap]; rewrite nth_error_app_old by auto;
      destruct (nth_error (os_msgs s) m') as [[c|]|] eqn:N; auto.
    rewrite app_nth1; auto. destruct I as (A & _). eapply A; eauto.
  - destruct (ensure s m) as [s1 [c|]] eqn:E.
    + pose proof (oview_ensure_other _ _ _ _ _ I E Ne) as V.
      destruct (ensure_spec _ _ _ _ I E) as (I1 & _ & _ & _ & _ & _ & _ & R1 & _).
      destruct (oc_chunk (nth c (os_heap s1) empty_cell)); auto.
      rewrite (oview_write_other s1 m c); auto.
    + eapply oview_ensure_other; eauto.
  - destruct (ensure s m) as [s1 [c|]] eqn:E.
    + pose proof (oview_ensure_other _ _ _ _ _ I E Ne) as V.
      destruct (ensure_spec _ _ _ _ I E) as (I1 & _ & _ & _ & _ & _ & _ & R1 & _).
      rewrite (oview_write_other s1 m c); auto.
    + eapply oview_ensure_other; eauto.
  - destruct (nth_error (os_msgs s) m) as [[c|]|] eqn:N; auto.
    rewrite (oview_write_other s m c); auto.
Qed.

(* over whole histories: operations none of which is applied to m' leave m' as it was *)
Theorem opt_frame_history : forall ops s m', OInv s -> m' < length (os_msgs s) ->
  (forall o, In o ops -> match o with ONew _ => True | OChunk m | OSetChunk m _ | OClearSize m => m <> m' end) ->
  oview (fold_left (ostep false) ops s) m' = oview s m'.
Proof.
  induction ops as [|o r IH]; intros s m' I Lt H; cbn [fold_left]; auto.
  assert (Len : length (os_msgs s) <= length (os_msgs (ostep false s o))).
  { destruct o as [k|m|m b|m]; cbn [ostep andb].
    - destruct (cell_of k); cbn [os_msgs]; rewrite app_length; lia.
    - destruct (ensure s m) as [s1 oc] eqn:E. destruct (ensure_spec _ _ _ _ I E) as (_ & _ & L & _).
      destruct oc as [c|]; [destruct (oc_chunk (nth c (os_heap s1) empty_cell))|]; cbn [os_msgs]; lia.
    - destruct (ensure s m) as [s1 oc] eqn:E. destruct (ensure_spec _ _ _ _ I E) as (_ & _ & L & _).
      destruct oc as [c|]; cbn [os_msgs]; lia.
    - destruct (nth_error (os_msgs s) m) as [[c|]|]; cbn [os_msgs]; lia. }
  rewrite IH.
  - apply opt_frame; auto. specialize (H o (or_introl eq_refl)). destruct o; cbn [otarget]; try lia; auto.
  - now apply OInv_step.
  - lia.
  - intros o' Ho. apply H. now right.
Qed.

(* a message is born without an id *)
Theorem opt_born_clean s k : match oview (ostep false s (ONew k)) (length (os_msgs s)) with
                             | Some cl => oc_chunk cl = IdNone
                             | None => True end.
Proof.
  cbn [ostep andb]. unfold oview. destruct (cell_of k) as [cl|] eqn:K; cbn [os_msgs os_heap]; rewrite nth_error_app_new; auto.
  rewrite app_nth2 by lia. rewrite Nat.sub_diag. cbn. destruct k; inversion K; reflexivity.
Qed.

(* ids generated for different messages are different, in every reachable state *)
Theorem opt_ids_distinct ops m m' cl cl' k :
  let s := orun false ops in
  oview s m = Some cl -> oview s m' = Some cl' -> oc_chunk cl = IdGen k -> oc_chunk cl' = IdGen k -> m = m'.
Proof.
  intros s V V' G G'. destruct (OInv_run ops) as (A & B & C & D). fold s in A, B, C, D.
  unfold oview in V, V'.
  destruct (nth_error (os_msgs s) m) as [[c|]|] eqn:N; try discriminate.
  destruct (nth_error (os_msgs s) m') as [[c'|]|] eqn:N'; try discriminate.
  inversion V; inversion V'; subst.
  assert (c = c') as ->. { apply (D c c' k); split; auto; eapply A; eauto. }
  eapply B; eauto.
Qed.

(* Chunk() keeps an id that is there (its own earlier one, or the caller's) *)
Theorem opt_id_kept s m cl : OInv s -> oview s m = Some cl -> oc_chunk cl <> IdNone ->
  oview (ostep false s (OChunk m)) m = Some cl.
Proof.
  intros I V Ne. cbn [ostep]. unfold oview in V. destruct (nth_error (os_msgs s) m) as [[c|]|] eqn:N; try discriminate.
  unfold ensure. rewrite N. inversion V; subst.
  destruct (oc_chunk (nth c (os_heap s) empty_cell)) eqn:Ch; try congruence; unfold oview; rewrite N; reflexivity.
Qed.

(* ---------- the variant with one shared object is refuted ---------- *)
Lemma opt_shared_refuted :
  let ops := [ONew KGzip; ONew KGzip; OChunk 0] in
  option_map oc_chunk (oview (orun true ops) 1) = Some (IdGen 0)              (* message 1 got message 0's id *)
  /\ option_map oc_chunk (oview (orun false ops) 1) = Some IdNone.
Proof. split; vm_compute; reflexivity. Qed.
