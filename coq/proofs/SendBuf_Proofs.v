(* The pooled send buffer (model/SendBuf.v): for any number of goroutines, any interleaving
   of the micro-steps of their Sends, any behaviour of sync.Pool (a new buffer or any buffer
   put back earlier, stale content included) and any delay between encoding and Write, the
   connection receives, at every Write, exactly the sender's own complete encoding; a
   message that cannot be encoded contributes nothing.  The two variants that look
   harmless (no Reset; buffer returned to the pool before the Write) are refuted. *)
From Coq Require Import String.
From FF Require Import model.Bytes model.Show model.Pool model.SendBuf proofs.Pool_Proofs.
From Coq Require Import List Arith Lia Bool.
Import ListNotations.
Open Scope nat_scope.

Definition all_held (thr : list spc) : list loc := flat_map sheld thr.

(* what a goroutine relies on at its program point *)
Definition SAsrt (h : heap) (p : spc) : Prop :=
  match p with T_write q c => hget h c = q_written q | _ => True end.

Definition SInv (c : sconfig) : Prop :=
  (forall x, In x (ss_pool (sc_st c) ++ all_held (sc_thr c)) -> x < length (ss_heap (sc_st c))) /\
  Excl (ss_pool (sc_st c) ++ all_held (sc_thr c)) /\
  (forall t p, nth_error (sc_thr c) t = Some p -> SAsrt (ss_heap (sc_st c)) p) /\
  ss_wire (sc_st c) = ss_spec (sc_st c).

(* ---------- lists of goroutines ---------- *)
Lemma upd_split {A} (thr : list A) t l : nth_error thr t = Some l ->
  exists pre post, thr = pre ++ l :: post /\ length pre = t /\ forall l', upd_nth thr t l' = pre ++ l' :: post.
Proof.
  revert t; induction thr as [|a thr IH]; intros [|t] H; try discriminate; cbn in H.
  - inversion H; subst. exists [], thr. repeat split; auto.
  - destruct (IH t H) as (pre & post & -> & L & U). exists (a :: pre), post. repeat split; cbn; auto.
    intros l'. now rewrite U.
Qed.

Lemma nth_error_mid {A} (pre post : list A) l u : u <> length pre ->
  forall l', nth_error (pre ++ l' :: post) u = nth_error (pre ++ l :: post) u.
Proof.
  intros N l'. destruct (Nat.lt_ge_cases u (length pre)) as [L|G].
  - now rewrite !nth_error_app1.
  - rewrite !nth_error_app2 by lia. destruct (u - length pre) eqn:E; [lia|reflexivity].
Qed.

Lemma all_held_mid pre p post : all_held (pre ++ p :: post) = all_held pre ++ sheld p ++ all_held post.
Proof. unfold all_held. now rewrite flat_map_app. Qed.

Lemma in_sheld_all thr t p x : nth_error thr t = Some p -> In x (sheld p) -> In x (all_held thr).
Proof.
  intros E H. destruct (upd_split thr t p E) as (pre & post & -> & _ & _).
  rewrite all_held_mid. apply in_or_app; right; apply in_or_app; now left.
Qed.

(* ---------- one step ---------- *)
Lemma in_all_held_mid x pre p post :
  In x (all_held (pre ++ p :: post)) <-> In x (all_held pre) \/ In x (sheld p) \/ In x (all_held post).
Proof. rewrite all_held_mid, !in_app_iff. tauto. Qed.

Ltac inh := repeat (rewrite in_app_iff in * || rewrite in_all_held_mid in * ); cbn [sheld In] in *.
Ltac cn := cbn [sc_st sc_thr ss_heap ss_pool ss_wire ss_spec] in *.
Ltac cnts2 := unfold pool_put in *; repeat (rewrite all_held_mid in * ); cbn [sheld] in *;
  repeat (rewrite cnt_app in * || rewrite cnt_cons in * || rewrite cnt_nil in * ).

(* two different goroutines holding the same cell: the cell is owned twice *)
Lemma held_twice pre a post u b x : u <> length pre -> nth_error (pre ++ a :: post) u = Some b ->
  In x (sheld a) -> In x (sheld b) -> 2 <= cnt (all_held (pre ++ a :: post)) x.
Proof.
  intros N Hu Ha Hb. apply cnt_in in Ha. rewrite all_held_mid, !cnt_app.
  destruct (Nat.lt_ge_cases u (length pre)) as [L|G].
  - rewrite nth_error_app1 in Hu by lia. assert (In x (all_held pre)) by (eapply in_sheld_all; eauto).
    apply cnt_in in H. lia.
  - rewrite nth_error_app2 in Hu by lia. destruct (u - length pre) eqn:E; [lia|]. cbn in Hu.
    assert (In x (all_held post)) by (eapply in_sheld_all; eauto). apply cnt_in in H. lia.
Qed.

Lemma SInv_step c i c' : SInv c -> sapply send_repaired c i = Some c' -> SInv c'.
Proof.
  intros (B & X & A & W) H. destruct c as [s thr]. cn. destruct i as [t ch|t q]; cbn [sapply] in H; cn.
  - destruct (nth_error thr t) as [p|] eqn:E; [|discriminate].
    destruct (upd_split thr t p E) as (pre & post & -> & L & U).
    destruct (sstep send_repaired t s p ch) as [[s' p']|] eqn:S; [|discriminate].
    inversion H; subst c'; clear H. cn. rewrite U.
    assert (Oth : forall u pu, u <> length pre -> nth_error (pre ++ p' :: post) u = Some pu ->
              nth_error (pre ++ p :: post) u = Some pu).
    { intros u pu N Hu. now rewrite (nth_error_mid pre post p u N p') in Hu. }
    assert (Self : nth_error (pre ++ p' :: post) (length pre) = Some p').
    { rewrite nth_error_app2 by lia. now rewrite Nat.sub_diag. }
    destruct p as [|q|q c|q c|c]; cbn [sstep] in S; try discriminate.
    + (* Get *)
      destruct (pool_get (ss_heap s) (ss_pool s) ch) as [[h1 p1] c] eqn:G. inversion S; subst; clear S. cn.
      pose proof G as G2. apply pool_get_cnt in G as [(-> & Hc)|(-> & -> & ->)].
      * apply pool_get_spec in G2 as [(_ & Ic & Inc)|(Hh & _)].
        2:{ exfalso. assert (Hl : length (ss_heap s) = length (ss_heap s ++ [[]])) by now rewrite <- Hh.
            rewrite app_length in Hl; cbn in Hl; lia. }
        unfold SInv; cn; repeat split.
        -- intros x Hx. apply B. revert Hx. inh. intros [Hx|[Hx|[[<-|[]]|Hx]]]; auto.
        -- intros x. specialize (X x). specialize (Hc x). cnts2. lia.
        -- intros u pu Hu. destruct (Nat.eq_dec u (length pre)) as [->|N].
           ++ rewrite Self in Hu. inversion Hu; subst. exact I.
           ++ apply (A u pu). now apply Oth.
        -- exact W.
      * unfold SInv; cn; repeat split.
        -- intros x Hx. rewrite app_length. cbn [length].
           assert (x < length (ss_heap s) \/ x = length (ss_heap s)); [|lia].
           revert Hx. inh. intros [Hx|[Hx|[[<-|[]]|Hx]]]; auto; left; apply B; inh; auto.
        -- intros x. specialize (X x).
           assert (Z : cnt (ss_pool s ++ all_held (pre ++ T_get q :: post)) (length (ss_heap s)) = 0).
           { apply cnt_notin. intros Hin. apply B in Hin. lia. }
           cnts2. destruct (Nat.eq_dec (length (ss_heap s)) x); subst; lia.
        -- intros u pu Hu. destruct (Nat.eq_dec u (length pre)) as [->|N].
           ++ rewrite Self in Hu. inversion Hu; subst. exact I.
           ++ apply Oth in Hu; auto. specialize (A u pu Hu). destruct pu; cbn [SAsrt] in *; auto.
              rewrite hget_alloc_old; auto. apply B. apply in_or_app; right.
              eapply in_sheld_all; eauto. cbn; auto.
        -- exact W.
    + (* Reset, Encode *)
      assert (Cin : c < length (ss_heap s)) by (apply B; inh; auto).
      assert (Frame : forall u pu, u <> length pre -> nth_error (pre ++ T_enc q c :: post) u = Some pu ->
                SAsrt (do_write (hset (ss_heap s) c []) c (q_written q)) pu).
      { intros u pu N Hu. specialize (A u pu Hu). destruct pu as [| | |q' c'|]; cbn [SAsrt] in *; auto.
        rewrite hget_reset_write_other; auto. intros ->.
        pose proof (held_twice pre (T_enc q c') post u (T_write q' c') c' N Hu) as T.
        specialize (X c'). rewrite cnt_app in X. cbn [sheld In] in T. specialize (T (or_introl eq_refl) (or_introl eq_refl)). lia. }
      cbn [sv_reset sv_put_late send_repaired] in S.
      destruct (q_ok q) eqn:OK; inversion S; subst; clear S; cn.
      * unfold SInv; cn; repeat split.
        -- intros x Hx. rewrite length_do_write, length_hset. apply B. revert Hx. inh. tauto.
        -- intros x. specialize (X x). cnts2. lia.
        -- intros u pu Hu. destruct (Nat.eq_dec u (length pre)) as [->|N].
           ++ rewrite Self in Hu. inversion Hu; subst. cbn [SAsrt]. now apply hget_reset_write.
           ++ apply Frame with (u := u); auto.
        -- exact W.
      * unfold SInv; cn; repeat split.
        -- intros x Hx. rewrite length_do_write, length_hset. apply B. revert Hx. inh. tauto.
        -- intros x. specialize (X x). cnts2. lia.
        -- intros u pu Hu. destruct (Nat.eq_dec u (length pre)) as [->|N].
           ++ rewrite Self in Hu. inversion Hu; subst. exact I.
           ++ apply Frame with (u := u); auto.
        -- exact W.
    + (* Write *)
      cbn [sv_put_late send_repaired] in S. inversion S; subst; clear S; cn.
      unfold SInv; cn; repeat split.
      * intros x Hx. apply B. revert Hx. inh. tauto.
      * intros x. specialize (X x). cnts2. lia.
      * intros u pu Hu. destruct (Nat.eq_dec u (length pre)) as [->|N].
        -- rewrite Self in Hu. inversion Hu; subst. exact I.
        -- apply (A u pu). now apply Oth.
      * rewrite W. f_equal. f_equal. f_equal.
        specialize (A (length pre) (T_write q c)). cbn [SAsrt] in A. apply A.
        rewrite nth_error_app2 by lia. now rewrite Nat.sub_diag.
    + (* Put *)
      inversion S; subst; clear S; cn.
      unfold SInv; cn; repeat split.
      * intros x Hx. apply B. revert Hx. unfold pool_put. cbn [app In]. inh. tauto.
      * intros x. specialize (X x). cnts2. lia.
      * intros u pu Hu. destruct (Nat.eq_dec u (length pre)) as [->|N].
        -- rewrite Self in Hu. inversion Hu; subst. exact I.
        -- apply (A u pu). now apply Oth.
      * exact W.
  - (* a new call *)
    destruct (nth_error thr t) as [[| | | |]|] eqn:E; try discriminate.
    destruct (upd_split thr t T_idle E) as (pre & post & -> & L & U).
    inversion H; subst c'; clear H. cn. rewrite U. unfold SInv; cn; repeat split.
    + intros x Hx. apply B. revert Hx. inh. tauto.
    + intros x. specialize (X x). cnts2. lia.
    + intros u pu Hu. destruct (Nat.eq_dec u (length pre)) as [->|N].
      * rewrite nth_error_app2 in Hu by lia. rewrite Nat.sub_diag in Hu. inversion Hu; subst. exact I.
      * apply (A u pu). now rewrite (nth_error_mid pre post T_idle u N (T_get q)) in Hu.
    + exact W.
Qed.

Lemma SInv_init n : SInv (sinit n).
Proof.
  unfold SInv, sinit. cbn [sc_st sc_thr ss_heap ss_pool ss_wire ss_spec].
  assert (H : all_held (repeat T_idle n) = []) by (induction n; cbn; auto).
  rewrite H. repeat split.
  - intros x [].
  - intros x. cbn. lia.
  - intros t p Hp. apply nth_error_In, repeat_spec in Hp. subst. exact I.
Qed.

Lemma SInv_exec sch : forall c, SInv c -> SInv (sexec send_repaired c sch).
Proof.
  induction sch as [|i r IH]; intros c H; cbn [sexec]; auto.
  destruct (sapply send_repaired c i) eqn:E; auto. apply IH. eapply SInv_step; eauto.
Qed.

(* every Write of every goroutine, under every schedule and every pool behaviour, carries the
   sender's own encoding *)
Theorem sendbuf_wire_is_spec n sch :
  ss_wire (sc_st (sexec send_repaired (sinit n) sch)) = ss_spec (sc_st (sexec send_repaired (sinit n) sch)).
Proof. apply (SInv_exec sch (sinit n) (SInv_init n)). Qed.

(* ---------- the spec column is a function of the control flow alone ---------- *)
Definition erase (p : spc) : spc :=
  match p with T_enc q _ => T_enc q 0 | T_write q _ => T_write q 0 | T_put _ => T_put 0 | x => x end.

Lemma map_upd_nth {A B} (f : A -> B) l t x : map f (upd_nth l t x) = upd_nth (map f l) t (f x).
Proof. revert t; induction l as [|a l IH]; intros [|t]; cbn; auto. now rewrite IH. Qed.

Lemma spec_is_abstract sch : forall c,
  ss_spec (sc_st (sexec send_repaired c sch)) = ss_spec (sc_st c) ++ spec_wire (map erase (sc_thr c)) sch.
Proof.
  induction sch as [|i r IH]; intros [s thr]; cbn [sexec spec_wire sc_st sc_thr].
  - now rewrite app_nil_r.
  - destruct i as [t ch|t q]; cbn [sapply sc_st sc_thr].
    + rewrite nth_error_map. destruct (nth_error thr t) as [p|] eqn:E; cbn [option_map].
      2:{ rewrite IH. reflexivity. }
      destruct p as [|q|q c|q c|c]; cbn [sstep erase sv_reset sv_put_late send_repaired].
      * rewrite IH. reflexivity.
      * destruct (pool_get (ss_heap s) (ss_pool s) ch) as [[h1 p1] c]. rewrite IH. cbn [sc_st sc_thr ss_spec].
        now rewrite map_upd_nth.
      * destruct (q_ok q); rewrite IH; cbn [sc_st sc_thr ss_spec]; now rewrite map_upd_nth.
      * rewrite IH. cbn [sc_st sc_thr ss_spec]. rewrite map_upd_nth, <- app_assoc. reflexivity.
      * rewrite IH. cbn [sc_st sc_thr ss_spec]. now rewrite map_upd_nth.
    + rewrite nth_error_map. destruct (nth_error thr t) as [[| | | |]|] eqn:E; cbn [option_map erase];
        rewrite IH; cbn [sc_st sc_thr ss_spec]; try reflexivity. now rewrite map_upd_nth.
Qed.

Lemma map_erase_idle n : map erase (repeat T_idle n) = repeat T_idle n.
Proof. induction n; cbn; congruence. Qed.

(* the statement of the property for the pooled buffer: what the connection receives is what
   the buffer-free abstract Send emits *)
Theorem sendbuf_refines_abstract n sch :
  ss_wire (sc_st (sexec send_repaired (sinit n) sch)) = spec_wire (repeat T_idle n) sch.
Proof.
  rewrite sendbuf_wire_is_spec, spec_is_abstract. cbn [sinit sc_st sc_thr ss_spec app].
  now rewrite map_erase_idle.
Qed.

(* the abstract Send never emits anything for a message that cannot be encoded, and emits
   only encodings of requests that were issued *)
Lemma spec_wire_only_ok sch : forall thr t b,
  (forall u q c, nth_error thr u = Some (T_write q c) -> q_ok q = true) ->
  In (t, b) (spec_wire thr sch) ->
  exists q, q_ok q = true /\ b = q_written q.
Proof.
  induction sch as [|i r IH]; intros thr t b Hw Hin; cbn [spec_wire] in Hin; [destruct Hin|].
  assert (Upd : forall u p', (forall q c, p' = T_write q c -> q_ok q = true) ->
           forall u' q c, nth_error (upd_nth thr u p') u' = Some (T_write q c) -> q_ok q = true).
  { intros u p' Hp u' q c Hu. destruct (nth_error thr u) eqn:E.
    - destruct (upd_split thr u s E) as (pre & post & -> & L & U). rewrite U in Hu.
      destruct (Nat.eq_dec u' (length pre)) as [->|N].
      + rewrite nth_error_app2 in Hu by lia. rewrite Nat.sub_diag in Hu. inversion Hu. eapply Hp; eauto.
      + rewrite (nth_error_mid pre post s u' N p') in Hu. eapply Hw; eauto.
    - assert (Eq : upd_nth thr u p' = thr); [|rewrite Eq in Hu; eapply Hw; eauto].
      clear - E. revert u E. induction thr; intros [|u] E; cbn in *; auto; try discriminate. now rewrite IHthr. }
  destruct i as [u ch|u q].
  - destruct (nth_error thr u) as [p|] eqn:E; [|eapply IH; eauto].
    destruct p as [|q|q c|q c|c].
    + eapply IH; eauto.
    + eapply IH; [|exact Hin]. apply Upd. intros; discriminate.
    + eapply IH; [|exact Hin]. apply Upd. intros q' c' Hq. destruct (q_ok q) eqn:OK; inversion Hq; subst; auto.
    + destruct Hin as [Hin|Hin].
      * inversion Hin; subst. exists q. split; auto. eapply Hw; eauto.
      * eapply IH; [|exact Hin]. apply Upd. intros; discriminate.
    + eapply IH; [|exact Hin]. apply Upd. intros; discriminate.
  - destruct (nth_error thr u) as [[| | | |]|] eqn:E; try (eapply IH; eauto; fail).
    eapply IH; [|exact Hin]. apply Upd. intros; discriminate.
Qed.

Theorem sendbuf_no_unencodable n sch t b :
  In (t, b) (ss_wire (sc_st (sexec send_repaired (sinit n) sch))) -> exists q, q_ok q = true /\ b = q_written q.
Proof.
  rewrite sendbuf_refines_abstract. apply spec_wire_only_ok.
  intros u q c Hu. apply nth_error_In, repeat_spec in Hu. discriminate.
Qed.

(* ---------- the two variants that look harmless ---------- *)
Definition msg (s : string) : sreq := {| q_written := str s; q_ok := true |}.
Definition bad (s : string) : sreq := {| q_written := str s; q_ok := false |}.

(* no Reset: one goroutine, a message that fails to encode after some content, then a good one
   from the recycled buffer: the connection receives the failed message's bytes first *)
Definition noreset : svariant := {| sv_reset := false; sv_put_late := true |}.
Definition noreset_sched : list sitem :=
  [SendCall 0 (bad "half-encoded"); SendStep 0 None; SendStep 0 None; SendStep 0 None;
   SendCall 0 (msg "good"); SendStep 0 (Some 0); SendStep 0 None; SendStep 0 None; SendStep 0 None].
Lemma sendbuf_noreset_refuted :
  ss_wire (sc_st (sexec noreset (sinit 1) noreset_sched)) = [(0, str "half-encodedgood")]
  /\ spec_wire (repeat T_idle 1) noreset_sched = [(0, str "good")].
Proof. split; vm_compute; reflexivity. Qed.

(* buffer put back before the Write: goroutine 1 gets goroutine 0's buffer and encodes into it
   while goroutine 0 is about to write: B's bytes are sent twice, A's never *)
Definition earlyput : svariant := {| sv_reset := true; sv_put_late := false |}.
Definition earlyput_sched : list sitem :=
  [SendCall 0 (msg "AAAA"); SendStep 0 None; SendStep 0 None;
   SendCall 1 (msg "BBBB"); SendStep 1 (Some 0); SendStep 1 None;
   SendStep 0 None; SendStep 1 None].
Lemma sendbuf_earlyput_refuted :
  ss_wire (sc_st (sexec earlyput (sinit 2) earlyput_sched)) = [(0, str "BBBB"); (1, str "BBBB")]
  /\ spec_wire (repeat T_idle 2) earlyput_sched = [(0, str "AAAA"); (1, str "BBBB")].
Proof. split; vm_compute; reflexivity. Qed.

(* non-vacuity: the same two schedules under the code as it is *)
Example sendbuf_repaired_on_those_schedules :
  ss_wire (sc_st (sexec send_repaired (sinit 1) noreset_sched)) = [(0, str "good")]
  /\ ss_wire (sc_st (sexec send_repaired (sinit 2) earlyput_sched)) = [(0, str "AAAA"); (1, str "BBBB")].
Proof. split; vm_compute; reflexivity. Qed.
