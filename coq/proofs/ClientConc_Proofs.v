(* The concurrent client (model/ClientConc.v) under EVERY schedule, for any number of
   threads and any programs: consequences of the lock-discipline invariant
   (proofs/ClientConc_Inv.v).
   C06: event data / PING / deadline only on the live session's open connection; nothing
        after Close; no double Close; New only while no obtained connection is open.
   C14: Connect refused without dialling; no deadlock; race freedom by lock discipline.
   C08: every Write carries one whole encoding; results vs wire; ack waits are exclusive. *)
From Coq Require Import List Arith Bool NArith Lia.
From FF Require Import model.Bytes model.Client model.ClientSpec model.Lts model.ClientConc model.ClientConcSpec
  model.ClientConcPinned proofs.ClientConc_Inv.
Import ListNotations.
Open Scope nat_scope.

Definition open_of (g : shared) : list nat := match g_sess g with Some (c, _) => [c] | None => [] end.

Section Conc.
  Variable cf : cfg.
  Notation Inv := (Inv cf).
  Notation reachable := (reachable cf).

  Ltac concrete g l :=
    destruct g as [sess next [rd wr pe] A closed wire], l as [p ops rets];
    cbn [g_S g_A g_sess g_next g_closed g_wire rw_readers rw_writer rw_pending l_pc l_ops l_rets] in *.

  (* a step of a configuration, opened *)
  Lemma conc_step_open c t c' e :
    conc_step cf c t = Some (c', e) ->
    exists l g' l', nth_error (thr c) t = Some l /\ cstep cf (glob c) t l = Some (g', l', e)
                    /\ c' = {| glob := g'; thr := set_nth (thr c) t l' |}.
  Proof. apply step_inv_some. Qed.

  (* ================= C06 ================= *)

  (* what a visible step says about the state before it *)
  Lemma event_facts g t l g' l' e :
    pc_sess g (l_pc l) -> conn_ok g -> cstep cf g t l = Some (g', l', Some e) ->
    (ce_kind e = 0%N \/ ce_kind e = 5%N -> g_sess g = Some (ce_conn e, true) /\ ~ In (ce_conn e) (g_closed g)) /\
    (ce_kind e = 1%N -> (exists f, g_sess g = Some (ce_conn e, f)) /\ ~ In (ce_conn e) (g_closed g)) /\
    (ce_kind e = 2%N \/ ce_kind e = 3%N -> g_sess g = None /\ ce_conn e = g_next g /\ forall i, i < g_next g -> In i (g_closed g)) /\
    (ce_kind e = 4%N -> (exists f, g_sess g = Some (ce_conn e, f)) /\ ~ In (ce_conn e) (g_closed g)) /\
    (ce_kind e < 6)%N.
  Proof.
    intros HSt HC Hs. unfold conn_ok in HC. concrete g l. destruct HC as [C1 [C2 [C3 C4]]].
    step_cases Hs; cbn in *; try subst sess; try (match goal with H : exists _, _ = Some _ |- _ => destruct H as [? ->] end); try (destruct (C3 _ _ eq_refl) as [D1 D2]);
      (split; [|split; [|split; [|split; [|reflexivity]]]]; intros X; try (destruct X as [X|X]); try discriminate X;
       repeat split; eauto;
       try (intros i Hi; destruct (C4 i Hi) as [[f Y]|Y]; [discriminate|exact Y])).
  Qed.

  Theorem data_write_in_transport progs c t c' e :
    reachable progs c -> conc_step cf c t = Some (c', Some e) -> ce_kind e = 0%N ->
    g_sess (glob c) = Some (ce_conn e, true) /\ ~ In (ce_conn e) (g_closed (glob c)).
  Proof.
    intros HR Hs Hk. apply reachable_inv in HR. apply conc_step_open in Hs.
    destruct Hs as [l [g' [l' [Hl [Hs _]]]]].
    destruct (event_facts _ _ _ _ _ _ (inv_sess _ _ HR _ _ Hl) (inv_conn _ _ HR) Hs) as [F0 [F1 [F2 [F4 _]]]]; auto.
  Qed.

  (* the ack deadline is armed on the live session's connection as well *)
  Theorem deadline_in_transport progs c t c' e :
    reachable progs c -> conc_step cf c t = Some (c', Some e) -> ce_kind e = 5%N ->
    g_sess (glob c) = Some (ce_conn e, true) /\ ~ In (ce_conn e) (g_closed (glob c)).
  Proof.
    intros HR Hs Hk. apply reachable_inv in HR. apply conc_step_open in Hs.
    destruct Hs as [l [g' [l' [Hl [Hs _]]]]].
    destruct (event_facts _ _ _ _ _ _ (inv_sess _ _ HR _ _ Hl) (inv_conn _ _ HR) Hs) as [F0 [F1 [F2 [F4 _]]]]; auto.
  Qed.

  Theorem ping_write_on_session progs c t c' e :
    reachable progs c -> conc_step cf c t = Some (c', Some e) -> ce_kind e = 1%N ->
    (exists f, g_sess (glob c) = Some (ce_conn e, f)) /\ ~ In (ce_conn e) (g_closed (glob c)).
  Proof.
    intros HR Hs Hk. apply reachable_inv in HR. apply conc_step_open in Hs.
    destruct Hs as [l [g' [l' [Hl [Hs _]]]]].
    destruct (event_facts _ _ _ _ _ _ (inv_sess _ _ HR _ _ Hl) (inv_conn _ _ HR) Hs) as [F0 [F1 [F2 [F4 _]]]]; auto.
  Qed.

  (* the factory is called only while there is no session and every connection obtained so
     far has been closed *)
  Theorem new_only_when_all_closed progs c t c' e :
    reachable progs c -> conc_step cf c t = Some (c', Some e) -> (ce_kind e = 2%N \/ ce_kind e = 3%N) ->
    g_sess (glob c) = None /\ ce_conn e = g_next (glob c) /\ forall i, i < g_next (glob c) -> In i (g_closed (glob c)).
  Proof.
    intros HR Hs Hk. apply reachable_inv in HR. apply conc_step_open in Hs.
    destruct Hs as [l [g' [l' [Hl [Hs _]]]]].
    destruct (event_facts _ _ _ _ _ _ (inv_sess _ _ HR _ _ Hl) (inv_conn _ _ HR) Hs) as [F0 [F1 [F2 [F4 _]]]]; auto.
  Qed.

  (* one step against the trace checker *)
  Lemma nat_mem_in x l : nat_mem x l = true <-> In x l.
  Proof.
    unfold nat_mem. rewrite existsb_exists. split.
    - intros [y [H1 H2]]. apply Nat.eqb_eq in H2. now subst.
    - intros H. exists x. split; auto. apply Nat.eqb_refl.
  Qed.
  Lemma nat_mem_not_in x l : ~ In x l -> nat_mem x l = false.
  Proof. intros H. destruct (nat_mem x l) eqn:E; auto. apply nat_mem_in in E. contradiction. Qed.

  Lemma step_trace_ok g t l g' l' oe r :
    pc_sess g (l_pc l) -> conn_ok g -> cstep cf g t l = Some (g', l', oe) ->
    ctrace_ok (open_of g') (g_closed g') r = true ->
    ctrace_ok (open_of g) (g_closed g) (match oe with Some e => (t, e) :: r | None => r end) = true.
  Proof.
    intros HSt HC Hs. unfold conn_ok in HC. concrete g l. destruct HC as [C1 [C2 [C3 C4]]].
    unfold open_of.
    step_cases Hs; cbn in *; try subst sess;
      try (match goal with H : exists _, _ = Some _ |- _ => destruct H as [? ->] end);
      cbn; rewrite ?Nat.eqb_refl; cbn; auto.
    all: intros ->; rewrite ?andb_true_r; apply negb_true_iff, nat_mem_not_in; intros X; apply C2 in X; lia.
  Qed.

  Lemma exec_trace_ok sch : forall c, Inv c ->
    ctrace_ok (open_of (glob c)) (g_closed (glob c)) (snd (conc_exec cf c sch)) = true.
  Proof.
    induction sch as [|t r IH]; intros c HI; [reflexivity|].
    unfold conc_exec in *. destruct (step shared local cevent (cstep cf) c t) as [[c' oe]|] eqn:Es.
    - rewrite (exec_cons_some _ _ _ _ _ _ _ _ _ Es). cbn [snd].
      pose proof (step_preserves_inv cf _ _ _ _ HI Es) as HI'.
      apply conc_step_open in Es. destruct Es as [l [g' [l' [Hl [Hs ->]]]]].
      apply (step_trace_ok _ _ _ _ _ _ _ (inv_sess _ _ HI _ _ Hl) (inv_conn _ _ HI) Hs).
      apply (IH _ HI').
    - rewrite (exec_cons_none _ _ _ _ _ _ _ Es). auto.
  Qed.

  Theorem no_write_after_close progs sch :
    ctrace_ok [] [] (snd (conc_exec cf (init_conc progs) sch)) = true.
  Proof. exact (exec_trace_ok sch (init_conc progs) (inv_init cf progs)). Qed.

  (* ================= C14 ================= *)

  (* (a) a Connect that finds a session gives up without dialling: no event, RErr, the
     session is untouched *)
  Theorem connect_refused_without_dial c t l k ok rest s c' oe :
    nth_error (thr c) t = Some l -> l_pc l = PExcl k -> l_ops l = CConnect ok :: rest ->
    g_sess (glob c) = Some s ->
    conc_step cf c t = Some (c', oe) ->
    oe = None /\ nth_error (thr c') t = Some (finish l RErr) /\ g_sess (glob c') = Some s
    /\ g_next (glob c') = g_next (glob c) /\ g_closed (glob c') = g_closed (glob c).
  Proof.
    intros Hl Hp Ho Hg Hs. apply conc_step_open in Hs. destruct Hs as [l0 [g' [l' [Hl0 [Hs ->]]]]].
    rewrite Hl in Hl0. inversion Hl0; subst l0; clear Hl0. cbn [glob thr].
    rewrite (nth_error_set_nth_eq _ _ _ _ Hl).
    unfold cstep in Hs. rewrite Ho, Hp, Hg in Hs. inversion Hs; subst. auto.
  Qed.

  (* the whole call makes no visible step: neither announcing nor acquiring the lock does *)
  Lemma lock_steps_silent g t l g' l' oe :
    cstep cf g t l = Some (g', l', oe) -> (l_pc l = PIdle \/ is_ann (l_pc l) = true) ->
    (exists ok rest, l_ops l = CConnect ok :: rest) -> oe = None /\ g_sess g' = g_sess g.
  Proof.
    intros Hs Hp [ok [rest Ho]]. concrete g l. subst ops.
    destruct Hp as [->|Hp]; [|destruct p; try discriminate Hp]; step_cases Hs; auto.
  Qed.

  (* (b) no deadlock *)
  Lemma cstep_enabled g t l :
    pc_ok (l_pc l) (l_ops l) = true ->
    match l_pc l with
    | PIdle => l_ops l <> [] -> rw_writer (g_S g) = None -> rw_pending (g_S g) = None -> cstep cf g t l <> None
    | PHsUpgrade _ => rw_writer (g_S g) = None -> rw_pending (g_S g) = None -> cstep cf g t l <> None
    | PWantAck _ => g_A g = None -> cstep cf g t l <> None
    | PWAnnounced _ => rw_pending (g_S g) = Some t -> rw_readers (g_S g) = [] -> cstep cf g t l <> None
    | _ => cstep cf g t l <> None
    end.
  Proof.
    intros HK. concrete g l.
    destruct p; destruct ops as [|[] ?]; try discriminate HK; cbn; intros; subst; try congruence;
      unfold cstep, rlock, wannounce, wacquire, mlock; cbn; rewrite ?Nat.eqb_refl;
      repeat match goal with
             | |- context [match ?x with _ => _ end] => destruct x
             end; congruence.
  Qed.

  Lemma enabled_intro (c : cconfig) t l :
    nth_error (thr c) t = Some l -> cstep cf (glob c) t l <> None ->
    existsb (enabled shared local cevent (cstep cf) c) (tids shared local c) = true.
  Proof.
    intros Hl Hs. apply existsb_exists. exists t. split.
    - unfold tids. apply in_seq. split; [lia|]. cbn. apply nth_error_Some. congruence.
    - unfold enabled, step. rewrite Hl. destruct (cstep cf (glob c) t l) as [[[g' l'] e]|]; congruence.
  Qed.

  Theorem no_deadlock progs c : reachable progs c -> conc_deadlocked cf c = false.
  Proof.
    intros HR. apply reachable_inv in HR.
    unfold conc_deadlocked, deadlocked. destruct (all_done shared local ldone c) eqn:Hd; [reflexivity|].
    cbn [negb andb]. apply negb_false_iff.
    (* a thread that is not finished *)
    assert (Hnd : exists t0 l0, nth_error (thr c) t0 = Some l0 /\ l_ops l0 <> []).
    { unfold all_done in Hd. destruct (forallb_forall ldone (thr c)) as [_ Hf].
      destruct (existsb (fun l => negb (ldone l)) (thr c)) eqn:Ex.
      - apply existsb_exists in Ex. destruct Ex as [l0 [Hin Hl0]].
        apply In_nth_error in Hin. destruct Hin as [t0 Ht0]. exists t0, l0. split; auto.
        unfold ldone in Hl0. destruct (l_ops l0); [discriminate|congruence].
      - rewrite Hf in Hd; [discriminate|]. intros l0 Hin.
        destruct (ldone l0) eqn:E; auto. exfalso.
        assert (existsb (fun l => negb (ldone l)) (thr c) = true); [|congruence].
        apply existsb_exists. exists l0. rewrite E. auto. }
    (* a thread waiting for ackLock: it, or the holder of ackLock, can move *)
    assert (HWA : forall t l cc, nth_error (thr c) t = Some l -> l_pc l = PWantAck cc ->
                  existsb (enabled shared local cevent (cstep cf) c) (tids shared local c) = true).
    { intros t l cc Hl Hp. pose proof (cstep_enabled (glob c) t l (inv_pcok _ _ HR _ _ Hl)) as He. rewrite Hp in He.
      destruct (g_A (glob c)) as [a|] eqn:EA; [|apply (enabled_intro _ _ _ Hl); auto].
      pose proof (inv_A _ _ HR) as HA. destruct (cf_ack cf); [|congruence].
      apply HA in EA. destruct EA as [la [Hla Hpa]].
      pose proof (cstep_enabled (glob c) a la (inv_pcok _ _ HR _ _ Hla)) as Hea.
      apply (enabled_intro _ _ _ Hla). destruct (l_pc la); try discriminate Hpa; exact Hea. }
    (* a thread holding S shared: it, or the holder of ackLock, can move *)
    assert (HRD : forall t, In t (rw_readers (g_S (glob c))) ->
                  existsb (enabled shared local cevent (cstep cf) c) (tids shared local c) = true).
    { intros t Hin. apply (inv_readers _ _ HR) in Hin. destruct Hin as [l [Hl Hp]].
      pose proof (cstep_enabled (glob c) t l (inv_pcok _ _ HR _ _ Hl)) as He.
      destruct (l_pc l) eqn:Ep; try discriminate Hp; try (apply (enabled_intro _ _ _ Hl); exact He).
      eapply HWA; eauto. }
    destruct (rw_writer (g_S (glob c))) as [w|] eqn:Ew.
    - (* the exclusive holder is never blocked *)
      apply (inv_writer _ _ HR) in Ew. destruct Ew as [l [Hl Hp]].
      pose proof (cstep_enabled (glob c) w l (inv_pcok _ _ HR _ _ Hl)) as He.
      apply (enabled_intro _ _ _ Hl). destruct (l_pc l); try discriminate Hp; exact He.
    - destruct (rw_pending (g_S (glob c))) as [pw|] eqn:Epe.
      + (* a writer is pending: it enters when no reader is left; otherwise a reader moves *)
        destruct (rw_readers (g_S (glob c))) as [|r rs] eqn:Erd.
        * pose proof Epe as Epe'. apply (inv_pending _ _ HR) in Epe. destruct Epe as [l [Hl Hp]].
          pose proof (cstep_enabled (glob c) pw l (inv_pcok _ _ HR _ _ Hl)) as He.
          apply (enabled_intro _ _ _ Hl). destruct (l_pc l); try discriminate Hp. auto.
        * apply (HRD r). now left.
      + (* S is free for everybody *)
        destruct Hnd as [t0 [l0 [Hl0 Hops]]].
        pose proof (cstep_enabled (glob c) t0 l0 (inv_pcok _ _ HR _ _ Hl0)) as He.
        destruct (l_pc l0) eqn:Ep; try (apply (enabled_intro _ _ _ Hl0); auto; fail).
        * eapply HWA; eauto.
        * exfalso. assert (rw_pending (g_S (glob c)) = Some t0); [|congruence].
          apply (inv_pending _ _ HR). exists l0. rewrite Ep. auto.
  Qed.

  (* (c) race freedom by lock discipline: every write of the session field / flag happens
     under the exclusive lock, every read while no writer holds it *)
  Theorem lockset progs c t l c' oe :
    reachable progs c -> nth_error (thr c) t = Some l -> conc_step cf c t = Some (c', oe) ->
    (access_of l = Some true ->
       rw_writer (g_S (glob c)) = Some t /\ rw_readers (g_S (glob c)) = []) /\
    (access_of l = Some false -> rw_writer (g_S (glob c)) = None).
  Proof.
    intros HR Hl Hs. apply reachable_inv in HR. apply conc_step_open in Hs.
    destruct Hs as [l0 [g' [l' [Hl0 [Hs _]]]]]. rewrite Hl in Hl0. inversion Hl0; subst l0; clear Hl0.
    split; intros Ha.
    - assert (Hx : holds_X (l_pc l) = true).
      { unfold access_of in Ha. destruct (l_ops l) as [|o r]; [discriminate|].
        destruct (l_pc l); try destruct o; try discriminate Ha; reflexivity. }
      assert (Hw : rw_writer (g_S (glob c)) = Some t) by (apply (inv_writer _ _ HR); exists l; auto).
      split; auto. apply (inv_excl _ _ HR). congruence.
    - destruct (holds_S (l_pc l)) eqn:HS.
      + assert (Hin : In t (rw_readers (g_S (glob c)))) by (apply (inv_readers _ _ HR); exists l; auto).
        destruct (rw_writer (g_S (glob c))) eqn:Ew; auto.
        destruct (inv_excl _ _ HR) as [E _]; [congruence|]. rewrite E in Hin. contradiction.
      + (* the step takes the shared lock itself *)
        unfold access_of in Ha. destruct (glob c) as [sess next [rd wr pe] A closed wire]. destruct l as [p ops rets].
        cbn [l_pc l_ops g_S rw_writer] in *.
        destruct ops as [|o r]; [discriminate|].
        destruct p; try discriminate HS; try destruct o; try discriminate Ha;
          unfold cstep, rlock in Hs; cbn in Hs; destruct wr; auto; discriminate.
  Qed.

  (* two accesses that can fire in the same configuration are both reads *)
  Corollary no_conflicting_access progs c t1 t2 l1 l2 c1 c2 e1 e2 w :
    reachable progs c -> t1 <> t2 ->
    nth_error (thr c) t1 = Some l1 -> nth_error (thr c) t2 = Some l2 ->
    conc_step cf c t1 = Some (c1, e1) -> conc_step cf c t2 = Some (c2, e2) ->
    access_of l1 = Some true -> access_of l2 = Some w -> False.
  Proof.
    intros HR Hne H1 H2 S1 S2 A1 A2.
    destruct (lockset _ _ _ _ _ _ HR H1 S1) as [X1 _]. destruct (X1 A1) as [W1 R1].
    destruct (lockset _ _ _ _ _ _ HR H2 S2) as [X2 Y2]. destruct w.
    - destruct (X2 A2) as [W2 _]. congruence.
    - specialize (Y2 A2). congruence.
  Qed.

  (* ================= C08 (c) ================= *)
  (* with RequireAck, at most one thread is between taking ackLock and the end of its ack wait *)
  Theorem ack_exclusive progs c t1 t2 l1 l2 :
    cf_ack cf = true -> reachable progs c ->
    nth_error (thr c) t1 = Some l1 -> nth_error (thr c) t2 = Some l2 ->
    holds_A (l_pc l1) = true -> holds_A (l_pc l2) = true -> t1 = t2.
  Proof.
    intros Hack HR H1 H2 P1 P2. apply reachable_inv in HR. pose proof (inv_A _ _ HR) as HA. rewrite Hack in HA.
    assert (g_A (glob c) = Some t1) by (apply HA; exists l1; auto).
    assert (g_A (glob c) = Some t2) by (apply HA; exists l2; auto). congruence.
  Qed.

  (* in general: at most one thread holds S exclusively, and then nobody holds it shared *)
  Theorem excl_exclusive progs c t1 t2 l1 l2 :
    reachable progs c ->
    nth_error (thr c) t1 = Some l1 -> nth_error (thr c) t2 = Some l2 ->
    holds_X (l_pc l1) = true -> (holds_X (l_pc l2) = true \/ holds_S (l_pc l2) = true) ->
    t1 = t2 /\ holds_S (l_pc l2) = false.
  Proof.
    intros HR H1 H2 P1 P2. apply reachable_inv in HR.
    assert (W1 : rw_writer (g_S (glob c)) = Some t1) by (apply (inv_writer _ _ HR); exists l1; auto).
    destruct (inv_excl _ _ HR) as [E _]; [congruence|].
    assert (S2 : holds_S (l_pc l2) = false).
    { destruct (holds_S (l_pc l2)) eqn:E2; auto. exfalso.
      assert (In t2 (rw_readers (g_S (glob c)))) by (apply (inv_readers _ _ HR); exists l2; auto).
      rewrite E in H. contradiction. }
    split; auto. destruct P2 as [P2|P2]; [|congruence].
    assert (rw_writer (g_S (glob c)) = Some t2) by (apply (inv_writer _ _ HR); exists l2; auto). congruence.
  Qed.
End Conc.

Print Assumptions data_write_in_transport.
Print Assumptions ping_write_on_session.
Print Assumptions no_write_after_close.
Print Assumptions connect_refused_without_dial.
Print Assumptions no_deadlock.
Print Assumptions lockset.
Print Assumptions no_conflicting_access.
Print Assumptions ack_exclusive.

(* ================= non-vacuity: a concrete run ================= *)
(* RequireAck and a timeout configured, no shared key: thread 0 connects and sends, thread 1
   sends, thread 2 disconnects.  The schedule lets both senders take the shared lock, the
   Disconnect announce itself, thread 1 run into the held ackLock, and the Disconnect enter
   once both senders have left. *)
Definition ex_cf : cfg := {| cf_key := None; cf_host := []; cf_ack := true; cf_timeout := true |}.
Definition ex_m1 : bytes := [x93; x01; x02].
Definition ex_m2 : bytes := [x93; x03].
Definition ex_progs : list (list cop) :=
  [ [CConnect true; CSend (Some ex_m1) (Some [x61]) true true];
    [CSend (Some ex_m2) (Some [x62]) true true];
    [CDisconnect] ].
Definition ex_sch : list nat := [0;0;0; 0;1;2; 0;0;1;0; 1;1;1; 2;2].
Definition ex_run := conc_exec ex_cf (init_conc ex_progs) ex_sch.

Example ex_trace :
  map (fun x => (fst x, ce_kind (snd x), ce_conn (snd x))) (snd ex_run)
  = [(0, 2%N, 0); (0, 0%N, 0); (0, 5%N, 0); (1, 0%N, 0); (1, 5%N, 0); (2, 4%N, 0)].
Proof. vm_compute. reflexivity. Qed.
Example ex_final :
  all_done shared local ldone (fst ex_run) = true
  /\ map l_rets (thr (fst ex_run)) = [[ROk; ROk]; [ROk]; [ROk]]
  /\ map (fun x => (snd (fst x), snd x)) (rev (g_wire (glob (fst ex_run)))) = [(0, ex_m1); (1, ex_m2)]
  /\ g_closed (glob (fst ex_run)) = [0] /\ g_sess (glob (fst ex_run)) = None.
Proof. vm_compute. repeat split; reflexivity. Qed.
(* in the middle of it: thread 0 waits for its ack holding ackLock, thread 1 waits for
   ackLock, the Disconnect is announced and waits for both *)
Example ex_middle :
  let c := fst (conc_exec ex_cf (init_conc ex_progs) (firstn 8 ex_sch)) in
  map l_pc (thr c) = [PSendAck 0; PWantAck 0; PWAnnounced 0]
  /\ conc_step ex_cf c 1 = None /\ conc_step ex_cf c 2 = None /\ conc_deadlocked ex_cf c = false.
Proof. vm_compute. repeat split; reflexivity. Qed.
(* the visible trace of the run is accepted by the powerset simulation of the model, and a
   state with every thread finished is reachable after it *)
Example ex_accepts : conc_accepts ex_cf 8 (init_conc ex_progs) (snd ex_run) = true.
Proof. vm_compute. reflexivity. Qed.
Example ex_completes : conc_completes ex_cf 8 (init_conc ex_progs) (snd ex_run) = true.
Proof. vm_compute. reflexivity. Qed.
Example ex_trace_ok : ctrace_ok [] [] (snd ex_run) = true.
Proof. vm_compute. reflexivity. Qed.
(* a trace the model does not have is rejected: the two data Writes swapped with their deadlines *)
Example ex_rejects :
  conc_accepts ex_cf 8 (init_conc ex_progs)
    [(0, {| ce_kind := 2; ce_conn := 0; ce_data := [] |});
     (0, {| ce_kind := 0; ce_conn := 0; ce_data := ex_m1 |});
     (1, {| ce_kind := 0; ce_conn := 0; ce_data := ex_m2 |})] = false.
Proof. vm_compute. reflexivity. Qed.

(* ================= regression witnesses: the pinned client ================= *)
Definition pin_cf : cfg := {| cf_key := None; cf_host := []; cf_ack := false; cf_timeout := false |}.
Definition pin_long : bytes := repeat x41 3000.
Definition pin_short : bytes := [x93; x03].
Definition pin_progs : list (list cop) :=
  [ [CConnect true; CSend (Some pin_long) None true true];
    [CSend (Some pin_short) None true true] ].

(* (i) two senders, one 3000-byte message: the short message lands between the two Writes
   of the long one; both calls return ROk; the wire fails the whole-encoding check that
   holds for every run of the repaired model ([wire_whole_checked]) *)
Theorem pinned_interleaves :
  exists sch,
    let c := fst (pinned_exec pin_cf (init_pinned pin_progs) sch) in
    rev (g_wire (glob c)) = [(0, 0, firstn 2048 pin_long); (0, 1, pin_short); (0, 0, skipn 2048 pin_long)]
    /\ map pl_rets (thr c) = [[ROk; ROk]; [ROk]]
    /\ wire_whole_b pin_progs (g_wire (glob c)) = false.
Proof. exists [0;0;0; 0;0; 1;1; 0]. vm_compute. repeat split; reflexivity. Qed.

(* (ii) a shared key is configured; thread 0 connects and runs a successful handshake,
   thread 1 asks TransportPhase().  After the PING the handshake is about to set the flag:
   a WRITE access fires while nobody holds the lock exclusively — thread 0 itself holds it
   shared — and the READ of thread 1 is enabled in the same configuration: a data race *)
Definition pin_cf2 : cfg := {| cf_key := Some [x6b]; cf_host := []; cf_ack := false; cf_timeout := false |}.
Definition pin_progs2 : list (list cop) :=
  [ [CConnect true; CHandshake (Some [x50]) true]; [CTransportPhase] ].

Theorem pinned_races :
  exists sch l0 l1 c0 c1 e0 e1,
    let c := fst (pinned_exec pin_cf2 (init_pinned pin_progs2) sch) in
    nth_error (thr c) 0 = Some l0 /\ nth_error (thr c) 1 = Some l1
    /\ paccess_of l0 = Some true /\ pinned_step pin_cf2 c 0 = Some (c0, e0)
    /\ paccess_of l1 = Some false /\ pinned_step pin_cf2 c 1 = Some (c1, e1)
    /\ rw_writer (g_S (glob c)) = None /\ rw_readers (g_S (glob c)) = [0]
    /\ g_sess (glob c) = Some (0, false) /\ g_sess (glob c0) = Some (0, true).
Proof.
  exists [0;0;0; 0;0]. vm_compute. do 6 eexists. repeat split; reflexivity.
Qed.

Print Assumptions deadline_in_transport.
Print Assumptions new_only_when_all_closed.
Print Assumptions excl_exclusive.
Print Assumptions ex_accepts.
Print Assumptions ex_completes.
Print Assumptions pinned_interleaves.
Print Assumptions pinned_races.
