(* The EventTime length rule seen through the decoders that carry a timestamp extension:
   whatever framing msgpack offers for an extension (fixext 1/2/4/8/16, ext8, ext16, ext32),
   a decoder that succeeds has met a type-0 extension whose payload is exactly eight bytes. *)
From FF Require Import model.Bytes model.Msgp model.Forward proofs.EventTime_Proofs.
From Coq Require Import Lia ZifyN ZifyNat ZifyBool.
Open Scope N_scope.

Lemma rd_eventtime_inv bs s ns rest :
  rd_eventtime bs = Ok (s, ns, rest) ->
  exists d, ext_parts bs = Ok (0, d, rest) /\ length d = 8%nat /\ dec_eventtime d = Ok (s, ns).
Proof.
  unfold rd_eventtime. destruct (ext_parts bs) as [[[ty d] r]|e|] eqn:E; cbn [bind]; try discriminate.
  destruct (ty =? 0) eqn:T; try discriminate. apply N.eqb_eq in T. subst ty.
  destruct (dec_eventtime d) as [[s' ns']|e|] eqn:D; cbn [bind]; try discriminate.
  intros H. injection H as -> -> ->.
  exists d. split; [reflexivity|]. split; [|exact D].
  destruct (Nat.eq_dec (length d) 8) as [L|L]; [exact L|].
  destruct (et_len_rejected d L) as [e E']. congruence.
Qed.

Lemma rd_eventtime_rejects bs ty d rest :
  ext_parts bs = Ok (ty, d, rest) -> (length d <> 8%nat \/ ty <> 0) -> exists e, rd_eventtime bs = Err e.
Proof.
  intros E H. unfold rd_eventtime. rewrite E. cbn [bind].
  destruct (ty =? 0) eqn:T.
  - apply N.eqb_eq in T. destruct H as [L|L]; [|contradiction].
    destruct (et_len_rejected d L) as [e E']. rewrite E'. cbn [bind]. eauto.
  - eauto.
Qed.

(* an entry that decodes carries a type-0 extension of eight bytes right after its array header *)
Theorem entry_timestamp_ext p bs e r :
  U_entry p bs = Ok (e, r) ->
  exists r0 d r1, rd_arr_hdr bs = Ok (2, r0) /\ ext_parts r0 = Ok (0, d, r1) /\ length d = 8%nat /\
                  dec_eventtime d = Ok (e_ts e).
Proof.
  unfold U_entry. destruct (rd_arr_hdr bs) as [[sz r0]|x|] eqn:A; cbn [bind]; try discriminate.
  destruct (sz =? 2) eqn:S; cbn [negb]; try discriminate. apply N.eqb_eq in S. subst sz.
  destruct (rd_eventtime r0) as [[[s ns] r1]|x|] eqn:T; cbn [bind]; try discriminate.
  destruct (rd_intf p (fuel_for r1) r1) as [[rec r2]|x|]; cbn [bind]; try discriminate.
  intros H. injection H as <- <-.
  destruct (rd_eventtime_inv _ _ _ _ T) as [d [E [L D]]].
  exists r0, d, r1. cbn [e_ts]. auto.
Qed.

Theorem entry_rejects_other_lengths p bs r0 ty d r1 :
  rd_arr_hdr bs = Ok (2, r0) -> ext_parts r0 = Ok (ty, d, r1) -> (length d <> 8%nat \/ ty <> 0) ->
  exists x, U_entry p bs = Err x.
Proof.
  intros A E H. unfold U_entry. rewrite A. cbn [bind]. cbn.
  destruct (rd_eventtime_rejects _ _ _ _ E H) as [x X]. rewrite X. cbn [bind]. eauto.
Qed.

(* the same for the MessageExt decoder: the timestamp follows the tag *)
Theorem message_ext_timestamp_ext p prev bs m r :
  U_message_ext p prev bs = Ok (m, r) ->
  exists sz r0 tag r1 d r2, rd_arr_hdr bs = Ok (sz, r0) /\ rd_str r0 = Ok (tag, r1) /\
     ext_parts r1 = Ok (0, d, r2) /\ length d = 8%nat /\ dec_eventtime d = Ok (x_ts m).
Proof.
  unfold U_message_ext. destruct (rd_arr_hdr bs) as [[sz r0]|x|] eqn:A; cbn [bind]; try discriminate.
  destruct (negb (arity_ok 3 sz)); try discriminate.
  destruct (rd_str r0) as [[tag r1]|x|] eqn:S; cbn [bind]; try discriminate.
  destruct (rd_eventtime r1) as [[[s ns] r2]|x|] eqn:T; cbn [bind]; try discriminate.
  destruct (rd_intf p (fuel_for r2) r2) as [[rec r3]|x|]; cbn [bind]; try discriminate.
  destruct (U_tail p (sz =? 4) r3) as [[o r4]|x|]; cbn [bind]; try discriminate.
  intros H. injection H as <- <-.
  destruct (rd_eventtime_inv _ _ _ _ T) as [d [E [L D]]].
  exists sz, r0, tag, r1, d, r2. cbn [x_ts]. auto.
Qed.

Theorem message_ext_rejects_other_lengths p prev bs sz r0 tag r1 ty d r2 :
  rd_arr_hdr bs = Ok (sz, r0) -> rd_str r0 = Ok (tag, r1) -> ext_parts r1 = Ok (ty, d, r2) ->
  (length d <> 8%nat \/ ty <> 0) -> exists x, U_message_ext p prev bs = Err x.
Proof.
  intros A S E H. unfold U_message_ext. rewrite A. cbn [bind].
  destruct (negb (arity_ok 3 sz)); [eauto|].
  rewrite S. cbn [bind].
  destruct (rd_eventtime_rejects _ _ _ _ E H) as [x X]. rewrite X. cbn [bind]. eauto.
Qed.

(* every framing is one the model reads: the payload of each is found whole *)
Example other_framings_are_read :
  ext_parts [n2b 199; n2b 9; n2b 0; x01; x02; x03; x04; x05; x06; x07; x08; x09; xff]
    = Ok (0, [x01; x02; x03; x04; x05; x06; x07; x08; x09], [xff]) /\
  ext_parts [n2b 200; n2b 0; n2b 2; n2b 0; x01; x02] = Ok (0, [x01; x02], []) /\
  ext_parts [n2b 201; n2b 0; n2b 0; n2b 0; n2b 1; n2b 0; x01] = Ok (0, [x01], []) /\
  is_err (U_entry Slice [n2b 146; n2b 199; n2b 9; n2b 0; x01; x02; x03; x04; x05; x06; x07; x08; x09; n2b 128]) = true /\
  is_err (U_entry Stream [n2b 146; n2b 216; n2b 0; x01; x02; x03; x04; x05; x06; x07; x08; x09; x0a; x0b; x0c; x0d; x0e; x0f; x10; n2b 128]) = true /\
  is_ok (U_entry Stream [n2b 146; n2b 199; n2b 8; n2b 0; x01; x02; x03; x04; x05; x06; x07; x08; n2b 128]) = true.
Proof. vm_compute. repeat split; reflexivity. Qed.

(* ---------- entry lists and Forward messages: every entry of a decoded list ---------- *)

Definition decoded_entry (p : path) (e : entry) : Prop := exists bs r, U_entry p bs = Ok (e, r).

Lemma entries_loop_decoded p : forall fuel cnt bs acc es r,
  U_entries_loop p fuel cnt bs acc = Ok (es, r) -> Forall (decoded_entry p) acc -> Forall (decoded_entry p) es.
Proof.
  induction fuel as [|f IH]; intros cnt bs acc es r; cbn [U_entries_loop]; [discriminate|].
  destruct (cnt =? 0).
  - intros H Ha. injection H as <- <-. rewrite rev_append_rev, app_nil_r. apply Forall_rev. exact Ha.
  - destruct (U_entry p bs) as [[e r1]|x|] eqn:E; cbn [bind]; try discriminate.
    intros H Ha. apply (IH _ _ _ _ _ H). constructor; [exists bs, r1; exact E | exact Ha].
Qed.

Theorem entry_list_entries_decoded p bs es r :
  U_entry_list p bs = Ok (es, r) -> Forall (decoded_entry p) es.
Proof.
  unfold U_entry_list. destruct (rd_arr_hdr bs) as [[cnt r0]|x|]; cbn [bind]; try discriminate.
  intros H. exact (entries_loop_decoded p _ _ _ _ _ _ H (Forall_nil _)).
Qed.

Theorem forward_entries_decoded p prev bs m r :
  U_forward p prev bs = Ok (m, r) -> Forall (decoded_entry p) (f_entries m).
Proof.
  unfold U_forward. destruct (rd_arr_hdr bs) as [[sz r0]|x|]; cbn [bind]; try discriminate.
  destruct (negb (arity_ok 2 sz)); try discriminate.
  destruct (rd_str r0) as [[tag r1]|x|]; cbn [bind]; try discriminate.
  destruct (U_entry_list p r1) as [[es r2]|x|] eqn:E; cbn [bind]; try discriminate.
  destruct (U_tail p (sz =? 3) r2) as [[o r3]|x|]; cbn [bind]; try discriminate.
  intros H. injection H as <- <-. cbn [f_entries]. exact (entry_list_entries_decoded _ _ _ _ E).
Qed.

(* so every entry of a decoded Forward message carries a timestamp read from a type-0 extension of eight bytes *)
Corollary forward_timestamps_8_bytes p prev bs m r :
  U_forward p prev bs = Ok (m, r) ->
  Forall (fun e => exists bs' r0 d r1, rd_arr_hdr bs' = Ok (2, r0) /\ ext_parts r0 = Ok (0, d, r1) /\
                     length d = 8%nat /\ dec_eventtime d = Ok (e_ts e)) (f_entries m).
Proof.
  intros H. apply forward_entries_decoded in H. eapply Forall_impl; [|exact H].
  intros e [bs' [r' E]]. destruct (entry_timestamp_ext _ _ _ _ E) as [r0 [d [r1 X]]]. exists bs', r0, d, r1. exact X.
Qed.
