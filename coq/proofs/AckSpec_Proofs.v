(* C04: the library's acknowledgement decoder against the independent specification.
     E1  U_ack_complete        a response map that the specification parses, with string keys
                               and exactly one "ack" entry holding a string, in ANY legal
                               encoding, is decoded to that string (both paths)
     E2  U_ack_sound           whatever U_ack accepts is one msgpack map of the specification,
                               and the result is the string value of its LAST "ack" entry
                               ([] when there is none): nothing else is ever taken for an
                               acknowledgement
     E3  shape_ack_decodes / U_ack_single_shape   the conforming one-entry ack
     E4  U_pong_complete, U_helo_complete         the handshake responses, same style *)
From FF Require Import model.Bytes model.Show model.Msgp model.Forward model.Handshake model.Spec
  model.AckSpec
  proofs.Bytes_Proofs proofs.Msgp_Total proofs.Total_Proofs proofs.Refine_Proofs
  proofs.Spec_Proofs proofs.Lead_Proofs proofs.Chunk_Proofs proofs.Complete_Proofs.
From Coq Require Import Lia ZifyN ZifyNat ZifyBool String.
Open Scope N_scope.

(* ================================================================== *)
(* Keys                                                                *)
(* ================================================================== *)

(* a bin object in key position is read by ReadMapKey[ZC] like a string *)
Lemma item_bin_key s bs t r : item s bs (VBin t) r -> rd_map_key bs = Ok (t, r).
Proof.
  intros Hi. pose proof (item_bin _ _ _ _ Hi) as E.
  destruct Hi as (f & H & _). destruct f as [|f]; [discriminate|]. destruct bs as [|b r0]; [discriminate|].
  unfold rd_map_key. rewrite is_bin_lead_kind. rewrite rd_bin_kind in E.
  destruct (kind_of (b2n b)) eqn:K; try discriminate E. cbv iota.
  rewrite rd_bin_kind, K. exact E.
Qed.

(* completeness of the key reader of the generated decoders: str or bin key, any header;
   the Stream path (ReadMapKeyPtr) refuses the empty key *)
Lemma item_key_rd p s bs kv k r : item s bs kv r -> key_bytes kv = Some k ->
  (p = Stream -> k <> []) -> rd_field_key p bs = Ok (k, r).
Proof.
  intros Hi Hk Hne.
  assert (E : rd_map_key bs = Ok (k, r)).
  { destruct kv; try discriminate Hk; injection Hk as ->.
    - exact (proj2 (item_str _ _ _ _ Hi)).
    - exact (item_bin_key _ _ _ _ Hi). }
  destruct p; cbn [rd_field_key]; [exact E|].
  unfold rd_map_key_ptr. rewrite E. red_bind. destruct k; [now elim Hne|reflexivity].
Qed.

(* soundness of the key reader: what it accepts is one str or bin object *)
Lemma rd_map_key_sound bs k r : rd_map_key bs = Ok (k, r) ->
  exists kv, item false bs kv r /\ key_bytes kv = Some k.
Proof.
  unfold rd_map_key. destruct bs as [|b t]; [discriminate|].
  destruct (is_bin_lead (b2n b)); intros H.
  - exists (VBin k). split; [|reflexivity]. exists 1%nat. split; [|reflexivity].
    exact (rd_bin_spec _ _ _ H 0%nat).
  - exists (VStr k). split; [|reflexivity]. exists 1%nat. split; [|reflexivity].
    exact (rd_str_spec _ _ _ H 0%nat).
Qed.

Lemma rd_field_key_sound p bs k r : rd_field_key p bs = Ok (k, r) ->
  exists kv, item false bs kv r /\ key_bytes kv = Some k /\ (p = Stream -> k <> []).
Proof.
  destruct p; cbn [rd_field_key]; intros H.
  - destruct (rd_map_key_sound _ _ _ H) as (kv & A & B). exists kv. repeat split; auto. discriminate.
  - unfold rd_map_key_ptr in H. apply bind_ok in H as ([k' r'] & E & H).
    destruct k' as [|c k']; [discriminate|]. injection H as <- <-.
    destruct (rd_map_key_sound _ _ _ E) as (kv & A & B). exists kv. repeat split; auto. discriminate.
Qed.

Lemma rd_str_item bs s r : rd_str bs = Ok (s, r) -> item false bs (VStr s) r.
Proof. intros H. exists 1%nat. split; [exact (rd_str_spec _ _ _ H 0%nat)|reflexivity]. Qed.

Lemma skip_item p f bs r : skip p f bs = Ok r -> exists v, item false bs v r.
Proof.
  intros H. apply skip_refines in H as (f' & v & H). exists v, f'. split; [exact H|reflexivity].
Qed.

(* ================================================================== *)
(* From a sequence of pairs back to the specification parser           *)
(* ================================================================== *)

Lemma pairs_parse_map s bs l r : pairs s bs l r ->
  exists F, forall acc, parse_map F (len l) bs acc = Some (VMap (rev acc ++ l), r).
Proof.
  induction 1 as [bs|bs k r1 v r2 l r' (f1 & H1 & _) (f2 & H2 & _) _ (F & HF)].
  - exists 1%nat. intros acc. rewrite app_nil_r, rev_alt. reflexivity.
  - exists (S (Nat.max (Nat.max f1 f2) F)). intros acc. rewrite parse_map_S, len_cons'.
    destruct (N.eqb_spec (len l + 1) 0); [lia|].
    rewrite (parse_fuel_mono f1 (Nat.max (Nat.max f1 f2) F) _ _ H1) by lia. cbn [obind].
    rewrite (parse_fuel_mono f2 (Nat.max (Nat.max f1 f2) F) _ _ H2) by lia. cbn [obind].
    replace (len l + 1 - 1) with (len l) by lia.
    rewrite (parse_map_fuel_mono F (Nat.max (Nat.max f1 f2) F) _ _ _ _ (HF ((k, v) :: acc))) by lia.
    cbn [rev]. now rewrite <- app_assoc.
Qed.

(* a map header followed by its pairs is one map value of the specification *)
Lemma map_of_pairs s bs r0 l r : rd_map_hdr bs = Ok (len l, r0) -> pairs s r0 l r ->
  exists f, parse f bs = Some (VMap l, r).
Proof.
  intros Eh Hp. destruct (pairs_parse_map _ _ _ _ Hp) as (F & HF).
  exists (S F). rewrite (rd_map_hdr_spec _ _ _ Eh). exact (HF []).
Qed.

(* ================================================================== *)
(* Entries of a map by key name (generic)                              *)
(* ================================================================== *)

Section Key.
  Variable name : bytes.

  Definition nonkey (kv : value * value) : Prop := key_is name (fst kv) = false.

  Lemma last_entry_cons k v l : last_entry name ((k, v) :: l) =
    match last_entry name l with Some x => Some x | None => if key_is name k then Some v else None end.
  Proof. reflexivity. Qed.

  Lemma last_entry_none l : last_entry name l = None -> Forall nonkey l.
  Proof.
    induction l as [|[k v] l IH]; [constructor|]. rewrite last_entry_cons.
    destruct (last_entry name l); [discriminate|]. destruct (key_is name k) eqn:E; [discriminate|].
    intros _. constructor; [exact E|auto].
  Qed.

  Lemma last_entry_some l v : last_entry name l = Some v ->
    exists l1 k l2, l = l1 ++ (k, v) :: l2 /\ key_is name k = true /\ Forall nonkey l2.
  Proof.
    induction l as [|[k w] l IH]; [discriminate|]. rewrite last_entry_cons.
    destruct (last_entry name l) as [x|] eqn:E.
    - intros [= ->]. destruct (IH eq_refl) as (l1 & k' & l2 & -> & A & B).
      exists ((k, w) :: l1), k', l2. auto.
    - destruct (key_is name k) eqn:Ek; [|discriminate]. intros [= ->].
      exists [], k, l. repeat split; auto. now apply last_entry_none.
  Qed.

  Lemma nonkey_last l : Forall nonkey l -> last_entry name l = None.
  Proof.
    induction 1 as [|[k v] l Hk _ IH]; [reflexivity|]. rewrite last_entry_cons, IH.
    unfold nonkey in Hk. cbn [fst] in Hk. now rewrite Hk.
  Qed.

  Lemma last_entry_app_some l1 k v l2 : key_is name k = true -> Forall nonkey l2 ->
    last_entry name (l1 ++ (k, v) :: l2) = Some v.
  Proof.
    intros Hk H2. induction l1 as [|[k' v'] l1 IH]; cbn [app]; rewrite last_entry_cons.
    - now rewrite (nonkey_last _ H2), Hk.
    - now rewrite IH.
  Qed.

  Lemma key_count_cons k v l :
    key_count name ((k, v) :: l) = ((if key_is name k then 1 else 0) + key_count name l)%nat.
  Proof. unfold key_count. cbn [filter fst]. destruct (key_is name k); reflexivity. Qed.

  Lemma key_count_0 l : key_count name l = 0%nat -> Forall nonkey l.
  Proof.
    induction l as [|[k v] l IH]; [constructor|]. rewrite key_count_cons.
    destruct (key_is name k) eqn:E; [discriminate|]. intros H. constructor; [exact E|auto].
  Qed.

  Lemma key_count_0_in l k v : key_count name l = 0%nat -> In (k, v) l -> key_is name k = false.
  Proof.
    intros H Hin. apply key_count_0 in H. rewrite Forall_forall in H. exact (H _ Hin).
  Qed.

  (* exactly one entry named [name], and it is (k, v): it is also the last one *)
  Lemma key_count_1_last l k v : key_count name l = 1%nat -> In (k, v) l -> key_is name k = true ->
    last_entry name l = Some v.
  Proof.
    induction l as [|[k' v'] l IH]; [intros _ []|]. rewrite key_count_cons, last_entry_cons.
    intros Hc [E|Hin] Hk.
    - injection E as -> ->. rewrite Hk in Hc.
      rewrite (nonkey_last l) by (apply key_count_0; lia). now rewrite Hk.
    - destruct (key_is name k') eqn:Ek'.
      + exfalso. assert (H0 : key_count name l = 0%nat) by lia.
        rewrite (key_count_0_in _ _ _ H0 Hin) in Hk. discriminate.
      + now rewrite (IH Hc Hin Hk).
  Qed.

  (* ... and every entry named [name] holds the same value *)
  Lemma key_count_1_unique l k v k' v' : key_count name l = 1%nat ->
    In (k, v) l -> key_is name k = true -> In (k', v') l -> key_is name k' = true -> v' = v.
  Proof.
    intros Hc Hin Hk Hin' Hk'. revert Hc Hin Hin'.
    induction l as [|[k2 v2] l IH]; [intros _ []|].
    rewrite key_count_cons. intros Hc [E|Hin] [E'|Hin'].
    - injection E as -> ->. now injection E' as _ <-.
    - injection E as -> ->. rewrite Hk in Hc. exfalso.
      assert (H0 : key_count name l = 0%nat) by lia.
      rewrite (key_count_0_in _ _ _ H0 Hin') in Hk'. discriminate.
    - injection E' as -> ->. rewrite Hk' in Hc. exfalso.
      assert (H0 : key_count name l = 0%nat) by lia.
      rewrite (key_count_0_in _ _ _ H0 Hin) in Hk. discriminate.
    - destruct (key_is name k2).
      + exfalso. assert (H0 : key_count name l = 0%nat) by lia.
        rewrite (key_count_0_in _ _ _ H0 Hin) in Hk. discriminate.
      + apply IH; auto.
  Qed.

  Lemma key_is_eqb kv k : key_bytes kv = Some k -> bytes_eqb k name = key_is name kv.
  Proof. intros H. unfold key_is. now rewrite H. Qed.

  (* a key spells one name only *)
  Lemma key_is_excl other k : key_is name k = true -> key_is other k = bytes_eqb name other.
  Proof.
    unfold key_is. destruct (key_bytes k) as [b|]; [|discriminate].
    intros H. apply bytes_eqb_eq in H. now subst.
  Qed.

  Lemma key_is_inv k : key_is name k = true -> k = VStr name \/ k = VBin name.
  Proof.
    unfold key_is. destruct k; cbn [key_bytes]; try discriminate;
      intros H; apply bytes_eqb_eq in H; subst; auto.
  Qed.
End Key.

(* ================================================================== *)
(* The "ack" entries of a map                                          *)
(* ================================================================== *)

Definition nonack : value * value -> Prop := nonkey k_ack.

(* every "ack" entry holds a string *)
Definition ack_vals_str (l : list (value * value)) : Prop :=
  Forall (fun kv => is_ack_key (fst kv) = true -> exists s, snd kv = VStr s) l.

(* the keys the generated decoder can read on path p *)
Definition keys_rd (p : path) (l : list (value * value)) : Prop :=
  Forall (fun kv => exists k, key_bytes (fst kv) = Some k /\ (p = Stream -> k <> [])) l.

Lemma last_ack_cons k v l : last_ack ((k, v) :: l) =
  match last_ack l with Some x => Some x | None => if is_ack_key k then Some v else None end.
Proof. reflexivity. Qed.

Lemma ack_fold_cons k v l a : ack_fold ((k, v) :: l) a =
  ack_fold l (if is_ack_key k then match v with VStr s => s | _ => a end else a).
Proof. reflexivity. Qed.

Lemma last_ack_none l : last_ack l = None -> Forall nonack l.
Proof. exact (last_entry_none k_ack l). Qed.

Lemma last_ack_some l v : last_ack l = Some v ->
  exists l1 k l2, l = l1 ++ (k, v) :: l2 /\ is_ack_key k = true /\ Forall nonack l2.
Proof. exact (last_entry_some k_ack l v). Qed.

Lemma nonack_last l : Forall nonack l -> last_ack l = None.
Proof. exact (nonkey_last k_ack l). Qed.

Lemma last_ack_app_some l1 k v l2 : is_ack_key k = true -> Forall nonack l2 ->
  last_ack (l1 ++ (k, v) :: l2) = Some v.
Proof. exact (last_entry_app_some k_ack l1 k v l2). Qed.

(* the field after the loop is the string of the last "ack" entry, or untouched *)
Lemma ack_fold_last l : ack_vals_str l -> forall a0,
  match last_ack l with
  | None => ack_fold l a0 = a0
  | Some v => v = VStr (ack_fold l a0)
  end.
Proof.
  induction 1 as [|[k v] l Hk _ IH]; intros a0; [reflexivity|].
  rewrite last_ack_cons, ack_fold_cons. cbn [fst snd] in Hk.
  specialize (IH (if is_ack_key k then match v with VStr s => s | _ => a0 end else a0)).
  destruct (last_ack l) as [x|]; [exact IH|].
  destruct (is_ack_key k).
  - destruct (Hk eq_refl) as (s & ->). now rewrite IH.
  - exact IH.
Qed.

(* exactly one "ack" entry, and it is (k, v): it is also the last one *)
Lemma ack_count_1_last l k v : ack_count l = 1%nat -> In (k, v) l -> is_ack_key k = true ->
  last_ack l = Some v.
Proof. exact (key_count_1_last k_ack l k v). Qed.

(* ================================================================== *)
(* E1. completeness                                                    *)
(* ================================================================== *)

(* an entry that is not an "ack" entry is skipped: on the Stream path this needs an
   ext32-free encoding (flag s of [pairs]) *)
Definition skip_ok (p : path) (s : bool) (l : list (value * value)) : Prop :=
  Forall (fun kv => is_ack_key (fst kv) = false -> p = Stream -> s = true) l.

Lemma is_ack_key_eqb kv k : key_bytes kv = Some k -> bytes_eqb k k_ack = is_ack_key kv.
Proof. exact (key_is_eqb k_ack kv k). Qed.

Lemma U_ack_loop_complete p s bs l r : pairs s bs l r ->
  forall a0 F, keys_rd p l -> ack_vals_str l -> skip_ok p s l -> (List.length l < F)%nat ->
  U_ack_loop p F (len l) bs a0 = Ok (ack_fold l a0, r).
Proof.
  induction 1 as [bs|bs k r1 v r2 l r' Hk Hv _ IH]; intros a0 F Hkeys Hvals Hskip HF;
    (destruct F as [|F]; [lia|]); rewrite U_ack_loop_S.
  - reflexivity.
  - cbn [List.length] in HF. rewrite len_cons'.
    destruct (N.eqb_spec (len l + 1) 0); [lia|].
    replace (len l + 1 - 1) with (len l) by lia.
    inversion Hkeys as [|? ? (kb & Hkb & Hne) Hkeys']; subst.
    inversion Hvals as [|? ? Hv1 Hvals']; subst.
    inversion Hskip as [|? ? Hs1 Hskip']; subst.
    cbn [fst snd] in *.
    rewrite (item_key_rd p _ _ _ _ _ Hk Hkb Hne). red_bind.
    rewrite (is_ack_key_eqb _ _ Hkb), ack_fold_cons.
    destruct (is_ack_key k).
    + destruct (Hv1 eq_refl) as (sv & ->).
      rewrite (proj1 (item_str _ _ _ _ Hv)). red_bind.
      apply IH; auto. lia.
    + rewrite (item_skip_path p _ _ _ _ _ Hv (Hs1 eq_refl) (le_n _)). red_bind.
      apply IH; auto. lia.
Qed.

(* E1, general form: str or bin keys, any number of "ack" entries (each a string), both
   paths; the result is what the LAST "ack" entry holds *)
Theorem U_ack_complete_gen : forall p s bs l r,
  item s bs (VMap l) r -> keys_rd p l -> ack_vals_str l -> skip_ok p s l ->
  U_ack p bs = Ok (ack_fold l [], r).
Proof.
  intros p s bs l r Hi Hkeys Hvals Hskip.
  destruct (item_map_inv _ _ _ _ Hi) as (r0 & Eh & Hp).
  unfold U_ack. rewrite Eh. red_bind.
  pose proof (pairs_length _ _ _ _ Hp) as L.
  apply (U_ack_loop_complete p s _ _ _ Hp); auto. unfold fuel_for. lia.
Qed.

(* the keys are strings, non-empty where the Stream path reads them *)
Definition str_keys (p : path) (l : list (value * value)) : Prop :=
  Forall (fun kv => exists k, fst kv = VStr k /\ (p = Stream -> k <> [])) l.

Lemma str_keys_rd p l : str_keys p l -> keys_rd p l.
Proof.
  apply Forall_impl. intros [k v] (kb & E & Hne). cbn [fst] in *. subst k.
  exists kb. split; [reflexivity|exact Hne].
Qed.

Lemma one_ack_vals_str l k a : ack_count l = 1%nat -> In (k, VStr a) l -> is_ack_key k = true ->
  ack_vals_str l.
Proof.
  intros Hc Hin Hk. apply Forall_forall. intros [k' v'] Hin' Hk'. cbn [fst snd] in *.
  exists a. exact (key_count_1_unique k_ack l k (VStr a) k' v' Hc Hin Hk Hin' Hk').
Qed.

(* E1 as asked *)
Theorem U_ack_complete : forall p f bs l r a,
  parse f bs = Some (VMap l, r) ->
  str_keys p l ->
  ack_count l = 1%nat -> In (VStr (str "ack"), VStr a) l ->
  (p = Stream -> nx f bs = true) ->
  U_ack p bs = Ok (a, r).
Proof.
  intros p f bs l r a H Hkeys Hc Hin Hnx.
  assert (Hk : is_ack_key (VStr (str "ack")) = true) by reflexivity.
  pose proof (one_ack_vals_str _ _ _ Hc Hin Hk) as Hvals.
  assert (Hi : item (match p with Slice => false | Stream => true end) bs (VMap l) r).
  { exists f. split; [exact H|]. destruct p; [reflexivity|]. exact (Hnx eq_refl). }
  rewrite (U_ack_complete_gen p _ bs l r Hi (str_keys_rd _ _ Hkeys) Hvals).
  - pose proof (ack_fold_last l Hvals []) as Hl.
    rewrite (ack_count_1_last _ _ _ Hc Hin Hk) in Hl. now injection Hl as <-.
  - apply Forall_forall. intros kv _ _ ->. reflexivity.
Qed.

(* the same with the specification's own lookup (first "ack" entry = the only one) *)
Lemma lookup_opt_in k l v : lookup_opt k l = Some v -> In (VStr k, v) l.
Proof.
  unfold lookup_opt. destruct (find _ l) as [[k' v']|] eqn:E; [|discriminate].
  cbn [snd]. intros [= ->]. apply find_some in E as [Hin Hk]. cbn [fst] in Hk.
  destruct k'; try discriminate. apply bytes_eqb_eq in Hk. now subst.
Qed.

Corollary U_ack_complete_lookup : forall p f bs l r a,
  parse f bs = Some (VMap l, r) -> str_keys p l ->
  ack_count l = 1%nat -> lookup_opt (str "ack") l = Some (VStr a) ->
  (p = Stream -> nx f bs = true) ->
  U_ack p bs = Ok (a, r).
Proof.
  intros p f bs l r a H Hkeys Hc Hl Hnx. eapply U_ack_complete; eauto. now apply lookup_opt_in.
Qed.

Print Assumptions U_ack_complete_gen.
Print Assumptions U_ack_complete.
Print Assumptions U_ack_complete_lookup.

(* ================================================================== *)
(* E2. soundness                                                       *)
(* ================================================================== *)

Lemma U_ack_loop_sound p : forall F cnt bs a0 a r,
  U_ack_loop p F cnt bs a0 = Ok (a, r) ->
  exists l, len l = cnt /\ pairs false bs l r /\ keys_rd p l /\ ack_vals_str l /\ a = ack_fold l a0.
Proof.
  induction F as [|F IH]; intros cnt bs a0 a r H; [discriminate|].
  rewrite U_ack_loop_S in H. destruct (N.eqb_spec cnt 0) as [->|Hc].
  - injection H as <- <-. exists []. repeat split; constructor.
  - apply bind_ok in H as ([k r1] & Ek & H).
    destruct (rd_field_key_sound _ _ _ _ Ek) as (kv & Hik & Hkb & Hne).
    rewrite (is_ack_key_eqb _ _ Hkb) in H.
    destruct (is_ack_key kv) eqn:Ea.
    + apply bind_ok in H as ([v r2] & Ev & H).
      apply IH in H as (l & Hl & Hp & Hkeys & Hvals & ->).
      exists ((kv, VStr v) :: l). rewrite len_cons', ack_fold_cons, Ea. repeat split.
      * lia.
      * econstructor; [exact Hik|exact (rd_str_item _ _ _ Ev)|exact Hp].
      * constructor; [exists k; auto|exact Hkeys].
      * constructor; [intros _; cbn [snd]; eauto|exact Hvals].
    + apply bind_ok in H as (r2 & Ev & H).
      apply IH in H as (l & Hl & Hp & Hkeys & Hvals & ->).
      destruct (skip_item _ _ _ _ Ev) as (v & Hiv).
      exists ((kv, v) :: l). rewrite len_cons', ack_fold_cons, Ea. repeat split.
      * lia.
      * econstructor; [exact Hik|exact Hiv|exact Hp].
      * constructor; [exists k; auto|exact Hkeys].
      * constructor; [cbn [fst]; congruence|exact Hvals].
Qed.

(* E2, full form: the input is ONE map of the specification; its keys are str or bin
   objects; every "ack" entry holds a string; the result is the string of the last "ack"
   entry, the empty string when there is none *)
Theorem U_ack_sound_full : forall p bs a r, U_ack p bs = Ok (a, r) ->
  exists f l, parse f bs = Some (VMap l, r) /\ keys_rd p l /\ ack_vals_str l /\
    match last_ack l with
    | None => a = []
    | Some v => v = VStr a
    end.
Proof.
  intros p bs a r H. unfold U_ack in H. apply bind_ok in H as ([c r0] & Eh & H).
  apply U_ack_loop_sound in H as (l & Hl & Hp & Hkeys & Hvals & ->). subst c.
  destruct (map_of_pairs _ _ _ _ _ Eh Hp) as (f & Hf).
  exists f, l. repeat split; auto.
  pose proof (ack_fold_last l Hvals []) as L. destruct (last_ack l); auto.
Qed.

(* E2 as asked: either no key spells "ack" and the result is empty, or the LAST entry whose
   key spells "ack" (as a str or bin key) has the value VStr a *)
Theorem U_ack_sound : forall p bs a r, U_ack p bs = Ok (a, r) ->
  exists f l, parse f bs = Some (VMap l, r) /\
    ((Forall nonack l /\ a = []) \/
     (exists l1 k l2, l = l1 ++ (k, VStr a) :: l2 /\ is_ack_key k = true /\ Forall nonack l2)).
Proof.
  intros p bs a r H. destruct (U_ack_sound_full _ _ _ _ H) as (f & l & Hf & _ & _ & Hl).
  exists f, l. split; [exact Hf|].
  destruct (last_ack l) as [v|] eqn:E.
  - right. subst v. now apply last_ack_some.
  - left. split; [now apply last_ack_none|exact Hl].
Qed.

Lemma is_ack_key_inv k : is_ack_key k = true -> k = VStr (str "ack") \/ k = VBin (str "ack").
Proof. exact (key_is_inv k_ack k). Qed.

(* a non-empty result is always the string value of an "ack" entry of the response map *)
Corollary U_ack_nonempty_is_ack_entry : forall p bs a r, U_ack p bs = Ok (a, r) -> a <> [] ->
  exists f l k, parse f bs = Some (VMap l, r) /\ In (k, VStr a) l /\
    (k = VStr (str "ack") \/ k = VBin (str "ack")).
Proof.
  intros p bs a r H Ha. destruct (U_ack_sound _ _ _ _ H) as (f & l & Hf & [[_ E]|(l1 & k & l2 & -> & Hk & _)]).
  - contradiction.
  - exists f, (l1 ++ (k, VStr a) :: l2), k. repeat split; auto.
    + apply in_or_app. right. left. reflexivity.
    + now apply is_ack_key_inv.
Qed.

(* the decoder never fails half-way through something that is not a value: on success the
   consumed prefix is determined by the specification alone (parse1 agrees) *)
Corollary U_ack_sound_parse1 : forall p bs a r, U_ack p bs = Ok (a, r) ->
  exists l, parse1 bs = Some (VMap l, r) /\
    match last_ack l with None => a = [] | Some v => v = VStr a end.
Proof.
  intros p bs a r H. destruct (U_ack_sound_full _ _ _ _ H) as (f & l & Hf & _ & _ & Hl).
  exists l. split; [exact (parse1_complete _ _ _ Hf)|exact Hl].
Qed.

Print Assumptions U_ack_sound_full.
Print Assumptions U_ack_sound.
Print Assumptions U_ack_nonempty_is_ack_entry.
Print Assumptions U_ack_sound_parse1.

(* ================================================================== *)
(* E3. the conforming one-entry acknowledgement                        *)
(* ================================================================== *)

Lemma shape_ack_inv v a : shape_ack v = Some a -> v = VMap [(VStr (str "ack"), VStr a)].
Proof.
  unfold shape_ack. destruct v as [| | | | | | | |l|]; try discriminate.
  destruct l as [|[k w] [|? ?]]; try discriminate;
    destruct k; try discriminate; destruct w; try discriminate.
  destruct (bytes_eqb s (str "ack")) eqn:E; [|discriminate]. apply bytes_eqb_eq in E. subst s.
  now intros [= ->].
Qed.

(* {"ack": a} in any legal encoding (fixmap/map16/map32 header, fixstr/str8/16/32 key and
   value), followed by anything: decoded to a on both paths.  Nothing is skipped, so no
   side condition on the encoding is needed *)
Theorem shape_ack_decodes : forall p bs v a r,
  parse1 bs = Some (v, r) -> shape_ack v = Some a -> U_ack p bs = Ok (a, r).
Proof.
  intros p bs v a r H Hs. apply shape_ack_inv in Hs. subst v.
  assert (Hi : item false bs (VMap [(VStr (str "ack"), VStr a)]) r) by (eapply parse_item; exact H).
  rewrite (U_ack_complete_gen p false bs _ r Hi).
  - reflexivity.
  - constructor; [|constructor]. exists (str "ack"). split; [reflexivity|discriminate].
  - constructor; [|constructor]. intros _. cbn [snd]. eauto.
  - constructor; [|constructor]. cbn [fst]. discriminate.
Qed.

(* the converse: what U_ack says about a response that is a map of exactly one entry *)
Theorem U_ack_single_shape : forall p f bs a r k v,
  U_ack p bs = Ok (a, r) -> parse f bs = Some (VMap [(k, v)], r) ->
  (is_ack_key k = true /\ v = VStr a) \/ (is_ack_key k = false /\ a = []).
Proof.
  intros p f bs a r k v H Hp. destruct (U_ack_sound_full _ _ _ _ H) as (f' & l & Hf & _ & _ & Hl).
  pose proof (parse_det _ _ _ _ _ Hf Hp) as E. injection E as ->.
  unfold last_ack in Hl. cbn [last_entry] in Hl. fold (is_ack_key k) in Hl.
  destruct (is_ack_key k); auto.
Qed.

(* ... so a non-empty result on a one-entry map with a STRING key is the conforming ack *)
Corollary U_ack_single_shape_ack : forall p f bs a r k v,
  U_ack p bs = Ok (a, r) -> parse f bs = Some (VMap [(VStr k, v)], r) -> a <> [] ->
  shape_ack (VMap [(VStr k, v)]) = Some a.
Proof.
  intros p f bs a r k v H Hp Ha.
  destruct (U_ack_single_shape _ _ _ _ _ _ _ H Hp) as [[Hk ->]|[_ ->]]; [|contradiction].
  unfold is_ack_key, key_is in Hk. cbn [key_bytes] in Hk. unfold shape_ack.
  change k_ack with (str "ack") in Hk. now rewrite Hk.
Qed.

(* exact characterisation on one-entry maps with a string key *)
Corollary U_ack_single_iff : forall p f bs a r k v,
  parse f bs = Some (VMap [(VStr k, v)], r) -> a <> [] ->
  (U_ack p bs = Ok (a, r) <-> shape_ack (VMap [(VStr k, v)]) = Some a).
Proof.
  intros p f bs a r k v Hp Ha. split.
  - intros H. eapply U_ack_single_shape_ack; eauto.
  - intros Hs. eapply shape_ack_decodes; [|exact Hs]. exact (parse1_complete _ _ _ Hp).
Qed.

Print Assumptions shape_ack_decodes.
Print Assumptions U_ack_single_shape.
Print Assumptions U_ack_single_shape_ack.
Print Assumptions U_ack_single_iff.

(* ---------- what the side conditions exclude: concrete inputs ---------- *)

Definition both_ack (bs : bytes) := (parse1 bs, U_ack Slice bs, U_ack Stream bs).

(* a BIN key "ack" is accepted by both paths, although {bin"ack": "x"} is not the ack
   shape of the specification: "U_ack = Ok (a, []) on a one-entry map -> shape_ack" is
   FALSE without the string-key hypothesis *)
Example ack_bin_key :
  both_ack (hx "81c40361636ba178") =
    (Some (VMap [(VBin (str "ack"), VStr (str "x"))], []), Ok (str "x", []), Ok (str "x", [])) /\
  shape_ack (VMap [(VBin (str "ack"), VStr (str "x"))]) = None.
Proof. vm_compute. split; reflexivity. Qed.

(* a one-entry map without an "ack" key is accepted with the empty result (which the
   client never takes for the acknowledgement of a chunk: chunk ids are non-empty) *)
Example ack_absent :
  both_ack (hx "81a17801") = (Some (VMap [(VStr (str "x"), VInt 1)], []), Ok ([], []), Ok ([], [])).
Proof. vm_compute. reflexivity. Qed.

(* duplicates: the LAST "ack" entry wins *)
Example ack_duplicate :
  both_ack (hx "82a361636ba161a361636ba162") =
    (Some (VMap [(VStr (str "ack"), VStr (str "a")); (VStr (str "ack"), VStr (str "b"))], []),
     Ok (str "b", []), Ok (str "b", [])).
Proof. vm_compute. reflexivity. Qed.

(* an "ack" entry that is not a string is an error, wherever it stands *)
Example ack_not_string :
  both_ack (hx "82a361636ba161a361636b01") =
    (Some (VMap [(VStr (str "ack"), VStr (str "a")); (VStr (str "ack"), VInt 1)], []),
     Err EType, Err EType).
Proof. vm_compute. reflexivity. Qed.

(* Stream-path limits: an empty unknown key, an ext32-encoded unknown value *)
Example ack_stream_limits :
  both_ack (hx "82a001a361636ba161") =
    (Some (VMap [(VStr [], VInt 1); (VStr (str "ack"), VStr (str "a"))], []), Ok (str "a", []), Err EShort) /\
  both_ack (hx "82a178c90000000105aaa361636ba161") =
    (Some (VMap [(VStr (str "x"), VExt 5 (hx "aa")); (VStr (str "ack"), VStr (str "a"))], []),
     Ok (str "a", []), Err EShort).
Proof. vm_compute. split; reflexivity. Qed.

(* non-vacuity of E1: map32 header, unknown keys before and after (an array, a nested map,
   an ext8), str16 key, str32 value *)
Definition odd_ack : bytes :=
  hx "df00000004" ++ hx "a17893010203" ++ hx "da000361636b" ++ hx "db000000026964" ++
  hx "d9017981a17ac0" ++ hx "a177c7010700".

Example odd_ack_spec :
  parse1 odd_ack = Some (VMap [(VStr (str "x"), VArr [VInt 1; VInt 2; VInt 3]);
                               (VStr (str "ack"), VStr (str "id"));
                               (VStr (str "y"), VMap [(VStr (str "z"), VNil)]);
                               (VStr (str "w"), VExt 7 (hx "00"))], []).
Proof. vm_compute. reflexivity. Qed.

Example odd_ack_by_theorem : forall p, U_ack p odd_ack = Ok (str "id", []).
Proof.
  intros p. eapply (U_ack_complete p _ odd_ack _ [] (str "id") odd_ack_spec).
  - repeat constructor; eexists; (split; [reflexivity|discriminate]).
  - reflexivity.
  - right. left. reflexivity.
  - intros _. vm_compute. reflexivity.
Qed.

(* ================================================================== *)
(* E4. the handshake responses                                         *)
(* ================================================================== *)

Lemma rd_bool_kind b r : rd_bool (b :: r) =
  match kind_of (b2n b) with KBool bb => Ok (bb, r) | _ => Err EType end.
Proof. destruct b; reflexivity. Qed.

Lemma item_bool s bs x r : item s bs (VBool x) r -> rd_bool bs = Ok (x, r).
Proof.
  intros Hi. destruct (item_kind_inv _ _ _ _ Hi) as (f & b & r0 & -> & H).
  rewrite rd_bool_kind.
  destruct (kind_of (b2n b)); inv_kind H; try discriminate;
    try (apply parse_arr_is_arr in H as [? ?]; discriminate);
    try (apply parse_map_is_map in H as [? ?]; discriminate).
  now injection H as <- <-.
Qed.

(* from a sequence of items back to the specification parser *)
Lemma items_parse_arr s bs l r : items s bs l r ->
  exists F, forall acc, parse_arr F (len l) bs acc = Some (VArr (rev acc ++ l), r).
Proof.
  induction 1 as [bs|bs v r1 l r' (f1 & H1 & _) _ (F & HF)].
  - exists 1%nat. intros acc. rewrite app_nil_r, rev_alt. reflexivity.
  - exists (S (Nat.max f1 F)). intros acc. rewrite parse_arr_S, len_cons'.
    destruct (N.eqb_spec (len l + 1) 0); [lia|].
    rewrite (parse_fuel_mono f1 (Nat.max f1 F) _ _ H1) by lia. cbn [obind].
    replace (len l + 1 - 1) with (len l) by lia.
    rewrite (parse_arr_fuel_mono F (Nat.max f1 F) _ _ _ _ (HF (v :: acc))) by lia.
    cbn [rev]. now rewrite <- app_assoc.
Qed.

Lemma arr_of_items s bs r0 l r : rd_arr_hdr bs = Ok (len l, r0) -> items s r0 l r ->
  exists f, parse f bs = Some (VArr l, r).
Proof.
  intros Eh Hp. destruct (items_parse_arr _ _ _ _ Hp) as (F & HF).
  exists (S F). rewrite (rd_arr_hdr_spec _ _ _ Eh). exact (HF []).
Qed.

Lemma rd_bin_item bs s r : rd_bin bs = Ok (s, r) -> item false bs (VBin s) r.
Proof. intros H. exists 1%nat. split; [exact (rd_bin_spec _ _ _ H 0%nat)|reflexivity]. Qed.
Lemma rd_bool_item bs x r : rd_bool bs = Ok (x, r) -> item false bs (VBool x) r.
Proof. intros H. exists 1%nat. split; [exact (rd_bool_spec _ _ _ H 0%nat)|reflexivity]. Qed.
Lemma rd_nil_item bs r : rd_nil bs = Ok r -> item false bs VNil r.
Proof. intros H. exists 1%nat. split; [exact (rd_nil_spec _ _ H 0%nat)|reflexivity]. Qed.

(* ---------- PONG ---------- *)

Definition pong_value (po : pong) : value :=
  VArr [VStr (po_type po); VBool (po_auth po); VStr (po_reason po); VStr (po_host po); VStr (po_digest po)].

Theorem U_pong_complete_gen : forall p f bs ty au reason host digest r,
  parse f bs = Some (VArr [VStr ty; VBool au; VStr reason; VStr host; VStr digest], r) ->
  U_pong p bs = Ok ({| po_type := ty; po_auth := au; po_reason := reason; po_host := host;
                       po_digest := digest |}, r).
Proof.
  intros p f bs ty au reason host digest r H. apply parse_item in H.
  destruct (item_arr_inv _ _ _ _ H) as (r0 & Eh & Hit).
  apply items_cons_inv in Hit as (r1 & H1 & Hit). apply items_cons_inv in Hit as (r2 & H2 & Hit).
  apply items_cons_inv in Hit as (r3 & H3 & Hit). apply items_cons_inv in Hit as (r4 & H4 & Hit).
  apply items_cons_inv in Hit as (r5 & H5 & Hit). apply items_nil_inv in Hit. subst r5.
  unfold U_pong. rewrite Eh. red_bind.
  change (negb (len [VStr ty; VBool au; VStr reason; VStr host; VStr digest] =? 5)) with false. cbv iota.
  rewrite (proj1 (item_str _ _ _ _ H1)). red_bind.
  rewrite (item_bool _ _ _ _ H2). red_bind.
  rewrite (proj1 (item_str _ _ _ _ H3)). red_bind.
  rewrite (proj1 (item_str _ _ _ _ H4)). red_bind.
  rewrite (proj1 (item_str _ _ _ _ H5)). reflexivity.
Qed.

(* E4 as asked: any legal encoding of the five-element array (fixarray/array16/array32
   header, fixstr/str8/16/32 strings), both paths, any trailing input *)
Theorem U_pong_complete : forall p bs ty au reason host digest r,
  parse1 bs = Some (VArr [VStr ty; VBool au; VStr reason; VStr host; VStr digest], r) ->
  U_pong p bs = Ok ({| po_type := ty; po_auth := au; po_reason := reason; po_host := host;
                       po_digest := digest |}, r).
Proof. intros p bs. apply U_pong_complete_gen. Qed.

(* soundness: what U_pong accepts is exactly such an array *)
Theorem U_pong_sound : forall p bs po r, U_pong p bs = Ok (po, r) ->
  exists f, parse f bs = Some (pong_value po, r).
Proof.
  intros p bs po r H. unfold U_pong in H. dec H.
  match goal with A : negb (_ =? _) = false |- _ => apply negb_eqb_false in A as -> end.
  eapply (arr_of_items false); [eassumption|].
  repeat (econstructor; [first [eapply rd_str_item; eassumption | eapply rd_bool_item; eassumption]|]).
  constructor.
Qed.

Corollary U_pong_iff : forall p bs po r,
  U_pong p bs = Ok (po, r) <-> parse1 bs = Some (pong_value po, r).
Proof.
  intros p bs po r. split.
  - intros H. destruct (U_pong_sound _ _ _ _ H) as (f & Hf). exact (parse1_complete _ _ _ Hf).
  - intros H. destruct po. eapply U_pong_complete. exact H.
Qed.

Print Assumptions U_pong_complete_gen.
Print Assumptions U_pong_complete.
Print Assumptions U_pong_sound.
Print Assumptions U_pong_iff.

(* ---------- PING (the peer's side; same style) ---------- *)

Definition ping_value (pg : ping) : value :=
  VArr [VStr (pg_type pg); VStr (pg_host pg); VBin (pg_salt pg); VStr (pg_digest pg);
        VStr (pg_user pg); VStr (pg_pass pg)].

Theorem U_ping_complete : forall p f bs pg r,
  parse f bs = Some (ping_value pg, r) -> U_ping p bs = Ok (pg, r).
Proof.
  intros p f bs [ty ho sa di us pw] r H. unfold ping_value in H. cbn in H. apply parse_item in H.
  destruct (item_arr_inv _ _ _ _ H) as (r0 & Eh & Hit).
  apply items_cons_inv in Hit as (r1 & H1 & Hit). apply items_cons_inv in Hit as (r2 & H2 & Hit).
  apply items_cons_inv in Hit as (r3 & H3 & Hit). apply items_cons_inv in Hit as (r4 & H4 & Hit).
  apply items_cons_inv in Hit as (r5 & H5 & Hit). apply items_cons_inv in Hit as (r6 & H6 & Hit).
  apply items_nil_inv in Hit. subst r6.
  unfold U_ping. rewrite Eh. red_bind.
  change (negb (len [VStr ty; VStr ho; VBin sa; VStr di; VStr us; VStr pw] =? 6)) with false. cbv iota.
  rewrite (proj1 (item_str _ _ _ _ H1)). red_bind.
  rewrite (proj1 (item_str _ _ _ _ H2)). red_bind.
  rewrite (item_bin _ _ _ _ H3). red_bind.
  rewrite (proj1 (item_str _ _ _ _ H4)). red_bind.
  rewrite (proj1 (item_str _ _ _ _ H5)). red_bind.
  rewrite (proj1 (item_str _ _ _ _ H6)). reflexivity.
Qed.

Theorem U_ping_sound : forall p bs pg r, U_ping p bs = Ok (pg, r) ->
  exists f, parse f bs = Some (ping_value pg, r).
Proof.
  intros p bs pg r H. unfold U_ping in H. dec H.
  match goal with A : negb (_ =? _) = false |- _ => apply negb_eqb_false in A as -> end.
  eapply (arr_of_items false); [eassumption|].
  repeat (econstructor; [first [eapply rd_str_item; eassumption | eapply rd_bin_item; eassumption]|]).
  constructor.
Qed.

Print Assumptions U_ping_complete.
Print Assumptions U_ping_sound.

(* ---------- HELO ---------- *)

Definition kn : bytes := str "nonce".
Definition ka : bytes := str "auth".
Definition kk : bytes := str "keepalive".

Lemma helo_fold_cons k v l o : helo_fold ((k, v) :: l) o =
  helo_fold l
    (if key_is kn k then
       match v with VBin b => {| h_nonce := b; h_auth := h_auth o; h_keepalive := h_keepalive o |} | _ => o end
     else if key_is ka k then
       match v with VBin b => {| h_nonce := h_nonce o; h_auth := b; h_keepalive := h_keepalive o |} | _ => o end
     else if key_is kk k then
       match v with VBool b => {| h_nonce := h_nonce o; h_auth := h_auth o; h_keepalive := b |} | _ => o end
     else o).
Proof. reflexivity. Qed.

(* the known keys hold values of the type the generated decoder reads *)
Definition helo_vals_ok (l : list (value * value)) : Prop :=
  Forall (fun kv =>
    (key_is kn (fst kv) = true -> exists b, snd kv = VBin b) /\
    (key_is ka (fst kv) = true -> exists b, snd kv = VBin b) /\
    (key_is kk (fst kv) = true -> exists b, snd kv = VBool b)) l.

(* unknown keys are skipped: Stream needs an ext32-free encoding *)
Definition helo_skip_ok (p : path) (s : bool) (l : list (value * value)) : Prop :=
  Forall (fun kv => key_is kn (fst kv) = false -> key_is ka (fst kv) = false ->
                    key_is kk (fst kv) = false -> p = Stream -> s = true) l.

Lemma U_helo_opts_loop_complete p s bs l r : pairs s bs l r ->
  forall o F, keys_rd p l -> helo_vals_ok l -> helo_skip_ok p s l -> (List.length l < F)%nat ->
  U_helo_opts_loop p F (len l) bs o = Ok (helo_fold l o, r).
Proof.
  induction 1 as [bs|bs k r1 v r2 l r' Hk Hv _ IH]; intros o F Hkeys Hvals Hskip HF;
    (destruct F as [|F]; [lia|]); rewrite U_helo_opts_loop_S.
  - reflexivity.
  - cbn [List.length] in HF. rewrite len_cons'.
    destruct (N.eqb_spec (len l + 1) 0); [lia|].
    replace (len l + 1 - 1) with (len l) by lia.
    inversion Hkeys as [|? ? (kb & Hkb & Hne) Hkeys']; subst.
    inversion Hvals as [|? ? (Hv1 & Hv2 & Hv3) Hvals']; subst.
    inversion Hskip as [|? ? Hs1 Hskip']; subst.
    cbn [fst snd] in *.
    rewrite (item_key_rd p _ _ _ _ _ Hk Hkb Hne). red_bind.
    change k_nonce with kn. change k_auth with ka. change k_keepalive with kk.
    rewrite (key_is_eqb kn _ _ Hkb), (key_is_eqb ka _ _ Hkb), (key_is_eqb kk _ _ Hkb), helo_fold_cons.
    destruct (key_is kn k).
    { destruct (Hv1 eq_refl) as (b & ->). rewrite (item_bin _ _ _ _ Hv). red_bind. apply IH; auto. lia. }
    destruct (key_is ka k).
    { destruct (Hv2 eq_refl) as (b & ->). rewrite (item_bin _ _ _ _ Hv). red_bind. apply IH; auto. lia. }
    destruct (key_is kk k).
    { destruct (Hv3 eq_refl) as (b & ->). rewrite (item_bool _ _ _ _ Hv). red_bind. apply IH; auto. lia. }
    rewrite (item_skip_path p _ _ _ _ _ Hv (Hs1 eq_refl eq_refl eq_refl) (le_n _)). red_bind.
    apply IH; auto. lia.
Qed.

(* general form: str or bin keys in any order, repeated keys (the last one wins), unknown
   keys skipped *)
Theorem U_helo_complete_gen : forall p s bs ty l r,
  item s bs (VArr [VStr ty; VMap l]) r -> keys_rd p l -> helo_vals_ok l -> helo_skip_ok p s l ->
  U_helo p bs = Ok ({| hl_type := ty; hl_opts := Some (helo_fold l zero_helo_opts) |}, r).
Proof.
  intros p s bs ty l r Hi Hkeys Hvals Hskip.
  destruct (item_arr_inv _ _ _ _ Hi) as (r0 & Eh & Hit).
  apply items_cons_inv in Hit as (r1 & H1 & Hit). apply items_cons_inv in Hit as (r2 & H2 & Hit).
  apply items_nil_inv in Hit. subst r2.
  unfold U_helo. rewrite Eh. red_bind.
  change (negb (len [VStr ty; VMap l] =? 2)) with false. cbv iota.
  rewrite (proj1 (item_str _ _ _ _ H1)). red_bind.
  rewrite (item_not_nil _ _ _ _ H2) by discriminate.
  destruct (item_map_inv _ _ _ _ H2) as (r3 & Em & Hp). rewrite Em. red_bind.
  pose proof (pairs_length _ _ _ _ Hp) as L.
  rewrite (U_helo_opts_loop_complete p s _ _ _ Hp zero_helo_opts (fuel_for r3)); auto.
  unfold fuel_for. lia.
Qed.

(* nil options: decoded (the client then refuses to go on, D10) *)
Theorem U_helo_complete_nil : forall p f bs ty r,
  parse f bs = Some (VArr [VStr ty; VNil], r) ->
  U_helo p bs = Ok ({| hl_type := ty; hl_opts := None |}, r).
Proof.
  intros p f bs ty r H. apply parse_item in H.
  destruct (item_arr_inv _ _ _ _ H) as (r0 & Eh & Hit).
  apply items_cons_inv in Hit as (r1 & H1 & Hit). apply items_cons_inv in Hit as (r2 & H2 & Hit).
  apply items_nil_inv in Hit. subst r2.
  unfold U_helo. rewrite Eh. red_bind.
  change (negb (len [VStr ty; VNil] =? 2)) with false. cbv iota.
  rewrite (proj1 (item_str _ _ _ _ H1)). red_bind.
  destruct (item_nil _ _ _ H2) as [-> ->]. reflexivity.
Qed.

(* field by field: the value of the last entry of that name, or the field untouched *)
Lemma helo_fold_nonce l : helo_vals_ok l -> forall o,
  match last_entry kn l with
  | None => h_nonce (helo_fold l o) = h_nonce o
  | Some v => v = VBin (h_nonce (helo_fold l o))
  end.
Proof.
  induction 1 as [|[k v] l (H1 & H2 & H3) _ IH]; intros o; [reflexivity|].
  rewrite last_entry_cons, helo_fold_cons. cbn [fst snd] in *.
  match goal with |- context[helo_fold l ?o'] => specialize (IH o'); set (o1 := o') in * end.
  destruct (last_entry kn l) as [x|]; [exact IH|]. rewrite IH. subst o1.
  destruct (key_is kn k).
  - destruct (H1 eq_refl) as (b & ->). reflexivity.
  - destruct (key_is ka k); [destruct (H2 eq_refl) as (b & ->); reflexivity|].
    destruct (key_is kk k); [destruct (H3 eq_refl) as (b & ->); reflexivity|reflexivity].
Qed.

Lemma helo_fold_auth l : helo_vals_ok l -> forall o,
  match last_entry ka l with
  | None => h_auth (helo_fold l o) = h_auth o
  | Some v => v = VBin (h_auth (helo_fold l o))
  end.
Proof.
  induction 1 as [|[k v] l (H1 & H2 & H3) _ IH]; intros o; [reflexivity|].
  rewrite last_entry_cons, helo_fold_cons. cbn [fst snd] in *.
  match goal with |- context[helo_fold l ?o'] => specialize (IH o'); set (o1 := o') in * end.
  destruct (last_entry ka l) as [x|]; [exact IH|]. rewrite IH. subst o1.
  destruct (key_is kn k) eqn:En.
  - rewrite (key_is_excl kn ka k En). change (bytes_eqb kn ka) with false. cbv iota.
    destruct (H1 eq_refl) as (b & ->). reflexivity.
  - destruct (key_is ka k); [destruct (H2 eq_refl) as (b & ->); reflexivity|].
    destruct (key_is kk k); [destruct (H3 eq_refl) as (b & ->); reflexivity|reflexivity].
Qed.

Lemma helo_fold_keepalive l : helo_vals_ok l -> forall o,
  match last_entry kk l with
  | None => h_keepalive (helo_fold l o) = h_keepalive o
  | Some v => v = VBool (h_keepalive (helo_fold l o))
  end.
Proof.
  induction 1 as [|[k v] l (H1 & H2 & H3) _ IH]; intros o; [reflexivity|].
  rewrite last_entry_cons, helo_fold_cons. cbn [fst snd] in *.
  match goal with |- context[helo_fold l ?o'] => specialize (IH o'); set (o1 := o') in * end.
  destruct (last_entry kk l) as [x|]; [exact IH|]. rewrite IH. subst o1.
  destruct (key_is kn k) eqn:En.
  - rewrite (key_is_excl kn kk k En). change (bytes_eqb kn kk) with false. cbv iota.
    destruct (H1 eq_refl) as (b & ->). reflexivity.
  - destruct (key_is ka k) eqn:Ea.
    + rewrite (key_is_excl ka kk k Ea). change (bytes_eqb ka kk) with false. cbv iota.
      destruct (H2 eq_refl) as (b & ->). reflexivity.
    + destruct (key_is kk k); [destruct (H3 eq_refl) as (b & ->); reflexivity|reflexivity].
Qed.

(* E4 as asked: string keys (non-empty on the Stream path), each of nonce / auth / keepalive
   exactly once, in any order, any number of unknown entries before, between and after
   (on the Stream path in an ext32-free encoding) *)
Theorem U_helo_complete : forall p f bs ty l r n a k,
  parse f bs = Some (VArr [VStr ty; VMap l], r) ->
  str_keys p l ->
  key_count (str "nonce") l = 1%nat -> In (VStr (str "nonce"), VBin n) l ->
  key_count (str "auth") l = 1%nat -> In (VStr (str "auth"), VBin a) l ->
  key_count (str "keepalive") l = 1%nat -> In (VStr (str "keepalive"), VBool k) l ->
  (p = Stream -> nx f bs = true) ->
  U_helo p bs = Ok ({| hl_type := ty;
                       hl_opts := Some {| h_nonce := n; h_auth := a; h_keepalive := k |} |}, r).
Proof.
  intros p f bs ty l r n a k H Hkeys Cn In_n Ca In_a Ck In_k Hnx.
  assert (Hvals : helo_vals_ok l).
  { apply Forall_forall. intros [k' v'] Hin. cbn [fst snd]. repeat split; intros Hk'.
    - exists n. exact (key_count_1_unique kn l _ _ k' v' Cn In_n eq_refl Hin Hk').
    - exists a. exact (key_count_1_unique ka l _ _ k' v' Ca In_a eq_refl Hin Hk').
    - exists k. exact (key_count_1_unique kk l _ _ k' v' Ck In_k eq_refl Hin Hk'). }
  assert (Hi : item (match p with Slice => false | Stream => true end) bs (VArr [VStr ty; VMap l]) r).
  { exists f. split; [exact H|]. destruct p; [reflexivity|]. exact (Hnx eq_refl). }
  rewrite (U_helo_complete_gen p _ bs ty l r Hi (str_keys_rd _ _ Hkeys) Hvals).
  - pose proof (helo_fold_nonce l Hvals zero_helo_opts) as L1.
    pose proof (helo_fold_auth l Hvals zero_helo_opts) as L2.
    pose proof (helo_fold_keepalive l Hvals zero_helo_opts) as L3.
    rewrite (key_count_1_last kn l _ _ Cn In_n eq_refl) in L1.
    rewrite (key_count_1_last ka l _ _ Ca In_a eq_refl) in L2.
    rewrite (key_count_1_last kk l _ _ Ck In_k eq_refl) in L3.
    destruct (helo_fold l zero_helo_opts) as [n' a' k']. cbn [h_nonce h_auth h_keepalive] in *.
    injection L1 as <-. injection L2 as <-. injection L3 as <-. reflexivity.
  - apply Forall_forall. intros kv _ _ _ _ ->. reflexivity.
Qed.

Print Assumptions U_helo_complete_gen.
Print Assumptions U_helo_complete_nil.
Print Assumptions U_helo_complete.

(* ---------- limits and non-vacuity ---------- *)

Definition both_helo (bs : bytes) := (parse1 bs, U_helo Slice bs, U_helo Stream bs).

(* the value types are those of the library's struct: a nonce sent as a STRING is a
   well-formed HELO for the specification (show_helo accepts str or bin) and is rejected
   by the library on both paths *)
Example helo_str_nonce :
  let bs := hx "92a448454c4f83a56e6f6e6365a16ea461757468c400a96b656570616c697665c3" in
  (exists v, parse1 bs = Some (v, []) /\ show_helo v <> None) /\
  U_helo Slice bs = Err EType /\ U_helo Stream bs = Err EType.
Proof. vm_compute. repeat split; try reflexivity. eexists. split; [reflexivity|discriminate]. Qed.

(* array16, str8 type, map16, keys in the order keepalive / unknown / auth / nonce, bin16 and
   bin32 values, an unknown key with a nested array *)
Definition odd_helo : bytes :=
  hx "dc0002" ++ hx "d90448454c4f" ++ hx "de0004" ++
  hx "a96b656570616c697665c3" ++ hx "a17892c001" ++ hx "a461757468c500026162" ++
  hx "a56e6f6e6365c6000000016e".

Example odd_helo_spec :
  parse1 odd_helo = Some (VArr [VStr (str "HELO");
    VMap [(VStr (str "keepalive"), VBool true); (VStr (str "x"), VArr [VNil; VInt 1]);
          (VStr (str "auth"), VBin (str "ab")); (VStr (str "nonce"), VBin (str "n"))]], []).
Proof. vm_compute. reflexivity. Qed.

Example odd_helo_by_theorem : forall p, U_helo p odd_helo =
  Ok ({| hl_type := str "HELO";
         hl_opts := Some {| h_nonce := str "n"; h_auth := str "ab"; h_keepalive := true |} |}, []).
Proof.
  intros p. eapply (U_helo_complete p _ odd_helo _ _ [] _ _ _ odd_helo_spec).
  - repeat constructor; eexists; (split; [reflexivity|discriminate]).
  - reflexivity.
  - right. right. right. left. reflexivity.
  - reflexivity.
  - right. right. left. reflexivity.
  - reflexivity.
  - left. reflexivity.
  - intros _. vm_compute. reflexivity.
Qed.

(* PONG in an odd encoding: array32, str16 / str32 / str8 fields *)
Example odd_pong : forall p,
  U_pong p (hx "dd00000005" ++ hx "da0004504f4e47" ++ hx "c3" ++ hx "db00000000" ++ hx "d90168" ++ hx "a164" ++ hx "ff") =
  Ok ({| po_type := str "PONG"; po_auth := true; po_reason := []; po_host := str "h"; po_digest := str "d" |}, hx "ff").
Proof. intros p. apply U_pong_complete. vm_compute. reflexivity. Qed.
