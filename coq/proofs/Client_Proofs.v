(* The sequential client model refines its reference monitors, for every history, every
   configuration and every environment script (induction over the operation list). *)
From FF Require Import model.Bytes model.Show model.Msgp model.Forward model.Handshake model.Client model.ClientSpec
  proofs.Bytes_Proofs proofs.Handshake_Proofs.
From Coq Require Import Lia.
Open Scope N_scope.

(* the ack decoder never panics *)
Lemma U_ack_loop_np p : forall f cnt bs a, np (U_ack_loop p f cnt bs a).
Proof.
  induction f as [|f IH]; intros; [apply np_err|].
  cbn [U_ack_loop].
  destruct (cnt =? 0); [apply np_ok|].
  apply bind_not_panic; [apply rd_field_key_np|]. intros [k r].
  destruct (bytes_eqb k k_ack).
  - apply bind_not_panic; [apply rd_str_np|]. intros [v r']. apply IH.
  - apply bind_not_panic; [apply skip_np|]. intros r'. apply IH.
Qed.
Theorem U_ack_not_panic p bs : U_ack p bs <> Panic.
Proof.
  unfold U_ack. apply bind_not_panic; [apply rd_map_hdr_np|]. intros [c r]. apply U_ack_loop_np.
Qed.

Section Client.
  Variable H : bytes -> bytes.
  (* the decoders of the model never produce Panic (discharged in props/ with the totality
     theorems of proofs/Total_Proofs.v and proofs/Handshake_Proofs.v) *)
  Hypothesis ack_no_panic : forall bs, U_ack Stream bs <> Panic.
  Hypothesis hs_no_panic : forall chost key salt i1 i2, snd (client_handshake H chost key salt i1 i2) <> Panic.

  Definition has_key (cf : cfg) : bool := match cf_key cf with Some _ => true | None => false end.

  Lemma connect_tp cf : match cf_key cf with None => true | Some _ => false end = negb (has_key cf).
  Proof. unfold has_key. now destruct (cf_key cf). Qed.

  (* client_handshake succeeds only after writing the PING *)
  Lemma handshake_ok_written chost key salt i1 i2 w :
    client_handshake H chost key salt i1 i2 = (w, Ok tt) -> w <> [].
  Proof.
    unfold client_handshake.
    destruct (U_helo Stream i1) as [[h r1]|e|]; try discriminate.
    destruct (hl_opts h) as [o|]; try discriminate.
    destruct (U_pong Stream (r1 ++ i2)) as [[po r2]|e|]; try discriminate.
    destruct (negb (po_auth po)); try discriminate.
    destruct (validate_pong H po key (h_nonce o) salt); try discriminate.
    intros E; inversion E. unfold M_ping. cbn [app]. discriminate.
  Qed.

  Lemma nat_eqb_refl n : Nat.eqb n n = true. Proof. apply Nat.eqb_refl. Qed.

  (* ---------- one call is accepted by the reference monitor, which then holds the
     client's own session state ---------- *)
  Lemma step_monitored cf s o s' e r :
    step H cf s o = (s', e, r) ->
    mon_step (has_key cf) (s_sess s) (kind_of o) e r = Some (s_sess s').
  Proof.
    destruct o as [ok| |ok|salt i1 i2|m wf resp|b wf|]; cbn [step kind_of mon_step].
    - (* Connect *)
      destruct (s_sess s) as [[c tp]|] eqn:Es.
      + intros E; inversion E; subst. now rewrite Es.
      + unfold connect. destruct ok; intros E; inversion E; subst; cbn [s_sess]; now rewrite ?connect_tp.
    - (* Disconnect *)
      unfold disconnect. destruct (s_sess s) as [[c tp]|] eqn:Es; intros E; inversion E; subst; cbn [s_sess].
      + now rewrite nat_eqb_refl.
      + now rewrite Es.
    - (* Reconnect *)
      unfold disconnect, connect. destruct (s_sess s) as [[c tp]|] eqn:Es; destruct ok; intros E; inversion E; subst;
        cbn [s_sess app]; rewrite ?nat_eqb_refl, ?connect_tp; reflexivity.
    - (* Handshake *)
      destruct (s_sess s) as [[c tp]|] eqn:Es.
      + destruct (client_handshake H (cf_host cf) match cf_key cf with Some k => k | None => [] end salt i1 i2) as [w rr] eqn:Eh.
        pose proof (hs_no_panic (cf_host cf) match cf_key cf with Some k => k | None => [] end salt i1 i2) as Hnp.
        rewrite Eh in Hnp. cbn [snd] in Hnp.
        destruct rr as [[]|er|]; [| |contradiction].
        * pose proof (handshake_ok_written _ _ _ _ _ _ Eh) as Hw.
          destruct w as [|w0 w']; [contradiction|]. intros E; inversion E; subst. cbn [s_sess].
          now rewrite nat_eqb_refl, bytes_eqb_refl.
        * destruct w as [|w0 w']; intros E; inversion E; subst; rewrite ?Es; cbn -[bytes_eqb Nat.eqb];
            rewrite ?nat_eqb_refl, ?bytes_eqb_refl; reflexivity.
      + intros E; inversion E; subst. now rewrite Es.
    - (* Send *)
      destruct (s_sess s) as [[c [|]]|] eqn:Es; try (intros E; inversion E; subst; now rewrite Es).
      assert (Hgo : forall chunk,
        match sm_enc m with
        | None => (s, [], RErr)
        | Some e0 => let '(w, ok) := do_write c e0 wf 0 in
                     if negb ok then (s, w, RErr)
                     else if negb (cf_ack cf) then (s, w, ROk)
                     else let '(a, r0) := check_ack cf c chunk resp in (s, w ++ a, r0)
        end = (s', e, r) ->
        match e, r with
        | [], RErr => Some (Some (c, true))
        | [EvWrite c' o a 0], (ROk | RErr) =>
            if Nat.eqb c c' && (match r with ROk => bytes_eqb o a | _ => true end) then Some (Some (c, true)) else None
        | [EvWrite c' o a 0; EvDeadline c''], (ROk | RErr) =>
            if Nat.eqb c c' && Nat.eqb c c'' && bytes_eqb o a then Some (Some (c, true)) else None
        | _, _ => None
        end = Some (s_sess s')).
      { intros chunk. destruct (sm_enc m) as [e0|].
        - unfold do_write. destruct wf as [n|]; cbn [negb].
          + intros E; inversion E; subst. rewrite Es. cbn -[bytes_eqb Nat.eqb firstn]. now rewrite nat_eqb_refl.
          + destruct (cf_ack cf); cbn [negb].
            * unfold check_ack. pose proof (ack_no_panic resp) as Hnp.
              destruct (U_ack Stream resp) as [[a rr]|er|]; [| |contradiction];
                destruct (cf_timeout cf); try destruct (bytes_eqb a chunk);
                intros E; inversion E; subst; rewrite Es; cbn [app];
                rewrite ?nat_eqb_refl, ?bytes_eqb_refl; reflexivity.
            * intros E; inversion E; subst. rewrite Es. now rewrite nat_eqb_refl, bytes_eqb_refl.
        - intros E; inversion E; subst. now rewrite Es. }
      destruct (cf_ack cf) eqn:Ea.
      + destruct (sm_chunk m) as [[|c0 ch]|].
        * intros E; inversion E; subst. now rewrite Es.
        * apply Hgo.
        * intros E; inversion E; subst. now rewrite Es.
      + apply Hgo.
    - (* SendRaw *)
      destruct (s_sess s) as [[c [|]]|] eqn:Es; try (intros E; inversion E; subst; now rewrite Es).
      unfold do_write. destruct wf as [n|]; intros E; inversion E; subst; rewrite Es; cbn -[bytes_eqb Nat.eqb firstn];
        rewrite ?nat_eqb_refl, ?bytes_eqb_refl; reflexivity.
    - (* TransportPhase *)
      intros E; inversion E; subst. destruct (s_sess s') as [[c [|]]|]; reflexivity.
  Qed.

  (* ---------- histories ---------- *)
  Fixpoint history (ops : list op) (l : list (list ev * ret)) : list (okind * list ev * ret) :=
    match ops, l with
    | o :: ops', (e, r) :: l' => (kind_of o, e, r) :: history ops' l'
    | _, _ => []
    end.

  Theorem run_monitored cf : forall ops s,
    monitor (has_key cf) (s_sess s) (history ops (fst (runs H cf s ops))) = true.
  Proof.
    induction ops as [|o ops IH]; intros s; cbn [runs history monitor fst]; [reflexivity|].
    destruct (step H cf s o) as [[s1 e] x] eqn:Es.
    destruct (runs H cf s1 ops) as [l s2] eqn:Er. cbn [fst history monitor].
    rewrite (step_monitored _ _ _ _ _ _ Es).
    specialize (IH s1). now rewrite Er in IH.
  Qed.

  (* the monitor's reference state is the client's own session state *)
  Theorem run_final_state cf : forall ops s l s',
    runs H cf s ops = (l, s') -> length l = length ops.
  Proof.
    induction ops as [|o ops IH]; intros s l s'; cbn [runs].
    - intros E; inversion E; reflexivity.
    - destruct (step H cf s o) as [[s1 e] x]. destruct (runs H cf s1 ops) as [l1 s2] eqn:Er.
      intros E; inversion E; subst. cbn [length]. f_equal. eapply IH; eauto.
  Qed.

  (* ---------- connection discipline of the whole call trace ---------- *)
  Definition sess_open (s : st) : list nat := match s_sess s with Some (c, _) => [c] | None => [] end.
  Definition Inv (s : st) (dead : list nat) : Prop :=
    (forall d, In d dead -> (d < s_next s)%nat) /\ (forall c, In c (sess_open s) -> (c < s_next s)%nat).

  Lemma nat_mem_false x l : (forall d, In d l -> (d < x)%nat) -> nat_mem x l = false.
  Proof.
    intros Hl. unfold nat_mem. destruct (existsb (Nat.eqb x) l) eqn:E; [|reflexivity].
    apply existsb_exists in E as (y & Hy & Heq). apply Nat.eqb_eq in Heq. subst. apply Hl in Hy. lia.
  Qed.

  Lemma nat_mem_hd x l : nat_mem x (x :: l) = true.
  Proof. unfold nat_mem. cbn [existsb]. now rewrite Nat.eqb_refl. Qed.
  Lemma nat_remove_single x : nat_remove x [x] = [].
  Proof. unfold nat_remove. cbn [filter]. now rewrite Nat.eqb_refl. Qed.

  Lemma step_trace cf s o s' e r dead :
    step H cf s o = (s', e, r) -> Inv s dead ->
    exists dead', Inv s' dead' /\
      forall rest, trace_ok (sess_open s') dead' rest = true -> trace_ok (sess_open s) dead (e ++ rest) = true.
  Proof.
    intros Es (Hd & Hc). unfold Inv, sess_open in *.
    destruct o as [ok| |ok|salt i1 i2|m wf resp|b wf|]; cbn [step] in Es.
    - destruct (s_sess s) as [[c tp]|] eqn:E1.
      + inversion Es; subst s' e r. exists dead. rewrite E1. split; [split; auto|auto].
      + unfold connect in Es. destruct ok; inversion Es; subst s' e r; cbn [s_sess s_next].
        * exists dead. split.
          -- split.
             ++ intros d Hin. apply Hd in Hin. lia.
             ++ intros c [<-|[]]. lia.
          -- intros rest Hr. cbn [app trace_ok]. rewrite (nat_mem_false _ _ Hd). cbn [negb andb]. exact Hr.
        * exists dead. split.
          -- split; auto; intros ? [].
          -- intros rest Hr. cbn [app trace_ok]. exact Hr.
    - unfold disconnect in Es. destruct (s_sess s) as [[c tp]|] eqn:E1; inversion Es; subst s' e r; cbn [s_sess s_next].
      + exists (c :: dead). split.
        * split.
          -- intros d [<-|Hin]; [apply Hc; now left | now apply Hd].
          -- intros x [].
        * intros rest Hr. cbn [app trace_ok]. rewrite nat_mem_hd, nat_remove_single. exact Hr.
      + exists dead. rewrite E1. split; [split; auto|auto].
    - unfold disconnect, connect in Es.
      destruct (s_sess s) as [[c tp]|] eqn:E1; destruct ok; inversion Es; subst s' e r; cbn [s_next s_sess].
      + exists (c :: dead). split.
        * split.
          -- intros d [<-|Hin]; [assert (c < s_next s)%nat by (apply Hc; now left); lia | apply Hd in Hin; lia].
          -- intros x [<-|[]]. lia.
        * intros rest Hr. cbn [app trace_ok]. rewrite nat_mem_hd, nat_remove_single.
          assert (Hnm : nat_mem (s_next s) (c :: dead) = false).
          { apply nat_mem_false. intros d [<-|Hin]; [apply Hc; now left | now apply Hd]. }
          rewrite Hnm. exact Hr.
      + exists (c :: dead). split.
        * split.
          -- intros d [<-|Hin]; [apply Hc; now left | now apply Hd].
          -- intros x [].
        * intros rest Hr. cbn [app trace_ok]. rewrite nat_mem_hd, nat_remove_single. exact Hr.
      + exists dead. split.
        * split.
          -- intros d Hin. apply Hd in Hin. lia.
          -- intros x [<-|[]]. lia.
        * intros rest Hr. cbn [app trace_ok]. rewrite (nat_mem_false _ _ Hd). exact Hr.
      + exists dead. split.
        * split; auto; intros ? [].
        * intros rest Hr. exact Hr.
    - destruct (s_sess s) as [[c tp]|] eqn:E1.
      + destruct (client_handshake H (cf_host cf) match cf_key cf with Some k => k | None => [] end salt i1 i2) as [w rr].
        assert (Hw : forall rest, trace_ok [c] dead rest = true ->
                     trace_ok [c] dead (match w with [] => [] | _ => [EvWrite c w w 1] end ++ rest) = true).
        { intros rest Hr. destruct w; cbn [app trace_ok]; [exact Hr|]. now rewrite nat_mem_hd. }
        destruct rr as [[]|er|]; inversion Es; subst s' e r; exists dead; cbn [s_sess s_next]; rewrite ?E1;
          (split; [split; auto|exact Hw]).
      + inversion Es; subst s' e r. exists dead. rewrite E1. split; [split; auto|auto].
    - assert (Hkeep : s' = s).
      { destruct (s_sess s) as [[c [|]]|]; try (now inversion Es).
        assert (Hgo : forall chunk, match sm_enc m with
          | None => (s, [], RErr)
          | Some e0 => let '(w, ok) := do_write c e0 wf 0 in
                       if negb ok then (s, w, RErr) else if negb (cf_ack cf) then (s, w, ROk)
                       else let '(a, r0) := check_ack cf c chunk resp in (s, w ++ a, r0)
          end = (s', e, r) -> s' = s).
        { intros chunk. destruct (sm_enc m); [|now inversion 1].
          destruct (do_write c b wf 0) as [w ok]. destruct (negb ok); [now inversion 1|].
          destruct (negb (cf_ack cf)); [now inversion 1|].
          destruct (check_ack cf c chunk resp). now inversion 1. }
        destruct (cf_ack cf); [destruct (sm_chunk m) as [[|]|]|]; try (now inversion Es); eapply Hgo; eauto. }
      subst s'. exists dead. split; [split; auto|].
      intros rest Hr.
      destruct (s_sess s) as [[c [|]]|] eqn:E1; try (inversion Es; subst e r; exact Hr).
      assert (Hgo : forall chunk, match sm_enc m with
          | None => (s, [], RErr)
          | Some e0 => let '(w, ok) := do_write c e0 wf 0 in
                       if negb ok then (s, w, RErr) else if negb (cf_ack cf) then (s, w, ROk)
                       else let '(a, r0) := check_ack cf c chunk resp in (s, w ++ a, r0)
          end = (s, e, r) -> trace_ok [c] dead (e ++ rest) = true).
      { intros chunk. destruct (sm_enc m) as [e0|]; [|inversion 1; subst e r; exact Hr].
        unfold do_write, check_ack.
        destruct wf as [n|]; cbn [negb].
        - inversion 1; subst e r. cbn [app trace_ok]. now rewrite nat_mem_hd.
        - destruct (cf_ack cf); cbn [negb].
          + destruct (U_ack Stream resp) as [[a rr]|er|]; destruct (cf_timeout cf);
              inversion 1; subst e r; cbn [app trace_ok]; rewrite ?nat_mem_hd; exact Hr.
          + inversion 1; subst e r. cbn [app trace_ok]. now rewrite nat_mem_hd. }
      destruct (cf_ack cf); [destruct (sm_chunk m) as [[|]|]|]; try (inversion Es; subst e r; exact Hr); eapply Hgo; eauto.
    - destruct (s_sess s) as [[c [|]]|] eqn:E1; try (inversion Es; subst s' e r; exists dead; rewrite E1; split; [split; auto|auto]).
      unfold do_write in Es. destruct wf; inversion Es; subst s' e r; exists dead; rewrite E1;
        (split; [split; auto|]); intros rest Hr; cbn [app trace_ok]; now rewrite nat_mem_hd.
    - inversion Es; subst s' e r. exists dead. split; [split; auto|auto].
  Qed.

  Lemma run_trace_inv cf : forall ops s dead, Inv s dead ->
    trace_ok (sess_open s) dead (trace (fst (runs H cf s ops))) = true.
  Proof.
    induction ops as [|o ops IH]; intros s dead HI; cbn [runs]; [reflexivity|].
    destruct (step H cf s o) as [[s1 e] x] eqn:Es.
    destruct (runs H cf s1 ops) as [l s2] eqn:Er. cbn [fst trace flat_map].
    destruct (step_trace _ _ _ _ _ _ _ Es HI) as (dead' & HI' & Hk).
    apply Hk. specialize (IH s1 dead' HI'). now rewrite Er in IH.
  Qed.

  Theorem run_trace_ok cf ops : trace_ok [] [] (trace (fst (runs H cf init_st ops))) = true.
  Proof. apply (run_trace_inv cf ops init_st []). split; cbn; intros ? []. Qed.

  (* ---------- every send call is judged correct (C09, C04) ---------- *)
  Lemma firstn_firstn_len {A} n (b : list A) : firstn (length (firstn n b)) b = firstn n b.
  Proof.
    revert b; induction n as [|n IH]; intros [|x b]; cbn; auto. now rewrite IH.
  Qed.

  Definition chunk_of (m : smsg) : bytes := match sm_chunk m with Some c => c | None => [] end.

  Theorem send_judged cf s m wf resp s' e r :
    step H cf s (OSend m wf resp) = (s', e, r) ->
    send_ok (sm_enc m) (cf_ack cf) (chunk_of m) resp e r = true.
  Proof.
    cbn [step]. unfold chunk_of.
    assert (Hnone : forall s0, (s0, @nil ev, RErr) = (s', e, r) ->
      send_ok (sm_enc m) (cf_ack cf) match sm_chunk m with Some c => c | None => [] end resp e r = true).
    { intros s0 E; inversion E; subst. unfold send_ok. cbn [accepted_bytes flat_map length firstn].
      destruct (sm_enc m); reflexivity. }
    destruct (s_sess s) as [[c [|]]|]; try apply Hnone.
    assert (Hgo : forall chunk,
      (cf_ack cf = true -> chunk = match sm_chunk m with Some c => c | None => [] end /\ chunk <> []) ->
      match sm_enc m with
      | None => (s, [], RErr)
      | Some e0 => let '(w, ok) := do_write c e0 wf 0 in
                   if negb ok then (s, w, RErr) else if negb (cf_ack cf) then (s, w, ROk)
                   else let '(a, r0) := check_ack cf c chunk resp in (s, w ++ a, r0)
      end = (s', e, r) ->
      send_ok (sm_enc m) (cf_ack cf) match sm_chunk m with Some c => c | None => [] end resp e r = true).
    { intros chunk Hboth. unfold send_ok. destruct (sm_enc m) as [e0|]; [|inversion 1; subst; reflexivity].
      unfold do_write. destruct wf as [n|]; cbn [negb].
      - inversion 1; subst. cbn [accepted_bytes flat_map]. rewrite app_nil_r, firstn_firstn_len, bytes_eqb_refl. reflexivity.
      - destruct (cf_ack cf) eqn:Ea; cbn [negb].
        + destruct (Hboth eq_refl) as [Hch Hne]. unfold check_ack. rewrite <- Hch. pose proof (ack_no_panic resp) as Hnp.
          destruct (U_ack Stream resp) as [[a rr]|er|] eqn:Eu; [| |contradiction]; destruct (cf_timeout cf);
            try destruct (bytes_eqb a chunk) eqn:Eab;
            inversion 1; subst; cbn [app accepted_bytes flat_map]; rewrite ?app_nil_r, firstn_all, !bytes_eqb_refl; cbn [andb orb negb];
            try reflexivity;
            unfold ack_matches; rewrite Eu, Eab; cbn [andb];
            (destruct (bytes_eqb _ []) eqn:Ee; [apply bytes_eqb_eq in Ee; exfalso; now apply Hne | reflexivity]).
        + inversion 1; subst. cbn [accepted_bytes flat_map]. now rewrite app_nil_r, firstn_all, !bytes_eqb_refl. }
    destruct (cf_ack cf) eqn:Ea.
    - destruct (sm_chunk m) as [[|c0 ch]|] eqn:Ec; try apply Hnone.
      apply Hgo. intros _. split; [reflexivity | discriminate].
    - apply Hgo. discriminate.
  Qed.

  (* C04: with acknowledgements required, success is exactly "whole message written, then
     an ack carrying this message's (non-empty) chunk id was decoded from the response" *)
  Theorem send_ack_ok_iff cf s m wf resp s' e r c :
    cf_ack cf = true -> s_sess s = Some (c, true) ->
    step H cf s (OSend m wf resp) = (s', e, r) ->
    (r = ROk <-> exists ch b rest, sm_chunk m = Some ch /\ ch <> [] /\ sm_enc m = Some b /\ wf = None /\
                               U_ack Stream resp = Ok (ch, rest)).
  Proof.
    intros Ha Hs. cbn [step]. rewrite Hs, Ha.
    destruct (sm_chunk m) as [[|c0 ch]|] eqn:Ec.
    - inversion 1; subst. split; [discriminate|]. intros (ch' & b & rest & E1 & E2 & _). inversion E1; subst. contradiction.
    - destruct (sm_enc m) as [e0|] eqn:Ee.
      + unfold do_write. destruct wf as [n|]; cbn [negb].
        * inversion 1; subst. split; [discriminate|]. intros (? & ? & ? & _ & _ & _ & E & _). discriminate.
        * cbn [negb]. unfold check_ack. pose proof (ack_no_panic resp) as Hnp.
          destruct (U_ack Stream resp) as [[a rr]|er|] eqn:Eu; [| |contradiction].
          -- destruct (bytes_eqb a (c0 :: ch)) eqn:Eab; inversion 1; subst.
             ++ apply bytes_eqb_eq in Eab. subst a. split; [|reflexivity]. intros _.
                exists (c0 :: ch), e0, rr. repeat split; auto. discriminate.
             ++ split; [discriminate|]. intros (ch' & b & rest & E1 & _ & _ & _ & E5).
                inversion E1; subst. inversion E5; subst. rewrite bytes_eqb_refl in Eab. discriminate.
          -- inversion 1; subst. split; [discriminate|]. intros (? & ? & ? & _ & _ & _ & _ & E). discriminate.
      + inversion 1; subst. split; [discriminate|]. intros (? & ? & ? & _ & _ & E & _). discriminate.
    - inversion 1; subst. split; [discriminate|]. intros (? & ? & ? & E & _). discriminate.
  Qed.

  (* ---------- corollaries used by props/C09.v and props/C04.v ---------- *)
  Lemma prefix_firstn (a b : bytes) : bytes_eqb a (firstn (length a) b) = true -> exists t, b = a ++ t.
  Proof.
    intros E. apply bytes_eqb_eq in E. exists (skipn (length a) b).
    rewrite E at 1. now rewrite firstn_skipn.
  Qed.

  Theorem send_ok_complete cf s m wf resp s' e r :
    step H cf s (OSend m wf resp) = (s', e, r) -> r = ROk ->
    exists b, sm_enc m = Some b /\ accepted_bytes e = b.
  Proof.
    intros Hs Hr. pose proof (send_judged _ _ _ _ _ _ _ _ Hs) as J. subst r. unfold send_ok in J.
    destruct (sm_enc m) as [b|].
    - exists b. split; [reflexivity|]. apply andb_prop in J as [_ J]. apply andb_prop in J as [J _]. now apply bytes_eqb_eq.
    - destruct (accepted_bytes e); discriminate.
  Qed.

  Theorem send_accepted_prefix cf s m wf resp s' e r b :
    step H cf s (OSend m wf resp) = (s', e, r) -> sm_enc m = Some b -> exists t, b = accepted_bytes e ++ t.
  Proof.
    intros Hs Hb. pose proof (send_judged _ _ _ _ _ _ _ _ Hs) as J. unfold send_ok in J. rewrite Hb in J.
    apply andb_prop in J as [J _]. now apply prefix_firstn.
  Qed.

  Theorem send_unencodable_clean cf s m wf resp s' e r :
    step H cf s (OSend m wf resp) = (s', e, r) -> sm_enc m = None -> accepted_bytes e = [] /\ r = RErr.
  Proof.
    intros Hs Hb. pose proof (send_judged _ _ _ _ _ _ _ _ Hs) as J. unfold send_ok in J. rewrite Hb in J.
    destruct (accepted_bytes e); [|discriminate]. destruct r; try discriminate. auto.
  Qed.

  (* a write fault (the connection accepts n bytes of the message and fails) is an error *)
  Theorem send_fault_is_error cf s m n resp s' e r :
    step H cf s (OSend m (Some n) resp) = (s', e, r) -> r = RErr.
  Proof.
    cbn [step]. destruct (s_sess s) as [[c [|]]|]; try (now inversion 1).
    assert (Hgo : forall chunk, match sm_enc m with
      | None => (s, [], RErr)
      | Some e0 => let '(w, ok) := do_write c e0 (Some n) 0 in
                   if negb ok then (s, w, RErr) else if negb (cf_ack cf) then (s, w, ROk)
                   else let '(a, r0) := check_ack cf c chunk resp in (s, w ++ a, r0)
      end = (s', e, r) -> r = RErr).
    { intros chunk. destruct (sm_enc m); [|now inversion 1]. cbn [do_write negb]. now inversion 1. }
    destruct (cf_ack cf); [destruct (sm_chunk m) as [[|]|]|]; try (now inversion 1); apply Hgo.
  Qed.

  Theorem sendraw_judged cf s b wf s' e r :
    step H cf s (OSendRaw b wf) = (s', e, r) ->
    (exists t, b = accepted_bytes e ++ t) /\ (r = ROk -> accepted_bytes e = b) /\ (wf <> None -> r = RErr).
  Proof.
    cbn [step]. destruct (s_sess s) as [[c [|]]|];
      try (inversion 1; subst; cbn [accepted_bytes flat_map]; split; [exists b; reflexivity | split; [discriminate | intros; reflexivity]]).
    unfold do_write. destruct wf as [n|]; inversion 1; subst; cbn [accepted_bytes flat_map]; rewrite app_nil_r.
    - split; [exists (skipn (N.to_nat n) b); now rewrite firstn_skipn | split; [discriminate | intros; reflexivity]].
    - split; [exists []; now rewrite app_nil_r | split; [reflexivity | congruence]].
  Qed.

  (* sends do not change the session: in a run of sends every call sees the same state, so
     each result is determined by that call's own message and response alone *)
  Lemma send_keeps_state cf s m wf resp s' e r : step H cf s (OSend m wf resp) = (s', e, r) -> s' = s.
  Proof.
    cbn [step]. destruct (s_sess s) as [[c [|]]|]; try (now inversion 1).
    assert (Hgo : forall chunk, match sm_enc m with
      | None => (s, [], RErr)
      | Some e0 => let '(w, ok) := do_write c e0 wf 0 in
                   if negb ok then (s, w, RErr) else if negb (cf_ack cf) then (s, w, ROk)
                   else let '(a, r0) := check_ack cf c chunk resp in (s, w ++ a, r0)
      end = (s', e, r) -> s' = s).
    { intros chunk. destruct (sm_enc m); [|now inversion 1].
      destruct (do_write c b wf 0) as [w ok]. destruct (negb ok); [now inversion 1|].
      destruct (negb (cf_ack cf)); [now inversion 1|].
      destruct (check_ack cf c chunk resp). now inversion 1. }
    destruct (cf_ack cf); [destruct (sm_chunk m) as [[|]|]|]; try (now inversion 1); apply Hgo.
  Qed.

  Definition is_send (o : op) : bool := match o with OSend _ _ _ => true | _ => false end.

  Theorem sends_independent cf s : forall ops, forallb is_send ops = true ->
    fst (runs H cf s ops) = map (fun o => let '(_, e, r) := step H cf s o in (e, r)) ops /\ snd (runs H cf s ops) = s.
  Proof.
    induction ops as [|o ops IH]; cbn [runs forallb map]; [auto|].
    intros Hall. apply andb_prop in Hall as [Ho Hall].
    destruct o as [| | | |m wf resp| |]; try discriminate.
    destruct (step H cf s (OSend m wf resp)) as [[s1 e] x] eqn:Es.
    pose proof (send_keeps_state _ _ _ _ _ _ _ _ Es). subst s1.
    destruct (runs H cf s ops) as [l s2] eqn:Er. destruct (IH Hall) as [I1 I2]. cbn [fst snd] in *. subst. auto.
  Qed.

  (* with a timeout configured, the read deadline is set after the message was written and
     before the response is awaited *)
  Theorem send_sets_deadline cf s m resp s' e r c b :
    cf_ack cf = true -> cf_timeout cf = true -> s_sess s = Some (c, true) ->
    sm_enc m = Some b -> (exists ch, sm_chunk m = Some ch /\ ch <> []) ->
    step H cf s (OSend m None resp) = (s', e, r) -> e = [EvWrite c b b 0; EvDeadline c].
  Proof.
    intros Ha Ht Hs Hb (ch & Hc & Hne). cbn [step]. rewrite Hs, Ha, Hc, Hb.
    destruct ch as [|c0 ch]; [contradiction|]. cbn [do_write negb].
    unfold check_ack. rewrite Ht. destruct (U_ack Stream resp) as [[a rr]|er|]; now inversion 1.
  Qed.
End Client.
