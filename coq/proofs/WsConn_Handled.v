(* The default read handler and Closed(): once the handler of a Listen call has dealt with an
   error message (it calls Close inline before it returns the error), the connection reports
   Closed() -- for every thread, schedule and peer script.  In particular, by the time a Listen
   call returns an error (result 5) or nil after a normal closure, Closed() is already true: this
   is the fact the websocket CLIENT (ws_client.go) meets when it composes with the library's own
   connection -- a reader that ends with an error belongs to a connection that is closed. *)
From FF Require Import model.Bytes model.Lts model.WsConn model.WsConnSpec proofs.WsConn_Proofs.
From Coq Require Import List Lia NArith Bool.
Import ListNotations.
Open Scope N_scope.

Definition inline_pc (p : wpc) : bool :=
  match p with
  | QGate i | QCheckErr i | QWantWL i | QFrame i | QCheckListening i | QAwait i | QSetClosed i _ | QUnderClose i _ => i
  | _ => false
  end.

Definition HInv (g : wshared) (l : wlocal) : Prop :=
  (is_err_msg (wl_hmsg l) = true -> wl_pc l <> QGate true -> f_open (w_flags g) = false) /\
  (inline_pc (wl_pc l) = true -> is_err_msg (wl_hmsg l) = true) /\
  (forall acc m, wl_pc l = QLHandled acc m -> f_open (w_flags g) = false).

Lemma hinv_self : forall pd g t l g' l' e,
  wstep pd g t l = Some (g', l', e) -> HInv g l -> HInv g' l'.
Proof.
  unfold HInv. intros pd g t l g' l' e W (H1 & H2 & H3).
  pose proof (wstep_global_mono _ _ _ _ _ _ _ W) as (MO & _).
  wstep_cases W; fin.
  all: repeat split; try (intros; discriminate); try (intros; congruence).
  all: try (intros E NG; apply MO; apply H1; [assumption | discriminate]).
  all: try (intros E NG; apply H1; [assumption | discriminate]).
  all: try (intros E NG; exfalso; apply NG; reflexivity).
  all: try (intros; apply H2; reflexivity).
  all: try (intros; apply MO; apply H1; [apply H2; reflexivity | discriminate]).
  all: try (intros; apply H1; [apply H2; reflexivity | discriminate]).
  all: try (intros; eapply MO; eapply H3; reflexivity).
  all: try (intros; eapply H3; reflexivity).
  all: try (intros; assumption).
  all: try exact H2.
Qed.

Lemma hinv_other : forall pd g t l g' l' e l2,
  wstep pd g t l = Some (g', l', e) -> HInv g l2 -> HInv g' l2.
Proof.
  unfold HInv. intros pd g t l g' l' e l2 W (H1 & H2 & H3).
  pose proof (wstep_global_mono _ _ _ _ _ _ _ W) as (MO & _).
  repeat split; [intros; apply MO; auto | exact H2 | intros; eapply MO; eapply H3; eauto].
Qed.

Theorem handled_error_closed : forall pd progs script cfok c t l,
  reach pd progs script cfok c -> nth_error (thr c) t = Some l -> HInv (glob c) l.
Proof.
  intros pd progs script cfok c t l R. revert t l. revert c R.
  apply (reach_ind pd progs script cfok (fun c => forall t l, nth_error (thr c) t = Some l -> HInv (glob c) l)).
  - intros t l N. apply nth_error_In in N.
    assert (HM : wl_hmsg l = MData /\ (wl_pc l = QIdle \/ wl_pc l = QRNotStarted)).
    { unfold winit in N. cbn [thr] in N. apply in_app_or in N. destruct N as [N|N]; apply in_map_iff in N; destruct N as (x & <- & _); cbn; auto. }
    destruct HM as (HM & PC). unfold HInv. rewrite HM.
    repeat split; try (intros; discriminate); destruct PC as [-> | ->]; intros; discriminate.
  - intros c t c' e R IH S t2 l2 N2.
    apply ws_step_inv in S. destruct S as (l & g' & l' & N & W & ->). cbn [glob thr] in *.
    destruct (Nat.eq_dec t t2) as [<-|NE].
    + rewrite (nth_error_set_nth_eq _ _ _ _ _ N) in N2. inversion N2; subst l2.
      eapply hinv_self; eauto.
    + rewrite nth_error_set_nth_neq in N2 by auto. eapply hinv_other; eauto.
Qed.

(* a Listen call that returns an error, or returns nil after its handler saw a normal closure,
   returns on a connection that reports Closed() *)
Theorem listen_error_closed : forall pd progs script cfok c t c' e l l' r,
  reach pd progs script cfok c ->
  ws_step pd c t = Some (c', e) -> nth_error (thr c) t = Some l -> nth_error (thr c') t = Some l' ->
  wl_pc l = QLRecv r -> wl_pc l' = QIdle ->
  (r = 5 \/ is_err_msg (wl_hmsg l) = true) ->
  f_open (w_flags (glob c)) = false /\ f_open (w_flags (glob c')) = false.
Proof.
  intros pd progs script cfok c t c' e l l' r R S N N' PC PC' Hr.
  assert (E : is_err_msg (wl_hmsg l) = true).
  { destruct Hr as [Hr|E]; [|exact E].
    destruct (listen_result _ _ _ _ _ _ _ _ _ _ R S N N' (or_intror (ex_intro _ _ PC)) PC') as (r0 & _ & _ & [(_ & G & _) | (RC & PC2 & _)]).
    - rewrite PC in G. discriminate.
    - rewrite PC in PC2. injection PC2 as PC2. rewrite <- PC2, Hr in RC.
      unfold listen_code in RC. destruct (is_err_msg (wl_hmsg l)); [reflexivity | discriminate]. }
  assert (O : f_open (w_flags (glob c)) = false).
  { destruct (handled_error_closed _ _ _ _ _ _ _ R N) as (H1 & _). apply H1; [exact E | rewrite PC; discriminate]. }
  split; [exact O | eapply open_never_set_again; eauto].
Qed.
