(* Round-trip proofs for the msgp model: decoders invert encoders on well-formed values. *)
From FF Require Import model.Bytes model.Msgp model.Wf proofs.Bytes_Proofs.
From FF Require Import proofs.Take_Proofs.
From Coq Require Import Lia ZifyN ZifyNat ZifyBool.
Open Scope N_scope.

(* ---------- tactics ---------- *)

(* decide one boolean comparison occurring in the goal, closing impossible branches *)
Ltac cmp1 :=
  match goal with
  | |- context[N.ltb ?a ?b] => destruct (N.ltb_spec a b); try lia
  | |- context[N.leb ?a ?b] => destruct (N.leb_spec a b); try lia
  | |- context[N.eqb ?a ?b] => destruct (N.eqb_spec a b); try lia
  | |- context[Z.ltb ?a ?b] => destruct (Z.ltb_spec a b); try lia
  | |- context[Z.leb ?a ?b] => destruct (Z.leb_spec a b); try lia
  end; cbn [andb orb negb].
Ltac cmp := repeat cmp1.

Ltac red_bind := cbv beta iota zeta delta [bind].
Ltac norm_app := cbn [app]; rewrite <- ?app_assoc; cbn [app].

(* ---------- lengths ---------- *)

Lemma len_app {A} (a b : list A) : len (a ++ b) = len a + len b.
Proof. unfold len. rewrite app_length. lia. Qed.

Lemma len_nil {A} : len (@nil A) = 0.
Proof. reflexivity. Qed.

Lemma len_cons {A} (x : A) l : len (x :: l) = len l + 1.
Proof. unfold len. cbn [length]. lia. Qed.

Lemma len_be k n : len (be k n) = N.of_nat k.
Proof. unfold len. now rewrite be_length. Qed.

Lemma p256_1 : 256 ^ N.of_nat 1 = 256. Proof. reflexivity. Qed.
Lemma p256_2 : 256 ^ N.of_nat 2 = 65536. Proof. reflexivity. Qed.
Lemma p256_4 : 256 ^ N.of_nat 4 = 4294967296. Proof. reflexivity. Qed.
Lemma p256_8 : 256 ^ N.of_nat 8 = 18446744073709551616. Proof. reflexivity. Qed.

(* ---------- take / rd_be ---------- *)

Lemma take_app s rest : take (len s) (s ++ rest) = Ok (s, rest).
Proof.
  rewrite !take_unfold. rewrite len_app.
  destruct (N.leb_spec (len s) (len s + len rest)); [|lia].
  unfold len. rewrite Nnat.Nat2N.id.
  rewrite firstn_app, Nat.sub_diag, firstn_all, firstn_O, app_nil_r.
  rewrite skipn_app, Nat.sub_diag, skipn_all. reflexivity.
Qed.

Lemma take_app' k s rest : k = len s -> take k (s ++ rest) = Ok (s, rest).
Proof. intros ->. apply take_app. Qed.

Lemma rd_be_app k n rest : n < 256 ^ N.of_nat k -> rd_be k (be k n ++ rest) = Ok (n, rest).
Proof.
  intros H. unfold rd_be. rewrite (take_app' _ (be k n)) by (now rewrite len_be).
  red_bind. now rewrite unbe_be.
Qed.

Lemma rd_be_app1 n rest : n < 256 -> rd_be 1 (be 1 n ++ rest) = Ok (n, rest).
Proof. intros. apply rd_be_app. now rewrite p256_1. Qed.
Lemma rd_be_app2 n rest : n < 65536 -> rd_be 2 (be 2 n ++ rest) = Ok (n, rest).
Proof. intros. apply rd_be_app. now rewrite p256_2. Qed.
Lemma rd_be_app4 n rest : n < 4294967296 -> rd_be 4 (be 4 n ++ rest) = Ok (n, rest).
Proof. intros. apply rd_be_app. now rewrite p256_4. Qed.
Lemma rd_be_app8 n rest : n < 18446744073709551616 -> rd_be 8 (be 8 n ++ rest) = Ok (n, rest).
Proof. intros. apply rd_be_app. now rewrite p256_8. Qed.

(* ---------- array / map headers ---------- *)

Lemma rd_arr_hdr_enc n rest : n < two32 -> rd_arr_hdr (enc_arr_hdr n ++ rest) = Ok (n, rest).
Proof.
  unfold two32. intros H. unfold enc_arr_hdr, hdr3.
  destruct (N.leb_spec n 15); [|destruct (N.ltb_spec n 65536)];
    norm_app; unfold rd_arr_hdr; cbv zeta; rewrite b2n_n2b_small by lia; cmp.
  - do 2 f_equal. lia.
  - apply rd_be_app2; lia.
  - apply rd_be_app4; lia.
Qed.

Lemma rd_map_hdr_enc n rest : n < two32 -> rd_map_hdr (enc_map_hdr n ++ rest) = Ok (n, rest).
Proof.
  unfold two32. intros H. unfold enc_map_hdr, hdr3.
  destruct (N.leb_spec n 15); [|destruct (N.ltb_spec n 65536)];
    norm_app; unfold rd_map_hdr; cbv zeta; rewrite b2n_n2b_small by lia; cmp.
  - do 2 f_equal. lia.
  - apply rd_be_app2; lia.
  - apply rd_be_app4; lia.
Qed.

(* ---------- str / bin ---------- *)

Lemma rd_str_enc s rest : len s < two32 -> rd_str (enc_str s ++ rest) = Ok (s, rest).
Proof.
  unfold two32. intros H. unfold enc_str, enc_str_hdr.
  destruct (N.ltb_spec (len s) 32); [|destruct (N.ltb_spec (len s) 256); [|destruct (N.ltb_spec (len s) 65536)]];
    norm_app; unfold rd_str; cbv zeta; rewrite b2n_n2b_small by lia; cmp.
  - apply take_app'. lia.
  - rewrite rd_be_app1 by lia. red_bind. apply take_app.
  - rewrite rd_be_app2 by lia. red_bind. apply take_app.
  - rewrite rd_be_app4 by lia. red_bind. apply take_app.
Qed.

Lemma rd_bin_enc s rest : len s < two32 -> rd_bin (enc_bin s ++ rest) = Ok (s, rest).
Proof.
  unfold two32. intros H. unfold enc_bin, enc_bin_hdr.
  destruct (N.ltb_spec (len s) 256); [|destruct (N.ltb_spec (len s) 65536)];
    norm_app; unfold rd_bin; cbv zeta; rewrite b2n_n2b_small by lia; cmp.
  - rewrite rd_be_app1 by lia. red_bind. apply take_app.
  - rewrite rd_be_app2 by lia. red_bind. apply take_app.
  - rewrite rd_be_app4 by lia. red_bind. apply take_app.
Qed.

(* ---------- two's complement ---------- *)

Lemma m2_1 : (2 ^ (8 * Z.of_nat 1) = 256)%Z. Proof. reflexivity. Qed.
Lemma m2_2 : (2 ^ (8 * Z.of_nat 2) = 65536)%Z. Proof. reflexivity. Qed.
Lemma m2_4 : (2 ^ (8 * Z.of_nat 4) = 4294967296)%Z. Proof. reflexivity. Qed.
Lemma m2_8 : (2 ^ (8 * Z.of_nat 8) = 18446744073709551616)%Z. Proof. reflexivity. Qed.

Lemma m2_pos k : (0 < 2 ^ (8 * Z.of_nat k))%Z.
Proof. apply Z.pow_pos_nonneg; lia. Qed.

Lemma z2n_spec k z : Z.of_N (z2n k z) = (z mod 2 ^ (8 * Z.of_nat k))%Z.
Proof.
  unfold z2n. rewrite Z2N.id; auto.
  apply Z.mod_pos_bound, m2_pos.
Qed.

Lemma z2n_nonneg k z : (0 <= z < 2 ^ (8 * Z.of_nat k))%Z -> Z.of_N (z2n k z) = z.
Proof. intros. rewrite z2n_spec. now apply Z.mod_small. Qed.

Lemma z2n_neg k z : (- 2 ^ (8 * Z.of_nat k) <= z < 0)%Z ->
  Z.of_N (z2n k z) = (z + 2 ^ (8 * Z.of_nat k))%Z.
Proof.
  intros. rewrite z2n_spec. pose proof (m2_pos k).
  set (m := (2 ^ (8 * Z.of_nat k))%Z) in *.
  rewrite <- (Z.mod_add z 1 m) by lia. rewrite Z.mul_1_l. apply Z.mod_small. lia.
Qed.

Lemma n2z_small k n : (Z.of_N n < 2 ^ (8 * Z.of_nat k) / 2)%Z -> n2z k n = Z.of_N n.
Proof. intros. unfold n2z. cbv zeta. destruct (Z.ltb_spec (Z.of_N n) (2 ^ (8 * Z.of_nat k) / 2)); lia. Qed.

Lemma n2z_big k n : (2 ^ (8 * Z.of_nat k) / 2 <= Z.of_N n)%Z -> n2z k n = (Z.of_N n - 2 ^ (8 * Z.of_nat k))%Z.
Proof. intros. unfold n2z. cbv zeta. destruct (Z.ltb_spec (Z.of_N n) (2 ^ (8 * Z.of_nat k) / 2)); lia. Qed.

Lemma n2z_z2n k z :
  (- (2 ^ (8 * Z.of_nat k) / 2) <= z < 2 ^ (8 * Z.of_nat k) / 2)%Z -> n2z k (z2n k z) = z.
Proof.
  intros H. pose proof (m2_pos k).
  set (m := (2 ^ (8 * Z.of_nat k))%Z) in *.
  assert (2 * (m / 2) <= m)%Z by (apply Z.mul_div_le; lia).
  assert (0 <= m / 2)%Z by (apply Z.div_pos; lia).
  destruct (Z.ltb_spec z 0).
  - rewrite n2z_big; fold m; rewrite z2n_neg; fold m; lia.
  - rewrite n2z_small; fold m; rewrite z2n_nonneg; fold m; lia.
Qed.

(* ---------- integers ---------- *)

Lemma int64_ok_spec z : int64_ok z = true -> (-9223372036854775808 <= z < 9223372036854775808)%Z.
Proof. unfold int64_ok. lia. Qed.

Lemma rd_int64_enc z rest : int64_ok z = true -> rd_int64 (enc_int z ++ rest) = Ok (z, rest).
Proof.
  intros H. apply int64_ok_spec in H. unfold enc_int.
  destruct (Z.leb_spec 0 z).
  - cbv zeta.
    assert (Hz : Z.of_N (Z.to_N z) = z) by lia.
    revert Hz. generalize (Z.to_N z). intros n Hz.
    destruct (N.ltb_spec n 128); [|destruct (N.ltb_spec n 32768); [|destruct (N.ltb_spec n 2147483648)]];
      norm_app; unfold rd_int64; cbv zeta; rewrite b2n_n2b_small by lia; cmp.
    + now rewrite Hz.
    + rewrite rd_be_app2 by lia. red_bind. rewrite n2z_small by (rewrite m2_2; lia). now rewrite Hz.
    + rewrite rd_be_app4 by lia. red_bind. rewrite n2z_small by (rewrite m2_4; lia). now rewrite Hz.
    + rewrite rd_be_app8 by lia. red_bind. rewrite n2z_small by (rewrite m2_8; lia). now rewrite Hz.
  - destruct (Z.leb_spec (-32) z); [|destruct (Z.leb_spec (-128) z); [|destruct (Z.leb_spec (-32768) z);
      [|destruct (Z.leb_spec (-2147483648) z)]]].
    + pose proof (z2n_neg 1 z) as E. rewrite m2_1 in E. specialize (E ltac:(lia)).
      revert E. generalize (z2n 1 z). intros n E.
      norm_app. unfold rd_int64. cbv zeta. rewrite b2n_n2b_small by lia. cmp.
      do 2 f_equal. lia.
    + pose proof (z2n_neg 1 z) as E. rewrite m2_1 in E. specialize (E ltac:(lia)).
      norm_app. unfold rd_int64. cbv zeta. rewrite b2n_n2b_small by lia. cmp.
      rewrite rd_be_app1 by lia. red_bind. rewrite n2z_z2n by (rewrite m2_1; lia). reflexivity.
    + pose proof (z2n_neg 2 z) as E. rewrite m2_2 in E. specialize (E ltac:(lia)).
      norm_app. unfold rd_int64. cbv zeta. rewrite b2n_n2b_small by lia. cmp.
      rewrite rd_be_app2 by lia. red_bind. rewrite n2z_z2n by (rewrite m2_2; lia). reflexivity.
    + pose proof (z2n_neg 4 z) as E. rewrite m2_4 in E. specialize (E ltac:(lia)).
      norm_app. unfold rd_int64. cbv zeta. rewrite b2n_n2b_small by lia. cmp.
      rewrite rd_be_app4 by lia. red_bind. rewrite n2z_z2n by (rewrite m2_4; lia). reflexivity.
    + pose proof (z2n_neg 8 z) as E. rewrite m2_8 in E. specialize (E ltac:(lia)).
      norm_app. unfold rd_int64. cbv zeta. rewrite b2n_n2b_small by lia. cmp.
      rewrite rd_be_app8 by lia. red_bind. rewrite n2z_z2n by (rewrite m2_8; lia). reflexivity.
Qed.

Lemma rd_uint64_enc n rest : n < two64 -> rd_uint64 (enc_uint n ++ rest) = Ok (n, rest).
Proof.
  unfold two64. intros H. unfold enc_uint.
  destruct (N.ltb_spec n 128); [|destruct (N.ltb_spec n 256); [|destruct (N.ltb_spec n 65536);
    [|destruct (N.ltb_spec n 4294967296)]]];
    norm_app; unfold rd_uint64; cbv zeta; rewrite b2n_n2b_small by lia; cmp.
  - reflexivity.
  - apply rd_be_app1; lia.
  - apply rd_be_app2; lia.
  - apply rd_be_app4; lia.
  - apply rd_be_app8; lia.
Qed.

(* ---------- nil ---------- *)

Lemma rd_nil_enc rest : rd_nil (enc_nil ++ rest) = Ok rest.
Proof.
  unfold enc_nil. norm_app. unfold rd_nil. rewrite b2n_n2b_small by lia. cmp. reflexivity.
Qed.

Lemma is_nil_next_enc_nil rest : is_nil_next (enc_nil ++ rest) = true.
Proof.
  unfold enc_nil. norm_app. unfold is_nil_next. rewrite b2n_n2b_small by lia. cmp; try reflexivity.
Qed.

(* ---------- EventTime extension ---------- *)

Lemma et_payload_len s n : len (et_payload s n) = 8.
Proof. unfold et_payload. rewrite len_app, !len_be. reflexivity. Qed.

Lemma firstn_app_exact {A} k (a b : list A) : length a = k -> firstn k (a ++ b) = a.
Proof. intros <-. rewrite firstn_app, Nat.sub_diag, firstn_all, firstn_O. apply app_nil_r. Qed.

Lemma skipn_app_exact {A} k (a b : list A) : length a = k -> skipn k (a ++ b) = b.
Proof. intros <-. rewrite skipn_app, Nat.sub_diag, skipn_all. reflexivity. Qed.

Lemma rd_eventtime_enc s n rest : wf_instant (s, n) = true ->
  rd_eventtime (enc_eventtime s n ++ rest) = Ok (s, n, rest).
Proof.
  unfold wf_instant, nsec_mod. cbn [fst snd]. intros H.
  assert (Hs : (0 <= s < 4294967296)%Z) by lia.
  assert (Hn : n < 1000000000) by lia. clear H.
  unfold enc_eventtime, enc_ext. cbv zeta. rewrite et_payload_len. cmp.
  norm_app. unfold rd_eventtime, ext_parts. cbv zeta. rewrite b2n_n2b_small by lia. cmp.
  rewrite (take_app' 8 (et_payload s n)) by (now rewrite et_payload_len).
  red_bind. rewrite b2n_n2b_small by lia. cmp.
  unfold dec_eventtime. rewrite et_payload_len. cmp. cbv zeta.
  unfold et_payload.
  rewrite firstn_app_exact by apply be_length.
  rewrite skipn_app_exact by apply be_length.
  pose proof (z2n_nonneg 4 s) as E. rewrite m2_4 in E. specialize (E Hs).
  rewrite !unbe_be by (rewrite p256_4; lia).
  unfold nsec_mod. rewrite N.div_small, N.mod_small by lia.
  do 3 f_equal. lia.
Qed.

(* ---------- map keys ---------- *)

Lemma enc_str_lead s : exists b r, enc_str s = b :: r /\
  (160 <= b2n b <= 191 \/ 217 <= b2n b <= 219).
Proof.
  unfold enc_str, enc_str_hdr.
  destruct (N.ltb_spec (len s) 32); [|destruct (N.ltb_spec (len s) 256); [|destruct (N.ltb_spec (len s) 65536)]];
    norm_app; eexists; eexists; (split; [reflexivity|]); rewrite b2n_n2b_small by lia; lia.
Qed.

Lemma rd_map_key_enc k rest : len k < two32 -> rd_map_key (enc_str k ++ rest) = Ok (k, rest).
Proof.
  intros H. destruct (enc_str_lead k) as (b & r & E & Hb).
  unfold rd_map_key. pose proof (rd_str_enc k rest H) as R. rewrite E in *. cbn [app] in *.
  unfold is_bin_lead. cmp; exact R.
Qed.

Lemma rd_rec_key_enc p k rest : len k < two32 -> rd_rec_key p (enc_str k ++ rest) = Ok (k, rest).
Proof.
  intros H. destruct p; cbn [rd_rec_key].
  - now apply rd_map_key_enc.
  - now apply rd_str_enc.
Qed.

Lemma rd_field_key_enc p k rest : len k < two32 -> k <> [] ->
  rd_field_key p (enc_str k ++ rest) = Ok (k, rest).
Proof.
  intros H Hk. destruct p; cbn [rd_field_key].
  - now apply rd_map_key_enc.
  - unfold rd_map_key_ptr. rewrite rd_map_key_enc by auto. red_bind.
    destruct k; [congruence|reflexivity].
Qed.

(* ---------- induction principle for the nested inductive gval ---------- *)

Definition is_leaf (v : gval) : bool := match v with GArr _ | GMap _ => false | _ => true end.

Section gval_ind.
  Variable P : gval -> Prop.
  Hypothesis Hleaf : forall v, is_leaf v = true -> P v.
  Hypothesis Harr : forall l, Forall P l -> P (GArr l).
  Hypothesis Hmap : forall l, Forall (fun kv => P (snd kv)) l -> P (GMap l).

  Fixpoint gval_ind' (v : gval) : P v :=
    match v as v0 return P v0 with
    | GArr l =>
        Harr l ((fix go (l : list gval) : Forall P l :=
                   match l with
                   | [] => Forall_nil _
                   | x :: r => Forall_cons x (gval_ind' x) (go r)
                   end) l)
    | GMap l =>
        Hmap l ((fix go (l : list (bytes * gval)) : Forall (fun kv => P (snd kv)) l :=
                   match l with
                   | [] => Forall_nil _
                   | (k, x) :: r => Forall_cons (P := fun kv => P (snd kv)) (k, x) (gval_ind' x) (go r)
                   end) l)
    | v' => Hleaf v' eq_refl
    end.
End gval_ind.

(* ---------- the encoder on arrays and maps ---------- *)

Fixpoint encs (l : list gval) : res bytes :=
  match l with
  | [] => Ok []
  | x :: r => e <- enc_gval x ;; f <- encs r ;; Ok (e ++ f)
  end.

Fixpoint encm (l : list (bytes * gval)) : res bytes :=
  match l with
  | [] => Ok []
  | (k, x) :: r => e <- enc_gval x ;; f <- encm r ;; Ok (enc_str k ++ e ++ f)
  end.

Lemma enc_garr l : enc_gval (GArr l) = f <- encs l ;; Ok (enc_arr_hdr (len l) ++ f).
Proof.
  cbn [enc_gval]. generalize (enc_arr_hdr (len l)). induction l as [|x r IH]; intros acc.
  - cbn [encs bind]. now rewrite app_nil_r.
  - cbn [encs]. destruct (enc_gval x) as [e| |]; cbn [bind]; auto.
    rewrite IH. destruct (encs r); cbn [bind]; auto. now rewrite app_assoc.
Qed.

Lemma enc_gmap l : enc_gval (GMap l) = f <- encm l ;; Ok (enc_map_hdr (len l) ++ f).
Proof.
  cbn [enc_gval]. generalize (enc_map_hdr (len l)). induction l as [|[k x] r IH]; intros acc.
  - cbn [encm bind]. now rewrite app_nil_r.
  - cbn [encm]. destruct (enc_gval x) as [e| |]; cbn [bind]; auto.
    rewrite IH. destruct (encm r); cbn [bind]; auto. now rewrite <- !app_assoc.
Qed.

Definition asum (l : list gval) : nat := fold_right (fun x a => S (gsize x + a))%nat 0%nat l.
Definition msum (l : list (bytes * gval)) : nat :=
  fold_right (fun kv a => S (gsize (snd kv) + a))%nat 0%nat l.

Lemma gsize_garr l : gsize (GArr l) = S (S (asum l)).
Proof. reflexivity. Qed.
Lemma gsize_gmap l : gsize (GMap l) = S (S (msum l)).
Proof. reflexivity. Qed.
Lemma wf_garr l : wf_gval (GArr l) = (len l <? two32) && forallb wf_gval l.
Proof. reflexivity. Qed.
Lemma wf_gmap l : wf_gval (GMap l) =
  (len l <? two32) && forallb (fun kv => (len (fst kv) <? two32) && wf_gval (snd kv)) l.
Proof. reflexivity. Qed.
Lemma norm_garr l : norm_gval (GArr l) = GArr (map norm_gval l).
Proof. reflexivity. Qed.
Lemma norm_gmap l : norm_gval (GMap l) = GMap (map (fun kv => (fst kv, norm_gval (snd kv))) l).
Proof. reflexivity. Qed.

(* every well-formed value is encodable *)
Lemma enc_gval_wf_ok g : wf_gval g = true -> exists e, enc_gval g = Ok e.
Proof.
  induction g as [v Hv | l IH | l IH] using gval_ind'.
  - destruct v; cbn [wf_gval enc_gval]; try discriminate; intros _; eexists; reflexivity.
  - rewrite wf_garr, enc_garr. intros H. apply andb_prop in H as [_ H].
    assert (exists f, encs l = Ok f) as [f ->].
    { induction IH as [|x r Hx _ IHr]; cbn [encs forallb] in *.
      - eexists; reflexivity.
      - apply andb_prop in H as [H1 H2]. destruct (Hx H1) as [e ->]. destruct (IHr H2) as [f ->].
        cbn [bind]. eexists; reflexivity. }
    cbn [bind]. eexists; reflexivity.
  - rewrite wf_gmap, enc_gmap. intros H. apply andb_prop in H as [_ H].
    assert (exists f, encm l = Ok f) as [f ->].
    { induction IH as [|[k x] r Hx _ IHr]; cbn [encm forallb fst snd] in *.
      - eexists; reflexivity.
      - apply andb_prop in H as [H1 H2]. apply andb_prop in H1 as [_ H1].
        destruct (Hx H1) as [e ->]. destruct (IHr H2) as [f ->].
        cbn [bind]. eexists; reflexivity. }
    cbn [bind]. eexists; reflexivity.
Qed.

(* ---------- lead bytes of the encoders ---------- *)

Lemma enc_bin_lead s : exists b r, enc_bin s = b :: r /\ 196 <= b2n b <= 198.
Proof.
  unfold enc_bin, enc_bin_hdr.
  destruct (N.ltb_spec (len s) 256); [|destruct (N.ltb_spec (len s) 65536)];
    norm_app; eexists; eexists; (split; [reflexivity|]); rewrite b2n_n2b_small by lia; lia.
Qed.

Lemma enc_arr_hdr_lead n : exists b r, enc_arr_hdr n = b :: r /\
  (144 <= b2n b <= 159 \/ 220 <= b2n b <= 221).
Proof.
  unfold enc_arr_hdr, hdr3.
  destruct (N.leb_spec n 15); [|destruct (N.ltb_spec n 65536)];
    eexists; eexists; (split; [reflexivity|]); rewrite b2n_n2b_small by lia; lia.
Qed.

Lemma enc_map_hdr_lead n : exists b r, enc_map_hdr n = b :: r /\
  (128 <= b2n b <= 143 \/ 222 <= b2n b <= 223).
Proof.
  unfold enc_map_hdr, hdr3.
  destruct (N.leb_spec n 15); [|destruct (N.ltb_spec n 65536)];
    eexists; eexists; (split; [reflexivity|]); rewrite b2n_n2b_small by lia; lia.
Qed.

Lemma enc_uint_cases n :
  (n < 128 /\ enc_uint n = [n2b n]) \/
  (128 <= n /\ exists b r, enc_uint n = b :: r /\ 204 <= b2n b <= 207).
Proof.
  unfold enc_uint.
  destruct (N.ltb_spec n 128); [left; auto|right; split; auto].
  destruct (N.ltb_spec n 256); [|destruct (N.ltb_spec n 65536); [|destruct (N.ltb_spec n 4294967296)]];
    eexists; eexists; (split; [reflexivity|]); rewrite b2n_n2b_small by lia; lia.
Qed.

Lemma enc_int_cases z : int64_ok z = true ->
  (exists n, n < 128 /\ z = Z.of_N n /\ enc_int z = [n2b n]) \/
  (exists n, 224 <= n < 256 /\ z = (Z.of_N n - 256)%Z /\ enc_int z = [n2b n]) \/
  (exists b r, enc_int z = b :: r /\ 208 <= b2n b <= 211).
Proof.
  intros H. apply int64_ok_spec in H. unfold enc_int.
  destruct (Z.leb_spec 0 z).
  - cbv zeta. destruct (N.ltb_spec (Z.to_N z) 128).
    + left. exists (Z.to_N z). repeat split; lia.
    + right; right.
      destruct (N.ltb_spec (Z.to_N z) 32768); [|destruct (N.ltb_spec (Z.to_N z) 2147483648)];
        eexists; eexists; (split; [reflexivity|]); rewrite b2n_n2b_small by lia; lia.
  - destruct (Z.leb_spec (-32) z).
    + right; left. pose proof (z2n_neg 1 z) as E. rewrite m2_1 in E. specialize (E ltac:(lia)).
      exists (z2n 1 z). repeat split; lia.
    + right; right.
      destruct (Z.leb_spec (-128) z); [|destruct (Z.leb_spec (-32768) z);
        [|destruct (Z.leb_spec (-2147483648) z)]];
        eexists; eexists; (split; [reflexivity|]); rewrite b2n_n2b_small by lia; lia.
Qed.

(* ---------- lead-byte dispatch of rd_intf ---------- *)

Lemma rd_intf_S p f b r : rd_intf p (S f) (b :: r) =
  let bs := b :: r in
  let n := b2n b in
  if n <? 128 then Ok (GInt (Z.of_N n), r)
  else if n <? 144 then '(c, t) <- rd_map_hdr bs ;; rd_map p f c t []
  else if n <? 160 then '(c, t) <- rd_arr_hdr bs ;; rd_arr p f c t []
  else if n <? 192 then '(s, t) <- rd_str bs ;; Ok (GStr s, t)
  else if n =? 192 then Ok (GNil, r)
  else if n =? 193 then Err EInvalid
  else if n =? 194 then Ok (GBool false, r)
  else if n =? 195 then Ok (GBool true, r)
  else if n <=? 198 then '(s, t) <- rd_bin bs ;; Ok (GBin s, t)
  else if n =? 202 then '(x, t) <- rd_be 4 r ;; Ok (GF32 x, t)
  else if n =? 203 then '(x, t) <- rd_be 8 r ;; Ok (GF64 x, t)
  else if n <=? 201 then rd_intf_ext p bs
  else if n <=? 207 then '(x, t) <- rd_uint64 bs ;; Ok (GUint x, t)
  else if n <=? 211 then '(x, t) <- rd_int64 bs ;; Ok (GInt x, t)
  else if n <=? 216 then rd_intf_ext p bs
  else if n <=? 219 then '(s, t) <- rd_str bs ;; Ok (GStr s, t)
  else if n <=? 221 then '(c, t) <- rd_arr_hdr bs ;; rd_arr p f c t []
  else if n <=? 223 then '(c, t) <- rd_map_hdr bs ;; rd_map p f c t []
  else Ok (GInt (Z.of_N n - 256), r).
Proof. reflexivity. Qed.

Lemma rd_arr_S p f cnt bs acc : rd_arr p (S f) cnt bs acc =
  if cnt =? 0 then Ok (GArr (rev acc), bs)
  else '(v, r) <- rd_intf p f bs ;; rd_arr p f (cnt - 1) r (v :: acc).
Proof. rewrite rev_alt. reflexivity. Qed.

Lemma rd_map_S p f cnt bs acc : rd_map p (S f) cnt bs acc =
  if cnt =? 0 then Ok (GMap (rev acc), bs)
  else '(k, r1) <- rd_rec_key p bs ;;
       '(v, r2) <- rd_intf p f r1 ;;
       rd_map p f (cnt - 1) r2 ((k, v) :: acc).
Proof. rewrite rev_alt. reflexivity. Qed.

(* rd_intf on a byte whose numeric value is known: expose the if-chain on a variable *)
Ltac dispatch H :=
  cbn [app]; rewrite rd_intf_S; cbv zeta; revert H;
  match goal with |- context[b2n ?b] => generalize (b2n b) end;
  intros ? H; cmp; try reflexivity.

Lemma rd_intf_lead_const p f c rest :
  c < 256 ->
  rd_intf p (S f) (n2b c :: rest) =
  let b := n2b c in let bs := b :: rest in let r := rest in let n := c in
  if n <? 128 then Ok (GInt (Z.of_N n), r)
  else if n <? 144 then '(c, t) <- rd_map_hdr bs ;; rd_map p f c t []
  else if n <? 160 then '(c, t) <- rd_arr_hdr bs ;; rd_arr p f c t []
  else if n <? 192 then '(s, t) <- rd_str bs ;; Ok (GStr s, t)
  else if n =? 192 then Ok (GNil, r)
  else if n =? 193 then Err EInvalid
  else if n =? 194 then Ok (GBool false, r)
  else if n =? 195 then Ok (GBool true, r)
  else if n <=? 198 then '(s, t) <- rd_bin bs ;; Ok (GBin s, t)
  else if n =? 202 then '(x, t) <- rd_be 4 r ;; Ok (GF32 x, t)
  else if n =? 203 then '(x, t) <- rd_be 8 r ;; Ok (GF64 x, t)
  else if n <=? 201 then rd_intf_ext p bs
  else if n <=? 207 then '(x, t) <- rd_uint64 bs ;; Ok (GUint x, t)
  else if n <=? 211 then '(x, t) <- rd_int64 bs ;; Ok (GInt x, t)
  else if n <=? 216 then rd_intf_ext p bs
  else if n <=? 219 then '(s, t) <- rd_str bs ;; Ok (GStr s, t)
  else if n <=? 221 then '(c, t) <- rd_arr_hdr bs ;; rd_arr p f c t []
  else if n <=? 223 then '(c, t) <- rd_map_hdr bs ;; rd_map p f c t []
  else Ok (GInt (Z.of_N n - 256), r).
Proof. intros H. rewrite rd_intf_S. cbv zeta. now rewrite (b2n_n2b_small c H). Qed.

Lemma rd_intf_lead_pos p f n rest : n < 128 ->
  rd_intf p (S f) ([n2b n] ++ rest) = Ok (GInt (Z.of_N n), rest).
Proof. intros H. cbn [app]. rewrite rd_intf_lead_const by lia. cbv zeta. cmp; try reflexivity. Qed.

Lemma rd_intf_lead_neg p f n rest : 224 <= n < 256 ->
  rd_intf p (S f) ([n2b n] ++ rest) = Ok (GInt (Z.of_N n - 256), rest).
Proof. intros H. cbn [app]. rewrite rd_intf_lead_const by lia. cbv zeta. cmp; try reflexivity. Qed.

Lemma rd_intf_lead_int p f e rest b r : e = b :: r -> 208 <= b2n b <= 211 ->
  rd_intf p (S f) (e ++ rest) = '(x, t) <- rd_int64 (e ++ rest) ;; Ok (GInt x, t).
Proof. intros -> H. dispatch H. Qed.

Lemma rd_intf_lead_uint p f e rest b r : e = b :: r -> 204 <= b2n b <= 207 ->
  rd_intf p (S f) (e ++ rest) = '(x, t) <- rd_uint64 (e ++ rest) ;; Ok (GUint x, t).
Proof. intros -> H. dispatch H. Qed.

Lemma rd_intf_lead_str p f e rest b r : e = b :: r ->
  (160 <= b2n b <= 191 \/ 217 <= b2n b <= 219) ->
  rd_intf p (S f) (e ++ rest) = '(s, t) <- rd_str (e ++ rest) ;; Ok (GStr s, t).
Proof. intros -> H. dispatch H. Qed.

Lemma rd_intf_lead_bin p f e rest b r : e = b :: r -> 196 <= b2n b <= 198 ->
  rd_intf p (S f) (e ++ rest) = '(s, t) <- rd_bin (e ++ rest) ;; Ok (GBin s, t).
Proof. intros -> H. dispatch H. Qed.

Lemma rd_intf_lead_arr p f e rest b r : e = b :: r ->
  (144 <= b2n b <= 159 \/ 220 <= b2n b <= 221) ->
  rd_intf p (S f) (e ++ rest) = '(c, t) <- rd_arr_hdr (e ++ rest) ;; rd_arr p f c t [].
Proof. intros -> H. dispatch H. Qed.

Lemma rd_intf_lead_map p f e rest b r : e = b :: r ->
  (128 <= b2n b <= 143 \/ 222 <= b2n b <= 223) ->
  rd_intf p (S f) (e ++ rest) = '(c, t) <- rd_map_hdr (e ++ rest) ;; rd_map p f c t [].
Proof. intros -> H. dispatch H. Qed.

(* ---------- element loops ---------- *)

(* the round-trip statement for one value *)
Definition RT (g : gval) : Prop :=
  forall p e rest f, wf_gval g = true -> enc_gval g = Ok e -> (gsize g <= f)%nat ->
  rd_intf p f (e ++ rest) = Ok (norm_gval g, rest).

Lemma rd_arr_ok p l : Forall RT l -> forallb wf_gval l = true ->
  forall flat, encs l = Ok flat ->
  forall f acc rest, (S (asum l) <= f)%nat ->
  rd_arr p f (len l) (flat ++ rest) acc = Ok (GArr (rev acc ++ map norm_gval l), rest).
Proof.
  induction 1 as [|x l Hx _ IH]; intros Hwf flat Henc f acc rest Hf;
    (destruct f as [|f]; [lia|]); rewrite rd_arr_S.
  - cbn [encs] in Henc. injection Henc as <-. rewrite len_nil. cmp.
    cbn [map app]. now rewrite app_nil_r.
  - cbn [forallb] in Hwf. apply andb_prop in Hwf as [Hw1 Hw2].
    cbn [encs] in Henc. destruct (enc_gval x) as [e| |] eqn:Ex; try discriminate.
    destruct (encs l) as [fl| |] eqn:El; try discriminate.
    cbn [bind] in Henc. injection Henc as <-.
    unfold asum in Hf; cbn [fold_right] in Hf; fold (asum l) in Hf.
    rewrite len_cons. cmp. rewrite <- app_assoc.
    rewrite (Hx p e (fl ++ rest) f Hw1 Ex) by lia. red_bind.
    replace (len l + 1 - 1) with (len l) by lia.
    rewrite (IH Hw2 fl eq_refl) by lia.
    cbn [rev map]. now rewrite <- app_assoc.
Qed.

Lemma rd_map_ok p l : Forall (fun kv => RT (snd kv)) l ->
  forallb (fun kv => (len (fst kv) <? two32) && wf_gval (snd kv)) l = true ->
  forall flat, encm l = Ok flat ->
  forall f acc rest, (S (msum l) <= f)%nat ->
  rd_map p f (len l) (flat ++ rest) acc =
  Ok (GMap (rev acc ++ map (fun kv => (fst kv, norm_gval (snd kv))) l), rest).
Proof.
  induction 1 as [|[k x] l Hx _ IH]; intros Hwf flat Henc f acc rest Hf;
    (destruct f as [|f]; [lia|]); rewrite rd_map_S.
  - cbn [encm] in Henc. injection Henc as <-. rewrite len_nil. cmp.
    cbn [map app]. now rewrite app_nil_r.
  - cbn [forallb fst snd] in *. apply andb_prop in Hwf as [Hw1 Hw2].
    apply andb_prop in Hw1 as [Hk Hw1]. apply N.ltb_lt in Hk.
    cbn [encm] in Henc. destruct (enc_gval x) as [e| |] eqn:Ex; try discriminate.
    destruct (encm l) as [fl| |] eqn:El; try discriminate.
    cbn [bind] in Henc. injection Henc as <-.
    unfold msum in Hf; cbn [fold_right snd] in Hf; fold (msum l) in Hf.
    rewrite len_cons. cmp. rewrite <- !app_assoc.
    rewrite rd_rec_key_enc by assumption. red_bind.
    rewrite (Hx p e (fl ++ rest) f Hw1 Ex) by lia. red_bind.
    replace (len l + 1 - 1) with (len l) by lia.
    rewrite (IH Hw2 fl eq_refl) by lia.
    cbn [rev map fst snd]. now rewrite <- app_assoc.
Qed.

(* ---------- main round trip ---------- *)

Lemma rd_intf_enc_RT g : RT g.
Proof.
  induction g as [v Hv | l IH | l IH] using gval_ind'; unfold RT; intros p e rest f Hwf Henc Hf.
  - destruct v; cbn [wf_gval is_leaf] in *; try discriminate;
      cbn [enc_gval] in Henc; injection Henc as <-;
      cbn [gsize] in Hf; (destruct f as [|f]; [lia|]); cbn [norm_gval].
    + (* nil *) unfold enc_nil. cbn [app]. rewrite rd_intf_lead_const by lia. cbv zeta. cmp; reflexivity.
    + (* bool *) unfold enc_bool. cbn [app].
      destruct b; rewrite rd_intf_lead_const by lia; cbv zeta; cmp; reflexivity.
    + (* int *)
      destruct (enc_int_cases z Hwf) as [(n & Hn & -> & E) | [(n & Hn & -> & E) | (b & r & E & Hb)]].
      * rewrite E. now apply rd_intf_lead_pos.
      * rewrite E. now apply rd_intf_lead_neg.
      * rewrite (rd_intf_lead_int p f _ rest b r E Hb).
        rewrite rd_int64_enc by assumption. reflexivity.
    + (* uint *)
      apply N.ltb_lt in Hwf.
      destruct (enc_uint_cases n) as [(Hn & E) | (Hn & b & r & E & Hb)].
      * rewrite E. destruct (N.ltb_spec n 128); [|lia]. now apply rd_intf_lead_pos.
      * rewrite (rd_intf_lead_uint p f _ rest b r E Hb).
        rewrite rd_uint64_enc by assumption. red_bind.
        destruct (N.ltb_spec n 128); [lia|]. reflexivity.
    + (* f32 *) apply N.ltb_lt in Hwf. unfold two32 in Hwf. unfold enc_f32. cbn [app].
      rewrite rd_intf_lead_const by lia. cbv zeta. cmp.
      rewrite rd_be_app4 by lia. reflexivity.
    + (* f64 *) apply N.ltb_lt in Hwf. unfold two64 in Hwf. unfold enc_f64. cbn [app].
      rewrite rd_intf_lead_const by lia. cbv zeta. cmp.
      rewrite rd_be_app8 by lia. reflexivity.
    + (* str *) apply N.ltb_lt in Hwf.
      destruct (enc_str_lead s) as (b & r & E & Hb).
      rewrite (rd_intf_lead_str p f _ rest b r E Hb).
      rewrite rd_str_enc by assumption. reflexivity.
    + (* bin *) apply N.ltb_lt in Hwf.
      destruct (enc_bin_lead s) as (b & r & E & Hb).
      rewrite (rd_intf_lead_bin p f _ rest b r E Hb).
      rewrite rd_bin_enc by assumption. reflexivity.
  - (* array *)
    rewrite wf_garr in Hwf. apply andb_prop in Hwf as [Hl Hwf]. apply N.ltb_lt in Hl.
    rewrite enc_garr in Henc. destruct (encs l) as [fl| |] eqn:El; try discriminate.
    cbn [bind] in Henc. injection Henc as <-.
    rewrite gsize_garr in Hf. destruct f as [|f]; [lia|].
    rewrite <- app_assoc.
    destruct (enc_arr_hdr_lead (len l)) as (b & r & E & Hb).
    rewrite (rd_intf_lead_arr p f _ (fl ++ rest) b r E Hb).
    rewrite rd_arr_hdr_enc by assumption. red_bind.
    rewrite (rd_arr_ok p l IH Hwf fl El) by lia.
    rewrite norm_garr. reflexivity.
  - (* map *)
    rewrite wf_gmap in Hwf. apply andb_prop in Hwf as [Hl Hwf]. apply N.ltb_lt in Hl.
    rewrite enc_gmap in Henc. destruct (encm l) as [fl| |] eqn:El; try discriminate.
    cbn [bind] in Henc. injection Henc as <-.
    rewrite gsize_gmap in Hf. destruct f as [|f]; [lia|].
    rewrite <- app_assoc.
    destruct (enc_map_hdr_lead (len l)) as (b & r & E & Hb).
    rewrite (rd_intf_lead_map p f _ (fl ++ rest) b r E Hb).
    rewrite rd_map_hdr_enc by assumption. red_bind.
    rewrite (rd_map_ok p l IH Hwf fl El) by lia.
    rewrite norm_gmap. reflexivity.
Qed.

(* main round trip, both decoding paths, any trailing bytes *)
Theorem rd_intf_enc : forall p g e rest, wf_gval g = true -> enc_gval g = Ok e ->
  forall f, (gsize g <= f)%nat -> rd_intf p f (e ++ rest) = Ok (norm_gval g, rest).
Proof. intros p g e rest Hwf Henc f Hf. now apply rd_intf_enc_RT. Qed.

(* ---------- the fuel the decoders actually use is enough ---------- *)

Ltac len_pos :=
  repeat match goal with |- context[if ?c then _ else _] => destruct c end;
  rewrite ?app_length; cbn [length]; lia.

Lemma enc_arr_hdr_len n : (1 <= length (enc_arr_hdr n))%nat.
Proof. unfold enc_arr_hdr, hdr3. len_pos. Qed.
Lemma enc_map_hdr_len n : (1 <= length (enc_map_hdr n))%nat.
Proof. unfold enc_map_hdr, hdr3. len_pos. Qed.
Lemma enc_str_len s : (1 <= length (enc_str s))%nat.
Proof. unfold enc_str, enc_str_hdr. len_pos. Qed.
Lemma enc_bin_len s : (1 <= length (enc_bin s))%nat.
Proof. unfold enc_bin, enc_bin_hdr. len_pos. Qed.
Lemma enc_int_len z : (1 <= length (enc_int z))%nat.
Proof. unfold enc_int. cbv zeta. len_pos. Qed.
Lemma enc_uint_len n : (1 <= length (enc_uint n))%nat.
Proof. unfold enc_uint. len_pos. Qed.
Lemma enc_ext_len ty d : (1 <= length (enc_ext ty d))%nat.
Proof. unfold enc_ext. cbv zeta. len_pos. Qed.

(* every node of a value costs at most three units of fuel per encoded byte *)
Lemma gsize_len g : forall e, enc_gval g = Ok e -> (gsize g + 1 <= 3 * length e)%nat.
Proof.
  induction g as [v Hv | l IH | l IH] using gval_ind'; intros e Henc.
  - destruct v; cbn [is_leaf] in Hv; try discriminate;
      cbn [enc_gval] in Henc; try discriminate; injection Henc as <-; cbn [gsize].
    + unfold enc_nil. cbn [length]. lia.
    + unfold enc_bool. cbn [length]. lia.
    + pose proof (enc_int_len z). lia.
    + pose proof (enc_uint_len n). lia.
    + unfold enc_f32. cbn [length]. lia.
    + unfold enc_f64. cbn [length]. lia.
    + pose proof (enc_str_len s). lia.
    + pose proof (enc_bin_len s). lia.
    + unfold enc_time. cbn [length]. lia.
    + cbn [length]. lia.
    + cbn [length]. lia.
    + unfold enc_eventtime. pose proof (enc_ext_len 0 (et_payload sec nsec)). lia.
    + pose proof (enc_ext_len ty data). lia.
  - rewrite enc_garr in Henc. destruct (encs l) as [fl| |] eqn:El; try discriminate.
    cbn [bind] in Henc. injection Henc as <-.
    assert (H : (asum l <= 3 * length fl)%nat).
    { clear - IH El. revert fl El. induction IH as [|x r Hx _ IHr]; intros fl El; cbn [encs] in El.
      - injection El as <-. cbn. lia.
      - destruct (enc_gval x) as [e| |] eqn:Ex; try discriminate.
        destruct (encs r) as [fr| |] eqn:Er; try discriminate.
        cbn [bind] in El. injection El as <-.
        specialize (Hx e eq_refl). specialize (IHr fr eq_refl).
        unfold asum; cbn [fold_right]; fold (asum r). rewrite app_length. lia. }
    rewrite gsize_garr, app_length. pose proof (enc_arr_hdr_len (len l)). lia.
  - rewrite enc_gmap in Henc. destruct (encm l) as [fl| |] eqn:El; try discriminate.
    cbn [bind] in Henc. injection Henc as <-.
    assert (H : (msum l <= 3 * length fl)%nat).
    { clear - IH El. revert fl El. induction IH as [|[k x] r Hx _ IHr]; intros fl El; cbn [encm] in El.
      - injection El as <-. cbn. lia.
      - cbn [snd] in Hx.
        destruct (enc_gval x) as [e| |] eqn:Ex; try discriminate.
        destruct (encm r) as [fr| |] eqn:Er; try discriminate.
        cbn [bind] in El. injection El as <-.
        specialize (Hx e eq_refl). specialize (IHr fr eq_refl).
        unfold msum; cbn [fold_right snd]; fold (msum r). rewrite !app_length. lia. }
    rewrite gsize_gmap, app_length. pose proof (enc_map_hdr_len (len l)). lia.
Qed.

Lemma gsize_fuel g e rest : enc_gval g = Ok e -> (gsize g <= fuel_for (e ++ rest))%nat.
Proof.
  intros H. apply gsize_len in H. unfold fuel_for. rewrite app_length. lia.
Qed.

Corollary rd_intf_enc_fuel p g e rest : wf_gval g = true -> enc_gval g = Ok e ->
  rd_intf p (fuel_for (e ++ rest)) (e ++ rest) = Ok (norm_gval g, rest).
Proof.
  intros Hwf Henc. apply rd_intf_enc; auto. now apply gsize_fuel.
Qed.

Print Assumptions rd_intf_enc.
Print Assumptions rd_intf_enc_fuel.
