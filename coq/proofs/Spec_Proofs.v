(* The specification parser (Spec.parse) on the library's encodings (the Msgp encoders):
   the specification assigns to the encoding of g exactly value_of g; consumption,
   fuel monotonicity, and adequacy of the fuel parse1 uses. *)
From FF Require Import model.Bytes model.Msgp model.Spec model.Abs model.Wf proofs.Bytes_Proofs.
From FF Require Import proofs.Take_Proofs.
From Coq Require Import Lia ZifyN ZifyNat ZifyBool.
Open Scope N_scope.

Ltac Zify.zify_post_hook ::= Z.div_mod_to_equations.

(* ---------- tactics for the comparison chains ---------- *)

Ltac case_cond c :=
  lazymatch c with
  | N.ltb ?a ?b => destruct (N.ltb_spec a b)
  | N.leb ?a ?b => destruct (N.leb_spec a b)
  | N.eqb ?a ?b => destruct (N.eqb_spec a b)
  | Z.leb ?a ?b => destruct (Z.leb_spec a b)
  | Z.ltb ?a ?b => destruct (Z.ltb_spec a b)
  end.
(* split on the first conditional of the goal *)
Ltac case_if := match goal with |- context[if ?c then _ else _] => case_cond c end.
(* decide the conditional at the head of the left-hand side *)
Ltac head_if :=
  match goal with |- (if ?c then _ else _) = _ => case_cond c; try (exfalso; lia) end.

(* ---------- lengths, otake, onum ---------- *)

Lemma len_app {A} (a b : list A) : len (a ++ b) = len a + len b.
Proof. unfold len. rewrite app_length. lia. Qed.

Lemma len_nil {A} : len (@nil A) = 0.
Proof. reflexivity. Qed.

Lemma len_cons_pred {A} (x : A) l : len (x :: l) - 1 = len l.
Proof. unfold len. cbn [length]. lia. Qed.

Lemma len_cons_nz {A} (x : A) l : (len (x :: l) =? 0) = false.
Proof. apply N.eqb_neq. unfold len. cbn [length]. lia. Qed.

Lemma otake_app s rest : otake (len s) (s ++ rest) = Some (s, rest).
Proof.
  rewrite !otake_unfold. rewrite len_app.
  destruct (N.leb_spec (len s) (len s + len rest)); [|lia].
  unfold len. rewrite Nnat.Nat2N.id.
  rewrite firstn_app, skipn_app, Nat.sub_diag, firstn_all, skipn_all.
  cbn [firstn skipn app]. rewrite app_nil_r. reflexivity.
Qed.

Lemma onum_app k n rest : n < 256 ^ k -> onum k (be (N.to_nat k) n ++ rest) = Some (n, rest).
Proof.
  intros H. unfold onum.
  pose proof (otake_app (be (N.to_nat k) n) rest) as E.
  replace (len (be (N.to_nat k) n)) with k in E by (unfold len; rewrite be_length; lia).
  rewrite E. rewrite unbe_be; [reflexivity|]. rewrite Nnat.N2Nat.id. exact H.
Qed.

Lemma onum_be1 n rest : n < 256 -> onum 1 (be 1 n ++ rest) = Some (n, rest).
Proof. intros H. exact (onum_app 1 n rest H). Qed.
Lemma onum_be2 n rest : n < 65536 -> onum 2 (be 2 n ++ rest) = Some (n, rest).
Proof. intros H. exact (onum_app 2 n rest H). Qed.
Lemma onum_be4 n rest : n < 4294967296 -> onum 4 (be 4 n ++ rest) = Some (n, rest).
Proof. intros H. exact (onum_app 4 n rest H). Qed.
Lemma onum_be8 n rest : n < 18446744073709551616 -> onum 8 (be 8 n ++ rest) = Some (n, rest).
Proof. intros H. exact (onum_app 8 n rest H). Qed.

Lemma onum1_cons b r : onum 1 (b :: r) = Some (b2n b, r).
Proof.
  unfold onum; rewrite !otake_unfold.
  destruct (N.leb_spec 1 (len (b :: r))) as [_|H]; [|unfold len in H; cbn [length] in H; lia].
  change (N.to_nat 1) with 1%nat. cbn [firstn skipn]. unfold unbe. cbn [unbe_acc].
  replace (0 * 256 + b2n b) with (b2n b) by lia. reflexivity.
Qed.

(* ---------- two's complement ---------- *)

Lemma n2z_z2n k z :
  let M := (2 ^ (8 * Z.of_nat k))%Z in
  (- (M / 2) <= z < M / 2)%Z -> n2z k (z2n k z) = z.
Proof.
  intros M H. unfold n2z, z2n. fold M. cbv zeta.
  assert (HM : (0 < M)%Z) by (apply Z.pow_pos_nonneg; lia).
  assert (Hh : (M / 2 <= M - M / 2)%Z) by lia.
  set (h := (M / 2)%Z) in *.
  rewrite Z2N.id by (apply Z.mod_pos_bound; exact HM).
  destruct (Z.le_gt_cases 0 z) as [Hz|Hz].
  - rewrite Z.mod_small by lia. destruct (Z.ltb_spec z h); lia.
  - assert (E : (z mod M = z + M)%Z).
    { rewrite <- (Z.mod_add z 1 M) by lia. rewrite Z.mul_1_l. apply Z.mod_small. lia. }
    rewrite E. destruct (Z.ltb_spec (z + M) h); lia.
Qed.

Lemma n2z_z2n_1 z : (-128 <= z < 128)%Z -> n2z 1 (z2n 1 z) = z.
Proof. exact (n2z_z2n 1 z). Qed.
Lemma n2z_z2n_2 z : (-32768 <= z < 32768)%Z -> n2z 2 (z2n 2 z) = z.
Proof. exact (n2z_z2n 2 z). Qed.
Lemma n2z_z2n_4 z : (-2147483648 <= z < 2147483648)%Z -> n2z 4 (z2n 4 z) = z.
Proof. exact (n2z_z2n 4 z). Qed.
Lemma n2z_z2n_8 z : (-9223372036854775808 <= z < 9223372036854775808)%Z -> n2z 8 (z2n 8 z) = z.
Proof. exact (n2z_z2n 8 z). Qed.

Lemma z2n_lt_1 z : z2n 1 z < 256.
Proof. unfold z2n. change (2 ^ (8 * Z.of_nat 1))%Z with 256%Z. lia. Qed.
Lemma z2n_lt_2 z : z2n 2 z < 65536.
Proof. unfold z2n. change (2 ^ (8 * Z.of_nat 2))%Z with 65536%Z. lia. Qed.
Lemma z2n_lt_4 z : z2n 4 z < 4294967296.
Proof. unfold z2n. change (2 ^ (8 * Z.of_nat 4))%Z with 4294967296%Z. lia. Qed.
Lemma z2n_lt_8 z : z2n 8 z < 18446744073709551616.
Proof. unfold z2n. change (2 ^ (8 * Z.of_nat 8))%Z with 18446744073709551616%Z. lia. Qed.

Lemma z2n_1_neg z : (-256 <= z < 0)%Z -> Z.of_N (z2n 1 z) = (z + 256)%Z.
Proof. intros H. unfold z2n. change (2 ^ (8 * Z.of_nat 1))%Z with 256%Z. lia. Qed.

Lemma n2z_small k n : (Z.of_N n < 2 ^ (8 * Z.of_nat k) / 2)%Z -> n2z k n = Z.of_N n.
Proof.
  intros H. unfold n2z. cbv zeta.
  destruct (Z.ltb_spec (Z.of_N n) (2 ^ (8 * Z.of_nat k) / 2)) as [_|H']; [reflexivity|].
  exfalso. revert H H'. generalize (2 ^ (8 * Z.of_nat k) / 2)%Z. intros; lia.
Qed.

Lemma n2z_small_2 n : n < 32768 -> n2z 2 n = Z.of_N n.
Proof. intros H. apply n2z_small. change (2 ^ (8 * Z.of_nat 2) / 2)%Z with 32768%Z. lia. Qed.
Lemma n2z_small_4 n : n < 2147483648 -> n2z 4 n = Z.of_N n.
Proof. intros H. apply n2z_small. change (2 ^ (8 * Z.of_nat 4) / 2)%Z with 2147483648%Z. lia. Qed.
Lemma n2z_small_8 n : n < 9223372036854775808 -> n2z 8 n = Z.of_N n.
Proof. intros H. apply n2z_small. change (2 ^ (8 * Z.of_nat 8) / 2)%Z with 9223372036854775808%Z. lia. Qed.

(* ---------- scalars and headers ---------- *)

Lemma parse_enc_int f z rest : int64_ok z = true -> parse (S f) (enc_int z ++ rest) = Some (VInt z, rest).
Proof.
  unfold int64_ok. intros H. apply andb_prop in H as [H1 H2].
  apply Z.leb_le in H1. apply Z.ltb_lt in H2.
  unfold enc_int. cbv zeta. repeat case_if; cbn [app parse].
  - rewrite b2n_n2b_small by lia. repeat head_if. rewrite Z2N.id by lia. reflexivity.
  - rewrite b2n_n2b_small by lia. repeat head_if.
    rewrite onum_be2 by lia. cbn [obind]. rewrite n2z_small_2 by lia. rewrite Z2N.id by lia. reflexivity.
  - rewrite b2n_n2b_small by lia. repeat head_if.
    rewrite onum_be4 by lia. cbn [obind]. rewrite n2z_small_4 by lia. rewrite Z2N.id by lia. reflexivity.
  - rewrite b2n_n2b_small by lia. repeat head_if.
    rewrite onum_be8 by lia. cbn [obind]. rewrite n2z_small_8 by lia. rewrite Z2N.id by lia. reflexivity.
  - pose proof (z2n_1_neg z ltac:(lia)) as E. set (x := z2n 1 z) in *.
    rewrite b2n_n2b_small by lia. repeat head_if. f_equal. f_equal. f_equal. lia.
  - rewrite b2n_n2b_small by lia. repeat head_if.
    rewrite onum_be1 by apply z2n_lt_1. cbn [obind]. rewrite n2z_z2n_1 by lia. reflexivity.
  - rewrite b2n_n2b_small by lia. repeat head_if.
    rewrite onum_be2 by apply z2n_lt_2. cbn [obind]. rewrite n2z_z2n_2 by lia. reflexivity.
  - rewrite b2n_n2b_small by lia. repeat head_if.
    rewrite onum_be4 by apply z2n_lt_4. cbn [obind]. rewrite n2z_z2n_4 by lia. reflexivity.
  - rewrite b2n_n2b_small by lia. repeat head_if.
    rewrite onum_be8 by apply z2n_lt_8. cbn [obind]. rewrite n2z_z2n_8 by lia. reflexivity.
Qed.

Lemma parse_enc_uint f n rest : n < two64 -> parse (S f) (enc_uint n ++ rest) = Some (VInt (Z.of_N n), rest).
Proof.
  unfold two64. intros H. unfold enc_uint. repeat case_if; cbn [app parse].
  all: rewrite b2n_n2b_small by lia; repeat head_if.
  - reflexivity.
  - rewrite onum_be1 by lia. reflexivity.
  - rewrite onum_be2 by lia. reflexivity.
  - rewrite onum_be4 by lia. reflexivity.
  - rewrite onum_be8 by lia. reflexivity.
Qed.

Lemma parse_enc_str f s rest : len s < two32 -> parse (S f) (enc_str s ++ rest) = Some (VStr s, rest).
Proof.
  unfold two32. intros H. unfold enc_str, enc_str_hdr. rewrite <- app_assoc.
  repeat case_if; cbn [app parse].
  all: rewrite b2n_n2b_small by lia; repeat head_if.
  - replace (160 + len s - 160) with (len s) by lia. rewrite otake_app. reflexivity.
  - unfold sized. rewrite onum_be1 by lia. cbn [obind]. rewrite otake_app. reflexivity.
  - unfold sized. rewrite onum_be2 by lia. cbn [obind]. rewrite otake_app. reflexivity.
  - unfold sized. rewrite onum_be4 by lia. cbn [obind]. rewrite otake_app. reflexivity.
Qed.

Lemma parse_enc_bin f s rest : len s < two32 -> parse (S f) (enc_bin s ++ rest) = Some (VBin s, rest).
Proof.
  unfold two32. intros H. unfold enc_bin, enc_bin_hdr. rewrite <- app_assoc.
  repeat case_if; cbn [app parse].
  all: rewrite b2n_n2b_small by lia; repeat head_if.
  - unfold sized. rewrite onum_be1 by lia. cbn [obind]. rewrite otake_app. reflexivity.
  - unfold sized. rewrite onum_be2 by lia. cbn [obind]. rewrite otake_app. reflexivity.
  - unfold sized. rewrite onum_be4 by lia. cbn [obind]. rewrite otake_app. reflexivity.
Qed.

Lemma parse_enc_nil f rest : parse (S f) (enc_nil ++ rest) = Some (VNil, rest).
Proof.
  unfold enc_nil. cbn [app parse]. rewrite b2n_n2b_small by lia. reflexivity.
Qed.

Lemma parse_enc_bool f b rest : parse (S f) (enc_bool b ++ rest) = Some (VBool b, rest).
Proof.
  unfold enc_bool. cbn [app parse]. destruct b; rewrite b2n_n2b_small by lia; reflexivity.
Qed.

Lemma parse_enc_f32 f b rest : b < two32 -> parse (S f) (enc_f32 b ++ rest) = Some (VF32 b, rest).
Proof.
  unfold two32, enc_f32. intros H. cbn [app parse]. rewrite b2n_n2b_small by lia.
  repeat head_if. rewrite onum_be4 by lia. reflexivity.
Qed.

Lemma parse_enc_f64 f b rest : b < two64 -> parse (S f) (enc_f64 b ++ rest) = Some (VF64 b, rest).
Proof.
  unfold two64, enc_f64. intros H. cbn [app parse]. rewrite b2n_n2b_small by lia.
  repeat head_if. rewrite onum_be8 by lia. reflexivity.
Qed.

Lemma len_et_payload s n : len (et_payload s n) = 8.
Proof. unfold et_payload, len. rewrite app_length, !be_length. reflexivity. Qed.

Lemma parse_enc_eventtime f s n rest : wf_instant (s, n) = true ->
  parse (S f) (enc_eventtime s n ++ rest) = Some (VExt 0 (et_payload s n), rest).
Proof.
  intros _. unfold enc_eventtime, enc_ext. cbv zeta. rewrite len_et_payload.
  repeat (case_if; try lia). cbn [app parse].
  rewrite b2n_n2b_small by lia. repeat head_if.
  unfold ext_fixed. rewrite onum1_cons. cbn [obind]. rewrite b2n_n2b_small by lia.
  pose proof (otake_app (et_payload s n) rest) as E. rewrite len_et_payload in E.
  rewrite E. reflexivity.
Qed.

Lemma parse_enc_arr_hdr f n rest : n < two32 -> parse (S f) (enc_arr_hdr n ++ rest) = parse_arr f n rest [].
Proof.
  unfold two32, enc_arr_hdr, hdr3. intros H. repeat case_if; cbn [app parse].
  all: rewrite b2n_n2b_small by lia; repeat head_if.
  - replace (144 + n - 144) with n by lia. reflexivity.
  - rewrite onum_be2 by lia. reflexivity.
  - rewrite onum_be4 by lia. reflexivity.
Qed.

Lemma parse_enc_map_hdr f n rest : n < two32 -> parse (S f) (enc_map_hdr n ++ rest) = parse_map f n rest [].
Proof.
  unfold two32, enc_map_hdr, hdr3. intros H. repeat case_if; cbn [app parse].
  all: rewrite b2n_n2b_small by lia; repeat head_if.
  - replace (128 + n - 128) with n by lia. reflexivity.
  - rewrite onum_be2 by lia. reflexivity.
  - rewrite onum_be4 by lia. reflexivity.
Qed.

(* ---------- induction principle for the nested inductive gval ---------- *)

Section GvalInd.
  Variable P : gval -> Prop.
  Hypothesis HNil : P GNil.
  Hypothesis HBool : forall b, P (GBool b).
  Hypothesis HInt : forall z, P (GInt z).
  Hypothesis HUint : forall n, P (GUint n).
  Hypothesis HF32 : forall b, P (GF32 b).
  Hypothesis HF64 : forall b, P (GF64 b).
  Hypothesis HStr : forall s, P (GStr s).
  Hypothesis HBin : forall s, P (GBin s).
  Hypothesis HArr : forall l, Forall P l -> P (GArr l).
  Hypothesis HMap : forall l, Forall (fun kv => P (snd kv)) l -> P (GMap l).
  Hypothesis HTime : forall s n, P (GTime s n).
  Hypothesis HC64 : forall b, P (GC64 b).
  Hypothesis HC128 : forall h l, P (GC128 h l).
  Hypothesis HEventTime : forall s n, P (GEventTime s n).
  Hypothesis HRawExt : forall t d, P (GRawExt t d).
  Hypothesis HBad : P GBad.

  Fixpoint gval_ind' (g : gval) : P g :=
    match g with
    | GNil => HNil
    | GBool b => HBool b
    | GInt z => HInt z
    | GUint n => HUint n
    | GF32 b => HF32 b
    | GF64 b => HF64 b
    | GStr s => HStr s
    | GBin s => HBin s
    | GArr l =>
        HArr l ((fix go (l : list gval) : Forall P l :=
                   match l with
                   | [] => Forall_nil _
                   | x :: r => Forall_cons x (gval_ind' x) (go r)
                   end) l)
    | GMap l =>
        HMap l ((fix go (l : list (bytes * gval)) : Forall (fun kv => P (snd kv)) l :=
                   match l with
                   | [] => Forall_nil _
                   | kv :: r =>
                       Forall_cons (P := fun kv => P (snd kv)) kv
                         (match kv as kv0 return P (snd kv0) with (k, x) => gval_ind' x end)
                         (go r)
                   end) l)
    | GTime s n => HTime s n
    | GC64 b => HC64 b
    | GC128 h l => HC128 h l
    | GEventTime s n => HEventTime s n
    | GRawExt t d => HRawExt t d
    | GBad => HBad
    end.
End GvalInd.

(* ---------- equations for the container cases ---------- *)

Definition enc_arr_go :=
  fix go (l : list gval) (acc : bytes) : res bytes :=
    match l with
    | [] => Ok acc
    | x :: r => e <- enc_gval x ;; go r (acc ++ e)
    end.

Definition enc_map_go :=
  fix go (l : list (bytes * gval)) (acc : bytes) : res bytes :=
    match l with
    | [] => Ok acc
    | (k, x) :: r => e <- enc_gval x ;; go r (acc ++ enc_str k ++ e)
    end.

Lemma enc_gval_arr l : enc_gval (GArr l) = enc_arr_go l (enc_arr_hdr (len l)).
Proof. reflexivity. Qed.
Lemma enc_gval_map l : enc_gval (GMap l) = enc_map_go l (enc_map_hdr (len l)).
Proof. reflexivity. Qed.

Lemma enc_arr_go_cons x r acc :
  enc_arr_go (x :: r) acc = (e <- enc_gval x ;; enc_arr_go r (acc ++ e)).
Proof. reflexivity. Qed.
Lemma enc_map_go_cons k x r acc :
  enc_map_go ((k, x) :: r) acc = (e <- enc_gval x ;; enc_map_go r (acc ++ enc_str k ++ e)).
Proof. reflexivity. Qed.

Definition asum (l : list gval) : nat := fold_right (fun x a => S (gsize x + a))%nat 0%nat l.
Definition msum (l : list (bytes * gval)) : nat :=
  fold_right (fun kv a => S (gsize (snd kv) + a))%nat 0%nat l.

Lemma gsize_arr l : gsize (GArr l) = S (S (asum l)).
Proof. reflexivity. Qed.
Lemma gsize_map l : gsize (GMap l) = S (S (msum l)).
Proof. reflexivity. Qed.
Lemma asum_cons x l : asum (x :: l) = S (gsize x + asum l).
Proof. reflexivity. Qed.
Lemma msum_cons kv l : msum (kv :: l) = S (gsize (snd kv) + msum l).
Proof. reflexivity. Qed.

Lemma wf_gval_arr l : wf_gval (GArr l) = (len l <? two32) && forallb wf_gval l.
Proof. reflexivity. Qed.
Lemma wf_gval_map l :
  wf_gval (GMap l) =
  (len l <? two32) && forallb (fun kv => (len (fst kv) <? two32) && wf_gval (snd kv)) l.
Proof. reflexivity. Qed.

Lemma value_of_arr l : value_of (GArr l) = VArr (map value_of l).
Proof. reflexivity. Qed.
Lemma value_of_map l :
  value_of (GMap l) = VMap (map (fun kv => (VStr (fst kv), value_of (snd kv))) l).
Proof. reflexivity. Qed.

(* the inner loops of enc_gval: accumulator plus the concatenated element encodings *)
Lemma enc_arr_go_ok l : forall acc e, enc_arr_go l acc = Ok e ->
  exists es, Forall2 (fun x ex => enc_gval x = Ok ex) l es /\ e = acc ++ concat es.
Proof.
  induction l as [|x r IH]; intros acc e H.
  - inversion H; subst. exists []. split; [constructor|]. cbn [concat]. now rewrite app_nil_r.
  - rewrite enc_arr_go_cons in H. destruct (enc_gval x) as [ex| |] eqn:E; cbn [bind] in H; try discriminate.
    destruct (IH _ _ H) as (es & HF & ->).
    exists (ex :: es). split; [constructor; auto|]. cbn [concat]. now rewrite app_assoc.
Qed.

Lemma enc_map_go_ok l : forall acc e, enc_map_go l acc = Ok e ->
  exists es, Forall2 (fun kv ee => exists ex, enc_gval (snd kv) = Ok ex /\ ee = enc_str (fst kv) ++ ex) l es
             /\ e = acc ++ concat es.
Proof.
  induction l as [|[k x] r IH]; intros acc e H.
  - inversion H; subst. exists []. split; [constructor|]. cbn [concat]. now rewrite app_nil_r.
  - rewrite enc_map_go_cons in H. destruct (enc_gval x) as [ex| |] eqn:E; cbn [bind] in H; try discriminate.
    destruct (IH _ _ H) as (es & HF & ->).
    exists ((enc_str k ++ ex) :: es). split.
    + constructor; auto. exists ex. auto.
    + cbn [concat]. now rewrite !app_assoc.
Qed.

(* ---------- the loops of the specification parser on concatenated encodings ---------- *)

(* round trip of one value at every sufficient fuel and every trailing input *)
Definition rt (x : gval) (ex : bytes) : Prop :=
  forall f rest, (gsize x <= f)%nat -> parse f (ex ++ rest) = Some (value_of x, rest).

Lemma parse_arr_loop l es : Forall2 rt l es ->
  forall fuel acc rest, (asum l < fuel)%nat ->
  parse_arr fuel (len l) (concat es ++ rest) acc = Some (VArr (rev acc ++ map value_of l), rest).
Proof.
  induction 1 as [|x ex l es Hx HF IH]; intros fuel acc rest Hf;
    (destruct fuel as [|f]; [lia|]); cbn [parse_arr].
  - rewrite len_nil. cbn [N.eqb concat app map]. now rewrite <- rev_alt, app_nil_r.
  - rewrite len_cons_nz, len_cons_pred. rewrite asum_cons in Hf.
    cbn [concat]. rewrite <- app_assoc. rewrite (Hx f) by lia. cbn [obind].
    rewrite IH by lia. cbn [rev map]. now rewrite <- app_assoc.
Qed.

Definition rt_kv (kv : bytes * gval) (ee : bytes) : Prop :=
  exists ex, ee = enc_str (fst kv) ++ ex /\ len (fst kv) < two32 /\ rt (snd kv) ex.

Lemma parse_map_loop l es : Forall2 rt_kv l es ->
  forall fuel acc rest, (msum l < fuel)%nat ->
  parse_map fuel (len l) (concat es ++ rest) acc =
  Some (VMap (rev acc ++ map (fun kv => (VStr (fst kv), value_of (snd kv))) l), rest).
Proof.
  induction 1 as [|kv ee l es Hx HF IH]; intros fuel acc rest Hf;
    (destruct fuel as [|f]; [lia|]); cbn [parse_map].
  - rewrite len_nil. cbn [N.eqb concat app map]. now rewrite <- rev_alt, app_nil_r.
  - rewrite len_cons_nz, len_cons_pred. rewrite msum_cons in Hf.
    destruct Hx as (ex & -> & Hk & Hx).
    destruct f as [|f0]; [lia|].
    cbn [concat]. rewrite <- !app_assoc.
    rewrite parse_enc_str by exact Hk. cbn [obind].
    rewrite (Hx (S f0)) by lia. cbn [obind].
    rewrite IH by lia. cbn [rev map]. now rewrite <- app_assoc.
Qed.

(* ---------- main theorem ---------- *)

Theorem parse_enc : forall g e rest, wf_gval g = true -> enc_gval g = Ok e ->
  forall f, (gsize g <= f)%nat -> parse f (e ++ rest) = Some (value_of g, rest).
Proof.
  induction g using gval_ind'; intros e rest Hwf He f Hf;
    try discriminate Hwf;
    try (cbn [enc_gval] in He; inversion He; subst e; clear He;
         cbn [gsize] in Hf; (destruct f as [|f]; [lia|]); cbn [value_of wf_gval] in * ).
  - apply parse_enc_nil.
  - apply parse_enc_bool.
  - now apply parse_enc_int.
  - apply parse_enc_uint. now apply N.ltb_lt.
  - apply parse_enc_f32. now apply N.ltb_lt.
  - apply parse_enc_f64. now apply N.ltb_lt.
  - apply parse_enc_str. now apply N.ltb_lt.
  - apply parse_enc_bin. now apply N.ltb_lt.
  - (* array *)
    rewrite wf_gval_arr in Hwf. apply andb_prop in Hwf as [Hlen Hall]. apply N.ltb_lt in Hlen.
    rewrite enc_gval_arr in He. apply enc_arr_go_ok in He as (es & HF & ->).
    rewrite gsize_arr in Hf. destruct f as [|f]; [lia|].
    rewrite <- app_assoc. rewrite parse_enc_arr_hdr by exact Hlen.
    rewrite value_of_arr. apply (parse_arr_loop l es); [|lia].
    clear Hlen Hf. revert H Hall. induction HF as [|x ex l es Hx HF IH]; intros HP Hall; constructor.
    + inversion HP; subst. cbn [forallb] in Hall. apply andb_prop in Hall as [Hw _].
      intros f' rest' Hf'. now apply H1.
    + inversion HP; subst. cbn [forallb] in Hall. apply andb_prop in Hall as [_ Hall]. now apply IH.
  - (* map *)
    rewrite wf_gval_map in Hwf. apply andb_prop in Hwf as [Hlen Hall]. apply N.ltb_lt in Hlen.
    rewrite enc_gval_map in He. apply enc_map_go_ok in He as (es & HF & ->).
    rewrite gsize_map in Hf. destruct f as [|f]; [lia|].
    rewrite <- app_assoc. rewrite parse_enc_map_hdr by exact Hlen.
    rewrite value_of_map. apply (parse_map_loop l es); [|lia].
    clear Hlen Hf. revert H Hall. induction HF as [|kv ee l es Hx HF IH]; intros HP Hall; constructor.
    + inversion HP; subst. cbn [forallb] in Hall. apply andb_prop in Hall as [Hw _].
      apply andb_prop in Hw as [Hk Hw]. apply N.ltb_lt in Hk.
      destruct Hx as (ex & Hex & ->). exists ex. split; [reflexivity|]. split; [exact Hk|].
      intros f' rest' Hf'. now apply H1.
    + inversion HP; subst. cbn [forallb] in Hall. apply andb_prop in Hall as [_ Hall]. now apply IH.
Qed.

(* ---------- consumption ---------- *)

Definition consumed (bs r : bytes) : Prop := exists c, bs = c ++ r /\ c <> [].
Definition suffix (bs r : bytes) : Prop := exists c, bs = c ++ r.

Lemma suffix_refl bs : suffix bs bs.
Proof. now exists []. Qed.
Lemma suffix_trans a b c : suffix a b -> suffix b c -> suffix a c.
Proof. intros [x ->] [y ->]. exists (x ++ y). now rewrite app_assoc. Qed.
Lemma suffix_length bs r : suffix bs r -> (length r <= length bs)%nat.
Proof. intros [c ->]. rewrite app_length. lia. Qed.
Lemma consumed_suffix bs r : consumed bs r -> suffix bs r.
Proof. intros (c & -> & _). now exists c. Qed.
Lemma consumed_length bs r : consumed bs r -> (length r < length bs)%nat.
Proof. intros (c & -> & Hc). rewrite app_length. destruct c; [congruence|]. cbn [length]. lia. Qed.
Lemma suffix_consumed b bs r : suffix bs r -> consumed (b :: bs) r.
Proof. intros [c ->]. exists (b :: c). split; [reflexivity|discriminate]. Qed.

Lemma otake_suffix k bs h t : otake k bs = Some (h, t) -> suffix bs t.
Proof.
  rewrite !otake_unfold. destruct (k <=? len bs); [|discriminate]. intros H. inversion H; subst.
  exists (firstn (N.to_nat k) bs). now rewrite firstn_skipn.
Qed.

Lemma onum_suffix k bs x t : onum k bs = Some (x, t) -> suffix bs t.
Proof.
  unfold onum. destruct (otake k bs) as [[h u]|] eqn:E; [|discriminate].
  intros H. inversion H; subst. eapply otake_suffix; eauto.
Qed.

Lemma obind_some {A B} (x : option A) (g : A -> option B) y :
  obind x g = Some y -> exists a, x = Some a /\ g a = Some y.
Proof. destruct x; [|discriminate]. intros H. eauto. Qed.

Lemma sized_suffix mk k r v u : sized mk k r = Some (v, u) -> suffix r u.
Proof.
  unfold sized. intros H.
  apply obind_some in H as ([l t] & E1 & H). apply obind_some in H as ([s w] & E2 & H).
  inversion H; subst. apply onum_suffix in E1. apply otake_suffix in E2. eapply suffix_trans; eauto.
Qed.

Lemma ext_fixed_suffix k r v u : ext_fixed k r = Some (v, u) -> suffix r u.
Proof.
  unfold ext_fixed. intros H.
  apply obind_some in H as ([l t] & E1 & H). apply obind_some in H as ([s w] & E2 & H).
  inversion H; subst. apply onum_suffix in E1. apply otake_suffix in E2. eapply suffix_trans; eauto.
Qed.

Lemma ext_sized_suffix k r v u : ext_sized k r = Some (v, u) -> suffix r u.
Proof.
  unfold ext_sized. intros H.
  apply obind_some in H as ([l t] & E1 & H). apply obind_some in H as ([ty t'] & E2 & H).
  apply obind_some in H as ([s w] & E3 & H).
  inversion H; subst. apply onum_suffix in E1. apply onum_suffix in E2. apply otake_suffix in E3.
  eapply suffix_trans; [eassumption|]. eapply suffix_trans; eauto.
Qed.


(* ---------- the lead byte dispatch of [parse], factored ---------- *)

(* what the lead byte announces *)
Inductive form :=
| FImm (v : value)                       (* a one-byte value *)
| FNone                                  (* 0xc1 *)
| FTake (l : N)                          (* fixstr: l bytes *)
| FSized (mk : bytes -> value) (k : N)   (* k-byte length, then that many bytes *)
| FExtS (k : N)                          (* k-byte length, type byte, payload *)
| FExtF (l : N)                          (* type byte, l bytes *)
| FNum (k : N) (mk : N -> value)         (* k-byte number *)
| FArr (c : N) | FMap (c : N)            (* fixarray / fixmap with c elements / pairs *)
| FArrN (k : N) | FMapN (k : N).         (* k-byte count, then the elements / pairs *)

Definition form_of (n : N) : form :=
  if n <? 128 then FImm (VInt (Z.of_N n))
  else if n <? 144 then FMap (n - 128)
  else if n <? 160 then FArr (n - 144)
  else if n <? 192 then FTake (n - 160)
  else if n =? 192 then FImm VNil
  else if n =? 193 then FNone
  else if n =? 194 then FImm (VBool false)
  else if n =? 195 then FImm (VBool true)
  else if n =? 196 then FSized VBin 1
  else if n =? 197 then FSized VBin 2
  else if n =? 198 then FSized VBin 4
  else if n =? 199 then FExtS 1
  else if n =? 200 then FExtS 2
  else if n =? 201 then FExtS 4
  else if n =? 202 then FNum 4 VF32
  else if n =? 203 then FNum 8 VF64
  else if n =? 204 then FNum 1 (fun x => VInt (Z.of_N x))
  else if n =? 205 then FNum 2 (fun x => VInt (Z.of_N x))
  else if n =? 206 then FNum 4 (fun x => VInt (Z.of_N x))
  else if n =? 207 then FNum 8 (fun x => VInt (Z.of_N x))
  else if n =? 208 then FNum 1 (fun x => VInt (n2z 1 x))
  else if n =? 209 then FNum 2 (fun x => VInt (n2z 2 x))
  else if n =? 210 then FNum 4 (fun x => VInt (n2z 4 x))
  else if n =? 211 then FNum 8 (fun x => VInt (n2z 8 x))
  else if n =? 212 then FExtF 1
  else if n =? 213 then FExtF 2
  else if n =? 214 then FExtF 4
  else if n =? 215 then FExtF 8
  else if n =? 216 then FExtF 16
  else if n =? 217 then FSized VStr 1
  else if n =? 218 then FSized VStr 2
  else if n =? 219 then FSized VStr 4
  else if n =? 220 then FArrN 2
  else if n =? 221 then FArrN 4
  else if n =? 222 then FMapN 2
  else if n =? 223 then FMapN 4
  else FImm (VInt (Z.of_N n - 256)).

Definition run_form (f : nat) (fm : form) (r : bytes) : option (value * bytes) :=
  match fm with
  | FImm v => Some (v, r)
  | FNone => None
  | FTake l => '(s, u) <~ otake l r ;; Some (VStr s, u)
  | FSized mk k => sized mk k r
  | FExtS k => ext_sized k r
  | FExtF l => ext_fixed l r
  | FNum k mk => '(x, u) <~ onum k r ;; Some (mk x, u)
  | FArr c => parse_arr f c r []
  | FMap c => parse_map f c r []
  | FArrN k => '(c, u) <~ onum k r ;; parse_arr f c u []
  | FMapN k => '(c, u) <~ onum k r ;; parse_map f c u []
  end.

Lemma parse_S_cons f b r : parse (S f) (b :: r) = run_form f (form_of (b2n b)) r.
Proof.
  cbn [parse]. unfold form_of. generalize (b2n b); intro n.
  repeat match goal with |- context[if ?c then _ else _] => destruct c; [reflexivity|] end.
  reflexivity.
Qed.

Lemma parse_O bs : parse 0 bs = None.
Proof. reflexivity. Qed.
Lemma parse_S_nil f : parse (S f) [] = None.
Proof. reflexivity. Qed.

Lemma parse_arr_S f c bs acc : parse_arr (S f) c bs acc =
  if c =? 0 then Some (VArr (rev acc), bs)
  else '(v, r) <~ parse f bs ;; parse_arr f (c - 1) r (v :: acc).
Proof. rewrite ?rev_alt. reflexivity. Qed.

Lemma parse_map_S f c bs acc : parse_map (S f) c bs acc =
  if c =? 0 then Some (VMap (rev acc), bs)
  else '(k, r) <~ parse f bs ;; '(v, r') <~ parse f r ;; parse_map f (c - 1) r' ((k, v) :: acc).
Proof. rewrite ?rev_alt. reflexivity. Qed.

(* ---------- consumption ---------- *)

Lemma run_form_suffix f fm r v u :
  (forall c bs acc v r, parse_arr f c bs acc = Some (v, r) -> suffix bs r) ->
  (forall c bs acc v r, parse_map f c bs acc = Some (v, r) -> suffix bs r) ->
  run_form f fm r = Some (v, u) -> suffix r u.
Proof.
  intros IHa IHm H. destruct fm; cbn [run_form] in H.
  - inversion H; subst. apply suffix_refl.
  - discriminate.
  - apply obind_some in H as ([s w] & E & H). inversion H; subst. eapply otake_suffix; eauto.
  - eapply sized_suffix; eauto.
  - eapply ext_sized_suffix; eauto.
  - eapply ext_fixed_suffix; eauto.
  - apply obind_some in H as ([s w] & E & H). inversion H; subst. eapply onum_suffix; eauto.
  - eapply IHa; eauto.
  - eapply IHm; eauto.
  - apply obind_some in H as ([s w] & E & H). apply onum_suffix in E.
    eapply suffix_trans; [exact E|]. eapply IHa; eauto.
  - apply obind_some in H as ([s w] & E & H). apply onum_suffix in E.
    eapply suffix_trans; [exact E|]. eapply IHm; eauto.
Qed.

Lemma parse_suffix_all f :
  (forall bs v r, parse f bs = Some (v, r) -> consumed bs r) /\
  (forall c bs acc v r, parse_arr f c bs acc = Some (v, r) -> suffix bs r) /\
  (forall c bs acc v r, parse_map f c bs acc = Some (v, r) -> suffix bs r).
Proof.
  induction f as [|f (IHp & IHa & IHm)].
  - repeat split; intros; discriminate.
  - repeat split.
    + intros bs v r H. destruct bs as [|b bs]; [discriminate|].
      apply suffix_consumed. rewrite parse_S_cons in H. eapply run_form_suffix; eauto.
    + intros c bs acc v r H. rewrite parse_arr_S in H. destruct (c =? 0).
      * inversion H; subst. apply suffix_refl.
      * apply obind_some in H as ([v1 r1] & E & H).
        eapply suffix_trans; [apply consumed_suffix; eapply IHp; eassumption|]. eapply IHa; eassumption.
    + intros c bs acc v r H. rewrite parse_map_S in H. destruct (c =? 0).
      * inversion H; subst. apply suffix_refl.
      * apply obind_some in H as ([v1 r1] & E1 & H). apply obind_some in H as ([v2 r2] & E2 & H).
        eapply suffix_trans; [apply consumed_suffix; eapply IHp; eassumption|].
        eapply suffix_trans; [apply consumed_suffix; eapply IHp; eassumption|]. eapply IHm; eassumption.
Qed.

Theorem parse_consumed : forall f bs v r, parse f bs = Some (v, r) -> consumed bs r.
Proof. intros f. apply (parse_suffix_all f). Qed.

Lemma parse_arr_suffix f c bs acc v r : parse_arr f c bs acc = Some (v, r) -> suffix bs r.
Proof. apply (parse_suffix_all f). Qed.
Lemma parse_map_suffix f c bs acc v r : parse_map f c bs acc = Some (v, r) -> suffix bs r.
Proof. apply (parse_suffix_all f). Qed.

(* ---------- fuel monotonicity ---------- *)

Lemma parse_mono_all f : forall f', (f <= f')%nat ->
  (forall bs x, parse f bs = Some x -> parse f' bs = Some x) /\
  (forall c bs acc x, parse_arr f c bs acc = Some x -> parse_arr f' c bs acc = Some x) /\
  (forall c bs acc x, parse_map f c bs acc = Some x -> parse_map f' c bs acc = Some x).
Proof.
  induction f as [|f IH]; intros f' Hle.
  - repeat split; intros; discriminate.
  - destruct f' as [|g]; [lia|]. destruct (IH g ltac:(lia)) as (Ip & Ia & Im).
    repeat split.
    + intros bs x. destruct bs as [|b bs]; [discriminate|]. rewrite !parse_S_cons.
      destruct (form_of (b2n b)); cbn [run_form]; auto;
        (destruct (onum k bs) as [[? ?]|]; cbn [obind]; [auto|discriminate]).
    + intros c bs acc x. rewrite !parse_arr_S. destruct (c =? 0); [auto|].
      intros H. apply obind_some in H as ([v1 r1] & E & H).
      rewrite (Ip _ _ E). cbn [obind]. now apply Ia.
    + intros c bs acc x. rewrite !parse_map_S. destruct (c =? 0); [auto|].
      intros H. apply obind_some in H as ([v1 r1] & E1 & H). apply obind_some in H as ([v2 r2] & E2 & H).
      rewrite (Ip _ _ E1). cbn [obind]. rewrite (Ip _ _ E2). cbn [obind]. now apply Im.
Qed.

Theorem parse_fuel_mono : forall f f' bs x, parse f bs = Some x -> (f <= f')%nat -> parse f' bs = Some x.
Proof. intros f f' bs x H Hle. now apply (parse_mono_all f f' Hle). Qed.

(* the result does not depend on the fuel *)
Corollary parse_det f1 f2 bs x y : parse f1 bs = Some x -> parse f2 bs = Some y -> x = y.
Proof.
  intros H1 H2.
  apply (parse_fuel_mono _ (Nat.max f1 f2)) in H1; [|lia].
  apply (parse_fuel_mono _ (Nat.max f1 f2)) in H2; [|lia]. congruence.
Qed.

(* ---------- the fuel of parse1 is enough ---------- *)

(* every success is reached with fuel 2 * length: the element loop burns one unit of fuel
   per element and one at its exit, and every element occupies at least one byte *)
Lemma parse_complete_all f :
  (forall bs x, parse f bs = Some x ->
     forall f', (2 * length bs <= f')%nat -> parse f' bs = Some x) /\
  (forall c bs acc x, parse_arr f c bs acc = Some x ->
     forall f', (2 * length bs < f')%nat -> parse_arr f' c bs acc = Some x) /\
  (forall c bs acc x, parse_map f c bs acc = Some x ->
     forall f', (2 * length bs < f')%nat -> parse_map f' c bs acc = Some x).
Proof.
  induction f as [|f (Ip & Ia & Im)].
  - repeat split; intros; discriminate.
  - repeat split.
    + intros bs x H f' Hf'. destruct bs as [|b bs]; [discriminate|].
      cbn [length] in Hf'. destruct f' as [|g]; [lia|]. revert H. rewrite !parse_S_cons.
      destruct (form_of (b2n b)); cbn [run_form]; auto.
      * intros H; eapply Ia; [exact H|lia].
      * intros H; eapply Im; [exact H|lia].
      * destruct (onum k bs) as [[? ?]|] eqn:E; cbn [obind]; [|discriminate].
        apply onum_suffix, suffix_length in E. intros H; eapply Ia; [exact H|lia].
      * destruct (onum k bs) as [[? ?]|] eqn:E; cbn [obind]; [|discriminate].
        apply onum_suffix, suffix_length in E. intros H; eapply Im; [exact H|lia].
    + intros c bs acc x H f' Hf'. destruct f' as [|g]; [lia|]. revert H. rewrite !parse_arr_S.
      destruct (c =? 0); [auto|].
      intros H. apply obind_some in H as ([v1 r1] & E & H).
      rewrite (Ip _ _ E g) by lia. cbn [obind].
      apply parse_consumed, consumed_length in E. eapply Ia; [exact H|lia].
    + intros c bs acc x H f' Hf'. destruct f' as [|g]; [lia|]. revert H. rewrite !parse_map_S.
      destruct (c =? 0); [auto|].
      intros H. apply obind_some in H as ([v1 r1] & E1 & H). apply obind_some in H as ([v2 r2] & E2 & H).
      pose proof (consumed_length _ _ (parse_consumed _ _ _ _ E1)) as L1.
      pose proof (consumed_length _ _ (parse_consumed _ _ _ _ E2)) as L2.
      rewrite (Ip _ _ E1 g) by lia. cbn [obind]. rewrite (Ip _ _ E2 g) by lia. cbn [obind].
      eapply Im; [exact H|lia].
Qed.

Theorem parse_complete : forall f bs x, parse f bs = Some x ->
  forall f', (2 * length bs <= f')%nat -> parse f' bs = Some x.
Proof. intros f bs x H f' Hf'. now apply (proj1 (parse_complete_all f) bs x H). Qed.

(* with the fuel parse1 uses, a failure is a real failure: more fuel does not help *)
Theorem parse1_complete : forall f bs x, parse f bs = Some x -> parse1 bs = Some x.
Proof. intros f bs x H. unfold parse1. apply (parse_complete f bs x H). lia. Qed.

Corollary parse1_none_all bs : parse1 bs = None -> forall f, parse f bs = None.
Proof.
  intros H f. destruct (parse f bs) as [x|] eqn:E; [|reflexivity].
  apply parse1_complete in E. congruence.
Qed.

(* ---------- stability under appended input ---------- *)

Lemma otake_ext k bs h t x : otake k bs = Some (h, t) -> otake k (bs ++ x) = Some (h, t ++ x).
Proof.
  rewrite !otake_unfold. rewrite len_app.
  destruct (N.leb_spec k (len bs)) as [Hk|]; [|discriminate].
  intros H. inversion H; subst. clear H.
  destruct (N.leb_spec k (len bs + len x)); [|lia].
  assert (E : (N.to_nat k - length bs = 0)%nat) by (unfold len in Hk; lia).
  rewrite firstn_app, skipn_app, E. cbn [firstn skipn]. now rewrite app_nil_r.
Qed.

Lemma onum_ext k bs n t x : onum k bs = Some (n, t) -> onum k (bs ++ x) = Some (n, t ++ x).
Proof.
  unfold onum. destruct (otake k bs) as [[h u]|] eqn:E; [|discriminate].
  intros H. inversion H; subst. now rewrite (otake_ext _ _ _ _ x E).
Qed.

Lemma sized_ext mk k r v u x : sized mk k r = Some (v, u) -> sized mk k (r ++ x) = Some (v, u ++ x).
Proof.
  unfold sized. intros H.
  apply obind_some in H as ([l t] & E1 & H). apply obind_some in H as ([s w] & E2 & H).
  inversion H; subst.
  rewrite (onum_ext _ _ _ _ x E1). cbn [obind]. rewrite (otake_ext _ _ _ _ x E2). reflexivity.
Qed.

Lemma ext_fixed_ext k r v u x : ext_fixed k r = Some (v, u) -> ext_fixed k (r ++ x) = Some (v, u ++ x).
Proof.
  unfold ext_fixed. intros H.
  apply obind_some in H as ([l t] & E1 & H). apply obind_some in H as ([s w] & E2 & H).
  inversion H; subst.
  rewrite (onum_ext _ _ _ _ x E1). cbn [obind]. rewrite (otake_ext _ _ _ _ x E2). reflexivity.
Qed.

Lemma ext_sized_ext k r v u x : ext_sized k r = Some (v, u) -> ext_sized k (r ++ x) = Some (v, u ++ x).
Proof.
  unfold ext_sized. intros H.
  apply obind_some in H as ([l t] & E1 & H). apply obind_some in H as ([ty t'] & E2 & H).
  apply obind_some in H as ([s w] & E3 & H). inversion H; subst.
  rewrite (onum_ext _ _ _ _ x E1). cbn [obind]. rewrite (onum_ext _ _ _ _ x E2). cbn [obind].
  rewrite (otake_ext _ _ _ _ x E3). reflexivity.
Qed.

Lemma parse_app_all f x :
  (forall bs v r, parse f bs = Some (v, r) -> parse f (bs ++ x) = Some (v, r ++ x)) /\
  (forall c bs acc v r, parse_arr f c bs acc = Some (v, r) -> parse_arr f c (bs ++ x) acc = Some (v, r ++ x)) /\
  (forall c bs acc v r, parse_map f c bs acc = Some (v, r) -> parse_map f c (bs ++ x) acc = Some (v, r ++ x)).
Proof.
  induction f as [|f (Ip & Ia & Im)].
  - repeat split; intros; discriminate.
  - repeat split.
    + intros bs v r. destruct bs as [|b bs]; [discriminate|].
      rewrite <- app_comm_cons, !parse_S_cons.
      destruct (form_of (b2n b)); cbn [run_form]; intros H.
      * now inversion H.
      * discriminate.
      * apply obind_some in H as ([s w] & E & H). inversion H; subst.
        now rewrite (otake_ext _ _ _ _ x E).
      * now apply sized_ext.
      * now apply ext_sized_ext.
      * now apply ext_fixed_ext.
      * apply obind_some in H as ([s w] & E & H). inversion H; subst.
        now rewrite (onum_ext _ _ _ _ x E).
      * now apply Ia.
      * now apply Im.
      * apply obind_some in H as ([s w] & E & H).
        rewrite (onum_ext _ _ _ _ x E). cbn [obind]. now apply Ia.
      * apply obind_some in H as ([s w] & E & H).
        rewrite (onum_ext _ _ _ _ x E). cbn [obind]. now apply Im.
    + intros c bs acc v r. rewrite !parse_arr_S. destruct (c =? 0).
      * intros H. now inversion H.
      * intros H. apply obind_some in H as ([v1 r1] & E & H).
        rewrite (Ip _ _ _ E). cbn [obind]. now apply Ia.
    + intros c bs acc v r. rewrite !parse_map_S. destruct (c =? 0).
      * intros H. now inversion H.
      * intros H. apply obind_some in H as ([v1 r1] & E1 & H). apply obind_some in H as ([v2 r2] & E2 & H).
        rewrite (Ip _ _ _ E1). cbn [obind]. rewrite (Ip _ _ _ E2). cbn [obind]. now apply Im.
Qed.

(* parsing is stable under appending bytes *)
Theorem parse_app : forall f bs v r x, parse f bs = Some (v, r) -> parse f (bs ++ x) = Some (v, r ++ x).
Proof. intros f bs v r x. apply (parse_app_all f x). Qed.

Corollary parse1_app bs v r x : parse1 bs = Some (v, r) -> parse1 (bs ++ x) = Some (v, r ++ x).
Proof. intros H. eapply parse1_complete. apply parse_app. exact H. Qed.

(* ---------- the encoding is prefix free ---------- *)

(* a complete value is never a strict prefix of a complete value *)
Theorem parse_prefix_free : forall f1 f2 c x v1 v2,
  parse f1 c = Some (v1, []) -> parse f2 (c ++ x) = Some (v2, []) -> x = [].
Proof.
  intros f1 f2 c x v1 v2 H1 H2. apply (parse_app _ _ _ _ x) in H1. cbn [app] in H1.
  pose proof (parse_det _ _ _ _ _ H1 H2) as E. now inversion E.
Qed.

(* no strict prefix of a complete value parses at all, whatever the fuel *)
Theorem parse_strict_prefix_none : forall f2 p y v, parse f2 (p ++ y) = Some (v, []) -> y <> [] ->
  forall f, parse f p = None.
Proof.
  intros f2 p y v H Hy f. destruct (parse f p) as [[v1 r1]|] eqn:E; [|reflexivity].
  apply (parse_app _ _ _ _ y) in E.
  pose proof (parse_det _ _ _ _ _ E H) as D. inversion D as [[Hv Hr]].
  apply app_eq_nil in Hr. tauto.
Qed.

(* the weaker form: in particular a strict prefix is not a complete value *)
Corollary parse_strict_prefix_incomplete : forall f2 e p y v, parse f2 e = Some (v, []) -> e = p ++ y -> y <> [] ->
  forall f w, parse f p <> Some (w, []).
Proof.
  intros f2 e p y v H -> Hy f w. rewrite (parse_strict_prefix_none f2 p y v H Hy f). discriminate.
Qed.

(* the value and the number of bytes it occupies are determined by the input alone *)
Corollary parse_unique_split : forall f1 f2 c1 c2 r1 r2 v1 v2,
  parse f1 c1 = Some (v1, []) -> parse f2 c2 = Some (v2, []) -> c1 ++ r1 = c2 ++ r2 ->
  c1 = c2 /\ v1 = v2 /\ r1 = r2.
Proof.
  intros f1 f2 c1 c2 r1 r2 v1 v2 H1 H2 E.
  apply (parse_app _ _ _ _ r1) in H1. apply (parse_app _ _ _ _ r2) in H2. cbn [app] in *.
  rewrite E in H1. pose proof (parse_det _ _ _ _ _ H1 H2) as D. inversion D; subst.
  apply app_inv_tail in E. auto.
Qed.

Print Assumptions parse_enc.
Print Assumptions parse_consumed.
Print Assumptions parse_fuel_mono.
Print Assumptions parse1_complete.
Print Assumptions parse_app.
Print Assumptions parse_prefix_free.
Print Assumptions parse_strict_prefix_none.
Print Assumptions parse_unique_split.
