(* Totality facts about the msgp decoder model (model/Msgp.v):
   - every successful read consumes a non-empty prefix and returns the remaining suffix;
   - the decoders never return [Panic];
   - with fuel [f > 2 * length bs] they never run out of fuel, in particular
     with [fuel_for bs].
   The case analyses on the lead byte are done once per reader, in the elimination
   lemmas [*_inv] (one comparison at a time); every later proof applies them. *)
From FF Require Import model.Bytes model.Msgp proofs.Bytes_Proofs.
From FF Require Import proofs.Take_Proofs.
From Coq Require Import Lia ZifyN ZifyNat ZifyBool.
Open Scope N_scope.

(* "r is a strict suffix of bs" *)
Definition consumed (bs r : bytes) : Prop := exists c, bs = c ++ r /\ c <> [].
(* "r is a (not necessarily strict) suffix of bs" *)
Definition suffix (bs r : bytes) : Prop := exists c, bs = c ++ r.

(* ---------- suffix / consumed algebra ---------- *)

Lemma suffix_refl bs : suffix bs bs.
Proof. exists []. reflexivity. Qed.

Lemma suffix_trans a b c : suffix a b -> suffix b c -> suffix a c.
Proof. intros [x ->] [y ->]. exists (x ++ y). now rewrite app_assoc. Qed.

Lemma consumed_suffix a b : consumed a b -> suffix a b.
Proof. intros (x & -> & _). now exists x. Qed.

Lemma suffix_cases a b : suffix a b <-> a = b \/ consumed a b.
Proof.
  split.
  - intros [[|x c] ->]; [now left | right]. exists (x :: c). split; [reflexivity | discriminate].
  - intros [-> | H]; [apply suffix_refl | now apply consumed_suffix].
Qed.

Lemma consumed_cons b r t : suffix r t -> consumed (b :: r) t.
Proof. intros [c ->]. exists (b :: c). split; [reflexivity | discriminate]. Qed.

Lemma suffix_uncons a t r : suffix a (t :: r) -> suffix a r.
Proof. intros [c ->]. exists (c ++ [t]). now rewrite <- app_assoc. Qed.

Lemma consumed_then_suffix a b c : consumed a b -> suffix b c -> consumed a c.
Proof.
  intros (x & -> & Hx) [y ->]. exists (x ++ y). split; [now rewrite app_assoc|].
  intros E. apply app_eq_nil in E. tauto.
Qed.

Lemma suffix_then_consumed a b c : suffix a b -> consumed b c -> consumed a c.
Proof.
  intros [x ->] (y & -> & Hy). exists (x ++ y). split; [now rewrite app_assoc|].
  intros E. apply app_eq_nil in E. tauto.
Qed.

Lemma consumed_trans a b c : consumed a b -> consumed b c -> consumed a c.
Proof. intros H1 H2. eapply consumed_then_suffix; eauto using consumed_suffix. Qed.

Lemma consumed_length a b : consumed a b -> (length b < length a)%nat.
Proof.
  intros (x & -> & Hx). rewrite app_length. destruct x; [congruence|]. cbn [length]. lia.
Qed.

Lemma suffix_length a b : suffix a b -> (length b <= length a)%nat.
Proof. intros [x ->]. rewrite app_length. lia. Qed.

Lemma consumed_skipn k (bs : bytes) : (0 < k <= length bs)%nat -> consumed bs (skipn k bs).
Proof.
  intros Hk. exists (firstn k bs). split; [symmetry; apply firstn_skipn|].
  intros E. apply (f_equal (@length byte)) in E. rewrite firstn_length in E. cbn [length] in E. lia.
Qed.

(* ---------- take / rd_be ---------- *)

Lemma take_suffix k bs h t : take k bs = Ok (h, t) -> bs = h ++ t /\ len h = k.
Proof.
  rewrite !take_unfold. destruct (N.leb_spec k (len bs)) as [L|L]; [|discriminate].
  intros E; inversion E; subst; clear E. split.
  - symmetry; apply firstn_skipn.
  - unfold len in *. rewrite firstn_length. lia.
Qed.

Lemma rd_be_suffix k bs n t : rd_be k bs = Ok (n, t) -> exists h, bs = h ++ t /\ length h = k.
Proof.
  unfold rd_be. destruct (take (N.of_nat k) bs) as [[h t']|?|] eqn:E; cbn [bind]; try discriminate.
  intros H; inversion H; subst; clear H. apply take_suffix in E as [-> L].
  exists h. split; [reflexivity|]. unfold len in L. lia.
Qed.

Lemma suffix_take k r h t a : take k r = Ok (h, t) -> suffix a r -> suffix a t.
Proof.
  intros H S. apply take_suffix in H as [-> _]. eapply suffix_trans; [exact S|]. now exists h.
Qed.

Lemma suffix_rd_be k r n t a : rd_be k r = Ok (n, t) -> suffix a r -> suffix a t.
Proof.
  intros H S. apply rd_be_suffix in H as (h & -> & _). eapply suffix_trans; [exact S|]. now exists h.
Qed.

Create HintDb cons.
#[export] Hint Resolve suffix_refl suffix_take suffix_rd_be consumed_cons suffix_uncons : cons.


Lemma suffix_app (c r : bytes) : suffix (c ++ r) r.
Proof. now exists c. Qed.

Lemma take_ok k bs h t : take k bs = Ok (h, t) ->
  k <= len bs /\ h = firstn (N.to_nat k) bs /\ t = skipn (N.to_nat k) bs.
Proof.
  rewrite !take_unfold. destruct (N.leb_spec k (len bs)) as [L|L]; [|discriminate].
  intros E; inversion E; subst; auto.
Qed.

Lemma take_intro k bs : k <= len bs -> take k bs = Ok (firstn (N.to_nat k) bs, skipn (N.to_nat k) bs).
Proof. rewrite !take_unfold. destruct (N.leb_spec k (len bs)) as [L|L]; [reflexivity|lia]. Qed.

Lemma take_res k bs : (exists h t, take k bs = Ok (h, t)) \/ take k bs = Err EShort.
Proof. rewrite !take_unfold. destruct (k <=? len bs); eauto. Qed.

Lemma rd_be_res k bs : (exists n t, rd_be k bs = Ok (n, t)) \/ rd_be k bs = Err EShort.
Proof.
  unfold rd_be. destruct (take_res (N.of_nat k) bs) as [(h & t & ->)| ->]; cbn [bind]; eauto.
Qed.

Ltac inv H := inversion H; subst; clear H.

(* ---------- inversion of [bind] ---------- *)

Lemma bind_ok {A B} (x : res A) (g : A -> res B) y :
  bind x g = Ok y -> exists a, x = Ok a /\ g a = Ok y.
Proof. destruct x; cbn [bind]; try discriminate. eauto. Qed.

(* decompose [H : bind .. = Ok _] completely *)
Ltac bind_inv H :=
  repeat match type of H with
  | bind _ _ = Ok _ =>
      let E := fresh "E" in
      apply bind_ok in H as (? & E & H); revert E;
      repeat match goal with x : (_ * _)%type |- _ => destruct x end; intros E
  end.

(* ---------- walking an if-chain, one comparison at a time ---------- *)

Lemma range_spec a n b : BoolSpec (a <= n /\ n <= b) (n < a \/ b < n) ((a <=? n) && (n <=? b)).
Proof. destruct (N.leb_spec a n), (N.leb_spec n b); constructor; lia. Qed.

Ltac case_cond c :=
  lazymatch c with
  | ((?a <=? ?n) && (?n <=? ?b))%bool => destruct (range_spec a n b)
  | N.ltb ?a ?b => destruct (N.ltb_spec a b)
  | N.leb ?a ?b => destruct (N.leb_spec a b)
  | N.eqb ?a ?b => destruct (N.eqb_spec a b)
  end.

(* close a goal [P x] with the hypothesis that speaks about [x] *)
Ltac leaf :=
  match goal with
  | H : _ |- _ => first [ exact H | apply H; lia ]
  end.

(* goal [P (if c1 then x1 else if c2 then x2 else ...)]: split on the head condition,
   close the branch that leaves the chain, continue in the other *)
Ltac walk :=
  lazymatch goal with
  | |- ?P (if ?c then ?A else ?B) =>
      case_cond c; [ change (P A); leaf | change (P B); walk ]
  | |- _ => leaf
  end.

(* ---------- elimination lemmas of the readers (lead-byte dispatch) ---------- *)

Section Inv.
Variables (b : byte) (r : bytes).
Let n := b2n b.

Lemma rd_arr_hdr_inv (P : res (N * bytes) -> Prop) :
  (144 <= n <= 159 -> P (Ok (n - 144, r))) ->
  (n = 220 -> P (rd_be 2 r)) ->
  (n = 221 -> P (rd_be 4 r)) ->
  P (Err EType) ->
  P (rd_arr_hdr (b :: r)).
Proof. intros. unfold rd_arr_hdr. cbv beta iota zeta. fold n. walk. Qed.

Lemma rd_map_hdr_inv (P : res (N * bytes) -> Prop) :
  (128 <= n <= 143 -> P (Ok (n - 128, r))) ->
  (n = 222 -> P (rd_be 2 r)) ->
  (n = 223 -> P (rd_be 4 r)) ->
  P (Err EType) ->
  P (rd_map_hdr (b :: r)).
Proof. intros. unfold rd_map_hdr. cbv beta iota zeta. fold n. walk. Qed.

Lemma rd_str_inv (P : res (bytes * bytes) -> Prop) :
  (160 <= n <= 191 -> P (take (n - 160) r)) ->
  (n = 217 -> P ('(l, t) <- rd_be 1 r ;; take l t)) ->
  (n = 218 -> P ('(l, t) <- rd_be 2 r ;; take l t)) ->
  (n = 219 -> P ('(l, t) <- rd_be 4 r ;; take l t)) ->
  P (Err EType) ->
  P (rd_str (b :: r)).
Proof. intros. unfold rd_str. cbv beta iota zeta. fold n. walk. Qed.

Lemma rd_bin_inv (P : res (bytes * bytes) -> Prop) :
  (n = 196 -> P ('(l, t) <- rd_be 1 r ;; take l t)) ->
  (n = 197 -> P ('(l, t) <- rd_be 2 r ;; take l t)) ->
  (n = 198 -> P ('(l, t) <- rd_be 4 r ;; take l t)) ->
  P (Err EType) ->
  P (rd_bin (b :: r)).
Proof. intros. unfold rd_bin. cbv beta iota zeta. fold n. walk. Qed.

Lemma rd_nil_inv (P : res bytes -> Prop) :
  (n = 192 -> P (Ok r)) -> P (Err EType) -> P (rd_nil (b :: r)).
Proof. intros. unfold rd_nil. cbv beta iota zeta. fold n. walk. Qed.

Lemma rd_bool_inv (P : res (bool * bytes) -> Prop) :
  (n = 195 -> P (Ok (true, r))) -> (n = 194 -> P (Ok (false, r))) -> P (Err EType) ->
  P (rd_bool (b :: r)).
Proof. intros. unfold rd_bool. cbv beta iota zeta. fold n. walk. Qed.

Lemma rd_int64_inv (P : res (Z * bytes) -> Prop) :
  (n < 128 -> P (Ok (Z.of_N n, r))) ->
  (224 <= n -> P (Ok ((Z.of_N n - 256)%Z, r))) ->
  (n = 208 -> P ('(x, t) <- rd_be 1 r ;; Ok (n2z 1 x, t))) ->
  (n = 204 -> P ('(x, t) <- rd_be 1 r ;; Ok (Z.of_N x, t))) ->
  (n = 209 -> P ('(x, t) <- rd_be 2 r ;; Ok (n2z 2 x, t))) ->
  (n = 205 -> P ('(x, t) <- rd_be 2 r ;; Ok (Z.of_N x, t))) ->
  (n = 210 -> P ('(x, t) <- rd_be 4 r ;; Ok (n2z 4 x, t))) ->
  (n = 206 -> P ('(x, t) <- rd_be 4 r ;; Ok (Z.of_N x, t))) ->
  (n = 211 -> P ('(x, t) <- rd_be 8 r ;; Ok (n2z 8 x, t))) ->
  (n = 207 -> P ('(x, t) <- rd_be 8 r ;;
                 if x <? 9223372036854775808 then Ok (Z.of_N x, t) else Err EOverflow)) ->
  P (Err EType) ->
  P (rd_int64 (b :: r)).
Proof. intros. unfold rd_int64. cbv beta iota zeta. fold n. walk. Qed.

(* the [signed] closure of rd_uint64 *)
Definition rd_signed (k : nat) (r : bytes) : res (N * bytes) :=
  '(x, t) <- rd_be k r ;; if (n2z k x <? 0)%Z then Err EOverflow else Ok (x, t).

Lemma rd_uint64_inv (P : res (N * bytes) -> Prop) :
  (n < 128 -> P (Ok (n, r))) ->
  (n = 208 -> P (rd_signed 1 r)) ->
  (n = 204 -> P (rd_be 1 r)) ->
  (n = 209 -> P (rd_signed 2 r)) ->
  (n = 205 -> P (rd_be 2 r)) ->
  (n = 210 -> P (rd_signed 4 r)) ->
  (n = 206 -> P (rd_be 4 r)) ->
  (n = 211 -> P (rd_signed 8 r)) ->
  (n = 207 -> P (rd_be 8 r)) ->
  P (Err EOverflow) ->
  P (Err EType) ->
  P (rd_uint64 (b :: r)).
Proof. intros. unfold rd_uint64. cbv beta iota zeta. fold n. walk. Qed.

(* the [fixed] and [var] closures of ext_parts *)
Definition ext_fixed_rd (sz : N) (r : bytes) : res (N * bytes * bytes) :=
  match r with
  | t :: r' => '(d, rest) <- take sz r' ;; Ok (b2n t, d, rest)
  | [] => Err EShort
  end.
Definition ext_var_rd (k : nat) (r : bytes) : res (N * bytes * bytes) :=
  '(l, r1) <- rd_be k r ;;
  match r1 with
  | t :: r2 => '(d, rest) <- take l r2 ;; Ok (b2n t, d, rest)
  | [] => Err EShort
  end.

Lemma ext_parts_inv (P : res (N * bytes * bytes) -> Prop) :
  (n = 212 -> P (ext_fixed_rd 1 r)) ->
  (n = 213 -> P (ext_fixed_rd 2 r)) ->
  (n = 214 -> P (ext_fixed_rd 4 r)) ->
  (n = 215 -> P (ext_fixed_rd 8 r)) ->
  (n = 216 -> P (ext_fixed_rd 16 r)) ->
  (n = 199 -> P (ext_var_rd 1 r)) ->
  (n = 200 -> P (ext_var_rd 2 r)) ->
  (n = 201 -> P (ext_var_rd 4 r)) ->
  P (Err EType) ->
  P (ext_parts (b :: r)).
Proof. intros. unfold ext_parts. cbv beta iota zeta. fold n. walk. Qed.

Lemma rd_intf_S p f : rd_intf p (S f) (b :: r) =
  if n <? 128 then Ok (GInt (Z.of_N n), r)
  else if n <? 144 then '(c, t) <- rd_map_hdr (b :: r) ;; rd_map p f c t []
  else if n <? 160 then '(c, t) <- rd_arr_hdr (b :: r) ;; rd_arr p f c t []
  else if n <? 192 then '(s, t) <- rd_str (b :: r) ;; Ok (GStr s, t)
  else if n =? 192 then Ok (GNil, r)
  else if n =? 193 then Err EInvalid
  else if n =? 194 then Ok (GBool false, r)
  else if n =? 195 then Ok (GBool true, r)
  else if n <=? 198 then '(s, t) <- rd_bin (b :: r) ;; Ok (GBin s, t)
  else if n =? 202 then '(x, t) <- rd_be 4 r ;; Ok (GF32 x, t)
  else if n =? 203 then '(x, t) <- rd_be 8 r ;; Ok (GF64 x, t)
  else if n <=? 201 then rd_intf_ext p (b :: r)
  else if n <=? 207 then '(x, t) <- rd_uint64 (b :: r) ;; Ok (GUint x, t)
  else if n <=? 211 then '(x, t) <- rd_int64 (b :: r) ;; Ok (GInt x, t)
  else if n <=? 216 then rd_intf_ext p (b :: r)
  else if n <=? 219 then '(s, t) <- rd_str (b :: r) ;; Ok (GStr s, t)
  else if n <=? 221 then '(c, t) <- rd_arr_hdr (b :: r) ;; rd_arr p f c t []
  else if n <=? 223 then '(c, t) <- rd_map_hdr (b :: r) ;; rd_map p f c t []
  else Ok (GInt (Z.of_N n - 256), r).
Proof. reflexivity. Qed.

Lemma rd_intf_inv p f (P : res (gval * bytes) -> Prop) :
  (n < 128 -> P (Ok (GInt (Z.of_N n), r))) ->
  (128 <= n <= 143 \/ 222 <= n <= 223 ->
     P ('(c, t) <- rd_map_hdr (b :: r) ;; rd_map p f c t [])) ->
  (144 <= n <= 159 \/ 220 <= n <= 221 ->
     P ('(c, t) <- rd_arr_hdr (b :: r) ;; rd_arr p f c t [])) ->
  (160 <= n <= 191 \/ 217 <= n <= 219 -> P ('(s, t) <- rd_str (b :: r) ;; Ok (GStr s, t))) ->
  (n = 192 -> P (Ok (GNil, r))) ->
  (n = 193 -> P (Err EInvalid)) ->
  (n = 194 -> P (Ok (GBool false, r))) ->
  (n = 195 -> P (Ok (GBool true, r))) ->
  (196 <= n <= 198 -> P ('(s, t) <- rd_bin (b :: r) ;; Ok (GBin s, t))) ->
  (199 <= n <= 201 \/ 212 <= n <= 216 -> P (rd_intf_ext p (b :: r))) ->
  (n = 202 -> P ('(x, t) <- rd_be 4 r ;; Ok (GF32 x, t))) ->
  (n = 203 -> P ('(x, t) <- rd_be 8 r ;; Ok (GF64 x, t))) ->
  (204 <= n <= 207 -> P ('(x, t) <- rd_uint64 (b :: r) ;; Ok (GUint x, t))) ->
  (208 <= n <= 211 -> P ('(x, t) <- rd_int64 (b :: r) ;; Ok (GInt x, t))) ->
  (224 <= n -> P (Ok (GInt (Z.of_N n - 256), r))) ->
  P (rd_intf p (S f) (b :: r)).
Proof. intros. rewrite rd_intf_S. walk. Qed.

Lemma skip_S p f : skip p (S f) (b :: r) =
  if n =? 193 then Err EInvalid
  else if (128 <=? n) && (n <=? 143) then skip_n p f (2 * (n - 128)) r
  else if (144 <=? n) && (n <=? 159) then skip_n p f (n - 144) r
  else if (160 <=? n) && (n <=? 191) then '(_, t) <- take (n - 160) r ;; Ok t
  else if n =? 196 then '(l, t) <- rd_be 1 r ;; '(_, u) <- take l t ;; Ok u
  else if n =? 197 then '(l, t) <- rd_be 2 r ;; '(_, u) <- take l t ;; Ok u
  else if n =? 198 then '(l, t) <- rd_be 4 r ;; '(_, u) <- take l t ;; Ok u
  else if n =? 199 then '(l, t) <- rd_be 1 r ;; '(_, u) <- take (l + 1) t ;; Ok u
  else if n =? 200 then '(l, t) <- rd_be 2 r ;; '(_, u) <- take (l + 1) t ;; Ok u
  else if n =? 201 then
         match p with
         | Stream => Err EShort
         | Slice => '(l, t) <- rd_be 4 r ;; '(_, u) <- take (l + 1) t ;; Ok u
         end
  else if n =? 217 then '(l, t) <- rd_be 1 r ;; '(_, u) <- take l t ;; Ok u
  else if n =? 218 then '(l, t) <- rd_be 2 r ;; '(_, u) <- take l t ;; Ok u
  else if n =? 219 then '(l, t) <- rd_be 4 r ;; '(_, u) <- take l t ;; Ok u
  else if n =? 220 then '(c, t) <- rd_be 2 r ;; skip_n p f c t
  else if n =? 221 then '(c, t) <- rd_be 4 r ;; skip_n p f c t
  else if n =? 222 then '(c, t) <- rd_be 2 r ;; skip_n p f (2 * c) t
  else if n =? 223 then '(c, t) <- rd_be 4 r ;; skip_n p f (2 * c) t
  else '(_, t) <- take (spec_size n - 1) r ;; Ok t.
Proof. reflexivity. Qed.

Lemma skip_inv p f (P : res bytes -> Prop) :
  (n = 193 -> P (Err EInvalid)) ->
  (128 <= n <= 143 -> P (skip_n p f (2 * (n - 128)) r)) ->
  (144 <= n <= 159 -> P (skip_n p f (n - 144) r)) ->
  (160 <= n <= 191 -> P ('(_, t) <- take (n - 160) r ;; Ok t)) ->
  (n = 196 \/ n = 217 -> P ('(l, t) <- rd_be 1 r ;; '(_, u) <- take l t ;; Ok u)) ->
  (n = 197 \/ n = 218 -> P ('(l, t) <- rd_be 2 r ;; '(_, u) <- take l t ;; Ok u)) ->
  (n = 198 \/ n = 219 -> P ('(l, t) <- rd_be 4 r ;; '(_, u) <- take l t ;; Ok u)) ->
  (n = 199 -> P ('(l, t) <- rd_be 1 r ;; '(_, u) <- take (l + 1) t ;; Ok u)) ->
  (n = 200 -> P ('(l, t) <- rd_be 2 r ;; '(_, u) <- take (l + 1) t ;; Ok u)) ->
  (n = 201 -> P (match p with
                 | Stream => Err EShort
                 | Slice => '(l, t) <- rd_be 4 r ;; '(_, u) <- take (l + 1) t ;; Ok u
                 end)) ->
  (n = 220 -> P ('(c, t) <- rd_be 2 r ;; skip_n p f c t)) ->
  (n = 221 -> P ('(c, t) <- rd_be 4 r ;; skip_n p f c t)) ->
  (n = 222 -> P ('(c, t) <- rd_be 2 r ;; skip_n p f (2 * c) t)) ->
  (n = 223 -> P ('(c, t) <- rd_be 4 r ;; skip_n p f (2 * c) t)) ->
  (n < 128 \/ n = 192 \/ n = 194 \/ n = 195 \/ 202 <= n <= 216 \/ 224 <= n ->
     P ('(_, t) <- take (spec_size n - 1) r ;; Ok t)) ->
  P (skip p (S f) (b :: r)).
Proof. intros. rewrite skip_S. walk. Qed.

End Inv.

(* apply an elimination lemma to the reader call [t] occurring in the goal *)
Ltac by_inv t lem := pattern t; apply lem; cbv beta.

(* finish a branch [.. = Ok _ -> consumed/suffix ..] *)
Ltac ok_inv H :=
  bind_inv H;
  lazymatch type of H with
  | Ok _ = Ok _ => inv H
  | Err _ = Ok _ => discriminate H
  | (if ?c then _ else _) = Ok _ => destruct c; ok_inv H
  | _ => idtac
  end.

Ltac fin :=
  let H := fresh "H" in
  intros; try discriminate;
  match goal with H : _ = Ok _ |- _ => ok_inv H end;
  eauto 10 with cons.

(* ---------- primitives consume at least one byte ---------- *)

Lemma rd_arr_hdr_consumed bs n r : rd_arr_hdr bs = Ok (n, r) -> consumed bs r.
Proof. destruct bs as [|b t]; [discriminate|]. by_inv (rd_arr_hdr (b :: t)) rd_arr_hdr_inv; fin. Qed.

Lemma rd_map_hdr_consumed bs n r : rd_map_hdr bs = Ok (n, r) -> consumed bs r.
Proof. destruct bs as [|b t]; [discriminate|]. by_inv (rd_map_hdr (b :: t)) rd_map_hdr_inv; fin. Qed.

Lemma rd_str_consumed bs s r : rd_str bs = Ok (s, r) -> consumed bs r.
Proof. destruct bs as [|b t]; [discriminate|]. by_inv (rd_str (b :: t)) rd_str_inv; fin. Qed.

Lemma rd_bin_consumed bs s r : rd_bin bs = Ok (s, r) -> consumed bs r.
Proof. destruct bs as [|b t]; [discriminate|]. by_inv (rd_bin (b :: t)) rd_bin_inv; fin. Qed.

Lemma rd_map_key_consumed bs s r : rd_map_key bs = Ok (s, r) -> consumed bs r.
Proof.
  unfold rd_map_key. intros H. destruct bs as [|b bs]; [discriminate|].
  destruct (is_bin_lead (b2n b)); eauto using rd_bin_consumed, rd_str_consumed.
Qed.

Lemma rd_map_key_ptr_consumed bs s r : rd_map_key_ptr bs = Ok (s, r) -> consumed bs r.
Proof.
  unfold rd_map_key_ptr. intros H. bind_inv H.
  destruct b; inv H. eauto using rd_map_key_consumed.
Qed.

Lemma rd_field_key_consumed p bs s r : rd_field_key p bs = Ok (s, r) -> consumed bs r.
Proof. destruct p; cbn [rd_field_key]; eauto using rd_map_key_consumed, rd_map_key_ptr_consumed. Qed.

Lemma rd_rec_key_consumed p bs s r : rd_rec_key p bs = Ok (s, r) -> consumed bs r.
Proof. destruct p; cbn [rd_rec_key]; eauto using rd_map_key_consumed, rd_str_consumed. Qed.

Lemma rd_nil_consumed bs r : rd_nil bs = Ok r -> consumed bs r.
Proof. destruct bs as [|b t]; [discriminate|]. by_inv (rd_nil (b :: t)) rd_nil_inv; fin. Qed.

Lemma rd_bool_consumed bs b r : rd_bool bs = Ok (b, r) -> consumed bs r.
Proof. destruct bs as [|b0 t]; [discriminate|]. by_inv (rd_bool (b0 :: t)) rd_bool_inv; fin. Qed.

Lemma rd_int64_consumed bs z r : rd_int64 bs = Ok (z, r) -> consumed bs r.
Proof.
  destruct bs as [|b t]; [discriminate|]. by_inv (rd_int64 (b :: t)) rd_int64_inv; fin.
Qed.

Lemma rd_signed_suffix k r x t a : rd_signed k r = Ok (x, t) -> suffix a r -> suffix a t.
Proof. unfold rd_signed. intros H S. ok_inv H. eauto with cons. Qed.
#[export] Hint Resolve rd_signed_suffix : cons.

Lemma rd_uint64_consumed bs n r : rd_uint64 bs = Ok (n, r) -> consumed bs r.
Proof. destruct bs as [|b t]; [discriminate|]. by_inv (rd_uint64 (b :: t)) rd_uint64_inv; fin. Qed.

Lemma ext_fixed_rd_suffix sz r ty d t a : ext_fixed_rd sz r = Ok (ty, d, t) -> suffix a r -> suffix a t.
Proof. unfold ext_fixed_rd. intros H S. destruct r as [|x r']; [discriminate|]. ok_inv H. eauto with cons. Qed.

Lemma ext_var_rd_suffix k r ty d t a : ext_var_rd k r = Ok (ty, d, t) -> suffix a r -> suffix a t.
Proof.
  unfold ext_var_rd. intros H S. bind_inv H.
  match type of H with match ?l with _ => _ end = _ => destruct l as [|x r2]; [discriminate|] end.
  ok_inv H. eauto with cons.
Qed.
#[export] Hint Resolve ext_fixed_rd_suffix ext_var_rd_suffix : cons.

Lemma ext_parts_consumed bs t d r : ext_parts bs = Ok (t, d, r) -> consumed bs r.
Proof. destruct bs as [|b u]; [discriminate|]. by_inv (ext_parts (b :: u)) ext_parts_inv; fin. Qed.

Lemma rd_eventtime_ok bs s n r : rd_eventtime bs = Ok (s, n, r) ->
  exists d, ext_parts bs = Ok (0, d, r) /\ dec_eventtime d = Ok (s, n).
Proof.
  unfold rd_eventtime. intros H. bind_inv H.
  match type of H with (if ?c =? 0 then _ else _) = _ =>
    destruct (N.eqb_spec c 0) as [->|]; [|discriminate] end.
  ok_inv H. eauto.
Qed.

Lemma rd_eventtime_consumed bs s n r : rd_eventtime bs = Ok (s, n, r) -> consumed bs r.
Proof. intros H. apply rd_eventtime_ok in H as (d & H & _). eauto using ext_parts_consumed. Qed.

(* ---------- rd_intf_ext ---------- *)

Definition lead_of (bs : bytes) : N := match bs with b :: _ => b2n b | [] => 0 end.

Definition rd_ext_time (bs : bytes) : res (gval * bytes) :=
  if len bs <? 15 then Err EShort
  else if negb ((lead_of bs =? 199) && (b2n (nth 1 bs x00) =? 12)) then Err EType
  else
    let sec := n2z 8 (unbe (firstn 8 (skipn 3 bs))) in
    let ns := n2z 4 (unbe (firstn 4 (skipn 11 bs))) in
    let '(s, n) := norm_time sec ns in
    Ok (GTime s n, skipn 15 bs).
Definition rd_ext_c64 (bs : bytes) : res (gval * bytes) :=
  if len bs <? 10 then Err EShort
  else if negb (lead_of bs =? 215) then Err EType
  else Ok (GC64 (unbe (firstn 8 (skipn 2 bs))), skipn 10 bs).
Definition rd_ext_c128 (bs : bytes) : res (gval * bytes) :=
  if len bs <? 18 then Err EShort
  else if negb (lead_of bs =? 216) then Err EType
  else Ok (GC128 (unbe (firstn 8 (skipn 2 bs))) (unbe (firstn 8 (skipn 10 bs))), skipn 18 bs).
Definition rd_ext_generic (p : path) (bs : bytes) : res (gval * bytes) :=
  match p with
  | Slice =>
      if len bs <? spec_size (lead_of bs) then Err EShort
      else
        let pos := if 212 <=? lead_of bs then 1 else spec_size (lead_of bs) - 1 in
        let ty := b2n (nth (N.to_nat pos) bs x00) in
        if ty =? 0 then '(s, ns, rest) <- rd_eventtime bs ;; Ok (GEventTime s ns, rest)
        else '(t, d, rest) <- ext_parts bs ;; Ok (GRawExt t d, rest)
  | Stream =>
      '(t, d, rest) <- ext_parts bs ;;
      if t =? 0 then '(s, ns) <- dec_eventtime d ;; Ok (GEventTime s ns, rest)
      else Ok (GRawExt t d, rest)
  end.

Definition refined_is (k : N) (o : option N) : bool :=
  match o with Some t => t =? k | None => false end.

Lemma rd_intf_ext_eq p bs : rd_intf_ext p bs =
  match ext_type_peek p bs with
  | Err e => Err e
  | Panic => Panic
  | Ok refined =>
      if refined_is 5 refined then rd_ext_time bs
      else if refined_is 3 refined then rd_ext_c64 bs
      else if refined_is 4 refined then rd_ext_c128 bs
      else rd_ext_generic p bs
  end.
Proof.
  unfold rd_intf_ext. destruct (ext_type_peek p bs) as [[[|q]|]|e|]; try reflexivity.
  destruct q as [[q|q|]|[q|q|]|]; try reflexivity; destruct q; reflexivity.
Qed.

Lemma ext_type_peek_res p bs : (exists o, ext_type_peek p bs = Ok o) \/ ext_type_peek p bs = Err EShort.
Proof.
  unfold ext_type_peek. destruct bs as [|b r]; [now right|]. cbv zeta.
  destruct p; match goal with |- context[if ?c then _ else _] => destruct c end; eauto.
Qed.

Lemma ext_parts_199 b r : b2n b = 199 -> ext_parts (b :: r) = ext_var_rd 1 r.
Proof. intros E. rewrite <- (n2b_b2n b), E. reflexivity. Qed.
Lemma ext_parts_215 b r : b2n b = 215 -> ext_parts (b :: r) = ext_fixed_rd 8 r.
Proof. intros E. rewrite <- (n2b_b2n b), E. reflexivity. Qed.
Lemma ext_parts_216 b r : b2n b = 216 -> ext_parts (b :: r) = ext_fixed_rd 16 r.
Proof. intros E. rewrite <- (n2b_b2n b), E. reflexivity. Qed.

Lemma rd_be_1_cons l r : rd_be 1 (l :: r) = Ok (b2n l, r).
Proof.
  unfold rd_be. rewrite take_intro by (unfold len; cbn [length]; lia). reflexivity.
Qed.

Lemma len_cons {A} (x : A) l : len (x :: l) = len l + 1.
Proof. unfold len. cbn [length]. lia. Qed.
Lemma len_nil {A} : len (@nil A) = 0.
Proof. reflexivity. Qed.

(* every successful read of an extension-typed value is a successful [ext_parts] *)
Lemma rd_intf_ext_ok p bs g r : rd_intf_ext p bs = Ok (g, r) ->
  exists t d, ext_parts bs = Ok (t, d, r).
Proof.
  rewrite rd_intf_ext_eq. destruct (ext_type_peek p bs) as [o|e|]; try discriminate.
  destruct (refined_is 5 o); [|destruct (refined_is 3 o); [|destruct (refined_is 4 o)]].
  - unfold rd_ext_time. destruct (N.ltb_spec (len bs) 15) as [|L]; [discriminate|].
    destruct (N.eqb_spec (lead_of bs) 199) as [E1|]; [|discriminate].
    destruct (N.eqb_spec (b2n (nth 1 bs x00)) 12) as [E2|]; [|discriminate].
    cbn [andb negb]. destruct (norm_time _ _) as [s n]. intros H; inv H.
    destruct bs as [|b [|l [|ty rest]]]; rewrite ?len_cons, ?len_nil in L; try lia.
    cbn [lead_of nth] in *. rewrite (ext_parts_199 _ _ E1). unfold ext_var_rd.
    rewrite rd_be_1_cons. cbn [bind]. rewrite E2, take_intro by lia. cbn [bind].
    do 2 eexists. reflexivity.
  - unfold rd_ext_c64. destruct (N.ltb_spec (len bs) 10) as [|L]; [discriminate|].
    destruct (N.eqb_spec (lead_of bs) 215) as [E1|]; [|discriminate].
    cbn [negb]. intros H; inv H.
    destruct bs as [|b [|ty rest]]; rewrite ?len_cons, ?len_nil in L; try lia.
    cbn [lead_of] in *. rewrite (ext_parts_215 _ _ E1). unfold ext_fixed_rd.
    rewrite take_intro by lia. cbn [bind]. do 2 eexists. reflexivity.
  - unfold rd_ext_c128. destruct (N.ltb_spec (len bs) 18) as [|L]; [discriminate|].
    destruct (N.eqb_spec (lead_of bs) 216) as [E1|]; [|discriminate].
    cbn [negb]. intros H; inv H.
    destruct bs as [|b [|ty rest]]; rewrite ?len_cons, ?len_nil in L; try lia.
    cbn [lead_of] in *. rewrite (ext_parts_216 _ _ E1). unfold ext_fixed_rd.
    rewrite take_intro by lia. cbn [bind]. do 2 eexists. reflexivity.
  - unfold rd_ext_generic. destruct p.
    + destruct (len bs <? spec_size (lead_of bs)); [discriminate|]. cbv zeta.
      match goal with |- context[if ?c =? 0 then _ else _] => destruct (c =? 0) end; intros H; bind_inv H.
      * apply rd_eventtime_ok in E as (d & E & _). inv H. eauto.
      * inv H. eauto.
    + intros H. bind_inv H. ok_inv H; eauto.
Qed.

Lemma rd_intf_ext_consumed p bs v r : rd_intf_ext p bs = Ok (v, r) -> consumed bs r.
Proof. intros H. apply rd_intf_ext_ok in H as (t & d & H). eauto using ext_parts_consumed. Qed.

(* ---------- rd_intf / rd_arr / rd_map and skip / skip_n consume their input ---------- *)

Lemma rd_arr_S p f cnt bs acc : rd_arr p (S f) cnt bs acc =
  if cnt =? 0 then Ok (GArr (rev acc), bs)
  else '(v, r) <- rd_intf p f bs ;; rd_arr p f (cnt - 1) r (v :: acc).
Proof. rewrite rev_alt. reflexivity. Qed.

Lemma rd_map_S p f cnt bs acc : rd_map p (S f) cnt bs acc =
  if cnt =? 0 then Ok (GMap (rev acc), bs)
  else '(k, r1) <- rd_rec_key p bs ;;
       '(v, r2) <- rd_intf p f r1 ;;
       rd_map p f (cnt - 1) r2 ((k, v) :: acc).
Proof. rewrite rev_alt. reflexivity. Qed.

Lemma skip_n_S p f cnt bs : skip_n p (S f) cnt bs =
  if cnt =? 0 then Ok bs else r <- skip p f bs ;; skip_n p f (cnt - 1) r.
Proof. reflexivity. Qed.

(* turn every successful primitive read in the context into a [consumed] fact *)
Ltac fwd :=
  repeat match goal with
  | H : rd_map_hdr _ = Ok _ |- _ => apply rd_map_hdr_consumed in H
  | H : rd_arr_hdr _ = Ok _ |- _ => apply rd_arr_hdr_consumed in H
  | H : rd_str _ = Ok _ |- _ => apply rd_str_consumed in H
  | H : rd_bin _ = Ok _ |- _ => apply rd_bin_consumed in H
  | H : rd_nil _ = Ok _ |- _ => apply rd_nil_consumed in H
  | H : rd_bool _ = Ok _ |- _ => apply rd_bool_consumed in H
  | H : rd_uint64 _ = Ok _ |- _ => apply rd_uint64_consumed in H
  | H : rd_int64 _ = Ok _ |- _ => apply rd_int64_consumed in H
  | H : rd_eventtime _ = Ok _ |- _ => apply rd_eventtime_consumed in H
  | H : ext_parts _ = Ok _ |- _ => apply ext_parts_consumed in H
  | H : rd_intf_ext _ _ = Ok _ |- _ => apply rd_intf_ext_consumed in H
  | H : rd_rec_key _ _ = Ok _ |- _ => apply rd_rec_key_consumed in H
  | H : rd_field_key _ _ = Ok _ |- _ => apply rd_field_key_consumed in H
  | H : rd_map_key _ = Ok _ |- _ => apply rd_map_key_consumed in H
  end.

Lemma take_sfx k a h b : take k a = Ok (h, b) -> suffix a b.
Proof. eauto with cons. Qed.
Lemma rd_be_sfx k a x b : rd_be k a = Ok (x, b) -> suffix a b.
Proof. eauto with cons. Qed.

Ltac fwd' :=
  fwd;
  repeat match goal with
  | H : take _ _ = Ok _ |- _ => apply take_sfx in H
  | H : rd_be _ _ = Ok _ |- _ => apply rd_be_sfx in H
  end.

(* follow the chain of suffix / consumed facts from the left end of the goal *)
Ltac chain :=
  match goal with
  | |- suffix ?a ?a => apply suffix_refl
  | H : suffix ?a ?b |- suffix ?a ?c => apply (suffix_trans a b c H); chain
  | H : consumed ?a ?b |- suffix ?a ?c => apply (suffix_trans a b c (consumed_suffix a b H)); chain
  | |- consumed (?b :: ?t) ?c => apply consumed_cons; chain
  | H : consumed ?a ?b |- consumed ?a ?c => apply (consumed_then_suffix a b c H); chain
  | H : suffix ?a ?b |- consumed ?a ?c => apply (suffix_then_consumed a b c H); chain
  end.

Lemma rd_all_consumed p : forall f,
  (forall bs v r, rd_intf p f bs = Ok (v, r) -> consumed bs r) /\
  (forall cnt bs acc v r, rd_arr p f cnt bs acc = Ok (v, r) -> suffix bs r) /\
  (forall cnt bs acc v r, rd_map p f cnt bs acc = Ok (v, r) -> suffix bs r).
Proof.
  induction f as [|f (IHi & IHa & IHm)].
  - repeat split; intros; discriminate.
  - repeat split.
    + intros bs v r. destruct bs as [|b t]; [discriminate|].
      by_inv (rd_intf p (S f) (b :: t)) rd_intf_inv; intros Hn H; ok_inv H; fwd';
        try match goal with
        | H : rd_arr _ _ _ _ _ = Ok _ |- _ => apply IHa in H
        | H : rd_map _ _ _ _ _ = Ok _ |- _ => apply IHm in H
        end; chain.
    + intros cnt bs acc v r. rewrite rd_arr_S. destruct (cnt =? 0); intros H; ok_inv H.
      * apply suffix_refl.
      * apply IHi in E. apply IHa in H. chain.
    + intros cnt bs acc v r. rewrite rd_map_S. destruct (cnt =? 0); intros H; ok_inv H.
      * apply suffix_refl.
      * fwd. apply IHi in E0. apply IHm in H. chain.
Qed.

Theorem rd_intf_consumed : forall p f bs v r, rd_intf p f bs = Ok (v, r) -> consumed bs r.
Proof. intros p f. apply (rd_all_consumed p f). Qed.

Lemma rd_arr_suffix p f cnt bs acc v r : rd_arr p f cnt bs acc = Ok (v, r) -> suffix bs r.
Proof. apply (rd_all_consumed p f). Qed.

Lemma rd_map_suffix p f cnt bs acc v r : rd_map p f cnt bs acc = Ok (v, r) -> suffix bs r.
Proof. apply (rd_all_consumed p f). Qed.

Lemma skip_all_consumed p : forall f,
  (forall bs r, skip p f bs = Ok r -> consumed bs r) /\
  (forall cnt bs r, skip_n p f cnt bs = Ok r -> suffix bs r).
Proof.
  induction f as [|f (IHs & IHn)].
  - split; intros; discriminate.
  - split.
    + intros bs r. destruct bs as [|b t]; [discriminate|].
      by_inv (skip p (S f) (b :: t)) skip_inv; intros Hn H;
        try (destruct p; [|discriminate H]); ok_inv H; fwd';
        try match goal with
        | H : skip_n _ _ _ _ = Ok _ |- _ => apply IHn in H
        end; chain.
    + intros cnt bs r. rewrite skip_n_S. destruct (cnt =? 0); intros H; ok_inv H.
      * apply suffix_refl.
      * apply IHs in E. apply IHn in H. chain.
Qed.

Theorem skip_consumed : forall p f bs r, skip p f bs = Ok r -> consumed bs r.
Proof. intros p f. apply (skip_all_consumed p f). Qed.

Lemma skip_n_suffix p f cnt bs r : skip_n p f cnt bs = Ok r -> suffix bs r.
Proof. apply (skip_all_consumed p f). Qed.

(* ====================================================================== *)
(* Totality: no reader returns [Panic]; with enough fuel none returns [Err EFuel] *)

Definition np {A} (x : res A) : Prop := x <> Panic.
Definition nf {A} (x : res A) : Prop := x <> Err EFuel.

Lemma np_ok {A} (a : A) : np (Ok a). Proof. discriminate. Qed.
Lemma np_err {A} e : np (@Err A e). Proof. discriminate. Qed.
Lemma np_bind {A B} (x : res A) (g : A -> res B) : np x -> (forall a, np (g a)) -> np (bind x g).
Proof. unfold np. destruct x; cbn [bind]; auto; discriminate. Qed.
Lemma np_if {A} (c : bool) (x y : res A) : np x -> np y -> np (if c then x else y).
Proof. destruct c; auto. Qed.

Lemma nf_ok {A} (a : A) : nf (Ok a). Proof. discriminate. Qed.
Lemma nf_panic {A} : nf (@Panic A). Proof. discriminate. Qed.
Lemma nf_err {A} e : e <> EFuel -> nf (@Err A e).
Proof. intros H E. inversion E. contradiction. Qed.
Ltac nf_e := apply nf_err; discriminate.
Lemma nf_bind {A B} (x : res A) (g : A -> res B) :
  nf x -> (forall a, x = Ok a -> nf (g a)) -> nf (bind x g).
Proof.
  unfold nf. destruct x as [a|e|]; cbn [bind]; intros H1 H2.
  - now apply H2.
  - intros E. apply H1. inversion E. reflexivity.
  - discriminate.
Qed.
Lemma nf_if {A} (c : bool) (x y : res A) : nf x -> nf y -> nf (if c then x else y).
Proof. destruct c; auto. Qed.

Create HintDb np.
Create HintDb nf.

(* structural steps; anything else is left to the hint database *)
Ltac np_tac :=
  repeat lazymatch goal with
  | |- np (Ok _) => apply np_ok
  | |- np (Err _) => apply np_err
  | |- np (bind _ _) => apply np_bind; [ | let a := fresh "a" in intros a; cbv beta ]
  | |- np (if ?c then _ else _) => first [ apply np_if | destruct c ]
  | |- np (match ?a with _ => _ end) => destruct a
  | |- np _ => solve [ eauto with np ]
  end.

Ltac nf_tac :=
  repeat lazymatch goal with
  | |- nf (Ok _) => apply nf_ok
  | |- nf (Err _) => nf_e
  | |- nf (bind _ _) =>
      apply nf_bind; [ | let a := fresh "a" in let E := fresh "E" in intros a E; cbv beta ]
  | |- nf (if ?c then _ else _) => first [ apply nf_if | destruct c ]
  | |- nf (match ?a with _ => _ end) => destruct a
  | |- nf _ => solve [ eauto with nf ]
  end.

Lemma np_take k bs : np (take k bs).
Proof. rewrite !take_unfold. np_tac. Qed.
Lemma nf_take k bs : nf (take k bs).
Proof. rewrite !take_unfold. nf_tac. Qed.
#[export] Hint Resolve np_take : np.
#[export] Hint Resolve nf_take : nf.
Lemma np_rd_be k bs : np (rd_be k bs).
Proof. unfold rd_be. np_tac. Qed.
Lemma nf_rd_be k bs : nf (rd_be k bs).
Proof. unfold rd_be. nf_tac. Qed.
#[export] Hint Resolve np_rd_be : np.
#[export] Hint Resolve nf_rd_be : nf.

Lemma np_rd_arr_hdr bs : np (rd_arr_hdr bs).
Proof. destruct bs as [|b t]; [apply np_err|]. by_inv (rd_arr_hdr (b :: t)) rd_arr_hdr_inv; intros; np_tac. Qed.
Lemma nf_rd_arr_hdr bs : nf (rd_arr_hdr bs).
Proof. destruct bs as [|b t]; [nf_e|]. by_inv (rd_arr_hdr (b :: t)) rd_arr_hdr_inv; intros; nf_tac. Qed.
Lemma np_rd_map_hdr bs : np (rd_map_hdr bs).
Proof. destruct bs as [|b t]; [apply np_err|]. by_inv (rd_map_hdr (b :: t)) rd_map_hdr_inv; intros; np_tac. Qed.
Lemma nf_rd_map_hdr bs : nf (rd_map_hdr bs).
Proof. destruct bs as [|b t]; [nf_e|]. by_inv (rd_map_hdr (b :: t)) rd_map_hdr_inv; intros; nf_tac. Qed.
Lemma np_rd_str bs : np (rd_str bs).
Proof. destruct bs as [|b t]; [apply np_err|]. by_inv (rd_str (b :: t)) rd_str_inv; intros; np_tac. Qed.
Lemma nf_rd_str bs : nf (rd_str bs).
Proof. destruct bs as [|b t]; [nf_e|]. by_inv (rd_str (b :: t)) rd_str_inv; intros; nf_tac. Qed.
Lemma np_rd_bin bs : np (rd_bin bs).
Proof. destruct bs as [|b t]; [apply np_err|]. by_inv (rd_bin (b :: t)) rd_bin_inv; intros; np_tac. Qed.
Lemma nf_rd_bin bs : nf (rd_bin bs).
Proof. destruct bs as [|b t]; [nf_e|]. by_inv (rd_bin (b :: t)) rd_bin_inv; intros; nf_tac. Qed.
Lemma np_rd_nil bs : np (rd_nil bs).
Proof. destruct bs as [|b t]; [apply np_err|]. by_inv (rd_nil (b :: t)) rd_nil_inv; intros; np_tac. Qed.
Lemma nf_rd_nil bs : nf (rd_nil bs).
Proof. destruct bs as [|b t]; [nf_e|]. by_inv (rd_nil (b :: t)) rd_nil_inv; intros; nf_tac. Qed.
Lemma np_rd_bool bs : np (rd_bool bs).
Proof. destruct bs as [|b t]; [apply np_err|]. by_inv (rd_bool (b :: t)) rd_bool_inv; intros; np_tac. Qed.
Lemma nf_rd_bool bs : nf (rd_bool bs).
Proof. destruct bs as [|b t]; [nf_e|]. by_inv (rd_bool (b :: t)) rd_bool_inv; intros; nf_tac. Qed.
Lemma np_rd_int64 bs : np (rd_int64 bs).
Proof. destruct bs as [|b t]; [apply np_err|]. by_inv (rd_int64 (b :: t)) rd_int64_inv; intros; np_tac. Qed.
Lemma nf_rd_int64 bs : nf (rd_int64 bs).
Proof. destruct bs as [|b t]; [nf_e|]. by_inv (rd_int64 (b :: t)) rd_int64_inv; intros; nf_tac. Qed.
Lemma np_rd_uint64 bs : np (rd_uint64 bs).
Proof.
  destruct bs as [|b t]; [apply np_err|].
  by_inv (rd_uint64 (b :: t)) rd_uint64_inv; intros; unfold rd_signed; np_tac.
Qed.
Lemma nf_rd_uint64 bs : nf (rd_uint64 bs).
Proof.
  destruct bs as [|b t]; [nf_e|].
  by_inv (rd_uint64 (b :: t)) rd_uint64_inv; intros; unfold rd_signed; nf_tac.
Qed.
Lemma np_ext_parts bs : np (ext_parts bs).
Proof.
  destruct bs as [|b t]; [apply np_err|].
  by_inv (ext_parts (b :: t)) ext_parts_inv; intros; unfold ext_fixed_rd, ext_var_rd; np_tac.
Qed.
Lemma nf_ext_parts bs : nf (ext_parts bs).
Proof.
  destruct bs as [|b t]; [nf_e|].
  by_inv (ext_parts (b :: t)) ext_parts_inv; intros; unfold ext_fixed_rd, ext_var_rd; nf_tac.
Qed.
#[export] Hint Resolve np_rd_arr_hdr np_rd_map_hdr np_rd_str np_rd_bin np_rd_nil np_rd_bool
  np_rd_int64 np_rd_uint64 np_ext_parts : np.
#[export] Hint Resolve nf_rd_arr_hdr nf_rd_map_hdr nf_rd_str nf_rd_bin nf_rd_nil nf_rd_bool
  nf_rd_int64 nf_rd_uint64 nf_ext_parts : nf.

Lemma np_dec_eventtime d : np (dec_eventtime d).
Proof. unfold dec_eventtime. np_tac. Qed.
Theorem dec_eventtime_no_panic : forall d, dec_eventtime d <> Panic.
Proof. exact np_dec_eventtime. Qed.
Lemma nf_dec_eventtime d : nf (dec_eventtime d).
Proof. unfold dec_eventtime. nf_tac. Qed.
#[export] Hint Resolve np_dec_eventtime : np.
#[export] Hint Resolve nf_dec_eventtime : nf.

Lemma np_rd_eventtime bs : np (rd_eventtime bs).
Proof. unfold rd_eventtime. np_tac. Qed.
Lemma nf_rd_eventtime bs : nf (rd_eventtime bs).
Proof. unfold rd_eventtime. nf_tac. Qed.
Lemma np_rd_map_key bs : np (rd_map_key bs).
Proof. unfold rd_map_key. np_tac. Qed.
Lemma nf_rd_map_key bs : nf (rd_map_key bs).
Proof. unfold rd_map_key. nf_tac. Qed.
#[export] Hint Resolve np_rd_eventtime np_rd_map_key : np.
#[export] Hint Resolve nf_rd_eventtime nf_rd_map_key : nf.
Lemma np_rd_map_key_ptr bs : np (rd_map_key_ptr bs).
Proof. unfold rd_map_key_ptr. np_tac. Qed.
Lemma nf_rd_map_key_ptr bs : nf (rd_map_key_ptr bs).
Proof. unfold rd_map_key_ptr. nf_tac. Qed.
#[export] Hint Resolve np_rd_map_key_ptr : np.
#[export] Hint Resolve nf_rd_map_key_ptr : nf.
Lemma np_rd_field_key p bs : np (rd_field_key p bs).
Proof. unfold rd_field_key. np_tac. Qed.
Lemma nf_rd_field_key p bs : nf (rd_field_key p bs).
Proof. unfold rd_field_key. nf_tac. Qed.
Lemma np_rd_rec_key p bs : np (rd_rec_key p bs).
Proof. unfold rd_rec_key. np_tac. Qed.
Lemma nf_rd_rec_key p bs : nf (rd_rec_key p bs).
Proof. unfold rd_rec_key. nf_tac. Qed.
#[export] Hint Resolve np_rd_field_key np_rd_rec_key : np.
#[export] Hint Resolve nf_rd_field_key nf_rd_rec_key : nf.

Lemma np_ext_type_peek p bs : np (ext_type_peek p bs).
Proof. destruct (ext_type_peek_res p bs) as [(o & ->)| ->]; [apply np_ok|apply np_err]. Qed.
Lemma nf_ext_type_peek p bs : nf (ext_type_peek p bs).
Proof. destruct (ext_type_peek_res p bs) as [(o & ->)| ->]; [apply nf_ok|nf_e]. Qed.
#[export] Hint Resolve np_ext_type_peek : np.
#[export] Hint Resolve nf_ext_type_peek : nf.

Lemma np_rd_intf_ext p bs : np (rd_intf_ext p bs).
Proof.
  rewrite rd_intf_ext_eq. destruct (ext_type_peek_res p bs) as [(o & ->)| ->]; [|apply np_err].
  unfold rd_ext_time, rd_ext_c64, rd_ext_c128, rd_ext_generic. cbv zeta. np_tac.
Qed.
Lemma nf_rd_intf_ext p bs : nf (rd_intf_ext p bs).
Proof.
  rewrite rd_intf_ext_eq. destruct (ext_type_peek_res p bs) as [(o & ->)| ->]; [|nf_e].
  unfold rd_ext_time, rd_ext_c64, rd_ext_c128, rd_ext_generic. cbv zeta. nf_tac.
Qed.
#[export] Hint Resolve np_rd_intf_ext : np.
#[export] Hint Resolve nf_rd_intf_ext : nf.

(* ---------- rd_intf and skip never panic ---------- *)

Lemma np_rd_all p : forall f,
  (forall bs, np (rd_intf p f bs)) /\
  (forall cnt bs acc, np (rd_arr p f cnt bs acc)) /\
  (forall cnt bs acc, np (rd_map p f cnt bs acc)).
Proof.
  induction f as [|f (IHi & IHa & IHm)].
  - repeat split; intros; apply np_err.
  - repeat split.
    + intros bs. destruct bs as [|b t]; [apply np_err|].
      by_inv (rd_intf p (S f) (b :: t)) rd_intf_inv; intros; np_tac.
    + intros cnt bs acc. rewrite rd_arr_S. np_tac.
    + intros cnt bs acc. rewrite rd_map_S. np_tac.
Qed.

Theorem rd_intf_no_panic : forall p f bs, rd_intf p f bs <> Panic.
Proof. intros p f. apply (np_rd_all p f). Qed.

Lemma np_skip_all p : forall f,
  (forall bs, np (skip p f bs)) /\ (forall cnt bs, np (skip_n p f cnt bs)).
Proof.
  induction f as [|f (IHs & IHn)].
  - split; intros; apply np_err.
  - split.
    + intros bs. destruct bs as [|b t]; [apply np_err|].
      by_inv (skip p (S f) (b :: t)) skip_inv; intros; np_tac.
    + intros cnt bs. rewrite skip_n_S. np_tac.
Qed.

Theorem skip_no_panic : forall p f bs, skip p f bs <> Panic.
Proof. intros p f. apply (np_skip_all p f). Qed.

Lemma np_rd_intf p f bs : np (rd_intf p f bs). Proof. apply rd_intf_no_panic. Qed.
Lemma np_skip p f bs : np (skip p f bs). Proof. apply skip_no_panic. Qed.
#[export] Hint Resolve np_rd_intf np_skip : np.

(* ---------- the fuel never runs out ---------- *)

(* lengths of the inputs left by the successful reads of the context *)
Ltac lens_pre :=
  repeat match goal with
  | H : rd_intf _ _ _ = Ok _ |- _ => apply rd_intf_consumed in H
  | H : skip _ _ _ = Ok _ |- _ => apply skip_consumed in H
  end;
  fwd'.
Ltac lens :=
  lens_pre;
  repeat match goal with
  | H : consumed _ _ |- _ => apply consumed_length in H
  | H : suffix _ _ |- _ => apply suffix_length in H
  end;
  cbn [length] in *.

(* an element loop burns one unit of fuel per element and one for the exit; a nested
   value burns one more and occupies at least one byte: 2 * length + 1 suffices *)
Lemma nf_rd_all p : forall f,
  (forall bs, (2 * length bs + 1 <= f)%nat -> nf (rd_intf p f bs)) /\
  (forall cnt bs acc, (2 * length bs + 2 <= f)%nat -> nf (rd_arr p f cnt bs acc)) /\
  (forall cnt bs acc, (2 * length bs + 2 <= f)%nat -> nf (rd_map p f cnt bs acc)).
Proof.
  induction f as [|f (IHi & IHa & IHm)].
  - repeat split; intros; lia.
  - repeat split.
    + intros bs Hf. destruct bs as [|b t]; [nf_e|]. cbn [length] in Hf.
      by_inv (rd_intf p (S f) (b :: t)) rd_intf_inv; intros; nf_tac;
        first [apply IHa | apply IHm]; lens; lia.
    + intros cnt bs acc Hf. rewrite rd_arr_S. nf_tac.
      * apply IHi. lia.
      * apply IHa. lens. lia.
    + intros cnt bs acc Hf. rewrite rd_map_S. nf_tac.
      * apply IHi. lens. lia.
      * apply IHm. lens. lia.
Qed.

Theorem rd_intf_no_fuel : forall p bs f, (fuel_for bs <= f)%nat -> rd_intf p f bs <> Err EFuel.
Proof. intros p bs f Hf. apply (nf_rd_all p f). unfold fuel_for in Hf. lia. Qed.

Lemma nf_skip_all p : forall f,
  (forall bs, (2 * length bs + 1 <= f)%nat -> nf (skip p f bs)) /\
  (forall cnt bs, (2 * length bs + 2 <= f)%nat -> nf (skip_n p f cnt bs)).
Proof.
  induction f as [|f (IHs & IHn)].
  - split; intros; lia.
  - split.
    + intros bs Hf. destruct bs as [|b t]; [nf_e|]. cbn [length] in Hf.
      by_inv (skip p (S f) (b :: t)) skip_inv; intros; nf_tac; apply IHn; lens; lia.
    + intros cnt bs Hf. rewrite skip_n_S. nf_tac.
      * apply IHs. lia.
      * apply IHn. lens. lia.
Qed.

Theorem skip_no_fuel : forall p bs f, (fuel_for bs <= f)%nat -> skip p f bs <> Err EFuel.
Proof. intros p bs f Hf. apply (nf_skip_all p f). unfold fuel_for in Hf. lia. Qed.

Lemma nf_rd_intf_fuel p bs : nf (rd_intf p (fuel_for bs) bs).
Proof. now apply rd_intf_no_fuel. Qed.
Lemma nf_skip_fuel p bs : nf (skip p (fuel_for bs) bs).
Proof. now apply skip_no_fuel. Qed.
#[export] Hint Resolve nf_rd_intf_fuel nf_skip_fuel : nf.

Print Assumptions rd_intf_consumed.
Print Assumptions skip_consumed.
Print Assumptions rd_intf_no_panic.
Print Assumptions skip_no_panic.
Print Assumptions rd_intf_no_fuel.
Print Assumptions skip_no_fuel.
Print Assumptions dec_eventtime_no_panic.
