From FF Require Import model.Bytes model.EntryEqual.
From Coq Require Import Lia SetoidList SetoidPermutation Morphisms RelationClasses.
Local Open Scope nat_scope.

Section Proofs.
  Context {E : Type} (eeq : E -> E -> bool).
  Definition R (a b : E) : Prop := eeq a b = true.
  Context (R_equiv : Equivalence R).

  Local Instance R_equiv_inst : Equivalence R := R_equiv.

  Lemma remove_first_Some a l l' :
    remove_first eeq a l = Some l' ->
    exists l1 b l2, l = l1 ++ b :: l2 /\ R a b /\ l' = l1 ++ l2.
  Proof.
    revert l'; induction l as [|b r IH]; intros l' H; cbn in H; [discriminate|].
    destruct (eeq a b) eqn:Eab.
    - inversion H; subst. exists [], b, l'. auto.
    - destruct (remove_first eeq a r) as [r'|] eqn:Er; [|discriminate].
      inversion H; subst. destruct (IH _ eq_refl) as (l1 & c & l2 & -> & Hc & ->).
      exists (b :: l1), c, l2. auto.
  Qed.

  Lemma remove_first_None a l :
    remove_first eeq a l = None -> ~ InA R a l.
  Proof.
    induction l as [|b r IH]; intros H Hin; cbn in H.
    - inversion Hin.
    - destruct (eeq a b) eqn:Eab; [discriminate|].
      destruct (remove_first eeq a r) eqn:Er; [discriminate|].
      inversion Hin; subst; [unfold R in *; congruence | now apply IH].
  Qed.

  Lemma match_all_perm l1 : forall l2,
    length l1 = length l2 -> match_all eeq l1 l2 = true -> PermutationA R l1 l2.
  Proof.
    induction l1 as [|a r IH]; intros l2 Hlen H.
    - destruct l2; [constructor | discriminate].
    - cbn in H. destruct (remove_first eeq a l2) as [l2'|] eqn:Er; [|discriminate].
      destruct (remove_first_Some _ _ _ Er) as (x & b & y & -> & Hab & ->).
      rewrite app_length in *. cbn in Hlen.
      assert (Hl : length r = length (x ++ y)) by (rewrite app_length; lia).
      specialize (IH _ Hl H).
      transitivity (b :: x ++ y).
      + constructor; auto.
      + apply PermutationA_middle; auto. 
  Qed.

  (* counting characterisation *)
  Fixpoint count (a : E) (l : list E) : nat :=
    match l with [] => O | b :: r => if eeq a b then S (count a r) else count a r end.

  Lemma eeq_compat a x y : R x y -> eeq a x = eeq a y.
  Proof.
    intros H. destruct (eeq a x) eqn:E1, (eeq a y) eqn:E2; auto.
    - assert (R a y) by (transitivity x; auto). unfold R in *; congruence.
    - assert (R a x) by (transitivity y; auto; symmetry; auto). unfold R in *; congruence.
  Qed.

  Lemma eeq_compat_l a b x : R a b -> eeq a x = eeq b x.
  Proof.
    intros H. destruct (eeq a x) eqn:E1, (eeq b x) eqn:E2; auto.
    - assert (R b x) by (transitivity a; auto; symmetry; auto). unfold R in *; congruence.
    - assert (R a x) by (transitivity b; auto). unfold R in *; congruence.
  Qed.

  Lemma count_app a l1 l2 : count a (l1 ++ l2) = count a l1 + count a l2.
  Proof. induction l1 as [|b r IH]; cbn; auto. destruct (eeq a b); cbn; auto. Qed.

  Lemma perm_count l1 l2 : PermutationA R l1 l2 -> forall a, count a l1 = count a l2.
  Proof.
    induction 1 as [| x y l1 l2 Hxy HP IH | x y l | l1 l2 l3 H1 IH1 H2 IH2]; intros a; cbn; auto.
    - rewrite (eeq_compat a x y Hxy), IH. reflexivity.
    - destruct (eeq a x), (eeq a y); reflexivity.
    - now rewrite IH1.
  Qed.

  Lemma PermutationA_len l1 l2 : PermutationA R l1 l2 -> length l1 = length l2.
  Proof. induction 1; cbn; congruence. Qed.

  Lemma count_pos_InA a l : 0 < count a l -> InA R a l.
  Proof.
    induction l as [|b r IH]; cbn; [lia|]. destruct (eeq a b) eqn:Eab.
    - intros _. now constructor.
    - intros H. constructor 2. auto.
  Qed.

  Lemma InA_remove_first a l : InA R a l -> exists l', remove_first eeq a l = Some l'.
  Proof.
    induction l as [|b r IH]; intros H; [inversion H|].
    cbn. destruct (eeq a b) eqn:Eab; [eauto|].
    inversion H; subst; [unfold R in *; congruence|].
    destruct (IH H1) as [l' ->]. eauto.
  Qed.

  Lemma count_match_all l1 : forall l2,
    (forall a, count a l1 = count a l2) -> match_all eeq l1 l2 = true.
  Proof.
    induction l1 as [|a r IH]; intros l2 HC; [reflexivity|].
    cbn. assert (Hin : InA R a l2).
    { apply count_pos_InA. rewrite <- HC. cbn.
      assert (Haa : eeq a a = true) by (change (R a a); reflexivity). rewrite Haa. lia. }
    destruct (InA_remove_first _ _ Hin) as [l2' Hr]. rewrite Hr.
    destruct (remove_first_Some _ _ _ Hr) as (x & b & y & -> & Hab & ->).
    apply IH. intros c. specialize (HC c). cbn in HC.
    rewrite count_app in *. cbn in HC. rewrite (eeq_compat c a b Hab) in HC.
    destruct (eeq c b); lia.
  Qed.

  Lemma perm_match_all l1 l2 : PermutationA R l1 l2 -> match_all eeq l1 l2 = true.
  Proof. intros HP. apply count_match_all. now apply perm_count. Qed.

  Lemma perm_iff_count l1 l2 :
    PermutationA R l1 l2 <-> (length l1 = length l2 /\ forall a, count a l1 = count a l2).
  Proof.
    split.
    - intros HP. split; [now apply PermutationA_len | now apply perm_count].
    - intros [Hl HC]. apply match_all_perm; auto. now apply count_match_all.
  Qed.

  Theorem equal_iff_perm l1 l2 : equal eeq l1 l2 = true <-> PermutationA R l1 l2.
  Proof.
    unfold equal. split.
    - intros H. apply andb_prop in H as [Hl Hm]. apply Nat.eqb_eq in Hl.
      now apply match_all_perm.
    - intros HP. apply andb_true_intro. split.
      + apply Nat.eqb_eq. now apply PermutationA_len.
      + now apply perm_match_all.
  Qed.

  Corollary equal_refl l : equal eeq l l = true.
  Proof. apply equal_iff_perm. reflexivity. Qed.

  Corollary equal_sym l1 l2 : equal eeq l1 l2 = equal eeq l2 l1.
  Proof.
    destruct (equal eeq l1 l2) eqn:H1, (equal eeq l2 l1) eqn:H2; auto.
    - apply equal_iff_perm in H1. symmetry in H1. apply equal_iff_perm in H1. congruence.
    - apply equal_iff_perm in H2. symmetry in H2. apply equal_iff_perm in H2. congruence.
  Qed.

  Corollary equal_order_irrelevant l1 l1' l2 :
    PermutationA R l1 l1' -> equal eeq l1 l2 = equal eeq l1' l2.
  Proof.
    intros HP.
    destruct (equal eeq l1 l2) eqn:H1, (equal eeq l1' l2) eqn:H2; auto.
    - apply equal_iff_perm in H1. rewrite HP in H1. apply equal_iff_perm in H1. congruence.
    - apply equal_iff_perm in H2. rewrite <- HP in H2. apply equal_iff_perm in H2. congruence.
  Qed.
End Proofs.

(* The pinned implementation is not multiset equality, whatever the entry equality:
   two distinct classes a, b suffice. *)
Lemma equal_pinned_refuted {E} (eeq : E -> E -> bool) (a b : E) :
  eeq a a = true -> eeq b b = true -> eeq a b = false -> eeq b a = false ->
  equal_pinned eeq [a; a] [a; b] = true /\ equal_pinned eeq [a; a] [a; a] = false.
Proof.
  intros Haa Hbb Hab Hba. unfold equal_pinned, count_matches. cbn.
  rewrite !Haa, ?Hab. cbn. auto.
Qed.

(* concrete entry equality is an equivalence *)
From FF Require Import proofs.Bytes_Proofs.
Lemma centry_eqb_eq a b : centry_eqb a b = true <-> a = b.
Proof.
  destruct a as [[s1 n1] r1], b as [[s2 n2] r2]. cbn. split.
  - intros H. apply andb_prop in H as [H H3]. apply andb_prop in H as [H1 H2].
    apply Z.eqb_eq in H1. apply N.eqb_eq in H2. apply bytes_eqb_eq in H3. congruence.
  - intros H; inversion H; subst. rewrite Z.eqb_refl, N.eqb_refl, bytes_eqb_refl. reflexivity.
Qed.

Lemma centry_equiv : Equivalence (R centry_eqb).
Proof.
  unfold R. split.
  - intros x. now apply centry_eqb_eq.
  - intros x y H. apply centry_eqb_eq in H. now apply centry_eqb_eq.
  - intros x y z H1 H2. apply centry_eqb_eq in H1, H2. apply centry_eqb_eq. congruence.
Qed.
