(* Fuel is only a bound: a reader that does not run out of fuel returns the same result with more.  Hence
   the entry-list decoders that hand their own remaining fuel down (model/ForwardFast.v, what the
   correspondence check evaluates) are equal to the ones that compute fresh fuel per entry
   (model/Forward.v, what the property theorems are about). *)
From FF Require Import model.Bytes model.Msgp model.Forward model.ForwardFast.
From FF Require Import proofs.Bytes_Proofs proofs.Msgp_Total proofs.Total_Proofs.
From Coq Require Import Lia ZifyN ZifyNat ZifyBool.

Lemma bind_nf_l {A B} (x : res A) (g : A -> res B) : bind x g <> Err EFuel -> x <> Err EFuel.
Proof. intros H E. apply H. rewrite E. reflexivity. Qed.

Lemma rd_all_mono p : forall f,
  (forall f' bs, (f <= f')%nat -> rd_intf p f bs <> Err EFuel -> rd_intf p f' bs = rd_intf p f bs) /\
  (forall f' cnt bs acc, (f <= f')%nat -> rd_arr p f cnt bs acc <> Err EFuel -> rd_arr p f' cnt bs acc = rd_arr p f cnt bs acc) /\
  (forall f' cnt bs acc, (f <= f')%nat -> rd_map p f cnt bs acc <> Err EFuel -> rd_map p f' cnt bs acc = rd_map p f cnt bs acc).
Proof.
  induction f as [|f (IHi & IHa & IHm)].
  - repeat split; intros; exfalso; apply H0; reflexivity.
  - repeat split.
    + intros f' bs L H. destruct f' as [|f']; [lia|]. assert (L' : (f <= f')%nat) by lia.
      destruct bs as [|b t]; [reflexivity|]. rewrite !rd_intf_S in *.
      repeat match goal with
             | |- context [if ?c then _ else _] => destruct c
             end; try reflexivity.
      all: match goal with
           | |- context [rd_map_hdr ?x] => destruct (rd_map_hdr x) as [[c t']|e|]; cbn [bind] in *; try reflexivity; now apply IHm
           | |- context [rd_arr_hdr ?x] => destruct (rd_arr_hdr x) as [[c t']|e|]; cbn [bind] in *; try reflexivity; now apply IHa
           end.
    + intros f' cnt bs acc L H. destruct f' as [|f']; [lia|]. assert (L' : (f <= f')%nat) by lia.
      rewrite !rd_arr_S in *. destruct (cnt =? 0); [reflexivity|].
      pose proof (bind_nf_l _ _ H) as Hi. rewrite (IHi f' bs L' Hi).
      destruct (rd_intf p f bs) as [[v r]|e|]; cbn [bind] in *; try reflexivity. now apply IHa.
    + intros f' cnt bs acc L H. destruct f' as [|f']; [lia|]. assert (L' : (f <= f')%nat) by lia.
      rewrite !rd_map_S in *. destruct (cnt =? 0); [reflexivity|].
      destruct (rd_rec_key p bs) as [[k r1]|e|]; cbn [bind] in *; try reflexivity.
      pose proof (bind_nf_l _ _ H) as Hi. rewrite (IHi f' r1 L' Hi).
      destruct (rd_intf p f r1) as [[v r]|e|]; cbn [bind] in *; try reflexivity. now apply IHm.
Qed.

(* with at least the fuel the reader would give itself, the result is that of the reader's own fuel *)
Theorem rd_intf_enough p f bs : (fuel_for bs <= f)%nat -> rd_intf p f bs = rd_intf p (fuel_for bs) bs.
Proof.
  intros L. apply (proj1 (rd_all_mono p (fuel_for bs))); auto. apply rd_intf_no_fuel. lia.
Qed.

Lemma fuel_for_consumed a b : consumed a b -> (fuel_for b + 3 <= fuel_for a)%nat.
Proof. intros H. apply consumed_length in H. unfold fuel_for. lia. Qed.
Lemma fuel_for_suffix a b : suffix a b -> (fuel_for b <= fuel_for a)%nat.
Proof. intros H. apply suffix_length in H. unfold fuel_for. lia. Qed.

Lemma U_entry_f_eq p f bs : (fuel_for bs <= S f)%nat -> U_entry_f p f bs = U_entry p bs.
Proof.
  intros L. unfold U_entry_f, U_entry.
  destruct (rd_arr_hdr bs) as [[sz r0]|e|] eqn:E0; cbn [bind]; try reflexivity.
  destruct (negb (sz =? 2)); [reflexivity|].
  destruct (rd_eventtime r0) as [[[s ns] r1]|e|] eqn:E1; cbn [bind]; try reflexivity.
  apply rd_arr_hdr_consumed in E0. apply rd_eventtime_consumed in E1.
  pose proof (fuel_for_consumed _ _ E0). pose proof (fuel_for_consumed _ _ E1).
  rewrite (rd_intf_enough p f r1) by lia. reflexivity.
Qed.

Lemma U_entry_consumed' p bs e r : U_entry p bs = Ok (e, r) -> consumed bs r.
Proof.
  unfold U_entry. intros H.
  destruct (rd_arr_hdr bs) as [[sz r0]|?|] eqn:E0; cbn [bind] in H; try discriminate.
  destruct (negb (sz =? 2)); [discriminate|].
  destruct (rd_eventtime r0) as [[[s ns] r1]|?|] eqn:E1; cbn [bind] in H; try discriminate.
  destruct (rd_intf p (fuel_for r1) r1) as [[v r2]|?|] eqn:E2; cbn [bind] in H; try discriminate.
  inversion H; subst. apply rd_arr_hdr_consumed in E0. apply rd_eventtime_consumed in E1. apply rd_intf_consumed in E2.
  eapply consumed_trans; [exact E0|]. eapply consumed_trans; eauto.
Qed.

Lemma U_entries_loop_f_eq p : forall f cnt bs acc, (fuel_for bs <= f)%nat ->
  U_entries_loop_f p f cnt bs acc = U_entries_loop p f cnt bs acc.
Proof.
  induction f as [|f IH]; intros cnt bs acc L; [reflexivity|].
  cbn [U_entries_loop_f U_entries_loop]. destruct (cnt =? 0); [reflexivity|].
  rewrite U_entry_f_eq by lia.
  destruct (U_entry p bs) as [[e r]|?|] eqn:E; cbn [bind]; try reflexivity.
  apply IH. apply U_entry_consumed' in E. apply fuel_for_consumed in E. lia.
Qed.

Theorem U_entry_list_f_eq p bs : U_entry_list_f p bs = U_entry_list p bs.
Proof.
  unfold U_entry_list_f, U_entry_list. destruct (rd_arr_hdr bs) as [[c r]|?|]; cbn [bind]; try reflexivity.
  apply U_entries_loop_f_eq. lia.
Qed.

Theorem U_forward_f_eq p prev bs : U_forward_f p prev bs = U_forward p prev bs.
Proof.
  unfold U_forward_f, U_forward.
  destruct (rd_arr_hdr bs) as [[sz r0]|?|]; cbn [bind]; try reflexivity.
  destruct (negb (arity_ok 2 sz)); [reflexivity|].
  destruct (rd_str r0) as [[tag r1]|?|]; cbn [bind]; try reflexivity.
  now rewrite U_entry_list_f_eq.
Qed.

Lemma unmarshal_packed_loop_f_eq : forall f bs acc, (fuel_for bs <= f)%nat ->
  unmarshal_packed_loop_f f bs acc = unmarshal_packed_loop f bs acc.
Proof.
  induction f as [|f IH]; intros bs acc L; [reflexivity|].
  cbn [unmarshal_packed_loop_f unmarshal_packed_loop]. destruct bs as [|b t]; [reflexivity|].
  rewrite U_entry_f_eq by lia.
  destruct (U_entry Slice (b :: t)) as [[e r]|?|] eqn:E; cbn [bind]; try reflexivity.
  apply IH. apply U_entry_consumed' in E. apply fuel_for_consumed in E. lia.
Qed.

Theorem unmarshal_packed_f_eq bs : unmarshal_packed_f bs = unmarshal_packed bs.
Proof. unfold unmarshal_packed_f, unmarshal_packed. apply unmarshal_packed_loop_f_eq. lia. Qed.
