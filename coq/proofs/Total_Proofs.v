(* Totality of the message decoders (model/Forward.v, model/Handshake.v): none of them
   returns [Panic], and the fuel they give to their loops and to rd_intf / skip never
   runs out: this is the termination argument of the Go recursion. *)
From FF Require Import model.Bytes model.Msgp model.Forward model.Handshake.
From FF Require Import proofs.Bytes_Proofs proofs.Msgp_Total.
From Coq Require Import Lia ZifyN ZifyNat ZifyBool.
Open Scope N_scope.

(* ---------- one step of the loops ---------- *)

Lemma U_options_loop_S p f cnt bs o : U_options_loop p (S f) cnt bs o =
  if cnt =? 0 then Ok (o, bs)
  else
    '(k, r) <- rd_field_key p bs ;;
    if bytes_eqb k k_size then
      if is_nil_next r then r' <- rd_nil r ;; U_options_loop p f (cnt - 1) r' {| o_size := None; o_chunk := o_chunk o; o_comp := o_comp o |}
      else '(z, r') <- rd_int64 r ;; U_options_loop p f (cnt - 1) r' {| o_size := Some z; o_chunk := o_chunk o; o_comp := o_comp o |}
    else if bytes_eqb k k_chunk then
      '(c, r') <- rd_str r ;; U_options_loop p f (cnt - 1) r' {| o_size := o_size o; o_chunk := c; o_comp := o_comp o |}
    else if bytes_eqb k k_comp then
      '(c, r') <- rd_str r ;; U_options_loop p f (cnt - 1) r' {| o_size := o_size o; o_chunk := o_chunk o; o_comp := c |}
    else
      r' <- skip p (fuel_for r) r ;; U_options_loop p f (cnt - 1) r' o.
Proof. reflexivity. Qed.

Lemma U_entries_loop_S p f cnt bs acc : U_entries_loop p (S f) cnt bs acc =
  if cnt =? 0 then Ok (rev acc, bs)
  else '(e, r) <- U_entry p bs ;; U_entries_loop p f (cnt - 1) r (e :: acc).
Proof. rewrite ?rev_alt. reflexivity. Qed.

Lemma U_ack_loop_S p f cnt bs a : U_ack_loop p (S f) cnt bs a =
  if cnt =? 0 then Ok (a, bs)
  else
    '(k, r) <- rd_field_key p bs ;;
    if bytes_eqb k k_ack then '(v, r') <- rd_str r ;; U_ack_loop p f (cnt - 1) r' v
    else r' <- skip p (fuel_for r) r ;; U_ack_loop p f (cnt - 1) r' a.
Proof. reflexivity. Qed.

Section HeloS.
Import String.
Definition k_nonce : bytes := Show.str "nonce".
Definition k_auth : bytes := Show.str "auth".
Definition k_keepalive : bytes := Show.str "keepalive".

Lemma U_helo_opts_loop_S p f cnt bs o : U_helo_opts_loop p (S f) cnt bs o =
  if cnt =? 0 then Ok (o, bs)
  else
    '(k, r) <- rd_field_key p bs ;;
    if bytes_eqb k k_nonce then
      '(v, r') <- rd_bin r ;; U_helo_opts_loop p f (cnt - 1) r' {| h_nonce := v; h_auth := h_auth o; h_keepalive := h_keepalive o |}
    else if bytes_eqb k k_auth then
      '(v, r') <- rd_bin r ;; U_helo_opts_loop p f (cnt - 1) r' {| h_nonce := h_nonce o; h_auth := v; h_keepalive := h_keepalive o |}
    else if bytes_eqb k k_keepalive then
      '(v, r') <- rd_bool r ;; U_helo_opts_loop p f (cnt - 1) r' {| h_nonce := h_nonce o; h_auth := h_auth o; h_keepalive := v |}
    else r' <- skip p (fuel_for r) r ;; U_helo_opts_loop p f (cnt - 1) r' o.
Proof. reflexivity. Qed.

End HeloS.

Lemma unmarshal_packed_loop_S f bs acc : unmarshal_packed_loop (S f) bs acc =
  match bs with
  | [] => Ok (rev acc)
  | _ => '(e, r) <- U_entry Slice bs ;; unmarshal_packed_loop f r (e :: acc)
  end.
Proof. rewrite ?rev_alt. reflexivity. Qed.

Lemma get_chunk_loop_S f cnt bs : get_chunk_loop (S f) cnt bs =
  if cnt =? 0 then Err ENotFound
  else
    '(k, r) <- rd_map_key bs ;;
    if bytes_eqb k k_chunk then '(v, _) <- rd_map_key r ;; Ok v
    else r' <- skip Stream (fuel_for r) r ;; get_chunk_loop f (cnt - 1) r'.
Proof. reflexivity. Qed.

(* ---------- no decoder panics ---------- *)

Ltac np_tac' := repeat (np_tac; try (progress cbv zeta)).

Lemma np_U_options_loop p : forall f cnt bs o, np (U_options_loop p f cnt bs o).
Proof. induction f as [|f IH]; intros; [apply np_err|]. rewrite U_options_loop_S. np_tac. Qed.
#[export] Hint Resolve np_U_options_loop : np.
Lemma np_U_options p bs : np (U_options p bs).
Proof. unfold U_options. np_tac. Qed.
#[export] Hint Resolve np_U_options : np.
Lemma np_U_tail p full bs : np (U_tail p full bs).
Proof. unfold U_tail. np_tac. Qed.
#[export] Hint Resolve np_U_tail : np.
Lemma np_U_message p prev bs : np (U_message p prev bs).
Proof. unfold U_message. np_tac'. Qed.
Lemma np_U_message_ext p prev bs : np (U_message_ext p prev bs).
Proof. unfold U_message_ext. np_tac'. Qed.
Lemma np_U_entry p bs : np (U_entry p bs).
Proof. unfold U_entry. np_tac'. Qed.
#[export] Hint Resolve np_U_entry : np.
Lemma np_U_entries_loop p : forall f cnt bs acc, np (U_entries_loop p f cnt bs acc).
Proof. induction f as [|f IH]; intros; [apply np_err|]. rewrite U_entries_loop_S. np_tac. Qed.
#[export] Hint Resolve np_U_entries_loop : np.
Lemma np_U_entry_list p bs : np (U_entry_list p bs).
Proof. unfold U_entry_list. np_tac. Qed.
#[export] Hint Resolve np_U_entry_list : np.
Lemma np_U_forward p prev bs : np (U_forward p prev bs).
Proof. unfold U_forward. np_tac'. Qed.
Lemma np_U_packed p prev bs : np (U_packed p prev bs).
Proof. unfold U_packed. np_tac'. Qed.
Lemma np_U_ack_loop p : forall f cnt bs a, np (U_ack_loop p f cnt bs a).
Proof. induction f as [|f IH]; intros; [apply np_err|]. rewrite U_ack_loop_S. np_tac. Qed.
#[export] Hint Resolve np_U_ack_loop : np.
Lemma np_U_ack p bs : np (U_ack p bs).
Proof. unfold U_ack. np_tac. Qed.
Lemma np_unmarshal_packed_loop : forall f bs acc, np (unmarshal_packed_loop f bs acc).
Proof. induction f as [|f IH]; intros; [apply np_err|]. rewrite unmarshal_packed_loop_S. np_tac. Qed.
#[export] Hint Resolve np_unmarshal_packed_loop : np.
Lemma np_unmarshal_packed bs : np (unmarshal_packed bs).
Proof. unfold unmarshal_packed. np_tac. Qed.
Lemma np_next_class_stream bs : np (next_class_stream bs).
Proof. unfold next_class_stream. np_tac'. Qed.
#[export] Hint Resolve np_next_class_stream : np.
Lemma np_get_chunk_loop : forall f cnt bs, np (get_chunk_loop f cnt bs).
Proof. induction f as [|f IH]; intros; [apply np_err|]. rewrite get_chunk_loop_S. np_tac. Qed.
#[export] Hint Resolve np_get_chunk_loop : np.
Lemma np_get_chunk bs : np (get_chunk bs).
Proof. unfold get_chunk. np_tac'. Qed.
Lemma np_U_helo_opts_loop p : forall f cnt bs o, np (U_helo_opts_loop p f cnt bs o).
Proof. induction f as [|f IH]; intros; [apply np_err|]. rewrite U_helo_opts_loop_S. np_tac. Qed.
#[export] Hint Resolve np_U_helo_opts_loop : np.
Lemma np_U_helo p bs : np (U_helo p bs).
Proof. unfold U_helo. np_tac. Qed.
Lemma np_U_ping p bs : np (U_ping p bs).
Proof. unfold U_ping. np_tac. Qed.
Lemma np_U_pong p bs : np (U_pong p bs).
Proof. unfold U_pong. np_tac. Qed.

(* ---------- every successful decode consumes input ---------- *)

Lemma U_entry_consumed p bs e r : U_entry p bs = Ok (e, r) -> consumed bs r.
Proof.
  unfold U_entry. intros H. bind_inv H.
  match type of H with (if ?c then _ else _) = _ => destruct c; [discriminate|] end.
  bind_inv H. inv H. lens_pre. chain.
Qed.

(* ---------- the fuel of the loops never runs out ---------- *)

(* every iteration consumes at least one byte, the exit takes one more unit:
   length + 1 units suffice, and fuel_for gives 3 * length + 2 *)
Ltac lens' :=
  repeat match goal with
  | H : U_entry _ _ = Ok _ |- _ => apply U_entry_consumed in H
  end; lens.

Ltac nf_tac' := repeat (nf_tac; try (progress cbv zeta)).

Lemma nf_U_options_loop p : forall f cnt bs o, (length bs < f)%nat -> nf (U_options_loop p f cnt bs o).
Proof.
  induction f as [|f IH]; intros cnt bs o Hf; [lia|]. rewrite U_options_loop_S.
  nf_tac; apply IH; lens'; lia.
Qed.
Lemma nf_U_options_loop_fuel p cnt r o : nf (U_options_loop p (fuel_for r) cnt r o).
Proof. apply nf_U_options_loop. unfold fuel_for. lia. Qed.
#[export] Hint Resolve nf_U_options_loop_fuel : nf.
Lemma nf_U_options p bs : nf (U_options p bs).
Proof. unfold U_options. nf_tac. Qed.
#[export] Hint Resolve nf_U_options : nf.
Lemma nf_U_tail p full bs : nf (U_tail p full bs).
Proof. unfold U_tail. nf_tac. Qed.
#[export] Hint Resolve nf_U_tail : nf.
Lemma nf_U_message p prev bs : nf (U_message p prev bs).
Proof. unfold U_message. nf_tac'. Qed.
Lemma nf_U_message_ext p prev bs : nf (U_message_ext p prev bs).
Proof. unfold U_message_ext. nf_tac'. Qed.
Lemma nf_U_entry p bs : nf (U_entry p bs).
Proof. unfold U_entry. nf_tac'. Qed.
#[export] Hint Resolve nf_U_entry : nf.
Lemma nf_U_entries_loop p : forall f cnt bs acc, (length bs < f)%nat -> nf (U_entries_loop p f cnt bs acc).
Proof.
  induction f as [|f IH]; intros cnt bs acc Hf; [lia|]. rewrite U_entries_loop_S.
  nf_tac; apply IH; lens'; lia.
Qed.
Lemma nf_U_entries_loop_fuel p cnt r acc : nf (U_entries_loop p (fuel_for r) cnt r acc).
Proof. apply nf_U_entries_loop. unfold fuel_for. lia. Qed.
#[export] Hint Resolve nf_U_entries_loop_fuel : nf.
Lemma nf_U_entry_list p bs : nf (U_entry_list p bs).
Proof. unfold U_entry_list. nf_tac. Qed.
#[export] Hint Resolve nf_U_entry_list : nf.
Lemma nf_U_forward p prev bs : nf (U_forward p prev bs).
Proof. unfold U_forward. nf_tac'. Qed.
Lemma nf_U_packed p prev bs : nf (U_packed p prev bs).
Proof. unfold U_packed. nf_tac'. Qed.
Lemma nf_U_ack_loop p : forall f cnt bs a, (length bs < f)%nat -> nf (U_ack_loop p f cnt bs a).
Proof.
  induction f as [|f IH]; intros cnt bs a Hf; [lia|]. rewrite U_ack_loop_S.
  nf_tac; apply IH; lens'; lia.
Qed.
Lemma nf_U_ack_loop_fuel p cnt r a : nf (U_ack_loop p (fuel_for r) cnt r a).
Proof. apply nf_U_ack_loop. unfold fuel_for. lia. Qed.
#[export] Hint Resolve nf_U_ack_loop_fuel : nf.
Lemma nf_U_ack p bs : nf (U_ack p bs).
Proof. unfold U_ack. nf_tac. Qed.
Lemma nf_unmarshal_packed_loop : forall f bs acc, (length bs < f)%nat -> nf (unmarshal_packed_loop f bs acc).
Proof.
  induction f as [|f IH]; intros bs acc Hf; [lia|]. rewrite unmarshal_packed_loop_S.
  destruct bs as [|b t]; [apply nf_ok|]. nf_tac; apply IH; lens'; lia.
Qed.
Lemma nf_unmarshal_packed bs : nf (unmarshal_packed bs).
Proof. unfold unmarshal_packed. apply nf_unmarshal_packed_loop. unfold fuel_for. lia. Qed.
Lemma nf_next_class_stream bs : nf (next_class_stream bs).
Proof. unfold next_class_stream. nf_tac'. Qed.
#[export] Hint Resolve nf_next_class_stream : nf.
Lemma nf_get_chunk_loop : forall f cnt bs, (length bs < f)%nat -> nf (get_chunk_loop f cnt bs).
Proof.
  induction f as [|f IH]; intros cnt bs Hf; [lia|]. rewrite get_chunk_loop_S.
  nf_tac; apply IH; lens'; lia.
Qed.
Lemma nf_get_chunk_loop_fuel cnt r : nf (get_chunk_loop (fuel_for r) cnt r).
Proof. apply nf_get_chunk_loop. unfold fuel_for. lia. Qed.
#[export] Hint Resolve nf_get_chunk_loop_fuel : nf.
Lemma nf_get_chunk bs : nf (get_chunk bs).
Proof. unfold get_chunk. nf_tac'. Qed.
Lemma nf_U_helo_opts_loop p : forall f cnt bs o, (length bs < f)%nat -> nf (U_helo_opts_loop p f cnt bs o).
Proof.
  induction f as [|f IH]; intros cnt bs o Hf; [lia|]. rewrite U_helo_opts_loop_S.
  nf_tac; apply IH; lens'; lia.
Qed.
Lemma nf_U_helo_opts_loop_fuel p cnt r o : nf (U_helo_opts_loop p (fuel_for r) cnt r o).
Proof. apply nf_U_helo_opts_loop. unfold fuel_for. lia. Qed.
#[export] Hint Resolve nf_U_helo_opts_loop_fuel : nf.
Lemma nf_U_helo p bs : nf (U_helo p bs).
Proof. unfold U_helo. nf_tac. Qed.
Lemma nf_U_ping p bs : nf (U_ping p bs).
Proof. unfold U_ping. nf_tac. Qed.
Lemma nf_U_pong p bs : nf (U_pong p bs).
Proof. unfold U_pong. nf_tac. Qed.

(* ---------- the theorems ---------- *)

Theorem U_options_no_panic : forall p bs, U_options p bs <> Panic. Proof. exact np_U_options. Qed.
Theorem U_message_no_panic : forall p prev bs, U_message p prev bs <> Panic. Proof. exact np_U_message. Qed.
Theorem U_message_ext_no_panic : forall p prev bs, U_message_ext p prev bs <> Panic. Proof. exact np_U_message_ext. Qed.
Theorem U_entry_no_panic : forall p bs, U_entry p bs <> Panic. Proof. exact np_U_entry. Qed.
Theorem U_entry_list_no_panic : forall p bs, U_entry_list p bs <> Panic. Proof. exact np_U_entry_list. Qed.
Theorem U_forward_no_panic : forall p prev bs, U_forward p prev bs <> Panic. Proof. exact np_U_forward. Qed.
Theorem U_packed_no_panic : forall p prev bs, U_packed p prev bs <> Panic. Proof. exact np_U_packed. Qed.
Theorem U_ack_no_panic : forall p bs, U_ack p bs <> Panic. Proof. exact np_U_ack. Qed.
Theorem unmarshal_packed_no_panic : forall bs, unmarshal_packed bs <> Panic. Proof. exact np_unmarshal_packed. Qed.
Theorem get_chunk_no_panic : forall bs, get_chunk bs <> Panic. Proof. exact np_get_chunk. Qed.
Theorem U_helo_no_panic : forall p bs, U_helo p bs <> Panic. Proof. exact np_U_helo. Qed.
Theorem U_ping_no_panic : forall p bs, U_ping p bs <> Panic. Proof. exact np_U_ping. Qed.
Theorem U_pong_no_panic : forall p bs, U_pong p bs <> Panic. Proof. exact np_U_pong. Qed.

Theorem U_options_loop_no_fuel : forall p cnt r o, U_options_loop p (fuel_for r) cnt r o <> Err EFuel.
Proof. exact nf_U_options_loop_fuel. Qed.
Theorem U_entries_loop_no_fuel : forall p cnt r acc, U_entries_loop p (fuel_for r) cnt r acc <> Err EFuel.
Proof. exact nf_U_entries_loop_fuel. Qed.
Theorem U_ack_loop_no_fuel : forall p cnt r a, U_ack_loop p (fuel_for r) cnt r a <> Err EFuel.
Proof. exact nf_U_ack_loop_fuel. Qed.
Theorem unmarshal_packed_loop_no_fuel : forall bs acc, unmarshal_packed_loop (fuel_for bs) bs acc <> Err EFuel.
Proof. intros. apply nf_unmarshal_packed_loop. unfold fuel_for. lia. Qed.
Theorem get_chunk_loop_no_fuel : forall cnt r, get_chunk_loop (fuel_for r) cnt r <> Err EFuel.
Proof. exact nf_get_chunk_loop_fuel. Qed.
Theorem U_helo_opts_loop_no_fuel : forall p cnt r o, U_helo_opts_loop p (fuel_for r) cnt r o <> Err EFuel.
Proof. exact nf_U_helo_opts_loop_fuel. Qed.

Theorem U_options_no_fuel : forall p bs, U_options p bs <> Err EFuel. Proof. exact nf_U_options. Qed.
Theorem U_message_no_fuel : forall p prev bs, U_message p prev bs <> Err EFuel. Proof. exact nf_U_message. Qed.
Theorem U_message_ext_no_fuel : forall p prev bs, U_message_ext p prev bs <> Err EFuel. Proof. exact nf_U_message_ext. Qed.
Theorem U_entry_no_fuel : forall p bs, U_entry p bs <> Err EFuel. Proof. exact nf_U_entry. Qed.
Theorem U_entry_list_no_fuel : forall p bs, U_entry_list p bs <> Err EFuel. Proof. exact nf_U_entry_list. Qed.
Theorem U_forward_no_fuel : forall p prev bs, U_forward p prev bs <> Err EFuel. Proof. exact nf_U_forward. Qed.
Theorem U_packed_no_fuel : forall p prev bs, U_packed p prev bs <> Err EFuel. Proof. exact nf_U_packed. Qed.
Theorem U_ack_no_fuel : forall p bs, U_ack p bs <> Err EFuel. Proof. exact nf_U_ack. Qed.
Theorem unmarshal_packed_no_fuel : forall bs, unmarshal_packed bs <> Err EFuel. Proof. exact nf_unmarshal_packed. Qed.
Theorem get_chunk_no_fuel : forall bs, get_chunk bs <> Err EFuel. Proof. exact nf_get_chunk. Qed.
Theorem U_helo_no_fuel : forall p bs, U_helo p bs <> Err EFuel. Proof. exact nf_U_helo. Qed.
Theorem U_ping_no_fuel : forall p bs, U_ping p bs <> Err EFuel. Proof. exact nf_U_ping. Qed.
Theorem U_pong_no_fuel : forall p bs, U_pong p bs <> Err EFuel. Proof. exact nf_U_pong. Qed.

Print Assumptions U_options_no_panic.
Print Assumptions U_message_no_panic.
Print Assumptions U_message_ext_no_panic.
Print Assumptions U_entry_no_panic.
Print Assumptions U_entry_list_no_panic.
Print Assumptions U_forward_no_panic.
Print Assumptions U_packed_no_panic.
Print Assumptions U_ack_no_panic.
Print Assumptions unmarshal_packed_no_panic.
Print Assumptions get_chunk_no_panic.
Print Assumptions U_helo_no_panic.
Print Assumptions U_ping_no_panic.
Print Assumptions U_pong_no_panic.
Print Assumptions U_options_loop_no_fuel.
Print Assumptions U_entries_loop_no_fuel.
Print Assumptions U_ack_loop_no_fuel.
Print Assumptions unmarshal_packed_loop_no_fuel.
Print Assumptions get_chunk_loop_no_fuel.
Print Assumptions U_helo_opts_loop_no_fuel.
Print Assumptions U_options_no_fuel.
Print Assumptions U_message_no_fuel.
Print Assumptions U_message_ext_no_fuel.
Print Assumptions U_entry_no_fuel.
Print Assumptions U_entry_list_no_fuel.
Print Assumptions U_forward_no_fuel.
Print Assumptions U_packed_no_fuel.
Print Assumptions U_ack_no_fuel.
Print Assumptions unmarshal_packed_no_fuel.
Print Assumptions get_chunk_no_fuel.
Print Assumptions U_helo_no_fuel.
Print Assumptions U_ping_no_fuel.
Print Assumptions U_pong_no_fuel.
