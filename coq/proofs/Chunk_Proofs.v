(* Completeness of Skip and GetChunk with respect to the independent specification:
   B1  skip_complete      every value the specification parses is skipped, to the same rest
   B2  get_chunk_agrees   GetChunk returns the chunk the specification assigns to the message
   B3  get_chunk_pinned_refuted *)
From FF Require Import model.Bytes model.Show model.Msgp model.Forward model.Spec model.Pinned
  proofs.Bytes_Proofs proofs.Spec_Proofs proofs.Lead_Proofs.
From Coq Require Import Lia ZifyN ZifyNat ZifyBool String.
Open Scope N_scope.

(* ================================================================== *)
(* B1. skip                                                            *)
(* ================================================================== *)

(* [skip Stream] reports every ext32 header (lead byte 0xc9) short.  Whether a value is
   affected depends on its ENCODING, not on the value (any extension may be written with an
   ext32 header), so the side condition is a predicate on the bytes: [nx f bs] walks [bs]
   exactly as [parse f bs] does (same fuel, same recursion, it uses [parse] to find where
   each element ends) and answers false iff some value boundary carries the lead 0xc9.
   Where [parse] fails the answer is irrelevant (true). *)
Fixpoint nx (fuel : nat) (bs : bytes) {struct fuel} : bool :=
  match fuel with
  | O => true
  | S f =>
    match bs with
    | [] => true
    | b :: r =>
      match kind_of (b2n b) with
      | KExtS 4 => false
      | KFixArr c => nx_arr f c r
      | KFixMap c => nx_map f c r
      | KArr k => match onum (N.of_nat k) r with Some (c, u) => nx_arr f c u | None => true end
      | KMap k => match onum (N.of_nat k) r with Some (c, u) => nx_map f c u | None => true end
      | _ => true
      end
    end
  end
with nx_arr (fuel : nat) (cnt : N) (bs : bytes) {struct fuel} : bool :=
  match fuel with
  | O => true
  | S f =>
      if cnt =? 0 then true
      else nx f bs && match parse f bs with Some (_, r) => nx_arr f (cnt - 1) r | None => true end
  end
with nx_map (fuel : nat) (cnt : N) (bs : bytes) {struct fuel} : bool :=
  match fuel with
  | O => true
  | S f =>
      if cnt =? 0 then true
      else nx f bs &&
           match parse f bs with
           | Some (_, r) =>
               nx f r && match parse f r with Some (_, r') => nx_map f (cnt - 1) r' | None => true end
           | None => true
           end
  end.

(* the fuel of [parse1] *)
Definition no_ext32 (bs : bytes) : bool := nx (S (S (3 * List.length bs))) bs.

Definition skippable (p : path) (f : nat) (bs : bytes) : bool :=
  match p with Slice => true | Stream => nx f bs end.
Definition skippable_arr (p : path) (f : nat) (c : N) (bs : bytes) : bool :=
  match p with Slice => true | Stream => nx_arr f c bs end.
Definition skippable_map (p : path) (f : nat) (c : N) (bs : bytes) : bool :=
  match p with Slice => true | Stream => nx_map f c bs end.

Lemma nx_S_cons f b r : nx (S f) (b :: r) =
  match kind_of (b2n b) with
  | KExtS 4 => false
  | KFixArr c => nx_arr f c r
  | KFixMap c => nx_map f c r
  | KArr k => match onum (N.of_nat k) r with Some (c, u) => nx_arr f c u | None => true end
  | KMap k => match onum (N.of_nat k) r with Some (c, u) => nx_map f c u | None => true end
  | _ => true
  end.
Proof. reflexivity. Qed.

Lemma nx_arr_S f cnt bs : nx_arr (S f) cnt bs =
  if cnt =? 0 then true
  else nx f bs && match parse f bs with Some (_, r) => nx_arr f (cnt - 1) r | None => true end.
Proof. reflexivity. Qed.

Lemma nx_map_S f cnt bs : nx_map (S f) cnt bs =
  if cnt =? 0 then true
  else nx f bs &&
       match parse f bs with
       | Some (_, r) =>
           nx f r && match parse f r with Some (_, r') => nx_map f (cnt - 1) r' | None => true end
       | None => true
       end.
Proof. reflexivity. Qed.

Ltac red_bind := cbv beta iota zeta delta [bind].

(* leaves: one lemma per shape of [skip_kind] *)
Lemma skip_take l r s u : otake l r = Some (s, u) -> ('(_, t) <- take l r ;; Ok t) = Ok u.
Proof. intros H. now rewrite (otake_take _ _ _ _ H). Qed.

Lemma skip_num k r x u : onum k r = Some (x, u) -> ('(_, t) <- take k r ;; Ok t) = Ok u.
Proof.
  unfold onum. destruct (otake k r) as [[h w]|] eqn:E; [|discriminate]. intros [= <- <-].
  eapply skip_take; eauto.
Qed.

Theorem skip_complete_all p f :
  (forall bs v r, parse f bs = Some (v, r) -> skippable p f bs = true ->
     forall f', (3 * (List.length bs - List.length r) <= S f')%nat -> skip p f' bs = Ok r) /\
  (forall c bs acc v r, parse_arr f c bs acc = Some (v, r) -> skippable_arr p f c bs = true ->
     forall f', (3 * (List.length bs - List.length r) + 1 <= f')%nat -> skip_n p f' c bs = Ok r) /\
  (forall c bs acc v r, parse_map f c bs acc = Some (v, r) -> skippable_map p f c bs = true ->
     forall f', (3 * (List.length bs - List.length r) + 1 <= f')%nat -> skip_n p f' (2 * c) bs = Ok r).
Proof.
  induction f as [|f (IHp & IHa & IHm)].
  - repeat split; intros; discriminate.
  - repeat split.
    + (* one value *)
      intros bs v r H Hs f' Hf'.
      pose proof (parse_length _ _ _ _ H) as L.
      destruct bs as [|b r0]; [discriminate|].
      destruct f' as [|f']; [cbn [List.length] in *; lia|].
      rewrite parse_kind_eq in H. rewrite skip_kind_eq.
      assert (Hs' : match p with Slice => true | Stream => nx (S f) (b :: r0) end = true) by exact Hs.
      rewrite nx_S_cons in Hs'. clear Hs.
      cbn [List.length] in *.
      destruct (kind_of (b2n b)) as [z| |bb| |l|k|k|k|l| | |k|k|c|c|k|k] eqn:K;
        cbn [skip_kind]; inv_kind H.
      * injection H as <- <-. now rewrite take_0.
      * injection H as <- <-. now rewrite take_0.
      * injection H as <- <-. now rewrite take_0.
      * discriminate.
      * injection H as <- <-. eapply skip_take; eauto.
      * injection H as <- <-. rewrite (onum_rd_be _ _ _ _ E). red_bind. eapply skip_take; eauto.
      * injection H as <- <-. rewrite (onum_rd_be _ _ _ _ E). red_bind. eapply skip_take; eauto.
      * injection H as _ Hr.
        apply onum1_inv in E0 as (x & -> & ->).
        assert (G : ('(l, t) <- rd_be k r0 ;; '(_, u) <- take (l + 1) t ;; Ok u) = Ok r).
        { rewrite (onum_rd_be _ _ _ _ E). red_bind. rewrite (take_succ_cons _ x _ _ _ E1). now rewrite Hr. }
        destruct p; [exact G|].
        destruct k as [|[|[|[|[|k]]]]]; try exact G. discriminate.
      * injection H as <- <-. apply onum1_inv in E as (x & -> & ->).
        now rewrite (take_succ_cons _ x _ _ _ E0).
      * injection H as <- <-. eapply skip_num; eauto.
      * injection H as <- <-. eapply skip_num; eauto.
      * injection H as <- <-. eapply skip_num; eauto.
      * injection H as <- <-. eapply skip_num; eauto.
      * eapply IHa; [exact H| |].
        { destruct p; [reflexivity|exact Hs']. }
        pose proof (parse_arr_length _ _ _ _ _ _ H). lia.
      * eapply IHm; [exact H| |].
        { destruct p; [reflexivity|exact Hs']. }
        pose proof (parse_map_length _ _ _ _ _ _ H). lia.
      * rewrite (onum_rd_be _ _ _ _ E). red_bind. rewrite E in Hs'.
        pose proof (onum_length _ _ _ _ E).
        eapply IHa; [exact H| |].
        { destruct p; [reflexivity|exact Hs']. }
        pose proof (parse_arr_length _ _ _ _ _ _ H). lia.
      * rewrite (onum_rd_be _ _ _ _ E). red_bind. rewrite E in Hs'.
        pose proof (onum_length _ _ _ _ E).
        eapply IHm; [exact H| |].
        { destruct p; [reflexivity|exact Hs']. }
        pose proof (parse_map_length _ _ _ _ _ _ H). lia.
    + (* array elements *)
      intros c bs acc v r H Hs f' Hf'.
      destruct f' as [|f']; [lia|].
      rewrite parse_arr_S in H. rewrite skip_n_S.
      assert (Hs' : match p with Slice => true | Stream => nx_arr (S f) c bs end = true) by exact Hs.
      rewrite nx_arr_S in Hs'. clear Hs.
      destruct (c =? 0).
      * now injection H as <- <-.
      * ob H. rewrite E in Hs'.
        pose proof (parse_length _ _ _ _ E) as L1.
        pose proof (parse_arr_length _ _ _ _ _ _ H) as L2.
        assert (N1 : skippable p f bs = true) by (destruct p; [reflexivity|now apply andb_prop in Hs']).
        rewrite (IHp _ _ _ E N1 f') by lia.
        red_bind.
        eapply IHa; [exact H| |lia].
        destruct p; [reflexivity|now apply andb_prop in Hs'].
    + (* map pairs *)
      intros c bs acc v r H Hs f' Hf'.
      destruct f' as [|f']; [lia|].
      rewrite parse_map_S in H. rewrite skip_n_S.
      assert (Hs' : match p with Slice => true | Stream => nx_map (S f) c bs end = true) by exact Hs.
      rewrite nx_map_S in Hs'. clear Hs.
      destruct (N.eqb_spec c 0) as [->|Hc].
      * now injection H as <- <-.
      * destruct (N.eqb_spec (2 * c) 0); [lia|].
        ob H. rewrite E in Hs'. rewrite E0 in Hs'.
        pose proof (parse_length _ _ _ _ E) as L1.
        pose proof (parse_length _ _ _ _ E0) as L2.
        pose proof (parse_map_length _ _ _ _ _ _ H) as L3.
        assert (N1 : skippable p f bs = true /\ skippable p f b = true /\
                     skippable_map p f (c - 1) b0 = true).
        { destruct p; [repeat split|]. cbn [skippable skippable_map].
          apply andb_prop in Hs' as [A B]. apply andb_prop in B as [B C]. auto. }
        destruct N1 as (N1 & N2 & N3).
        rewrite (IHp _ _ _ E N1 f') by lia. red_bind.
        destruct f' as [|f']; [lia|]. rewrite skip_n_S.
        destruct (N.eqb_spec (2 * c - 1) 0); [lia|].
        rewrite (IHp _ _ _ E0 N2 f') by lia. red_bind.
        replace (2 * c - 1 - 1) with (2 * (c - 1)) by lia.
        eapply IHm; [exact H|exact N3|lia].
Qed.

(* B1 *)
Theorem skip_complete : forall p f bs v r, parse f bs = Some (v, r) -> skippable p f bs = true ->
  forall f', (3 * (List.length bs - List.length r) <= S f')%nat -> skip p f' bs = Ok r.
Proof. intros p f. apply (skip_complete_all p f). Qed.

(* with the fuel the library uses *)
Corollary skip_complete_fuel : forall p f bs v r, parse f bs = Some (v, r) -> skippable p f bs = true ->
  forall f', (fuel_for bs <= f')%nat -> skip p f' bs = Ok r.
Proof.
  intros p f bs v r H Hs f' Hf'. eapply skip_complete; eauto. unfold fuel_for in Hf'. lia.
Qed.

Corollary skip_slice_complete : forall f bs v r, parse f bs = Some (v, r) ->
  skip Slice (fuel_for bs) bs = Ok r.
Proof. intros. eapply skip_complete_fuel; eauto. Qed.

Print Assumptions skip_complete.

(* ================================================================== *)
(* Inversion of the specification parser on arrays and maps            *)
(* ================================================================== *)

(* [item s bs v r]: the specification reads the value v at the front of bs, leaving r;
   with s = true the encoding moreover carries no ext32 header at a value boundary *)
Definition nxb (s : bool) (f : nat) (bs : bytes) : bool := if s then nx f bs else true.
Definition item (s : bool) (bs : bytes) (v : value) (r : bytes) : Prop :=
  exists f, parse f bs = Some (v, r) /\ nxb s f bs = true.

Inductive items (s : bool) : bytes -> list value -> bytes -> Prop :=
| items_nil bs : items s bs [] bs
| items_cons bs v r l r' : item s bs v r -> items s r l r' -> items s bs (v :: l) r'.

Inductive pairs (s : bool) : bytes -> list (value * value) -> bytes -> Prop :=
| pairs_nil bs : pairs s bs [] bs
| pairs_cons bs k r1 v r2 l r' :
    item s bs k r1 -> item s r1 v r2 -> pairs s r2 l r' -> pairs s bs ((k, v) :: l) r'.

Lemma item_length s bs v r : item s bs v r -> (List.length r < List.length bs)%nat.
Proof. intros (f & H & _). eapply parse_length; eauto. Qed.

Lemma items_length s bs l r : items s bs l r -> (List.length l + List.length r <= List.length bs)%nat.
Proof.
  induction 1 as [|bs v r l r' Hi _ IH]; cbn [List.length]; [lia|].
  apply item_length in Hi. lia.
Qed.

Lemma pairs_length s bs l r : pairs s bs l r -> (2 * List.length l + List.length r <= List.length bs)%nat.
Proof.
  induction 1 as [|bs k r1 v r2 l r' H1 H2 _ IH]; cbn [List.length]; [lia|].
  apply item_length in H1. apply item_length in H2. lia.
Qed.

Lemma len_cons' {A} (x : A) l : len (x :: l) = len l + 1.
Proof. unfold len. cbn [List.length]. lia. Qed.

Lemma parse_arr_inv (s : bool) f : forall c bs acc v r, parse_arr f c bs acc = Some (v, r) ->
  (if s then nx_arr f c bs else true) = true ->
  exists l, v = VArr (rev acc ++ l) /\ len l = c /\ items s bs l r.
Proof.
  induction f as [|f IH]; intros c bs acc v r H Hn; [discriminate|].
  rewrite parse_arr_S in H. rewrite nx_arr_S in Hn.
  destruct (N.eqb_spec c 0) as [->|Hc].
  - injection H as <- <-. exists (@nil value). rewrite app_nil_r. repeat split. constructor.
  - ob H. rewrite E in Hn.
    assert (N1 : nxb s f bs = true /\ (if s then nx_arr f (c - 1) b else true) = true).
    { destruct s; [|split; reflexivity]. now apply andb_prop in Hn. }
    destruct N1 as [N1 N2].
    destruct (IH _ _ _ _ _ H N2) as (l & -> & Hl & Hi).
    exists (v0 :: l). cbn [rev]. rewrite <- app_assoc. cbn [app]. repeat split.
    + rewrite len_cons'. lia.
    + econstructor; [exists f; split; eassumption|exact Hi].
Qed.

Lemma parse_map_inv (s : bool) f : forall c bs acc v r, parse_map f c bs acc = Some (v, r) ->
  (if s then nx_map f c bs else true) = true ->
  exists l, v = VMap (rev acc ++ l) /\ len l = c /\ pairs s bs l r.
Proof.
  induction f as [|f IH]; intros c bs acc v r H Hn; [discriminate|].
  rewrite parse_map_S in H. rewrite nx_map_S in Hn.
  destruct (N.eqb_spec c 0) as [->|Hc].
  - injection H as <- <-. exists (@nil (value * value)). rewrite app_nil_r. repeat split. constructor.
  - ob H. rewrite E, E0 in Hn.
    assert (N1 : nxb s f bs = true /\ nxb s f b = true /\
                 (if s then nx_map f (c - 1) b0 else true) = true).
    { destruct s; [|repeat split; reflexivity].
      apply andb_prop in Hn as [A B]. apply andb_prop in B as [B C]. auto. }
    destruct N1 as (N1 & N2 & N3).
    destruct (IH _ _ _ _ _ H N3) as (l & -> & Hl & Hi).
    exists ((v0, v1) :: l). cbn [rev]. rewrite <- app_assoc. cbn [app]. repeat split.
    + rewrite len_cons'. lia.
    + econstructor; [exists f; split; eassumption|exists f; split; eassumption|exact Hi].
Qed.

(* the shape of what [parse] returns, by kind of the lead byte *)
Lemma parse_arr_is_arr f c bs acc v r : parse_arr f c bs acc = Some (v, r) -> exists l, v = VArr l.
Proof. intros H. destruct (parse_arr_inv false _ _ _ _ _ _ H eq_refl) as (l & -> & _). eauto. Qed.
Lemma parse_map_is_map f c bs acc v r : parse_map f c bs acc = Some (v, r) -> exists l, v = VMap l.
Proof. intros H. destruct (parse_map_inv false _ _ _ _ _ _ H eq_refl) as (l & -> & _). eauto. Qed.

(* A2 (headers): an array value starts with an array header announcing its length, and
   its elements parse one after another behind the header *)
Lemma item_arr_inv s bs l r : item s bs (VArr l) r ->
  exists r0, rd_arr_hdr bs = Ok (len l, r0) /\ items s r0 l r.
Proof.
  intros (f & H & Hn). destruct f as [|f]; [discriminate|]. destruct bs as [|b r0]; [discriminate|].
  rewrite parse_kind_eq in H. rewrite rd_arr_hdr_kind.
  assert (Hn' : (if s then nx (S f) (b :: r0) else true) = true) by exact Hn.
  rewrite nx_S_cons in Hn'. clear Hn.
  destruct (kind_of (b2n b)); inv_kind H; try discriminate.
  - assert (N : (if s then nx_arr f c r0 else true) = true) by (destruct s; auto).
    destruct (parse_arr_inv s _ _ _ _ _ _ H N) as (l' & [= ->] & Hl & Hi).
    exists r0. cbn [rev app] in *. now rewrite Hl.
  - apply parse_map_is_map in H as [? ?]. discriminate.
  - rewrite E in Hn'.
    assert (N : (if s then nx_arr f n b0 else true) = true) by (destruct s; auto).
    destruct (parse_arr_inv s _ _ _ _ _ _ H N) as (l' & [= ->] & Hl & Hi).
    exists b0. cbn [rev app] in *. rewrite (onum_rd_be _ _ _ _ E). now rewrite Hl.
  - apply parse_map_is_map in H as [? ?]. discriminate.
Qed.

Lemma item_map_inv s bs l r : item s bs (VMap l) r ->
  exists r0, rd_map_hdr bs = Ok (len l, r0) /\ pairs s r0 l r.
Proof.
  intros (f & H & Hn). destruct f as [|f]; [discriminate|]. destruct bs as [|b r0]; [discriminate|].
  rewrite parse_kind_eq in H. rewrite rd_map_hdr_kind.
  assert (Hn' : (if s then nx (S f) (b :: r0) else true) = true) by exact Hn.
  rewrite nx_S_cons in Hn'. clear Hn.
  destruct (kind_of (b2n b)); inv_kind H; try discriminate.
  - apply parse_arr_is_arr in H as [? ?]. discriminate.
  - assert (N : (if s then nx_map f c r0 else true) = true) by (destruct s; auto).
    destruct (parse_map_inv s _ _ _ _ _ _ H N) as (l' & [= ->] & Hl & Hi).
    exists r0. cbn [rev app] in *. now rewrite Hl.
  - apply parse_arr_is_arr in H as [? ?]. discriminate.
  - rewrite E in Hn'.
    assert (N : (if s then nx_map f n b0 else true) = true) by (destruct s; auto).
    destruct (parse_map_inv s _ _ _ _ _ _ H N) as (l' & [= ->] & Hl & Hi).
    exists b0. cbn [rev app] in *. rewrite (onum_rd_be _ _ _ _ E). now rewrite Hl.
Qed.

(* strings and binaries *)
Lemma item_str s bs t r : item s bs (VStr t) r -> rd_str bs = Ok (t, r) /\ rd_map_key bs = Ok (t, r).
Proof.
  intros (f & H & _). destruct f as [|f]; [discriminate|]. destruct bs as [|b r0]; [discriminate|].
  rewrite parse_kind_eq in H. unfold rd_map_key. rewrite is_bin_lead_kind, rd_str_kind.
  destruct (kind_of (b2n b)); inv_kind H; try discriminate.
  - injection H as <- <-. now rewrite (otake_take _ _ _ _ E).
  - injection H as <- <-. rewrite (onum_rd_be _ _ _ _ E). red_bind. now rewrite (otake_take _ _ _ _ E0).
  - apply parse_arr_is_arr in H as [? ?]. discriminate.
  - apply parse_map_is_map in H as [? ?]. discriminate.
  - apply parse_arr_is_arr in H as [? ?]. discriminate.
  - apply parse_map_is_map in H as [? ?]. discriminate.
Qed.

Lemma item_bin s bs t r : item s bs (VBin t) r -> rd_bin bs = Ok (t, r).
Proof.
  intros (f & H & _). destruct f as [|f]; [discriminate|]. destruct bs as [|b r0]; [discriminate|].
  rewrite parse_kind_eq in H. rewrite rd_bin_kind.
  destruct (kind_of (b2n b)); inv_kind H; try discriminate.
  - injection H as <- <-. rewrite (onum_rd_be _ _ _ _ E). red_bind. now rewrite (otake_take _ _ _ _ E0).
  - apply parse_arr_is_arr in H as [? ?]. discriminate.
  - apply parse_map_is_map in H as [? ?]. discriminate.
  - apply parse_arr_is_arr in H as [? ?]. discriminate.
  - apply parse_map_is_map in H as [? ?]. discriminate.
Qed.

Lemma item_skip bs v r f' : item true bs v r -> (fuel_for bs <= f')%nat -> skip Stream f' bs = Ok r.
Proof. intros (f & H & Hn) Hf. eapply skip_complete_fuel; eauto. Qed.

(* ================================================================== *)
(* B2. GetChunk                                                        *)
(* ================================================================== *)

(* ---------- NextType on the front of a well-formed value ---------- *)

Definition is_345 (ty : N) : bool := (ty =? 3) || (ty =? 4) || (ty =? 5).

Definition class_val_ok (v : value) (t : tclass) : Prop :=
  match v with
  | VInt _ => t = Msgp.TInt \/ t = TUint
  | VNil => t = TNil
  | VMap _ => t = TMap
  | VExt ty _ => t = if is_345 ty then TOtherT else TExt
  | _ => t = TOtherT
  end.

Lemma nth_app_cons {A} (h : list A) x u d : nth (List.length h) (h ++ x :: u) d = x.
Proof. rewrite app_nth2 by lia. now rewrite Nat.sub_diag. Qed.

Lemma next_class_item s bs v r : item s bs v r ->
  exists t, next_class_stream bs = Ok t /\ class_val_ok v t.
Proof.
  intros (f & H & _). destruct f as [|f]; [discriminate|]. destruct bs as [|b r0]; [discriminate|].
  rewrite parse_kind_eq in H. unfold next_class_stream. rewrite class_of_lead_kind.
  pose proof (ext_type_peek_kind Stream b r0) as P.
  destruct (kind_of (b2n b)); cbn [class_kind]; inv_kind H;
    try (injection H as <- <-; eexists; split; [reflexivity|cbn [class_val_ok]; auto]; fail);
    try discriminate.
  - (* ext8/16/32 *)
    injection H as <- <-. rewrite P. clear P.
    apply onum1_inv in E0 as (x & -> & ->).
    apply onum_split in E as (h & -> & Hh & _).
    assert (Hk : List.length h = k) by (unfold len in Hh; lia). subst k.
    match goal with |- context[N.leb ?a ?c] => destruct (N.leb_spec a c) as [_|L] end;
      [|unfold len in L; cbn [List.length] in L; rewrite app_length in L; cbn [List.length] in L; lia].
    cbn [nth]. rewrite nth_app_cons. red_bind.
    cbn [class_val_ok]. unfold is_345.
    destruct ((b2n x =? 3) || (b2n x =? 4) || (b2n x =? 5)); eexists; split; reflexivity.
  - (* fixext *)
    injection H as <- <-. rewrite P. clear P.
    apply onum1_inv in E as (x & -> & ->).
    match goal with |- context[N.leb ?a ?c] => destruct (N.leb_spec a c) as [_|L] end;
      [|unfold len in L; cbn [List.length] in L; lia].
    cbn [nth]. red_bind.
    cbn [class_val_ok]. unfold is_345.
    destruct ((b2n x =? 3) || (b2n x =? 4) || (b2n x =? 5)); eexists; split; reflexivity.
  - apply parse_arr_is_arr in H as [? ->]. eexists; split; [reflexivity|reflexivity].
  - apply parse_map_is_map in H as [? ->]. eexists; split; [reflexivity|reflexivity].
  - apply parse_arr_is_arr in H as [? ->]. eexists; split; [reflexivity|reflexivity].
  - apply parse_map_is_map in H as [? ->]. eexists; split; [reflexivity|reflexivity].
Qed.

Definition is_ts_val (v : value) : bool :=
  match v with VInt _ => true | VExt ty _ => negb (is_345 ty) | _ => false end.
Definition is_ts_class (t : tclass) : bool :=
  match t with TExt | Msgp.TInt | TUint => true | _ => false end.

Lemma class_ts v t : class_val_ok v t -> is_ts_class t = is_ts_val v.
Proof.
  destruct v; cbn [class_val_ok is_ts_val]; try (intros ->; reflexivity).
  - intros [-> | ->]; reflexivity.
  - intros ->. destruct (is_345 ty); reflexivity.
Qed.

Lemma class_map v t : class_val_ok v t -> (t = TMap <-> is_map v = true).
Proof.
  destruct v; cbn [class_val_ok is_map]; try (intros ->; split; intros; congruence).
  - intros [-> | ->]; split; intros; congruence.
  - intros ->. destruct (is_345 ty); split; intros; congruence.
Qed.

(* ---------- the option map ---------- *)

Lemma get_chunk_loop_S f cnt bs : get_chunk_loop (S f) cnt bs =
  if cnt =? 0 then Err ENotFound
  else '(k, r) <- rd_map_key bs ;;
       if bytes_eqb k k_chunk then '(v, _) <- rd_map_key r ;; Ok v
       else r' <- skip Stream (fuel_for r) r ;; get_chunk_loop f (cnt - 1) r'.
Proof. reflexivity. Qed.

Lemma as_opts_loop_chunk_keep l : forall o so c, so_chunk o = Some c ->
  as_opts_loop l o = Some so -> so_chunk so = Some c.
Proof.
  induction l as [|[k v] l IH]; intros o so c Hc H; cbn [as_opts_loop] in H.
  - now injection H as <-.
  - destruct k; try discriminate.
    destruct (bytes_eqb s (str "size")).
    { destruct v; try discriminate. destruct (so_size o); try discriminate.
      eapply IH; [|exact H]. exact Hc. }
    destruct (bytes_eqb s (str "chunk")).
    { destruct v; try discriminate. rewrite Hc in H. discriminate. }
    destruct (bytes_eqb s (str "compressed")).
    { destruct v; try discriminate. destruct (so_comp o); try discriminate.
      eapply IH; [|exact H]. exact Hc. }
    destruct (existsb _ _); try discriminate.
    eapply IH; [|exact H]. exact Hc.
Qed.

Lemma get_chunk_loop_ok bs l r : pairs true bs l r ->
  forall o so F, as_opts_loop l o = Some so -> so_chunk o = None -> (List.length l < F)%nat ->
  match so_chunk so with
  | Some c => get_chunk_loop F (len l) bs = Ok c
  | None => get_chunk_loop F (len l) bs = Err ENotFound
  end.
Proof.
  induction 1 as [bs|bs k r1 v r2 l r' Hk Hv _ IH]; intros o so F Ho Hc HF;
    (destruct F as [|F]; [lia|]); rewrite get_chunk_loop_S.
  - cbn [as_opts_loop] in Ho. injection Ho as <-. rewrite Hc. reflexivity.
  - cbn [List.length] in HF. rewrite len_cons'.
    destruct (N.eqb_spec (len l + 1) 0); [lia|].
    replace (len l + 1 - 1) with (len l) by lia.
    cbn [as_opts_loop] in Ho. destruct k as [| | | | |kk| | | |]; try discriminate.
    destruct (item_str _ _ _ _ Hk) as [_ Ek]. rewrite Ek. red_bind.
    (* what happens on a key other than "chunk" *)
    assert (Step : forall o', as_opts_loop l o' = Some so -> so_chunk o' = None ->
              match so_chunk so with
              | Some c => (r' <- skip Stream (fuel_for r1) r1 ;; get_chunk_loop F (len l) r') = Ok c
              | None => (r' <- skip Stream (fuel_for r1) r1 ;; get_chunk_loop F (len l) r') = Err ENotFound
              end).
    { intros o' Ho' Hc'. rewrite (item_skip _ _ _ _ Hv (le_n _)). red_bind.
      apply (IH o' so F Ho' Hc'). lia. }
    destruct (bytes_eqb kk (str "size")) eqn:E1.
    { apply bytes_eqb_eq in E1. subst kk. change (bytes_eqb (str "size") k_chunk) with false. cbv iota.
      destruct v; try discriminate. destruct (so_size o); try discriminate.
      apply (Step _ Ho). exact Hc. }
    destruct (bytes_eqb kk (str "chunk")) eqn:E2.
    { change k_chunk with (str "chunk"). rewrite E2.
      destruct v as [| | | | |c| | | |]; try discriminate. rewrite Hc in Ho.
      rewrite (as_opts_loop_chunk_keep _ _ so c (eq_refl : so_chunk {| so_size := so_size o; so_chunk := Some c; so_comp := so_comp o; so_other := so_other o |} = Some c) Ho).
      destruct (item_str _ _ _ _ Hv) as [_ Ev]. rewrite Ev. reflexivity. }
    change k_chunk with (str "chunk"). rewrite E2.
    destruct (bytes_eqb kk (str "compressed")) eqn:E3.
    { destruct v; try discriminate. destruct (so_comp o); try discriminate.
      apply (Step _ Ho). exact Hc. }
    destruct (existsb _ _); try discriminate.
    apply (Step _ Ho). exact Hc.
Qed.

(* what GetChunk does once it stands in front of the option element *)
Definition chunk_walk (r3 : bytes) : res bytes :=
  t' <- next_class_stream r3 ;;
  match t' with
  | TMap => '(c, r4) <- rd_map_hdr r3 ;; get_chunk_loop (fuel_for r4) c r4
  | _ => Err ENotFound
  end.

Definition optchunk (oo : option sopts) : option bytes :=
  match oo with Some so => so_chunk so | None => None end.

Lemma chunk_walk_ok r3 o r4 oo : item true r3 o r4 -> as_optfield (Some o) = Some oo ->
  match optchunk oo with
  | Some c => chunk_walk r3 = Ok c
  | None => exists e, chunk_walk r3 = Err e
  end.
Proof.
  intros Hi Ho. unfold chunk_walk.
  destruct (next_class_item _ _ _ _ Hi) as (t & -> & Ht). red_bind.
  cbn [as_optfield] in Ho. destruct o; try discriminate.
  - injection Ho as <-. cbn [class_val_ok] in Ht. subst t. cbn [optchunk]. eauto.
  - cbn [class_val_ok] in Ht. subst t.
    destruct (as_opts_loop l _) as [so|] eqn:El; [|discriminate]. injection Ho as <-.
    destruct (item_map_inv _ _ _ _ Hi) as (r0 & -> & Hp). red_bind. cbn [optchunk].
    pose proof (pairs_length _ _ _ _ Hp) as L.
    pose proof (get_chunk_loop_ok _ _ _ Hp _ so (fuel_for r0) El eq_refl) as G.
    unfold fuel_for in *. specialize (G ltac:(lia)).
    destruct (so_chunk so); eauto.
Qed.

(* ---------- the walk to the option element ---------- *)

Lemma items_cons_inv s bs v l r' : items s bs (v :: l) r' ->
  exists r, item s bs v r /\ items s r l r'.
Proof. inversion 1; subst; eauto. Qed.
Lemma items_nil_inv s bs r : items s bs [] r -> bs = r.
Proof. inversion 1; subst; auto. Qed.

Lemma get_chunk_hdr bs sz r0 : rd_arr_hdr bs = Ok (sz, r0) ->
  get_chunk bs =
  if sz =? 2 then Err ENotFound else
  r1 <- skip Stream (fuel_for r0) r0 ;;
  t <- next_class_stream r1 ;;
  if is_ts_class t && (sz =? 3) then Err ENotFound else
  r2 <- (if is_ts_class t then skip Stream (fuel_for r1) r1 else Ok r1) ;;
  r3 <- skip Stream (fuel_for r2) r2 ;;
  chunk_walk r3.
Proof. intros H. unfold get_chunk. rewrite H. reflexivity. Qed.

(* two elements: Forward / Packed without options *)
Lemma get_chunk_2 bs a x r : item true bs (VArr [a; x]) r -> get_chunk bs = Err ENotFound.
Proof.
  intros H. destruct (item_arr_inv _ _ _ _ H) as (r0 & Eh & _).
  rewrite (get_chunk_hdr _ _ _ Eh). reflexivity.
Qed.

(* three elements, the second a timestamp: Message / MessageExt without options *)
Lemma get_chunk_3ts bs a x rec r : item true bs (VArr [a; x; rec]) r -> is_ts_val x = true ->
  get_chunk bs = Err ENotFound.
Proof.
  intros H Hts. destruct (item_arr_inv _ _ _ _ H) as (r0 & Eh & Hi).
  rewrite (get_chunk_hdr _ _ _ Eh). change (len [a; x; rec]) with 3. cbv iota.
  change (3 =? 2) with false. change (3 =? 3) with true. cbv iota.
  apply items_cons_inv in Hi as (r1 & Ha & Hi). apply items_cons_inv in Hi as (r2 & Hx & Hi).
  rewrite (item_skip _ _ _ _ Ha (le_n _)). red_bind.
  destruct (next_class_item _ _ _ _ Hx) as (t & -> & Ht). red_bind.
  rewrite (class_ts _ _ Ht), Hts. reflexivity.
Qed.

(* four elements, the second a timestamp: Message / MessageExt with the option element *)
Lemma get_chunk_4ts bs a x rec o r : item true bs (VArr [a; x; rec; o]) r -> is_ts_val x = true ->
  exists r3, item true r3 o r /\ get_chunk bs = chunk_walk r3.
Proof.
  intros H Hts. destruct (item_arr_inv _ _ _ _ H) as (r0 & Eh & Hi).
  rewrite (get_chunk_hdr _ _ _ Eh). change (len [a; x; rec; o]) with 4.
  change (4 =? 2) with false. change (4 =? 3) with false. cbv iota.
  apply items_cons_inv in Hi as (r1 & Ha & Hi). apply items_cons_inv in Hi as (r2 & Hx & Hi).
  apply items_cons_inv in Hi as (r3 & Hr & Hi). apply items_cons_inv in Hi as (r4 & Ho & Hi).
  apply items_nil_inv in Hi. subst r4.
  rewrite (item_skip _ _ _ _ Ha (le_n _)). red_bind.
  destruct (next_class_item _ _ _ _ Hx) as (t & -> & Ht). red_bind.
  rewrite (class_ts _ _ Ht), Hts. cbn [andb]. cbv iota.
  rewrite (item_skip _ _ _ _ Hx (le_n _)). red_bind.
  rewrite (item_skip _ _ _ _ Hr (le_n _)). red_bind.
  exists r3. split; [exact Ho|reflexivity].
Qed.

(* three elements, the second not a timestamp: Forward / Packed with the option element *)
Lemma get_chunk_3n bs a x o r : item true bs (VArr [a; x; o]) r -> is_ts_val x = false ->
  exists r3, item true r3 o r /\ get_chunk bs = chunk_walk r3.
Proof.
  intros H Hts. destruct (item_arr_inv _ _ _ _ H) as (r0 & Eh & Hi).
  rewrite (get_chunk_hdr _ _ _ Eh). change (len [a; x; o]) with 3.
  change (3 =? 2) with false. change (3 =? 3) with true. cbv iota.
  apply items_cons_inv in Hi as (r1 & Ha & Hi). apply items_cons_inv in Hi as (r2 & Hx & Hi).
  apply items_cons_inv in Hi as (r3 & Ho & Hi). apply items_nil_inv in Hi. subst r3.
  rewrite (item_skip _ _ _ _ Ha (le_n _)). red_bind.
  destruct (next_class_item _ _ _ _ Hx) as (t & -> & Ht). red_bind.
  rewrite (class_ts _ _ Ht), Hts. cbn [andb]. cbv iota. red_bind.
  rewrite (item_skip _ _ _ _ Hx (le_n _)). red_bind.
  exists r2. split; [exact Ho|reflexivity].
Qed.

(* ---------- the protocol shapes ---------- *)

Lemma shape_message_inv st v m : shape_message_gen st v = Some m ->
  exists tag t t' rec rest oo,
    v = VArr (VStr tag :: t :: rec :: rest) /\ as_time t = Some t' /\
    (rest = [] \/ exists o, rest = [o]) /\
    as_optfield (hd_error rest) = Some oo /\ m = SMessage tag t' rec oo /\
    (is_map rec || negb st = true).
Proof.
  unfold shape_message_gen. intros H.
  destruct v as [| | | | | | |l| |]; try discriminate.
  destruct l as [|e1 l]; try discriminate. destruct e1 as [| | | | |tag| | | |]; try discriminate.
  destruct l as [|t l]; try discriminate. destruct l as [|rec rest]; try discriminate.
  destruct (as_time t) as [t'|] eqn:Et; try discriminate.
  destruct rest as [|o [|? ?]]; try discriminate;
    (destruct (is_map rec || negb st) eqn:Em; [|discriminate]);
    (destruct (as_optfield _) as [oo|] eqn:Eo; [|discriminate]); injection H as <-;
    exists tag, t, t', rec; eexists; exists oo; repeat split; eauto.
Qed.

Lemma shape_forward_inv st v m : shape_forward_gen st v = Some m ->
  exists tag es es' rest oo,
    v = VArr (VStr tag :: VArr es :: rest) /\ as_entries st es = Some es' /\
    (rest = [] \/ exists o, rest = [o]) /\
    as_optfield (hd_error rest) = Some oo /\ m = SForward tag es' oo.
Proof.
  unfold shape_forward_gen. intros H.
  destruct v as [| | | | | | |l| |]; try discriminate.
  destruct l as [|e1 l]; try discriminate. destruct e1 as [| | | | |tag| | | |]; try discriminate.
  destruct l as [|e2 rest]; try discriminate. destruct e2 as [| | | | | | |es| |]; try discriminate.
  destruct (as_entries st es) as [es'|] eqn:Ee; try discriminate.
  destruct rest as [|o [|? ?]]; try discriminate;
    (destruct (as_optfield _) as [oo|] eqn:Eo; [|discriminate]); injection H as <-;
    exists tag, es, es'; eexists; exists oo; repeat split; eauto.
Qed.

Lemma shape_packed_inv v m : shape_packed v = Some m ->
  exists tag st rest oo,
    v = VArr (VStr tag :: VBin st :: rest) /\
    (rest = [] \/ exists o, rest = [o]) /\
    as_optfield (hd_error rest) = Some oo /\ m = SPacked tag st oo.
Proof.
  unfold shape_packed. intros H.
  destruct v as [| | | | | | |l| |]; try discriminate.
  destruct l as [|e1 l]; try discriminate. destruct e1 as [| | | | |tag| | | |]; try discriminate.
  destruct l as [|e2 rest]; try discriminate. destruct e2 as [| | | | | |st| | |]; try discriminate.
  destruct rest as [|o [|? ?]]; try discriminate;
    (destruct (as_optfield _) as [oo|] eqn:Eo; [|discriminate]); injection H as <-;
    exists tag, st; eexists; exists oo; repeat split; eauto.
Qed.

Lemma as_time_is_ts t t' : as_time t = Some t' -> is_ts_val t = true.
Proof.
  destruct t; cbn [as_time is_ts_val]; try discriminate; auto.
  destruct (N.eqb_spec ty 0) as [->|]; [reflexivity|discriminate].
Qed.

(* every message shape is one of four layouts *)
Inductive layout (v : value) (oo : option sopts) : Prop :=
| lay_ts3 a x rec : v = VArr [a; x; rec] -> is_ts_val x = true -> oo = None -> layout v oo
| lay_ts4 a x rec o : v = VArr [a; x; rec; o] -> is_ts_val x = true ->
    as_optfield (Some o) = Some oo -> layout v oo
| lay_n2 a x : v = VArr [a; x] -> oo = None -> layout v oo
| lay_n3 a x o : v = VArr [a; x; o] -> is_ts_val x = false ->
    as_optfield (Some o) = Some oo -> layout v oo.

Lemma shape_any_layout st v m : shape_any_gen st v = Some m -> layout v (smsg_opts m).
Proof.
  unfold shape_any_gen. intros H.
  destruct (shape_message_gen st v) as [m1|] eqn:S1.
  { injection H as <-.
    apply shape_message_inv in S1 as (tag & t & t' & rec & rest & oo & -> & Et & Hr & Ho & -> & _).
    apply as_time_is_ts in Et. cbn [smsg_opts].
    destruct Hr as [->|[o ->]]; cbn [hd_error as_optfield] in Ho.
    - injection Ho as <-. eapply lay_ts3; eauto.
    - eapply lay_ts4; eauto. }
  destruct (shape_forward_gen st v) as [m2|] eqn:S2.
  { injection H as <-.
    apply shape_forward_inv in S2 as (tag & es & es' & rest & oo & -> & _ & Hr & Ho & ->).
    cbn [smsg_opts].
    destruct Hr as [->|[o ->]]; cbn [hd_error as_optfield] in Ho.
    - injection Ho as <-. eapply lay_n2; eauto.
    - eapply lay_n3; eauto. }
  apply shape_packed_inv in H as (tag & st' & rest & oo & -> & Hr & Ho & ->).
  cbn [smsg_opts].
  destruct Hr as [->|[o ->]]; cbn [hd_error as_optfield] in Ho.
  - injection Ho as <-. eapply lay_n2; eauto.
  - eapply lay_n3; eauto.
Qed.

Lemma spec_parse_item shape bs m rest : spec_parse shape bs = Some (m, rest) -> no_ext32 bs = true ->
  exists v, item true bs v rest /\ shape v = Some m.
Proof.
  unfold spec_parse, parse1, no_ext32. intros H Hn. ob H.
  destruct (shape v) as [m'|] eqn:Sh; [|discriminate]. injection H as <- <-.
  exists v. split; [|exact Sh]. eexists; split; [exact E|exact Hn].
Qed.

(* B2: on every well-formed message (any mode, any arity, any legal encoding of its
   fields that the Stream-path Skip can traverse) GetChunk returns exactly the chunk id
   the specification assigns, and an error when the specification assigns none *)
Theorem get_chunk_agrees_gen : forall st bs m rest,
  spec_parse (shape_any_gen st) bs = Some (m, rest) -> no_ext32 bs = true ->
  match spec_chunk m with
  | Some c => get_chunk bs = Ok c
  | None => exists e, get_chunk bs = Err e
  end.
Proof.
  intros st bs m rest H Hn.
  destruct (spec_parse_item _ _ _ _ H Hn) as (v & Hi & Sh).
  apply shape_any_layout in Sh.
  change (spec_chunk m) with (optchunk (smsg_opts m)).
  destruct Sh as [a x rec -> Hts ->|a x rec o -> Hts Ho|a x -> ->|a x o -> Hts Ho].
  - cbn [optchunk]. rewrite (get_chunk_3ts _ _ _ _ _ Hi Hts). eauto.
  - destruct (get_chunk_4ts _ _ _ _ _ _ Hi Hts) as (r3 & Hi3 & ->).
    exact (chunk_walk_ok _ _ _ _ Hi3 Ho).
  - cbn [optchunk]. rewrite (get_chunk_2 _ _ _ _ Hi). eauto.
  - destruct (get_chunk_3n _ _ _ _ _ Hi Hts) as (r3 & Hi3 & ->).
    exact (chunk_walk_ok _ _ _ _ Hi3 Ho).
Qed.

Theorem get_chunk_agrees : forall bs m,
  spec_parse shape_any bs = Some (m, []) -> no_ext32 bs = true ->
  match spec_chunk m with
  | Some c => get_chunk bs = Ok c
  | None => exists e, get_chunk bs = Err e
  end.
Proof. intros bs m. apply get_chunk_agrees_gen. Qed.

(* the record / entries / packed stream never influence the result: two well-formed
   messages with the same option element get the same answer from GetChunk, whatever
   "chunk" keys occur inside their records *)
Definition same_result (a b : res bytes) : Prop :=
  match a, b with
  | Ok x, Ok y => x = y
  | Err _, Err _ => True
  | _, _ => False
  end.

Corollary get_chunk_record_independent : forall bs1 bs2 m1 m2,
  spec_parse shape_any bs1 = Some (m1, []) -> no_ext32 bs1 = true ->
  spec_parse shape_any bs2 = Some (m2, []) -> no_ext32 bs2 = true ->
  smsg_opts m1 = smsg_opts m2 ->
  same_result (get_chunk bs1) (get_chunk bs2).
Proof.
  intros bs1 bs2 m1 m2 H1 N1 H2 N2 Ho.
  pose proof (get_chunk_agrees _ _ H1 N1) as G1. pose proof (get_chunk_agrees _ _ H2 N2) as G2.
  unfold spec_chunk in *. rewrite <- Ho in G2.
  destruct (match smsg_opts m1 with Some o => so_chunk o | None => None end).
  - rewrite G1, G2. reflexivity.
  - destruct G1 as [e1 ->], G2 as [e2 ->]. exact I.
Qed.

Print Assumptions get_chunk_agrees_gen.
Print Assumptions get_chunk_agrees.
Print Assumptions get_chunk_record_independent.

(* ================================================================== *)
(* B3. the pinned GetChunk is refuted; non-vacuity                     *)
(* ================================================================== *)

Definition hx (s : string) : bytes := unhex (str s).

(* ["t", uint32 5, {"chunk":"decoy"}, {"chunk":"c"}] *)
Definition msg_uint32_decoy : bytes :=
  hx "94a174ce0000000581a56368756e6ba56465636f7981a56368756e6ba163".

Theorem get_chunk_pinned_refuted :
  exists bs m,
    spec_parse shape_any bs = Some (m, []) /\ no_ext32 bs = true /\
    spec_chunk m = Some (str "c") /\
    get_chunk bs = Ok (str "c") /\
    get_chunk_pinned bs = Ok (str "decoy").
Proof.
  exists msg_uint32_decoy. eexists. vm_compute. repeat split; reflexivity.
Qed.

(* the same message without the option element: the specification assigns no chunk, the
   pinned code still answers with the decoy *)
Theorem get_chunk_pinned_refuted_noopt :
  exists bs m,
    spec_parse shape_any bs = Some (m, []) /\ no_ext32 bs = true /\
    spec_chunk m = None /\
    get_chunk bs = Err ENotFound /\
    get_chunk_pinned bs = Ok (str "decoy").
Proof.
  exists (hx "93a174ce0000000581a56368756e6ba56465636f79"). eexists.
  vm_compute. repeat split; reflexivity.
Qed.

(* the side condition is necessary: a well-formed MessageExt whose EventTime is written
   with an ext32 header has a chunk according to the specification, GetChunk fails *)
Example get_chunk_ext32_limit :
  let bs := hx "94a174c90000000800000000050000000180" ++ hx "81a56368756e6ba163" in
  exists m, spec_parse shape_any bs = Some (m, []) /\ spec_chunk m = Some (str "c") /\
            no_ext32 bs = false /\ get_chunk bs = Err EShort.
Proof. eexists. vm_compute. repeat split; reflexivity. Qed.

(* ... and so for skip itself: Slice skips the ext32 value, Stream reports it short *)
Example skip_ext32_limit :
  let bs := hx "c90000000105aa" in
  parse1 bs = Some (VExt 5 [n2b 170], []) /\ skip Slice (fuel_for bs) bs = Ok [] /\
  skip Stream (fuel_for bs) bs = Err EShort.
Proof. vm_compute. repeat split; reflexivity. Qed.

Print Assumptions get_chunk_pinned_refuted.

(* ---------- the statement of B2 checked by computation on hand-built messages ---------- *)

Inductive verdict := Agree (c : option bytes) | Disagree (s : option bytes) (g : res bytes) | NotWF.
Definition check_chunk (bs : bytes) : verdict :=
  match spec_parse shape_any bs with
  | Some (m, []) =>
     match spec_chunk m, get_chunk bs with
     | Some c, Ok c' => if bytes_eqb c c' then Agree (Some c) else Disagree (Some c) (Ok c')
     | None, Err _ => Agree None
     | s, g => Disagree s g
     end
  | _ => NotWF
  end.

Definition kc : string := "a56368756e6b".          (* the key "chunk" *)
Definition et : string := "d7000000000500000001".  (* EventTime 5 s 1 ns, fixext8 *)

Definition chunk_tests : list (string * option string) := [
  (* Message mode *)
  ("94a17405" ++ "81a16101" ++ "81" ++ kc ++ "a163", Some "c");
  ("94a174ce00000005" ++ "81" ++ kc ++ "a56465636f79" ++ "81" ++ kc ++ "a163", Some "c");       (* uint32, decoy *)
  ("94a174ce00000005" ++ "81" ++ kc ++ "a56465636f79" ++ "82a17801" ++ kc ++ "a163", Some "c");  (* {"x":1,"chunk":"c"} *)
  ("94a174ce00000005" ++ "81" ++ kc ++ "a56465636f79" ++ "c0", None);                             (* options nil *)
  ("93a174ce00000005" ++ "81" ++ kc ++ "a56465636f79", None);                                     (* no option element *)
  ("94a174cf0000000000000005" ++ "80" ++ "81" ++ kc ++ "a0", Some "");                           (* uint64, empty chunk *)
  ("94a174d300000000000000ff" ++ "80" ++ "80", None);                                             (* int64, empty options *)
  ("94a174ff" ++ "80" ++ "83a17801" ++ "a473697a6505" ++ kc ++ "d90163", Some "c");              (* negative fixint, str8 chunk *)
  ("94a174cc05" ++ "de0000" ++ "de0001" ++ kc ++ "da000163", Some "c");                          (* map16, str16 *)
  ("dc0004a174cd0005" ++ "80" ++ "df00000001" ++ kc ++ "db0000000163", Some "c");                (* array16, map32, str32 *)
  ("94a17405" ++ "80" ++ "82a0c0" ++ kc ++ "a163", Some "c");                                    (* empty unknown key *)
  ("94a17405" ++ "80" ++ "82" ++ kc ++ "a163" ++ "a178c90000000105aa", Some "c");                (* ext32 AFTER the chunk *)
  (* MessageExt *)
  ("94a174" ++ et ++ "80" ++ "81" ++ kc ++ "a163", Some "c");
  ("94a174c708000000000500000001" ++ "80" ++ "81" ++ kc ++ "a163", Some "c");                    (* ext8 *)
  ("94a174c80008000000000500000001" ++ "80" ++ "81" ++ kc ++ "a163", Some "c");                  (* ext16 *)
  ("93a174" ++ et ++ "81" ++ kc ++ "a163", None);
  ("94a174" ++ et ++ "81" ++ kc ++ "a163" ++ "c0", None);
  (* Forward *)
  ("92a174" ++ "90", None);
  ("92a174" ++ "91" ++ "92" ++ et ++ "81" ++ kc ++ "a163", None);                                (* decoy in an entry *)
  ("93a174" ++ "91" ++ "92" ++ et ++ "81" ++ kc ++ "a163" ++ "81" ++ kc ++ "a164", Some "d");
  ("93a174" ++ "90" ++ "81" ++ kc ++ "a164", Some "d");
  ("93a174" ++ "90" ++ "c0", None);
  ("93a174" ++ "dc0000" ++ "82a17801" ++ kc ++ "a164", Some "d");
  ("93a174" ++ "92" ++ "92" ++ et ++ "80" ++ "92c708000000000500000001" ++ "80" ++ "81" ++ kc ++ "a0", Some "");
  (* Packed *)
  ("92a174" ++ "c400", None);
  ("93a174" ++ "c403010203" ++ "81" ++ kc ++ "a164", Some "d");
  ("93a174" ++ "c50003010203" ++ "c0", None);
  ("93a174" ++ "c6000000020102" ++ "83" ++ "a473697a6505" ++ "aa636f6d70726573736564a4677a6970" ++ kc ++ "a164", Some "d")
]%string.

Example chunk_tests_agree :
  forallb (fun t => match check_chunk (hx (fst t)), snd t with
                    | Agree (Some c), Some e => bytes_eqb c (str e)
                    | Agree None, None => true
                    | _, _ => false
                    end) chunk_tests = true.
Proof. vm_compute. reflexivity. Qed.

(* the only disagreements found: an ext32 header where GetChunk has to skip *)
Example chunk_tests_ext32 :
  (* unknown option value before the chunk key *)
  check_chunk (hx ("94a17405" ++ "80" ++ "82a178c90000000105aa" ++ kc ++ "a163")) = Disagree (Some (str "c")) (Err EShort) /\
  (* inside the record *)
  check_chunk (hx ("94a17405" ++ "81a178c90000000105aa" ++ "81" ++ kc ++ "a163")) = Disagree (Some (str "c")) (Err EShort) /\
  (* the EventTime itself *)
  check_chunk (hx ("94a174c900000008000000000500000001" ++ "80" ++ "81" ++ kc ++ "a163")) = Disagree (Some (str "c")) (Err EShort).
Proof. vm_compute. repeat split; reflexivity. Qed.

Print Assumptions get_chunk_pinned_refuted_noopt.
