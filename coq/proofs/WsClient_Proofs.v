(* Proofs about the concurrent WSClient model (model/WsClient.v), repaired code (pinned = false):
   for EVERY number of worker threads, all programs, all session scripts, all numbers of reader
   threads and ALL schedules (induction over the schedule; nothing is bounded).

   invariant   ginv / linv (Section Invariant), step_preserves, reach_ginv
   5.  no_panic; pinned_panics, pinned_poisons (witnesses for the defect D16), repaired_* contrasts
   1.  one_frame (step level), frame_iff_write, encode_error_writes_nothing,
       one_frame_exec / frames_account_reach (whole history, executable checker),
       trace_parses (the visible trace of every thread parses into its calls: executable checker trace_ok)
   3.  sticky, stale_reader_harmless, current_reader_reports, error_is_sticky(_enabled),
       reconnect_clears, reconnect_failure_sets
   2.  no_session, session_captured, error_check_passes (Send: error check at XIdle, session read at XSendChecked)
   4.  connect_refused, new_only_without_session, failed_dial_no_session, close_logged, lifecycle
   6.  lockset, writes_under_lock, reads_outside_writer, no_deadlock, worker_blocked_only_by_lock
   7.  examples by vm_compute (ex1..ex5, ex4', ex_trace_*, send_window_now_modelled)
   No axioms: every main theorem is "Closed under the global context" (end of file). *)
From Coq Require Import List Arith NArith Lia Bool.
From FF Require Import model.Bytes model.Lts model.WsClient model.WsClientSpec proofs.Bytes_Proofs.
Import ListNotations.
Local Open Scope nat_scope.

Notation xconfig := (config xshared xlocal).

Ltac xstep_destruct H :=
  unfold xstep in H;
  repeat (cbv beta iota zeta in H;
  match type of H with
  | None = Some _ => discriminate H
  | (if ?b then _ else _) = Some _ => destruct b eqn:?
  | match ?x with _ => _ end = Some _ => first [is_var x; destruct x | destruct x eqn:?]
  | (let '(_, _) := ?x in _) = Some _ => destruct x eqn:?
  | Some (do_dial _ _ _ _) = Some _ => unfold do_dial in H
  | Some (if ?b then _ else _) = Some _ => destruct b eqn:?
  end).

(* ---------- lists ---------- *)
Lemma set_nth_length {A} (l : list A) n x : length (set_nth l n x) = length l.
Proof. revert n; induction l; destruct n; cbn; auto. Qed.

Lemma nth_error_set_nth_eq {A} (l : list A) n x y :
  nth_error l n = Some y -> nth_error (set_nth l n x) n = Some x.
Proof. revert n; induction l; destruct n; cbn; intros; try discriminate; auto. Qed.

Lemma nth_error_set_nth_neq {A} (l : list A) n m x :
  n <> m -> nth_error (set_nth l n x) m = nth_error l m.
Proof. revert n m; induction l; destruct n, m; cbn; intros; try congruence; auto. Qed.

Lemma nth_set_nth_eq {A} (l : list A) n x d : n < length l -> nth n (set_nth l n x) d = x.
Proof. revert n; induction l; destruct n; cbn; intros; try lia; auto. apply IHl; lia. Qed.

Lemma nth_set_nth_neq {A} (l : list A) n m x d : n <> m -> nth m (set_nth l n x) d = nth m l d.
Proof. revert n m; induction l; destruct n, m; cbn; intros; try congruence; auto. Qed.

Lemma nth_error_seq0 k i s : nth_error (seq 0 k) i = Some s -> s = i /\ i < k.
Proof.
  intro H. assert (i < k). { rewrite <- (seq_length k 0). apply nth_error_Some. congruence. }
  split; auto. apply nth_error_nth with (d := 0) in H. rewrite seq_nth in H; lia.
Qed.

(* ---------- the lock as data ---------- *)
Lemma rlock_some m t r : rlock m t = Some r -> rw_writer m = None /\ rw_pending m = None.
Proof. unfold rlock. destruct (rw_writer m), (rw_pending m); intro; try discriminate; auto. Qed.
Lemma rlock_free m t : rw_writer m = None -> rw_pending m = None -> rlock m t <> None.
Proof. unfold rlock. intros -> ->. discriminate. Qed.
Lemma wannounce_some m t r : wannounce m t = Some r ->
  rw_writer m = None /\ rw_pending m = None /\ r = {| rw_readers := rw_readers m; rw_writer := None; rw_pending := Some t |}.
Proof. unfold wannounce. destruct (rw_writer m), (rw_pending m); intro H; try discriminate; inversion H; auto. Qed.
Lemma wacquire_some m t r : wacquire m t = Some r ->
  rw_pending m = Some t /\ rw_readers m = [] /\ r = {| rw_readers := []; rw_writer := Some t; rw_pending := None |}.
Proof.
  unfold wacquire. destruct (rw_pending m); try discriminate. destruct (rw_readers m); try discriminate.
  destruct (Nat.eqb_spec t n); intro H; inversion H; subst; auto.
Qed.

(* ---------- one step of the system ---------- *)
Lemma xs_step_inv p n (c : xconfig) t c' e :
  xs_step p n c t = Some (c', e) ->
  exists l g' l', nth_error (thr c) t = Some l /\ xstep p n (glob c) t l = Some (g', l', e)
                  /\ c' = Build_config g' (set_nth (thr c) t l').
Proof.
  unfold xs_step, step. destruct (nth_error (thr c) t) as [l|]; try discriminate.
  destruct (xstep p n (glob c) t l) as [[[g' l'] e']|] eqn:Hx; try discriminate.
  intro H; inversion H; subst. exists l, g', l'. auto.
Qed.

Lemma xs_step_intro p n (c : xconfig) t l g' l' e :
  nth_error (thr c) t = Some l -> xstep p n (glob c) t l = Some (g', l', e) ->
  xs_step p n c t = Some (Build_config g' (set_nth (thr c) t l'), e).
Proof. unfold xs_step, step. intros -> ->. reflexivity. Qed.

(* ---------- shapes of the current call ---------- *)
Definition head_send (l : xlocal) : bool :=
  match x_ops l with (XSend _ _ | XSendRaw _ _) :: _ => true | _ => false end.
Definition head_write (l : xlocal) : bool :=
  match x_ops l with (XSend (Some _) _ | XSendRaw _ _) :: _ => true | _ => false end.
Definition head_life (l : xlocal) : bool :=
  match x_ops l with (XConnect _ | XDisconnect | XReconnect _) :: _ => true | _ => false end.
Definition head_disc (l : xlocal) : bool :=
  match x_ops l with (XDisconnect | XReconnect _) :: _ => true | _ => false end.
Definition head_dial (l : xlocal) : bool :=
  match x_ops l with (XConnect _ | XReconnect _) :: _ => true | _ => false end.

(* worker program counters / program counters holding the exclusive session lock *)
Definition wpc (p : xpc) : bool :=
  match p with XIdle | XSendChecked | XSendHave _ | XSendWrite _ | XAnnounced | XExcl | XDiscClosedQ _ | XDiscClose _ | XDial | XSetErr _ => true | _ => false end.
Definition epc (p : xpc) : bool :=
  match p with XExcl | XDiscClosedQ _ | XDiscClose _ | XDial | XSetErr _ => true | _ => false end.

Definition apc (p : xpc) : bool := match p with XAnnounced => true | _ => false end.

Definition closed (g : xshared) (s : nat) : bool := xs_closed (sess_get g s).

Lemma closed_upd g a b c s : closed (upd g a b c) s = closed g s.
Proof. reflexivity. Qed.
Lemma closed_ext g g' s : xg_sessions g' = xg_sessions g -> closed g' s = closed g s.
Proof. unfold closed, sess_get. intros ->. reflexivity. Qed.
Lemma closed_set g g' s x s0 :
  xg_sessions g' = set_nth (xg_sessions g) s x -> xs_closed x = true -> s < length (xg_sessions g) ->
  closed g' s0 = if Nat.eqb s0 s then true else closed g s0.
Proof.
  unfold closed, sess_get. intros -> Hx Hs. destruct (Nat.eqb_spec s0 s) as [->|Hne].
  - rewrite nth_set_nth_eq; auto.
  - rewrite nth_set_nth_neq; auto.
Qed.
Lemma closed_app_old g g' x s0 :
  xg_sessions g' = xg_sessions g ++ [x] -> s0 < length (xg_sessions g) -> closed g' s0 = closed g s0.
Proof. unfold closed, sess_get. intros -> Hs. rewrite app_nth1; auto. Qed.
Lemma closed_app_beyond g g' x s0 :
  xg_sessions g' = xg_sessions g ++ [x] -> length (xg_sessions g) < s0 -> closed g' s0 = true.
Proof. unfold closed, sess_get. intros -> Hs. rewrite nth_overflow; auto. rewrite app_length; cbn; lia. Qed.
Lemma closed_beyond g s0 : length (xg_sessions g) <= s0 -> closed g s0 = true.
Proof. unfold closed, sess_get. intros Hs. rewrite nth_overflow; auto. Qed.

Section Invariant.
  Variable n : nat.   (* number of workers *)

  (* what thread t knows at its program counter *)
  Definition linv (g : xshared) (t : nat) (l : xlocal) : Prop :=
    (wpc (x_pc l) = true <-> t < n) /\
    match x_pc l with
    | XIdle => True
    | XSendChecked => head_send l = true
    | XSendHave s => head_send l = true /\ s < length (xg_sessions g)
    | XSendWrite s => head_write l = true /\ s < length (xg_sessions g)
    | XAnnounced => rw_pending (xg_SL g) = Some t /\ head_life l = true
    | XExcl => rw_writer (xg_SL g) = Some t /\ head_life l = true
    | XDiscClosedQ s => rw_writer (xg_SL g) = Some t /\ head_disc l = true /\ xg_sess g = Some s
    | XDiscClose s => rw_writer (xg_SL g) = Some t /\ head_disc l = true /\ xg_sess g = Some s /\ closed g s = false
    | XDial => rw_writer (xg_SL g) = Some t /\ head_dial l = true /\ xg_sess g = None
    | XSetErr ok => rw_writer (xg_SL g) = Some t /\ is_reconnect l = true /\ dial_flag l = ok
    | XBgStart s | XBgListening s | XBgReport s => s = t - n /\ s < length (xg_sessions g)
    | XBgDone | XBgNotSpawned => True
    end.

  Record ginv (c : xconfig) : Prop := {
    gi_panic : xg_panic (glob c) = false;
    gi_readers : rw_readers (xg_SL (glob c)) = [];
    gi_excl : rw_writer (xg_SL (glob c)) = None \/ rw_pending (xg_SL (glob c)) = None;
    gi_sess : forall s, xg_sess (glob c) = Some s -> s < length (xg_sessions (glob c));
    gi_closed : forall s, xg_sess (glob c) <> Some s -> closed (glob c) s = true;
    gi_closes : NoDup (xg_closes (glob c));
    gi_closes_closed : forall s, In s (xg_closes (glob c)) -> s < length (xg_sessions (glob c)) /\ closed (glob c) s = true;
    gi_spawned : xg_spawned (glob c) = seq 0 (length (xg_sessions (glob c)));
    gi_writer : forall t, rw_writer (xg_SL (glob c)) = Some t -> exists l, nth_error (thr c) t = Some l /\ epc (x_pc l) = true;
    gi_pending : forall t, rw_pending (xg_SL (glob c)) = Some t -> exists l, nth_error (thr c) t = Some l /\ apc (x_pc l) = true;
    gi_threads : forall t l, nth_error (thr c) t = Some l -> linv (glob c) t l
  }.

  (* what the other threads rely on when thread t moves *)
  Definition frame_ok (g g' : xshared) (t : nat) : Prop :=
    length (xg_sessions g) <= length (xg_sessions g') /\
    (forall t', t' <> t -> rw_pending (xg_SL g) = Some t' -> rw_pending (xg_SL g') = Some t') /\
    (forall t', t' <> t -> rw_writer (xg_SL g) = Some t' ->
       rw_writer (xg_SL g') = Some t' /\ xg_sess g' = xg_sess g /\ forall s, closed g s = false -> closed g' s = false).

  Lemma linv_frame g g' t t' l' : frame_ok g g' t -> t' <> t -> linv g t' l' -> linv g' t' l'.
  Proof.
    intros (Hlen & Hp & Hw) Hne [Hk H]. split; auto.
    destruct (x_pc l'); auto; try (intuition lia).
    - destruct H as (H1 & H2). auto.
    - destruct H as (H1 & H2). destruct (Hw _ Hne H1) as (? & ? & ?). auto.
    - destruct H as (H1 & H2 & H3). destruct (Hw _ Hne H1) as (? & E & ?). rewrite E. auto.
    - destruct H as (H1 & H2 & H3 & H4). destruct (Hw _ Hne H1) as (? & E & ?). rewrite E. auto.
    - destruct H as (H1 & H2 & H3). destruct (Hw _ Hne H1) as (? & E & ?). rewrite E. auto.
    - destruct H as (H1 & H2 & H3). destruct (Hw _ Hne H1) as (? & E & ?). auto.
  Qed.

  Lemma threads_frame (ths : list xlocal) t l l1 g g' :
    nth_error ths t = Some l ->
    (forall t' l', nth_error ths t' = Some l' -> linv g t' l') ->
    linv g' t l1 -> frame_ok g g' t ->
    forall t' l', nth_error (set_nth ths t l1) t' = Some l' -> linv g' t' l'.
  Proof.
    intros Hl Hall H1 Hf t' l' H. destruct (Nat.eq_dec t t') as [<-|Hne].
    - rewrite (nth_error_set_nth_eq _ _ _ _ Hl) in H. inversion H; subst; auto.
    - rewrite nth_error_set_nth_neq in H by auto. eapply linv_frame; eauto.
  Qed.
  Lemma holder_frame (P : xpc -> bool) (ths : list xlocal) t l l1 (W W' : option nat) :
    nth_error ths t = Some l ->
    (forall t0, W = Some t0 -> exists l0, nth_error ths t0 = Some l0 /\ P (x_pc l0) = true) ->
    (forall t0, W' = Some t0 -> (t0 = t /\ P (x_pc l1) = true) \/ (W = Some t0 /\ (P (x_pc l) = false \/ t0 <> t))) ->
    forall t0, W' = Some t0 -> exists l0, nth_error (set_nth ths t l1) t0 = Some l0 /\ P (x_pc l0) = true.
  Proof.
    intros Hl Hold Hnew t0 E. destruct (Hnew t0 E) as [[-> Hp] | [Hw Hd]].
    - exists l1. split; auto. eapply nth_error_set_nth_eq; eauto.
    - destruct (Hold _ Hw) as (l0 & Hl0 & Hp0).
      assert (t0 <> t). { destruct Hd; auto. intros ->. rewrite Hl in Hl0. inversion Hl0; subst. congruence. }
      exists l0. split; auto. rewrite nth_error_set_nth_neq; auto.
  Qed.
  Lemma frame_ok_refl g t : frame_ok g g t.
  Proof. repeat split; auto. Qed.
  Lemma frame_ok_same g g' t :
    xg_SL g' = xg_SL g -> xg_sess g' = xg_sess g -> xg_sessions g' = xg_sessions g -> frame_ok g g' t.
  Proof. intros E1 E2 E3. unfold frame_ok, closed, sess_get. rewrite E1, E2, E3. repeat split; auto. Qed.
  Lemma frame_ok_holder g g' t :
    rw_writer (xg_SL g) = Some t -> rw_writer (xg_SL g) = None \/ rw_pending (xg_SL g) = None ->
    length (xg_sessions g) <= length (xg_sessions g') -> frame_ok g g' t.
  Proof. intros W [E|E] Hlen; repeat split; auto; intros; congruence. Qed.
  Lemma frame_ok_free g g' t :
    rw_writer (xg_SL g) = None -> rw_pending (xg_SL g) = None ->
    length (xg_sessions g) <= length (xg_sessions g') -> frame_ok g g' t.
  Proof. intros W E Hlen; repeat split; auto; intros; congruence. Qed.
  Lemma frame_ok_pending g g' t :
    rw_pending (xg_SL g) = Some t -> rw_writer (xg_SL g) = None \/ rw_pending (xg_SL g) = None ->
    length (xg_sessions g) <= length (xg_sessions g') -> frame_ok g g' t.
  Proof. intros W [E|E] Hlen; repeat split; auto; intros; congruence. Qed.
End Invariant.

Ltac holder Hl Hold Hpc :=
  eapply holder_frame; [exact Hl | exact Hold |];
  let t0 := fresh "t0" in let E := fresh "E" in
  intros t0 E; cbn in E; try discriminate E;
  first [ left; split; [congruence | reflexivity]
        | right; split; [exact E | left; rewrite Hpc; reflexivity] ].

Ltac linv_solve Hk :=
  split; [ cbn; first [exact Hk | tauto]
         | cbn; unfold head_send, head_write, head_life, head_disc, head_dial, is_reconnect in *; cbn [xat xfin x_pc x_ops x_rets];
           repeat match goal with H : x_ops _ = _ |- _ => rewrite H in * end;
           try match goal with |- context [x_ops ?l] => destruct (x_ops l) as [|[] ?]; try discriminate end; auto;
           intuition (try congruence; try lia; eauto) ].

Ltac gsimpl := cbn [glob thr upd xg_sess xg_err xg_SL xg_sessions xg_plan xg_spawned xg_frames xg_closes xg_panic
                    wunlock rw_readers rw_writer rw_pending xat xfin x_pc x_ops x_rets].

Lemma step_preserves n c t c' e : ginv n c -> xs_step false n c t = Some (c', e) -> ginv n c'.
Proof.
  intros I H. apply xs_step_inv in H as (l & g' & l1 & Hl & Hs & ->).
  destruct c as [g ths]; cbn [glob thr] in *.
  pose proof (gi_threads _ _ I _ _ Hl) as [Hk Lt].
  destruct I as [Ipan Ird Iex Ise Icl Icn Icc Isp Iwr Ipe Ith]; cbn [glob thr] in *.
  xstep_destruct Hs; inversion Hs; subst; clear Hs.
  all: match goal with H : x_pc _ = _ |- _ => rename H into Hpc end; cbn in Lt, Hk.
  all: repeat match goal with
       | H : rlock _ _ = Some _ |- _ => apply rlock_some in H as [? ?]
       | H : wannounce _ _ = Some _ |- _ => apply wannounce_some in H as (? & ? & ->)
       | H : wacquire _ _ = Some _ |- _ => apply wacquire_some in H as (? & ? & ->)
       end.
  all: repeat match goal with H : _ /\ _ |- _ => destruct H end.
  all: try solve [exfalso; unfold is_reconnect in *; repeat match goal with H : x_ops _ = _ |- _ => rewrite H in * end; discriminate].
  all: constructor; gsimpl;
    [ try solve [auto]
    | try solve [auto]
    | try solve [auto]
    | try solve [auto | intros; apply Ise; congruence
                | intros ? E; inversion E; subst; rewrite ?app_length, ?set_nth_length; cbn; lia]
    | try solve [auto | intros; apply Icl; congruence]
    | try solve [auto]
    | try solve [auto]
    | try solve [auto | rewrite ?set_nth_length; auto
                | rewrite app_length, Nat.add_1_r, seq_S, Isp; reflexivity]
    | try solve [holder Hl Iwr Hpc]
    | try solve [holder Hl Ipe Hpc]
    | eapply threads_frame; [exact Hl | exact Ith | try solve [linv_solve Hk] |
        first [ apply frame_ok_refl
              | apply frame_ok_same; reflexivity
              | apply frame_ok_holder; [intuition congruence | assumption | gsimpl; try rewrite set_nth_length; try rewrite app_length; lia]
              | apply frame_ok_free; [assumption | assumption | gsimpl; lia]
              | apply frame_ok_pending; [assumption | assumption | gsimpl; lia]
              | idtac ] ] ].
  - (* Reconnect finds the old connection closed *)
    intros s0 _. rewrite closed_upd. destruct (Nat.eq_dec s0 s) as [->|]; [assumption | apply Icl; congruence].
  - (* Disconnect finds the connection closed *)
    intros s0 _. rewrite closed_upd. destruct (Nat.eq_dec s0 s) as [->|]; [assumption | apply Icl; congruence].
  - (* Reconnect closes the old connection *)
    intros s0 _. erewrite closed_set; [ | reflexivity | reflexivity | apply Ise; assumption].
    destruct (Nat.eqb_spec s0 s); auto. apply Icl; congruence.
  - constructor; auto. intro Hin. apply Icc in Hin as [_ Hc]. congruence.
  - intros s0 [<-|Hin].
    + split; [rewrite set_nth_length; apply Ise; assumption|].
      erewrite closed_set; [ | reflexivity | reflexivity | apply Ise; assumption]. now rewrite Nat.eqb_refl.
    + destruct (Icc _ Hin). split; [rewrite set_nth_length; assumption|].
      erewrite closed_set; [ | reflexivity | reflexivity | apply Ise; assumption]. destruct (Nat.eqb_spec s0 s); auto.
  - (* Disconnect closes the connection *)
    intros s0 _. erewrite closed_set; [ | reflexivity | reflexivity | apply Ise; assumption].
    destruct (Nat.eqb_spec s0 s); auto. apply Icl; congruence.
  - constructor; auto. intro Hin. apply Icc in Hin as [_ Hc]. congruence.
  - intros s0 [<-|Hin].
    + split; [rewrite set_nth_length; apply Ise; assumption|].
      erewrite closed_set; [ | reflexivity | reflexivity | apply Ise; assumption]. now rewrite Nat.eqb_refl.
    + destruct (Icc _ Hin). split; [rewrite set_nth_length; assumption|].
      erewrite closed_set; [ | reflexivity | reflexivity | apply Ise; assumption]. destruct (Nat.eqb_spec s0 s); auto.
  - (* a successful dial creates a fresh session *)
    intros s0 Hne. destruct (lt_eq_lt_dec s0 (length (xg_sessions g))) as [[Hlt|Heq]|Hgt].
    + erewrite closed_app_old; [ apply Icl; congruence | reflexivity | assumption ].
    + congruence.
    + eapply closed_app_beyond; [reflexivity | assumption].
  - intros s0 Hin. destruct (Icc _ Hin). split; [rewrite app_length; lia|].
    erewrite closed_app_old; [ eassumption | reflexivity | assumption ].
  - (* ... the same for Connect *)
    intros s0 Hne. destruct (lt_eq_lt_dec s0 (length (xg_sessions g))) as [[Hlt|Heq]|Hgt].
    + erewrite closed_app_old; [ apply Icl; congruence | reflexivity | assumption ].
    + congruence.
    + eapply closed_app_beyond; [reflexivity | assumption].
  - intros s0 Hin. destruct (Icc _ Hin). split; [rewrite app_length; lia|].
    erewrite closed_app_old; [ eassumption | reflexivity | assumption ].
  - (* the reader of the (t-n)-th session *)
    match goal with H : nth_error (xg_spawned _) _ = Some _ |- _ => rewrite Isp in H; apply nth_error_seq0 in H as [-> ?] end.
    split; [cbn; exact Hk | cbn; auto].
Qed.

(* ---------- executions ---------- *)
Definition reach (pinned : bool) (progs : list (list xop)) (plan : list (bool * bool)) (readers : nat) (c : xconfig) : Prop :=
  exists sch, fst (xs_exec pinned (length progs) (xinit progs plan readers) sch) = c.

Lemma exec_invariant p n (P : xconfig -> Prop) :
  (forall c t c' e, P c -> xs_step p n c t = Some (c', e) -> P c') ->
  forall sch c, P c -> P (fst (xs_exec p n c sch)).
Proof.
  intros Hstep. induction sch as [|t r IH]; intros c Hc; cbn; auto.
  unfold xs_exec in *. cbn. fold (xs_step p n c t).
  destruct (xs_step p n c t) as [[c' e]|] eqn:Hs; auto.
  specialize (IH c' (Hstep _ _ _ _ Hc Hs)).
  destruct (exec xshared xlocal xevent (xstep p n) c' r) as [c'' tr]. exact IH.
Qed.

Lemma xinit_thread progs plan readers t l :
  nth_error (thr (xinit progs plan readers)) t = Some l ->
  (t < length progs /\ exists p, nth_error progs t = Some p /\ l = {| x_pc := XIdle; x_ops := p; x_rets := [] |})
  \/ (length progs <= t /\ l = {| x_pc := XBgNotSpawned; x_ops := []; x_rets := [] |}).
Proof.
  cbn. intro H. destruct (Nat.lt_ge_cases t (length progs)) as [Hlt|Hge].
  - left. split; auto. rewrite nth_error_app1 in H by now rewrite map_length.
    rewrite nth_error_map in H. destruct (nth_error progs t) as [p|]; try discriminate.
    inversion H. eauto.
  - right. split; auto. rewrite nth_error_app2 in H by now rewrite map_length.
    apply nth_error_In, repeat_spec in H. auto.
Qed.

Lemma ginv_init progs plan readers : ginv (length progs) (xinit progs plan readers).
Proof.
  constructor; try (cbn; auto; fail); try (cbn; intros; discriminate).
  - intros s _. apply closed_beyond. cbn. lia.
  - cbn. constructor.
  - cbn. intros s [].
  - intros t l H. apply xinit_thread in H as [(Hlt & p & _ & ->)|(Hge & ->)]; split; cbn; auto; intuition (try lia; try discriminate).
Qed.

Theorem reach_ginv progs plan readers c : reach false progs plan readers c -> ginv (length progs) c.
Proof.
  intros [sch <-]. apply exec_invariant with (P := ginv (length progs)).
  - intros; eapply step_preserves; eauto.
  - apply ginv_init.
Qed.

(* ====================================================================================== *)
(* 5. no panic                                                                             *)
(* ====================================================================================== *)
Theorem no_panic progs plan readers c :
  reach false progs plan readers c -> xg_panic (glob c) = false.
Proof. intro H. apply reach_ginv in H. apply (gi_panic _ _ H). Qed.

(* the defect D16: Send re-reads c.session for the Write.  Thread 0 connects and starts a
   Send (Closed() answered false); thread 1 disconnects; thread 0 dereferences nil. *)
Definition panic_progs : list (list xop) := [[XConnect true; XSend (Some [x01]) true]; [XDisconnect]].
Definition panic_sched : list nat := [0;0;0;0; 0;0;0; 1;1;1;1;1; 0].

Theorem pinned_panics :
  reach true panic_progs [] 1 (fst (xs_exec true 2 (xinit panic_progs [] 1) panic_sched)) /\
  xg_panic (glob (fst (xs_exec true 2 (xinit panic_progs [] 1) panic_sched))) = true /\
  snd (xs_exec true 2 (xinit panic_progs [] 1) panic_sched)
  = [(0, XEvNew true); (0, XEvClosedQ 0 false); (1, XEvClosedQ 0 false); (1, XEvClose 0)].
Proof. split; [exists panic_sched; reflexivity | vm_compute; auto]. Qed.

(* the very same schedule on the repaired code: the Write goes to the captured (closed) session *)
Theorem repaired_does_not_panic :
  let r := xs_exec false 2 (xinit panic_progs [] 1) panic_sched in
  xg_panic (glob (fst r)) = false /\
  map x_rets (firstn 2 (thr (fst r))) = [[0; 4]%N; [0%N]] /\
  snd r = [(0, XEvNew true); (0, XEvClosedQ 0 false); (1, XEvClosedQ 0 false); (1, XEvClose 0); (0, XEvWrite 0 [x01])].
Proof. vm_compute. auto. Qed.

(* the other half of D16: the reader of a REPLACED session records its error after a successful
   Reconnect cleared it, and poisons the successor session: the next Send fails with the
   stale error although session 1 is healthy *)
Definition poison_progs : list (list xop) := [[XConnect true; XReconnect true; XSendRaw [x01] true]].
Definition poison_plan : list (bool * bool) := [(false, true); (false, false)].
Definition poison_sched : list nat := [0;0;0;0; 1;1; 0;0;0;0;0;0;0; 1;1; 0].

Theorem pinned_poisons :
  let c6 := fst (xs_exec true 1 (xinit poison_progs poison_plan 2) (firstn 13 poison_sched)) in
  let r := xs_exec true 1 (xinit poison_progs poison_plan 2) poison_sched in
  reach true poison_progs poison_plan 2 (fst r) /\
  (* after the Reconnect: cleared *)
  xg_err (glob c6) = false /\ xg_sess (glob c6) = Some 1 /\
  (* after the stale reader's report: set, on the healthy successor session *)
  xg_err (glob (fst r)) = true /\ xg_sess (glob (fst r)) = Some 1 /\ closed (glob (fst r)) 1 = false /\
  map x_rets (firstn 1 (thr (fst r))) = [[0; 0; 2]%N] /\
  snd r = [(0, XEvNew true); (1, XEvListen 0); (0, XEvClosedQ 0 false); (0, XEvClose 0); (0, XEvNew true)].
Proof. split; [exists poison_sched; reflexivity | vm_compute; repeat split]. Qed.

Theorem repaired_is_not_poisoned :
  let r := xs_exec false 1 (xinit poison_progs poison_plan 2) poison_sched in
  xg_err (glob (fst r)) = false /\ xg_sess (glob (fst r)) = Some 1 /\
  map x_rets (firstn 1 (thr (fst r))) = [[0; 0]%N] /\
  map x_pc (thr (fst r)) = [XSendChecked; XBgDone; XBgNotSpawned].
Proof. vm_compute. repeat split. Qed.

(* ====================================================================================== *)
(* 1. one frame per successful Send                                                        *)
(* ====================================================================================== *)
Definition is_write (e : option xevent) : bool := match e with Some (XEvWrite _ _) => true | _ => false end.

(* what a micro-step does to its own thread's call and to the log of frames *)
Definition step_summary (g : xshared) (t : nat) (l : xlocal) (g' : xshared) (l1 : xlocal) (e : option xevent) : Prop :=
  (x_ops l1 = x_ops l /\ x_rets l1 = x_rets l /\ xg_frames g' = xg_frames g /\ is_write e = false)
  \/ (exists o ops r, x_ops l = o :: ops /\ l1 = xfin l r /\ ret_ok o r = true /\
        ((xg_frames g' = xg_frames g /\ call_frames o r = [] /\ is_write e = false)
         \/ (exists s d w, e = Some (XEvWrite s d) /\ x_pc l = XSendWrite s /\
               (o = XSend (Some d) w \/ o = XSendRaw d w) /\
               r = (if w && negb (closed g s) then 0 else 4)%N /\
               xg_frames g' = (s, t, d) :: xg_frames g /\ call_frames o r = [d]))).

Lemma step_local n c t l g' l1 e :
  ginv n c -> nth_error (thr c) t = Some l -> xstep false n (glob c) t l = Some (g', l1, e) ->
  step_summary (glob c) t l g' l1 e.
Proof.
  intros I Hl Hs. destruct c as [g ths]; cbn [glob thr] in *.
  pose proof (gi_threads _ _ I _ _ Hl) as [Hk Lt]. clear I.
  assert (Hpc0 : exists p, x_pc l = p) by eauto.
  xstep_destruct Hs; inversion Hs; subst; clear Hs.
  all: cbn in Lt; unfold head_send, head_write, head_life, head_disc, head_dial, is_reconnect, dial_flag in *.
  all: repeat match goal with H : _ /\ _ |- _ => destruct H end.
  all: lazymatch goal with H : x_ops _ = _ |- _ => idtac | _ => destruct (x_ops l) as [|[] ?] eqn:Hops end.
  all: match goal with H : x_ops _ = _ |- _ => try rewrite H in * |- end.
  all: try match goal with enc : option bytes |- _ => destruct enc end.
  all: cbn in * |-.
  all: try discriminate.
  all: subst.
  all: try discriminate.
  all: try match goal with H : pair _ _ = pair _ _ |- _ => inversion H; subst; try clear H end.
  all: unfold step_summary.
  all: try solve [left; repeat split; reflexivity].
  all: try solve [right; do 3 eexists; split; [eassumption | split; [reflexivity | split; [reflexivity | left; repeat split; reflexivity ]]]].
  all: try solve [right; do 3 eexists; split; [eassumption | split; [reflexivity | split; [
                    match goal with |- ret_ok (XReconnect ?b) _ = true => destruct b; reflexivity end
                  | left; repeat split; try reflexivity; match goal with |- call_frames (XReconnect ?b) _ = [] => destruct b; reflexivity end ]]]].
  all: right; do 3 eexists; split; [eassumption | split; [reflexivity | split; [|right; do 3 eexists; repeat split; eauto]]].
  all: unfold closed; try destruct b; destruct (xs_closed (sess_get g s)); reflexivity.
Qed.

Lemma step_local' n c t c' e :
  ginv n c -> xs_step false n c t = Some (c', e) ->
  exists l g' l1, nth_error (thr c) t = Some l /\ c' = Build_config g' (set_nth (thr c) t l1) /\
                  nth_error (thr c') t = Some l1 /\ linv n (glob c) t l /\
                  xstep false n (glob c) t l = Some (g', l1, e) /\ step_summary (glob c) t l g' l1 e.
Proof.
  intros I H. apply xs_step_inv in H as (l & g' & l1 & Hl & Hs & ->).
  exists l, g', l1. split; [assumption|]. split; [reflexivity|]. split; [|split; [|split]]; auto.
  - cbn. eapply nth_error_set_nth_eq; eauto.
  - apply (gi_threads _ _ I _ _ Hl).
  - eapply step_local; eauto.
Qed.

(* a Write event is the last micro-step of a Send/SendRaw call: it is made by a worker at
   XSendWrite s, on the session s that the call captured, carries exactly the bytes of the call,
   appends exactly one frame to the log and finishes the call *)
Theorem one_frame progs plan readers c t c' s d :
  reach false progs plan readers c ->
  xs_step false (length progs) c t = Some (c', Some (XEvWrite s d)) ->
  exists l w ops, nth_error (thr c) t = Some l /\ t < length progs /\ x_pc l = XSendWrite s /\
     (x_ops l = XSend (Some d) w :: ops \/ x_ops l = XSendRaw d w :: ops) /\
     nth_error (thr c') t = Some {| x_pc := XIdle; x_ops := ops;
                                    x_rets := x_rets l ++ [if w && negb (closed (glob c) s) then 0%N else 4%N] |} /\
     xg_frames (glob c') = (s, t, d) :: xg_frames (glob c).
Proof.
  intros R H. apply reach_ginv in R.
  destruct (step_local' _ _ _ _ _ R H) as (l & g' & l1 & Hl & -> & Hl1 & [Hk _] & _ & Hsum).
  destruct Hsum as [(_ & _ & _ & Hw) | (o & ops & r & Hops & -> & _ & [(_ & _ & Hw) | (s0 & d0 & w & He & Hpc & Ho & -> & Hfr & _)])];
    try discriminate.
  inversion He; subst s0 d0. exists l, w, ops. rewrite Hpc in Hk. cbn in Hk.
  repeat split; auto.
  - apply Hk; reflexivity.
  - destruct Ho as [-> | ->]; auto.
  - rewrite Hl1. unfold xfin. rewrite Hops. reflexivity.
Qed.

(* conversely the log of frames changes only by Write events *)
Theorem frame_iff_write progs plan readers c t c' e :
  reach false progs plan readers c ->
  xs_step false (length progs) c t = Some (c', e) ->
  (is_write e = false /\ xg_frames (glob c') = xg_frames (glob c))
  \/ (exists s d, e = Some (XEvWrite s d) /\ xg_frames (glob c') = (s, t, d) :: xg_frames (glob c)).
Proof.
  intros R H. apply reach_ginv in R.
  destruct (step_local' _ _ _ _ _ R H) as (l & g' & l1 & Hl & -> & Hl1 & _ & _ & Hsum).
  destruct Hsum as [(_ & _ & Hf & Hw) | (o & ops & r & Hops & -> & _ & [(Hf & _ & Hw) | (s0 & d0 & w & He & Hpc & Ho & -> & Hfr & _)])]; eauto.
Qed.

(* a call whose encoding fails never writes *)
Theorem encode_error_writes_nothing progs plan readers c t l w ops c' e :
  reach false progs plan readers c ->
  nth_error (thr c) t = Some l -> x_ops l = XSend None w :: ops ->
  xs_step false (length progs) c t = Some (c', e) -> is_write e = false.
Proof.
  intros R Hl Hops H. apply reach_ginv in R.
  destruct (step_local' _ _ _ _ _ R H) as (l' & g' & l1 & Hl' & -> & Hl1 & _ & _ & Hsum).
  rewrite Hl in Hl'. inversion Hl'; subst l'.
  destruct Hsum as [(_ & _ & Hf & Hw) | (o & ops' & r & Hops' & -> & _ & [(Hf & _ & Hw) | (s0 & d0 & w' & He & Hpc & Ho & _)])]; auto.
  rewrite Hops in Hops'. inversion Hops'; subst. destruct Ho; discriminate.
Qed.

(* ---- the whole history: frames of a thread = what its finished calls account for ---- *)
Lemma frames_of_cons t s t' d fr :
  frames_of t ((s, t', d) :: fr) = frames_of t fr ++ (if Nat.eqb t' t then [d] else []).
Proof.
  unfold frames_of. cbn [rev]. rewrite filter_app, map_app. cbn. destruct (Nat.eqb t' t); reflexivity.
Qed.

Lemma expected_frames_snoc done rets o r :
  length done = length rets ->
  expected_frames (done ++ [o]) (rets ++ [r]) = expected_frames done rets ++ call_frames o r.
Proof.
  revert rets. induction done as [|o' done IH]; intros [|r' rets] Hlen; try discriminate; cbn.
  - now rewrite app_nil_r.
  - rewrite IH by (cbn in Hlen; lia). now rewrite app_assoc.
Qed.

Lemma rets_ok_snoc done rets o r :
  length done = length rets ->
  rets_ok (done ++ [o]) (rets ++ [r]) = rets_ok done rets && ret_ok o r.
Proof.
  revert rets. induction done as [|o' done IH]; intros [|r' rets] Hlen; try discriminate; cbn.
  - now rewrite andb_true_r.
  - rewrite IH by (cbn in Hlen; lia). now rewrite andb_assoc.
Qed.

Lemma expected_frames_app done rest rets :
  length done = length rets -> expected_frames (done ++ rest) rets = expected_frames done rets.
Proof.
  revert rets. induction done as [|o' done IH]; intros [|r' rets] Hlen; try discriminate; cbn.
  - destruct rest; reflexivity.
  - rewrite IH by (cbn in Hlen; lia). reflexivity.
Qed.

Lemma rets_ok_app done rest rets :
  length done = length rets -> rets_ok (done ++ rest) rets = rets_ok done rets.
Proof.
  revert rets. induction done as [|o' done IH]; intros [|r' rets] Hlen; try discriminate; cbn.
  - destruct rest; reflexivity.
  - rewrite IH by (cbn in Hlen; lia). reflexivity.
Qed.

Definition accounted (progs : list (list xop)) (c : xconfig) : Prop :=
  forall t l p, nth_error (thr c) t = Some l -> nth_error progs t = Some p ->
    exists done, p = done ++ x_ops l /\ length done = length (x_rets l) /\
                 rets_ok done (x_rets l) = true /\
                 frames_of t (xg_frames (glob c)) = expected_frames done (x_rets l).

Lemma accounted_step n progs c t c' e :
  ginv n c -> accounted progs c -> xs_step false n c t = Some (c', e) -> accounted progs c'.
Proof.
  intros I A H.
  destruct (step_local' _ _ _ _ _ I H) as (l & g' & l1 & Hl & -> & Hl1 & _ & _ & Hsum).
  intros t' l' p Hl' Hp. cbn [glob thr] in *.
  assert (Hfr : xg_frames g' = xg_frames (glob c) \/ exists s d, xg_frames g' = (s, t, d) :: xg_frames (glob c)).
  { destruct Hsum as [(_ & _ & Hf & _) | (o & ops & r & _ & _ & _ & [(Hf & _) | (s0 & d0 & w & _ & _ & _ & _ & Hf & _)])]; eauto. }
  destruct (Nat.eq_dec t t') as [<-|Hne].
  - rewrite Hl1 in Hl'. inversion Hl'; subst l'. clear Hl'.
    destruct (A _ _ _ Hl Hp) as (done & Hpd & Hlen & Hok & Hacc).
    destruct Hsum as [(Ho & Hr & Hf & _) | (o & ops & r & Hops & -> & Hrok & [(Hf & Hcf & _) | (s0 & d0 & w & _ & _ & _ & _ & Hf & Hcf)])].
    + exists done. rewrite Ho, Hr, Hf. auto.
    + exists (done ++ [o]). cbn [xfin x_ops x_rets]. rewrite Hops in *. cbn [tl].
      rewrite !app_length, expected_frames_snoc, rets_ok_snoc, Hcf, app_nil_r, Hf, Hok, Hrok by assumption.
      repeat split; auto; try (now rewrite <- app_assoc); try (cbn; lia).
    + exists (done ++ [o]). cbn [xfin x_ops x_rets]. rewrite Hops in *. cbn [tl].
      rewrite !app_length, expected_frames_snoc, rets_ok_snoc, Hcf, Hf, Hok, Hrok, frames_of_cons, Nat.eqb_refl, Hacc by assumption.
      repeat split; auto; try (now rewrite <- app_assoc); try (cbn; lia).
  - rewrite nth_error_set_nth_neq in Hl' by assumption.
    destruct (A _ _ _ Hl' Hp) as (done & Hpd & Hlen & Hok & Hacc).
    exists done. repeat split; auto.
    destruct Hfr as [-> | (s & d & ->)]; auto.
    rewrite frames_of_cons. destruct (Nat.eqb_spec t t'); try contradiction. now rewrite app_nil_r.
Qed.

Lemma accounted_init progs plan readers : accounted progs (xinit progs plan readers).
Proof.
  intros t l p Hl Hp. apply xinit_thread in Hl as [(_ & p' & Hp' & ->) | (Hge & ->)].
  - rewrite Hp in Hp'. inversion Hp'; subst. exists []. cbn. auto.
  - apply nth_error_None in Hge. congruence.
Qed.

(* every finished Send (Some b) / SendRaw b with result 0 or 4 put exactly one frame, exactly b,
   on the wire; calls with any other result (and lifecycle calls) put none; in program order *)
Theorem one_frame_exec progs plan readers c t l p :
  reach false progs plan readers c ->
  nth_error (thr c) t = Some l -> nth_error progs t = Some p ->
  exists done, p = done ++ x_ops l /\ length done = length (x_rets l) /\
               rets_ok done (x_rets l) = true /\
               frames_of t (xg_frames (glob c)) = expected_frames done (x_rets l).
Proof.
  intros [sch <-].
  assert (H : ginv (length progs) (fst (xs_exec false (length progs) (xinit progs plan readers) sch))
              /\ accounted progs (fst (xs_exec false (length progs) (xinit progs plan readers) sch))).
  { apply exec_invariant with (P := fun c => ginv (length progs) c /\ accounted progs c).
    - intros c t0 c' e [I A] Hs. split; [eapply step_preserves | eapply accounted_step]; eauto.
    - split; [apply ginv_init | apply accounted_init]. }
  destruct H as [_ A]. apply A.
Qed.

Lemma frames_eqb_refl a : frames_eqb a a = true.
Proof. induction a; cbn; auto. now rewrite bytes_eqb_refl. Qed.

(* the executable checker of model/WsClientSpec.v accepts every reachable configuration *)
Theorem frames_account_reach progs plan readers c :
  reach false progs plan readers c -> frames_account progs c = true.
Proof.
  intros R. unfold frames_account. apply forallb_forall. intros t Ht. apply in_seq in Ht.
  destruct (nth_error progs t) as [p|] eqn:Hp; [|apply nth_error_None in Hp; lia].
  destruct (nth_error (thr c) t) as [l|] eqn:Hl.
  - destruct (one_frame_exec _ _ _ _ _ _ _ R Hl Hp) as (done & -> & Hlen & Hok & Hacc).
    rewrite rets_ok_app, expected_frames_app, Hok, Hacc by assumption. apply frames_eqb_refl.
  - exfalso. apply nth_error_None in Hl. destruct R as [sch <-].
    assert (Hlen : forall c, length (thr c) = length (thr (xinit progs plan readers)) ->
                   length (thr (fst (xs_exec false (length progs) c sch))) = length (thr (xinit progs plan readers))).
    { apply exec_invariant with (P := fun c => length (thr c) = length (thr (xinit progs plan readers))).
      intros c0 t0 c' e Hc Hs. apply xs_step_inv in Hs as (? & ? & ? & _ & _ & ->). cbn. now rewrite set_nth_length. }
    rewrite Hlen in Hl by reflexivity. cbn in Hl. rewrite app_length, map_length in Hl. lia.
Qed.

(* ====================================================================================== *)
(* 3. the sticky asynchronous error                                                        *)
(* ====================================================================================== *)
Lemma is_reconnect_true l :
  is_reconnect l = true -> exists ok ops, x_ops l = XReconnect ok :: ops /\ dial_flag l = ok.
Proof. unfold is_reconnect, dial_flag. destruct (x_ops l) as [|[] ?]; try discriminate. eauto. Qed.

Lemma xs_step_inv' p n (c : xconfig) t l c' e :
  nth_error (thr c) t = Some l -> xs_step p n c t = Some (c', e) ->
  exists g' l', xstep p n (glob c) t l = Some (g', l', e) /\ c' = Build_config g' (set_nth (thr c) t l')
                /\ nth_error (thr c') t = Some l'.
Proof.
  intros Hl H. apply xs_step_inv in H as (l0 & g' & l' & Hl0 & Hs & ->).
  rewrite Hl in Hl0. inversion Hl0; subst l0. exists g', l'. repeat split; auto.
  cbn. eapply nth_error_set_nth_eq; eauto.
Qed.

(* the error flag changes only in three ways: set by the reader of the CURRENT session, set by the
   setErr step of a failed Reconnect, cleared by the setErr step of a successful Reconnect *)
Theorem sticky n c t l c' e :
  nth_error (thr c) t = Some l -> xs_step false n c t = Some (c', e) ->
  xg_err (glob c') <> xg_err (glob c) ->
  (xg_err (glob c') = true /\
     ((exists s, x_pc l = XBgReport s /\ xg_sess (glob c) = Some s /\ e = None)
      \/ (x_pc l = XSetErr false /\ e = None /\ xg_sess (glob c') = xg_sess (glob c))))
  \/ (xg_err (glob c') = false /\ x_pc l = XSetErr true /\ e = None /\ xg_sess (glob c') = xg_sess (glob c)).
Proof.
  intros Hl H Hne. destruct (xs_step_inv' _ _ _ _ _ _ _ Hl H) as (g' & l' & Hs & -> & _).
  destruct c as [g ths]; cbn [glob thr] in *. clear H Hl.
  xstep_destruct Hs; inversion Hs; subst; clear Hs; cbn in Hne; try congruence.
  all: lazymatch goal with
       | H : x_pc _ = XSetErr ?b |- _ =>
           destruct b; cbn in *;
           [ right; repeat split; auto | left; split; [reflexivity|]; right; repeat split; auto ]
       | H : x_pc _ = XBgReport ?s |- _ =>
           left; split; [reflexivity|]; left; exists s; repeat split; auto;
           match goal with H : Nat.eqb _ _ = true |- _ => apply Nat.eqb_eq in H; now subst end
       end.
Qed.

(* (i) a reader whose session has been replaced leaves the error flag (and everything else) alone *)
Theorem stale_reader_harmless n c t l s c' e :
  nth_error (thr c) t = Some l -> x_pc l = XBgReport s -> xg_sess (glob c) <> Some s ->
  xs_step false n c t = Some (c', e) ->
  glob c' = glob c /\ e = None /\ (exists l', nth_error (thr c') t = Some l' /\ x_pc l' = XBgDone).
Proof.
  intros Hl Hpc Hne H. destruct (xs_step_inv' _ _ _ _ _ _ _ Hl H) as (g' & l' & Hs & -> & Hl').
  destruct c as [g ths]; cbn [glob thr] in *.
  unfold xstep in Hs. rewrite Hpc in Hs.
  xstep_destruct Hs; inversion Hs; subst; clear Hs; repeat split; eauto.
  match goal with H : Nat.eqb _ _ = true |- _ => apply Nat.eqb_eq in H; subst end. congruence.
Qed.

(* and the reader of the current session does record its error *)
Theorem current_reader_reports n c t l s c' e :
  nth_error (thr c) t = Some l -> x_pc l = XBgReport s -> xg_sess (glob c) = Some s ->
  xs_step false n c t = Some (c', e) -> xg_err (glob c') = true /\ e = None.
Proof.
  intros Hl Hpc Hse H. destruct (xs_step_inv' _ _ _ _ _ _ _ Hl H) as (g' & l' & Hs & -> & Hl').
  destruct c as [g ths]; cbn [glob thr] in *.
  unfold xstep in Hs. rewrite Hpc in Hs.
  xstep_destruct Hs; inversion Hs; subst; clear Hs; repeat split; eauto; try congruence.
  match goal with H : Nat.eqb _ _ = false |- _ => apply Nat.eqb_neq in H end. congruence.
Qed.

(* (ii) while the flag is set, a Send/SendRaw fails with the sticky error and touches nothing *)
Theorem error_is_sticky n c t l c' e :
  nth_error (thr c) t = Some l -> x_pc l = XIdle -> head_send l = true ->
  xg_err (glob c) = true ->
  xs_step false n c t = Some (c', e) ->
  e = None /\ glob c' = glob c /\ nth_error (thr c') t = Some (xfin l 2%N).
Proof.
  intros Hl Hpc Hh He H. destruct (xs_step_inv' _ _ _ _ _ _ _ Hl H) as (g' & l' & Hs & -> & Hl').
  destruct c as [g ths]; cbn [glob thr] in *. unfold head_send in Hh.
  unfold xstep in Hs. rewrite Hpc in Hs.
  xstep_destruct Hs; inversion Hs; subst; clear Hs; try discriminate; try congruence; auto.
Qed.

(* ... and such a step is never blocked (the flag is read before the session lock) *)
Theorem error_is_sticky_enabled n c t l :
  nth_error (thr c) t = Some l -> x_pc l = XIdle -> head_send l = true ->
  xg_err (glob c) = true -> xg_panic (glob c) = false ->
  xs_step false n c t <> None.
Proof.
  intros Hl Hpc Hh He Hp. unfold xs_step, step. rewrite Hl. unfold xstep. rewrite Hp, Hpc.
  unfold head_send in Hh. destruct (x_ops l) as [|[] ?]; try discriminate; rewrite He; discriminate.
Qed.

(* (iii) Reconnect, holding the exclusive lock: the dial installs a fresh, open session (or none) and leaves the
   flag alone; the setErr step that follows clears the flag after a successful dial, sets it after a failed one,
   releases the lock and returns *)
Theorem reconnect_dials n c t l ok ops c' e :
  nth_error (thr c) t = Some l -> x_pc l = XDial -> x_ops l = XReconnect ok :: ops ->
  xs_step false n c t = Some (c', e) ->
  e = Some (XEvNew ok) /\ xg_err (glob c') = xg_err (glob c) /\ xg_SL (glob c') = xg_SL (glob c) /\
  nth_error (thr c') t = Some (xat l (XSetErr ok)) /\
  (if ok then xg_sess (glob c') = Some (length (xg_sessions (glob c))) /\
              length (xg_sessions (glob c')) = S (length (xg_sessions (glob c))) /\
              closed (glob c') (length (xg_sessions (glob c))) = false
   else xg_sess (glob c') = None /\ xg_sessions (glob c') = xg_sessions (glob c)).
Proof.
  intros Hl Hpc Hops H. destruct (xs_step_inv' _ _ _ _ _ _ _ Hl H) as (g' & l' & Hs & -> & Hl').
  destruct c as [g ths]; cbn [glob thr] in *.
  unfold xstep in Hs. rewrite Hpc in Hs. unfold do_dial, dial_flag, is_reconnect in Hs. rewrite Hops in Hs.
  destruct (xg_panic g); try discriminate. destruct ok; inversion Hs; subst; clear Hs; cbn.
  - repeat split; auto.
    + rewrite app_length. cbn. lia.
    + unfold closed, sess_get. cbn. rewrite app_nth2, Nat.sub_diag by lia. reflexivity.
  - repeat split; auto.
Qed.

Theorem reconnect_clears n c t l c' e :
  nth_error (thr c) t = Some l -> x_pc l = XSetErr true ->
  xs_step false n c t = Some (c', e) ->
  e = None /\ xg_err (glob c') = false /\ xg_sess (glob c') = xg_sess (glob c) /\
  xg_sessions (glob c') = xg_sessions (glob c) /\ xg_SL (glob c') = wunlock (xg_SL (glob c)) /\
  nth_error (thr c') t = Some (xfin l 0%N).
Proof.
  intros Hl Hpc H. destruct (xs_step_inv' _ _ _ _ _ _ _ Hl H) as (g' & l' & Hs & -> & Hl').
  destruct c as [g ths]; cbn [glob thr] in *.
  unfold xstep in Hs. rewrite Hpc in Hs.
  destruct (xg_panic g); try discriminate. inversion Hs; subst; clear Hs. cbn. repeat split; auto.
Qed.

(* a failed Reconnect sets it and leaves the client without session *)
Theorem reconnect_failure_sets n c t l c' e :
  nth_error (thr c) t = Some l -> x_pc l = XSetErr false ->
  xs_step false n c t = Some (c', e) ->
  e = None /\ xg_err (glob c') = true /\ xg_sess (glob c') = xg_sess (glob c) /\
  nth_error (thr c') t = Some (xfin l 6%N).
Proof.
  intros Hl Hpc H. destruct (xs_step_inv' _ _ _ _ _ _ _ Hl H) as (g' & l' & Hs & -> & Hl').
  destruct c as [g ths]; cbn [glob thr] in *.
  unfold xstep in Hs. rewrite Hpc in Hs.
  destruct (xg_panic g); try discriminate. inversion Hs; subst; clear Hs. cbn. repeat split; auto.
Qed.

(* ====================================================================================== *)
(* 2. no session                                                                           *)
(* ====================================================================================== *)
(* Send/SendRaw has passed the error check and reads c.session (Session(): RLock, read, RUnlock):
   without session the call finishes with "no active session" and touches nothing *)
Theorem no_session n c t l c' e :
  nth_error (thr c) t = Some l -> x_pc l = XSendChecked -> xg_sess (glob c) = None ->
  xs_step false n c t = Some (c', e) ->
  e = None /\ glob c' = glob c /\ nth_error (thr c') t = Some (xfin l 1%N).
Proof.
  intros Hl Hpc Hse H. destruct (xs_step_inv' _ _ _ _ _ _ _ Hl H) as (g' & l' & Hs & -> & Hl').
  destruct c as [g ths]; cbn [glob thr] in *.
  unfold xstep in Hs. rewrite Hpc in Hs.
  xstep_destruct Hs; inversion Hs; subst; clear Hs; try discriminate; try congruence; auto.
Qed.

(* with a session it captures that session (and nothing else happens) *)
Theorem session_captured n c t l s c' e :
  nth_error (thr c) t = Some l -> x_pc l = XSendChecked -> xg_sess (glob c) = Some s ->
  xs_step false n c t = Some (c', e) ->
  e = None /\ glob c' = glob c /\ nth_error (thr c') t = Some (xat l (XSendHave s)).
Proof.
  intros Hl Hpc Hse H. destruct (xs_step_inv' _ _ _ _ _ _ _ Hl H) as (g' & l' & Hs & -> & Hl').
  destruct c as [g ths]; cbn [glob thr] in *.
  unfold xstep in Hs. rewrite Hpc, Hse in Hs.
  xstep_destruct Hs; inversion Hs; subst; clear Hs; try discriminate; try congruence; auto.
Qed.

(* a Send/SendRaw whose error check passes does not touch the session lock in that step *)
Theorem error_check_passes n c t l c' e :
  nth_error (thr c) t = Some l -> x_pc l = XIdle -> head_send l = true -> xg_err (glob c) = false ->
  xs_step false n c t = Some (c', e) ->
  e = None /\ glob c' = glob c /\ nth_error (thr c') t = Some (xat l XSendChecked).
Proof.
  intros Hl Hpc Hh He H. destruct (xs_step_inv' _ _ _ _ _ _ _ Hl H) as (g' & l' & Hs & -> & Hl').
  destruct c as [g ths]; cbn [glob thr] in *. unfold head_send in Hh.
  unfold xstep in Hs. rewrite Hpc in Hs.
  xstep_destruct Hs; inversion Hs; subst; clear Hs; try discriminate; try congruence; auto.
Qed.

(* ====================================================================================== *)
(* 4. the life cycle of sessions                                                           *)
(* ====================================================================================== *)
(* Connect on a connected client: refused with "already connected", no dial *)
Theorem connect_refused n c t l ok ops s c' e :
  nth_error (thr c) t = Some l -> x_pc l = XExcl -> x_ops l = XConnect ok :: ops ->
  xg_sess (glob c) = Some s ->
  xs_step false n c t = Some (c', e) ->
  e = None /\ nth_error (thr c') t = Some (xfin l 5%N) /\
  xg_sess (glob c') = Some s /\ xg_sessions (glob c') = xg_sessions (glob c) /\
  xg_err (glob c') = xg_err (glob c) /\ rw_writer (xg_SL (glob c')) = None.
Proof.
  intros Hl Hpc Hops Hse H. destruct (xs_step_inv' _ _ _ _ _ _ _ Hl H) as (g' & l' & Hs & -> & Hl').
  destruct c as [g ths]; cbn [glob thr] in *.
  unfold xstep in Hs. rewrite Hpc, Hops, Hse in Hs.
  destruct (xg_panic g); try discriminate. inversion Hs; subst; clear Hs. cbn. auto 10.
Qed.

(* a dial happens only while there is no session, under the exclusive lock *)
Theorem new_only_without_session progs plan readers c t c' ok :
  reach false progs plan readers c ->
  xs_step false (length progs) c t = Some (c', Some (XEvNew ok)) ->
  xg_sess (glob c) = None /\ rw_writer (xg_SL (glob c)) = Some t /\
  xg_sess (glob c') = (if ok then Some (length (xg_sessions (glob c))) else None).
Proof.
  intros R H. apply reach_ginv in R.
  destruct (step_local' _ _ _ _ _ R H) as (l & g' & l1 & Hl & -> & Hl1 & [_ Lt] & Hs & _).
  destruct c as [g ths]; cbn [glob thr] in *.
  xstep_destruct Hs; inversion Hs; subst; clear Hs; cbn in Lt; intuition.
Qed.

(* after a failed dial (Connect or Reconnect) there is no session *)
Theorem failed_dial_no_session n c t c' :
  xs_step false n c t = Some (c', Some (XEvNew false)) -> xg_sess (glob c') = None.
Proof.
  intros H. apply xs_step_inv in H as (l & g' & l' & Hl & Hs & ->).
  destruct c as [g ths]; cbn [glob thr] in *.
  xstep_destruct Hs; inversion Hs; subst; clear Hs; reflexivity.
Qed.

(* Close events are exactly what the log of closes records *)
Theorem close_logged n c t c' e :
  xs_step false n c t = Some (c', e) ->
  (exists s, e = Some (XEvClose s) /\ xg_closes (glob c') = s :: xg_closes (glob c))
  \/ ((forall s, e <> Some (XEvClose s)) /\ xg_closes (glob c') = xg_closes (glob c)).
Proof.
  intros H. apply xs_step_inv in H as (l & g' & l' & Hl & Hs & ->).
  destruct c as [g ths]; cbn [glob thr] in *.
  xstep_destruct Hs; inversion Hs; subst; clear Hs; cbn; eauto; right; split; auto; intros; discriminate.
Qed.

Theorem lifecycle progs plan readers c :
  reach false progs plan readers c ->
  (* the current session exists *)
  (forall s, xg_sess (glob c) = Some s -> s < length (xg_sessions (glob c))) /\
  (* every session other than the current one has a closed connection *)
  (forall s, xg_sess (glob c) <> Some s -> closed (glob c) s = true) /\
  (* hence at most one connection is open *)
  (forall s1 s2, closed (glob c) s1 = false -> closed (glob c) s2 = false -> s1 = s2) /\
  (* the client closes each connection at most once, and only connections it created *)
  NoDup (xg_closes (glob c)) /\
  (forall s, In s (xg_closes (glob c)) -> s < length (xg_sessions (glob c)) /\ closed (glob c) s = true) /\
  (* one reader per session, in order of creation *)
  xg_spawned (glob c) = seq 0 (length (xg_sessions (glob c))).
Proof.
  intro R. apply reach_ginv in R. destruct R. repeat split; auto.
  - intros s1 s2 H1 H2.
    destruct (xg_sess (glob c)) as [s|] eqn:E.
    + destruct (Nat.eq_dec s1 s), (Nat.eq_dec s2 s); subst; auto;
        exfalso; [ rewrite gi_closed0 in H2 | rewrite gi_closed0 in H1 | rewrite gi_closed0 in H1 ]; congruence.
    + rewrite gi_closed0 in H1; congruence.
  - apply gi_closes_closed0; auto.
  - apply gi_closes_closed0; auto.
Qed.

(* ====================================================================================== *)
(* 6. lock discipline and absence of deadlock                                              *)
(* ====================================================================================== *)
Theorem lockset progs plan readers c :
  reach false progs plan readers c ->
  (* a thread inside a life-cycle critical section holds the writer side of sessionLock *)
  (forall t l, nth_error (thr c) t = Some l -> epc (x_pc l) = true -> rw_writer (xg_SL (glob c)) = Some t) /\
  (forall t l, nth_error (thr c) t = Some l -> x_pc l = XAnnounced -> rw_pending (xg_SL (glob c)) = Some t) /\
  (* hence at most one such thread *)
  (forall t1 l1 t2 l2, nth_error (thr c) t1 = Some l1 -> nth_error (thr c) t2 = Some l2 ->
                       epc (x_pc l1) = true -> epc (x_pc l2) = true -> t1 = t2) /\
  (* and conversely the lock is only ever held / awaited by such a thread *)
  (forall t, rw_writer (xg_SL (glob c)) = Some t -> exists l, nth_error (thr c) t = Some l /\ epc (x_pc l) = true) /\
  (forall t, rw_pending (xg_SL (glob c)) = Some t -> exists l, nth_error (thr c) t = Some l /\ x_pc l = XAnnounced) /\
  (* the shared side is never held across micro-steps; a pending and a holding writer exclude each other *)
  rw_readers (xg_SL (glob c)) = [] /\
  (rw_writer (xg_SL (glob c)) = None \/ rw_pending (xg_SL (glob c)) = None).
Proof.
  intro R. apply reach_ginv in R. destruct R.
  assert (W : forall t l, nth_error (thr c) t = Some l -> epc (x_pc l) = true -> rw_writer (xg_SL (glob c)) = Some t).
  { intros t l Hl He. destruct (gi_threads0 _ _ Hl) as [_ Lt]. destruct (x_pc l); try discriminate; intuition. }
  repeat split; auto.
  - intros t l Hl He. destruct (gi_threads0 _ _ Hl) as [_ Lt]. rewrite He in Lt. intuition.
  - intros t1 l1 t2 l2 H1 H2 E1 E2. pose proof (W _ _ H1 E1). pose proof (W _ _ H2 E2). congruence.
  - intros t Ht. destruct (gi_pending0 _ Ht) as (l & Hl & Ha). exists l. split; auto.
    destruct (x_pc l); try discriminate; auto.
Qed.

(* c.session, the session table and the lock itself are WRITTEN only by the holder of the writer side *)
Theorem writes_under_lock progs plan readers c t c' e :
  reach false progs plan readers c ->
  xs_step false (length progs) c t = Some (c', e) ->
  xg_sess (glob c') <> xg_sess (glob c) \/ xg_sessions (glob c') <> xg_sessions (glob c) ->
  rw_writer (xg_SL (glob c)) = Some t.
Proof.
  intros R H Hne. apply reach_ginv in R.
  destruct (step_local' _ _ _ _ _ R H) as (l & g' & l1 & Hl & -> & Hl1 & [_ Lt] & Hs & _).
  destruct c as [g ths]; cbn [glob thr] in *.
  xstep_destruct Hs; inversion Hs; subst; clear Hs; cbn in Lt, Hne; try solve [intuition congruence].
Qed.

(* c.session is READ (by Send/SendRaw and by the reader's report) only while no writer holds or awaits the lock *)
Theorem reads_outside_writer n c t l c' e :
  nth_error (thr c) t = Some l ->
  x_pc l = XSendChecked \/ (exists s, x_pc l = XBgReport s) ->
  xs_step false n c t = Some (c', e) ->
  rw_writer (xg_SL (glob c)) = None /\ rw_pending (xg_SL (glob c)) = None.
Proof.
  intros Hl Hc H. destruct (xs_step_inv' _ _ _ _ _ _ _ Hl H) as (g' & l' & Hs & -> & Hl').
  destruct c as [g ths]; cbn [glob thr] in *.
  unfold xstep in Hs. destruct Hc as [Hpc | (s & Hpc)]; rewrite Hpc in Hs.
  - xstep_destruct Hs; match goal with H : rlock _ _ = Some _ |- _ => apply rlock_some in H; exact H end.
  - xstep_destruct Hs; match goal with H : rlock _ _ = Some _ |- _ => apply rlock_some in H; exact H end.
Qed.

(* ---- blocked threads ---- *)
(* why a micro-step can be blocked at all *)
Lemma blocked_char n g t l :
  xg_panic g = false -> rw_readers (xg_SL g) = [] -> linv n g t l -> xdone l = false ->
  xstep false n g t l = None ->
  ((x_pc l = XIdle \/ x_pc l = XSendChecked) /\ (rw_writer (xg_SL g) <> None \/ rw_pending (xg_SL g) <> None))
  \/ (exists s, x_pc l = XBgReport s /\ (rw_writer (xg_SL g) <> None \/ rw_pending (xg_SL g) <> None))
  \/ (exists s, x_pc l = XBgListening s /\ s = t - n /\ s < length (xg_sessions g) /\
                closed g s = false /\ xs_ends_alone (sess_get g s) = false).
Proof.
  intros Hp Hr [_ Lt] Hd Hs. unfold xstep in Hs. rewrite Hp in Hs. unfold xdone in Hd.
  assert (RL : forall t, rlock (xg_SL g) t = None -> rw_writer (xg_SL g) <> None \/ rw_pending (xg_SL g) <> None).
  { intros t0. unfold rlock. destruct (rw_writer (xg_SL g)), (rw_pending (xg_SL g)); try discriminate; intros _; first [left; discriminate | right; discriminate]. }
  destruct (x_pc l) eqn:Hpc; try discriminate; cbn in Lt; unfold head_send, head_write, head_life, head_disc, head_dial in *.
  - (* XIdle *) left. split; auto.
    destruct (x_ops l) as [|[] ?]; try discriminate.
    + destruct (xg_err g); discriminate.
    + destruct (xg_err g); discriminate.
    + unfold wannounce in Hs. destruct (rw_writer (xg_SL g)), (rw_pending (xg_SL g)); try discriminate; first [left; discriminate | right; discriminate].
    + unfold wannounce in Hs. destruct (rw_writer (xg_SL g)), (rw_pending (xg_SL g)); try discriminate; first [left; discriminate | right; discriminate].
    + unfold wannounce in Hs. destruct (rw_writer (xg_SL g)), (rw_pending (xg_SL g)); try discriminate; first [left; discriminate | right; discriminate].
  - (* XSendChecked *) left. split; auto.
    destruct (rlock (xg_SL g) t) eqn:E; [destruct (xg_sess g); discriminate | eauto].
  - (* XSendHave *) exfalso. destruct (xs_closed (sess_get g s)); try discriminate. destruct (x_ops l) as [|[[?|] ?|? ?|?| |?] ?]; discriminate.
  - (* XSendWrite *) exfalso. destruct (x_ops l) as [|[[?|] ?|? ?|?| |?] ?]; discriminate.
  - (* XAnnounced *) exfalso. destruct Lt as [Hpe _]. unfold wacquire in Hs. rewrite Hpe, Hr, Nat.eqb_refl in Hs. discriminate.
  - (* XExcl *) exfalso. destruct Lt as [_ Hh]. destruct (x_ops l) as [|[] ?]; try discriminate; destruct (xg_sess g); try discriminate.
    + destruct (is_reconnect l); discriminate.
    + destruct (is_reconnect l); discriminate.
  - (* XDiscClosedQ *) exfalso. destruct (xs_closed (sess_get g s)); try discriminate; destruct (is_reconnect l); discriminate.
  - (* XDiscClose *) exfalso. destruct (is_reconnect l); discriminate.
  - (* XBgListening *) right. right. exists s. destruct Lt. unfold closed.
    destruct (xs_closed (sess_get g s)), (xs_ends_alone (sess_get g s)); cbn in Hs; try (destruct (xs_lerr (sess_get g s)); discriminate).
    auto.
  - (* XBgReport *) right. left. exists s. split; auto.
    destruct (rlock (xg_SL g) t) eqn:E; eauto.
    destruct (xg_sess g); try discriminate. destruct (Nat.eqb s n0); discriminate.
Qed.

(* whoever holds or awaits the exclusive lock can move *)
Lemma holder_enabled n c t :
  ginv n c -> rw_writer (xg_SL (glob c)) = Some t \/ rw_pending (xg_SL (glob c)) = Some t ->
  xs_step false n c t <> None.
Proof.
  intros I H.
  assert (exists l, nth_error (thr c) t = Some l /\ (epc (x_pc l) = true \/ apc (x_pc l) = true)) as (l & Hl & Hpc).
  { destruct H as [H|H]; [destruct (gi_writer _ _ I _ H) as (l & ? & ?) | destruct (gi_pending _ _ I _ H) as (l & ? & ?)]; eauto. }
  intro Hs. unfold xs_step, step in Hs. rewrite Hl in Hs.
  destruct (xstep false n (glob c) t l) as [[[? ?] ?]|] eqn:Hx; try discriminate.
  assert (Hd : xdone l = false). { unfold xdone. destruct (x_pc l); cbn in Hpc; destruct Hpc; try discriminate; auto. }
  destruct (blocked_char _ _ _ _ (gi_panic _ _ I) (gi_readers _ _ I) (gi_threads _ _ I _ _ Hl) Hd Hx)
    as [([E|E] & _) | [(s & E & _) | (s & E & _)]]; rewrite E in Hpc; cbn in Hpc; destruct Hpc; discriminate.
Qed.

Lemma deadlocked_all_blocked p n (c : xconfig) :
  xs_deadlocked p n c = true -> forall t l, nth_error (thr c) t = Some l -> xstep p n (glob c) t l = None.
Proof.
  unfold xs_deadlocked, deadlocked. intros H t l Hl.
  apply andb_prop in H as [_ H]. apply negb_true_iff in H.
  assert (Ht : In t (tids xshared xlocal c)).
  { unfold tids. apply in_seq. split; [lia|]. cbn. apply nth_error_Some. congruence. }
  destruct (xstep p n (glob c) t l) as [[[g' l'] e]|] eqn:Hx; auto.
  exfalso. rewrite (proj2 (existsb_exists _ _)) in H; [discriminate|].
  exists t. split; auto. unfold enabled, step. rewrite Hl, Hx. reflexivity.
Qed.

(* NO DEADLOCK: if nobody can move, then every unfinished thread is the reader of the CURRENT
   session, blocked in Listen on a healthy connection (open, peer alive): the legitimate
   quiescent state of a connected, idle client.  In particular every worker has finished. *)
Theorem no_deadlock progs plan readers c :
  reach false progs plan readers c ->
  xs_deadlocked false (length progs) c = true ->
  forall t l, nth_error (thr c) t = Some l -> xdone l = false ->
    length progs <= t /\
    exists s, x_pc l = XBgListening s /\ s = t - length progs /\ xg_sess (glob c) = Some s /\
              closed (glob c) s = false /\ xs_ends_alone (sess_get (glob c) s) = false.
Proof.
  intros R D. apply reach_ginv in R. pose proof (deadlocked_all_blocked _ _ _ D) as B.
  assert (Hfree : rw_writer (xg_SL (glob c)) = None /\ rw_pending (xg_SL (glob c)) = None).
  { split.
    - destruct (rw_writer (xg_SL (glob c))) as [t0|] eqn:E; auto. exfalso.
      apply (holder_enabled _ _ t0 R); auto. destruct (gi_writer _ _ R _ E) as (l0 & Hl0 & _).
      unfold xs_step, step. rewrite Hl0, (B _ _ Hl0). reflexivity.
    - destruct (rw_pending (xg_SL (glob c))) as [t0|] eqn:E; auto. exfalso.
      apply (holder_enabled _ _ t0 R); auto. destruct (gi_pending _ _ R _ E) as (l0 & Hl0 & _).
      unfold xs_step, step. rewrite Hl0, (B _ _ Hl0). reflexivity. }
  destruct Hfree as [Hw Hp].
  intros t l Hl Hd.
  destruct (blocked_char _ _ _ _ (gi_panic _ _ R) (gi_readers _ _ R) (gi_threads _ _ R _ _ Hl) Hd (B _ _ Hl))
    as [(_ & [H|H]) | [(s & _ & [H|H]) | (s & Hpc & Hs & Hlt & Hc & Ha)]]; try congruence.
  destruct (gi_threads _ _ R _ _ Hl) as [Hk _]. rewrite Hpc in Hk. cbn in Hk.
  split.
  - destruct (Nat.lt_ge_cases t (length progs)) as [Hlt'|]; auto. apply Hk in Hlt'. discriminate.
  - exists s. repeat split; auto.
    destruct (xg_sess (glob c)) as [s'|] eqn:E.
    + destruct (Nat.eq_dec s' s); [congruence|]. rewrite (gi_closed _ _ R s) in Hc; congruence.
    + rewrite (gi_closed _ _ R s) in Hc; congruence.
Qed.

(* a worker is never blocked for good: it can only be blocked at the start of a life-cycle call (XIdle)
   or where Send/SendRaw reads the session (XSendChecked), in both cases by the exclusive lock, and then the thread holding or awaiting that lock is another thread that can move *)
Theorem worker_blocked_only_by_lock progs plan readers c t l :
  reach false progs plan readers c ->
  t < length progs -> nth_error (thr c) t = Some l -> xdone l = false ->
  xs_step false (length progs) c t = None ->
  (x_pc l = XIdle \/ x_pc l = XSendChecked) /\
  exists t0, t0 <> t /\ (rw_writer (xg_SL (glob c)) = Some t0 \/ rw_pending (xg_SL (glob c)) = Some t0) /\
             xs_step false (length progs) c t0 <> None.
Proof.
  intros R Hlt Hl Hd Hs. apply reach_ginv in R.
  assert (Hx : xstep false (length progs) (glob c) t l = None).
  { unfold xs_step, step in Hs. rewrite Hl in Hs. destruct (xstep false (length progs) (glob c) t l) as [[[? ?] ?]|]; auto; discriminate. }
  destruct (gi_threads _ _ R _ _ Hl) as [Hk _].
  destruct (blocked_char _ _ _ _ (gi_panic _ _ R) (gi_readers _ _ R) (gi_threads _ _ R _ _ Hl) Hd Hx)
    as [(Hpc & Hb) | [(s & Hpc & _) | (s & Hpc & _)]].
  - split; auto.
    assert (exists t0, rw_writer (xg_SL (glob c)) = Some t0 \/ rw_pending (xg_SL (glob c)) = Some t0) as (t0 & Ht0).
    { destruct Hb as [Hb|Hb]; [destruct (rw_writer (xg_SL (glob c))) as [t0|] | destruct (rw_pending (xg_SL (glob c))) as [t0|]]; try congruence; eauto. }
    exists t0. repeat split; auto.
    + intros ->. apply (holder_enabled _ _ t R); auto.
    + apply holder_enabled; auto.
  - apply Hk in Hlt. rewrite Hpc in Hlt. discriminate.
  - apply Hk in Hlt. rewrite Hpc in Hlt. discriminate.
Qed.

(* ====================================================================================== *)
(* 1'. the visible trace of every thread parses into its calls                             *)
(* ====================================================================================== *)
Definition evl (e : option xevent) : list xevent := match e with Some x => [x] | None => [] end.

(* the calls already made by the call in progress, as a function of the program counter *)
Definition cur_ok (pc : xpc) (ops : list xop) (cur : list xevent) : Prop :=
  match pc with
  | XSendWrite s | XDiscClose s => cur = [XEvClosedQ s false]
  | XDial => match ops with XReconnect _ :: _ => disc_trace_ok cur = true | _ => cur = [] end
  | XSetErr b => exists d, cur = d ++ [XEvNew b] /\ disc_trace_ok d = true
  | _ => cur = []
  end.

Definition trace_summary (l l1 : xlocal) (e : option xevent) (cur : list xevent) : Prop :=
  (x_ops l1 = x_ops l /\ x_rets l1 = x_rets l /\ wpc (x_pc l1) = true /\ cur_ok (x_pc l1) (x_ops l) (cur ++ evl e))
  \/ (exists o ops r, x_ops l = o :: ops /\ l1 = xfin l r /\ call_trace_ok o r (cur ++ evl e) = true).

Lemma reconnect_trace ok b r cur :
  disc_trace_ok cur = true -> call_trace_ok (XReconnect ok) r (cur ++ [XEvNew b]) = dial_ret_ok ok b r.
Proof.
  destruct cur as [|[] [|[] [|? ?]]]; cbn; try discriminate; auto;
    repeat match goal with r : bool |- _ => destruct r end; cbn; try discriminate; auto.
  all: intros ->; reflexivity.
Qed.

Lemma step_trace n c t l g' l1 e cur :
  ginv n c -> nth_error (thr c) t = Some l -> xstep false n (glob c) t l = Some (g', l1, e) ->
  wpc (x_pc l) = true -> cur_ok (x_pc l) (x_ops l) cur -> trace_summary l l1 e cur.
Proof.
  intros I Hl Hs Hw Hc. destruct c as [g ths]; cbn [glob thr] in *.
  pose proof (gi_threads _ _ I _ _ Hl) as [Hk Lt]. clear I.
  unfold cur_ok in Hc.
  xstep_destruct Hs; inversion Hs; subst; clear Hs; try discriminate Hw.
  all: cbn in Lt; unfold head_send, head_write, head_life, head_disc, head_dial, is_reconnect, dial_flag in *.
  all: repeat match goal with H : _ /\ _ |- _ => destruct H end.
  all: lazymatch goal with H : x_ops _ = _ |- _ => idtac | _ => destruct (x_ops l) as [|[] ?] eqn:Hops end.
  all: match goal with H : x_ops _ = _ |- _ => try rewrite H in * |- end.
  all: try match goal with enc : option bytes |- _ => destruct enc end.
  all: cbn in * |-.
  all: try discriminate.
  all: subst.
  all: try match goal with H : pair _ _ = pair _ _ |- _ => inversion H; subst; try clear H end.
  all: unfold trace_summary.
  all: try solve [left; repeat split; try reflexivity; unfold cur_ok; cbn [xat x_pc x_ops x_rets];
                  repeat match goal with H : x_ops _ = _ |- _ => rewrite H end; cbn; rewrite ?Nat.eqb_refl; reflexivity].
  all: try solve [right; do 3 eexists; split; [eassumption | split; [reflexivity |]];
                  cbn; rewrite ?Nat.eqb_refl, ?bytes_eqb_refl; cbn;
                  repeat match goal with |- context [if ?b then _ else _] => destruct b end; reflexivity].
  all: try solve [right; do 3 eexists; split; [eassumption | split; [reflexivity |]];
                  cbn [evl]; rewrite reconnect_trace by assumption; reflexivity].
  (* Reconnect: the dial step goes on to setErr, the setErr step finishes the call *)
  all: try solve [left; repeat split; try reflexivity; unfold cur_ok; cbn [xat x_pc x_ops x_rets evl];
                  eexists; split; [reflexivity | assumption]].
  all: try solve [right; do 3 eexists; split; [eassumption | split; [reflexivity |]];
                  cbn [evl]; rewrite app_nil_r;
                  match goal with H : exists d, _ = d ++ _ /\ _ |- _ => destruct H as (d & -> & Hd) end;
                  rewrite reconnect_trace by assumption;
                  repeat match goal with b : bool |- _ => destruct b end; cbn in *; try discriminate; try congruence; reflexivity].
  all: right; do 3 eexists; split; [eassumption | split; [reflexivity |]];
       cbn; rewrite Nat.eqb_refl, bytes_eqb_refl; destruct b, (xs_closed (sess_get g s)); reflexivity.
Qed.

(* reader threads *)
Lemma step_reader n g t l g' l1 e :
  linv n g t l -> xstep false n g t l = Some (g', l1, e) -> wpc (x_pc l) = false ->
  wpc (x_pc l1) = false /\
  ((e = None /\ forall evs, reader_trace_ok (t - n) (x_pc l) evs = true -> reader_trace_ok (t - n) (x_pc l1) evs = true)
   \/ (e = Some (XEvListen (t - n)) /\ reader_trace_ok (t - n) (x_pc l) [] = true /\
       reader_trace_ok (t - n) (x_pc l1) [XEvListen (t - n)] = true)).
Proof.
  intros [Hk Lt] Hs Hw.
  xstep_destruct Hs; inversion Hs; subst; clear Hs; try discriminate Hw; cbn in Lt.
  all: repeat match goal with H : _ /\ _ |- _ => destruct H end; subst.
  all: split; [reflexivity|].
  all: try solve [left; split; [reflexivity|]; intros [|[] [|? ?]]; cbn; auto].
  right. cbn. rewrite Nat.eqb_refl. auto.
Qed.

Inductive calls_ok : list xop -> list xret -> list xevent -> Prop :=
| calls_nil : calls_ok [] [] []
| calls_snoc done rets evs o r ev :
    calls_ok done rets evs -> call_trace_ok o r ev = true -> calls_ok (done ++ [o]) (rets ++ [r]) (evs ++ ev).

Definition tinv (n : nat) (progs : list (list xop)) (c : xconfig) (tr : list (nat * xevent)) : Prop :=
  forall t l, nth_error (thr c) t = Some l ->
    (wpc (x_pc l) = true -> forall p, nth_error progs t = Some p ->
        exists done evs cur, p = done ++ x_ops l /\ calls_ok done (x_rets l) evs /\
                             events_of t tr = evs ++ cur /\ cur_ok (x_pc l) (x_ops l) cur)
    /\ (wpc (x_pc l) = false -> reader_trace_ok (t - n) (x_pc l) (events_of t tr) = true).

Definition tev (t : nat) (e : option xevent) : list (nat * xevent) := match e with Some x => [(t, x)] | None => [] end.

Lemma events_of_app t a b : events_of t (a ++ b) = events_of t a ++ events_of t b.
Proof. unfold events_of. now rewrite filter_app, map_app. Qed.

Lemma events_of_tev t t' e : events_of t' (tev t e) = if Nat.eqb t t' then evl e else [].
Proof. destruct e; cbn; [destruct (Nat.eqb t t')|destruct (Nat.eqb t t')]; reflexivity. Qed.

Lemma tinv_step n progs c tr t c' e :
  ginv n c -> tinv n progs c tr -> xs_step false n c t = Some (c', e) -> tinv n progs c' (tr ++ tev t e).
Proof.
  intros I T H. pose proof (step_preserves _ _ _ _ _ I H) as I'.
  destruct (step_local' _ _ _ _ _ I H) as (l & g' & l1 & Hl & -> & Hl1 & Lt & Hs & _).
  intros t' l' Hl'. rewrite events_of_app, events_of_tev.
  destruct (Nat.eqb_spec t t') as [<-|Hne].
  - rewrite Hl1 in Hl'. inversion Hl'; subst l'. clear Hl'.
    destruct (T _ _ Hl) as [Tw Tr].
    assert (Hww : wpc (x_pc l1) = wpc (x_pc l)).
    { destruct (gi_threads _ _ I' _ _ Hl1) as [K1 _]. destruct Lt as [K _].
      destruct (wpc (x_pc l1)), (wpc (x_pc l)); auto.
      - symmetry. apply K, K1. reflexivity.
      - apply K1, K. reflexivity. }
    rewrite Hww. split.
    + intros Hw p Hp. destruct (Tw Hw p Hp) as (done & evs & cur & Hpd & Hcalls & Hev & Hcur).
      destruct (step_trace _ _ _ _ _ _ _ _ I Hl Hs Hw Hcur) as [(Ho & Hr & _ & Hc') | (o & ops & r & Hops & -> & Hc')].
      * exists done, evs, (cur ++ evl e). rewrite Ho, Hr, Hev. repeat split; auto. now rewrite app_assoc.
      * exists (done ++ [o]), (evs ++ (cur ++ evl e)), []. cbn [xfin x_ops x_rets x_pc]. rewrite Hops in *. cbn [tl].
        repeat split.
        -- now rewrite <- app_assoc.
        -- constructor; auto.
        -- now rewrite Hev, app_nil_r, app_assoc.
    + intros Hw.
      destruct (step_reader _ _ _ _ _ _ _ Lt Hs Hw) as [_ [(-> & Hk) | (-> & H0 & H1)]].
      * cbn. rewrite app_nil_r. apply Hk, Tr, Hw.
      * cbn. pose proof (Tr Hw) as Tr'. destruct (events_of t tr); auto.
        exfalso. destruct (x_pc l); cbn in H0; discriminate.
  - cbn [thr] in Hl'. rewrite nth_error_set_nth_neq in Hl' by assumption. rewrite app_nil_r. apply T; auto.
Qed.

Lemma tinv_init progs plan readers : tinv (length progs) progs (xinit progs plan readers) [].
Proof.
  intros t l Hl. apply xinit_thread in Hl as [(_ & p' & Hp' & ->) | (Hge & ->)]; cbn; split; try discriminate; auto.
  intros _ p Hp. rewrite Hp in Hp'. inversion Hp'; subst. exists [], [], []. repeat split; constructor.
Qed.

Lemma xs_exec_snoc p n (c : xconfig) sch t :
  xs_exec p n c (sch ++ [t]) =
  let '(c1, tr1) := xs_exec p n c sch in
  match xs_step p n c1 t with
  | None => (c1, tr1)
  | Some (c2, e) => (c2, tr1 ++ tev t e)
  end.
Proof.
  unfold xs_exec, xs_step. revert c. induction sch as [|t0 r IH]; intros c; cbn.
  - destruct (step xshared xlocal xevent (xstep p n) c t) as [[c2 e]|]; auto.
  - destruct (step xshared xlocal xevent (xstep p n) c t0) as [[c' e0]|]; auto.
    rewrite IH. destruct (exec xshared xlocal xevent (xstep p n) c' r) as [c1 tr1].
    destruct (step xshared xlocal xevent (xstep p n) c1 t) as [[c2 e]|]; auto.
    destruct e0; reflexivity.
Qed.

Lemma exec_tinv progs plan readers sch :
  let r := xs_exec false (length progs) (xinit progs plan readers) sch in
  ginv (length progs) (fst r) /\ tinv (length progs) progs (fst r) (snd r).
Proof.
  induction sch as [|t sch IH] using rev_ind.
  - cbn. split; [apply ginv_init | apply tinv_init].
  - cbn zeta in *. rewrite xs_exec_snoc.
    destruct (xs_exec false (length progs) (xinit progs plan readers) sch) as [c1 tr1]. cbn [fst snd] in IH.
    destruct IH as [I T].
    destruct (xs_step false (length progs) c1 t) as [[c2 e]|] eqn:Hs; cbn [fst snd]; auto.
    split; [eapply step_preserves | eapply tinv_step]; eauto.
Qed.

(* from the relational parse to the executable checker *)
Lemma call_trace_len o r ev : call_trace_ok o r ev = true -> length ev <= 3.
Proof.
  destruct ev as [|? [|? [|? [|? ?]]]]; cbn [length]; try lia.
  intro H. exfalso. revert H.
  destruct o as [[?|] ?|? ?|?| |?]; cbn.
  all: repeat match goal with |- context [match ?x with _ => _ end] => destruct x; cbn; try discriminate end.
  all: rewrite andb_false_r; discriminate.
Qed.

Lemma thread_trace_cons o r ev ops rets rest :
  call_trace_ok o r ev = true -> thread_trace_ok ops rets rest = true ->
  thread_trace_ok (o :: ops) (r :: rets) (ev ++ rest) = true.
Proof.
  intros Hc Hr. pose proof (call_trace_len _ _ _ Hc) as Hlen. cbn [thread_trace_ok].
  apply existsb_exists. exists (length ev). split.
  - cbn. lia.
  - rewrite firstn_app, Nat.sub_diag, firstn_all, app_nil_r. cbn [firstn].
    rewrite skipn_app, Nat.sub_diag, skipn_all. cbn. now rewrite Hc, Hr.
Qed.

Lemma calls_ok_checker done rets evs :
  calls_ok done rets evs ->
  forall ops' rets' evs', thread_trace_ok ops' rets' evs' = true ->
    thread_trace_ok (done ++ ops') (rets ++ rets') (evs ++ evs') = true.
Proof.
  induction 1 as [|done rets evs o r ev Hc IH Ho]; intros ops' rets' evs' H'; auto.
  rewrite <- !app_assoc. cbn [app]. apply IH. apply thread_trace_cons; auto.
Qed.

Lemma partial_nil ops : thread_trace_ok ops [] [] = true.
Proof. destruct ops as [|[[?|] ?|? ?|?| |?] ?]; reflexivity. Qed.

Lemma cur_ok_partial n g t l cur :
  linv n g t l -> cur_ok (x_pc l) (x_ops l) cur -> thread_trace_ok (x_ops l) [] cur = true.
Proof.
  intros [_ Lt] Hc. unfold cur_ok in Hc.
  unfold head_send, head_write, head_life, head_disc, head_dial in Lt.
  destruct (x_pc l); cbn in Lt, Hc; try (subst cur; apply partial_nil).
  - destruct Lt as [Lt _]. subst cur. destruct (x_ops l) as [|[[?|] ?|? ?|?| |?] ?]; try discriminate; reflexivity.
  - destruct Lt as (_ & Lt & _). subst cur. destruct (x_ops l) as [|[[?|] ?|? ?|?| |?] ?]; try discriminate; reflexivity.
  - destruct Lt as (_ & Lt & _). destruct (x_ops l) as [|[[?|] ?|? ?|?| |?] ?]; try discriminate; try (subst cur; reflexivity).
    cbn. destruct cur as [|[] [|[] [|? ?]]]; cbn in *; try discriminate; auto;
      repeat match goal with r : bool |- _ => destruct r end; cbn in *; try discriminate; auto.
  - destruct Lt as (_ & Lt & _). destruct Hc as (d & -> & Hd). unfold is_reconnect in Lt.
    destruct (x_ops l) as [|[[?|] ?|? ?|?| |?] ?]; try discriminate.
    destruct d as [|[] [|[] [|? ?]]]; cbn in *; try discriminate; auto;
      repeat match goal with r : bool |- _ => destruct r end; cbn in *; try discriminate; auto.
Qed.

(* THE TRACE THEOREM: after any schedule, the calls each thread made on its environment (the factory
   and the connections) parse into its finished calls, each consistent with its result:
   a Send/SendRaw with result 0 or 4 asked Closed() once and wrote once, on the same session, exactly
   its bytes; with result 1, 2, 3 it wrote nothing; Connect dials at most once; Disconnect/Reconnect
   close the old session at most once; every reader listens once, on its own session *)
Theorem trace_parses progs plan readers sch :
  let r := xs_exec false (length progs) (xinit progs plan readers) sch in
  trace_ok progs (fst r) (snd r) = true.
Proof.
  cbn zeta. destruct (exec_tinv progs plan readers sch) as [I T].
  set (c := fst (xs_exec false (length progs) (xinit progs plan readers) sch)) in *.
  set (tr := snd (xs_exec false (length progs) (xinit progs plan readers) sch)) in *.
  unfold trace_ok. apply forallb_forall. intros t Ht. apply in_seq in Ht.
  destruct (nth_error (thr c) t) as [l|] eqn:Hl; [|apply nth_error_None in Hl; lia].
  destruct (T _ _ Hl) as [Tw Tr]. pose proof (gi_threads _ _ I _ _ Hl) as Lt. destruct (Lt) as [K _].
  destruct (nth_error progs t) as [p|] eqn:Hp.
  - assert (Hw : wpc (x_pc l) = true). { apply K. apply nth_error_Some. congruence. }
    destruct (Tw Hw p eq_refl) as (done & evs & cur & -> & Hcalls & -> & Hcur).
    rewrite <- (app_nil_r (x_rets l)). apply calls_ok_checker; auto. eapply cur_ok_partial; eauto.
  - apply Tr. apply nth_error_None in Hp. destruct (wpc (x_pc l)); auto. assert (t < length progs) by (apply K; reflexivity). lia.
Qed.

(* ====================================================================================== *)
(* 7. non-vacuity: concrete runs of the repaired client                                    *)
(* ====================================================================================== *)
Definition rr (k : nat) (ts : list nat) : list nat := concat (repeat ts k).
Definition outcome (r : xconfig * list (nat * xevent)) :=
  (map (fun l => (x_pc l, x_rets l)) (thr (fst r)), xg_sess (glob (fst r)), xg_err (glob (fst r)),
   xg_frames (glob (fst r)), xg_closes (glob (fst r)), snd r).

(* one worker, a whole life: two successful sends (one frame each, exactly the bytes), an encode
   error (Closed() asked, nothing written), Disconnect (one Close), a send without session (1, no
   event); everybody finished, no deadlock *)
Definition ex1_progs := [[XConnect true; XSend (Some [x01; x02]) true; XSendRaw [x03] true; XSend None true;
                          XDisconnect; XSendRaw [x04] true]].
Example ex1 :
  let r := xs_exec false 1 (xinit ex1_progs [] 1) (rr 30 [0; 1]) in
  outcome r =
  ([(XIdle, [0; 0; 0; 3; 0; 1]%N); (XBgDone, [])], None, false,
   [(0, 0, [x03]); (0, 0, [x01; x02])], [0],
   [(0, XEvNew true); (1, XEvListen 0); (0, XEvClosedQ 0 false); (0, XEvWrite 0 [x01; x02]);
    (0, XEvClosedQ 0 false); (0, XEvWrite 0 [x03]); (0, XEvClosedQ 0 false);
    (0, XEvClosedQ 0 false); (0, XEvClose 0)]) /\
  all_done _ _ xdone (fst r) = true /\ xs_deadlocked false 1 (fst r) = false /\
  frames_account ex1_progs (fst r) = true.
Proof. vm_compute. repeat split. Qed.

(* the legitimate quiescent state: connected, idle, the reader blocked in Listen on the healthy
   current session: [xs_deadlocked] holds and [no_deadlock] describes exactly this *)
Example ex2 :
  let r := xs_exec false 1 (xinit [[XConnect true]] [] 1) (rr 5 [0; 1]) in
  outcome r = ([(XIdle, [0%N]); (XBgListening 0, [])], Some 0, false, [], [], [(0, XEvNew true); (1, XEvListen 0)]) /\
  xs_deadlocked false 1 (fst r) = true.
Proof. vm_compute. repeat split. Qed.

(* the reader of the CURRENT session fails (peer failure, Listen returns an error): the error is
   sticky (Send = 2, nothing on the wire), a successful Reconnect clears it, the next Send goes out
   on the new session; session 0 is closed exactly once *)
Definition ex3_progs := [[XConnect true; XSendRaw [x01] true; XReconnect true; XSendRaw [x02] true]].
Example ex3 :
  let r := xs_exec false 1 (xinit ex3_progs [(true, true); (false, false)] 2) ([0;0;0;0; 1;1;1;1] ++ rr 12 [0; 1; 2]) in
  outcome r =
  ([(XIdle, [0; 2; 0; 0]%N); (XBgDone, []); (XBgListening 1, [])], Some 1, false, [(1, 0, [x02])], [0],
   [(0, XEvNew true); (1, XEvListen 0); (0, XEvClosedQ 0 false); (0, XEvClose 0); (0, XEvNew true);
    (2, XEvListen 1); (0, XEvClosedQ 1 false); (0, XEvWrite 1 [x02])]).
Proof. vm_compute. reflexivity. Qed.

(* two workers: interleaved sends on one session (each frame once), a write error (4: one failed
   Write), a failed Reconnect (6: no session, error set), Connect (0), Connect again (5: refused).
   Note: Connect does NOT clear the error a failed Reconnect left behind (as in the Go code). *)
Definition ex4_progs := [[XConnect true; XSendRaw [x01] true; XSendRaw [x03] false];
                         [XSendRaw [x02] true; XReconnect false; XConnect true; XConnect true]].
Definition ex4_sched : list nat := [0;0;0;0] ++ rr 3 [0; 1; 2; 3] ++ [0;0;0] ++ rr 20 [0; 1; 2; 3].
Example ex4 :
  let r := xs_exec false 2 (xinit ex4_progs [] 2) ex4_sched in
  outcome r =
  ([(XIdle, [0; 0; 4]%N); (XIdle, [0; 6; 0; 5]%N); (XBgDone, []); (XBgListening 1, [])], Some 1, true,
   [(0, 0, [x03]); (0, 1, [x02]); (0, 0, [x01])], [0],
   [(0, XEvNew true); (2, XEvListen 0); (0, XEvClosedQ 0 false); (1, XEvClosedQ 0 false);
    (0, XEvWrite 0 [x01]); (0, XEvClosedQ 0 false); (1, XEvWrite 0 [x02]); (0, XEvWrite 0 [x03]);
    (1, XEvClosedQ 0 false); (1, XEvClose 0); (1, XEvNew false); (1, XEvNew true); (3, XEvListen 1)]) /\
  frames_account ex4_progs (fst r) = true /\ xs_deadlocked false 2 (fst r) = true.
Proof. vm_compute. repeat split. Qed.

(* the same programs, plain round robin: the third Send of thread 0 passes the error check, is
   blocked at XSendChecked by thread 1's failing Reconnect, and then finds no session: result 1
   without any call on the environment (the window between getErr() and Session() in the Go code) *)
Example ex4' :
  let r := xs_exec false 2 (xinit ex4_progs [] 2) ([0;0;0;0] ++ rr 20 [0; 1; 2; 3]) in
  outcome r =
  ([(XIdle, [0; 0; 1]%N); (XIdle, [0; 6; 0; 5]%N); (XBgDone, []); (XBgListening 1, [])], Some 1, true,
   [(0, 1, [x02]); (0, 0, [x01])], [0],
   [(0, XEvNew true); (2, XEvListen 0); (0, XEvClosedQ 0 false); (1, XEvClosedQ 0 false);
    (0, XEvWrite 0 [x01]); (1, XEvWrite 0 [x02]); (1, XEvClosedQ 0 false); (1, XEvClose 0);
    (1, XEvNew false); (1, XEvNew true); (3, XEvListen 1)]) /\
  frames_account ex4_progs (fst r) = true /\ trace_ok ex4_progs (fst r) (snd r) = true.
Proof. vm_compute. repeat split. Qed.

(* a worker blocked where Send reads the session (XSendChecked) by the exclusive lock; the holder can move *)
Example ex5 :
  let c := fst (xs_exec false 2 (xinit [[XConnect true]; [XSendRaw [x01] true]] [] 1) [0; 0; 1]) in
  map x_pc (firstn 2 (thr c)) = [XExcl; XSendChecked] /\
  xs_step false 2 c 1 = None /\ rw_writer (xg_SL (glob c)) = Some 0 /\ xs_step false 2 c 0 <> None.
Proof. vm_compute. repeat split. discriminate. Qed.

(* the trace checker accepts these runs ... *)
Example ex_trace_ok :
  (let r := xs_exec false 1 (xinit ex1_progs [] 1) (rr 30 [0; 1]) in trace_ok ex1_progs (fst r) (snd r)) = true /\
  (let r := xs_exec false 1 (xinit ex3_progs [(true, true); (false, false)] 2) ([0;0;0;0; 1;1;1;1] ++ rr 12 [0; 1; 2]) in
   trace_ok ex3_progs (fst r) (snd r)) = true /\
  (let r := xs_exec false 2 (xinit ex4_progs [] 2) ex4_sched in trace_ok ex4_progs (fst r) (snd r)) = true /\
  (* also in the middle of calls *)
  (let r := xs_exec false 2 (xinit ex4_progs [] 2) ([0;0;0;0] ++ rr 2 [0; 1; 2; 3]) in
   (trace_ok ex4_progs (fst r) (snd r), map x_pc (thr (fst r)))) = (true, [XSendHave 0; XSendHave 0; XBgListening 0; XBgNotSpawned]) /\
  (let r := xs_exec false 2 (xinit ex4_progs [] 2) ([0;0;0;0] ++ rr 6 [0; 1; 2; 3]) in
   (trace_ok ex4_progs (fst r) (snd r), map x_pc (thr (fst r)))) = (true, [XSendChecked; XExcl; XBgListening 0; XBgNotSpawned]).
Proof. vm_compute. repeat split. Qed.

(* ... and is not trivially true: a duplicated frame, a frame with other bytes, a frame on another
   session than the one asked about, a Write by a call that reports "no session", a second Close *)
Example ex_trace_rejects :
  thread_trace_ok [XSendRaw [x01] true] [0%N] [XEvClosedQ 0 false; XEvWrite 0 [x01]; XEvWrite 0 [x01]] = false /\
  thread_trace_ok [XSendRaw [x01] true] [0%N] [XEvClosedQ 0 false; XEvWrite 0 [x02]] = false /\
  thread_trace_ok [XSendRaw [x01] true] [0%N] [XEvClosedQ 0 false; XEvWrite 1 [x01]] = false /\
  thread_trace_ok [XSendRaw [x01] true] [1%N] [XEvClosedQ 0 false; XEvWrite 0 [x01]] = false /\
  thread_trace_ok [XSendRaw [x01] true] [0%N] [XEvClosedQ 0 false] = false /\
  thread_trace_ok [XSend None true] [3%N] [XEvClosedQ 0 false; XEvWrite 0 []] = false /\
  thread_trace_ok [XDisconnect] [0%N] [XEvClosedQ 0 false; XEvClose 0; XEvClose 0] = false /\
  thread_trace_ok [XConnect true] [5%N] [XEvNew true] = false /\
  thread_trace_ok [XSendRaw [x01] true; XSendRaw [x02] true] [0%N; 0%N]
                  [XEvClosedQ 0 false; XEvWrite 0 [x01]; XEvClosedQ 0 false; XEvWrite 0 [x02]] = true.
Proof. vm_compute. repeat split. Qed.

(* the checker rejects the runs of the defective code: the panicking Send (Closed() = false, then
   neither a Write nor an encode error), and a Send that writes to the successor session *)
Definition cross_progs : list (list xop) := [[XConnect true; XSendRaw [x01] true]; [XReconnect true]].
Definition cross_sched : list nat := [0;0;0;0; 0;0;0; 1;1;1;1;1;1;1; 0].
Example ex_trace_rejects_pinned :
  (let r := xs_exec true 2 (xinit panic_progs [] 1) panic_sched in trace_ok panic_progs (fst r) (snd r)) = false /\
  (let r := xs_exec true 2 (xinit cross_progs [] 2) cross_sched in
   (xg_frames (glob (fst r)), trace_ok cross_progs (fst r) (snd r))) = ([(1, 0, [x01])], false) /\
  (let r := xs_exec false 2 (xinit cross_progs [] 2) cross_sched in
   (xg_frames (glob (fst r)), map x_rets (firstn 2 (thr (fst r))), trace_ok cross_progs (fst r) (snd r)))
  = ([(0, 0, [x01])], [[0; 4]%N; [0%N]], true).
Proof. vm_compute. repeat split. Qed.

(* The window between getErr() (errLock) and Session() (sessionLock) of the Go code is modelled
   (program counter XSendChecked): thread 0 passes the error check of its Send on session 0, thread 1
   runs a whole failing Reconnect (during which thread 0 is blocked), then thread 0 reads c.session = nil:
   "no active session" (1) without any Closed() query, although the sticky error is set by now.
   Taking the error check after the Reconnect instead gives the sticky error (2). *)
Definition gap_progs : list (list xop) := [[XConnect true; XSendRaw [x01] true]; [XReconnect false]].
Example send_window_now_modelled :
  let r := xs_exec false 2 (xinit gap_progs [] 1) ([0;0;0;0; 0] ++ repeat 1 7 ++ [0]) in
  let blocked k := match xs_step false 2 (fst (xs_exec false 2 (xinit gap_progs [] 1) ([0;0;0;0; 0] ++ repeat 1 k))) 0 with
                   | Some _ => false | None => true end in
  outcome r =
  ([(XIdle, [0; 1]%N); (XIdle, [6%N]); (XBgNotSpawned, [])], None, true, [], [0],
   [(0, XEvNew true); (1, XEvClosedQ 0 false); (1, XEvClose 0); (1, XEvNew false)]) /\
  trace_ok gap_progs (fst r) (snd r) = true /\
  map blocked [0; 1; 2; 3; 4; 5; 6; 7] = [false; true; true; true; true; true; true; false] /\
  map x_rets (firstn 1 (thr (fst (xs_exec false 2 (xinit gap_progs [] 1) ([0;0;0;0] ++ repeat 1 7 ++ [0]))))) = [[0; 2]%N].
Proof. vm_compute. repeat split. Qed.

(* the setErr step belongs to a Reconnect whose dial had exactly that outcome, and runs under the exclusive lock *)
Theorem seterr_is_reconnect progs plan readers c t l ok :
  reach false progs plan readers c -> nth_error (thr c) t = Some l -> x_pc l = XSetErr ok ->
  (exists ops, x_ops l = XReconnect ok :: ops) /\ rw_writer (xg_SL (glob c)) = Some t.
Proof.
  intros R Hl Hpc. apply reach_ginv in R. destruct (gi_threads _ _ R _ _ Hl) as [_ Lt].
  rewrite Hpc in Lt. destruct Lt as (W & Hr & Hd).
  apply is_reconnect_true in Hr as (ok' & ops & Hops & Hd'). split; [|exact W].
  exists ops. congruence.
Qed.

Print Assumptions reach_ginv.
Print Assumptions seterr_is_reconnect.
Print Assumptions reconnect_dials.
Print Assumptions no_panic.
Print Assumptions pinned_panics.
Print Assumptions pinned_poisons.
Print Assumptions one_frame.
Print Assumptions frame_iff_write.
Print Assumptions encode_error_writes_nothing.
Print Assumptions one_frame_exec.
Print Assumptions frames_account_reach.
Print Assumptions sticky.
Print Assumptions stale_reader_harmless.
Print Assumptions current_reader_reports.
Print Assumptions error_is_sticky.
Print Assumptions error_is_sticky_enabled.
Print Assumptions reconnect_clears.
Print Assumptions reconnect_failure_sets.
Print Assumptions no_session.
Print Assumptions session_captured.
Print Assumptions error_check_passes.
Print Assumptions connect_refused.
Print Assumptions new_only_without_session.
Print Assumptions failed_dial_no_session.
Print Assumptions close_logged.
Print Assumptions lifecycle.
Print Assumptions lockset.
Print Assumptions writes_under_lock.
Print Assumptions reads_outside_writer.
Print Assumptions no_deadlock.
Print Assumptions worker_blocked_only_by_lock.
Print Assumptions trace_parses.
