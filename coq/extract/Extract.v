From FF Require Import model.Bytes model.Run.
Require Extraction.
Require ExtrOcamlBasic.
Extraction Language OCaml.
Extraction "model.ml" run b2n n2b.
