(* Line-protocol driver around the extracted model.  Only hand-written OCaml.
   stdin : <id> TAB <entry> { TAB <arg> }      (args are ASCII byte strings)
   stdout: <id> TAB <rendering>                 *)

let byte_of_char (c : char) : Model.byte = (Obj.magic (Char.code c) : Model.byte)
let char_of_byte (b : Model.byte) : char = Char.chr (Obj.magic b : int)

let rec n_to_int (n : Model.n) : int =
  match n with
  | Model.N0 -> 0
  | Model.Npos p ->
    let rec pos = function Model.XH -> 1 | Model.XO q -> 2 * pos q | Model.XI q -> 2 * pos q + 1 in
    pos p

(* self-check of the constructor-index representation assumption used above *)
let () =
  for i = 0 to 255 do
    let b : Model.byte = Obj.magic i in
    if n_to_int (Model.b2n b) <> i then (prerr_endline "driver: byte representation self-check failed"; exit 3)
  done

let bytes_of_string (s : string) : Model.byte list =
  let r = ref [] in
  for i = String.length s - 1 downto 0 do r := byte_of_char s.[i] :: !r done;
  !r

let string_of_bytes (l : Model.byte list) : string =
  let b = Buffer.create 256 in
  List.iter (fun x -> Buffer.add_char b (char_of_byte x)) l;
  Buffer.contents b

let () =
  try
    while true do
      let line = input_line stdin in
      match String.split_on_char '\t' line with
      | id :: entry :: args ->
        let r = Model.run (bytes_of_string entry) (List.map bytes_of_string args) in
        print_string id; print_char '\t'; print_string (string_of_bytes r); print_char '\n'
      | _ -> ()
    done
  with End_of_file -> flush stdout
