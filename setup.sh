#!/bin/sh
# MANIFEST.setup_cmd: build the framework from files on disk only (offline).
set -e
cd "$(dirname "$0")"
export GOFLAGS=-mod=mod GOPROXY=off GOSUMDB=off GOTOOLCHAIN=local
mkdir -p build/bin evidence replays
( cd coq && coq_makefile -f _CoqProject -o Makefile && timeout 3000 make -j16 )
( cd coq/extract && timeout 900 coqc -R .. FF Extract.v && ocamlfind ocamlopt -O3 -w -a model.mli model.ml driver.ml -o driver )
cp /repo/go.sum harness/go.sum
( cd harness && go build -tags verif -o ../build/bin/vh ./cmd/vh && go build -race -tags verif -o ../build/bin/vh-race ./cmd/vh )
echo setup done
